import NixModel.Lemmas.C16Fx
import NixModel.Pure.FrameBlock
/-! Lemmas for C16: frames of a block are independent of each other; creation and copying. -/
namespace Nix.Frame

theorem lookup_append_ne {name n : String} {s : SFrame} (h : n ≠ name) : ∀ (l : List (String × SFrame)),
    lookup name (l ++ [(n, s)]) = lookup name l
  | [] => by simp [lookup, h]
  | (m, t) :: rest => by
    simp only [List.cons_append, lookup]
    split
    · rfl
    · exact lookup_append_ne h rest

theorem lookup_append_new {name : String} {s : SFrame} : ∀ (l : List (String × SFrame)),
    name ∉ l.map (·.1) → lookup name (l ++ [(name, s)]) = some s
  | [], _ => by simp [lookup]
  | (m, t) :: rest, h => by
    simp only [List.map_cons, List.mem_cons, not_or] at h
    simp only [List.cons_append, lookup]
    rw [if_neg (fun e => h.1 e.symm)]
    exact lookup_append_new rest h.2

theorem lookup_none_of_not_mem {name : String} : ∀ (l : List (String × SFrame)),
    name ∉ l.map (·.1) → lookup name l = none
  | [], _ => rfl
  | (m, t) :: rest, h => by
    simp only [List.map_cons, List.mem_cons, not_or] at h
    simp only [lookup]
    rw [if_neg (fun e => h.1 e.symm)]
    exact lookup_none_of_not_mem rest h.2

theorem lookup_mem {name : String} {s : SFrame} : ∀ {l : List (String × SFrame)}, lookup name l = some s →
    name ∈ l.map (·.1)
  | [], h => by simp [lookup] at h
  | (m, t) :: rest, h => by
    simp only [lookup] at h
    split at h
    · rename_i e; simp [e]
    · simp [lookup_mem h]

theorem lookup_replace_ne {name other : String} {s' : SFrame} (h : other ≠ name) : ∀ (l : List (String × SFrame)),
    lookup other (replace name s' l) = lookup other l
  | [] => rfl
  | (m, t) :: rest => by
    simp only [replace]
    split
    · rename_i e
      subst e
      simp [lookup, Ne.symm h]
    · simp only [lookup]
      split
      · rfl
      · exact lookup_replace_ne h rest

theorem lookup_replace_self {name : String} {s s' : SFrame} : ∀ {l : List (String × SFrame)},
    lookup name l = some s → lookup name (replace name s' l) = some s'
  | [], h => by simp [lookup] at h
  | (m, t) :: rest, h => by
    simp only [lookup] at h
    simp only [replace]
    split
    · rename_i e; simp [lookup, e]
    · rename_i e
      rw [if_neg e] at h
      simp only [lookup, if_neg e]
      exact lookup_replace_self h

theorem replace_names {name : String} {s' : SFrame} : ∀ (l : List (String × SFrame)),
    (replace name s' l).map (·.1) = l.map (·.1)
  | [] => rfl
  | (m, t) :: rest => by
    simp only [replace]
    split
    · simp
    · simp [replace_names rest]

end Nix.Frame
