import NixModel.Lemmas.C16Fx
import NixModel.Pure.FrameBlock
/-! Lemmas for C16: frames of a block are independent of each other; creation and copying. -/
namespace Nix.Frame

theorem lookup_append_ne {name n : String} {s : SFrame} (h : n ≠ name) : ∀ (l : List (String × SFrame)),
    lookup name (l ++ [(n, s)]) = lookup name l
  | [] => by simp [lookup, h]
  | (m, t) :: rest => by
    simp only [List.cons_append, lookup]
    split
    · rfl
    · exact lookup_append_ne h rest

theorem lookup_append_new {name : String} {s : SFrame} : ∀ (l : List (String × SFrame)),
    name ∉ l.map (·.1) → lookup name (l ++ [(name, s)]) = some s
  | [], _ => by simp [lookup]
  | (m, t) :: rest, h => by
    simp only [List.map_cons, List.mem_cons, not_or] at h
    simp only [List.cons_append, lookup]
    rw [if_neg (fun e => h.1 e.symm)]
    exact lookup_append_new rest h.2

theorem lookup_none_of_not_mem {name : String} : ∀ (l : List (String × SFrame)),
    name ∉ l.map (·.1) → lookup name l = none
  | [], _ => rfl
  | (m, t) :: rest, h => by
    simp only [List.map_cons, List.mem_cons, not_or] at h
    simp only [lookup]
    rw [if_neg (fun e => h.1 e.symm)]
    exact lookup_none_of_not_mem rest h.2

theorem lookup_mem {name : String} {s : SFrame} : ∀ {l : List (String × SFrame)}, lookup name l = some s →
    name ∈ l.map (·.1)
  | [], h => by simp [lookup] at h
  | (m, t) :: rest, h => by
    simp only [lookup] at h
    split at h
    · rename_i e; simp [e]
    · simp [lookup_mem h]

theorem lookup_replace_ne {name other : String} {s' : SFrame} (h : other ≠ name) : ∀ (l : List (String × SFrame)),
    lookup other (replace name s' l) = lookup other l
  | [] => rfl
  | (m, t) :: rest => by
    simp only [replace]
    split
    · rename_i e
      subst e
      simp [lookup, Ne.symm h]
    · simp only [lookup]
      split
      · rfl
      · exact lookup_replace_ne h rest

theorem lookup_replace_self {name : String} {s s' : SFrame} : ∀ {l : List (String × SFrame)},
    lookup name l = some s → lookup name (replace name s' l) = some s'
  | [], h => by simp [lookup] at h
  | (m, t) :: rest, h => by
    simp only [lookup] at h
    simp only [replace]
    split
    · rename_i e; simp [lookup, e]
    · rename_i e
      rw [if_neg e] at h
      simp only [lookup, if_neg e]
      exact lookup_replace_self h

theorem replace_names {name : String} {s' : SFrame} : ∀ (l : List (String × SFrame)),
    (replace name s' l).map (·.1) = l.map (·.1)
  | [] => rfl
  | (m, t) :: rest => by
    simp only [replace]
    split
    · simp
    · simp [replace_names rest]

theorem removeName_of_not_mem {name : String} : ∀ (l : List (String × SFrame)), name ∉ l.map (·.1) →
    removeName name l = l
  | [], _ => rfl
  | (n, s) :: rest, h => by
    simp only [List.map_cons, List.mem_cons, not_or] at h
    have hne : ¬ n = name := fun e => h.1 e.symm
    simp only [removeName, if_neg hne, removeName_of_not_mem rest h.2]

theorem removeName_append_self {name : String} {s : SFrame} : ∀ (l : List (String × SFrame)),
    name ∉ l.map (·.1) → removeName name (l ++ [(name, s)]) = l
  | [], _ => by simp [removeName]
  | (n, t) :: rest, h => by
    simp only [List.map_cons, List.mem_cons, not_or] at h
    have hne : ¬ n = name := fun e => h.1 e.symm
    simp only [List.cons_append, removeName, if_neg hne, removeName_append_self rest h.2]

theorem fxBlkCreate_eq (b : Blk) (name : String) (cols : List (String × ColType))
    (data : Option (List (List Val))) :
    (fxBlkCreate b name cols data).1 = (blkCreate b name (sCreated (createWith cols data))).1 ∧
    ((fxBlkCreate b name cols data).2 = none ↔ (blkCreate b name (sCreated (createWith cols data))).2 = none) := by
  unfold fxBlkCreate blkCreate
  by_cases hn : name ∈ b.names
  · simp [hn]
  · simp only [hn, if_false]
    unfold createWith sCreated
    cases mkDtype cols with
    | error e => simp [Except.map]
    | ok c =>
      simp only []
      cases data with
      | none =>
        simp only [Option.getD, npRows]
        by_cases he : c.isEmpty = true
        · simp [he, Except.map]
        · simp [he, Except.map, h5RowsOk, encFrame]
      | some rows =>
        simp only [Option.getD]
        cases hnp : npRows (c.map (·.2)) rows with
        | error e =>
          cases hc : convRows (c.map (·.2)) rows with
          | error e' => simp [Except.map]
          | ok rs =>
            have := (convRows_two_stage.1 hc).1
            rw [hnp] at this; cases this
        | ok rs =>
          simp only []
          by_cases he : c.isEmpty = true
          · cases hc : convRows (c.map (·.2)) rows <;> simp [he, Except.map]
          · simp only [he]
            by_cases hok : h5RowsOk (c.map (·.2)) rs = true
            · have hc := convRows_two_stage.2 ⟨hnp, hok⟩
              simp [hok, hc, Except.map, encFrame]
            · cases hc : convRows (c.map (·.2)) rows with
              | error e' =>
                simp only [hok, Except.map]
                refine ⟨?_, by simp⟩
                rw [removeName_append_self b.frames hn]
                simp
              | ok rs' =>
                obtain ⟨h1, h2⟩ := convRows_two_stage.1 hc
                rw [hnp] at h1; injection h1 with h1; subst h1
                exact absurd h2 hok

end Nix.Frame
