import NixModel.Pure.Units

/-! Helper lemmas for C09 (tables by kernel evaluation, then lifted by list membership). -/
namespace Nix.Units.Lemmas
open Nix.Units Nix.Units.Gen

def optPrefixes : List Str := [] :: prefixes

/-- power texts for −3…3 (0 is not in the grammar; the empty text is power 1) -/
def powerTexts : List Str :=
  [[], ['^', '1'], ['^', '+', '1'], ['^', '2'], ['^', '+', '2'], ['^', '3'], ['^', '+', '3'],
   ['^', '-', '1'], ['^', '-', '2'], ['^', '-', '3']]

def expOf (p : Str) : Int := match prefixExpOf p with | some e => e | none => 0

def powVal (w : Str) : Int := if w.isEmpty then 1 else match pyInt (w.drop 1) with | some k => k | none => 1

def atomRow (p u w : Str) : Bool :=
  isAtomic (p ++ u ++ w) && isSi (p ++ u ++ w) && (split (p ++ u ++ w) == (p, u, w.drop 1))

def atomTableOK : Bool := optPrefixes.all fun p => units.all fun u => powerTexts.all fun w => atomRow p u w

theorem atomTableOK_true : atomTableOK = true := by decide +kernel

theorem atom_table (p u w : Str) (hp : p ∈ optPrefixes) (hu : u ∈ units) (hw : w ∈ powerTexts) :
    isAtomic (p ++ u ++ w) = true ∧ isSi (p ++ u ++ w) = true ∧
    split (p ++ u ++ w) = (p, u, w.drop 1) := by
  have h := atomTableOK_true
  unfold atomTableOK at h
  rw [List.all_eq_true] at h
  have h1 := h p hp
  rw [List.all_eq_true] at h1
  have h2 := h1 u hu
  rw [List.all_eq_true] at h2
  have h3 := h2 w hw
  unfold atomRow at h3
  simp only [Bool.and_eq_true, beq_iff_eq] at h3
  exact ⟨h3.1.1, h3.1.2, h3.2⟩

end Nix.Units.Lemmas
