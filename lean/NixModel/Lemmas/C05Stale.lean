import NixModel.Lemmas.C05Alias

/-! Handles that stand for no member of any block: a node no group links any more (`Detached`: what a handle kept
across `del block.data_arrays[…]` stands for — HDF5 keeps the object alive as long as the handle is open) is refused
by every link list, by `positions` / `extents` and by feature data. -/
namespace Nix.Store.Lemmas
open Nix.Store Nix.Store.Graph

/-- no group of the file links the node `k` -/
def Detached (g : Graph) (k : Nat) : Prop := ∀ p l, l ∈ g.links p → l.2 ≠ k

theorem getByName_mem {g : Graph} {c : Option Nat} {nm : String} {l : String × Nat}
    (h : getByName g c nm = some l) : ∃ p, l ∈ g.links p := by
  unfold getByName cLinks at h
  cases c with
  | none => simp at h
  | some cn => exact ⟨cn, List.mem_of_find?_eq_some h⟩

theorem inBlockStore_detached {g : Graph} {k : Nat} (hd : Detached g k) (b : Nat) (store : String) :
    inBlockStore g b store k = false := by
  cases h : inBlockStore g b store k with
  | false => rfl
  | true =>
    obtain ⟨nm, l, _, hl, he⟩ := (inBlockStore_iff g b store k).mp h
    obtain ⟨p, hp⟩ := getByName_mem hl
    exact absurd he (hd p l hp)

/-- everything the breadth-first collection returns was in the queue, in the accumulator, or is the target of a link -/
theorem bfsKeys_mem (g : Graph) (sub : String) : ∀ (fuel : Nat) (q acc : List Nat) (x : Nat),
    x ∈ bfsKeys g sub fuel q acc → x ∈ acc ∨ x ∈ q ∨ ∃ p l, l ∈ g.links p ∧ l.2 = x
  | 0, q, acc, x, h => by simp [bfsKeys] at h; exact Or.inl h
  | fuel + 1, [], acc, x, h => by simp [bfsKeys] at h; exact Or.inl h
  | fuel + 1, k :: queue, acc, x, h => by
    simp only [bfsKeys] at h
    rcases bfsKeys_mem g sub fuel _ _ x h with h1 | h1 | h1
    · rcases List.mem_append.mp h1 with h2 | h2
      · exact Or.inl h2
      · simp at h2; exact Or.inr (Or.inl (by simp [h2]))
    · rcases List.mem_append.mp h1 with h2 | h2
      · exact Or.inr (Or.inl (by simp [h2]))
      · right; right
        cases hc : g.child? k sub with
        | none => simp [hc] at h2
        | some c =>
          simp only [hc, List.mem_map] at h2
          obtain ⟨l, hl, he⟩ := h2
          exact ⟨c, l, hl, he⟩
    · exact Or.inr (Or.inr h1)

theorem inSourceTreeObj_detached {g : Graph} {k : Nat} (hd : Detached g k) (b : Nat) :
    inSourceTreeObj g b k = false := by
  cases h : inSourceTreeObj g b k with
  | false => rfl
  | true =>
    exfalso
    unfold inSourceTreeObj at h
    cases hc : g.child? b "sources" with
    | none => simp [hc] at h
    | some c =>
      simp only [hc, List.any_eq_true, List.mem_map] at h
      obtain ⟨top, ⟨l, hl, hlt⟩, hk⟩ := h
      have hk' : k ∈ subtreeKeys g "sources" top := by simpa using hk
      unfold subtreeKeys at hk'
      rcases bfsKeys_mem g "sources" _ _ _ k hk' with h1 | h1 | ⟨p, l', hl', he⟩
      · simp at h1
      · simp at h1
        exact hd c l hl (by rw [hlt, h1])
      · exact hd p l' hl' he

/-- a link list (group member lists, references, source lists) refuses a detached node -/
theorem contAppend_detached {g : Graph} {k : Nat} (hd : Detached g k) (c : Cont) :
    ∃ e, contAppend g c (.ent k) = .error e := by
  unfold contAppend
  cases hf : c.info.flavour with
  | link =>
    simp only
    cases hid : g.entityId k with
    | none => exact ⟨_, rfl⟩
    | some id =>
      cases hb : c.block with
      | none => exact ⟨_, rfl⟩
      | some b =>
        simp only
        by_cases hk : (kindOf g k != c.info.item) = true
        · simp only [hk, ↓reduceIte]; exact ⟨_, rfl⟩
        · have hs := inBlockStore_detached hd b c.info.store
          unfold inBlockStore at hs
          simp only [hk, Bool.false_eq_true, ↓reduceIte]
          cases hn : g.getAttr k "name" with
          | none => simp
          | some nm =>
            simp only [hn] at hs
            cases hl : getByName g (g.child? b c.info.store) nm with
            | none => simp [hl]
            | some l =>
              simp only [hl] at hs
              simp [hl, hs]
  | sourceLink =>
    simp only
    cases hid : g.entityId k with
    | none => exact ⟨_, rfl⟩
    | some id =>
      cases hb : c.block with
      | none => exact ⟨_, rfl⟩
      | some b =>
        simp only [inSourceTreeObj_detached hd b, Bool.and_false]
        exact ⟨_, rfl⟩
  | _ => exact ⟨_, rfl⟩

/-- `positions`, `extents` and feature data refuse a detached node -/
theorem setRole_detached {g : Graph} {t : Nat} (hd : Detached g t) (p : Path) (role : String)
    (hrole : role = "positions" ∨ role = "extents" ∨ role = "data") :
    ∃ e, setRole g p role (some t) = .error e := by
  have h1 := inBlockStore_detached hd
  rcases hrole with rfl | rfl | rfl <;>
  · unfold setRole
    cases ho : resolve g rootLoc p with
    | none => exact ⟨_, rfl⟩
    | some o =>
      simp only [h1]
      repeat' split
      all_goals first | exact ⟨_, rfl⟩ | simp_all

end Nix.Store.Lemmas
