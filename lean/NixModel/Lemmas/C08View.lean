import NixModel.Lemmas.C08Slices

/-!
Lemmas for C08, part 3: from the slice tuple to the `DataView` (C06's `mkView`) and to `_slices_in_data`.
-/
namespace Nix.Tagging
open Nix Nix.Dim Nix.DataView Nix.Units

theorem windowsIn_stopsIn (ws : List Win) (shape : List Nat) (h : WindowsIn ws shape) :
    stopsIn ws shape = true := by
  induction ws generalizing shape with
  | nil => cases shape <;> simp [stopsIn]
  | cons w ws ih =>
    cases shape with
    | nil => simp [WindowsIn] at h
    | cons n shape =>
      obtain ⟨⟨_, _, h3⟩, h4⟩ := h
      simp [stopsIn, h3, ih shape h4]

/-- the three ways a region request can come out, at the level of the slice tuple -/
inductive SliceCase (stop : SliceMode) (A : Arr) (pos ext scs : List Rat) (sl : List (Option Win)) : Prop
  /-- a `None` entry: an axis without any sample in its region; `_slices_in_data` is false, the view invalid -/
  | empty (h1 : allSome sl = none) (h2 : EmptyAxis stop A.dims pos ext scs)
      (h3 : slicesInData A.shape sl = .ok false) (h4 : (mkView A.shape (some sl)).valid = false)
  /-- all slices present and inside the stored extent: `_slices_in_data` is true, the view is valid, its
  windows are the slices, and they are exact -/
  | exact (ws : List Win) (h1 : allSome sl = some ws) (h3 : slicesInData A.shape sl = .ok true)
      (h4 : mkView A.shape (some sl) = ⟨A.shape, true, ws⟩) (h5 : WindowsIn ws A.shape)
      (h6 : WindowsExact stop A.dims A.shape pos ext scs ws)
  /-- all slices present, one reaches beyond the stored extent: `_slices_in_data` is false, the view invalid,
  and the region of that axis contains a sample that is not stored -/
  | beyond (ws : List Win) (h1 : allSome sl = some ws) (h2 : BeyondAxis stop A.dims A.shape pos ext scs)
      (h3 : slicesInData A.shape sl = .ok false) (h4 : (mkView A.shape (some sl)).valid = false)

/-- `_calc_data_slices` followed by `_slices_in_data` / `DataView(...)`, for any rank -/
theorem region_core (stop : SliceMode) (A : Arr) (pos ext : List Rat) (units : Option (List Str))
    (scs : List Rat) (hrank : A.dims.length = A.shape.length)
    (hok : AxesOK stop A.dims pos ext units scs) :
    match calcSlices stop A.dims A.shape pos ext units with
    | .error e => e = .indexError ∧ EmptyAxis stop A.dims pos ext scs
    | .ok sl => SliceCase stop A pos ext scs sl := by
  have h := calcSlices_spec stop A.dims A.shape pos ext units scs hrank hok
  cases hc : calcSlices stop A.dims A.shape pos ext units with
  | error e => rw [hc] at h; exact h
  | ok sl =>
    rw [hc] at h
    simp only []
    cases hs : allSome sl with
    | none =>
      refine SliceCase.empty hs (slicesSpec_none h hs) ?_ ?_
      · simp [slicesInData, hs]
      · simp [mkView, hs]
    | some ws =>
      obtain ⟨h1, h2, h3, h4⟩ := slicesSpec_some h hrank ws hs
      have hin : slicesInData A.shape sl = .ok (stopsIn ws A.shape) := by
        simp only [slicesInData, hs]
        exact npAllLe_eq ws A.shape h2
      cases hst : stopsIn ws A.shape with
      | true =>
        obtain ⟨hw1, hw2⟩ := h3 hst
        refine SliceCase.exact ws hs (by rw [hin, hst]) ?_ hw1 hw2
        rw [h1]
        exact mkView_ok A.shape ws hw1
      | false =>
        refine SliceCase.beyond ws hs (h4 hst) (by rw [hin, hst]) ?_
        rw [h1]
        cases hv : (mkView A.shape (some (ws.map some))).valid with
        | false => rfl
        | true =>
          have := windowsIn_stopsIn ws A.shape ((mkView_valid_iff A.shape ws).mp hv)
          rw [hst] at this
          cases this

end Nix.Tagging
