import NixModel.Lemmas.StoreWFBasic
import NixModel.Store.ApiW

/-!
# C12 — "the file is as it was": the observational relation and its calculus

`Unch g g'` (the graph `g'` reached by a refused call, against the graph `g` before it):

 * every node of `g` is still there, with the same attributes (`getAttr`, every attribute) and the
   same links in the same order — except that *entity nodes and the root* may have gained links, at
   the end of their list, to **new, empty, attribute-less groups** (the container groups nixio opens
   eagerly: `open_group("sections", True)`, `Dimension.__init__`, `Feature.create_new` … — no
   container, link list or attribute of the public API shows an empty container group);
 * nodes that are new in `g'` (the half-built entity a roll-back has unlinked, its dataset) are not
   the target of any link of an old node other than such an empty group — they are unreachable;
 * the key and id supplies may have advanced; new nodes carry keys drawn from the supply during
   the call (`news`), so no link that existed before can lead to one of them.

`SameOn P` is the frame relation for one primitive step (nodes satisfying `P` untouched), `Plus`
the state between "entity linked into its container" and "entity unlinked again".
-/
namespace Nix.Store.Lemmas
open Nix.Store Nix.Store.Graph

/-- the node exists -/
abbrev Has (g : Graph) (k : Nat) : Prop := (g.node? k).isSome = true

/-- a group without links and attributes (what `ensureGroup` creates) -/
def EmptyGroup (g : Graph) (k : Nat) : Prop :=
  Has g k ∧ g.links k = [] ∧ ∀ a, g.getAttr k a = none

/-- every node keeps existing; nodes satisfying `P` keep attributes and links; supplies advance -/
structure SameOn (P : Nat → Prop) (g g' : Graph) : Prop where
  nextKey_le : g.nextKey ≤ g'.nextKey
  nextId_le : g.nextId ≤ g'.nextId
  keeps : ∀ k, Has g k → Has g' k
  news : ∀ k, Has g' k → Has g k ∨ (g.nextKey ≤ k ∧ k < g'.nextKey)
  attrs : ∀ k, P k → ∀ a, g'.getAttr k a = g.getAttr k a
  links : ∀ k, P k → g'.links k = g.links k

theorem SameOn.refl (P : Nat → Prop) (g : Graph) : SameOn P g g :=
  ⟨Nat.le_refl _, Nat.le_refl _, fun _ h => h, fun _ h => .inl h, fun _ _ _ => rfl, fun _ _ => rfl⟩

/-- new nodes of two consecutive steps -/
theorem news_trans {g g1 g2 : Graph} (l1 : g.nextKey ≤ g1.nextKey) (l2 : g1.nextKey ≤ g2.nextKey)
    (n1 : ∀ k, Has g1 k → Has g k ∨ (g.nextKey ≤ k ∧ k < g1.nextKey))
    (n2 : ∀ k, Has g2 k → Has g1 k ∨ (g1.nextKey ≤ k ∧ k < g2.nextKey)) :
    ∀ k, Has g2 k → Has g k ∨ (g.nextKey ≤ k ∧ k < g2.nextKey) := by
  intro k hk
  rcases n2 k hk with h | h
  · rcases n1 k h with h' | h'
    · exact .inl h'
    · exact .inr ⟨h'.1, Nat.lt_of_lt_of_le h'.2 l2⟩
  · exact .inr ⟨Nat.le_trans l1 h.1, h.2⟩

theorem SameOn.trans {P : Nat → Prop} {g g1 g2 : Graph} (h1 : SameOn P g g1) (h2 : SameOn P g1 g2) :
    SameOn P g g2 :=
  ⟨Nat.le_trans h1.nextKey_le h2.nextKey_le, Nat.le_trans h1.nextId_le h2.nextId_le,
   fun k h => h2.keeps k (h1.keeps k h),
   news_trans h1.nextKey_le h2.nextKey_le h1.news h2.news,
   fun k hp a => (h2.attrs k hp a).trans (h1.attrs k hp a),
   fun k hp => (h2.links k hp).trans (h1.links k hp)⟩

theorem SameOn.mono {P Q : Nat → Prop} {g g' : Graph} (h : SameOn P g g') (hq : ∀ k, Q k → P k) :
    SameOn Q g g' :=
  ⟨h.nextKey_le, h.nextId_le, h.keeps, h.news, fun k hk => h.attrs k (hq k hk), fun k hk => h.links k (hq k hk)⟩

theorem sameOn_freshId (P : Nat → Prop) (g : Graph) : SameOn P g (g.freshId).1 :=
  ⟨Nat.le_refl _, Nat.le_succ _, fun _ h => h, fun _ h => .inl h, fun _ _ _ => rfl, fun _ _ => rfl⟩

theorem sameOn_setAttr {P : Nat → Prop} (g : Graph) {k : Nat} (a : String) (v : Option String)
    (hk : ¬ P k) : SameOn P g (g.setAttr k a v) :=
  ⟨Nat.le_refl _, Nat.le_refl _,
   fun k' h => by unfold Has; rw [node?_isSome_setAttr]; exact h,
   fun k' h => by unfold Has at h; rw [node?_isSome_setAttr] at h; exact .inl h,
   fun k' hp a' => getAttr_setAttr_ne g a v (fun (e : k' = k) => hk (e ▸ hp)) a',
   fun k' _ => links_setAttr g k a v k'⟩

theorem sameOn_addLink {P : Nat → Prop} (g : Graph) {p : Nat} (n : String) (t : Nat)
    (hp : ¬ P p) : SameOn P g (g.addLink p n t) :=
  ⟨Nat.le_refl _, Nat.le_refl _,
   fun k' h => by unfold Has; rw [node?_isSome_addLink]; exact h,
   fun k' h => by unfold Has at h; rw [node?_isSome_addLink] at h; exact .inl h,
   fun k' _ a' => getAttr_addLink g p n t k' a',
   fun k' hk => links_addLink_ne g n t (fun (e : k' = p) => hp (e ▸ hk))⟩

theorem sameOn_delLink {P : Nat → Prop} (g : Graph) {p : Nat} (n : String)
    (hp : ¬ P p) : SameOn P g (g.delLink p n) :=
  ⟨Nat.le_refl _, Nat.le_refl _,
   fun k' h => by unfold Has; rw [node?_isSome_delLink]; exact h,
   fun k' h => by unfold Has at h; rw [node?_isSome_delLink] at h; exact .inl h,
   fun k' _ a' => getAttr_delLink g p n k' a',
   fun k' hk => links_delLink_ne g n (fun (e : k' = p) => hp (e ▸ hk))⟩

/-- `H5Group.create_link` on a node outside `P` -/
theorem sameOn_createLinkIn {P : Nat → Prop} (g : Graph) {k : Nat} (n : String) (t : Nat)
    (hk : ¬ P k) : SameOn P g (createLinkIn g k n t) := by
  unfold createLinkIn
  split
  · exact (sameOn_delLink g n hk).trans (sameOn_addLink _ n t hk)
  · exact sameOn_addLink g n t hk

theorem sameOn_newNode (P : Nat → Prop) (g : Graph) (kd : NKind) : SameOn P g (g.newNode kd).1 :=
  ⟨Nat.le_succ _, Nat.le_refl _,
   fun k' h => by unfold Has at *; rw [node?_isSome_newNode, h]; rfl,
   fun k' h => by
     unfold Has at *
     rw [node?_isSome_newNode] at h
     cases hk : (g.node? k').isSome with
     | true => exact .inl rfl
     | false =>
       simp [hk] at h
       exact .inr ⟨Nat.le_of_eq h.symm, by show k' < g.nextKey + 1; omega⟩,
   fun k' _ a' => getAttr_newNode g kd k' a',
   fun k' _ => links_newNode g kd k'⟩

theorem sameOn_addDataset {P : Nat → Prop} (g : Graph) {k : Nat} (n : String) (hk : ¬ P k) :
    SameOn P g (addDataset g k n) := by
  unfold addDataset
  split
  · exact SameOn.refl P g
  · exact (sameOn_newNode P g .dataset).trans (sameOn_addLink _ n _ hk)

/-- the four attribute writes of `Entity.create_new` / `Feature.create_new` on a node outside `P` -/
theorem sameOn_setAttr4 {P : Nat → Prop} (g : Graph) {k : Nat} (a1 a2 a3 a4 : String)
    (v1 v2 v3 v4 : Option String) (hk : ¬ P k) :
    SameOn P g ((((g.setAttr k a1 v1).setAttr k a2 v2).setAttr k a3 v3).setAttr k a4 v4) :=
  (((sameOn_setAttr g a1 v1 hk).trans (sameOn_setAttr _ a2 v2 hk)).trans
    (sameOn_setAttr _ a3 v3 hk)).trans (sameOn_setAttr _ a4 v4 hk)

/-! ## keys below the supply -/

def KeysLt (g : Graph) : Prop := ∀ k, Has g k → k < g.nextKey

theorem KeysLt.fresh {g : Graph} (h : KeysLt g) : ¬ Has g g.nextKey :=
  fun hk => Nat.lt_irrefl _ (h _ hk)

theorem keysLt_freshId {g : Graph} (h : KeysLt g) : KeysLt (g.freshId).1 := h

theorem has_ensureGroup {g : Graph} {p : Nat} {n : String} {k : Nat}
    (h : Has (g.ensureGroup p n).1 k) : Has g k ∨ k = g.nextKey := by
  cases hc : g.child? p n with
  | some c => rw [ensureGroup_of_some hc] at h; exact .inl h
  | none =>
    rw [ensureGroup_of_none hc] at h
    unfold Has at h
    rw [node?_isSome_addLink, node?_isSome_newNode] at h
    cases hk : (g.node? k).isSome with
    | true => exact .inl hk
    | false => simp [hk] at h; exact .inr h

theorem nextKey_ensureGroup_le (g : Graph) (p : Nat) (n : String) :
    g.nextKey ≤ (g.ensureGroup p n).1.nextKey ∧
      ((g.ensureGroup p n).1.nextKey = g.nextKey ∨
       ((g.ensureGroup p n).1.nextKey = g.nextKey + 1 ∧ g.child? p n = none)) := by
  cases hc : g.child? p n with
  | some c => rw [ensureGroup_of_some hc]; exact ⟨Nat.le_refl _, .inl rfl⟩
  | none => rw [ensureGroup_of_none hc]; exact ⟨Nat.le_succ _, .inr ⟨rfl, rfl⟩⟩

theorem keysLt_ensureGroup {g : Graph} (h : KeysLt g) (p : Nat) (n : String) :
    KeysLt (g.ensureGroup p n).1 := by
  intro k hk
  cases hc : g.child? p n with
  | some c => rw [ensureGroup_of_some hc] at hk ⊢; exact h k hk
  | none =>
    rcases has_ensureGroup hk with h1 | h1
    · rw [ensureGroup_of_none hc]
      exact Nat.lt_succ_of_lt (h k h1)
    · rw [ensureGroup_of_none hc, h1]
      exact Nat.lt_succ_self _

/-! ## linked in, and unlinked again -/

/-- like `SameOn P`, except that the old node `c` has gained the link `(n, k)` at the end -/
structure Plus (P : Nat → Prop) (g g' : Graph) (c : Nat) (n : String) (k : Nat) : Prop where
  nextKey_le : g.nextKey ≤ g'.nextKey
  nextId_le : g.nextId ≤ g'.nextId
  keeps : ∀ k', Has g k' → Has g' k'
  news : ∀ k, Has g' k → Has g k ∨ (g.nextKey ≤ k ∧ k < g'.nextKey)
  attrs : ∀ k', P k' → ∀ a, g'.getAttr k' a = g.getAttr k' a
  links_ne : ∀ k', P k' → k' ≠ c → g'.links k' = g.links k'
  links_c : g'.links c = g.links c ++ [(n, k)]

theorem Plus.then {P : Nat → Prop} {g g1 g2 : Graph} {c k : Nat} {n : String}
    (h : Plus P g g1 c n k) (h2 : SameOn (fun x => P x ∨ x = c) g1 g2) : Plus P g g2 c n k :=
  ⟨Nat.le_trans h.nextKey_le h2.nextKey_le, Nat.le_trans h.nextId_le h2.nextId_le,
   fun k' hk => h2.keeps k' (h.keeps k' hk),
   news_trans h.nextKey_le h2.nextKey_le h.news h2.news,
   fun k' hp a => (h2.attrs k' (.inl hp) a).trans (h.attrs k' hp a),
   fun k' hp hne => (h2.links k' (.inl hp)).trans (h.links_ne k' hp hne),
   (h2.links c (.inr rfl)).trans h.links_c⟩

theorem plus_ensureGroup (P : Nat → Prop) {g : Graph} {c : Nat} {n : String} (hc : Has g c)
    (hnone : g.child? c n = none) : Plus P g (g.ensureGroup c n).1 c n g.nextKey := by
  refine ⟨(nextKey_ensureGroup_le g c n).1, Nat.le_of_eq (nextId_ensureGroup g c n).symm, ?_, ?_, ?_, ?_, ?_⟩
  · intro k' hk
    rw [ensureGroup_of_none hnone]
    unfold Has at *
    rw [node?_isSome_addLink, node?_isSome_newNode, hk]; rfl
  · intro k' hk
    rcases has_ensureGroup hk with h | h
    · exact .inl h
    · refine .inr ⟨Nat.le_of_eq h.symm, ?_⟩
      rw [ensureGroup_of_none hnone, h]
      exact Nat.lt_succ_self _
  · intro k' _ a; exact getAttr_ensureGroup g c n k' a
  · intro k' _ hne
    rw [links_ensureGroup g n hc k']
    simp [hne]
  · rw [links_ensureGroup g n hc c]
    simp [hnone]

theorem filter_ne_append_self {l : List (String × Nat)} {n : String} {k : Nat}
    (h : ∀ x ∈ l, x.1 ≠ n) : (l ++ [(n, k)]).filter (fun x => x.1 != n) = l := by
  rw [List.filter_append]
  have h1 : l.filter (fun x => x.1 != n) = l := by
    apply List.filter_eq_self.mpr
    intro x hx
    simpa using h x hx
  rw [h1]
  simp

/-- the roll-back: `del container[name]` restores the container's link list exactly -/
theorem Plus.delLink {P : Nat → Prop} {g g1 : Graph} {c k : Nat} {n : String}
    (h : Plus P g g1 c n k) (hnone : g.child? c n = none) : SameOn P g (g1.delLink c n) := by
  refine ⟨h.nextKey_le, h.nextId_le, ?_, ?_, ?_, ?_⟩
  · intro k' hk
    unfold Has
    rw [node?_isSome_delLink]
    exact h.keeps k' hk
  · intro k' hk
    unfold Has at hk
    rw [node?_isSome_delLink] at hk
    exact h.news k' hk
  · intro k' hp a
    rw [getAttr_delLink]
    exact h.attrs k' hp a
  · intro k' hp
    by_cases hk : k' = c
    · subst hk
      rw [links_delLink_self, h.links_c]
      exact filter_ne_append_self (child?_none_iff.mp hnone)
    · rw [links_delLink_ne _ _ hk]
      exact h.links_ne k' hp hk

/-! ## the relation of the property -/

structure Unch (g g' : Graph) : Prop where
  nextKey_le : g.nextKey ≤ g'.nextKey
  nextId_le : g.nextId ≤ g'.nextId
  keeps : ∀ k, Has g k → Has g' k
  news : ∀ k, Has g' k → Has g k ∨ (g.nextKey ≤ k ∧ k < g'.nextKey)
  attrs : ∀ k, Has g k → ∀ a, g'.getAttr k a = g.getAttr k a
  links : ∀ k, Has g k → ∃ extra, g'.links k = g.links k ++ extra ∧
    ∀ l ∈ extra, ¬ Has g l.2 ∧ EmptyGroup g' l.2 ∧ (k = 0 ∨ kindOf g k ≠ "")

theorem Unch.refl (g : Graph) : Unch g g :=
  ⟨Nat.le_refl _, Nat.le_refl _, fun _ h => h, fun _ h => .inl h, fun _ _ _ => rfl,
   fun _ _ => ⟨[], by simp, by simp⟩⟩

theorem SameOn.unch {g g' : Graph} (h : SameOn (Has g) g g') : Unch g g' :=
  ⟨h.nextKey_le, h.nextId_le, h.keeps, h.news, h.attrs,
   fun k hk => ⟨[], by simp [h.links k hk], by simp⟩⟩

theorem kindOf_of_attrs {g g' : Graph} {k : Nat} (h : ∀ a, g'.getAttr k a = g.getAttr k a) :
    kindOf g' k = kindOf g k := by
  unfold kindOf; rw [h]

theorem Unch.then_same {g g1 g2 : Graph} (h : Unch g g1) (h2 : SameOn (Has g1) g1 g2) : Unch g g2 := by
  refine ⟨Nat.le_trans h.nextKey_le h2.nextKey_le, Nat.le_trans h.nextId_le h2.nextId_le,
    fun k hk => h2.keeps k (h.keeps k hk), news_trans h.nextKey_le h2.nextKey_le h.news h2.news,
    fun k hk a => (h2.attrs k (h.keeps k hk) a).trans (h.attrs k hk a), ?_⟩
  intro k hk
  obtain ⟨extra, he, hx⟩ := h.links k hk
  refine ⟨extra, (h2.links k (h.keeps k hk)).trans he, ?_⟩
  intro l hl
  obtain ⟨h1, ⟨e1, e2, e3⟩, h3⟩ := hx l hl
  refine ⟨h1, ⟨h2.keeps _ e1, (h2.links _ e1).trans e2, fun a => (h2.attrs _ e1 a).trans (e3 a)⟩, h3⟩

theorem Unch.after_same {g g1 g2 : Graph} (h1 : SameOn (Has g) g g1) (h : Unch g1 g2) : Unch g g2 := by
  refine ⟨Nat.le_trans h1.nextKey_le h.nextKey_le, Nat.le_trans h1.nextId_le h.nextId_le,
    fun k hk => h.keeps k (h1.keeps k hk), news_trans h1.nextKey_le h.nextKey_le h1.news h.news,
    fun k hk a => (h.attrs k (h1.keeps k hk) a).trans (h1.attrs k hk a), ?_⟩
  intro k hk
  obtain ⟨extra, he, hx⟩ := h.links k (h1.keeps k hk)
  refine ⟨extra, by rw [he, h1.links k hk], ?_⟩
  intro l hl
  obtain ⟨n1, n2, n3⟩ := hx l hl
  refine ⟨fun hh => n1 (h1.keeps _ hh), n2, ?_⟩
  rcases n3 with n3 | n3
  · exact .inl n3
  · exact .inr (by rw [← kindOf_of_attrs (h1.attrs k hk)]; exact n3)

/-- opening (creating) a container group of an entity or of the root -/
theorem unch_ensureGroup {g : Graph} {p : Nat} (n : String) (hp : Has g p)
    (hk : p = 0 ∨ kindOf g p ≠ "") (hf : ¬ Has g g.nextKey) : Unch g (g.ensureGroup p n).1 := by
  cases hc : g.child? p n with
  | some c => rw [ensureGroup_of_some hc]; exact Unch.refl g
  | none =>
    have hpl := plus_ensureGroup (fun _ => True) hp hc
    refine ⟨hpl.nextKey_le, hpl.nextId_le, hpl.keeps, hpl.news, fun k _ a => hpl.attrs k trivial a, ?_⟩
    intro k hkk
    by_cases hkp : k = p
    · subst hkp
      refine ⟨[(n, g.nextKey)], hpl.links_c, ?_⟩
      intro l hl
      simp only [List.mem_singleton] at hl
      subst hl
      have hne : g.nextKey ≠ k := fun e => hf (e ▸ hkk)
      have hnone : g.node? g.nextKey = none := by
        cases hh : g.node? g.nextKey with
        | none => rfl
        | some x => exact absurd (by unfold Has; rw [hh]; rfl) hf
      refine ⟨hf, ⟨?_, ?_, ?_⟩, hk⟩
      · rw [ensureGroup_of_none hc]
        unfold Has
        rw [node?_isSome_addLink, node?_isSome_newNode]; simp
      · rw [links_ensureGroup g n hkk]
        simp only [hne, false_and, ↓reduceIte]
        exact links_of_node?_none hnone
      · intro a
        rw [getAttr_ensureGroup]
        exact getAttr_of_node?_none hnone a
    · exact ⟨[], by simp [hpl.links_ne k trivial hkp], by simp⟩

/-- the relation composes (the root exists before the call, so no ghost node is the root) -/
theorem Unch.trans {g g1 g2 : Graph} (hroot : Has g 0) (h1 : Unch g g1) (h2 : Unch g1 g2) : Unch g g2 := by
  refine ⟨Nat.le_trans h1.nextKey_le h2.nextKey_le, Nat.le_trans h1.nextId_le h2.nextId_le,
    fun k hk => h2.keeps k (h1.keeps k hk), news_trans h1.nextKey_le h2.nextKey_le h1.news h2.news,
    fun k hk a => (h2.attrs k (h1.keeps k hk) a).trans (h1.attrs k hk a), ?_⟩
  intro k hk
  obtain ⟨e1, he1, hx1⟩ := h1.links k hk
  obtain ⟨e2, he2, hx2⟩ := h2.links k (h1.keeps k hk)
  refine ⟨e1 ++ e2, by rw [he2, he1, List.append_assoc], ?_⟩
  intro l hl
  rcases List.mem_append.mp hl with hl | hl
  · obtain ⟨n1, ⟨m1, m2, m3⟩, n3⟩ := hx1 l hl
    refine ⟨n1, ⟨h2.keeps _ m1, ?_, fun a => (h2.attrs _ m1 a).trans (m3 a)⟩, n3⟩
    obtain ⟨e', he', hx'⟩ := h2.links l.2 m1
    cases e' with
    | nil => rw [he', m2]; rfl
    | cons x xs =>
      exfalso
      obtain ⟨_, _, hh⟩ := hx' x (by simp)
      rcases hh with hh | hh
      · exact n1 (hh ▸ hroot)
      · apply hh; unfold kindOf; rw [m3]; rfl
  · obtain ⟨n1, n2, n3⟩ := hx2 l hl
    refine ⟨fun hh => n1 (h1.keeps _ hh), n2, ?_⟩
    rcases n3 with n3 | n3
    · exact .inl n3
    · exact .inr (by rw [← kindOf_of_attrs (h1.attrs k hk)]; exact n3)

/-- keys stay below the supply -/
theorem Unch.keysLt {g g' : Graph} (h : Unch g g') (hK : KeysLt g) : KeysLt g' := by
  intro k hk
  rcases h.news k hk with h1 | h1
  · exact Nat.lt_of_lt_of_le (hK k h1) h.nextKey_le
  · exact h1.2

theorem has_of_kindOf {g : Graph} {k : Nat} (h : kindOf g k ≠ "") : Has g k := by
  unfold kindOf at h
  cases ha : g.getAttr k "~kind" with
  | none => simp [ha] at h
  | some v => exact node?_isSome_of_getAttr ha

end Nix.Store.Lemmas
