import NixModel.Lemmas.C18Decode

/-! the invariant that links every state of a run to the original file -/
namespace Nix.Upgrade.Lemmas
open Nix.Upgrade

theorem mem_unique {ps : List (Path × PObj)} (hnd : (ps.map (·.1)).Nodup) {p : Path} {a b : PObj}
    (ha : (p, a) ∈ ps) (hb : (p, b) ∈ ps) : a = b := by
  have h1 := lookup_of_mem hnd ha
  have h2 := lookup_of_mem hnd hb
  rw [h1] at h2
  exact Option.some.inj h2

theorem createAll_succeeds (es : List (Path × PObj)) : ∀ ps : List (Path × PObj),
    (ps.map (·.1) ++ es.map (·.1)).Nodup → (createAll ps es).2 = none := by
  induction es with
  | nil => intro ps _; rfl
  | cons e es ih =>
    intro ps h
    simp only [createAll]
    have hnot : hasPath ps e.1 = false := by
      cases hh : hasPath ps e.1 with
      | false => rfl
      | true =>
        exfalso
        unfold hasPath at hh
        simp only [List.any_eq_true, beq_iff_eq] at hh
        obtain ⟨x, hx, hxe⟩ := hh
        exact (List.nodup_append.mp h).2.2 e.1 (List.mem_map.mpr ⟨x, hx, hxe⟩) e.1 (by simp) rfl
    simp only [hnot, Bool.false_eq_true, ↓reduceIte]
    apply ih
    simpa using h

theorem sub_if {α : Type} (c : Bool) (a : α) : (if c then [a] else []).Sublist [a] := by
  cases c <;> simp

theorem converted_paths_sublist (r : Nat) (p : Path) (o : OldProp) :
    ((converted r p o).map (·.1)).Sublist (p :: extras p) := by
  have h1 : ((uncExtra r p o).map (·.1)).Sublist [extraPath p ".uncertainty"] := by
    unfold uncExtra; split <;> simp
  have h2 : ∀ suf sel, ((strExtraOf r p o suf sel).map (·.1)).Sublist [extraPath p suf] := by
    intro suf sel; unfold strExtraOf; split <;> simp
  rw [converted_eq]
  simp only [List.map_append, List.map_cons, List.map_nil]
  have : p :: extras p = [p] ++ [extraPath p ".uncertainty"] ++ [extraPath p ".reference"]
      ++ [extraPath p ".filename"] ++ [extraPath p ".encoder"] ++ [extraPath p ".checksum"] := rfl
  rw [this]
  exact ((((List.Sublist.refl _).append h1).append (h2 _ _)).append (h2 _ _)).append (h2 _ _) |>.append (h2 _ _)

theorem converted_no_old (r : Nat) (p q : Path) (o o' : OldProp) : (q, PObj.old o') ∉ converted r p o := by
  intro h
  have := mem_oldPaths_of_mem h
  rw [oldPaths_converted] at this
  cases this

/-- how a state `g` of a run relates to the original file `f0` -/
structure Inv (r : Nat) (f0 g : List (Path × PObj)) : Prop where
  keepNew : ∀ q n, (q, PObj.new n) ∈ f0 → (q, PObj.new n) ∈ g
  oldOrDone : ∀ q o, (q, PObj.old o) ∈ f0 → (q, PObj.old o) ∈ g ∨ Done r g q o
  oldFrom : ∀ q o, (q, PObj.old o) ∈ g → (q, PObj.old o) ∈ f0
  pathsFrom : ∀ x ∈ g.map (·.1), x ∈ f0.map (·.1) ∨
    ∃ q o, (q, PObj.old o) ∈ f0 ∧ (q, PObj.old o) ∉ g ∧ x ∈ extras q

theorem Inv.refl (r : Nat) (f0 : List (Path × PObj)) : Inv r f0 f0 :=
  ⟨fun _ _ h => h, fun _ _ h => Or.inl h, fun _ _ h => h, fun _ h => Or.inl h⟩

theorem mem_filter_ne {ps : List (Path × PObj)} {p : Path} {e : Path × PObj} :
    e ∈ ps.filter (·.1 != p) ↔ e ∈ ps ∧ e.1 ≠ p := by
  simp [List.mem_filter]

/-- converting a compound property of the current state keeps the invariant and cannot fail -/
theorem inv_convert {r : Nat} {f0 g : List (Path × PObj)} {p : Path} {o : OldProp}
    (hclean : (targets f0).Nodup) (hnd : (g.map (·.1)).Nodup) (hinv : Inv r f0 g)
    (hp : (p, PObj.old o) ∈ g) :
    (createAll (g.filter (·.1 != p)) (converted r p o)).2 = none ∧
    Inv r f0 (g.filter (·.1 != p) ++ converted r p o) ∧
    nameTaken g (converted r p o) = false := by
  have hnd0 := clean_paths_nodup hclean
  have hp0 : (p, PObj.old o) ∈ f0 := hinv.oldFrom p o hp
  -- nothing sits at the extra paths of `p` yet
  have hA : ∀ x ∈ extras p, x ∉ g.map (·.1) := by
    intro x hx hxg
    rcases hinv.pathsFrom x hxg with h | ⟨q, o', hq0, hqg, hxq⟩
    · exact clean_extra_not_path hclean hp0 hx h
    · by_cases hqp : q = p
      · subst hqp
        have := mem_unique hnd0 hq0 hp0
        rw [this] at hqg
        exact hqg hp
      · exact clean_extras_disjoint hclean hq0 hp0 hqp hxq hx
  have hconvPaths : ∀ x ∈ (converted r p o).map (·.1), x = p ∨ x ∈ extras p := converted_paths_sub r p o
  have hbase : ∀ x ∈ (g.filter (·.1 != p)).map (·.1), x ∈ g.map (·.1) ∧ x ≠ p := by
    intro x hx
    obtain ⟨e, he, rfl⟩ := List.mem_map.mp hx
    have := mem_filter_ne.mp he
    exact ⟨List.mem_map.mpr ⟨e, this.1, rfl⟩, this.2⟩
  refine ⟨?_, ?_, ?_⟩
  rotate_left 2
  · unfold nameTaken
    rw [List.any_eq_false]
    intro e he hh
    have hx := converted_tail_paths r p o e he
    unfold hasPath at hh
    simp only [List.any_eq_true, beq_iff_eq] at hh
    obtain ⟨y, hy, hye⟩ := hh
    exact hA e.1 hx (List.mem_map.mpr ⟨y, hy, hye⟩)
  · apply createAll_succeeds
    rw [List.nodup_append]
    refine ⟨filter_paths_nodup p hnd, (clean_extras_nodup hclean hp0).sublist (converted_paths_sublist r p o), ?_⟩
    intro a ha b hb hab
    subst hab
    rcases hconvPaths a hb with h | h
    · exact (hbase a ha).2 h
    · exact hA a h (hbase a ha).1
  · constructor
    · -- keepNew
      intro q n hq
      have hqg := hinv.keepNew q n hq
      have hne : q ≠ p := by
        intro h; subst h
        cases mem_unique hnd hqg hp
      exact List.mem_append_left _ (mem_filter_ne.mpr ⟨hqg, hne⟩)
    · -- oldOrDone
      intro q o' hq
      by_cases hqp : q = p
      · subst hqp
        have ho : PObj.old o' = PObj.old o := mem_unique hnd0 hq hp0
        cases ho
        right
        refine ⟨fun e he => List.mem_append_right _ he, fun x hx hxg => ?_⟩
        rw [List.map_append, List.mem_append] at hxg
        rcases hxg with h | h
        · exact absurd (hbase x h).1 (hA x hx)
        · exact h
      · rcases hinv.oldOrDone q o' hq with h | h
        · exact Or.inl (List.mem_append_left _ (mem_filter_ne.mpr ⟨h, hqp⟩))
        · right
          have hpnot : p ∉ extras q := fun hpe =>
            clean_extra_not_path hclean hq hpe (List.mem_map.mpr ⟨_, hp0, rfl⟩)
          refine ⟨fun e he => ?_, fun x hx hxg => ?_⟩
          · apply List.mem_append_left
            refine mem_filter_ne.mpr ⟨h.mem e he, ?_⟩
            rcases converted_paths_sub r q o' e.1 (List.mem_map.mpr ⟨e, he, rfl⟩) with h1 | h1
            · rw [h1]; exact hqp
            · intro h2; exact hpnot (h2 ▸ h1)
          · rw [List.map_append, List.mem_append] at hxg
            rcases hxg with h1 | h1
            · exact h.only x hx (hbase x h1).1
            · exfalso
              rcases hconvPaths x h1 with h2 | h2
              · exact hpnot (h2 ▸ hx)
              · exact clean_extras_disjoint hclean hq hp0 hqp hx h2
    · -- oldFrom
      intro q o' hq
      rcases List.mem_append.mp hq with h | h
      · exact hinv.oldFrom q o' (mem_filter_ne.mp h).1
      · exact absurd h (converted_no_old r p q o o')
    · -- pathsFrom
      intro x hx
      rw [List.map_append, List.mem_append] at hx
      rcases hx with h | h
      · rcases hinv.pathsFrom x (hbase x h).1 with h1 | ⟨q, o', hq0, hqg, hxq⟩
        · exact Or.inl h1
        · refine Or.inr ⟨q, o', hq0, ?_, hxq⟩
          intro hmem
          rcases List.mem_append.mp hmem with h2 | h2
          · exact hqg (mem_filter_ne.mp h2).1
          · exact converted_no_old r p q o o' h2
      · rcases hconvPaths x h with h1 | h1
        · exact Or.inl (h1 ▸ List.mem_map.mpr ⟨_, hp0, rfl⟩)
        · refine Or.inr ⟨p, o, hp0, ?_, h1⟩
          intro hmem
          rcases List.mem_append.mp hmem with h2 | h2
          · exact (mem_filter_ne.mp h2).2 rfl
          · exact converted_no_old r p p o o h2

end Nix.Upgrade.Lemmas
