import NixModel.Lemmas.C15Select
import Mathlib.Tactic.Linarith

/-! Helper lemmas for C15: every position an accepted index expression selects lies inside the array. -/
namespace Nix.Poly.Lemmas
open Nix.Poly

/-- `slice.indices` with a positive step returns bounds inside `[0, len]` -/
theorem sliceIndices_bounds (s e st : Option Int) (len : Nat) (s' e' st' : Int)
    (h : sliceIndices s e st len = .ok (s', e', st')) (hpos : 0 < st') :
    0 ≤ s' ∧ s' ≤ len ∧ 0 ≤ e' ∧ e' ≤ len := by
  unfold sliceIndices at h
  cases st with
  | none =>
    simp only [show ¬ ((1 : Int) = 0) by omega, show ¬ ((1 : Int) < 0) by omega, if_false,
      Except.ok.injEq, Prod.mk.injEq] at h
    obtain ⟨hs, he, _⟩ := h
    subst hs
    subst he
    refine ⟨?_, ?_, ?_, ?_⟩
    · cases s <;> simp only <;> (try split_ifs) <;> omega
    · cases s <;> simp only <;> (try split_ifs) <;> omega
    · cases e <;> simp only <;> (try split_ifs) <;> omega
    · cases e <;> simp only <;> (try split_ifs) <;> omega
  | some v =>
    simp only at h
    by_cases h0 : v = 0
    · simp [h0] at h
    · simp only [h0, if_false, Except.ok.injEq, Prod.mk.injEq] at h
      obtain ⟨hs, he, hst⟩ := h
      subst hst
      have hneg : ¬ (v < 0) := by omega
      simp only [hneg, if_false] at hs he
      subst hs
      subst he
      refine ⟨?_, ?_, ?_, ?_⟩
      · cases s <;> simp only <;> (try split_ifs) <;> omega
      · cases s <;> simp only <;> (try split_ifs) <;> omega
      · cases e <;> simp only <;> (try split_ifs) <;> omega
      · cases e <;> simp only <;> (try split_ifs) <;> omega

/-- the indices one item selects lie inside the axis -/
theorem axisSel_in_range (d : Nat) (it : AxisIx) (idxs : List Nat) (keep : Bool)
    (h : axisSel d it = .ok (idxs, keep)) : ∀ i ∈ idxs, i < d := by
  cases it with
  | int i =>
    unfold axisSel at h
    simp only at h
    by_cases hc : (if i < 0 then i + (d : Int) else i) < 0 ∨ (if i < 0 then i + (d : Int) else i) ≥ (d : Int)
    · simp [hc] at h
    · simp only [hc, if_false, Except.ok.injEq, Prod.mk.injEq] at h
      obtain ⟨hi, _⟩ := h
      subst hi
      intro j hj
      simp only [List.mem_singleton] at hj
      subst hj
      split_ifs at hc ⊢ <;> omega
  | slice s e st =>
    simp only [axisSel] at h
    cases hsi : sliceIndices s e st d with
    | error err => simp [hsi] at h
    | ok t =>
      obtain ⟨s', e', st'⟩ := t
      simp only [hsi] at h
      split at h
      · cases h
      · rename_i hst
        simp only [Except.ok.injEq, Prod.mk.injEq] at h
        obtain ⟨hi, _⟩ := h
        subst hi
        have hpos : 0 < st' := by omega
        obtain ⟨hs0, hsd, he0, hed⟩ := sliceIndices_bounds s e st d s' e' st' hsi hpos
        intro j hj
        simp only [List.mem_map, List.mem_range] at hj
        obtain ⟨k, hk, hkj⟩ := hj
        subst hkj
        -- k < count = 1 + (e'' - s' - 1) / st'
        have hdiv : ∀ x : Int, (x / st') * st' ≤ x := fun x => Int.ediv_mul_le x (by omega)
        by_cases hlt : e' < s'
        · simp only [hlt, if_true] at hk
          have : (1 + (s' - s' - 1) / st').toNat = 0 := by
            have : (s' - s' - 1) / st' < 0 := Int.ediv_neg_of_neg_of_pos (by omega) hpos
            omega
          omega
        · simp only [hlt, if_false] at hk
          have hq := hdiv (e' - s' - 1)
          have hk' : (k : Int) ≤ (e' - s' - 1) / st' := by omega
          have hmul : (k : Int) * st' ≤ (e' - s' - 1) / st' * st' :=
            Int.mul_le_mul_of_nonneg_right hk' (by omega)
          have : s' + (k : Int) * st' < d := by omega
          have h0 : 0 ≤ s' + (k : Int) * st' := by
            have : 0 ≤ (k : Int) * st' := Int.mul_nonneg (by omega) (by omega)
            omega
          omega

/-- positions built from in-range per-axis indices lie inside the array -/
theorem flatPositions_in_range (shape : List Nat) (axes : List (List Nat))
    (hlen : axes.length = shape.length)
    (h : ∀ da ∈ List.zip shape axes, ∀ i ∈ da.2, i < da.1) :
    ∀ p ∈ flatPositions shape axes, p < shape.prod := by
  induction shape generalizing axes with
  | nil =>
    cases axes with
    | nil => simp [flatPositions]
    | cons a as => simp at hlen
  | cons d ds ih =>
    cases axes with
    | nil => simp at hlen
    | cons ax axs =>
      simp only [flatPositions, List.prod_cons]
      intro p hp
      simp only [List.mem_flatMap, List.mem_map] at hp
      obtain ⟨i, hi, q, hq, hpq⟩ := hp
      have hid : i < d := h (d, ax) (by simp) i hi
      have hqd : q < ds.prod := ih axs (by simpa using hlen)
        (fun da hda => h da (by simp [List.zip_cons_cons, hda])) q hq
      subst hpq
      have : (i + 1) * ds.prod ≤ d * ds.prod := Nat.mul_le_mul_right _ hid
      have h2 : (i + 1) * ds.prod = i * ds.prod + ds.prod := Nat.succ_mul i ds.prod
      omega


theorem mapM_axisSel_in_range (shape : List Nat) (items : List AxisIx) (sels : List (List Nat × Bool))
    (hlen : items.length = shape.length)
    (h : (List.zip shape items).mapM (fun di => axisSel di.1 di.2) = .ok sels) :
    (sels.map (·.1)).length = shape.length ∧
      ∀ da ∈ List.zip shape (sels.map (·.1)), ∀ i ∈ da.2, i < da.1 := by
  induction shape generalizing items sels with
  | nil =>
    cases items with
    | nil =>
      simp only [List.zip_nil_left, List.mapM_nil, pure, Except.pure, Except.ok.injEq] at h
      subst h; simp
    | cons a as => simp at hlen
  | cons d ds ih =>
    cases items with
    | nil => simp at hlen
    | cons it its =>
      simp only [List.zip_cons_cons, List.mapM_cons, bind, Except.bind] at h
      cases h1 : axisSel d it with
      | error e => simp [h1] at h
      | ok sel =>
        simp only [h1] at h
        cases h2 : List.mapM (fun di : Nat × AxisIx => axisSel di.1 di.2) (ds.zip its) with
        | error e => simp [h2] at h
        | ok rest =>
          simp only [h2, pure, Except.pure, Except.ok.injEq] at h
          subst h
          obtain ⟨ihl, ihr⟩ := ih its rest (by simpa using hlen) h2
          refine ⟨by simp [ihl], ?_⟩
          intro da hda i hi
          simp only [List.map_cons, List.zip_cons_cons, List.mem_cons] at hda
          rcases hda with hda | hda
          · subst hda
            obtain ⟨idxs, keep⟩ := sel
            exact axisSel_in_range d it idxs keep h1 i hi
          · exact ihr da hda i hi

/-- `select` after the `sl=None` default has been resolved -/
def selectItems (shape : List Nat) (items : List AxisIx) : Except Err (List Nat × List Nat) := do
  let items ← padIndex shape.length items
  let sels ← (List.zip shape items).mapM (fun di => axisSel di.1 di.2)
  let outShape := sels.filterMap fun s => if s.2 then some s.1.length else none
  .ok (outShape, flatPositions shape (sels.map (·.1)))

theorem select_eq_items (shape : List Nat) (ix : Index) :
    select shape ix = selectItems shape (match ix with | none => [fullSlice] | some l => l) := by
  cases ix <;> rfl

theorem selectItems_in_range (shape : List Nat) (items : List AxisIx) (outShape pos : List Nat)
    (h : selectItems shape items = .ok (outShape, pos)) : ∀ p ∈ pos, p < shape.prod := by
  unfold selectItems at h
  simp only [bind, Except.bind] at h
  cases hp : padIndex shape.length items with
  | error e => simp [hp] at h
  | ok padded =>
    have hplen : padded.length = shape.length := by
      unfold padIndex at hp
      split at hp
      · cases hp
      · simp only [Except.ok.injEq] at hp
        subst hp
        simp only [List.length_append, List.length_replicate]
        omega
    simp only [hp] at h
    cases hm : List.mapM (fun di : Nat × AxisIx => axisSel di.1 di.2) (shape.zip padded) with
    | error e => simp [hm] at h
    | ok sels =>
      simp only [hm, Except.ok.injEq, Prod.mk.injEq] at h
      obtain ⟨_, hpos⟩ := h
      subst hpos
      obtain ⟨hl, hr⟩ := mapM_axisSel_in_range shape padded sels hplen hm
      exact flatPositions_in_range shape _ hl hr

/-- every position an accepted index expression selects lies inside the array -/
theorem select_in_range (shape : List Nat) (ix : Index) (outShape pos : List Nat)
    (h : select shape ix = .ok (outShape, pos)) : ∀ p ∈ pos, p < shape.prod := by
  rw [select_eq_items] at h
  exact selectItems_in_range shape _ outShape pos h

theorem gather_ok_of_in_range (xs : List Rat) (pos : List Nat) (h : ∀ p ∈ pos, p < xs.length) :
    ∃ ys, gather xs pos = .ok ys ∧ ys.length = pos.length := by
  refine ⟨pos.map (fun p => (xs[p]?).getD 0), ?_, by simp⟩
  unfold gather
  apply mapM_congr_ok
  intro p hp
  simp [List.getElem?_eq_getElem (h p hp)]

end Nix.Poly.Lemmas
