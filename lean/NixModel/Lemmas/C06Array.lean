import NixModel.Pure.DataView
import NixModel.Lemmas.C06Slice
import NixModel.Lemmas.C06View

/-!
Lemmas for `C06_array`: h5py's single left-to-right scan (`h5Scan`) selects what NumPy's
expand-then-select (`npSelect`) selects, for every tuple whose slices have positive steps; and it
refuses whatever NumPy refuses.
-/
namespace Nix.DataView
open Nix.Py Nix.NdIndex

theorem h5Axis_eq (len : Nat) (i : Ix) (hp : IxPos i) (hi : i.isEllipsis = false) :
    h5Axis len i = axisSel len i := by
  cases i with
  | ellipsis => simp [Ix.isEllipsis] at hi
  | int k => rfl
  | slice s =>
    have hs : s.PosStep := hp
    have hk := stepOf_pos s hs
    have h5 : ¬ (s.stepOf < 1) := by omega
    simp [h5Axis, axisSel, indices_pos_eq s len hs, h5]

/-- one step of the scan on a component that is not an ellipsis -/
theorem h5Scan_cons (rank : Nat) (len : Nat) (dims : List Nat) (seen : Bool) (nargs : Nat) (i : Ix)
    (rest : List Ix) (hi : i.isEllipsis = false) :
    h5Scan rank (len :: dims) seen nargs (i :: rest) =
      match h5Axis len i with
      | .error e => .error e
      | .ok a => match h5Scan rank dims seen nargs rest with
        | .error e => .error e
        | .ok sel => .ok (a :: sel) := by
  cases i with
  | ellipsis => simp [Ix.isEllipsis] at hi
  | int k =>
    simp only [h5Scan]
    cases h5Axis len (Ix.int k) with
    | error e => rfl
    | ok a => cases h5Scan rank dims seen nargs rest <;> rfl
  | slice s =>
    simp only [h5Scan]
    cases h5Axis len (Ix.slice s) with
    | error e => rfl
    | ok a => cases h5Scan rank dims seen nargs rest <;> rfl

theorem h5Scan_nil_dims (rank : Nat) (seen : Bool) (nargs : Nat) (i : Ix) (rest : List Ix)
    (hi : i.isEllipsis = false) : h5Scan rank [] seen nargs (i :: rest) = .error .valueError := by
  cases i with
  | ellipsis => simp [Ix.isEllipsis] at hi
  | int k => simp [h5Scan]
  | slice s => simp [h5Scan]

/-- scanning a prefix without ellipsis = selecting its axes, then scanning the rest -/
theorem scan_prefix (rank : Nat) (seen : Bool) (nargs : Nat) (pre rest : List Ix) (dims : List Nat)
    (hne : NoEllipsis pre) (hp : PosSteps pre) (hl : pre.length ≤ dims.length) :
    h5Scan rank dims seen nargs (pre ++ rest) =
      match selectAxes (dims.take pre.length) pre with
      | .error e => .error e
      | .ok s1 => match h5Scan rank (dims.drop pre.length) seen nargs rest with
        | .error e => .error e
        | .ok s2 => .ok (s1 ++ s2) := by
  induction pre generalizing dims with
  | nil =>
    simp only [List.nil_append, List.length_nil, List.take_zero, List.drop_zero, selectAxes]
    cases h5Scan rank dims seen nargs rest <;> simp
  | cons i pre ih =>
    cases dims with
    | nil => simp at hl
    | cons len dims =>
      have hi : i.isEllipsis = false := hne i (by simp)
      have hpi : IxPos i := hp i (by simp)
      have hne' : NoEllipsis pre := fun j hj => hne j (by simp [hj])
      have hp' : PosSteps pre := fun j hj => hp j (by simp [hj])
      have hl' : pre.length ≤ dims.length := by simpa using hl
      simp only [List.cons_append, List.length_cons, List.take_succ_cons, List.drop_succ_cons,
        selectAxes]
      rw [h5Scan_cons _ _ _ _ _ _ _ hi, h5Axis_eq len i hpi hi, ih dims hne' hp' hl']
      cases axisSel len i with
      | error e => rfl
      | ok a =>
        simp only
        cases selectAxes (dims.take pre.length) pre with
        | error e => rfl
        | ok s1 =>
          simp only
          cases h5Scan rank (dims.drop pre.length) seen nargs rest <;> simp

/-- the same decomposition for NumPy's axis-by-axis selection -/
theorem select_prefix (pre rest : List Ix) (dims : List Nat) (hl : pre.length ≤ dims.length) :
    selectAxes dims (pre ++ rest) =
      match selectAxes (dims.take pre.length) pre with
      | .error e => .error e
      | .ok s1 => match selectAxes (dims.drop pre.length) rest with
        | .error e => .error e
        | .ok s2 => .ok (s1 ++ s2) := by
  induction pre generalizing dims with
  | nil =>
    simp only [List.nil_append, List.length_nil, List.take_zero, List.drop_zero, selectAxes]
    cases selectAxes dims rest <;> simp
  | cons i pre ih =>
    cases dims with
    | nil => simp at hl
    | cons len dims =>
      have hl' : pre.length ≤ dims.length := by simpa using hl
      simp only [List.cons_append, List.length_cons, List.take_succ_cons, List.drop_succ_cons,
        selectAxes]
      rw [ih dims hl']
      cases axisSel len i with
      | error e => rfl
      | ok a =>
        simp only
        cases selectAxes (dims.take pre.length) pre with
        | error e => rfl
        | ok s1 =>
          simp only
          cases selectAxes (dims.drop pre.length) rest <;> simp

theorem select_full (dims : List Nat) :
    selectAxes dims (fullSlices dims.length) = .ok (dims.map fullSel) := by
  induction dims with
  | nil => rfl
  | cons len dims ih =>
    simp only [fullSlices, List.length_cons, List.replicate_succ, selectAxes, axisSel, indices_full,
      rangeLen_unit] at ih ⊢
    simp [ih, fullSel]

/-- more non-ellipsis components than dimensions left: the scan refuses -/
theorem scan_too_long (rank : Nat) (seen : Bool) (nargs : Nat) (pre rest : List Ix) (dims : List Nat)
    (hne : NoEllipsis pre) (hl : pre.length > dims.length) :
    ∃ e, h5Scan rank dims seen nargs (pre ++ rest) = .error e := by
  induction pre generalizing dims with
  | nil => simp at hl
  | cons i pre ih =>
    have hi : i.isEllipsis = false := hne i (by simp)
    have hne' : NoEllipsis pre := fun j hj => hne j (by simp [hj])
    cases dims with
    | nil => exact ⟨_, h5Scan_nil_dims _ _ _ _ _ hi⟩
    | cons len dims =>
      have hl' : pre.length > dims.length := by simpa using hl
      obtain ⟨e, he⟩ := ih dims hne' hl'
      simp only [List.cons_append]
      rw [h5Scan_cons _ _ _ _ _ _ _ hi, he]
      cases h5Axis len i with
      | error e' => exact ⟨e', rfl⟩
      | ok a => exact ⟨e, rfl⟩

/-- an ellipsis after one was already seen: the scan refuses -/
theorem scan_second_ellipsis (rank : Nat) (nargs : Nat) (post : List Ix) (dims : List Nat)
    (h : countEllipsis post ≥ 1) : ∃ e, h5Scan rank dims true nargs post = .error e := by
  induction post generalizing dims with
  | nil => simp [countEllipsis] at h
  | cons i post ih =>
    cases hi : i.isEllipsis with
    | true =>
      cases i with
      | ellipsis => exact ⟨.valueError, by simp [h5Scan]⟩
      | int k => simp [Ix.isEllipsis] at hi
      | slice s => simp [Ix.isEllipsis] at hi
    | false =>
      rw [countEllipsis_cons, hi] at h
      simp at h
      cases dims with
      | nil => exact ⟨_, h5Scan_nil_dims _ _ _ _ _ hi⟩
      | cons len dims =>
        obtain ⟨e, he⟩ := ih dims h
        rw [h5Scan_cons _ _ _ _ _ _ _ hi, he]
        cases h5Axis len i with
        | error e' => exact ⟨e', rfl⟩
        | ok a => exact ⟨e, rfl⟩

/-- split a tuple at its first ellipsis -/
theorem split_at_ellipsis (ix : List Ix) (h : countEllipsis ix ≥ 1) :
    ∃ pre post, ix = pre ++ .ellipsis :: post ∧ NoEllipsis pre ∧
      countEllipsis ix = 1 + countEllipsis post ∧ countAxes ix = pre.length + countAxes post ∧
      ∀ n, fillEllipsis n ix = pre ++ (fullSlices n ++ post) := by
  induction ix with
  | nil => simp [countEllipsis] at h
  | cons i ix ih =>
    cases i with
    | ellipsis =>
      refine ⟨[], ix, rfl, (fun j hj => nomatch hj), ?_, ?_, ?_⟩
      · rw [countEllipsis_cons]; simp [Ix.isEllipsis]
      · rw [countAxes_cons]; simp [Ix.isEllipsis]
      · intro n; simp [fillEllipsis]
    | int k =>
      rw [countEllipsis_cons] at h
      simp [Ix.isEllipsis] at h
      obtain ⟨pre, post, h1, h2, h3, h4, h5⟩ := ih h
      refine ⟨.int k :: pre, post, by simp [h1], ?_, ?_, ?_, ?_⟩
      · intro j hj
        cases hj with
        | head => rfl
        | tail _ hj' => exact h2 j hj'
      · rw [countEllipsis_cons]; simp [Ix.isEllipsis, h3]
      · rw [countAxes_cons]; simp [Ix.isEllipsis, h4]; omega
      · intro n; simp [fillEllipsis, h5 n]
    | slice s =>
      rw [countEllipsis_cons] at h
      simp [Ix.isEllipsis] at h
      obtain ⟨pre, post, h1, h2, h3, h4, h5⟩ := ih h
      refine ⟨.slice s :: pre, post, by simp [h1], ?_, ?_, ?_, ?_⟩
      · intro j hj
        cases hj with
        | head => rfl
        | tail _ hj' => exact h2 j hj'
      · rw [countEllipsis_cons]; simp [Ix.isEllipsis, h3]
      · rw [countAxes_cons]; simp [Ix.isEllipsis, h4]; omega
      · intro n; simp [fillEllipsis, h5 n]

/-- errors of the scan are `ValueError` or `IndexError`; nixio's read path maps both to
`IndexError` -/
theorem h5Axis_err_class (len : Nat) (i : Ix) (e : Err) (h : h5Axis len i = .error e) :
    mapReadErr e = .indexError := by
  cases i with
  | ellipsis => simp [h5Axis] at h; subst h; rfl
  | int k =>
    simp only [h5Axis] at h
    generalize (if k < 0 then k + (len : Int) else k) = j at h
    by_cases hr : (j < 0 ∨ j ≥ (len : Int))
    · rw [if_pos hr] at h; injection h with h; subst h; rfl
    · rw [if_neg hr] at h; cases h
  | slice s =>
    simp only [h5Axis] at h
    cases hidx : s.indices len with
    | error e' =>
      rw [hidx] at h
      injection h with h
      subst h
      rw [indices_err s len e' hidx]; rfl
    | ok t =>
      obtain ⟨a, b, k⟩ := t
      rw [hidx] at h
      simp only at h
      by_cases hk : k < 1
      · rw [if_pos hk] at h; injection h with h; subst h; rfl
      · rw [if_neg hk] at h; cases h

theorem h5Scan_err_class (rank : Nat) (dims : List Nat) (seen : Bool) (nargs : Nat) (ix : List Ix)
    (e : Err) (h : h5Scan rank dims seen nargs ix = .error e) : mapReadErr e = .indexError := by
  induction ix generalizing dims seen nargs with
  | nil => simp [h5Scan] at h
  | cons i ix ih =>
    cases hi : i.isEllipsis with
    | true =>
      cases i with
      | int k => simp [Ix.isEllipsis] at hi
      | slice s => simp [Ix.isEllipsis] at hi
      | ellipsis =>
        simp only [h5Scan] at h
        split at h
        · injection h with h; subst h; rfl
        · split at h
          · injection h with h; subst h; rfl
          · split at h
            · rename_i e' he'
              injection h with h
              subst h
              exact ih _ _ _ he'
            · cases h
    | false =>
      cases dims with
      | nil =>
        rw [h5Scan_nil_dims _ _ _ _ _ hi] at h
        injection h with h; subst h; rfl
      | cons len dims =>
        rw [h5Scan_cons _ _ _ _ _ _ _ hi] at h
        split at h
        · rename_i e' he'
          injection h with h
          subst h
          exact h5Axis_err_class len i _ he'
        · split at h
          · rename_i e' he'
            injection h with h
            subst h
            exact ih _ _ _ he'
          · cases h

/-- **h5py's scan = NumPy's selection** for a well-formed tuple with positive steps
(same selection, and the same error when an integer is out of range) -/
theorem h5Select_eq_npSelect (shape : List Nat) (ix : List Ix) (hp : PosSteps ix)
    (h1 : countEllipsis ix ≤ 1) (h2 : countAxes ix ≤ shape.length) :
    h5Select shape ix = npSelect shape ix := by
  have hsplit := count_split ix
  unfold h5Select npSelect expandIx
  have n1 : ¬ countEllipsis ix > 1 := by omega
  have n2 : ¬ countAxes ix > shape.length := by omega
  simp only [n1, n2, if_false]
  by_cases h0 : countEllipsis ix = 1
  · simp only [h0, if_true]
    obtain ⟨pre, post, hix, hne, hc, ha, hfill⟩ := split_at_ellipsis ix (by omega)
    have hpost0 : countEllipsis post = 0 := by omega
    have hnepost := count_zero_noEllipsis post hpost0
    have hpostc := noEllipsis_count post hnepost
    have hppre : PosSteps pre := fun j hj => hp j (by rw [hix]; simp [hj])
    have hppost : PosSteps post := fun j hj => hp j (by rw [hix]; simp [hj])
    have hlpre : pre.length ≤ shape.length := by omega
    rw [hfill]
    rw [select_prefix pre _ shape hlpre]
    have hnargs : ix.length - 1 = countAxes ix := by omega
    generalize hN : ix.length = N at hnargs ⊢
    generalize hA : countAxes ix = A at *
    rw [hix]
    rw [scan_prefix _ _ _ pre _ shape hne hppre hlpre]
    cases selectAxes (shape.take pre.length) pre with
    | error e => rfl
    | ok s1 =>
      simp only
      -- at the ellipsis
      have n3 : ¬ (N - 1 > shape.length) := by omega
      simp only [h5Scan, Bool.false_eq_true, if_false, n3, hnargs]
      -- the dimensions covered by the ellipsis, then the tail
      have hdl : (shape.drop pre.length).length = shape.length - pre.length := by simp
      have hfl : shape.length - A ≤ (shape.drop pre.length).length := by omega
      have hpl : post.length ≤ ((shape.drop pre.length).drop (shape.length - A)).length := by
        simp; omega
      have := scan_prefix shape.length true (A) post []
        ((shape.drop pre.length).drop (shape.length - A)) hnepost hppost hpl
      simp only [List.append_nil] at this
      rw [this]
      have hfs : (fullSlices (shape.length - A)).length ≤ (shape.drop pre.length).length := by
        simp [fullSlices_length]; omega
      rw [select_prefix (fullSlices (shape.length - A)) post (shape.drop pre.length) hfs]
      simp only [fullSlices_length]
      have hsf := select_full ((shape.drop pre.length).take (shape.length - A))
      have htl : ((shape.drop pre.length).take (shape.length - A)).length =
          shape.length - A := by simp; omega
      rw [htl] at hsf
      rw [hsf]
      simp only
      have hexact : post.length =
          ((shape.drop pre.length).drop (shape.length - A)).length := by simp; omega
      have hsel := select_prefix post [] ((shape.drop pre.length).drop (shape.length - A))
        (by omega)
      simp only [List.append_nil] at hsel
      rw [hsel]
      cases selectAxes (((shape.drop pre.length).drop (shape.length - A)).take post.length)
        post with
      | error e => simp [n2]
      | ok s2 =>
        simp only
        have hd : ((shape.drop pre.length).drop (shape.length - A)).drop post.length = [] := by
          apply List.drop_eq_nil_of_le; omega
        rw [hd]
        simp [h5Scan, selectAxes, n2]
  · have h00 : countEllipsis ix = 0 := by omega
    simp only [h0, if_false]
    have hne := count_zero_noEllipsis ix h00
    have hc := noEllipsis_count ix hne
    have hl : ix.length ≤ shape.length := by omega
    have := scan_prefix shape.length false ix.length ix [] shape hne hp hl
    simp only [List.append_nil] at this
    rw [this, select_prefix ix _ shape hl]
    cases selectAxes (shape.take ix.length) ix with
    | error e => rfl
    | ok s1 =>
      simp only
      have hdl : (shape.drop ix.length).length = shape.length - countAxes ix := by simp; omega
      have hsf := select_full (shape.drop ix.length)
      rw [hdl] at hsf
      rw [hsf]
      simp [h5Scan]

/-- … and a malformed tuple (second ellipsis, surplus indices) is refused by the scan too -/
theorem h5Select_refuses (shape : List Nat) (ix : List Ix)
    (h : countEllipsis ix > 1 ∨ countAxes ix > shape.length) :
    ∃ e, h5Select shape ix = .error e := by
  have hsplit := count_split ix
  unfold h5Select
  by_cases h0 : countEllipsis ix = 0
  · have hne := count_zero_noEllipsis ix h0
    have hc := noEllipsis_count ix hne
    have := scan_too_long shape.length false ix.length ix [] shape hne (by omega)
    simpa using this
  · obtain ⟨pre, post, hix, hne, hc, ha, _⟩ := split_at_ellipsis ix (by omega)
    by_cases hl : pre.length > shape.length
    · rw [hix]
      exact scan_too_long shape.length false _ pre _ shape hne hl
    · have hlen : ix.length = pre.length + 1 + post.length := by rw [hix]; simp; omega
      -- scan the prefix axis by axis; whatever happens there, continue at the ellipsis
      suffices hs : ∀ (pre' : List Ix) (dims : List Nat), NoEllipsis pre' → pre'.length ≤ dims.length →
          ∃ e, h5Scan shape.length dims false ix.length (pre' ++ .ellipsis :: post) = .error e by
        have := hs pre shape hne (by omega)
        rw [← hix] at this
        exact this
      intro pre' dims hne' hl'
      induction pre' generalizing dims with
      | nil =>
        simp only [List.nil_append, h5Scan, Bool.false_eq_true, if_false]
        by_cases hchk : ix.length - 1 > shape.length
        · exact ⟨.valueError, by simp [hchk]⟩
        · simp only [hchk, if_false]
          have hpost : countEllipsis post ≥ 1 := by omega
          obtain ⟨e, he⟩ := scan_second_ellipsis shape.length (ix.length - 1) post
            (dims.drop (shape.length - (ix.length - 1))) hpost
          exact ⟨e, by simp [he]⟩
      | cons i pre' ih =>
        have hi : i.isEllipsis = false := hne' i (by simp)
        have hne'' : NoEllipsis pre' := fun j hj => hne' j (by simp [hj])
        cases dims with
        | nil => simp at hl'
        | cons len dims =>
          have : pre'.length ≤ dims.length := by simpa using hl'
          obtain ⟨e, he⟩ := ih dims hne'' this
          simp only [List.cons_append]
          rw [h5Scan_cons _ _ _ _ _ _ _ hi, he]
          cases h5Axis len i with
          | error e' => exact ⟨e', rfl⟩
          | ok a => exact ⟨e, rfl⟩

end Nix.DataView
