import NixModel.Lemmas.StoreWFInv

/-!
# `WF` is preserved by every API function of the structural model

One lemma per function of `Store/Api.lean`; the dispatch over `Op` and `reachable_wf` are in
`StoreWF.lean`.
-/
namespace Nix.Store.Lemmas
open Nix.Store Nix.Store.Graph

/-! ## paths resolve to nodes -/

theorem WF.stepSeg_key {g : Graph} (h : WF g) {l l' : Loc} {s : Seg} (hs : stepSeg g l s = some l') :
    l'.key ∈ keys g := by
  cases s with
  | name n =>
    simp only [stepSeg, Option.map_eq_some_iff] at hs
    obtain ⟨k, hk, e⟩ := hs
    subst e
    exact h.target_exists _ _ (child?_some_mem hk)
  | idx i =>
    simp only [stepSeg, Option.map_eq_some_iff] at hs
    obtain ⟨nk, hk, e⟩ := hs
    subst e
    exact h.target_exists _ _ (List.mem_of_getElem? hk)

theorem WF.resolve_key {g : Graph} (h : WF g) {l0 l : Loc} {p : Path} (h0 : l0.key ∈ keys g)
    (hr : resolve g l0 p = some l) : l.key ∈ keys g := by
  induction p generalizing l0 with
  | nil => simp only [resolve, Option.some.injEq] at hr; exact hr ▸ h0
  | cons s ps ih =>
    simp only [resolve] at hr
    cases hs : stepSeg g l0 s with
    | none => simp [hs] at hr
    | some l' =>
      simp only [hs] at hr
      exact ih (h.stepSeg_key hs) hr

theorem WF.resolve_root_key {g : Graph} (h : WF g) {l : Loc} {p : Path}
    (hr : resolve g rootLoc p = some l) : l.key ∈ keys g := h.resolve_key h.root hr

/-! ## container groups under graph extensions that keep `child?` and kinds -/

theorem IsCont.of_same {g g' : Graph} (hk : ∀ k, g'.getAttr k "~kind" = g.getAttr k "~kind")
    (hc : ∀ k n, g'.child? k n = g.child? k n) {c : Nat} (h : IsCont g' c) : IsCont g c := by
  obtain ⟨k, cn, info, h1, h2⟩ := h
  exact ⟨k, cn, info, by rwa [okind_congr hk] at h1, by rwa [hc] at h2⟩

/-! ## ensureGroup -/

theorem WF.ensureGroup {g : Graph} (h : WF g) {p : Nat} (n : String) (hp : p ∈ keys g)
    (hpc : ¬ IsCont g p) (hnf : ∀ m, g.nextId ≤ m → n ≠ idStr m) : WF (g.ensureGroup p n).1 := by
  cases hc : g.child? p n with
  | some k => rw [ensureGroup_of_some hc]; exact h
  | none =>
    rw [ensureGroup_of_none hc]
    have h1 := h.newNode .group
    have ho := h.orphan_newNode .group
    have hne : g.nextKey ≠ p := fun e => h.nextKey_fresh (e ▸ hp)
    apply h1.addLink_plain
    · rw [keys_newNode]; exact List.mem_append_left _ hp
    · rw [keys_newNode]; simp
    · rw [child?_newNode]; exact hc
    · exact fun hx => hpc (IsCont.of_same (fun k => getAttr_newNode ..) (fun k m => child?_newNode ..) hx)
    · exact ho.not_cont
    · exact hnf
    · intro _ _
      refine ⟨ho, ?_, hne⟩
      rw [kindOf_eq, getAttr_newNode, getAttr_of_node?_none h.nextKey_node?]; rfl

/-- what callers need to know about the graph after `ensureGroup` -/
structure EnsFacts (g : Graph) (p : Nat) (n : String) (g1 : Graph) (c : Nat) : Prop where
  child : g1.child? p n = some c
  ckey : c ∈ keys g1
  keys_mono : ∀ k, k ∈ keys g → k ∈ keys g1
  attrs : ∀ k a, g1.getAttr k a = g.getAttr k a
  nextId : g1.nextId = g.nextId
  /-- the group existed, nothing changed -/
  old : ∀ c', g.child? p n = some c' → g1 = g ∧ c = c'
  /-- the group is new and empty -/
  new : g.child? p n = none → g1.links c = [] ∧ c = g.nextKey ∧ g1 = (g.newNode .group).1.addLink p n g.nextKey
  child_other : ∀ k m, (k ≠ p ∨ m ≠ n) → g1.child? k m = g.child? k m
  links_other : ∀ k, k ≠ p → g1.links k = g.links k

theorem WF.ensFacts {g : Graph} (h : WF g) {p : Nat} (n : String) (hp : p ∈ keys g) :
    EnsFacts g p n (g.ensureGroup p n).1 (g.ensureGroup p n).2 := by
  have hpn := h.node_of_key hp
  cases hc : g.child? p n with
  | some k =>
    rw [ensureGroup_of_some hc]
    exact ⟨hc, h.target_exists _ _ (child?_some_mem hc), fun _ hk => hk, fun _ _ => rfl, rfl,
      fun c' e => ⟨rfl, (by rw [hc] at e; exact Option.some.inj e)⟩, fun e => (by rw [hc] at e; cases e),
      fun _ _ _ => rfl, fun _ _ => rfl⟩
  | none =>
    have hne : g.nextKey ≠ p := fun e => h.nextKey_fresh (e ▸ hp)
    have e1 := child?_ensureGroup g n hpn
    rw [ensureGroup_of_none hc] at e1 ⊢
    refine ⟨e1, ?_, ?_, ?_, rfl, ?_, ?_, ?_, ?_⟩
    · rw [keys_addLink, keys_newNode]; simp
    · intro k hk; rw [keys_addLink, keys_newNode]; exact List.mem_append_left _ hk
    · intro k a; rw [getAttr_addLink, getAttr_newNode]
    · intro c' e; rw [hc] at e; cases e
    · intro _
      refine ⟨?_, rfl, rfl⟩
      rw [links_addLink_ne _ _ _ hne, links_newNode]
      exact links_of_node?_none h.nextKey_node?
    · intro k m hkm
      rcases hkm with hk | hm
      · rw [child?_addLink_ne _ _ _ hk, child?_newNode]
      · rw [child?_addLink_name_ne _ _ _ _ hm, child?_newNode]
    · intro k hk
      rw [links_addLink_ne _ _ _ hk, links_newNode]

/-! ## role links: `create_link` on an entity (delete-then-add) -/

theorem IsCont.of_delLink {g : Graph} (h : WF g) {p : Nat} {n : String} {c : Nat}
    (hc : IsCont (g.delLink p n) c) : IsCont g c := by
  obtain ⟨k, cn, info, h1, h2⟩ := hc
  refine ⟨k, cn, info, by rwa [okind_congr (fun k => getAttr_delLink ..)] at h1, ?_⟩
  exact child?_of_sublist h.names_nodup (fun k => links_delLink_sublist g p k n) h2

theorem WF.createLinkIn_role {g : Graph} (h : WF g) {p t : Nat} {n : String}
    (hp : p ∈ keys g) (ht : t ∈ keys g) (hpc : ¬ IsCont g p) (htc : ¬ IsCont g t)
    (hnf : ∀ m, g.nextId ≤ m → n ≠ idStr m) (hci : containerInfo (okind g p) n = none) :
    WF (createLinkIn g p n t) := by
  unfold createLinkIn
  have key : ∀ g1 : Graph, WF g1 → keys g1 = keys g → g1.nextId = g.nextId → g1.child? p n = none →
      (∀ c, IsCont g1 c → IsCont g c) → (∀ k, okind g1 k = okind g k) → WF (g1.addLink p n t) := by
    intro g1 w hk hni hfree hcont hok
    apply w.addLink_plain (hk ▸ hp) (hk ▸ ht) hfree (fun hx => hpc (hcont _ hx)) (fun hx => htc (hcont _ hx))
    · rw [hni]; exact hnf
    · intro info hi; rw [hok, hci] at hi; cases hi
  by_cases hh : g.hasChild p n = true
  · simp only [hh, ↓reduceIte]
    exact key _ (h.delLink p n) (keys_delLink ..) rfl (child?_delLink_self g p n)
      (fun c hc => IsCont.of_delLink h hc) (okind_congr fun k => getAttr_delLink ..)
  · simp only [hh]
    have : g.child? p n = none := by
      rw [hasChild_eq] at hh
      cases hx : g.child? p n <;> simp_all
    exact key g h rfl rfl this (fun _ hc => hc) (fun _ => rfl)

/-! ## `Entity.create_new` -/

theorem setAttr_addLink_comm (g : Graph) {c k : Nat} (n : String) (t : Nat) (a : String) (v : Option String)
    (h : c ≠ k) : (g.addLink c n t).setAttr k a v = (g.setAttr k a v).addLink c n t := by
  unfold Graph.addLink Graph.setAttr
  exact updNode_comm g _ _ h

/-- the body of `Entity.create_new` once name and id are fixed -/
def ecnCore (g : Graph) (ownerKey : Nat) (cname name type id kind : String) : Graph × Nat :=
  let (g1, c) := g.ensureGroup ownerKey cname
  let (g2, k) := g1.ensureGroup c name
  let g3 := g2.setAttr k "name" (some name)
  let g4 := g3.setAttr k "type" (some type)
  let g5 := g4.setAttr k "entity_id" (some id)
  (g5.setAttr k "~kind" (some kind), k)

/-- the four attribute writes on the new node -/
def initAttrs (g : Graph) (k : Nat) (name type id kind : String) : Graph :=
  (((g.setAttr k "name" (some name)).setAttr k "type" (some type)).setAttr k "entity_id" (some id)).setAttr
    k "~kind" (some kind)

theorem ecnCore_nextId (g : Graph) (ownerKey : Nat) (cname name type id kind : String) :
    (ecnCore g ownerKey cname name type id kind).1.nextId = g.nextId := by
  have e0 : ecnCore g ownerKey cname name type id kind =
      (initAttrs ((g.ensureGroup ownerKey cname).1.ensureGroup (g.ensureGroup ownerKey cname).2 name).1
        ((g.ensureGroup ownerKey cname).1.ensureGroup (g.ensureGroup ownerKey cname).2 name).2 name type id kind,
        ((g.ensureGroup ownerKey cname).1.ensureGroup (g.ensureGroup ownerKey cname).2 name).2) := rfl
  rw [e0]
  simp only [initAttrs, nextId_setAttr, nextId_ensureGroup]

/-- `create_new` on a free name = make the node, write its attributes, link it last -/
theorem ecnCore_eq {g : Graph} (h : WF g) {ownerKey : Nat} (cname name type id kind : String)
    (hown : ownerKey ∈ keys g) (w1 : WF (g.ensureGroup ownerKey cname).1)
    (hfree : ∀ c, g.child? ownerKey cname = some c → g.child? c name = none) :
    let g1 := (g.ensureGroup ownerKey cname).1
    let c := (g.ensureGroup ownerKey cname).2
    ecnCore g ownerKey cname name type id kind =
      ((initAttrs (g1.newNode .group).1 g1.nextKey name type id kind).addLink c name g1.nextKey, g1.nextKey) ∧
    g1.child? c name = none ∧ c ≠ g1.nextKey := by
  intro g1 c
  have hf := h.ensFacts cname hown
  have hfree1 : g1.child? c name = none := by
    cases hc : g.child? ownerKey cname with
    | some c' =>
      obtain ⟨e1, e2⟩ := hf.old c' hc
      show (g.ensureGroup ownerKey cname).1.child? (g.ensureGroup ownerKey cname).2 name = none
      rw [e1, e2]; exact hfree c' hc
    | none =>
      rw [child?_none_iff]
      show ∀ l ∈ (g.ensureGroup ownerKey cname).1.links (g.ensureGroup ownerKey cname).2, _
      rw [(hf.new hc).1]; intro l hl; cases hl
  have hck : c ≠ g1.nextKey := fun e => w1.nextKey_fresh (e ▸ hf.ckey)
  refine ⟨?_, hfree1, hck⟩
  have e0 : ecnCore g ownerKey cname name type id kind =
      (initAttrs (g1.ensureGroup c name).1 (g1.ensureGroup c name).2 name type id kind,
        (g1.ensureGroup c name).2) := rfl
  rw [e0, ensureGroup_of_none hfree1]
  simp only [initAttrs]
  rw [setAttr_addLink_comm _ _ _ _ _ hck, setAttr_addLink_comm _ _ _ _ _ hck,
    setAttr_addLink_comm _ _ _ _ _ hck, setAttr_addLink_comm _ _ _ _ _ hck]

/-! ## constant names are not model ids -/

def NotId (s : String) : Prop := ∀ m, s ≠ idStr m

theorem idStr_head (m : Nat) : (idStr m).toList.head? = some 'i' := by
  unfold idStr
  simp [toString, String.toList_append]

theorem notId_of_head {s : String} (h : s.toList.head? ≠ some 'i') : NotId s := by
  intro m e; exact h (e ▸ idStr_head m)

theorem containerInfo_notId {ok cn : String} {info : CInfo} (h : containerInfo ok cn = some info) :
    NotId cn := by
  unfold containerInfo at h
  split at h <;> first | (apply notId_of_head; decide) | cases h

theorem containerInfo_item_ne_file {ok cn : String} {info : CInfo} (h : containerInfo ok cn = some info) :
    info.item ≠ "file" := by
  unfold containerInfo at h
  split at h <;> first | (cases h; decide) | cases h

/-! ## the new entity -/

/-- facts about the graph `g'` obtained from `g` by `create_new` of `name` in container `cname` of
`ownerKey`; `k` is the new node -/
structure NewEnt (g : Graph) (ownerKey : Nat) (cname name id kind : String) (g' : Graph) (k : Nat) :
    Prop where
  wf : WF g'
  knew : k ∉ keys g
  kkey : k ∈ keys g'
  keys_mono : ∀ x ∈ keys g, x ∈ keys g'
  attrs_old : ∀ x ∈ keys g, ∀ a, g'.getAttr x a = g.getAttr x a
  kind : kindOf g' k = kind
  eid : g'.entityId k = some id
  nameAttr : g'.getAttr k "name" = some name
  klinks : g'.links k = []
  nextId_le : g.nextId ≤ g'.nextId
  /-- the container group exists now and holds the old entries followed by the new one -/
  cont : ∃ c, g'.child? ownerKey cname = some c ∧
    g'.links c = cLinks g (g.child? ownerKey cname) ++ [(name, k)]
  /-- link lists of the other old nodes are untouched -/
  links_other : ∀ x ∈ keys g, x ≠ ownerKey → g.child? ownerKey cname ≠ some x → g'.links x = g.links x
  /-- the owner's other children are untouched -/
  child_owner : ∀ m, m ≠ cname → g'.child? ownerKey m = g.child? ownerKey m

theorem getAttr_initAttrs_ne (g : Graph) {k k' : Nat} (name type id kind : String) (h : k' ≠ k) (a : String) :
    (initAttrs g k name type id kind).getAttr k' a = g.getAttr k' a := by
  simp only [initAttrs, getAttr_setAttr_ne _ _ _ h]

theorem links_initAttrs (g : Graph) (k k' : Nat) (name type id kind : String) :
    (initAttrs g k name type id kind).links k' = g.links k' := by
  simp only [initAttrs, links_setAttr]

theorem child?_initAttrs (g : Graph) (k k' : Nat) (name type id kind : String) (m : String) :
    (initAttrs g k name type id kind).child? k' m = g.child? k' m := by
  simp only [initAttrs, child?_setAttr]

theorem keys_initAttrs (g : Graph) (k : Nat) (name type id kind : String) :
    keys (initAttrs g k name type id kind) = keys g := by
  simp only [initAttrs, keys_setAttr]

theorem getAttr_initAttrs_self (g : Graph) {k : Nat} (name type id kind : String) (hk : (g.node? k).isSome) :
    (initAttrs g k name type id kind).getAttr k "name" = some name ∧
    (initAttrs g k name type id kind).getAttr k "entity_id" = some id ∧
    (initAttrs g k name type id kind).getAttr k "~kind" = some kind := by
  have n1 : ((g.setAttr k "name" (some name)).node? k).isSome := by rw [node?_isSome_setAttr]; exact hk
  have n2 : (((g.setAttr k "name" (some name)).setAttr k "type" (some type)).node? k).isSome := by
    rw [node?_isSome_setAttr]; exact n1
  have n3 : ((((g.setAttr k "name" (some name)).setAttr k "type" (some type)).setAttr k "entity_id"
      (some id)).node? k).isSome := by rw [node?_isSome_setAttr]; exact n2
  refine ⟨?_, ?_, ?_⟩
  · simp only [initAttrs]
    rw [getAttr_setAttr_attr_ne _ _ _ _ (by decide), getAttr_setAttr_attr_ne _ _ _ _ (by decide),
      getAttr_setAttr_attr_ne _ _ _ _ (by decide), getAttr_setAttr_self _ _ _ hk]
  · simp only [initAttrs]
    rw [getAttr_setAttr_attr_ne _ _ _ _ (by decide), getAttr_setAttr_self _ _ _ n2]
  · simp only [initAttrs]
    rw [getAttr_setAttr_self _ _ _ n3]

/-- writing the identity attributes of an orphan, with a handed-out unused id -/
theorem WF.initAttrs_orphan {g : Graph} (h : WF g) {k : Nat} (ho : Orphan g k) (name type kind : String)
    {n : Nat} (hn : n < g.nextId) (hun : ∀ k', g.entityId k' ≠ some (idStr n)) (hkf : kind ≠ "file") :
    WF (initAttrs g k name type (idStr n) kind) ∧ Orphan (initAttrs g k name type (idStr n) kind) k := by
  have w1 := h.setAttr_orphan ho "name" (some name) (by intro e; exact absurd e (by decide))
    (by intro e; exact absurd e (by decide))
  have o1 := ho.setAttr k "name" (some name)
  have w2 := w1.setAttr_orphan o1 "type" (some type) (by intro e; exact absurd e (by decide))
    (by intro e; exact absurd e (by decide))
  have o2 := o1.setAttr k "type" (some type)
  have w3 := w2.setAttr_orphan o2 "entity_id" (some (idStr n)) (by
    intro _
    refine ⟨n, rfl, hn, ?_⟩
    intro k'
    rw [entityId_eq, getAttr_setAttr_attr_ne _ _ _ _ (by decide), getAttr_setAttr_attr_ne _ _ _ _ (by decide)]
    exact hun k') (by intro e; exact absurd e (by decide))
  have o3 := o2.setAttr k "entity_id" (some (idStr n))
  have w4 := w3.setAttr_orphan o3 "~kind" (some kind) (by intro e; exact absurd e (by decide))
    (by intro _ e; exact hkf (Option.some.inj e))
  exact ⟨w4, o3.setAttr k "~kind" (some kind)⟩

theorem WF.ecnCore {g : Graph} (h : WF g) {ownerKey : Nat} {cname name id kind : String} (type : String)
    {info : CInfo} {n : Nat}
    (hown : ownerKey ∈ keys g) (hci : containerInfo (okind g ownerKey) cname = some info)
    (hpl : isPlainLike info.flavour = true) (hitem : info.item = kind)
    (hfree : ∀ c, g.child? ownerKey cname = some c → g.child? c name = none)
    (hnf : ∀ m, g.nextId ≤ m → name ≠ idStr m)
    (hid : id = idStr n) (hn : n < g.nextId) (hunused : ∀ k', g.entityId k' ≠ some id) :
    NewEnt g ownerKey cname name id kind (ecnCore g ownerKey cname name type id kind).1
      (ecnCore g ownerKey cname name type id kind).2 := by
  subst hid
  have hpc : ¬ IsCont g ownerKey := h.not_cont_of_owner hci
  have w1 : WF (g.ensureGroup ownerKey cname).1 :=
    h.ensureGroup cname hown hpc (fun m _ => containerInfo_notId hci m)
  have hf := h.ensFacts cname hown
  obtain ⟨e, hfree1, hck⟩ := ecnCore_eq h cname name type (idStr n) kind hown w1 hfree
  rw [e]
  generalize hg1 : (g.ensureGroup ownerKey cname).1 = g1 at *
  generalize hc : (g.ensureGroup ownerKey cname).2 = c at *
  simp only
  -- the new node, with its attributes, still unlinked
  have wN := w1.newNode .group
  have oN := w1.orphan_newNode .group
  have hun1 : ∀ k', (g1.newNode .group).1.entityId k' ≠ some (idStr n) := by
    intro k'; rw [entityId_eq, getAttr_newNode, hf.attrs]; exact hunused k'
  obtain ⟨wA, oA⟩ := wN.initAttrs_orphan oN name type kind
    (by rw [nextId_newNode, hf.nextId]; exact hn) hun1 (hitem ▸ containerInfo_item_ne_file hci)
  have hkN : ((g1.newNode .group).1.node? g1.nextKey).isSome := by
    rw [node?_isSome_newNode]; simp
  obtain ⟨a1, a2, a3⟩ := getAttr_initAttrs_self (g1.newNode .group).1 name type (idStr n) kind hkN
  have hkfresh : g1.nextKey ∉ keys g := fun hk => w1.nextKey_fresh (hf.keys_mono _ hk)
  have hownk : ownerKey ≠ g1.nextKey := fun e => hkfresh (e ▸ hown)
  -- frame for old nodes in the attribute-initialised graph
  have hattrA : ∀ x, x ≠ g1.nextKey → ∀ a,
      (initAttrs (g1.newNode .group).1 g1.nextKey name type (idStr n) kind).getAttr x a = g.getAttr x a := by
    intro x hx a
    rw [getAttr_initAttrs_ne _ _ _ _ _ hx, getAttr_newNode, hf.attrs]
  have hokA : okind (initAttrs (g1.newNode .group).1 g1.nextKey name type (idStr n) kind) ownerKey =
      okind g ownerKey := by
    unfold okind kindOf; rw [hattrA ownerKey hownk]
  have hchA : (initAttrs (g1.newNode .group).1 g1.nextKey name type (idStr n) kind).child? ownerKey cname =
      some c := by rw [child?_initAttrs, child?_newNode]; exact hf.child
  have hkeyA : g1.nextKey ∈ keys (initAttrs (g1.newNode .group).1 g1.nextKey name type (idStr n) kind) := by
    rw [keys_initAttrs, keys_newNode]; simp
  have hfreeA : (initAttrs (g1.newNode .group).1 g1.nextKey name type (idStr n) kind).child? c name = none := by
    rw [child?_initAttrs, child?_newNode]; exact hfree1
  have hcN : ((initAttrs (g1.newNode .group).1 g1.nextKey name type (idStr n) kind).node? c).isSome := by
    apply wA.node_of_key
    rw [keys_initAttrs, keys_newNode]; exact List.mem_append_left _ hf.ckey
  have wF := wA.addLink_entry (k := ownerKey) (cn := cname) (c := c) (t := g1.nextKey) (n := name)
    (info := info) (by rw [hokA]; exact hci) hchA hkeyA hfreeA
    (by
      intro m hm
      have : (initAttrs (g1.newNode .group).1 g1.nextKey name type (idStr n) kind).nextId = g.nextId := by
        simp only [initAttrs, nextId_setAttr, nextId_newNode]; exact hf.nextId
      rw [this] at hm; exact hnf m hm)
    (by
      refine ⟨?_, ⟨idStr n, a2⟩, ?_⟩
      · rw [kindOf_eq]; simp only [a3]; exact hitem.symm
      · simp only [hpl, ↓reduceIte]; exact a1)
  have hci1 : containerInfo (okind g1 ownerKey) cname = some info := by
    rw [okind_congr (fun k => hf.attrs k _)]; exact hci
  have hcown : c ≠ ownerKey := by
    intro e
    exact w1.not_cont_of_owner hci1 (e ▸ ⟨ownerKey, cname, info, hci1, hf.child⟩)
  have hlc : g1.links c = cLinks g (g.child? ownerKey cname) := by
    cases hcc : g.child? ownerKey cname with
    | some c' =>
      obtain ⟨e1, e2⟩ := hf.old c' hcc
      rw [e1, e2]; rfl
    | none => rw [(hf.new hcc).1]; rfl
  refine ⟨wF, hkfresh, by rw [keys_addLink]; exact hkeyA, ?_, ?_, ?_, ?_, ?_, ?_, ?_, ?_, ?_, ?_⟩
  · intro x hx
    rw [keys_addLink, keys_initAttrs, keys_newNode]
    exact List.mem_append_left _ (hf.keys_mono x hx)
  · intro x hx a
    rw [getAttr_addLink]
    exact hattrA x (fun e => hkfresh (e ▸ hx)) a
  · rw [kindOf_eq, getAttr_addLink, a3]; rfl
  · rw [entityId_eq, getAttr_addLink]; exact a2
  · rw [getAttr_addLink]; exact a1
  · rw [links_addLink_ne _ _ _ (Ne.symm hck)]; exact oA.2.1
  · simp only [nextId_addLink, initAttrs, nextId_setAttr, nextId_newNode]; exact Nat.le_of_eq hf.nextId.symm
  · refine ⟨c, ?_, ?_⟩
    · rw [child?_addLink_ne _ _ _ (Ne.symm hcown)]; exact hchA
    · rw [links_addLink_self _ _ _ hcN, links_initAttrs, links_newNode, hlc]
  · intro x hx hxo hxc
    have hxc' : x ≠ c := by
      intro e
      cases hcc : g.child? ownerKey cname with
      | some c' =>
        obtain ⟨_, e2⟩ := hf.old c' hcc
        exact hxc (by rw [hcc, e, e2])
      | none =>
        have := (hf.new hcc).2.1
        exact h.nextKey_fresh (by rw [← this, ← e]; exact hx)
    rw [links_addLink_ne _ _ _ hxc', links_initAttrs, links_newNode]
    exact hf.links_other x hxo
  · intro m hm
    rw [child?_addLink_ne _ _ _ (Ne.symm hcown), child?_initAttrs, child?_newNode]
    exact hf.child_other ownerKey m (Or.inr hm)

end Nix.Store.Lemmas
