import NixModel.Lemmas.C03Frames

/-!
# C03: ids never change — the `entity_id` frame of the remaining API functions
(`create_property`, `create_feature`, the role-link setters), and the statement for every operation
of the (extended) histories
-/
namespace Nix.Store.Lemmas
open Nix.Store Nix.Store.Graph

/-- `Section.create_property` writes `entity_id` on the new dataset only -/
theorem WF.createProperty_entityId {g g' : Graph} (h : WF g) {ownerPath : Path} {name : String}
    (hres : Store.createProperty g ownerPath name = .ok g') (x : Nat) (hx : x ∈ keys g) :
    g'.entityId x = g.entityId x := by
  unfold Store.createProperty at hres
  cases hr : resolve g rootLoc ownerPath with
  | none => simp [hr] at hres
  | some o =>
    simp only [hr] at hres
    by_cases hk : kindOf g o.key = "section"
    · have hk' : (kindOf g o.key != "section") = false := by simpa using hk
      simp only [hk', Bool.false_eq_true, ↓reduceIte] at hres
      have hokey : o.key ∈ keys g := h.resolve_root_key hr
      have hkne : kindOf g o.key ≠ "" := by rw [hk]; decide
      have w1 : WF (g.ensureGroup o.key "properties").1 :=
        h.ensureGroup "properties" hokey (h.not_cont_of_kind hkne) (fun m _ => notId_of_head (by decide) m)
      have hf := h.ensFacts "properties" hokey
      replace hres : (if (name != "" && (g.ensureGroup o.key "properties").1.hasChild
            (g.ensureGroup o.key "properties").2 name) = true then Except.error Err.duplicateName
          else if (name == "") = true then Except.error Err.valueError
          else if hasSlash name = true then Except.error Err.valueError
          else Except.ok ((((((((g.ensureGroup o.key "properties").1.newNode .dataset).1.addLink
            (g.ensureGroup o.key "properties").2 name (g.ensureGroup o.key "properties").1.nextKey).setAttr
            (g.ensureGroup o.key "properties").1.nextKey "name" (some name)).freshId).1.setAttr
            (g.ensureGroup o.key "properties").1.nextKey "entity_id"
              (some (idStr (g.ensureGroup o.key "properties").1.nextId))).setAttr
            (g.ensureGroup o.key "properties").1.nextKey "~kind" (some "property")))) = .ok g' := hres
      have hxk : x ≠ (g.ensureGroup o.key "properties").1.nextKey := fun e =>
        w1.nextKey_fresh (e ▸ hf.keys_mono x hx)
      split at hres
      · cases hres
      · split at hres
        · cases hres
        · split at hres
          · cases hres
          · simp only [Except.ok.injEq] at hres
            rw [← hres, entityId_eq, getAttr_setAttr_ne _ _ _ hxk, getAttr_setAttr_ne _ _ _ hxk, getAttr_freshId,
              getAttr_setAttr_ne _ _ _ hxk, getAttr_addLink, getAttr_newNode, hf.attrs]
            rfl
    · have hk' : (kindOf g o.key != "section") = true := by simpa using hk
      simp [hk'] at hres

/-- the feature node is new: `create_feature` changes no attribute of an existing node -/
theorem WF.featFinal_getAttr {g : Graph} (h : WF g) {okey t : Nat} (lt tt : String) (hokey : okey ∈ keys g)
    (x : Nat) (hx : x ∈ keys g) (a : String) : (Lemmas.featFinal g okey t lt tt).getAttr x a = g.getAttr x a := by
  have w1 := h.freshId
  have hf := w1.ensFacts "features" hokey
  unfold Lemmas.featFinal
  simp only
  generalize hg2 : ((g.freshId).1.ensureGroup okey "features").1 = g2 at *
  generalize hc2 : ((g.freshId).1.ensureGroup okey "features").2 = c at *
  have hfree : g2.child? c (idStr g.nextId) = none := by
    apply child?_none_iff.mpr
    intro l hl
    cases hcc : (g.freshId).1.child? okey "features" with
    | some c' =>
      obtain ⟨e1, e2⟩ := hf.old c' hcc
      rw [e1] at hl
      exact h.names_not_future c l hl g.nextId (Nat.le_refl _)
    | none => rw [(hf.new hcc).1] at hl; cases hl
  rw [ensureGroup_of_none hfree]
  simp only
  have hxk : x ≠ g2.nextKey := by
    intro e
    have hx2 : x ∈ keys g2 := hf.keys_mono x hx
    rw [e] at hx2
    cases hcc : (g.freshId).1.child? okey "features" with
    | some c' =>
      obtain ⟨e1, _⟩ := hf.old c' hcc
      rw [e1] at hx2
      exact w1.nextKey_fresh hx2
    | none =>
      have e3 := (hf.new hcc).2.2
      have hlt : ∀ y ∈ keys g2, y < g2.nextKey := by
        intro y hy
        rw [e3, keys_addLink, keys_newNode] at hy
        rw [e3, nextKey_addLink, nextKey_newNode]
        rcases List.mem_append.mp hy with hy | hy
        · exact Nat.lt_succ_of_lt (w1.keys_lt y hy)
        · simp only [List.mem_singleton] at hy; rw [hy]; exact Nat.lt_succ_self _
      exact Nat.lt_irrefl _ (hlt _ hx2)
  rw [getAttr_createLinkIn, getAttr_setAttr_ne _ _ _ hxk, getAttr_setAttr_ne _ _ _ hxk, getAttr_setAttr_ne _ _ _ hxk,
    getAttr_setAttr_ne _ _ _ hxk, getAttr_addLink, getAttr_newNode, hf.attrs]
  rfl

/-- `BaseTag.create_feature` -/
theorem WF.createFeature_entityId {g g' : Graph} (h : WF g) {ownerPath : Path} {data : Option Nat}
    {linkType : String} (hres : Store.createFeature g ownerPath data linkType = .ok g') (x : Nat)
    (hx : x ∈ keys g) : g'.entityId x = g.entityId x := by
  unfold Store.createFeature at hres
  cases hr : resolve g rootLoc ownerPath with
  | none => simp [hr] at hres
  | some o =>
    simp only [hr] at hres
    have hokey : o.key ∈ keys g := h.resolve_root_key hr
    split at hres
    · cases hres
    · split at hres
      · cases hres
      · cases data with
        | none => simp at hres
        | some t =>
          cases hb : blockOfPath g ownerPath with
          | none => simp [hb] at hres
          | some b =>
            simp only [hb] at hres
            split at hres
            · cases hres
            · split at hres
              · cases hres
              · split at hres
                · cases hres
                · split at hres
                  · cases hres
                  · have e : g' = Lemmas.featFinal g o.key t linkType.toLower
                        (if isKind g t "data_array" = true then "DataArray" else "DataFrame") :=
                      (Except.ok.inj hres).symm
                    rw [e, entityId_eq, h.featFinal_getAttr _ _ hokey x hx]
                    rfl

/-- the role-link setters (`metadata`, `link`, `positions`, `extents`, feature `data`) never write
`entity_id` -/
theorem setRole_entityId {g g' : Graph} {ownerPath : Path} {role : String} {target : Option Nat}
    (hres : Store.setRole g ownerPath role target = .ok g') (x : Nat) : g'.entityId x = g.entityId x := by
  have hne : ("entity_id" : String) ≠ "target_type" := by decide
  unfold Store.setRole at hres
  cases hr : resolve g rootLoc ownerPath with
  | none => simp [hr] at hres
  | some o =>
    simp only [hr] at hres
    repeat' split at hres
    all_goals cases hres
    all_goals first
      | rfl
      | (rw [entityId_eq, getAttr_delLink]; rfl)
      | (rw [entityId_eq, getAttr_createLinkIn]; rfl)
      | (rw [entityId_eq, getAttr_createLinkIn, getAttr_setAttr_attr_ne _ _ _ _ hne]; rfl)

end Nix.Store.Lemmas
