import NixModel.Generated.CalibShape
import NixModel.Lemmas.C15Read

/-! Helper lemmas for C15: the statement lists regenerated from the source (`Generated/CalibShape.lean`),
run by the interpreters of `Pure/CalibPrim.lean`, compute the hand-written model functions. -/
set_option linter.unusedSimpArgs false
namespace Nix.Poly.Lemmas
open Nix.Poly

theorem shape_read_data (a : Arr) (ix : Index) :
    readDataG Gen.readDataBody Gen.applyPolynomialBody a ix = readData a ix := by
  unfold readDataG readData Gen.readDataBody Gen.applyPolynomialBody
  simp only [Stmt.run, Stmt.runLeaf, Cond.eval, bind, Except.bind, pure, Except.pure, Except.map]
  cases hr : rawRead a ix with
  | error e => simp
  | ok sv =>
    obtain ⟨shape, vals⟩ := sv
    simp only [Arr.originGet, fixShape, applyPolynomial]
    generalize a.coeffsGet = cs
    generalize a.origin = og
    generalize a.dtype = dt
    by_cases hsh : shape.length = 0 <;>
    cases cs with
    | nil =>
      cases og with
      | none => simp [truthy, hsh]
      | some x =>
        by_cases hx : x = 0
        · subst hx; simp [truthy, hsh]
        · simp [truthy, hx, hsh]
    | cons c cs' =>
      cases og with
      | none =>
        simp [truthy, toDouble, hsh]
        generalize (List.mapM _ _ : Except Err (List Rat)) = m; cases m <;> rfl
      | some x =>
        by_cases hx : x = 0
        · subst hx; simp [truthy, toDouble, hsh]
          generalize (List.mapM _ _ : Except Err (List Rat)) = m; cases m <;> rfl
        · simp [truthy, hx, toDouble, hsh]
          generalize (List.mapM _ _ : Except Err (List Rat)) = m; cases m <;> rfl

theorem shape_view_read (a : Arr) (v : View) (uix : Index) :
    runView readData a v uix Gen.viewReadBody none = readView a v uix := by
  unfold Gen.viewReadBody readView
  cases hv : v.valid <;> cases uix <;> simp [runView, hv, bind, Except.bind, pure, Except.pure]


/-- the setter shapes the model was written against, with the HDF5 names abstract -/
def coeffSetterTemplate (cn : String) : SStmt :=
  .seq (.raiseIf (.and (.not .argIsNone) (.and (.not .argLenZero) .argNotFlat)) .valueError)
    (.seq (.ite (.or .argIsNone .argLenZero) (.ite (.hasData cn) (.delItem cn) .skip) (.writeData cn .float64))
      .stampIfAuto)

def originSetterTemplate (on : String) : SStmt := .seq .checkNumber (.seq (.setAttr on) .stampIfAuto)

/-- the generated setter bodies are these shapes, instantiated with the names the *getters* read -/
theorem gen_coeff_setter : Gen.coeffSetterBody = coeffSetterTemplate Gen.coeffGetterName := rfl
theorem gen_origin_setter : Gen.originSetterBody = originSetterTemplate Gen.originGetterName := rfl

theorem template_set_coeffs (cn on : String) (a : Arr) (c : CoeffArg) :
    (coeffSetterTemplate cn).run cn on (.coeff c) a = setCoeffs a c := by
  unfold coeffSetterTemplate
  rcases a with ⟨dt, sh, raw, cf, og⟩
  cases c with
  | none => cases cf <;> simp [SStmt.run, SCond.eval, setCoeffs, bind, Except.bind, pure, Except.pure, Except.map]
  | scalar x => simp [SStmt.run, SCond.eval, setCoeffs, bind, Except.bind, pure, Except.pure, Except.map]
  | notFlat n =>
    cases n with
    | zero => cases cf <;> simp [SStmt.run, SCond.eval, setCoeffs, bind, Except.bind, pure, Except.pure, Except.map]
    | succ k => simp [SStmt.run, SCond.eval, setCoeffs, bind, Except.bind, pure, Except.pure, Except.map]
  | badElems b => cases b <;> simp [SStmt.run, SCond.eval, setCoeffs, bind, Except.bind, pure, Except.pure, Except.map]
  | seq cs =>
    cases cs with
    | nil => cases cf <;> simp [SStmt.run, SCond.eval, setCoeffs, bind, Except.bind, pure, Except.pure, Except.map]
    | cons x xs => simp [SStmt.run, SCond.eval, setCoeffs, bind, Except.bind, pure, Except.pure, Except.map]

theorem template_set_origin (cn on : String) (a : Arr) (o : OriginArg) :
    (originSetterTemplate on).run cn on (.origin o) a = setOrigin a o := by
  unfold originSetterTemplate
  cases o <;> simp [SStmt.run, setOrigin, bind, Except.bind]

theorem shape_set_coeffs (a : Arr) (c : CoeffArg) :
    Gen.coeffSetterBody.run Gen.coeffGetterName Gen.originGetterName (.coeff c) a = setCoeffs a c := by
  rw [gen_coeff_setter]; exact template_set_coeffs _ _ a c

theorem shape_set_origin (a : Arr) (o : OriginArg) :
    Gen.originSetterBody.run Gen.coeffGetterName Gen.originGetterName (.origin o) a = setOrigin a o := by
  rw [gen_origin_setter]; exact template_set_origin _ _ a o

end Nix.Poly.Lemmas
