import NixModel.Lemmas.C05Stale
import NixModel.Lemmas.C05Accept

/-!
# A detached node stays detached  (C05: handles kept across a deletion, over ALL histories)

`Adds g g'`: every link of `g'` leads to the root, to a node made since `g` (key at or above `g`'s supply) or to a
node that some group of `g` linked already.  Every API call of the structural model — creation, deletion, `append`,
`extend`, role links, attribute writes — and every call that is handed a kept handle stands in this relation to the
graph it meets: what gets linked has passed a membership test (so it was linked) or is new.  Hence a node that no
group links (`Detached`) and that is not new can never be linked again, whatever is tried with its handle.
-/
namespace Nix.Store.Lemmas
open Nix.Store Nix.Store.Graph

/-- some group links the node -/
def Linked (g : Graph) (t : Nat) : Prop := ∃ p l, l ∈ g.links p ∧ l.2 = t

/-- what a link written since `g` may lead to -/
def NewT (g : Graph) (t : Nat) : Prop := t = 0 ∨ g.nextKey ≤ t ∨ Linked g t

structure Adds (g g' : Graph) : Prop where
  nk : g.nextKey ≤ g'.nextKey
  links : ∀ p l, l ∈ g'.links p → NewT g l.2

theorem linked_of_not_detached {g : Graph} {k : Nat} (h : ¬ Detached g k) : Linked g k := by
  unfold Detached at h
  apply Classical.byContradiction
  intro hc
  apply h
  intro p l hl e
  exact hc ⟨p, l, hl, e⟩

theorem Adds.refl (g : Graph) : Adds g g :=
  ⟨Nat.le_refl _, fun p l hl => .inr (.inr ⟨p, l, hl, rfl⟩)⟩

/-- the links of `g2` are among those of `g1` -/
theorem Adds.sub {g g1 g2 : Graph} (h : Adds g g1) (hnk : g1.nextKey ≤ g2.nextKey)
    (hs : ∀ p l, l ∈ g2.links p → l ∈ g1.links p) : Adds g g2 :=
  ⟨Nat.le_trans h.nk hnk, fun p l hl => h.links p l (hs p l hl)⟩

theorem Adds.setAttr {g g1 : Graph} (h : Adds g g1) (k : Nat) (a : String) (v : Option String) :
    Adds g (g1.setAttr k a v) :=
  h.sub (Nat.le_refl _) (fun p l hl => by rwa [links_setAttr] at hl)

theorem Adds.freshId {g g1 : Graph} (h : Adds g g1) : Adds g (g1.freshId).1 :=
  h.sub (Nat.le_refl _) (fun _ _ hl => hl)

theorem Adds.newNode {g g1 : Graph} (h : Adds g g1) (kd : NKind) : Adds g (g1.newNode kd).1 :=
  h.sub (by rw [nextKey_newNode]; exact Nat.le_succ _) (fun p l hl => by rwa [links_newNode] at hl)

theorem Adds.delLink {g g1 : Graph} (h : Adds g g1) (p : Nat) (n : String) : Adds g (g1.delLink p n) :=
  h.sub (Nat.le_refl _) (fun k l hl => (links_delLink_sublist g1 p k n).subset hl)

theorem Adds.deleteObjs {g g1 : Graph} (h : Adds g g1) (ks : List Nat) : Adds g (g1.deleteObjs ks) :=
  h.sub (Nat.le_refl _) (fun k l hl => (links_deleteObjs_sublist g1 ks k).subset hl)

theorem Adds.addLink {g g1 : Graph} (h : Adds g g1) (p : Nat) (n : String) {t : Nat} (ht : NewT g t) :
    Adds g (g1.addLink p n t) :=
  ⟨h.nk, fun k l hl => by
    rcases mem_links_addLink hl with h1 | ⟨_, h2⟩
    · exact h.links k l h1
    · rw [h2]; exact ht⟩

/-- a key drawn from the supply of a later graph is new -/
theorem Adds.newT_next {g g1 : Graph} (h : Adds g g1) : NewT g g1.nextKey := .inr (.inl h.nk)

/-- what a later graph links was linked before or is new -/
theorem Adds.newT_linked {g g1 : Graph} (h : Adds g g1) {t : Nat} (ht : Linked g1 t) : NewT g t := by
  obtain ⟨p, l, hl, e⟩ := ht
  rw [← e]; exact h.links p l hl

theorem Adds.ensureGroup {g g1 : Graph} (h : Adds g g1) (p : Nat) (n : String) : Adds g (g1.ensureGroup p n).1 := by
  cases hc : g1.child? p n with
  | some k => rw [ensureGroup_of_some hc]; exact h
  | none =>
    rw [ensureGroup_of_none hc]
    exact (h.newNode .group).addLink p n h.newT_next

theorem Adds.createLinkIn {g g1 : Graph} (h : Adds g g1) (grp : Nat) (n : String) {t : Nat} (ht : NewT g t) :
    Adds g (createLinkIn g1 grp n t) := by
  unfold Store.createLinkIn
  split
  · exact (h.delLink grp n).addLink grp n ht
  · exact h.addLink grp n ht

theorem Adds.addDataset {g g1 : Graph} (h : Adds g g1) (k : Nat) (n : String) : Adds g (addDataset g1 k n) := by
  unfold Store.addDataset
  split
  · exact h
  · exact (h.newNode .dataset).addLink k n h.newT_next

theorem Adds.trans {g g1 g2 : Graph} (h1 : Adds g g1) (h2 : Adds g1 g2) : Adds g g2 :=
  ⟨Nat.le_trans h1.nk h2.nk, fun p l hl => by
    rcases h2.links p l hl with h0 | hn | hlk
    · exact .inl h0
    · exact .inr (.inl (Nat.le_trans h1.nk hn))
    · exact h1.newT_linked hlk⟩

/-- the point of it all: a detached node that is not new stays detached -/
theorem Adds.detached {g g' : Graph} (h : Adds g g') {k : Nat} (hk0 : k ≠ 0) (hlt : k < g.nextKey)
    (hd : Detached g k) : Detached g' k ∧ k < g'.nextKey := by
  refine ⟨fun p l hl e => ?_, Nat.lt_of_lt_of_le hlt h.nk⟩
  rcases h.links p l hl with h0 | hn | ⟨p', l', hl', e'⟩
  · exact hk0 (e ▸ h0)
  · rw [e] at hn; exact absurd hlt (Nat.not_lt.mpr hn)
  · exact hd p' l' hl' (e'.trans e)

/-! ## the API functions -/

/-- split every `match` / `if` of a hypothesis -/
macro "crack5" h:ident : tactic =>
  `(tactic| ((try dsimp only at $h:ident); repeat' (split at $h:ident)))

/-- the writes of `Entity.create_new` once name and id are settled -/
def ecnTail (g0 : Graph) (ok : Nat) (cname name type id kind : String) : Graph × Nat :=
  let (g1, c) := g0.ensureGroup ok cname
  let (g2, k) := g1.ensureGroup c name
  let g3 := g2.setAttr k "name" (some name)
  let g4 := g3.setAttr k "type" (some type)
  let g5 := g4.setAttr k "entity_id" (some id)
  (g5.setAttr k "~kind" (some kind), k)

theorem adds_ecnTail {g g0 : Graph} (h : Adds g g0) (ok : Nat) (cname name type id kind : String) :
    Adds g (ecnTail g0 ok cname name type id kind).1 := by
  unfold ecnTail
  have a1 := h.ensureGroup ok cname
  rcases h1 : g0.ensureGroup ok cname with ⟨g1, c⟩
  rw [h1] at a1
  dsimp only at a1 ⊢
  have a2 := a1.ensureGroup c name
  rcases h2 : g1.ensureGroup c name with ⟨g2, k⟩
  rw [h2] at a2
  dsimp only at a2 ⊢
  exact (((a2.setAttr _ _ _).setAttr _ _ _).setAttr _ _ _).setAttr _ _ _

theorem entityCreateNew_tail {g0 g1 : Graph} {ok k : Nat} {cname name type kind : String}
    (he : entityCreateNew g0 ok cname name type kind = .ok (g1, k)) :
    ∃ nm id, (g1, k) = ecnTail g0 ok cname nm type id kind ∨ (g1, k) = ecnTail (g0.freshId).1 ok cname nm type id kind := by
  unfold entityCreateNew at he
  by_cases hn : name = ""
  · subst hn
    simp only [beq_self_eq_true, ↓reduceIte] at he
    by_cases hs : hasSlash (g0.freshId).2 = true
    · simp [hs] at he
    · by_cases ht : type = ""
      · simp [hs, ht] at he
      · simp only [hs, Bool.false_eq_true, ↓reduceIte, beq_iff_eq, ht, Except.ok.injEq] at he
        exact ⟨_, _, .inr he.symm⟩
  · have hn' : (name == "") = false := by simpa using hn
    by_cases ht : type = ""
    · subst ht
      simp only [hn', Bool.false_eq_true, ↓reduceIte, bne_self_eq_false] at he
      by_cases hs : hasSlash name = true
      · simp [hs] at he
      · simp [hs] at he
    · have ht' : (type != "") = true := by simpa using ht
      simp only [hn', Bool.false_eq_true, ↓reduceIte, ht'] at he
      by_cases hs : hasSlash name = true
      · simp [hs] at he
      · simp only [hs, Bool.false_eq_true, ↓reduceIte, beq_iff_eq, ht, Except.ok.injEq] at he
        exact ⟨_, _, .inr he.symm⟩

theorem adds_entityCreateNew {g g0 g1 : Graph} (h : Adds g g0) {ok k : Nat} {cname name type kind : String}
    (he : entityCreateNew g0 ok cname name type kind = .ok (g1, k)) : Adds g g1 := by
  obtain ⟨nm, id, e | e⟩ := entityCreateNew_tail he
  · have : g1 = (ecnTail g0 ok cname nm type id kind).1 := congrArg Prod.fst e
    rw [this]; exact adds_ecnTail h ok cname nm type id kind
  · have : g1 = (ecnTail (g0.freshId).1 ok cname nm type id kind).1 := congrArg Prod.fst e
    rw [this]; exact adds_ecnTail h.freshId ok cname nm type id kind

theorem linked_of_inBlockStore {g : Graph} {b k : Nat} {store : String} (h : inBlockStore g b store k = true) :
    Linked g k := by
  apply linked_of_not_detached
  intro hd
  rw [inBlockStore_detached hd] at h
  cases h

theorem linked_of_inSourceTreeObj {g : Graph} {b k : Nat} (h : inSourceTreeObj g b k = true) : Linked g k := by
  apply linked_of_not_detached
  intro hd
  rw [inSourceTreeObj_detached hd] at h
  cases h

theorem adds_createBlock {g g' : Graph} {name type : String} (h : createBlock g name type = .ok g') : Adds g g' := by
  unfold createBlock at h
  have a0 := (Adds.refl g).ensureGroup 0 "data"
  rcases h0 : g.ensureGroup 0 "data" with ⟨g0, dataK⟩
  rw [h0] at a0 h
  dsimp only at a0 h
  split at h
  · cases h
  · cases he : entityCreateNew g0 0 "data" name type "block" with
    | error e => rw [he] at h; cases h
    | ok r =>
      obtain ⟨g1, k⟩ := r
      rw [he] at h
      simp only [Except.map, Except.ok.injEq] at h
      subst h
      exact adds_entityCreateNew a0 he

theorem adds_map_ecn {g g0 g' : Graph} (a0 : Adds g g0) {ok : Nat} {cname name type kind : String}
    (h : (entityCreateNew g0 ok cname name type kind).map (·.1) = .ok g') : Adds g g' := by
  cases he : entityCreateNew g0 ok cname name type kind with
  | error e => rw [he] at h; cases h
  | ok r =>
    obtain ⟨g1, k⟩ := r
    rw [he] at h
    simp only [Except.map, Except.ok.injEq] at h
    subst h
    exact adds_entityCreateNew a0 he

theorem adds_createSection {g g' : Graph} {p : Path} {name type : String}
    (h : createSection g p name type = .ok g') : Adds g g' := by
  unfold createSection at h
  split at h
  · crack5 h
    all_goals first
      | (cases h; done)
      | exact adds_map_ecn (Adds.refl g) h
  · crack5 h
    all_goals first
      | (cases h; done)
      | exact adds_map_ecn ((Adds.refl g).ensureGroup _ "sections") h

/-- `createIn` after the owner was found and the (container, kind) pair looked up: the code of `Store/Api.lean`
with the table's answer as a parameter (equal to it by `rfl`, `createIn_eq`) -/
def createInBody (g : Graph) (o : Loc) (ok : String) (spec : Option (String × String)) (name type : String)
    (extra : Option Nat) : Except Err Graph :=
  match spec with
  | none => .error .attributeError
  | some (cname, kind) =>
    match checkNameType name type with
    | .error e => .error e
    | .ok () =>
      let g0 := if ok == "source" then (g.ensureGroup o.key cname).1 else g
      if (match g0.child? o.key cname with | some c => g0.hasChild c name | none => false) then
        .error .duplicateName
      else if kind == "multi_tag" then
        match extra with
        | none => .error .valueError
        | some pos =>
          match entityCreateNew g0 o.key cname name type kind with
          | .error e => .error e
          | .ok (g1, k) =>
            if !isKind g1 pos "data_array" then .error .typeError
            else if !inBlockStore g1 o.key "data_arrays" pos then .error .runtimeError
            else .ok (createLinkIn g1 k "positions" pos)
      else
        match entityCreateNew g0 o.key cname name type kind with
        | .error e => .error e
        | .ok (g1, k) =>
          if kind == "data_array" then .ok (addDataset g1 k "data")
          else if kind == "tag" then .ok (addDataset g1 k "position")
          else .ok g1

theorem createIn_eq (g : Graph) (p : Path) (what name type : String) (extra : Option Nat) :
    createIn g p what name type extra =
      match resolve g rootLoc p with
      | none => .error .keyError
      | some o =>
        createInBody g o (kindOf g o.key)
          (match kindOf g o.key, what with
            | "block", "group" => some ("groups", "group")
            | "block", "data_array" => some ("data_arrays", "data_array")
            | "block", "tag" => some ("tags", "tag")
            | "block", "multi_tag" => some ("multi_tags", "multi_tag")
            | "block", "source" => some ("sources", "source")
            | "source", "source" => some ("sources", "source")
            | _, _ => none) name type extra := rfl

theorem adds_createInBody {g g' : Graph} {o : Loc} {ok : String} {spec : Option (String × String)}
    {name type : String} {extra : Option Nat} (h : createInBody g o ok spec name type extra = .ok g') :
    Adds g g' := by
  unfold createInBody at h
  cases spec with
  | none => cases h
  | some ck =>
    obtain ⟨cname, kind⟩ := ck
    dsimp only at h
    have a0 : Adds g (if ok == "source" then (g.ensureGroup o.key cname).1 else g) := by
      split
      · exact (Adds.refl g).ensureGroup _ _
      · exact Adds.refl g
    generalize (if ok == "source" then (g.ensureGroup o.key cname).1 else g) = g0 at a0 h
    crack5 h
    all_goals first
      | (cases h; done)
      | (cases h
         have a1 := adds_entityCreateNew a0 (by assumption)
         first
           | exact a1.addDataset _ _
           | exact a1
           | exact a1.createLinkIn _ _ (a1.newT_linked (linked_of_inBlockStore (b := o.key) (store := "data_arrays") (by simp_all))))

theorem adds_createIn {g g' : Graph} {p : Path} {what name type : String} {extra : Option Nat}
    (h : createIn g p what name type extra = .ok g') : Adds g g' := by
  rw [createIn_eq] at h
  cases hr : resolve g rootLoc p with
  | none => rw [hr] at h; cases h
  | some o => rw [hr] at h; exact adds_createInBody h

theorem adds_createProperty {g g' : Graph} {p : Path} {name : String} (h : createProperty g p name = .ok g') :
    Adds g g' := by
  unfold createProperty at h
  crack5 h
  all_goals first
    | (cases h; done)
    | (cases h
       exact ((((((Adds.refl g).ensureGroup _ "properties").newNode .dataset).addLink _ name
         (((Adds.refl g).ensureGroup _ "properties").newT_next)).setAttr _ _ _).freshId.setAttr _ _ _).setAttr _ _ _)

theorem adds_setAttrOp {g g' : Graph} {p : Path} {a : String} {v : Option String} (h : setAttrOp g p a v = .ok g') :
    Adds g g' := by
  unfold setAttrOp at h
  crack5 h
  all_goals first
    | (cases h; done)
    | (cases h; exact (Adds.refl g).setAttr _ _ _)

theorem feat_member (ia ifr ma mf : Bool) (h1 : ¬ (!(ia || ifr)) = true) (h2 : ¬ (ia && !ma) = true)
    (h3 : ¬ (ifr && !mf) = true) : ma = true ∨ mf = true := by
  cases ia <;> cases ifr <;> cases ma <;> cases mf <;> simp_all

theorem adds_createFeature {g g' : Graph} {p : Path} {d : Option Nat} {lt : String}
    (h : createFeature g p d lt = .ok g') : Adds g g' := by
  unfold createFeature at h
  crack5 h
  all_goals first
    | (cases h; done)
    | skip
  all_goals
    cases h
    refine (((((((Adds.refl g).freshId.ensureGroup _ "features").ensureGroup _ _).setAttr _ _ _).setAttr _ _ _).setAttr
      _ _ _).setAttr _ _ _).createLinkIn _ "data" (.inr (.inr ?_))
    have hm := feat_member _ _ _ _ (by assumption) (by assumption) (by assumption)
    rcases hm with hm | hm
    · exact linked_of_inBlockStore hm
    · exact linked_of_inBlockStore hm

theorem adds_h5Delete {g g' : Graph} {grp parent depth : Nat} {lname x : String} {die : Bool}
    (h : h5Delete g grp parent lname depth x die = .ok g') : Adds g g' := by
  unfold h5Delete at h
  crack5 h
  all_goals first
    | (cases h; done)
    | (cases h; exact ((Adds.refl g).delLink _ _).delLink _ _)
    | (cases h; exact (Adds.refl g).delLink _ _)

theorem adds_contDel {g g' : Graph} {c : Cont} {key : Key} (h : contDel g c key = .ok g') : Adds g g' := by
  unfold contDel at h
  crack5 h
  all_goals first
    | (cases h; done)
    | (cases h; exact (Adds.refl g).deleteObjs _)
    | exact adds_h5Delete h

theorem adds_linkAccepted {g g1 g2 : Graph} (a : Adds g g1) {c : Cont} {k : Nat} (hk : NewT g k)
    (h : linkAccepted g1 c k = .ok g2) : Adds g g2 := by
  unfold linkAccepted at h
  crack5 h
  all_goals first
    | (cases h; done)
    | (cases h; exact (a.ensureGroup _ _).createLinkIn _ _ hk)

/-- what `_accept` lets through is a member of the block — some group links it -/
theorem execAccept_linked {g : Graph} {c : Cont} {key : Key} {k : Nat}
    (h : execAccept g c (acceptBodyOf c) key = .ok k) : Linked g k := by
  have tailM : ∀ k0 : Nat, execAccept g c [.requireEntity, .requireMember, .returnItem] (.ent k0) = .ok k →
      Linked g k := by
    intro k0 hm
    simp only [execAccept] at hm
    crack5 hm
    all_goals first
      | (cases hm; done)
      | skip
    all_goals
      rename_i b _ hs
      cases hm
      exact linked_of_inBlockStore hs
  have tailS : ∀ k0 : Nat, execAccept g c [.requireEntity, .requireInSourceTree, .returnItem] (.ent k0) = .ok k →
      Linked g k := by
    intro k0 hm
    simp only [execAccept] at hm
    crack5 hm
    all_goals first
      | (cases hm; done)
      | skip
    all_goals
      rename_i hs
      cases hm
      simp only [Bool.and_eq_true] at hs
      exact linked_of_inSourceTreeObj hs.2
  unfold acceptBodyOf at h
  cases key with
  | pos i => split at h <;> simp [execAccept] at h
  | ent k0 =>
    split at h
    · exact tailS k0 h
    · exact tailM k0 h
  | str x =>
    by_cases hu : isUuid x = true
    · cases hg : getById g c.node x with
      | none => split at h <;> simp [execAccept, hu, hg] at h
      | some l =>
        split at h
        · simp only [execAccept, hu, ↓reduceIte, hg] at h; exact tailS l.2 h
        · simp only [execAccept, hu, ↓reduceIte, hg] at h; exact tailM l.2 h
    · split at h <;> simp [execAccept, hu] at h

theorem adds_contAppend {g g' : Graph} {c : Cont} {key : Key} (h : contAppend g c key = .ok g') : Adds g g' := by
  have fin : ∀ body, acceptBodyOf c = body → appendVia g c (execAccept g c body key) = .ok g' → Adds g g' := by
    intro body hb hx
    rw [← hb] at hx
    unfold appendVia at hx
    cases he : execAccept g c (acceptBodyOf c) key with
    | error e => simp [he] at hx
    | ok k =>
      simp only [he] at hx
      exact adds_linkAccepted (Adds.refl g) (.inr (.inr (execAccept_linked he))) hx
  cases hfl : c.info.flavour with
  | link =>
    rw [contAppend_eq_accept_link g c key hfl] at h
    exact fin _ (by unfold acceptBodyOf; simp [hfl]) h
  | sourceLink =>
    rw [contAppend_eq_accept_source g c key hfl] at h
    exact fin _ (by unfold acceptBodyOf; simp [hfl]) h
  | _ => unfold contAppend at h; simp [hfl] at h

theorem acceptAll_linked {g : Graph} {c : Cont} : ∀ {keys : List Key} {ks : List Nat},
    acceptAll g c keys = .ok ks → ∀ k ∈ ks, Linked g k
  | [], ks, h => by simp [acceptAll] at h; subst h; simp
  | key :: rest, ks, h => by
    unfold acceptAll at h
    cases h1 : execAccept g c (acceptBodyOf c) key with
    | error e => simp [h1] at h
    | ok k =>
      cases h2 : acceptAll g c rest with
      | error e => simp [h1, h2] at h
      | ok ks' =>
        simp [h1, h2] at h
        subst h
        intro k' hk'
        rcases List.mem_cons.mp hk' with rfl | hk'
        · exact execAccept_linked h1
        · exact acceptAll_linked h2 k' hk'

theorem adds_linkAll {g : Graph} {c : Cont} : ∀ {ks : List Nat} {g1 g2 : Graph}, Adds g g1 →
    (∀ k ∈ ks, NewT g k) → linkAll g1 c ks = .ok g2 → Adds g g2
  | [], g1, g2, a, _, h => by simp [linkAll] at h; subst h; exact a
  | k :: ks, g1, g2, a, hn, h => by
    unfold linkAll at h
    cases hl : linkAccepted g1 c k with
    | error e => simp [hl] at h
    | ok g1' =>
      simp only [hl] at h
      exact adds_linkAll (adds_linkAccepted a (hn k (by simp)) hl) (fun k' hk' => hn k' (by simp [hk'])) h

theorem adds_contExtend {g g' : Graph} {c : Cont} {keys : List Key} (h : contExtend g c keys = .ok g') :
    Adds g g' := by
  unfold contExtend at h
  have key : ∀ (hx : (match acceptAll g c keys with
        | .error e => (Except.error e : Except Err Graph)
        | .ok ks => linkAll g c ks) = .ok g'), Adds g g' := by
    intro hx
    cases ha : acceptAll g c keys with
    | error e => simp [ha] at hx
    | ok ks =>
      simp only [ha] at hx
      exact adds_linkAll (Adds.refl g) (fun k hk => .inr (.inr (acceptAll_linked ha k hk))) hx
  cases hfl : c.info.flavour <;> simp only [hfl] at h <;> first | exact key h | cases h

theorem linked_of_not_not {g : Graph} {b k : Nat} {store : String}
    (h : ¬ (!inBlockStore g b store k) = true) : Linked g k :=
  linked_of_inBlockStore (b := b) (store := store) (by simpa using h)

/-- a role link: `positions` / `extents` / feature `data` lead to a member of the block (whatever node is offered);
`metadata` / a section's `link` lead to the section handed in — which, addressed by a path, some group links -/
theorem adds_setRole {g g' : Graph} {p : Path} {role : String} {t : Option Nat}
    (ht : ∀ t', t = some t' → isLinkRole role = false → NewT g t') (h : setRole g p role t = .ok g') :
    Adds g g' := by
  unfold setRole at h
  crack5 h
  all_goals first
    | (cases h; done)
    | (cases h; exact Adds.refl g)
    | (cases h; exact (Adds.refl g).delLink _ _)
    | (cases h; exact (Adds.refl g).createLinkIn _ _ (ht _ rfl rfl))
    | (cases h; exact (Adds.refl g).createLinkIn _ _ (.inr (.inr (linked_of_not_not (by assumption)))))
    | (cases h; exact ((Adds.refl g).setAttr _ _ _).createLinkIn _ _ (.inr (.inr (linked_of_not_not (by assumption)))))

theorem newT_of_resolve {g : Graph} {p : Path} {l : Loc} (h : resolve g rootLoc p = some l) : NewT g l.key := by
  have gen : ∀ (p : Path) (l0 l : Loc), NewT g l0.key → resolve g l0 p = some l → NewT g l.key := by
    intro p
    induction p with
    | nil => intro l0 l h0 h; simp [resolve] at h; subst h; exact h0
    | cons s ps ih =>
      intro l0 l _ h
      simp only [resolve] at h
      cases hs : stepSeg g l0 s with
      | none => simp [hs] at h
      | some l1 =>
        simp only [hs] at h
        refine ih l1 l ?_ h
        unfold stepSeg at hs
        cases s with
        | name n =>
          simp only [Option.map_eq_some_iff] at hs
          obtain ⟨k, hk, e⟩ := hs
          subst e
          right; right
          rw [child?_eq] at hk
          simp only [Option.map_eq_some_iff] at hk
          obtain ⟨lk, hlk, e⟩ := hk
          exact ⟨l0.key, lk, List.mem_of_find?_eq_some hlk, e⟩
        | idx i =>
          simp only [Option.map_eq_some_iff] at hs
          obtain ⟨nk, hnk, e⟩ := hs
          subst e
          right; right
          exact ⟨l0.key, nk, List.mem_of_getElem? hnk, rfl⟩
  exact gen p rootLoc l (.inl rfl) h

/-- every path-addressed call -/
theorem adds_apply {g g' : Graph} {op : Op} (h : apply g op = some (.ok g')) : Adds g g' := by
  cases op with
  | createBlock n t => simp only [apply, Option.some.injEq] at h; exact adds_createBlock h
  | createSection o n t => simp only [apply, Option.some.injEq] at h; exact adds_createSection h
  | createIn o w n t ex =>
    cases ex with
    | none => simp only [apply, Option.some.injEq] at h; exact adds_createIn h
    | some ep =>
      simp only [apply, Option.map_eq_some_iff] at h
      obtain ⟨l, _, hl⟩ := h
      exact adds_createIn hl
  | createProperty o n => simp only [apply, Option.some.injEq] at h; exact adds_createProperty h
  | createFeature o d lt =>
    cases d with
    | none => simp only [apply, Option.some.injEq] at h; exact adds_createFeature h
    | some dp =>
      simp only [apply, Option.map_eq_some_iff] at h
      obtain ⟨l, _, hl⟩ := h
      exact adds_createFeature hl
  | del o c k =>
    simp only [apply] at h
    crack5 h
    all_goals first
      | (cases h; done)
      | (simp only [Option.some.injEq] at h; exact adds_contDel h)
  | append o c k =>
    simp only [apply] at h
    crack5 h
    all_goals first
      | (cases h; done)
      | (simp only [Option.some.injEq] at h; exact adds_contAppend h)
  | setRole o r tp =>
    cases tp with
    | none =>
      simp only [apply, Option.some.injEq] at h
      exact adds_setRole (fun t' e => by cases e) h
    | some tp =>
      simp only [apply, Option.map_eq_some_iff] at h
      obtain ⟨l, hr, hl⟩ := h
      exact adds_setRole (fun t' e _ => by cases e; exact newT_of_resolve hr) hl
  | setAttr p a v => simp only [apply, Option.some.injEq] at h; exact adds_setAttrOp h
  | reopen => simp only [apply, Option.some.injEq, Except.ok.injEq] at h; subst h; exact Adds.refl g

/-- every call, also those that are handed a kept handle -/
theorem adds_applyH {g g' : Graph} {op : HOp} (h : applyH g op = some (.ok g')) : Adds g g' := by
  cases op with
  | op o => exact adds_apply h
  | appendH o c hd =>
    simp only [applyH, Option.map_eq_some_iff] at h
    obtain ⟨cont, _, hc⟩ := h
    exact adds_contAppend hc
  | extend o c items =>
    simp only [applyH] at h
    crack5 h
    all_goals first
      | (cases h; done)
      | (simp only [Option.some.injEq] at h; exact adds_contExtend h)
  | setRoleH o r hd =>
    simp only [applyH] at h
    split at h
    · rename_i hr
      simp only [Option.some.injEq] at h
      exact adds_setRole (fun t' _ hn => by rw [hr] at hn; cases hn) h
    · cases h
  | createFeatureH o hd lt => simp only [applyH, Option.some.injEq] at h; exact adds_createFeature h

theorem adds_stepH (g : Graph) (op : HOp) : Adds g (stepH g op) := by
  unfold stepH
  split
  · rename_i g' h; exact adds_applyH h
  · exact Adds.refl g

theorem adds_runH (ops : List HOp) : ∀ g : Graph, Adds g (runH g ops) := by
  induction ops with
  | nil => intro g; exact Adds.refl g
  | cons op ops ih => intro g; exact (adds_stepH g op).trans (ih (stepH g op))

/-- **a detached node stays detached**: no history of API calls — creations (also under the node's old name),
deletions, appends, extends, role links, attribute writes, and calls handed ANY kept handles, the node's own
included — links it again -/
theorem detached_runH {g : Graph} {k : Nat} (hk0 : k ≠ 0) (hlt : k < g.nextKey) (hd : Detached g k)
    (ops : List HOp) : Detached (runH g ops) k :=
  ((adds_runH ops g).detached hk0 hlt hd).1

end Nix.Store.Lemmas
