import NixModel.Pure.FlushOpen
import NixModel.Lemmas.C17Flush

/-!
Helper lemmas for the open path of C17 (`Pure/FlushOpen.lean`): under a configuration that creates the file at
the named path with a lower library-version bound below 1.10, `stepO` is `step` (refinement, for every
history); under a locking bound a writer that holds the file keeps the persistent mark set through every
session body, so that a kill after `flush()` leaves a file nobody can open.
-/
namespace Nix.Flush.Lemmas
open Nix.Flush

/-- nothing of the open path interferes: no version-3 superblock, no mark, no detached handle -/
structure Plain (ow : OWorld) : Prop where
  sb3 : ow.sb3 = false
  flag : ow.flag = false
  att : ow.detached = false

theorem Plain_init : Plain OWorld.init := ⟨rfl, rfl, rfl⟩

/-- a configuration under which the open path is transparent -/
def Cfg.plain (cfg : Cfg) : Prop := cfg.createAtArg = true ∧ cfg.openAtArg = true ∧ locking cfg.low = false

theorem openFile_create (w : World) (hn : w.handle = none) :
    openFile w .overwrite = (createW (settle w), none) := by
  simp [openFile, hn]

theorem openFile_missing_rw (w : World) (hn : w.handle = none) (hd : (settle w).disk = none) :
    openFile w .readWrite = (createW (settle w), none) := by
  simp [openFile, hn, hd]

theorem openFile_missing_ro (w : World) (hn : w.handle = none) (hd : (settle w).disk = none) :
    openFile w .readOnly = (settle w, some .runtimeError) := by
  simp [openFile, hn, hd]

theorem pathState_file {ow : OWorld} {d : Store} (h : (settle ow.w).disk = some d) : pathState ow = .file := by
  simp [pathState, h]

theorem pathState_missing {ow : OWorld} (h : (settle ow.w).disk = none) : pathState ow = .missing := by
  simp [pathState, h]

theorem openO_plain {cfg : Cfg} (hc : Cfg.plain cfg) {ow : OWorld} (hp : Plain ow) (m : Mode) :
    (openO cfg ow m).1.w = (openFile ow.w m).1 ∧ (openO cfg ow m).2 = (openFile ow.w m).2 ∧
    Plain (openO cfg ow m).1 := by
  obtain ⟨hat, hoa, hlk⟩ := hc
  rcases Option.eq_none_or_eq_some ow.w.handle with hn | ⟨hd, ho⟩
  · have hcreate : ∀ ps, openDecision ps m = .create .trunc .overwrite →
        pathState ow = ps → openFile ow.w m = (createW (settle ow.w), none) →
        (openO cfg ow m).1.w = (openFile ow.w m).1 ∧ (openO cfg ow m).2 = (openFile ow.w m).2 ∧
        Plain (openO cfg ow m).1 := by
      intro ps hdec hps hof
      have e : openO cfg ow m = (⟨(openFile ow.w .overwrite).1, locking cfg.low, locking cfg.low, false⟩, none) := by
        simp only [openO, hn, hps, hdec, hat, if_true]
      rw [e, hof, openFile_create _ hn]
      exact ⟨rfl, rfl, ⟨hlk, hlk, rfl⟩⟩
    have hexist : ∀ fl d, openDecision .file m = .openExisting fl m → m ≠ .overwrite →
        (settle ow.w).disk = some d →
        (openO cfg ow m).1.w = (openFile ow.w m).1 ∧ (openO cfg ow m).2 = (openFile ow.w m).2 ∧
        Plain (openO cfg ow m).1 := by
      intro fl d hdec hm hdd
      have e : openO cfg ow m =
          ({ ow with w := (openFile ow.w m).1, flag := ow.sb3 && decide (fl = .rdwr) }, none) := by
        simp only [openO, hn, pathState_file hdd, hdec, hp.flag, hoa]
        rfl
      rw [e, openFile_existing m hm hn hdd]
      exact ⟨rfl, rfl, ⟨hp.sb3, by simp [hp.sb3], hp.att⟩⟩
    rcases Option.eq_none_or_eq_some (settle ow.w).disk with hdn | ⟨d, hdd⟩
    · have hps := pathState_missing hdn
      cases m with
      | readOnly =>
        have e : openO cfg ow .readOnly =
            ({ ow with w := (openFile ow.w .readOnly).1 }, some .runtimeError) := by
          simp only [openO, hn, hps, openDecision]
        rw [e, openFile_missing_ro _ hn hdn]
        exact ⟨rfl, rfl, ⟨hp.sb3, hp.flag, hp.att⟩⟩
      | readWrite => exact hcreate .missing rfl hps (openFile_missing_rw _ hn hdn)
      | overwrite => exact hcreate .missing rfl hps (openFile_create _ hn)
    · cases m with
      | overwrite => exact hcreate .file rfl (pathState_file hdd) (openFile_create _ hn)
      | readOnly => exact hexist .rdonly d rfl (by simp) hdd
      | readWrite => exact hexist .rdwr d rfl (by simp) hdd
  · have e : openO cfg ow m = (ow, some .runtimeError) := by simp only [openO, ho]
    rw [e, openFile_open m ho]
    exact ⟨rfl, rfl, hp⟩

theorem liftO_plain {ow : OWorld} (hp : Plain ow) (e : Ev) :
    (liftO ow e).1.w = (step ow.w e).1 ∧ (liftO ow e).2 = (step ow.w e).2 ∧ Plain (liftO ow e).1 := by
  refine ⟨by simp [liftO, hp.att], rfl, ⟨hp.sb3, ?_, ?_⟩⟩
  · simp [liftO, hp.flag]
  · simp [liftO, hp.att]

/-- **refinement**: under a plain configuration a plain world steps exactly as `Pure/Flush.lean` says -/
theorem stepO_plain {cfg : Cfg} (hc : Cfg.plain cfg) {ow : OWorld} (hp : Plain ow) (e : Ev) :
    (stepO cfg ow e).1.w = (step ow.w e).1 ∧ (stepO cfg ow e).2 = (step ow.w e).2 ∧
    Plain (stepO cfg ow e).1 := by
  cases e with
  | «open» m => exact openO_plain hc hp m
  | kill => exact ⟨rfl, rfl, ⟨hp.sb3, hp.flag, rfl⟩⟩
  | write x => exact liftO_plain hp _
  | flush => exact liftO_plain hp _
  | close => exact liftO_plain hp _
  | exit => exact liftO_plain hp _
  | writeback ks => exact liftO_plain hp _

theorem runO_plain {cfg : Cfg} (hc : Cfg.plain cfg) (es : List Ev) {ow : OWorld} (hp : Plain ow) :
    (runO cfg ow es).w = run ow.w es ∧ Plain (runO cfg ow es) := by
  induction es generalizing ow with
  | nil => exact ⟨rfl, hp⟩
  | cons e es ih =>
    obtain ⟨hw, _, hp'⟩ := stepO_plain hc hp e
    have := ih hp'
    exact ⟨by simpa [runO, run, hw] using this.1, this.2⟩

/-- opening a settled, closed file without truncation is not refused -/
theorem openFile_settled_ok {c : Store} {w : World} (m : Mode) (hm : m ≠ .overwrite) (h : Settled c w)
    (hn : w.handle = none) : (openFile w m).2 = none := by
  rw [openFile_existing m hm hn (settle_settled h).disk]

/-! ### a locking lower bound: the mark outlives the killed writer -/

/-- a writer holds the named file and its 'open for write' mark is set on disk -/
structure Held (ow : OWorld) : Prop where
  handle : ∃ hd, ow.w.handle = some hd ∧ hd.mode ≠ .readOnly
  disk : ow.w.disk.isSome = true
  flag : ow.flag = true
  att : ow.detached = false

theorem prim_disk_isSome {w : World} (p : Prim) (h : w.disk.isSome = true) : (prim w p).1.disk.isSome = true := by
  rcases Option.eq_none_or_eq_some w.handle with hn | ⟨hd, ho⟩
  · rw [prim_closed_world p hn]; exact h
  · cases p with
    | gcCollect => exact h
    | h5flush =>
      obtain ⟨w', hp, _, _, hw'⟩ := prim_flush_open ho
      rw [hp]
      rcases hw' with rfl | ⟨_, rfl⟩
      · exact h
      · rfl
    | h5close => rw [prim_close_open ho]; exact h

theorem runBody_disk_isSome (body : List Prim) {w : World} (h : w.disk.isSome = true) :
    (runBody w body).1.disk.isSome = true := by
  induction body generalizing w with
  | nil => exact h
  | cons p ps ih =>
    have hp := prim_disk_isSome p h
    cases hpr : prim w p with
    | mk w' oe =>
      rw [hpr] at hp
      cases oe with
      | none => rw [runBody_ok ps hpr]; exact ih hp
      | some e => rw [runBody_err ps hpr]; exact hp

/-- creating the file under a locking bound sets the mark -/
theorem create_held {cfg : Cfg} (hl : locking cfg.low = true) (ha : cfg.createAtArg = true) {ow : OWorld}
    (hn : ow.w.handle = none) :
    (stepO cfg ow (.open .overwrite)).2 = none ∧ Held (stepO cfg ow (.open .overwrite)).1 ∧
    WF (stepO cfg ow (.open .overwrite)).1.w := by
  have hdec : ∀ ps, openDecision ps .overwrite = .create .trunc .overwrite := by intro ps; cases ps <;> rfl
  have e : stepO cfg ow (.open .overwrite) =
      (⟨(openFile ow.w .overwrite).1, locking cfg.low, locking cfg.low, false⟩, none) := by
    simp only [stepO, openO, hn, hdec, ha, if_true]
  rw [e, openFile_create _ hn]
  exact ⟨rfl, ⟨⟨⟨.overwrite, Store.empty⟩, rfl, by simp⟩, rfl, hl, rfl⟩, createW_WF (settle_pending ow.w)⟩

/-- writes, write-backs and flushes keep the writer and the mark -/
theorem session_held {cfg : Cfg} (hk : closes Gen.fileFlushBody = false) {ow : OWorld} (h : Held ow) (e : Ev)
    (he : sessionEv e = true) : Held (stepO cfg ow e).1 := by
  obtain ⟨⟨hd, ho, hrw⟩, hdisk, hflag, hatt⟩ := h
  have key : ∀ e', (∃ hd', (step ow.w e').1.handle = some hd' ∧ hd'.mode ≠ .readOnly) →
      (step ow.w e').1.disk.isSome = true → Held (liftO ow e').1 := by
    intro e' ⟨hd', ho', hrw'⟩ hdk
    refine ⟨⟨hd', by simp [liftO, hatt, ho'], hrw'⟩, by simp [liftO, hatt, hdk], ?_, ?_⟩
    · simp [liftO, ho', hflag]
    · simp [liftO, hatt]
  cases e with
  | write x =>
    exact key _ ⟨⟨hd.mode, x.apply hd.cache⟩, by simp [step, writeCall, ho, hrw], hrw⟩
      (by simp [step, writeCall, ho, hrw, hdisk])
  | writeback ks =>
    refine key _ ⟨hd, by simp [step, writebackEv, ho, hrw], hrw⟩ ?_
    simp only [step, writebackEv, ho, hrw, if_false, Option.isSome_map]
    exact hdisk
  | flush =>
    exact key _ ⟨hd, (runBody_keeps Gen.fileFlushBody ho hk).1, hrw⟩ (runBody_disk_isSome _ hdisk)
  | «open» m => simp [sessionEv] at he
  | close => simp [sessionEv] at he
  | exit => simp [sessionEv] at he
  | kill => simp [sessionEv] at he

theorem run_held {cfg : Cfg} (hk : closes Gen.fileFlushBody = false) (es : List Ev) {ow : OWorld} (h : Held ow)
    (hs : ∀ e ∈ es, sessionEv e = true) : Held (runO cfg ow es) := by
  induction es generalizing ow with
  | nil => exact h
  | cons e es ih =>
    exact ih (session_held hk h e (hs e List.mem_cons_self)) (fun e' he' => hs e' (List.mem_cons_of_mem _ he'))

/-- a writer that holds a marked file is killed: every later open that does not truncate is refused -/
theorem held_kill_refused {cfg : Cfg} (hoa : cfg.openAtArg = true) {ow : OWorld} (h : Held ow) (m : Mode)
    (hm : m ≠ .overwrite) :
    (reopenO cfg ow m).1 = some .runtimeError := by
  obtain ⟨_, hdisk, hflag, _⟩ := h
  obtain ⟨d, hd⟩ := Option.isSome_iff_exists.mp hdisk
  let ow' : OWorld := { ow with w := (step ow.w .kill).1, detached := false }
  have hn' : ow'.w.handle = none := rfl
  have hf' : ow'.flag = true := hflag
  have hps : pathState ow' = .file := by
    apply pathState_file (d := d)
    simp [ow', step, settle, hd]
  show (openO cfg ow' m).2 = some .runtimeError
  cases m with
  | overwrite => exact absurd rfl hm
  | readOnly => simp [openO, hn', hps, openDecision, hf', hoa]
  | readWrite => simp [openO, hn', hps, openDecision, hf', hoa]

/-! ### any configuration that creates the file at the named path: the content level is `step` -/

theorem liftO_attached {ow : OWorld} (ha : ow.detached = false) (e : Ev) :
    (liftO ow e).1.w = (step ow.w e).1 ∧ (liftO ow e).2 = (step ow.w e).2 ∧ (liftO ow e).1.detached = false ∧
    (liftO ow e).1.flag = (if ow.w.handle.isSome && (step ow.w e).1.handle.isNone then false else ow.flag) := by
  refine ⟨by simp [liftO, ha], rfl, by simp [liftO, ha], by simp [liftO, ha]⟩

/-- a regular close (a body that flushes first and then closes) under a locking bound: the mark is cleared and
the file is settled on the state at the close -/
theorem close_clears {cfg : Cfg} {ow : OWorld} (h : Held ow) (hwf : WF ow.w) (body : List Prim)
    (hs : syncs body = true) (hc : closes body = true) (e : Ev) (he : step ow.w e = runBody ow.w body)
    (hne : e = .close ∨ e = .exit) :
    ∃ hd, ow.w.handle = some hd ∧ Settled hd.cache (stepO cfg ow e).1.w ∧ (stepO cfg ow e).1.w.handle = none ∧
      (stepO cfg ow e).1.flag = false ∧ (stepO cfg ow e).1.detached = false := by
  obtain ⟨⟨hd, ho, _⟩, _, _, hatt⟩ := h
  have hl := liftO_attached hatt e
  have hstep : stepO cfg ow e = liftO ow e := by rcases hne with rfl | rfl <;> rfl
  have hclosed : (step ow.w e).1.handle = none := by rw [he]; exact runBody_closes body hc
  refine ⟨hd, ho, ?_, ?_, ?_, ?_⟩
  · rw [hstep, hl.1, he]; exact runBody_syncs body ho hwf hs
  · rw [hstep, hl.1]; exact hclosed
  · rw [hstep, hl.2.2.2]; simp [ho, hclosed]
  · rw [hstep]; exact hl.2.2.1

/-- an unmarked, closed, settled file opens without truncation, whatever the configuration -/
theorem reopen_unmarked {cfg : Cfg} (hoa : cfg.openAtArg = true) {c : Store} {ow : OWorld} (hset : Settled c ow.w)
    (hf : ow.flag = false) (m : Mode) (hm : m ≠ .overwrite) :
    reopenO cfg ow m = (none, some c) := by
  let ow' : OWorld := { ow with w := (step ow.w .kill).1, detached := false }
  have hk : Settled c ow'.w := kill_settled hset
  have hn' : ow'.w.handle = none := rfl
  have hf' : ow'.flag = false := hf
  have hd := (settle_settled hk).disk
  have hps : pathState ow' = .file := pathState_file hd
  show ((openO cfg ow' m).2, viewO (openO cfg ow' m).1) = (none, some c)
  cases m with
  | overwrite => exact absurd rfl hm
  | readOnly =>
    have e : openO cfg ow' .readOnly =
        ({ ow' with w := (openFile ow'.w .readOnly).1, flag := ow'.sb3 && decide (Flags.rdonly = .rdwr) }, none) := by
      simp only [openO, hn', hps, openDecision, hf', hoa]
      rfl
    rw [e, openFile_existing .readOnly (by simp) hn' hd]
    rfl
  | readWrite =>
    have e : openO cfg ow' .readWrite =
        ({ ow' with w := (openFile ow'.w .readWrite).1, flag := ow'.sb3 && decide (Flags.rdwr = .rdwr) }, none) := by
      simp only [openO, hn', hps, openDecision, hf', hoa]
      rfl
    rw [e, openFile_existing .readWrite (by simp) hn' hd]
    rfl

/-- the content level of a held world follows `step` through a session body -/
theorem run_held_w {cfg : Cfg} (hk : closes Gen.fileFlushBody = false) (es : List Ev) {ow : OWorld} (h : Held ow)
    (hs : ∀ e ∈ es, sessionEv e = true) : (runO cfg ow es).w = run ow.w es := by
  induction es generalizing ow with
  | nil => rfl
  | cons e es ih =>
    have he := hs e List.mem_cons_self
    have h1 : (stepO cfg ow e).1.w = (step ow.w e).1 := by
      cases e with
      | write x => exact (liftO_attached h.att _).1
      | writeback ks => exact (liftO_attached h.att _).1
      | flush => exact (liftO_attached h.att _).1
      | «open» m => simp [sessionEv] at he
      | close => simp [sessionEv] at he
      | exit => simp [sessionEv] at he
      | kill => simp [sessionEv] at he
    have := ih (session_held (cfg := cfg) hk h e he) (fun e' he' => hs e' (List.mem_cons_of_mem _ he'))
    simpa [runO, run, h1] using this

/-- the mode of the handle `openFile` hands out is the one `File.__init__` leaves in `self.mode` -/
theorem openFile_mode (w : World) (hn : w.handle = none) (m : Mode) (hd : Handle)
    (ho : (openFile w m).1.handle = some hd) :
    let ps : PathState := if (settle w).disk.isSome then .file else .missing
    (∃ fl, openDecision ps m = .create fl hd.mode) ∨ (∃ fl, openDecision ps m = .openExisting fl hd.mode) := by
  have hsn : (settle w).handle = none := by rw [settle_handle, hn]
  rcases Option.eq_none_or_eq_some (settle w).disk with hdn | ⟨d, hdd⟩
  · simp only [hdn, Option.isSome_none, Bool.false_eq_true, if_false]
    cases m with
    | readOnly =>
      rw [openFile_missing_ro _ hn hdn, hsn] at ho
      cases ho
    | readWrite =>
      rw [openFile_missing_rw _ hn hdn] at ho
      simp only [createW, Option.some.injEq] at ho
      subst ho
      exact Or.inl ⟨.trunc, rfl⟩
    | overwrite =>
      rw [openFile_create _ hn] at ho
      simp only [createW, Option.some.injEq] at ho
      subst ho
      exact Or.inl ⟨.trunc, rfl⟩
  · simp only [hdd, Option.isSome_some, if_true]
    cases m with
    | overwrite =>
      rw [openFile_create _ hn] at ho
      simp only [createW, Option.some.injEq] at ho
      subst ho
      exact Or.inl ⟨.trunc, rfl⟩
    | readOnly =>
      rw [openFile_existing .readOnly (by simp) hn hdd] at ho
      simp only [Option.some.injEq] at ho
      subst ho
      exact Or.inr ⟨.rdonly, rfl⟩
    | readWrite =>
      rw [openFile_existing .readWrite (by simp) hn hdd] at ho
      simp only [Option.some.injEq] at ho
      subst ho
      exact Or.inr ⟨.rdwr, rfl⟩

end Nix.Flush.Lemmas
