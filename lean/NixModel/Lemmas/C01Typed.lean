import NixModel.Lemmas.C01Gen
import NixModel.Lemmas.C01History
import NixModel.Lemmas.C01Region

/-! C01: the state-passing model with typed data (`Pure/NdStore.lean`) against the model of `Pure/NdArray.lean`:
index arguments without `Ellipsis` select what `select` selects; a step that raised nothing is the step of its
erasure (data converted to the array's element type); a step that raised leaves the array as it was (`append`
restores the extent); conversion is the identity on values of the target type and always yields one. -/
namespace Nix.Nd.Lemmas
open Nix Nix.Nd Nix.NdGen Nix.Gen.DataSet

/-! ### index arguments -/

theorem select_nil : ∀ sh : List Nat, select sh [] = .ok (sh.map fullSel)
  | [] => rfl
  | n :: ns => by simp [select, select_nil ns, fullSel]

theorem selectArgs_plain (rank : Nat) : ∀ (sh : List Nat) (items : List IxE) (ixs : List Ix) (seen : Bool)
    (nargs : Nat), plainItems items = some ixs → selectArgs rank sh items seen nargs = select sh ixs
  | sh, [], ixs, _, _, h => by
    simp only [plainItems, Option.some.injEq] at h
    subst h
    simp [selectArgs, select_nil]
  | _, .ellipsis :: _, _, _, _, h => by simp [plainItems] at h
  | [], .ix i :: rest, ixs, _, _, h => by
    simp only [plainItems, Option.map_eq_some_iff] at h
    obtain ⟨r, _, rfl⟩ := h
    simp [selectArgs, select]
  | n :: ns, .ix i :: rest, ixs, seen, nargs, h => by
    simp only [plainItems, Option.map_eq_some_iff] at h
    obtain ⟨r, hr, rfl⟩ := h
    simp only [selectArgs, select, selectArgs_plain rank ns rest r seen nargs hr]
    rfl

theorem selectIndex_plain (sh : List Nat) (ix : IndexArg) (ixs : List Ix) (h : plainItems ix.items = some ixs) :
    selectIndex sh ix = select sh ixs := selectArgs_plain _ sh _ ixs _ _ h

theorem plainItems_map : ∀ ixs : List Ix, plainItems (ixs.map .ix) = some ixs
  | [] => rfl
  | i :: is => by simp [plainItems, plainItems_map is]

/-- h5py `dataset[ix] = data` for an index without `Ellipsis`, spelled out over `select` -/
theorem h5SetItem_plain (A : DArr) (ix : IndexArg) (ixs : List Ix) (d : Arr)
    (h : plainItems ix.items = some ixs) :
    h5SetItem A ix d =
      (match select A.arr.shape ixs with
       | .error e => .error (.err e)
       | .ok sel =>
         if !bcastOk sel d.a.shape then .error (.err .typeError)
         else
           match (if selCount sel = 0 then none else convRefusal d.dt A.dtype) with
           | some e => .error e
           | none => .ok { A with arr := A.arr.setRegion sel (convArr A.dtype d.a) }) := by
  unfold h5SetItem
  rw [selectIndex_plain _ _ _ h]
  rfl

/-- a write that raised nothing is the assignment of the converted data -/
theorem h5SetItem_ok (A B : DArr) (ix : IndexArg) (ixs : List Ix) (d : Arr)
    (h : plainItems ix.items = some ixs) (hok : h5SetItem A ix d = .ok B) :
    assign A ixs (convArr A.dtype d.a) = .ok B := by
  rw [h5SetItem_plain A ix ixs d h] at hok
  unfold assign
  cases hs : select A.arr.shape ixs with
  | error e => simp [hs] at hok
  | ok sel =>
    simp only [hs] at hok ⊢
    by_cases hb : bcastOk sel d.a.shape = true
    · have hb' : bcastOk sel (convArr A.dtype d.a).shape = true := hb
      simp only [hb, Bool.not_true, Bool.false_eq_true, if_false] at hok
      rw [if_pos hb']
      split at hok
      · cases hok
      · rw [Except.ok.inj hok]
    · simp [hb] at hok

theorem fullSlice_plain : plainItems fullSlice.items = some [Ix.slice none none none] := rfl

/-- a write that raised nothing passed the empty-source guard and is h5py's `dataset[ix] = data` -/
theorem writeData_ok {A B : DArr} {d : Arr} {ix : IndexArg} (h : writeData A d ix = .ok B) :
    h5SetItem A ix.orFull d = .ok B := by
  unfold writeData at h
  split at h
  · cases h
  · cases ix <;> exact h

theorem writeData_of_h5 {A B : DArr} {d : Arr} {ix : IndexArg}
    (hg : (arrIsEmpty d && optTruthy (h5SelectedCount A ix)) = false)
    (h : h5SetItem A ix.orFull d = .ok B) : writeData A d ix = .ok B := by
  unfold writeData
  rw [hg]
  cases ix <;> exact h

/-! ### the empty-source guard never fires on the writes `create_data_array` and `append` issue -/

theorem npCountPlain_nil : ∀ sh : List Nat, npCountPlain sh [] = some (Nix.Nd.sizeOf sh)
  | [] => rfl
  | n :: ns => by simp [npCountPlain, npCountPlain_nil ns, Nix.Nd.sizeOf]

theorem rangeLen_unit (lo hi : Nat) (h : lo ≤ hi) : Nix.Py.rangeLen (lo : Int) (hi : Int) 1 = hi - lo := by
  unfold Nix.Py.rangeLen
  have h1 : (1 : Int) > 0 := by omega
  rw [if_pos h1]
  by_cases hlt : (lo : Int) < (hi : Int)
  · rw [if_pos hlt, Int.ediv_one]
    omega
  · rw [if_neg hlt]
    omega

theorem npAxisCount_full (n : Nat) : npAxisCount n (Ix.slice none none none) = some n := by
  have hidx : (Nix.Py.PySlice.mk none none none).indices n = .ok ((0 : Int), (n : Int), (1 : Int)) := by
    simp [Nix.Py.PySlice.indices]
  simp only [npAxisCount, hidx]
  have := rangeLen_unit 0 n (Nat.zero_le n)
  simp only [Int.natCast_zero, Nat.sub_zero] at this
  rw [this]

theorem npAxisCount_window (e o c : Nat) (h : o + c ≤ e) :
    npAxisCount e (Ix.slice (some (o : Int)) (some ((c : Int) + (o : Int))) none) = some c := by
  have hidx : (Nix.Py.PySlice.mk (some (o : Int)) (some ((c : Int) + (o : Int))) none).indices e
      = .ok ((o : Int), ((c + o : Nat) : Int), (1 : Int)) := by
    have h1 : ¬ ((o : Int) < 0) := by omega
    have h2 : ¬ ((o : Int) > (e : Int)) := by omega
    have h3 : ¬ ((c : Int) + (o : Int) < 0) := by omega
    have h4 : ¬ ((c : Int) + (o : Int) > (e : Int)) := by omega
    simp [Nix.Py.PySlice.indices, Nix.Py.clampBound, h1, h2, h3, h4]
  simp only [npAxisCount, hidx]
  rw [rangeLen_unit o (c + o) (by omega)]
  congr 1
  omega

theorem npCountPlain_window : ∀ (e o c : List Nat), Fits e o c →
    npCountPlain e (appendSlices o c) = some (Nix.Nd.sizeOf c)
  | [], [], [], _ => rfl
  | e :: es, o :: os, c :: cs, h => by
    simp only [Fits] at h
    simp [appendSlices, npCountPlain, npAxisCount_window e o c h.1, npCountPlain_window es os cs h.2,
      Nix.Nd.sizeOf]
  | [], [], _ :: _, h => by simp [Fits] at h
  | [], _ :: _, _, h => by simp [Fits] at h
  | _ :: _, [], _, h => by simp [Fits] at h
  | _ :: _, _ :: _, [], h => by simp [Fits] at h

theorem filterMap_plain : ∀ l : List Ix, (l.map IxE.ix).filterMap ixePlain? = l
  | [] => rfl
  | i :: is => by simp [ixePlain?, filterMap_plain is]

theorem npExpand_plain (rank : Nat) (l : List Ix) (h : l.length ≤ rank) : npExpand rank (l.map .ix) = some l := by
  unfold npExpand
  simp only [filterMap_plain, List.length_map, Nat.sub_self]
  have : ¬ (l.length > rank) := by omega
  simp [this]

theorem length_appendSlices : ∀ (o c : List Nat), o.length = c.length → (appendSlices o c).length = c.length
  | [], [], _ => rfl
  | [], _ :: _, h => by simp at h
  | _ :: _, [], h => by simp at h
  | o :: os, c :: cs, h => by
    simp only [List.length_cons, Nat.add_right_cancel_iff] at h
    simp [appendSlices, length_appendSlices os cs h]

theorem optTruthy_size (n : Nat) : ((n == 0) && optTruthy (some n)) = false := by
  cases n <;> simp [optTruthy]

theorem guard_window (A : DArr) (d : Arr) (o : List Nat) (h : Fits A.arr.shape o d.a.shape)
    (hl : o.length = d.a.shape.length) (hr : d.a.shape.length = A.arr.shape.length) :
    (arrIsEmpty d && optTruthy (h5SelectedCount A (.tuple ((appendSlices o d.a.shape).map .ix)))) = false := by
  unfold h5SelectedCount arrIsEmpty
  simp only [IndexArg.items]
  rw [npExpand_plain _ _ (by rw [length_appendSlices o _ hl, hr]; exact Nat.le_refl _)]
  simp only [Option.bind, npCountPlain_window _ _ _ h]
  exact optTruthy_size _

theorem guard_full (A : DArr) (d : Arr) (hs : d.a.shape = A.arr.shape) (hr : A.arr.shape ≠ []) :
    (arrIsEmpty d && optTruthy (h5SelectedCount A .none)) = false := by
  unfold h5SelectedCount arrIsEmpty
  cases hA : A.arr.shape with
  | nil => exact absurd hA hr
  | cons n ns =>
    simp only [npCountPlain, npAxisCount_full, npCountPlain_nil, hs, hA, Nix.Nd.sizeOf]
    exact optTruthy_size _

/-! ### conversion -/

theorem contiguous_convArr (t : DType) (D : NdArray Elem) :
    contiguous (convArr t D) = convArr t (contiguous D) := by
  unfold contiguous convArr
  by_cases h : D.shape = []
  · simp [h]
  · simp [h]

theorem clampInt_range (lo hi v : Int) (h : lo ≤ hi) : lo ≤ clampInt lo hi v ∧ clampInt lo hi v ≤ hi := by
  unfold clampInt
  split
  · omega
  · split <;> omega

theorem clampInt_id (lo hi v : Int) (h1 : lo ≤ v) (h2 : v ≤ hi) : clampInt lo hi v = v := by
  unfold clampInt
  rw [if_neg (by omega), if_neg (by omega)]

theorem intRange_le (t : DType) (lo hi : Int) (h : t.intRange = some (lo, hi)) : lo ≤ hi := by
  cases t <;> simp [DType.intRange] at h <;> omega

/-- data that already is of the array's element type is stored as it is -/
theorem convElem_exact (t : DType) (x : Elem) (h : x.hasType t = true) : convElem t x = x := by
  cases x with
  | int v =>
    cases hr : t.intRange with
    | none => simp [Elem.hasType, hr] at h
    | some r =>
      obtain ⟨lo, hi⟩ := r
      simp only [Elem.hasType, hr, Bool.and_eq_true, decide_eq_true_eq] at h
      cases t <;> simp [DType.intRange] at hr <;>
        (obtain ⟨rfl, rfl⟩ := hr; simp [convElem, DType.intRange, clampInt_id _ _ _ h.1 h.2])
  | f32 b =>
    simp only [Elem.hasType, Bool.and_eq_true, beq_iff_eq, decide_eq_true_eq] at h
    obtain ⟨rfl, hb⟩ := h
    simp [convElem, hb]
  | f64 b =>
    simp only [Elem.hasType, Bool.and_eq_true, beq_iff_eq, decide_eq_true_eq] at h
    obtain ⟨rfl, hb⟩ := h
    simp [convElem, hb]
  | bool b =>
    simp only [Elem.hasType, beq_iff_eq] at h
    subst h
    rfl
  | text s =>
    simp only [Elem.hasType, beq_iff_eq] at h
    subst h
    rfl

theorem signBit32 (neg : Bool) : signBit 24 8 neg ≤ 2147483648 := by
  unfold signBit; split <;> decide

theorem signBit64 (neg : Bool) : signBit 53 11 neg ≤ 9223372036854775808 := by
  unfold signBit; split <;> decide

theorem infBits32 : infBits 24 8 = 2139095040 := by decide
theorem infBits64 : infBits 53 11 = 9218868437227405312 := by decide

theorem capped32 (b : Nat) : (if b ≥ infBits 24 8 then infBits 24 8 else b) ≤ 2139095040 := by
  rw [infBits32]; split <;> omega

theorem capped64 (b : Nat) : (if b ≥ infBits 53 11 then infBits 53 11 else b) ≤ 9218868437227405312 := by
  rw [infBits64]; split <;> omega

theorem convFloat_f32 (p eb bits : Nat) : convFloat p eb 24 8 bits < 4294967296 := by
  unfold convFloat
  split
  · rename_i neg _
    have := signBit32 neg
    rw [infBits32]; omega
  · rename_i neg frac _
    have := signBit32 neg
    have hq : (if 24 ≤ p then frac >>> (p - 24) else frac <<< (24 - p)) % 2 ^ (24 - 1) ||| 2 ^ (24 - 2)
        < 2 ^ 23 := Nat.or_lt_two_pow (Nat.mod_lt _ (by decide)) (by decide)
    have h23 : (2 : Nat) ^ 23 = 8388608 := by decide
    rw [infBits32]
    simp only at hq ⊢
    omega
  · rename_i neg m e _
    have := signBit32 neg
    split
    · rw [infBits32]; omega
    · have := capped32 (encodeMag 24 8 m e)
      dsimp only
      omega

theorem convFloat_f64 (p eb bits : Nat) : convFloat p eb 53 11 bits < 18446744073709551616 := by
  unfold convFloat
  split
  · rename_i neg _
    have := signBit64 neg
    rw [infBits64]; omega
  · rename_i neg frac _
    have := signBit64 neg
    have hq : (if 53 ≤ p then frac >>> (p - 53) else frac <<< (53 - p)) % 2 ^ (53 - 1) ||| 2 ^ (53 - 2)
        < 2 ^ 52 := Nat.or_lt_two_pow (Nat.mod_lt _ (by decide)) (by decide)
    have h52 : (2 : Nat) ^ 52 = 4503599627370496 := by decide
    rw [infBits64]
    simp only at hq ⊢
    omega
  · rename_i neg m e _
    have := signBit64 neg
    split
    · rw [infBits64]; omega
    · have := capped64 (encodeMag 53 11 m e)
      dsimp only
      omega

theorem intToFloat_f32 (v : Int) : intToFloat 24 8 v < 4294967296 := by
  unfold intToFloat
  have := signBit32 (decide (v < 0))
  have := capped32 (encodeMag 24 8 v.natAbs 0)
  dsimp only
  omega

theorem intToFloat_f64 (v : Int) : intToFloat 53 11 v < 18446744073709551616 := by
  unfold intToFloat
  have := signBit64 (decide (v < 0))
  have := capped64 (encodeMag 53 11 v.natAbs 0)
  dsimp only
  omega

theorem floatToInt_range (p eb : Nat) (lo hi : Int) (bits : Nat) (h : lo ≤ hi) :
    lo ≤ floatToInt p eb lo hi bits ∧ floatToInt p eb lo hi bits ≤ hi := by
  unfold floatToInt
  split
  · exact clampInt_range _ _ _ h
  · split <;> omega
  · exact clampInt_range _ _ _ h

/-- whatever is converted to the element type `t` is a value of `t` -/
theorem convElem_typed (t : DType) (x : Elem) : (convElem t x).hasType t = true := by
  cases t <;> cases x <;>
    simp only [convElem, DType.intRange, Elem.hasType, Bool.and_eq_true, decide_eq_true_eq, beq_self_eq_true,
      true_and] <;>
    first
      | exact clampInt_range _ _ _ (by decide)
      | exact floatToInt_range _ _ _ _ _ (by decide)
      | exact convFloat_f32 _ _ _
      | exact convFloat_f64 _ _ _
      | exact intToFloat_f32 _
      | exact intToFloat_f64 _
      | (split <;> decide)
      | (split <;> omega)
      | decide
      | trivial

/-! ### typed steps -/

theorem length_appendEnlarge : ∀ (rel : Int) (s d : List Nat), s.length = d.length →
    (appendEnlarge rel s d).length = s.length
  | _, [], _, _ => by simp [appendEnlarge]
  | _, _ :: _, [], h => by simp at h
  | rel, x :: xs, y :: ys, h => by
    simp only [List.length_cons, Nat.add_right_cancel_iff] at h
    simp [appendEnlarge, length_appendEnlarge (rel - 1) xs ys h]

theorem inBounds_enlarge : ∀ (rel : Int) (s d idx : List Nat), s.length = d.length →
    inBounds idx s = true → inBounds idx (appendEnlarge rel s d) = true
  | _, [], [], [], _, _ => by simp [appendEnlarge, inBounds]
  | _, [], [], _ :: _, _, h => by simp [inBounds] at h
  | _, [], _ :: _, _, h, _ => by simp at h
  | _, _ :: _, [], _, h, _ => by simp at h
  | _, _ :: _, _ :: _, [], _, h => by simp [inBounds] at h
  | rel, x :: xs, y :: ys, i :: is, hl, h => by
    simp only [List.length_cons, Nat.add_right_cancel_iff] at hl
    simp only [inBounds, Bool.and_eq_true, decide_eq_true_eq] at h
    simp only [appendEnlarge, inBounds, Bool.and_eq_true, decide_eq_true_eq]
    exact ⟨by omega, inBounds_enlarge (rel - 1) xs ys is hl h.2⟩

theorem setExtent_ok_eq {A B : DArr} {e : List Int} (h : setExtent A e = .ok B) :
    B = { A with arr := A.arr.resize A.dtype.fill (e.map Int.toNat) } := by
  unfold setExtent at h
  split at h
  · cases h
  · split at h
    · cases h
    · cases h; rfl

theorem runOf_exc {A : DArr} {x : Except IoErr DArr} {e : IoErr} (h : (runOf A x).2 = some e) :
    (runOf A x).1 = A := by
  cases x with
  | ok B => simp [runOf] at h
  | error e' => rfl

theorem runOf_none {A : DArr} {x : Except IoErr DArr} (h : (runOf A x).2 = none) :
    x = .ok (runOf A x).1 := by
  cases x with
  | ok B => rfl
  | error e' => simp [runOf] at h

/-- the outcomes of `appendS` once the three checks have passed -/
theorem appendS_pass (A : DArr) (d : Arr) (axis : Int)
    (hl : A.arr.shape.length = (contiguous d.a).shape.length)
    (hax : 0 ≤ axis ∧ axis < (A.arr.shape.length : Int))
    (hm : shapeMismatch axis A.arr.shape (contiguous d.a).shape = false) :
    ∃ A1, setExtent A ((appendEnlarge axis A.arr.shape (contiguous d.a).shape).map Int.ofNat) = .ok A1 ∧
      ((∃ B, writeData A1 ⟨d.dt, contiguous d.a⟩ (.tuple ((appendSlices (appendOffset axis A.arr.shape)
            (contiguous d.a).shape).map .ix)) = .ok B ∧ appendS A d axis = (B, none)) ∨
       (∃ e A2, setExtent A1 (A.arr.shape.map Int.ofNat) = .ok A2 ∧ appendS A d axis = (A2, some e))) := by
  have hlenE := length_appendEnlarge axis A.arr.shape (contiguous d.a).shape hl
  have hse : ∃ A1, setExtent A ((appendEnlarge axis A.arr.shape (contiguous d.a).shape).map Int.ofNat) = .ok A1 := by
    unfold setExtent
    rw [if_neg (by simp [hlenE]), if_neg (by simp [allNonneg_ofNat])]
    exact ⟨_, rfl⟩
  obtain ⟨A1, hA1⟩ := hse
  refine ⟨A1, hA1, ?_⟩
  have hA1eq := setExtent_ok_eq hA1
  have hback : ∃ A2, setExtent A1 (A.arr.shape.map Int.ofNat) = .ok A2 := by
    unfold setExtent
    have : A1.arr.shape.length = A.arr.shape.length := by
      rw [hA1eq]; simp [NdArray.resize, hlenE]
    rw [if_neg (by simp [this]), if_neg (by simp [allNonneg_ofNat])]
    exact ⟨_, rfl⟩
  obtain ⟨A2, hA2⟩ := hback
  unfold appendS
  dsimp only
  rw [if_neg (fun hne => hne hl), if_neg (fun hn => hn hax), if_neg (by simp [hm])]
  simp only [hA1]
  cases hw : writeData A1 ⟨d.dt, contiguous d.a⟩ (.tuple ((appendSlices (appendOffset axis A.arr.shape)
      (contiguous d.a).shape).map .ix)) with
  | ok B => exact Or.inl ⟨B, rfl, rfl⟩
  | error e => exact Or.inr ⟨e, A2, hA2, by simp only [hA2]⟩

/-- when a check fails `appendS` raises ValueError and returns the array itself -/
theorem appendS_fail (A : DArr) (d : Arr) (axis : Int)
    (h : ¬ (A.arr.shape.length = (contiguous d.a).shape.length ∧ (0 ≤ axis ∧ axis < (A.arr.shape.length : Int)) ∧
      shapeMismatch axis A.arr.shape (contiguous d.a).shape = false)) :
    appendS A d axis = (A, some (.err .valueError)) := by
  unfold appendS
  dsimp only
  by_cases hl : A.arr.shape.length = (contiguous d.a).shape.length
  · rw [if_neg (fun hne => hne hl)]
    by_cases hax : 0 ≤ axis ∧ axis < (A.arr.shape.length : Int)
    · rw [if_neg (fun hn => hn hax)]
      have hm : shapeMismatch axis A.arr.shape (contiguous d.a).shape = true := by
        cases hmm : shapeMismatch axis A.arr.shape (contiguous d.a).shape with
        | true => rfl
        | false => exact absurd ⟨hl, hax, hmm⟩ h
      rw [if_pos hm]
    · rw [if_pos hax]
  · rw [if_pos hl]

/-- a typed step that raised nothing is the accepted step of its erasure -/
theorem stepS_ok (A : DArr) (s : TStep) (s' : Step) (he : s.erase A.dtype = some s')
    (hn : (stepS A s).2 = none) : step A s' = .ok (stepS A s).1 := by
  cases s with
  | write d =>
    simp only [TStep.erase, Option.some.injEq] at he
    subst he
    have hw := runOf_none hn
    exact h5SetItem_ok A _ fullSlice _ d fullSlice_plain (writeData_ok hw)
  | assign ix d =>
    cases ix with
    | none =>
      simp only [TStep.erase, Option.some.injEq] at he
      subst he
      have hw := runOf_none hn
      exact h5SetItem_ok A _ fullSlice _ d fullSlice_plain (writeData_ok hw)
    | one i =>
      simp only [TStep.erase, Option.map_eq_some_iff] at he
      obtain ⟨ixs, hp, rfl⟩ := he
      have hw := runOf_none hn
      exact h5SetItem_ok A _ (.one i) ixs d hp (writeData_ok hw)
    | tuple l =>
      simp only [TStep.erase, Option.map_eq_some_iff] at he
      obtain ⟨ixs, hp, rfl⟩ := he
      have hw := runOf_none hn
      exact h5SetItem_ok A _ (.tuple l) ixs d hp (writeData_ok hw)
  | append d axis =>
    simp only [TStep.erase, Option.some.injEq] at he
    subst he
    simp only [stepS] at hn ⊢
    by_cases hc : A.arr.shape.length = (contiguous d.a).shape.length ∧
        (0 ≤ axis ∧ axis < (A.arr.shape.length : Int)) ∧
        shapeMismatch axis A.arr.shape (contiguous d.a).shape = false
    · obtain ⟨hl, hax, hm⟩ := hc
      obtain ⟨A1, hA1, hcase⟩ := appendS_pass A d axis hl hax hm
      rcases hcase with ⟨B, hw, hB⟩ | ⟨e, A2, _, hB⟩
      · rw [hB]
        have hdt : A1.dtype = A.dtype := (setExtent_meta hA1).1
        have hass := h5SetItem_ok A1 B (.tuple ((appendSlices (appendOffset axis A.arr.shape)
          (contiguous d.a).shape).map .ix)) _ ⟨d.dt, contiguous d.a⟩ (plainItems_map _) (writeData_ok hw)
        rw [hdt] at hass
        simp only [step]
        unfold append
        dsimp only
        rw [contiguous_convArr]
        have hsh : (convArr A.dtype (contiguous d.a)).shape = (contiguous d.a).shape := rfl
        rw [hsh, if_neg (fun hne => hne hl), if_neg (fun hn => hn hax), if_neg (by simp [hm])]
        simp only [hA1]
        exact hass
      · rw [hB] at hn; simp at hn
    · rw [appendS_fail A d axis hc] at hn; simp at hn
  | resize e =>
    simp only [TStep.erase, Option.some.injEq] at he
    subst he
    simp only [stepS, step] at hn ⊢
    unfold h5Resize at hn ⊢
    cases hs : setExtent A e with
    | ok B => rfl
    | error e' => simp [hs, runOf] at hn
  | reopen =>
    simp only [TStep.erase, Option.some.injEq] at he
    subst he
    rfl

/-- a typed step that raised leaves the array as it was: same shape, same element on every multi-index, same
element type and filter flag (for `append`: the extent is restored) -/
theorem stepS_exc (A : DArr) (s : TStep) (e : IoErr) (h : (stepS A s).2 = some e) :
    EqArr (stepS A s).1.arr A.arr ∧ (stepS A s).1.dtype = A.dtype ∧
      (stepS A s).1.compressed = A.compressed := by
  cases s with
  | write d => simp only [stepS] at h ⊢; rw [runOf_exc h]; exact ⟨EqArr.refl _, rfl, rfl⟩
  | assign ix d => simp only [stepS] at h ⊢; rw [runOf_exc h]; exact ⟨EqArr.refl _, rfl, rfl⟩
  | resize ex => simp only [stepS] at h ⊢; rw [runOf_exc h]; exact ⟨EqArr.refl _, rfl, rfl⟩
  | reopen => simp [stepS] at h
  | append d axis =>
    simp only [stepS] at h ⊢
    by_cases hc : A.arr.shape.length = (contiguous d.a).shape.length ∧
        (0 ≤ axis ∧ axis < (A.arr.shape.length : Int)) ∧
        shapeMismatch axis A.arr.shape (contiguous d.a).shape = false
    · obtain ⟨hl, hax, hm⟩ := hc
      obtain ⟨A1, hA1, hcase⟩ := appendS_pass A d axis hl hax hm
      rcases hcase with ⟨B, _, hB⟩ | ⟨e', A2, hA2, hB⟩
      · rw [hB] at h; simp at h
      · rw [hB]
        have h1 := setExtent_ok_eq hA1
        have h2 := setExtent_ok_eq hA2
        subst h1
        subst h2
        refine ⟨⟨map_toNat_ofNat _, fun idx hb => ?_⟩, rfl, rfl⟩
        simp only [NdArray.resize, map_toNat_ofNat] at hb ⊢
        have hb2 := inBounds_enlarge axis _ _ idx hl hb
        simp [hb, hb2]
    · rw [appendS_fail A d axis hc]; exact ⟨EqArr.refl _, rfl, rfl⟩

/-! ### typed histories -/

theorem erase_of_plain (t : DType) (s : TStep) (h : s.plain = true) : ∃ s', s.erase t = some s' := by
  cases s with
  | write d => exact ⟨_, rfl⟩
  | assign ix d =>
    cases ix with
    | none => exact ⟨_, rfl⟩
    | one i =>
      simp only [TStep.plain, Option.isSome_iff_exists] at h
      obtain ⟨ixs, hp⟩ := h
      exact ⟨.assign ixs (convArr t d.a), by simp [TStep.erase, hp]⟩
    | tuple l =>
      simp only [TStep.plain, Option.isSome_iff_exists] at h
      obtain ⟨ixs, hp⟩ := h
      exact ⟨.assign ixs (convArr t d.a), by simp [TStep.erase, hp]⟩
  | append d axis => exact ⟨_, rfl⟩
  | resize e => exact ⟨_, rfl⟩
  | reopen => exact ⟨_, rfl⟩

theorem stepS_meta (A : DArr) (s : TStep) :
    (stepS A s).1.dtype = A.dtype ∧ (stepS A s).1.compressed = A.compressed := by
  cases hx : (stepS A s).2 with
  | some e => exact (stepS_exc A s e hx).2
  | none =>
    cases s with
    | write d =>
      have hw := runOf_none hx
      exact assign_meta (h5SetItem_ok A _ fullSlice _ d fullSlice_plain (writeData_ok hw))
    | assign ix d =>
      have hw := runOf_none hx
      have key : ∀ ix' B, h5SetItem A ix' d = .ok B → B.dtype = A.dtype ∧ B.compressed = A.compressed := by
        intro ix' B hh
        unfold h5SetItem at hh
        split at hh
        · cases hh
        · split at hh
          · cases hh
          · split at hh
            · cases hh
            · cases hh; exact ⟨rfl, rfl⟩
      cases ix with
      | none => exact key _ _ (writeData_ok hw)
      | one i => exact key _ _ (writeData_ok hw)
      | tuple l => exact key _ _ (writeData_ok hw)
    | append d axis =>
      simp only [stepS] at hx ⊢
      by_cases hc : A.arr.shape.length = (contiguous d.a).shape.length ∧
          (0 ≤ axis ∧ axis < (A.arr.shape.length : Int)) ∧
          shapeMismatch axis A.arr.shape (contiguous d.a).shape = false
      · obtain ⟨hl, hax, hm⟩ := hc
        obtain ⟨A1, hA1, hcase⟩ := appendS_pass A d axis hl hax hm
        rcases hcase with ⟨B, hw, hB⟩ | ⟨e', A2, hA2, hB⟩
        · rw [hB]
          have m1 := setExtent_meta hA1
          have hass := h5SetItem_ok A1 B (.tuple ((appendSlices (appendOffset axis A.arr.shape)
            (contiguous d.a).shape).map .ix)) _ ⟨d.dt, contiguous d.a⟩ (plainItems_map _) (writeData_ok hw)
          have m2 := assign_meta hass
          exact ⟨m2.1.trans m1.1, m2.2.trans m1.2⟩
        · rw [hB] at hx; simp at hx
      · rw [appendS_fail A d axis hc] at hx; simp at hx
    | resize e =>
      simp only [stepS] at hx ⊢
      unfold h5Resize at hx ⊢
      cases hs : setExtent A e with
      | ok B => exact setExtent_meta hs
      | error e' => simp [hs, runOf] at hx
    | reopen => exact ⟨rfl, rfl⟩

/-- every typed history (index arguments without `Ellipsis`) reads back as the fold of the reference semantics
over exactly the steps that raised nothing, with their data converted to the array's element type; the steps
that raised contribute nothing -/
theorem runS_refines : ∀ (steps : List TStep) (A : DArr), (∀ s ∈ steps, s.plain = true) →
    EqArr (runS A steps).arr (refRun A.dtype.fill A.arr (performed A steps)) ∧
      (runS A steps).dtype = A.dtype ∧ (runS A steps).compressed = A.compressed
  | [], A, _ => ⟨EqArr.refl _, rfl, rfl⟩
  | s :: rest, A, hp => by
    have ih := runS_refines rest (stepS A s).1 (fun t ht => hp t (by simp [ht]))
    have hm := stepS_meta A s
    rw [hm.1] at ih
    refine ⟨?_, ih.2.1, ih.2.2.trans hm.2⟩
    simp only [runS, performed]
    cases hx : (stepS A s).2 with
    | none =>
      obtain ⟨s', hs'⟩ := erase_of_plain A.dtype s (hp s (by simp))
      have hok := stepS_ok A s s' hs' hx
      have hst : stepState A s' = (stepS A s).1 := by unfold stepState; rw [hok]
      have href := stepState_refines A s'
      rw [hst] at href
      simp only [hs', performedHead, List.singleton_append, refRun]
      exact ih.1.trans (refRun_congr _ _ href)
    | some e =>
      have hu := (stepS_exc A s e hx).1
      simp only [performedHead, List.nil_append]
      exact ih.1.trans (refRun_congr _ _ hu)

/-! ### stored elements are values of the element type after any typed history -/

theorem h5SetItem_typed {A B : DArr} {ix : IndexArg} {d : Arr} (hA : Typed A) (h : h5SetItem A ix d = .ok B) :
    Typed B := by
  unfold h5SetItem at h
  split at h
  · cases h
  · split at h
    · cases h
    · split at h
      · cases h
      · cases h
        intro idx hb
        simp only [NdArray.setRegion] at hb ⊢
        split
        · exact convElem_typed _ _
        · exact hA idx hb

theorem writeData_typed {A B : DArr} {ix : IndexArg} {d : Arr} (hA : Typed A) (h : writeData A d ix = .ok B) :
    Typed B := h5SetItem_typed hA (writeData_ok h)

theorem runOf_typed {A : DArr} {x : Except IoErr DArr} (hA : Typed A) (hx : ∀ B, x = .ok B → Typed B) :
    Typed (runOf A x).1 := by
  cases x with
  | ok B => exact hx B rfl
  | error e => exact hA

theorem stepS_typed {A : DArr} (s : TStep) (hA : Typed A) : Typed (stepS A s).1 := by
  cases s with
  | write d => exact runOf_typed hA fun B hB => writeData_typed hA hB
  | assign ix d => exact runOf_typed hA fun B hB => writeData_typed hA hB
  | resize e =>
    refine runOf_typed hA fun B hB => ?_
    unfold h5Resize at hB
    cases hs : setExtent A e with
    | ok B' =>
      rw [hs] at hB
      cases hB
      exact setExtent_typed hA hs
    | error e' => rw [hs] at hB; cases hB
  | reopen => exact hA
  | append d axis =>
    simp only [stepS]
    by_cases hc : A.arr.shape.length = (contiguous d.a).shape.length ∧
        (0 ≤ axis ∧ axis < (A.arr.shape.length : Int)) ∧
        shapeMismatch axis A.arr.shape (contiguous d.a).shape = false
    · obtain ⟨hl, hax, hm⟩ := hc
      obtain ⟨A1, hA1, hcase⟩ := appendS_pass A d axis hl hax hm
      have t1 := setExtent_typed hA hA1
      rcases hcase with ⟨B, hw, hB⟩ | ⟨e', A2, hA2, hB⟩
      · rw [hB]; exact writeData_typed t1 hw
      · rw [hB]; exact setExtent_typed t1 hA2
    · rw [appendS_fail A d axis hc]; exact hA

theorem runS_typed : ∀ (steps : List TStep) (A : DArr), Typed A → Typed (runS A steps)
  | [], _, hA => hA
  | s :: rest, A, hA => runS_typed rest (stepS A s).1 (stepS_typed s hA)

/-! ### `Block.create_data_array`: the compiled argument rules + creation sequence are `createS` -/

theorem map_ofNat_inj : ∀ (a b : List Nat), a.map Int.ofNat = b.map Int.ofNat → a = b
  | [], [], _ => rfl
  | [], _ :: _, h => by simp at h
  | _ :: _, [], h => by simp at h
  | x :: xs, y :: ys, h => by
    simp only [List.map_cons, List.cons.injEq] at h
    rw [Int.ofNat_inj.mp h.1, map_ofNat_inj xs ys h.2]

theorem map_toNat_comp (l : List Nat) : List.map (Int.toNat ∘ Int.ofNat) l = l := by
  induction l with
  | nil => rfl
  | cons x xs ih => simp [ih]

theorem createRules_eq (dtype : Option DType) (shape : Option (List Nat)) (data : Option Arr) (compr : Bool) :
    (createRules (dtype.map .nix) (shape.map (·.map Int.ofNat)) data).bind (createFrom compr)
      = createS dtype shape data compr := by
  unfold createRules createS
  cases data with
  | none =>
    cases shape with
    | none => rfl
    | some sh =>
      cases dtype with
      | none =>
        simp [npDtypeOfStr, Except.bind, createFrom, allNonneg_ofNat, map_toNat_comp, chooseDType]
      | some t =>
        simp [Except.bind, createFrom, allNonneg_ofNat, map_toNat_comp, chooseDType]
  | some d0 =>
    simp only [Option.isNone_some, Bool.false_eq_true, if_false, Option.map_some]
    cases shape with
    | none =>
      simp only [Option.map_none, Option.isNone_none, Bool.not_true, Bool.false_eq_true, if_false, shapeAgrees]
      cases dtype with
      | none =>
        by_cases ht : (npAscontiguousarray d0).dt = .string
        · simp [Except.bind, createFrom, npDtype, ht]
        · simp [Except.bind, createFrom, npDtype, ht, arrShape, allNonneg_ofNat, map_toNat_comp, chooseDType]
      | some t =>
        simp [Except.bind, createFrom, arrShape, allNonneg_ofNat, map_toNat_comp, chooseDType]
    | some sh =>
      simp only [Option.map_some, Option.isNone_some, Bool.not_false, if_true, shapeAgrees]
      by_cases hs : sh = (npAscontiguousarray d0).a.shape
      · subst hs
        cases dtype with
        | none =>
          by_cases ht : (npAscontiguousarray d0).dt = .string
          · simp [Except.bind, createFrom, npDtype, ht, arrShape]
          · simp [Except.bind, createFrom, npDtype, ht, arrShape, allNonneg_ofNat, map_toNat_comp, chooseDType]
        | some t =>
          simp [Except.bind, createFrom, arrShape, allNonneg_ofNat, map_toNat_comp, chooseDType]
      · have hne : ¬ (some (sh.map Int.ofNat) = some (arrShape (npAscontiguousarray d0))) := by
          intro h
          exact hs (map_ofNat_inj _ _ (Option.some.inj h))
        simp [hne, hs, Except.bind]

/-! ### `Ellipsis` -/

theorem selectArgs_full (rank : Nat) : ∀ (k : Nat) (sh : List Nat) (rest : List IxE) (seen : Bool) (nargs : Nat),
    k ≤ sh.length →
    selectArgs rank sh ((List.replicate k (IxE.ix (Ix.slice none none none))) ++ rest) seen nargs =
      (match selectArgs rank (sh.drop k) rest seen nargs with
       | .ok r => .ok ((sh.take k).map fullSel ++ r)
       | .error e => .error e)
  | 0, sh, rest, seen, nargs, _ => by
    simp only [List.replicate_zero, List.nil_append, List.drop_zero, List.take_zero, List.map_nil]
    cases selectArgs rank sh rest seen nargs <;> rfl
  | k + 1, [], _, _, _, h => by simp at h
  | k + 1, n :: ns, rest, seen, nargs, h => by
    simp only [List.length_cons, Nat.add_le_add_iff_right] at h
    have ih := selectArgs_full rank k ns rest seen nargs h
    have hfull : selectAxis n (Ix.slice none none none) = .ok (fullSel n) := by
      simp only [selectAxis, sliceStep, adjustBound, fullSel]
      by_cases hn : n = 0
      · subst hn; simp
      · have : ¬ (n < 0) := by omega
        simp [this, hn]
        omega
    simp only [List.replicate_succ, List.cons_append, selectArgs, hfull, ih, List.drop_succ_cons,
      List.take_succ_cons, List.map_cons]
    cases selectArgs rank (ns.drop k) rest seen nargs <;> rfl

theorem plainItems_append_map (a b : List Ix) :
    plainItems (a.map IxE.ix ++ b.map IxE.ix) = some (a ++ b) := by
  rw [← List.map_append]; exact plainItems_map _

theorem selectArgs_ellipsis (R N : Nat) (post : List Ix) (hN : ¬ (N - 1 > R)) :
    ∀ (pre : List Ix) (cur : List Nat), pre.length + (R - (N - 1)) ≤ cur.length →
    selectArgs R cur (pre.map .ix ++ .ellipsis :: post.map .ix) false N =
      select cur (pre ++ List.replicate (R - (N - 1)) (Ix.slice none none none) ++ post)
  | [], cur, h => by
    simp only [List.length_nil, Nat.zero_add] at h
    simp only [List.map_nil, List.nil_append, selectArgs, Bool.false_eq_true, if_false, hN]
    rw [selectArgs_plain R _ (post.map .ix) post true (N - 1) (plainItems_map post)]
    have hp : plainItems (List.replicate (R - (N - 1)) (IxE.ix (Ix.slice none none none)) ++ post.map .ix)
        = some (List.replicate (R - (N - 1)) (Ix.slice none none none) ++ post) := by
      have := plainItems_append_map (List.replicate (R - (N - 1)) (Ix.slice none none none)) post
      rwa [List.map_replicate] at this
    rw [← selectArgs_plain R cur _ _ true (N - 1) hp, selectArgs_full R _ cur _ true (N - 1) h,
      selectArgs_plain R _ (post.map .ix) post true (N - 1) (plainItems_map post)]
    rfl
  | p :: ps, [], h => by simp at h
  | p :: ps, n :: ns, h => by
    simp only [List.length_cons] at h
    have ih := selectArgs_ellipsis R N post hN ps ns (by omega)
    simp only [List.map_cons, List.cons_append, selectArgs, select, ih]
    rfl

/-- one `Ellipsis` stands for as many full slices as the index is short of the rank: for an index
`pre + (Ellipsis,) + post` without further `Ellipsis` and with at most `rank` other items, the selection is that
of `pre + (slice(None),) * (rank - len(pre) - len(post)) + post` -/
theorem selectIndex_ellipsis (sh : List Nat) (pre post : List Ix) (h : pre.length + post.length ≤ sh.length) :
    selectIndex sh (.tuple (pre.map .ix ++ .ellipsis :: post.map .ix)) =
      select sh (pre ++ List.replicate (sh.length - pre.length - post.length) (Ix.slice none none none) ++ post) := by
  unfold selectIndex
  simp only [IndexArg.items, List.length_append, List.length_map, List.length_cons]
  have hk : sh.length - (pre.length + (post.length + 1) - 1) = sh.length - pre.length - post.length := by omega
  rw [← hk]
  exact selectArgs_ellipsis sh.length _ post (by omega) pre sh (by omega)

/-- index items that lead to an error whatever the remaining axes are, still do after a prefix of plain items -/
theorem selectArgs_error_prefix (R : Nat) (rest : List IxE) (seen : Bool) (n : Nat)
    (hrest : ∀ cur, ∃ e, selectArgs R cur rest seen n = .error e) :
    ∀ (pre : List IxE) (cur : List Nat), (∃ p, plainItems pre = some p) →
      ∃ e, selectArgs R cur (pre ++ rest) seen n = .error e
  | [], cur, _ => hrest cur
  | .ellipsis :: _, _, ⟨p, hp⟩ => by simp [plainItems] at hp
  | .ix i :: ps, [], _ => ⟨.valueError, by simp [selectArgs]⟩
  | .ix i :: ps, m :: ms, ⟨p, hp⟩ => by
    simp only [plainItems, Option.map_eq_some_iff] at hp
    obtain ⟨q, hq, _⟩ := hp
    obtain ⟨e, he⟩ := selectArgs_error_prefix R rest seen n hrest ps ms ⟨q, hq⟩
    simp only [List.cons_append, selectArgs, he]
    cases selectAxis m i with
    | error e' => exact ⟨e', rfl⟩
    | ok s => exact ⟨e, rfl⟩

/-- … and a second `Ellipsis` is an error (ValueError "Only one ellipsis may be used", unless another error is
reached first) -/
theorem selectIndex_two_ellipses (sh : List Nat) (pre mid post : List IxE) (hpre : ∃ p, plainItems pre = some p)
    (hmid : ∃ m, plainItems mid = some m) :
    ∃ e, selectIndex sh (.tuple (pre ++ .ellipsis :: (mid ++ .ellipsis :: post))) = .error e := by
  unfold selectIndex
  apply selectArgs_error_prefix _ _ _ _ _ pre sh hpre
  intro cur
  simp only [selectArgs, Bool.false_eq_true, if_false]
  split
  · exact ⟨_, rfl⟩
  · rename_i hle
    have h2 : ∀ cur', ∃ e, selectArgs sh.length cur' (.ellipsis :: post) true
        ((IndexArg.tuple (pre ++ .ellipsis :: (mid ++ .ellipsis :: post))).items.length - 1) = .error e :=
      fun cur' => ⟨.valueError, by simp [selectArgs]⟩
    obtain ⟨e, he⟩ := selectArgs_error_prefix sh.length _ true _ h2 mid
      (cur.drop (sh.length - ((IndexArg.tuple (pre ++ .ellipsis :: (mid ++ .ellipsis :: post))).items.length - 1)))
      hmid
    exact ⟨e, by rw [he]⟩

/-! ### the NumPy probe of `_selected_count` counts what h5py selects -/

theorem adjustBound_clamp (len : Nat) (v : Int) (dflt : Nat) :
    ((adjustBound len dflt (some v) : Nat) : Int) = Nix.Py.clampBound v len 0 len := by
  unfold adjustBound Nix.Py.clampBound
  by_cases h1 : v < 0
  · simp only [h1, if_true]
    by_cases h2 : v + (len : Int) < 0
    · simp [h2]
    · simp only [h2, if_false]; omega
  · simp only [h1, if_false]
    by_cases h2 : v ≥ (len : Int)
    · have : v > (len : Int) ∨ v = len := by omega
      rcases this with h | h
      · simp [h2, h]
      · subst h; simp
    · have : ¬ v > (len : Int) := by omega
      simp only [h2, this, if_false]; omega

theorem indices_pos (n : Nat) (a b c : Option Int) (hk : sliceStep c ≥ 1) :
    (Nix.Py.PySlice.mk a b c).indices n =
      .ok (((adjustBound n 0 a : Nat) : Int), ((adjustBound n n b : Nat) : Int), sliceStep c) := by
  have ha : (match a with
      | none => (0 : Int)
      | some v => Nix.Py.clampBound v (n : Int) 0 (n : Int)) = ((adjustBound n 0 a : Nat) : Int) := by
    cases a with
    | none => rfl
    | some v => exact (adjustBound_clamp n v 0).symm
  have hb : (match b with
      | none => (n : Int)
      | some v => Nix.Py.clampBound v (n : Int) 0 (n : Int)) = ((adjustBound n n b : Nat) : Int) := by
    cases b with
    | none => rfl
    | some v => exact (adjustBound_clamp n v n).symm
  cases c with
  | none =>
    simp only [Nix.Py.PySlice.indices, sliceStep]
    simp
    exact ⟨ha, hb⟩
  | some k =>
    simp only [sliceStep] at hk
    have hs0 : ¬ (k = 0) := by omega
    have hneg : ¬ (k < 0) := by omega
    simp only [Nix.Py.PySlice.indices, sliceStep]
    simp [hs0, hneg]
    exact ⟨ha, hb⟩

theorem selectAxis_count (n : Nat) (ix : Ix) (s : AxisSel) (h : selectAxis n ix = .ok s) :
    npAxisCount n ix = some s.count := by
  cases ix with
  | int i =>
    simp only [selectAxis] at h
    split at h
    · rename_i hr
      cases h
      simp [npAxisCount, hr]
    · cases h
  | slice a b c =>
    simp only [selectAxis] at h
    split at h
    · cases h
    · rename_i hstep
      have hk : sliceStep c ≥ 1 := by omega
      simp only [npAxisCount, indices_pos n a b c hk]
      congr 1
      unfold Nix.Py.rangeLen
      have hpos : sliceStep c > 0 := by omega
      rw [if_pos hpos]
      obtain ⟨k, hkk⟩ : ∃ k : Nat, sliceStep c = (k : Int) := ⟨(sliceStep c).toNat, by omega⟩
      have hk1 : 1 ≤ k := by omega
      split at h
      · rename_i hlt
        cases h
        have : ¬ ((adjustBound n 0 a : Nat) : Int) < ((adjustBound n n b : Nat) : Int) := by omega
        rw [if_neg this]
      · rename_i hge
        cases h
        simp only
        by_cases heq : adjustBound n n b = adjustBound n 0 a
        · have : ¬ ((adjustBound n 0 a : Nat) : Int) < ((adjustBound n n b : Nat) : Int) := by omega
          rw [if_neg this, if_pos heq]
        · have hlt : ((adjustBound n 0 a : Nat) : Int) < ((adjustBound n n b : Nat) : Int) := by omega
          rw [if_pos hlt, if_neg heq, hkk]
          have hd : (((adjustBound n n b : Nat) : Int) - ((adjustBound n 0 a : Nat) : Int) - 1) =
              ((adjustBound n n b - adjustBound n 0 a - 1 : Nat) : Int) := by omega
          rw [hd, Int.toNat_natCast k, ← Int.natCast_ediv]
          generalize (adjustBound n n b - adjustBound n 0 a - 1) / k = q
          omega

theorem npCountPlain_select : ∀ (sh : List Nat) (ixs : List Ix) (sel : List AxisSel),
    select sh ixs = .ok sel → npCountPlain sh ixs = some (selCount sel)
  | [], [], sel, h => by cases h; rfl
  | [], _ :: _, _, h => by simp [select] at h
  | n :: ns, [], sel, h => by
    simp only [select] at h
    split at h
    · rename_i r hr
      cases h
      simp [npCountPlain, npCountPlain_select ns [] r hr, selCount]
    · cases h
  | n :: ns, i :: is, sel, h => by
    simp only [select] at h
    split at h
    · cases h
    · rename_i s hs
      split at h
      · rename_i r hr
        cases h
        simp [npCountPlain, selectAxis_count n i s hs, npCountPlain_select ns is r hr, selCount]
      · cases h

theorem select_length_le : ∀ (sh : List Nat) (l : List Ix) (r : List AxisSel),
    select sh l = .ok r → l.length ≤ sh.length
  | _, [], _, _ => by simp
  | [], _ :: _, _, h => by simp [select] at h
  | n :: ns, x :: xs, r, h => by
    simp only [select] at h
    split at h
    · cases h
    · split at h
      · rename_i r' hr'
        have := select_length_le ns xs r' hr'
        simp only [List.length_cons]
        omega
      · cases h

/-- for every index without `Ellipsis` that h5py accepts, the NumPy probe of `_selected_count` yields the number of
elements h5py selects -/
theorem h5SelectedCount_select (A : DArr) (ix : IndexArg) (ixs : List Ix) (sel : List AxisSel)
    (hitems : ix.orFull.items = ixs.map .ix) (hs : select A.arr.shape ixs = .ok sel) :
    h5SelectedCount A ix = some (selCount sel) := by
  have hlen := select_length_le _ _ _ hs
  cases ix with
  | none =>
    simp only [IndexArg.orFull, fullSlice, IndexArg.items] at hitems
    cases ixs with
    | nil => simp at hitems
    | cons x xs =>
      cases xs with
      | nil =>
        simp only [List.map_cons, List.map_nil, List.cons.injEq, IxE.ix.injEq, and_true] at hitems
        subst hitems
        exact npCountPlain_select _ _ _ hs
      | cons y ys => simp at hitems
  | one i =>
    simp only [IndexArg.orFull] at hitems
    simp only [h5SelectedCount, hitems, npExpand_plain _ _ hlen, Option.bind]
    exact npCountPlain_select _ _ _ hs
  | tuple l =>
    simp only [IndexArg.orFull] at hitems
    simp only [h5SelectedCount, hitems, npExpand_plain _ _ hlen, Option.bind]
    exact npCountPlain_select _ _ _ hs

/-! ### accepted kinds: the typed write is the assignment of the converted data, in both directions -/

theorem h5SetItem_accepts (A B : DArr) (ix : IndexArg) (ixs : List Ix) (d : Arr)
    (h : plainItems ix.items = some ixs) (hk : convRefusal d.dt A.dtype = none)
    (hass : assign A ixs (convArr A.dtype d.a) = .ok B) : h5SetItem A ix d = .ok B := by
  rw [h5SetItem_plain A ix ixs d h]
  unfold assign at hass
  cases hs : select A.arr.shape ixs with
  | error e => simp [hs] at hass
  | ok sel =>
    simp only [hs] at hass ⊢
    by_cases hb : bcastOk sel d.a.shape = true
    · have hb' : bcastOk sel (convArr A.dtype d.a).shape = true := hb
      rw [if_pos hb'] at hass
      simp only [hb, Bool.not_true, Bool.false_eq_true, if_false, hk, ite_self]
      rw [Except.ok.inj hass]
    · have hb' : ¬ bcastOk sel (convArr A.dtype d.a).shape = true := hb
      rw [if_neg hb'] at hass
      cases hass

/-- creation with typed data of an accepted kind: the new array has the chosen element type, the data's shape,
and holds the converted data on every multi-index -/
theorem createS_exact (dtype : Option DType) (shape : Option (List Nat)) (d0 : Arr) (compr : Bool)
    (hsh : shapeAgrees shape (contiguous d0.a).shape = true) (htxt : ¬ (dtype = none ∧ d0.dt = .string))
    (hk : convRefusal d0.dt (chooseDType dtype d0.dt) = none) :
    ∃ A, createS dtype shape (some d0) compr = .ok A ∧ A.dtype = chooseDType dtype d0.dt ∧
      A.compressed = compr ∧ A.arr.shape = (contiguous d0.a).shape ∧
      ∀ idx, inBounds idx A.arr.shape = true →
        A.arr.get idx = convElem (chooseDType dtype d0.dt) ((contiguous d0.a).get idx) := by
  obtain ⟨B, hB, h1, h2, h3, h4⟩ := writeDirect_exact
    ⟨chooseDType dtype d0.dt, compr, ⟨(contiguous d0.a).shape, fun _ => (chooseDType dtype d0.dt).fill⟩⟩
    (convArr (chooseDType dtype d0.dt) (contiguous d0.a)) rfl (contiguous_rank d0.a)
  refine ⟨B, ?_, h1, h2, h3, fun idx hb => h4 idx (h3 ▸ hb)⟩
  unfold createS
  simp only [npAscontiguousarray, hsh, Bool.not_true, Bool.false_eq_true, if_false, htxt]
  exact writeData_of_h5 (guard_full _ ⟨d0.dt, contiguous d0.a⟩ rfl (contiguous_rank d0.a))
    (h5SetItem_accepts _ B fullSlice _ ⟨d0.dt, contiguous d0.a⟩ fullSlice_plain hk hB)

/-- data of an accepted kind, appended along a valid axis: no exception, and the result is what `append` of the
converted data gives in the model of `C01_append_concat` -/
theorem appendS_accepts (A : DArr) (d : Arr) (axis : Int) (hk : convRefusal d.dt A.dtype = none)
    (h : AppendOk A.arr.shape (contiguous d.a).shape axis) :
    ∃ B, appendS A d axis = (B, none) ∧ append A (convArr A.dtype d.a) axis = .ok B := by
  obtain ⟨hl, h0, hlt, hrest⟩ := h
  have hm := (shapeMismatch_false_iff axis _ _ hl).mpr hrest
  obtain ⟨A1, hA1, hcase⟩ := appendS_pass A d axis hl ⟨h0, hlt⟩ hm
  have hdt : A1.dtype = A.dtype := (setExtent_meta hA1).1
  -- the model's append of the converted data succeeds …
  have hok : AppendOk A.arr.shape (contiguous (convArr A.dtype d.a)).shape axis := by
    rw [contiguous_convArr]; exact ⟨hl, h0, hlt, hrest⟩
  obtain ⟨k, rfl⟩ : ∃ k : Nat, axis = (k : Int) := ⟨axis.toNat, by omega⟩
  have hk' : k < A.arr.shape.length := by omega
  have happ := append_ok A (convArr A.dtype d.a) k (by rw [contiguous_convArr]; exact hl) hk'
    (by rw [contiguous_convArr]; exact hm)
  -- … and is, after the resize, the assignment the typed write performs
  have hsh : (convArr A.dtype (contiguous d.a)).shape = (contiguous d.a).shape := rfl
  have hunf : append A (convArr A.dtype d.a) (k : Int) =
      assign A1 (appendSlices (appendOffset (k : Int) A.arr.shape) (contiguous d.a).shape)
        (convArr A.dtype (contiguous d.a)) := by
    unfold append
    dsimp only
    rw [contiguous_convArr, hsh, if_neg (fun hne => hne hl), if_neg (fun hn => hn ⟨h0, hlt⟩),
      if_neg (by simp [hm])]
    simp only [hA1]
  obtain ⟨Y, hY⟩ : ∃ Y, append A (convArr A.dtype d.a) (k : Int) = .ok Y := ⟨_, happ⟩
  have hass := hY
  rw [hunf] at hass
  have hA1sh : A1.arr.shape = appendEnlarge (k : Int) A.arr.shape (contiguous d.a).shape := by
    rw [setExtent_ok_eq hA1]; simp [NdArray.resize, map_toNat_comp]
  have hlenE := length_appendEnlarge (k : Int) A.arr.shape (contiguous d.a).shape hl
  have hg := guard_window A1 ⟨d.dt, contiguous d.a⟩ (appendOffset (k : Int) A.arr.shape)
    (by rw [hA1sh]; exact fits_append k _ _ hl hk' hm) (by rw [length_appendOffset]; exact hl)
    (by rw [hA1sh, hlenE]; exact hl.symm)
  have hw : writeData A1 ⟨d.dt, contiguous d.a⟩ (.tuple ((appendSlices (appendOffset (k : Int) A.arr.shape)
      (contiguous d.a).shape).map .ix)) = .ok Y :=
    writeData_of_h5 hg (h5SetItem_accepts A1 Y (.tuple ((appendSlices (appendOffset (k : Int) A.arr.shape)
      (contiguous d.a).shape).map .ix)) _ ⟨d.dt, contiguous d.a⟩ (plainItems_map _) (by rw [hdt]; exact hk)
      (by rw [hdt]; exact hass))
  rcases hcase with ⟨B, hwB, hB⟩ | ⟨e, A2, _, hB⟩
  · rw [hw] at hwB
    cases hwB
    exact ⟨Y, hB, hY⟩
  · exfalso
    unfold appendS at hB
    dsimp only at hB
    rw [if_neg (fun hne => hne hl), if_neg (fun hn => hn ⟨h0, hlt⟩), if_neg (by simp [hm])] at hB
    simp only [hA1, hw] at hB
    cases hB

/-! ### the read rule -/

theorem selectAxis_err {n : Nat} {ix : Ix} {e : Err} (h : selectAxis n ix = .error e) :
    e = .indexError ∨ e = .valueError := by
  cases ix with
  | int i =>
    simp only [selectAxis] at h
    split at h
    · cases h
    · cases h; exact Or.inl rfl
  | slice a b c =>
    simp only [selectAxis] at h
    split at h
    · cases h; exact Or.inr rfl
    · split at h <;> cases h

theorem selectArgs_err (R : Nat) : ∀ (items : List IxE) (sh : List Nat) (seen : Bool) (n : Nat) (e : Err),
    selectArgs R sh items seen n = .error e → e = .indexError ∨ e = .valueError
  | [], _, _, _, _, h => by simp [selectArgs] at h
  | .ellipsis :: rest, sh, seen, n, e, h => by
    simp only [selectArgs] at h
    split at h
    · cases h; exact Or.inr rfl
    · split at h
      · cases h; exact Or.inr rfl
      · split at h
        · cases h
        · rename_i e' he
          cases h
          exact selectArgs_err R rest _ true (n - 1) _ he
  | .ix _ :: _, [], _, _, _, h => by
    simp only [selectArgs] at h
    cases h; exact Or.inr rfl
  | .ix i :: rest, m :: ms, seen, n, e, h => by
    simp only [selectArgs] at h
    split at h
    · rename_i e' he
      cases h
      exact selectAxis_err he
    · split at h
      · cases h
      · rename_i e' he
        cases h
        exact selectArgs_err R rest ms seen n _ he

/-- `DataArray[ix]` / `DataArray._read_data(ix)`: the selection h5py computes (`None` = everything), every
selection error re-raised as IndexError, a 0-d result returned with shape (1,) -/
theorem readData_rule (A : DArr) (ix : IndexArg) :
    readData A ix =
      (match selectIndex A.arr.shape (match ix with | .none => fullSlice | s => s) with
       | .ok sel =>
         .ok (if selShape sel = [] then ⟨[1], fun _ => A.arr.get (absIdx sel [])⟩ else A.arr.gather sel)
       | .error _ => .error (.err .indexError)) := by
  unfold readData h5GetItem
  cases hs : selectIndex A.arr.shape (match ix with | .none => fullSlice | s => s) with
  | ok sel => simp only [NdArray.gather]; rfl
  | error e =>
    rcases selectArgs_err _ _ _ _ _ _ hs with rfl | rfl <;> simp

/-! ### every way of reading the whole array is the same read -/

theorem selectIndex_ellipsis_only (sh : List Nat) : selectIndex sh (.one .ellipsis) = .ok (sh.map fullSel) := by
  simp [selectIndex, IndexArg.items, selectArgs]

theorem selectIndex_fullSlice (n : Nat) (ns : List Nat) :
    selectIndex (n :: ns) fullSlice = .ok ((n :: ns).map fullSel) := by
  simp [selectIndex, fullSlice, IndexArg.items, selectArgs, selectAxis_full, fullSel]

theorem readData_whole (A : DArr) (hr : A.arr.shape ≠ []) :
    readData A fullSlice = readData A .none ∧ readData A (.one .ellipsis) = readData A .none ∧
    readData A (.tuple []) = readData A .none := by
  refine ⟨rfl, ?_, ?_⟩
  · rw [readData_rule, readData_rule]
    cases hA : A.arr.shape with
    | nil => exact absurd hA hr
    | cons n ns =>
      simp only [selectIndex_ellipsis_only, selectIndex_fullSlice]
  · rw [readData_rule, readData_rule]
    cases hA : A.arr.shape with
    | nil => exact absurd hA hr
    | cons n ns =>
      have : selectIndex (n :: ns) (.tuple []) = .ok ((n :: ns).map fullSel) := by
        simp [selectIndex, IndexArg.items, selectArgs]
      simp only [this, selectIndex_fullSlice]

/-! ### shrink, then grow: the elements that were cut off come back as fill values -/

theorem shrink_grow (A B C : DArr) (e1 e2 : List Int) (h1 : setExtent A e1 = .ok B) (h2 : setExtent B e2 = .ok C) :
    C.dtype = A.dtype ∧ C.arr.shape = e2.map Int.toNat ∧
      ∀ idx, C.arr.get idx =
        if inBounds idx B.arr.shape = true ∧ inBounds idx A.arr.shape = true then A.arr.get idx
        else A.dtype.fill := by
  have hB := setExtent_ok_eq h1
  have hC := setExtent_ok_eq h2
  subst hB
  subst hC
  refine ⟨rfl, rfl, fun idx => ?_⟩
  simp only [NdArray.resize]
  by_cases hb : inBounds idx (e1.map Int.toNat) = true
  · by_cases ha : inBounds idx A.arr.shape = true
    · simp [hb, ha]
    · simp [hb, ha]
  · simp [hb]

end Nix.Nd.Lemmas
