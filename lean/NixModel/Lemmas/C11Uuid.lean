import NixModel.Pure.Version

/-! Helper lemmas for C11: `uuid.UUID` acceptance of canonical `8-4-4-4-12` hex strings. -/
namespace Nix.Version.Lemmas
open Nix Nix.Version

theorem removeAllAux_id (p : Char) (ps : Str) (s : Str) (h : ∀ c ∈ s, c ≠ p) :
    removeAllAux (p :: ps) 0 s = s := by
  induction s with
  | nil => rfl
  | cons c cs ih =>
    have hc : c ≠ p := h c (List.mem_cons_self ..)
    have : (p :: ps).isPrefixOf (c :: cs) = false := by
      simp [List.isPrefixOf, Ne.symm hc]
    simp only [removeAllAux, this]
    rw [ih (fun x hx => h x (List.mem_cons_of_mem _ hx))]
    simp

theorem dropWhile_id {α} (p : α → Bool) (s : List α) (h : ∀ c ∈ s, p c = false) : s.dropWhile p = s := by
  cases s with
  | nil => rfl
  | cons c cs => simp [List.dropWhile, h c (List.mem_cons_self ..)]

theorem stripChars_id (chars : List Char) (s : Str) (h : ∀ c ∈ s, chars.contains c = false) :
    stripChars chars s = s := by
  unfold stripChars
  rw [dropWhile_id _ s h, dropWhile_id _ s.reverse (fun c hc => h c (List.mem_reverse.mp hc))]
  simp

theorem removeAll_dash (s : Str) : removeAll ['-'] s = s.filter (fun c => c ≠ '-') := by
  unfold removeAll
  induction s with
  | nil => rfl
  | cons c cs ih =>
    by_cases hc : c = '-'
    · subst hc
      simp [removeAllAux, List.isPrefixOf, ih]
    · simp [removeAllAux, List.isPrefixOf, hc, Ne.symm hc, ih]

def isHexStr (s : Str) : Prop := ∀ c ∈ s, isHex c = true

theorem hex_ne_dash (c : Char) (h : isHex c = true) : c ≠ '-' := by
  intro hc; subst hc; revert h; decide
theorem hex_ne_u (c : Char) (h : isHex c = true) : c ≠ 'u' := by
  intro hc; subst hc; revert h; decide
theorem hex_not_brace (c : Char) (h : isHex c = true) : ['{', '}'].contains c = false := by
  have h1 : c ≠ '{' := by intro hc; subst hc; revert h; decide
  have h2 : c ≠ '}' := by intro hc; subst hc; revert h; decide
  simp [h1, h2]
theorem hex_ne (c d : Char) (hd : isHex d = false) (h : isHex c = true) : c ≠ d := by
  intro hc; subst hc; rw [h] at hd; exact absurd hd (by decide)

theorem hex_not_space (c : Char) (h : isHex c = true) : isSpace c = false := by
  have h1 := hex_ne c ' ' (by decide) h
  have h2 := hex_ne c '\t' (by decide) h
  have h3 := hex_ne c '\n' (by decide) h
  have h4 := hex_ne c '\r' (by decide) h
  have h5 := hex_ne c (Char.ofNat 11) (by decide) h
  have h6 := hex_ne c (Char.ofNat 12) (by decide) h
  simp [isSpace, h1, h2, h3, h4, h5, h6]

theorem hexOrUs_of_hex (c : Char) (h : isHex c = true) : isHexOrUs c = true := by simp [isHexOrUs, h]

theorem takeWhile_all {α} (p : α → Bool) (s : List α) (h : ∀ c ∈ s, p c = true) : s.takeWhile p = s := by
  induction s with
  | nil => rfl
  | cons c cs ih =>
    simp [List.takeWhile, h c (List.mem_cons_self ..), ih (fun x hx => h x (List.mem_cons_of_mem _ hx))]

theorem dropWhile_all {α} (p : α → Bool) (s : List α) (h : ∀ c ∈ s, p c = true) : s.dropWhile p = [] := by
  induction s with
  | nil => rfl
  | cons c cs ih =>
    simp [List.dropWhile, h c (List.mem_cons_self ..), ih (fun x hx => h x (List.mem_cons_of_mem _ hx))]

theorem hasDoubleUs_none (s : Str) (h : ∀ c ∈ s, c ≠ '_') : hasDoubleUs s = false := by
  induction s with
  | nil => rfl
  | cons c cs ih =>
    have hc : c ≠ '_' := h c (List.mem_cons_self ..)
    have ih' := ih (fun x hx => h x (List.mem_cons_of_mem _ hx))
    unfold hasDoubleUs
    split
    · rename_i heq; simp at heq; exact absurd heq.1 hc
    · rename_i heq; simp at heq; rw [← heq.2]; exact ih'
    · rename_i heq; simp at heq

theorem splitSign_hex (c : Char) (cs : Str) (hc : isHex c = true) : splitSign (c :: cs) = (false, c :: cs) := by
  have hplus : c ≠ '+' := hex_ne c '+' (by decide) hc
  have hminus : c ≠ '-' := hex_ne c '-' (by decide) hc
  unfold splitSign
  split
  · rename_i heq; simp at heq; exact absurd heq.1 hplus
  · rename_i heq; simp at heq; exact absurd heq.1 hminus
  · rfl

theorem skipHexPrefix_hex (s : Str) (h : isHexStr s) : skipHexPrefix s = s := by
  unfold skipHexPrefix
  split
  · rename_i x t
    have hx : isHex x = true := h x (by simp)
    have h1 : x ≠ 'x' := hex_ne x 'x' (by decide) hx
    have h2 : x ≠ 'X' := hex_ne x 'X' (by decide) hx
    simp [h1, h2]
  · rfl

/-- `int(h, 16)` accepts every non-empty string of hex digits -/
theorem pyIntHex_hex (s : Str) (hne : s ≠ []) (h : isHexStr s) : pyIntHexNonneg s = true := by
  cases s with
  | nil => exact absurd rfl hne
  | cons c cs =>
    have hc : isHex c = true := h c (List.mem_cons_self ..)
    have hsp : (c :: cs).dropWhile isSpace = c :: cs := by
      simp [List.dropWhile, hex_not_space c hc]
    have hus : ∀ x ∈ c :: cs, x ≠ '_' := fun x hx => hex_ne x '_' (by decide) (h x hx)
    have htw : (c :: cs).takeWhile isHexOrUs = c :: cs :=
      takeWhile_all _ _ (fun x hx => hexOrUs_of_hex x (h x hx))
    have hdw : (c :: cs).dropWhile isHexOrUs = [] :=
      dropWhile_all _ _ (fun x hx => hexOrUs_of_hex x (h x hx))
    have hlast : (c :: cs).getLast? ≠ some '_' := by
      intro hl
      have := List.mem_of_getLast? hl
      exact hus _ this rfl
    unfold pyIntHexNonneg
    simp only [hsp, splitSign_hex c cs hc, skipHexPrefix_hex _ h, htw, hdw]
    simp [digitsOk, hasDoubleUs_none _ hus, hus c (List.mem_cons_self ..), hlast]

theorem filter_hex (s : Str) (h : isHexStr s) : s.filter (fun c => !decide (c = '-')) = s := by
  apply List.filter_eq_self.mpr
  intro c hc
  simp [hex_ne_dash c (h c hc)]

/-- every string `8-4-4-4-12` of hex digits (what `str(uuid4())` returns, in either case) is accepted -/
theorem uuidAccepts_canonical (a b c e g : Str) (ha : a.length = 8) (hb : b.length = 4) (hc : c.length = 4)
    (he : e.length = 4) (hg : g.length = 12) (hx : isHexStr (a ++ b ++ c ++ e ++ g)) :
    uuidAccepts (a ++ '-' :: (b ++ '-' :: (c ++ '-' :: (e ++ '-' :: g)))) = true := by
  have hxa : isHexStr a := fun x h => hx x (by simp [h])
  have hxb : isHexStr b := fun x h => hx x (by simp [h])
  have hxc : isHexStr c := fun x h => hx x (by simp [h])
  have hxe : isHexStr e := fun x h => hx x (by simp [h])
  have hxg : isHexStr g := fun x h => hx x (by simp [h])
  have hmem : ∀ x ∈ a ++ '-' :: (b ++ '-' :: (c ++ '-' :: (e ++ '-' :: g))), isHex x = true ∨ x = '-' := by
    intro x h
    simp only [List.mem_append, List.mem_cons] at h
    rcases h with h | h | h | h | h | h | h | h | h
    · exact .inl (hxa x h)
    · exact .inr h
    · exact .inl (hxb x h)
    · exact .inr h
    · exact .inl (hxc x h)
    · exact .inr h
    · exact .inl (hxe x h)
    · exact .inr h
    · exact .inl (hxg x h)
  have hnu : ∀ x ∈ a ++ '-' :: (b ++ '-' :: (c ++ '-' :: (e ++ '-' :: g))), x ≠ 'u' := by
    intro x h
    rcases hmem x h with h | h
    · exact hex_ne_u x h
    · subst h; decide
  have hnb : ∀ x ∈ a ++ '-' :: (b ++ '-' :: (c ++ '-' :: (e ++ '-' :: g))), ['{', '}'].contains x = false := by
    intro x h
    rcases hmem x h with h | h
    · exact hex_not_brace x h
    · subst h; decide
  have hurn : "urn:".toList = 'u' :: ['r', 'n', ':'] := by decide
  have huuid : "uuid:".toList = 'u' :: ['u', 'i', 'd', ':'] := by decide
  unfold uuidAccepts
  simp only [removeAll, hurn, huuid]
  rw [removeAllAux_id _ _ _ hnu, removeAllAux_id _ _ _ hnu, stripChars_id _ _ hnb]
  have := removeAll_dash (a ++ '-' :: (b ++ '-' :: (c ++ '-' :: (e ++ '-' :: g))))
  unfold removeAll at this
  rw [this]
  have hf : (a ++ '-' :: (b ++ '-' :: (c ++ '-' :: (e ++ '-' :: g)))).filter (fun c => c ≠ '-')
      = a ++ b ++ c ++ e ++ g := by
    simp [List.filter_append, filter_hex a hxa, filter_hex b hxb, filter_hex c hxc,
      filter_hex e hxe, filter_hex g hxg]
  rw [hf]
  have hlen : (a ++ b ++ c ++ e ++ g).length = 32 := by simp [ha, hb, hc, he, hg]
  have hne : a ++ b ++ c ++ e ++ g ≠ [] := by
    intro h0; rw [h0] at hlen; simp at hlen
  rw [Bool.and_eq_true]
  refine ⟨?_, pyIntHex_hex _ hne hx⟩
  rw [hlen]; rfl

end Nix.Version.Lemmas