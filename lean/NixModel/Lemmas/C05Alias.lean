import NixModel.Lemmas.StoreWFBasic

/-! Helper lemmas for C05 over the structural model: path resolution only looks at links, an
attribute write changes one attribute of one node, acceptance conditions of the linking calls. -/
namespace Nix.Store.Lemmas
open Nix.Store Nix.Store.Graph

/-! ### path resolution depends on the links only -/

theorem stepSeg_congr {g g' : Graph} (h : ∀ k, g'.links k = g.links k) (l : Loc) (s : Seg) :
    stepSeg g' l s = stepSeg g l s := by
  cases s with
  | name n => simp [stepSeg, child?_eq, h]
  | idx i => simp [stepSeg, h]

theorem resolve_congr {g g' : Graph} (h : ∀ k, g'.links k = g.links k) (l : Loc) (p : Path) :
    resolve g' l p = resolve g l p := by
  induction p generalizing l with
  | nil => rfl
  | cons s ps ih =>
    simp only [resolve, stepSeg_congr h]
    cases stepSeg g l s with
    | none => rfl
    | some l' => exact ih l'

theorem resolve_setAttr (g : Graph) (k : Nat) (a : String) (v : Option String) (l : Loc) (p : Path) :
    resolve (g.setAttr k a v) l p = resolve g l p :=
  resolve_congr (fun k' => links_setAttr g k a v k') l p

/-! ### `setAttrOp` writes exactly one attribute of the node the path resolves to -/

theorem kindOf_ne_empty_node {g : Graph} {k : Nat} (h : kindOf g k ≠ "") : (g.node? k).isSome := by
  unfold kindOf at h
  cases hk : g.getAttr k "~kind" with
  | none => simp [hk] at h
  | some v => exact node?_isSome_of_getAttr hk

theorem attrAllowed_kind_ne_empty {kind attr : String} (h : attrAllowed kind attr = true) : kind ≠ "" := by
  intro e
  subst e
  unfold attrAllowed at h
  split at h <;> simp at h

/-- the value an attribute has after `setAttrOp … attr v` (an empty unit clears it) -/
def writtenValue (attr : String) (v : Option String) : Option String :=
  if attr == "unit" && v == some "" then none else v

theorem setAttrOp_ok {g g' : Graph} {p : Path} {attr : String} {v : Option String}
    (h : setAttrOp g p attr v = .ok g') :
    ∃ o, resolve g rootLoc p = some o ∧ (g.node? o.key).isSome ∧
      g' = g.setAttr o.key attr (writtenValue attr v) := by
  unfold setAttrOp at h
  cases hr : resolve g rootLoc p with
  | none => simp [hr] at h
  | some o =>
    simp only [hr] at h
    by_cases ha : attrAllowed (kindOf g o.key) attr = true
    · have hk := kindOf_ne_empty_node (attrAllowed_kind_ne_empty ha)
      refine ⟨o, rfl, hk, ?_⟩
      simp only [ha, Bool.not_true, Bool.false_eq_true, ↓reduceIte] at h
      by_cases h1 : (attr == "type" && v.isNone) = true
      · simp [h1] at h
      · simp only [h1, Bool.false_eq_true, ↓reduceIte] at h
        unfold writtenValue
        by_cases h2 : (attr == "unit" && v == some "") = true
        · simp only [h2, ↓reduceIte] at h ⊢
          exact (Except.ok.inj h).symm
        · simp only [h2, Bool.false_eq_true, ↓reduceIte] at h ⊢
          exact (Except.ok.inj h).symm
    · simp [ha] at h

/-! ### acceptance conditions -/

/-- "the node stored under the item's name in the block's container `store` is that very node" -/
theorem inBlockStore_iff (g : Graph) (b : Nat) (store : String) (k : Nat) :
    inBlockStore g b store k = true ↔
      ∃ nm l, g.getAttr k "name" = some nm ∧ getByName g (g.child? b store) nm = some l ∧ l.2 = k := by
  unfold inBlockStore
  cases hn : g.getAttr k "name" with
  | none => simp
  | some nm =>
    cases hl : getByName g (g.child? b store) nm with
    | none => simp [hl]
    | some l =>
      simp only [hl, beq_iff_eq, Option.some.injEq]
      constructor
      · intro h; exact ⟨nm, l, rfl, hl, h⟩
      · rintro ⟨nm', l', h1, h2, h3⟩
        subst h1
        rw [hl] at h2
        cases h2
        exact h3

/-! ### `create_link` -/

/-- after `create_link(target, name)` the name leads to the target node itself -/
theorem child?_createLinkIn_self (g : Graph) {p : Nat} (n : String) (t : Nat) (hp : (g.node? p).isSome) :
    (createLinkIn g p n t).child? p n = some t := by
  unfold createLinkIn
  by_cases hh : g.hasChild p n = true
  · simp only [hh, ↓reduceIte]
    apply child?_addLink_self
    · rw [node?_isSome_delLink]; exact hp
    · exact child?_delLink_self _ _ _
  · have hf : g.hasChild p n = false := by simpa using hh
    simp only [hf, Bool.false_eq_true, ↓reduceIte]
    apply child?_addLink_self _ _ _ hp
    rw [hasChild_eq] at hf
    cases hc : g.child? p n <;> simp_all

/-! ### `append` -/

/-- an accepted `append(entity)` is `create_link(item, item.id)` on the (possibly new) list group -/
theorem contAppend_ok_form {g g' : Graph} {c : Cont} {k : Nat} (h : contAppend g c (.ent k) = .ok g') :
    ∃ id, g.entityId k = some id ∧
      g' = createLinkIn (g.ensureGroup c.owner.key c.cname).1 (g.ensureGroup c.owner.key c.cname).2 id k := by
  unfold contAppend at h
  cases hid : g.entityId k with
  | none => split at h <;> simp [hid] at h
  | some id =>
    refine ⟨id, rfl, ?_⟩
    split at h <;> first
      | (cases h; done)
      | (simp only [hid] at h
         split at h <;> first
           | (cases h; done)
           | exact (Except.ok.inj h).symm)

theorem filter_ne_of_no_child {g : Graph} {k : Nat} {n : String} (h : g.hasChild k n = false) :
    (g.links k).filter (fun l => l.1 != n) = g.links k := by
  rw [hasChild_false_iff] at h
  apply List.filter_eq_self.mpr
  intro l hl
  simpa using h l hl

theorem contAppend_effect (g g' : Graph) (c : Cont) (k : Nat)
    (hc : c.node = g.child? c.owner.key c.cname) (ho : (g.node? c.owner.key).isSome)
    (hcn : ∀ cn, c.node = some cn → (g.node? cn).isSome ∧ cn ≠ c.owner.key)
    (hfresh : g.node? g.nextKey = none)
    (h : contAppend g c (.ent k) = .ok g') :
    ∃ id, g.entityId k = some id ∧
      cLinks g' (g'.child? c.owner.key c.cname) =
        (cLinks g c.node).filter (fun l => l.1 != id) ++ [(id, k)] := by
  obtain ⟨id, hid, hg'⟩ := contAppend_ok_form h
  refine ⟨id, hid, ?_⟩
  subst hg'
  cases hch : g.child? c.owner.key c.cname with
  | some cn =>
    rw [hch] at hc
    obtain ⟨hnode, hne⟩ := hcn cn hc
    rw [ensureGroup_of_some hch, hc]
    unfold createLinkIn
    simp only [cLinks]
    by_cases hhas : g.hasChild cn id = true
    · simp only [hhas, ↓reduceIte]
      have h1 : ((g.delLink cn id).addLink cn id k).child? c.owner.key c.cname = some cn := by
        rw [child?_addLink_ne _ _ _ (Ne.symm hne), child?_delLink_ne _ _ (Ne.symm hne)]; exact hch
      rw [h1]
      simp only
      rw [links_addLink_self _ _ _ (by rw [node?_isSome_delLink]; exact hnode), links_delLink_self]
    · have hhas' : g.hasChild cn id = false := by simpa using hhas
      simp only [hhas', Bool.false_eq_true, ↓reduceIte]
      have h1 : (g.addLink cn id k).child? c.owner.key c.cname = some cn := by
        rw [child?_addLink_ne _ _ _ (Ne.symm hne)]; exact hch
      rw [h1]
      simp only
      rw [links_addLink_self _ _ _ hnode, filter_ne_of_no_child hhas']
  | none =>
    rw [hch] at hc
    rw [ensureGroup_of_none hch, hc]
    have hne : c.owner.key ≠ g.nextKey := by
      intro e; rw [e, hfresh] at ho; simp at ho
    have hlinks_nk : ((g.newNode .group).1.addLink c.owner.key c.cname g.nextKey).links g.nextKey = [] := by
      rw [links_addLink_ne _ _ _ (Ne.symm hne), links_newNode]
      exact links_of_node?_none hfresh
    have hnode_nk : (((g.newNode .group).1.addLink c.owner.key c.cname g.nextKey).node? g.nextKey).isSome := by
      rw [node?_isSome_addLink, node?_isSome_newNode]; simp
    have hhas : ((g.newNode .group).1.addLink c.owner.key c.cname g.nextKey).hasChild g.nextKey id = false := by
      rw [hasChild_false_iff, hlinks_nk]; simp
    unfold createLinkIn
    simp only [hhas, Bool.false_eq_true, ↓reduceIte, cLinks, List.filter_nil, List.nil_append]
    have h1 : (((g.newNode .group).1.addLink c.owner.key c.cname g.nextKey).addLink g.nextKey id k).child?
        c.owner.key c.cname = some g.nextKey := by
      rw [child?_addLink_ne _ _ _ hne]
      apply child?_addLink_self
      · rw [node?_isSome_newNode]; simp [ho]
      · rw [child?_newNode]; exact hch
    rw [h1]
    simp only
    rw [links_addLink_self _ _ _ hnode_nk, hlinks_nk]
    rfl

end Nix.Store.Lemmas
