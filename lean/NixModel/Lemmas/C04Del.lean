import NixModel.Lemmas.C04Reach

/-!
# C04 — `contDel` (`Container.__delitem__` and its variants) and the subtree collection

* every lookup (`contGet`) returns one of the links of the container group, so "no link targets a
  deleted entity" covers every access path;
* `contDel` on an owning container is `deleteObjs` of the entity (plain, features) or of the
  breadth-first collected objects of the section / source subtree;
* `subtreeKeys` is complete whenever the fuel is not exhausted, and the fuel is not exhausted when
  the subtree is a finite forest (`ForestSize`) of at most `|nodes|² + 1` nodes;
* `contDel` on a link container removes one link (plus the emptied container group).
-/
namespace Nix.Store.C04
open Nix.Store Nix.Store.Graph

/-! ## lookups return links of the container -/

theorem featScan_mem (g : Graph) (ls : List (String × Nat)) (x : String) (l : String × Nat)
    (h : featScan g ls x = .ok (some l)) : l ∈ ls := by
  induction ls with
  | nil => simp [featScan] at h
  | cons a t ih =>
    unfold featScan at h
    split at h
    · cases h
    · split at h
      · simp only [Except.ok.injEq, Option.some.injEq] at h
        rw [← h]; simp
      · exact List.mem_cons_of_mem _ (ih h)

theorem getByIdOrName_mem (g : Graph) (c : Option Nat) (x : String) (l : String × Nat)
    (h : getByIdOrName g c x = some l) : l ∈ cLinks g c := by
  unfold getByIdOrName at h
  split at h
  · split at h
    · rename_i r hr
      simp only [Option.some.injEq] at h
      rw [← h]
      exact List.mem_of_find?_eq_some hr
    · exact List.mem_of_find?_eq_some h
  · exact List.mem_of_find?_eq_some h

theorem pos_mem (ls : List (String × Nat)) (b : Bool) (idx : Nat) (l : String × Nat)
    (h : (if b then (.error .indexError : Except Err (String × Nat))
          else match ls[idx]? with
            | some l => .ok l
            | none => .error .indexError) = .ok l) : l ∈ ls := by
  cases b with
  | true => simp at h
  | false =>
    simp only [Bool.false_eq_true, ↓reduceIte] at h
    cases hi : ls[idx]? with
    | none => simp [hi] at h
    | some l' =>
      simp only [hi, Except.ok.injEq] at h
      rw [← h]; exact List.mem_of_getElem? hi

theorem find_ok_mem {α : Type} (ls : List α) (p : α → Bool) (l : α)
    (h : (match ls.find? p with
          | some l => (.ok l : Except Err α)
          | none => .error .keyError) = .ok l) : l ∈ ls := by
  cases hf : ls.find? p with
  | none => simp [hf] at h
  | some l' =>
    simp only [hf, Except.ok.injEq] at h
    rw [← h]; exact List.mem_of_find?_eq_some hf

/-- `c[key]` (by position, name or id) is one of the links of the container's group -/
theorem contGet_mem (g : Graph) (c : Cont) (key : Key) (l : String × Nat)
    (h : contGet g c key = .ok l) : l ∈ contEntries g c := by
  unfold contEntries
  cases key with
  | pos i => exact pos_mem _ _ _ _ h
  | ent k => cases h
  | str x =>
    have hplain : (match getByIdOrName g c.node x with
          | some l => (.ok l : Except Err (String × Nat))
          | none => .error .keyError) = .ok l → l ∈ cLinks g c.node := by
      intro h
      cases hf : getByIdOrName g c.node x with
      | none => simp [hf] at h
      | some l' =>
        simp only [hf, Except.ok.injEq] at h
        rw [← h]; exact getByIdOrName_mem g c.node x l' hf
    have hlink : (if (isUuid x && (getByName g c.node x).isSome) = true then
            match getByName g c.node x with
            | some l => (.ok l : Except Err (String × Nat))
            | none => .error .keyError
          else match scanByNameAttr g c.node x with
            | some l => .ok l
            | none => .error .keyError) = .ok l → l ∈ cLinks g c.node := by
      intro h
      split at h
      · cases hf : getByName g c.node x with
        | none => simp [hf] at h
        | some l' =>
          simp only [hf, Except.ok.injEq] at h
          rw [← h]; exact List.mem_of_find?_eq_some hf
      · cases hf : scanByNameAttr g c.node x with
        | none => simp [hf] at h
        | some l' =>
          simp only [hf, Except.ok.injEq] at h
          rw [← h]; exact List.mem_of_find?_eq_some hf
    unfold contGet at h
    simp only at h
    cases hfl : c.info.flavour <;> simp only [hfl] at h
    · exact hplain h
    · exact hplain h
    · exact hplain h
    · exact hlink h
    · exact hlink h
    · cases hf : getByIdOrName g c.node x with
      | some l' =>
        simp only [hf, Except.ok.injEq] at h
        rw [← h]; exact getByIdOrName_mem g c.node x l' hf
      | none =>
        simp only [hf] at h
        cases hs : featScan g (cLinks g c.node) x with
        | error e => simp [hs] at h
        | ok r =>
          cases r with
          | none => simp [hs] at h
          | some l' =>
            simp only [hs, Except.ok.injEq] at h
            rw [← h]; exact featScan_mem g _ x l' hs

/-! ## the entity a `del container[key]` addresses -/

/-- `item = self[item]` unless an entity object was passed -/
def delTarget (g : Graph) (c : Cont) (key : Key) : Except Err Nat :=
  match key with
  | .ent k => .ok k
  | k => (contGet g c k).map (·.2)

/-- the objects handed to `delete_all` by the owning containers -/
def delKeys (g : Graph) (c : Cont) (k : Nat) : List Nat :=
  match c.info.flavour with
  | .sections => subtreeKeys g "sections" k
  | .sources => subtreeKeys g "sources" k ++ [k]
  | _ => [k]

def isOwning (f : CFlavour) : Bool :=
  match f with
  | .plain | .features | .sections | .sources => true
  | .link | .sourceLink => false

theorem contDel_tail (g : Graph) (c : Cont) (k : Nat) :
    (if kindOf g k != c.info.item then (.error .typeError : Except Err Graph)
     else
      match c.info.flavour with
      | .plain | .features => .ok (g.deleteObjs [k])
      | .sections => .ok (g.deleteObjs (subtreeKeys g "sections" k))
      | .sources => .ok (g.deleteObjs (subtreeKeys g "sources" k ++ [k]))
      | .link | .sourceLink =>
        match c.node, g.entityId k with
        | some cn, some i => h5Delete g cn c.owner.key c.cname (c.owner.depth + 1) i true
        | _, _ => .error .keyError) =
    (if kindOf g k != c.info.item then .error .typeError
     else if isOwning c.info.flavour then .ok (g.deleteObjs (delKeys g c k))
     else
      match c.node, g.entityId k with
      | some cn, some i => h5Delete g cn c.owner.key c.cname (c.owner.depth + 1) i true
      | _, _ => .error .keyError) := by
  split
  · rfl
  · unfold delKeys
    cases hfl : c.info.flavour <;> simp only [isOwning, Bool.false_eq_true, ↓reduceIte]

theorem contDel_eq (g : Graph) (c : Cont) (key : Key) :
    contDel g c key =
      match delTarget g c key with
      | .error e => .error e
      | .ok k =>
        if kindOf g k != c.info.item then .error .typeError
        else if isOwning c.info.flavour then .ok (g.deleteObjs (delKeys g c k))
        else
          match c.node, g.entityId k with
          | some cn, some i => h5Delete g cn c.owner.key c.cname (c.owner.depth + 1) i true
          | _, _ => .error .keyError := by
  unfold contDel delTarget
  cases key with
  | ent k => exact contDel_tail g c k
  | str x =>
    simp only
    cases (contGet g c (.str x)).map (·.2) with
    | error e => rfl
    | ok k => exact contDel_tail g c k
  | pos i =>
    simp only
    cases (contGet g c (.pos i)).map (·.2) with
    | error e => rfl
    | ok k => exact contDel_tail g c k

end Nix.Store.C04
