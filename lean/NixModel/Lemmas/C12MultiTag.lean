import NixModel.Lemmas.C12Ops

/-!
# C12 — `Block.create_multi_tag` with positions / extents given as data

`createMultiTagW` rolls back with `delete_all([id])` of the auto-created arrays. Proved here:
`autoArray` (the inner `create_data_array`) leaves the file as it was when it refuses, and
`createMultiTagW` does whenever no auto-created array has to be deleted again.
-/
namespace Nix.Store.Lemmas
open Nix.Store Nix.Store.Graph

theorem autoArray_unch' {g : Graph} (hK : KeysLt g)
    (hto : ∀ o, resolve g rootLoc p = some o → ∀ l, l ∈ g.links o.key → Has g l.2)
    (n t : String) (f : Option Fault) (e : Err)
    (h : (autoArray g p n t f).2 = .error e) : Unch g (autoArray g p n t f).1 := by
  unfold autoArray at h ⊢
  cases hr : resolve g rootLoc p with
  | none => exact Unch.refl g
  | some o =>
    simp only [hr] at h ⊢
    split
    · exact Unch.refl g
    · rename_i hk
      rw [if_neg hk] at h
      have hk' : kindOf g o.key ≠ "" := by
        intro e0; rw [e0] at hk; simp at hk
      have ho : Has g o.key := has_of_kindOf hk'
      cases hpf : stageFault Stage.pre f with
      | some e0 => exact Unch.refl g
      | none =>
        simp only [hpf] at h ⊢
        cases hc : checkNameType n t with
        | error e0 => exact Unch.refl g
        | ok u =>
          simp only [hc] at h ⊢
          obtain ⟨hn, hsl, ht⟩ := checkNameType_ok hc
          cases hd : hasEntry g o.key "data_arrays" n with
          | true => simp only [↓reduceIte]; exact Unch.refl g
          | false =>
            simp only [hd, Bool.false_eq_true, ↓reduceIte] at h ⊢
            have roll := fun g1 c k hE =>
              entity_rollback hK (hto o hr) "data_arrays" n t "data_array" ho (.inr hk') hn hsl ht hd g1 c k hE
            generalize hE : entityCreateNewW g o.key "data_arrays" n t "data_array" = r at h ⊢
            rcases r with ⟨g1, (e' | ⟨c, k⟩)⟩
            · have := entityCreateNewW_err (P := Has g) g o.key "data_arrays" n t "data_array" e' (by rw [hE])
              rw [hE] at this
              exact this.unch
            · simp only at h ⊢
              cases hf1 : stageFault Stage.entity f with
              | some e1 => exact roll g1 c k hE g1 (fun P _ => SameOn.refl P g1)
              | none =>
                simp only [hf1] at h ⊢
                cases hf2 : stageFault Stage.data f with
                | some e2 => exact roll g1 c k hE _ (fun P hP => sameOn_addDataset g1 _ hP)
                | none => simp [hf2] at h

theorem autoArray_unch {g : Graph} (hT : Tidy g) (p : Path) (n t : String) (f : Option Fault) (e : Err)
    (h : (autoArray g p n t f).2 = .error e) : Unch g (autoArray g p n t f).1 :=
  autoArray_unch' hT.keysLt (fun o _ => hT.targets o.key) n t f e h

/-- an argument of an invalid class never yields an array -/
theorem autoArray_fault_fails (g : Graph) (p : Path) (n t : String) (f : Fault) (k : Nat) :
    (autoArray g p n t (some f)).2 ≠ .ok k := by
  unfold autoArray
  intro h
  cases hr : resolve g rootLoc p with
  | none => simp [hr] at h
  | some o =>
    simp only [hr] at h
    split at h
    · simp at h
    · cases hst : f.stage with
      | pre => simp [stageFault, hst] at h
      | entity =>
        simp only [stageFault, hst] at h
        split at h <;> try (simp at h; done)
        split at h <;> try (simp at h; done)
        split at h <;> try (simp at h; done)
        split at h <;> simp at h
      | data =>
        simp only [stageFault, hst] at h
        split at h <;> try (simp at h; done)
        split at h <;> try (simp at h; done)
        split at h <;> try (simp at h; done)
        split at h <;> simp at h

/-- the call does not store valid data in an auto-created array (which a later refusal would have to
delete again through `delete_all`) -/
def NoAutoArray (pos ext : ArrArg) : Prop := pos ≠ .data none ∧ ext ≠ .data none

theorem normArr_cases (g : Graph) (a : ArrArg) (h : a ≠ .data none) :
    (∃ k, normArr g a = .ref k) ∨ normArr g a = .absent ∨ ∃ f, normArr g a = .data (some f) := by
  cases a with
  | ref k =>
    by_cases hk : isKind g k "data_array" = true
    · exact .inl ⟨k, by simp [normArr, hk]⟩
    · exact .inr (.inr ⟨{ stage := .entity, err := .typeError }, by simp [normArr, hk]⟩)
  | absent => exact .inr (.inl rfl)
  | data f =>
    cases f with
    | none => exact absurd rfl h
    | some f => exact .inr (.inr ⟨f, rfl⟩)

end Nix.Store.Lemmas
