import NixModel.Lemmas.C12Ops

/-!
# C12 — `Block.create_multi_tag` with positions / extents given as data

`createMultiTagW` rolls back with `delete_all([id])` of the auto-created arrays. Proved here:
`autoArray` (the inner `create_data_array`) leaves the file as it was when it refuses, and
`createMultiTagW` does whenever no auto-created array has to be deleted again.
-/
namespace Nix.Store.Lemmas
open Nix.Store Nix.Store.Graph

theorem autoArray_unch {g : Graph} (hT : Tidy g) (p : Path) (n t : String) (f : Option Fault) (e : Err)
    (h : (autoArray g p n t f).2 = .error e) : Unch g (autoArray g p n t f).1 := by
  unfold autoArray at h ⊢
  cases hr : resolve g rootLoc p with
  | none => exact Unch.refl g
  | some o =>
    simp only [hr] at h ⊢
    split
    · exact Unch.refl g
    · rename_i hk
      rw [if_neg hk] at h
      have hk' : kindOf g o.key ≠ "" := by
        intro e0; rw [e0] at hk; simp at hk
      have ho : Has g o.key := has_of_kindOf hk'
      cases hpf : stageFault Stage.pre f with
      | some e0 => exact Unch.refl g
      | none =>
        simp only [hpf] at h ⊢
        cases hc : checkNameType n t with
        | error e0 => exact Unch.refl g
        | ok u =>
          simp only [hc] at h ⊢
          obtain ⟨hn, hsl, ht⟩ := checkNameType_ok hc
          cases hd : hasEntry g o.key "data_arrays" n with
          | true => simp only [↓reduceIte]; exact Unch.refl g
          | false =>
            simp only [hd, Bool.false_eq_true, ↓reduceIte] at h ⊢
            have roll := fun g1 c k hE =>
              entity_rollback hT "data_arrays" n t "data_array" ho (.inr hk') hn hsl ht hd g1 c k hE
            generalize hE : entityCreateNewW g o.key "data_arrays" n t "data_array" = r at h ⊢
            rcases r with ⟨g1, (e' | ⟨c, k⟩)⟩
            · have := entityCreateNewW_err (P := Has g) g o.key "data_arrays" n t "data_array" e' (by rw [hE])
              rw [hE] at this
              exact this.unch
            · simp only at h ⊢
              cases hf1 : stageFault Stage.entity f with
              | some e1 => exact roll g1 c k hE g1 (fun P _ => SameOn.refl P g1)
              | none =>
                simp only [hf1] at h ⊢
                cases hf2 : stageFault Stage.data f with
                | some e2 => exact roll g1 c k hE _ (fun P hP => sameOn_addDataset g1 _ hP)
                | none => simp [hf2] at h

/-- an argument of an invalid class never yields an array -/
theorem autoArray_fault_fails (g : Graph) (p : Path) (n t : String) (f : Fault) (k : Nat) :
    (autoArray g p n t (some f)).2 ≠ .ok k := by
  unfold autoArray
  intro h
  cases hr : resolve g rootLoc p with
  | none => simp [hr] at h
  | some o =>
    simp only [hr] at h
    split at h
    · simp at h
    · cases hst : f.stage with
      | pre => simp [stageFault, hst] at h
      | entity =>
        simp only [stageFault, hst] at h
        split at h <;> try (simp at h; done)
        split at h <;> try (simp at h; done)
        split at h <;> try (simp at h; done)
        split at h <;> simp at h
      | data =>
        simp only [stageFault, hst] at h
        split at h <;> try (simp at h; done)
        split at h <;> try (simp at h; done)
        split at h <;> try (simp at h; done)
        split at h <;> simp at h

/-- the call does not store valid data in an auto-created array (which a later refusal would have to
delete again through `delete_all`) -/
def NoAutoArray (pos ext : ArrArg) : Prop := pos ≠ .data none ∧ ext ≠ .data none

theorem normArr_cases (g : Graph) (a : ArrArg) (h : a ≠ .data none) :
    (∃ k, normArr g a = .ref k) ∨ normArr g a = .absent ∨ ∃ f, normArr g a = .data (some f) := by
  cases a with
  | ref k =>
    by_cases hk : isKind g k "data_array" = true
    · exact .inl ⟨k, by simp [normArr, hk]⟩
    · exact .inr (.inr ⟨{ stage := .entity, err := .typeError }, by simp [normArr, hk]⟩)
  | absent => exact .inr (.inl rfl)
  | data f =>
    cases f with
    | none => exact absurd rfl h
    | some f => exact .inr (.inr ⟨f, rfl⟩)

/-- **`create_multi_tag`, partial**: refused ⇒ unchanged whenever no auto-created array has to be
deleted again (positions / extents are existing objects, None, or data of an invalid class).
Missing for the full statement: `delete_all([id])` of a successfully auto-created array removes
exactly the link just made (needs `ids_wf`: no other node carries the fresh id). -/
theorem createMultiTagW_unch_partial {g : Graph} (hT : Tidy g) (p : Path) (n t : String)
    (pos ext : ArrArg) (hA : NoAutoArray pos ext) (e : Err)
    (h : (createMultiTagW g p n t pos ext).2 = some e) : Unch g (createMultiTagW g p n t pos ext).1 := by
  unfold createMultiTagW at h ⊢
  cases hr : resolve g rootLoc p with
  | none => exact Unch.refl g
  | some o =>
    simp only [hr] at h ⊢
    split
    · exact Unch.refl g
    · rename_i hk
      rw [if_neg hk] at h
      have hk' : kindOf g o.key ≠ "" := by
        intro e0; rw [e0] at hk; simp at hk
      have ho : Has g o.key := has_of_kindOf hk'
      cases hc : checkNameType n t with
      | error e0 => exact Unch.refl g
      | ok u =>
        simp only [hc] at h ⊢
        obtain ⟨hn, hsl, ht⟩ := checkNameType_ok hc
        cases hd : hasEntry g o.key "multi_tags" n with
        | true => simp only [↓reduceIte]; exact Unch.refl g
        | false =>
          simp only [hd, Bool.false_eq_true, ↓reduceIte] at h ⊢
          -- the tail shared by all paths on which the positions are an existing array `pk` and nothing was created
          have tail : ∀ (pk : Nat) (ek : Option Nat),
              (match entityCreateNewW g o.key "multi_tags" n t "multi_tag" with
                | (g3, Except.error e) => (g3, some e)
                | (g3, Except.ok (c, k)) =>
                  if (!isKind g3 pk "data_array") = true then (g3.delLink c n, some Err.typeError)
                  else if (!inBlockStore g3 o.key "data_arrays" pk) = true then (g3.delLink c n, some Err.runtimeError)
                  else
                    match ek with
                    | none => (createLinkIn g3 k "positions" pk, none)
                    | some e =>
                      if (!isKind (createLinkIn g3 k "positions" pk) e "data_array") = true then
                        ((createLinkIn g3 k "positions" pk).delLink c n, some Err.typeError)
                      else if (!inBlockStore (createLinkIn g3 k "positions" pk) o.key "data_arrays" e) = true then
                        ((createLinkIn g3 k "positions" pk).delLink c n, some Err.runtimeError)
                      else (createLinkIn (createLinkIn g3 k "positions" pk) k "extents" e, none) : Reached).2 ≠ none →
              Unch g (match entityCreateNewW g o.key "multi_tags" n t "multi_tag" with
                | (g3, Except.error e) => (g3, some e)
                | (g3, Except.ok (c, k)) =>
                  if (!isKind g3 pk "data_array") = true then (g3.delLink c n, some Err.typeError)
                  else if (!inBlockStore g3 o.key "data_arrays" pk) = true then (g3.delLink c n, some Err.runtimeError)
                  else
                    match ek with
                    | none => (createLinkIn g3 k "positions" pk, none)
                    | some e =>
                      if (!isKind (createLinkIn g3 k "positions" pk) e "data_array") = true then
                        ((createLinkIn g3 k "positions" pk).delLink c n, some Err.typeError)
                      else if (!inBlockStore (createLinkIn g3 k "positions" pk) o.key "data_arrays" e) = true then
                        ((createLinkIn g3 k "positions" pk).delLink c n, some Err.runtimeError)
                      else (createLinkIn (createLinkIn g3 k "positions" pk) k "extents" e, none) : Reached).1 := by
            intro pk ek hne
            have roll := fun g1 c k hE =>
              entity_rollback hT "multi_tags" n t "multi_tag" ho (.inr hk') hn hsl ht hd g1 c k hE
            generalize hE : entityCreateNewW g o.key "multi_tags" n t "multi_tag" = r at hne ⊢
            rcases r with ⟨g3, (e' | ⟨c, k⟩)⟩
            · have := entityCreateNewW_err (P := Has g) g o.key "multi_tags" n t "multi_tag" e' (by rw [hE])
              rw [hE] at this
              exact this.unch
            · simp only at hne ⊢
              have r0 := roll g3 c k hE g3 (fun P _ => SameOn.refl P g3)
              have r1 := roll g3 c k hE (createLinkIn g3 k "positions" pk)
                (fun P hP => sameOn_createLinkIn g3 "positions" pk hP)
              split
              · exact r0
              · split
                · exact r0
                · cases ek with
                  | none => simp_all
                  | some e1 =>
                    simp only at hne ⊢
                    split
                    · exact r1
                    · split
                      · exact r1
                      · simp_all
          rcases normArr_cases g pos hA.1 with ⟨pk, hp⟩ | hp | ⟨f, hp⟩
          · simp only [hp] at h ⊢
            rcases normArr_cases g ext hA.2 with ⟨ek, he⟩ | he | ⟨f2, he⟩
            · simp only [he, Bool.false_eq_true, ↓reduceIte] at h ⊢
              have tl := tail pk (some ek)
              simp only at tl
              exact tl (fun hh => absurd (hh.symm.trans h) (by simp))
            · simp only [he, Bool.false_eq_true, ↓reduceIte] at h ⊢
              have tl := tail pk none
              simp only at tl
              exact tl (fun hh => absurd (hh.symm.trans h) (by simp))
            · simp only [he] at h ⊢
              generalize hA2 : autoArray g p (n ++ "-extents") (t ++ "-extents") (some f2) = r at h ⊢
              rcases r with ⟨g2, (e2 | k2)⟩
              · simp only [Bool.false_eq_true, ↓reduceIte]
                have := autoArray_unch hT p _ _ (some f2) e2 (by rw [hA2])
                rw [hA2] at this; exact this
              · exact absurd (by rw [hA2]) (autoArray_fault_fails g p _ _ f2 k2)
          · simp only [hp]; exact Unch.refl g
          · simp only [hp] at h ⊢
            generalize hA1 : autoArray g p (n ++ "-positions") (t ++ "-positions") (some f) = r at h ⊢
            rcases r with ⟨g1, (e1 | k1)⟩
            · simp only
              have := autoArray_unch hT p _ _ (some f) e1 (by rw [hA1])
              rw [hA1] at this; exact this
            · exact absurd (by rw [hA1]) (autoArray_fault_fails g p _ _ f k1)

end Nix.Store.Lemmas
