import NixModel.Lemmas.C14Sound

/-!
# C14 — the converse of soundness: an object the validator is silent about (and whose API reads do not raise) is
well-formed.  Together with `C14Sound` this makes `WellFormed` *exactly* the set of files that validate to no
errors — the hypothesis of `C14_sound` assumes nothing beyond what the validator's silence forces.
-/
namespace Nix.Validator.Lemmas
open Nix.Validator Nix.Validator.Gen Nix.Units

theorem not_mem_of_nil {α : Type} {l : List α} (h : l = []) (a : α) : a ∉ l := by rw [h]; simp

theorem badDimUnit_iff (u : Option Str) :
    badDimUnit u = true ↔ ∃ s, u = some s ∧ s ≠ [] ∧ isAtomic s = false := by
  cases u with
  | none => simp [badDimUnit, falsy]
  | some s => simp [badDimUnit, falsy]

theorem dimUnitOk_of_not_bad {u : Option Str} (h : ¬ badDimUnit u = true) : DimUnitOk u := by
  intro s hs hne
  by_contra hb
  exact h ((badDimUnit_iff u).mpr ⟨s, hs, hne, by simpa using hb⟩)

theorem ctorEvents_nil_iff (b : Bool) : ctorEvents b = [] ↔ b = true := by
  cases b <;> simp [ctorEvents]

/-! ## entities -/

theorem entOk_of_nil {e : Ent} (hu : e.idUuid = true) (h : checkEntity e = []) : EntOk e := by
  have hm := not_mem_of_nil h
  refine ⟨hu, ?_, ?_, ?_, ?_⟩
  · have := hm (.plain .NoType); rw [mem_checkEntity] at this; simpa using this
  · have := hm (.plain .NoID); rw [mem_checkEntity] at this; simpa using this
  · have := hm (.plain .NoName); rw [mem_checkEntity] at this; simpa using this
  · have := hm (.plain .NoDate); rw [mem_checkEntity] at this; simpa using this

/-! ## descriptors and arrays -/

theorem dimOk_of_nil {pos : Nat} {d : Dim} {n : Nat} (h : dimMsgs pos d n = []) : DimOk pos d n := by
  have hm : ∀ m, ¬ DimSpec pos d n m := fun m hs => not_mem_of_nil h m ((mem_dimMsgs pos d n m).mpr hs)
  refine ⟨?_, ?_, ?_, ?_⟩
  · by_contra hne
    by_cases h0 : d.index ≤ 0
    · exact hm (.dim .InvalidDimensionIndex pos) (Or.inl ⟨rfl, h0⟩)
    · exact hm (.dim2 .IncorrectDimensionIndex pos d.index) (Or.inr (Or.inl ⟨rfl, by omega, hne⟩))
  · intro hk
    have h3 := hm (.dim .RangeDimTicksMismatch pos)
    have h4 := hm (.dim .NoTicks pos)
    have h5 := hm (.dim .UnsortedTicks pos)
    have h6 := hm (.dim .InvalidDimensionUnit pos)
    simp only [DimSpec, hk, reduceCtorEq, false_and, and_false, false_or, or_false, true_and, Msg.dim.injEq,
      and_true, not_and, Decidable.not_not] at h3 h4 h5 h6
    refine ⟨h3, h4, ?_, dimUnitOk_of_not_bad h6⟩
    rw [← ticksSorted_iff]
    have := h5 h4
    simpa using this
  · intro hk
    have h6 := hm (.dim .InvalidDimensionUnit pos)
    have h7 := hm (.dim .NoSamplingInterval pos)
    have h8 := hm (.dim .InvalidSamplingInterval pos)
    simp only [DimSpec, hk, reduceCtorEq, false_and, and_false, false_or, or_false, true_and, Msg.dim.injEq,
      and_true, or_true, not_exists, not_and] at h6 h7 h8
    refine ⟨?_, dimUnitOk_of_not_bad h6⟩
    cases hi : d.interval with
    | none => simp [hi, noInterval] at h7
    | some r =>
      have hr0 : r ≠ 0 := by simpa [hi, noInterval] using h7
      have hnl : ¬ r < 0 := h8 r hi
      exact ⟨r, rfl, lt_of_le_of_ne (not_lt.mp hnl) (Ne.symm hr0)⟩
  · intro hk
    have h9 := hm (.dim .SetDimLabelsMismatch pos)
    simp only [DimSpec, hk, reduceCtorEq, false_and, and_false, false_or, true_and, Msg.dim.injEq,
      and_true, not_and, Decidable.not_not] at h9
    by_cases h0 : d.nLabels = 0
    · exact Or.inl h0
    · exact Or.inr (h9 h0)

theorem arrayOk_of_nil {da : DataArray} (hu : da.ent.idUuid = true) (h : checkDataArray da = []) : ArrayOk da := by
  have hm : ∀ m, ¬ _ := fun m => (not_congr (mem_checkDataArray da m)).mp (not_mem_of_nil h m)
  have he : checkEntity da.ent = [] :=
    List.eq_nil_iff_forall_not_mem.mpr fun m hmem => hm m (Or.inl hmem)
  refine ⟨entOk_of_nil hu he, ?_, ?_, ?_⟩
  · have := hm (.plain .NoDataType)
    simp only [not_or, not_and, forall_const] at this
    simpa using this.2.1
  · have := hm (.plain .DimensionMismatch)
    simp only [not_or, not_and, forall_const, Decidable.not_not] at this
    exact this.2.2.1
  · intro i d n hi
    apply dimOk_of_nil
    apply List.eq_nil_iff_forall_not_mem.mpr
    intro m hmem
    exact hm m (Or.inr (Or.inr (Or.inr ⟨i, d, n, hi, (mem_dimMsgs _ _ _ _).mp hmem⟩)))

/-! ## features -/

theorem featureOk_of_nil {arrays : List DataArray} {ft : Feature} {i : Nat}
    (hc : checkFeature arrays ft i = []) (hev : featureEvents arrays ft = []) : FeatureOk arrays ft := by
  have hm : ∀ m, ¬ _ := fun m => (not_congr (mem_checkFeature arrays ft i m)).mp (not_mem_of_nil hc m)
  unfold featureEvents at hev
  simp only [List.append_eq_nil_iff, ctorEvents_nil_iff] at hev
  obtain ⟨⟨hu, hd⟩, hl⟩ := hev
  have hl' : linkTypeOk ft.linkType = true := by
    by_contra hc'
    simp [hc'] at hl
  cases hda : ft.data.bind (fun k => arrays[k]?) with
  | none => simp [hda] at hd
  | some da =>
    simp only [hda] at hd
    cases hn : firstLen da.shape with
    | none => simp [hn] at hd
    | some n =>
      have h1 := hm (.feature i .NoID)
      have h2 := hm (.feature i .NoDate)
      have h3 := hm (.feature i .NoData)
      simp only [Msg.feature.injEq, reduceCtorEq, and_false, false_and, false_or, or_false, true_and,
        hda, Option.some.injEq, exists_eq_left', hn, Bool.not_eq_true] at h1 h2 h3
      exact ⟨hu, h1, h2, hl', da, n, hda, hn, h3⟩

theorem featuresOk_of_nil {arrays : List DataArray} {fts : List Feature}
    (hc : ∀ i ft, fts[i]? = some ft → checkFeature arrays ft i = [])
    (hev : fts.flatMap (featureEvents arrays) = []) : ∀ ft ∈ fts, FeatureOk arrays ft := by
  intro ft hft
  obtain ⟨i, hi⟩ := List.mem_iff_getElem?.mp hft
  exact featureOk_of_nil (hc i ft hi) (List.flatMap_eq_nil_iff.mp hev ft hft)

/-! ## units -/

theorem unitsOk_of {units : List Str} {refs : List DataArray}
    (h1 : ¬ UnitsLenMismatch units refs) (h2 : ¬ UnitsUnconvertible units refs)
    (h3 : ¬ ∃ u ∈ units, u ≠ [] ∧ isSi u = false) : UnitsOk units refs := by
  refine ⟨?_, ?_, ?_⟩
  · intro da hda
    by_contra hne
    exact h1 ⟨da, hda, hne⟩
  · intro da hda p hp
    by_contra hne
    exact h2 ⟨da, hda, p, hp, hne⟩
  · intro u hu hne
    by_contra hsi
    exact h3 ⟨u, hu, hne, by simpa using hsi⟩

theorem refArrays_nil_of_refs_nil {arrays : List DataArray} {refs : List Nat} (h : refs = []) :
    refArrays arrays refs = [] := by simp [refArrays, h]

/-! ## tags -/

theorem tagOk_of_nil {arrays : List DataArray} {t : Tag}
    (hc : checkTag arrays t = []) (hev : tagEvents arrays t = []) : TagOk arrays t := by
  have hm : ∀ m, ¬ _ := fun m => (not_congr (mem_checkTag arrays t m)).mp (not_mem_of_nil hc m)
  unfold tagEvents at hev
  simp only [List.append_eq_nil_iff, ctorEvents_nil_iff] at hev
  obtain ⟨hu, hfe⟩ := hev
  have he : checkEntity t.ent = [] :=
    List.eq_nil_iff_forall_not_mem.mpr fun m hmem => hm m (Or.inl hmem)
  have hent := entOk_of_nil hu he
  have entNo : ∀ k, k ≠ MsgId.NoType → k ≠ .NoID → k ≠ .NoName → k ≠ .NoDate → Msg.plain k ∉ checkEntity t.ent := by
    intro k _ _ _ _; rw [he]; simp
  have hNoPos := hm (.plain .NoPosition)
  have hPE := hm (.plain .PositionExtentMismatch)
  have hPD := hm (.plain .PositionDimensionMismatch)
  have hED := hm (.plain .ExtentDimensionMismatch)
  have hRM := hm (.plain .ReferenceUnitsMismatch)
  have hRI := hm (.plain .ReferenceUnitsIncompatible)
  have hIU := hm (.plain .InvalidUnit)
  simp only [he, List.not_mem_nil, mem_refUnitMsgs, mem_checkFeature, Msg.plain.injEq, reduceCtorEq, false_and,
    and_false, false_or, or_false, true_and, exists_const, exists_false, not_and, not_exists, Decidable.not_not]
    at hNoPos hPE hPD hED hRM hRI hIU
  have hrefs : t.refs = [] → refArrays arrays t.refs = [] := refArrays_nil_of_refs_nil
  refine ⟨hent, hNoPos, ?_, ?_, ?_, ?_⟩
  · intro da hda
    by_cases hr : t.refs = []
    · rw [hrefs hr] at hda; simp at hda
    · exact hPD hr da hda
  · by_cases h0 : t.extLen = 0
    · exact Or.inl h0
    · refine Or.inr ⟨hPE h0, ?_⟩
      intro da hda
      by_cases hr : t.refs = []
      · rw [hrefs hr] at hda; simp at hda
      · exact hED hr h0 da hda
  · by_cases hr : t.refs = []
    · refine unitsOk_of ?_ ?_ ?_
      · rintro ⟨da, hda, -⟩; rw [hrefs hr] at hda; simp at hda
      · rintro ⟨da, hda, -⟩; rw [hrefs hr] at hda; simp at hda
      · rintro ⟨u, hu', hne, hsi⟩; exact hIU u hu' hne hsi
    · refine unitsOk_of (hRM hr) (hRI hr) ?_
      rintro ⟨u, hu', hne, hsi⟩; exact hIU u hu' hne hsi
  · apply featuresOk_of_nil _ hfe
    intro i ft hi
    apply List.eq_nil_iff_forall_not_mem.mpr
    intro m hmem
    exact hm m (Or.inr (Or.inr (Or.inr (Or.inr (Or.inr ⟨i, ft, hi, hmem⟩)))))

/-! ## multi-tags -/

theorem firstLen_of_shapeEvents_nil {b : Bool} {sh : List Nat} (h : shapeEvents b sh = []) :
    ∃ n, firstLen sh = some n := by
  cases sh with
  | nil => simp [shapeEvents, firstLen] at h
  | cons a r => exact ⟨a, rfl⟩

theorem secondDim_of_firstLen {sh : List Nat} {n : Nat} (h : firstLen sh = some n) : ∃ k, secondDim sh = some k := by
  cases sh with
  | nil => simp [firstLen] at h
  | cons a r => cases r <;> simp [secondDim]

theorem multiTagOk_of_nil {arrays : List DataArray} {t : MultiTag}
    (hc : checkMultiTag arrays t = []) (hev : mtagEvents arrays t = []) : MultiTagOk arrays t := by
  have hm : ∀ m, ¬ _ := fun m => (not_congr (mem_checkMultiTag arrays t m)).mp (not_mem_of_nil hc m)
  have he : checkEntity t.ent = [] :=
    List.eq_nil_iff_forall_not_mem.mpr fun m hmem => hm m (Or.inl hmem)
  have hNoPos := hm (.plain .NoPositions)
  have hPE := hm (.plain .PositionsExtentsMismatch)
  have hPD := hm (.plain .PositionsDimensionMismatch)
  have hRM := hm (.plain .ReferenceUnitsMismatch)
  have hRI := hm (.plain .ReferenceUnitsIncompatible)
  have hIU := hm (.plain .InvalidUnit)
  simp only [he, List.not_mem_nil, mem_refUnitMsgs, mem_checkFeature, Msg.plain.injEq, reduceCtorEq, false_and,
    and_false, false_or, or_false, true_and, exists_const, exists_false, not_and, not_exists, Decidable.not_not,
    not_or] at hNoPos hPE hPD hRM hRI hIU
  unfold mtagEvents at hev
  simp only [List.append_eq_nil_iff, ctorEvents_nil_iff] at hev
  obtain ⟨⟨⟨hu, hpe⟩, hee⟩, hfe⟩ := hev
  have hrefs : t.refs = [] → refArrays arrays t.refs = [] := refArrays_nil_of_refs_nil
  obtain ⟨hpn, hp0⟩ := hNoPos
  cases hp : (t.positions.bind fun k => arrays[k]?) with
  | none => exact absurd (by simp [MtPosShape, hp]) hpn
  | some pda =>
    have hps : MtPosShape arrays t = some pda.shape := by simp [MtPosShape, hp]
    simp only [hp] at hpe
    obtain ⟨n, hn⟩ := firstLen_of_shapeEvents_nil hpe
    obtain ⟨k, hk⟩ := secondDim_of_firstLen hn
    have hn0 : n ≠ 0 := by
      intro h0
      apply hp0
      rw [hps]; simp [hn, h0]
    refine ⟨entOk_of_nil hu he, ⟨pda.shape, n, k, hps, hn, hn0, hk, ?_⟩, ?_, ?_, ?_⟩
    · intro da hda
      by_cases hr : t.refs = []
      · rw [hrefs hr] at hda; simp at hda
      · have := hPD hr hpn da hda
        rw [hps] at this
        simpa [hk] using this
    · cases hx : MtExtShape arrays t with
      | none => exact Or.inl rfl
      | some es =>
        by_cases h0 : firstLen es = some 0
        · exact Or.inr (Or.inr ⟨es, rfl, h0⟩)
        · refine Or.inr (Or.inl ?_)
          have := hPE hpn es hx h0
          rw [this]
    · by_cases hr : t.refs = []
      · refine unitsOk_of ?_ ?_ ?_
        · rintro ⟨da, hda, -⟩; rw [hrefs hr] at hda; simp at hda
        · rintro ⟨da, hda, -⟩; rw [hrefs hr] at hda; simp at hda
        · rintro ⟨u, hu', hne, hsi⟩; exact hIU u hu' hne hsi
      · refine unitsOk_of (hRM hr) (hRI hr) ?_
        rintro ⟨u, hu', hne, hsi⟩; exact hIU u hu' hne hsi
    · apply featuresOk_of_nil _ hfe
      intro i ft hi
      apply List.eq_nil_iff_forall_not_mem.mpr
      intro m hmem
      exact hm m (Or.inr (Or.inr (Or.inr (Or.inr (Or.inr ⟨i, ft, hi, hmem⟩)))))

/-! ## sections -/

theorem sectionOk_of_nil {e : Ent} {ps : List Property} (hu : e.idUuid = true)
    (hpu : ps.flatMap (fun p => ctorEvents p.idUuid) = []) (hc : checkSection e ps = []) :
    EntOk e ∧ ∀ p ∈ ps, PropertyOk p := by
  have hm : ∀ m, ¬ _ := fun m => (not_congr (mem_checkSection e ps m)).mp (not_mem_of_nil hc m)
  have he : checkEntity e = [] :=
    List.eq_nil_iff_forall_not_mem.mpr fun m hmem => hm m (Or.inl hmem)
  refine ⟨entOk_of_nil hu he, ?_⟩
  intro p hp
  obtain ⟨i, hi⟩ := List.mem_iff_getElem?.mp hp
  have hpu' := (ctorEvents_nil_iff _).mp (List.flatMap_eq_nil_iff.mp hpu p hp)
  have h1 := hm (.property i .NoID)
  have h2 := hm (.property i .NoName)
  simp only [he, List.not_mem_nil, false_or, mem_checkProperty, not_exists, not_and, not_or] at h1 h2
  have h1' := (h1 i p hi).1
  have h2' := (h2 i p hi).2
  simp only [forall_const, Bool.not_eq_true] at h1' h2'
  exact ⟨hpu', h1', h2'⟩

end Nix.Validator.Lemmas
