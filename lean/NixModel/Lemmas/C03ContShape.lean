import NixModel.Lemmas.StoreViews
import NixModel.Generated.ContShape

/-!
# C03 — the decision trees read from container.py / h5group.py compute the model's lookups

For every graph, container and key. The trees are the generated definitions (`Nix.Gen.*`), so an edit of the
source that changes the order of the tests, a branch or an outcome breaks one of these theorems.
-/
namespace Nix.Store.Lemmas
open Nix.Store Nix.Store.Graph

theorem plainLike_cases {f : CFlavour} (h : isPlainLike f = true) : f = .plain ∨ f = .sections ∨ f = .sources := by
  cases f <;> simp_all [isPlainLike]

/-- `H5Group.get_by_id_or_name` -/
theorem h5GetByIdOrName_eq (g : Graph) (c : Cont) (x : String) :
    Gen.h5GetByIdOrName.evalLookup g c (.str x) = some (getByIdOrName g c.node x) := by
  unfold Gen.h5GetByIdOrName getByIdOrName
  simp only [DT.evalLookup, testVal, retLookup]
  cases hu : isUuid x
  · simp
  · cases h : getById g c.node x <;> simp [h]

/-- `H5Group.get_by_name` -/
theorem h5GetByName_eq (g : Graph) (c : Cont) (x : String) :
    Gen.h5GetByName.evalLookup g c (.str x) = some (getByName g c.node x) := by
  unfold Gen.h5GetByName getByName cLinks
  simp only [DT.evalLookup, testVal, retLookup]
  cases hn : c.node with
  | none => simp
  | some k =>
    simp only [Option.isSome_some, cond_true]
    cases hf : (g.links k).find? (fun l => l.1 == x) with
    | none =>
      have : (g.links k).any (fun l => l.1 == x) = false := by
        rw [Bool.eq_false_iff]; intro ht
        obtain ⟨l, hl, e⟩ := List.any_eq_true.mp ht
        exact absurd hf (by
          intro hnone
          have := List.find?_eq_none.mp hnone l hl
          exact this e)
      simp [this]
    | some l =>
      have : (g.links k).any (fun l => l.1 == x) = true :=
        List.any_eq_true.mpr ⟨l, List.mem_of_find?_eq_some hf, by have := List.find?_some hf; exact this⟩
      simp [this]

/-- `H5Group.get_by_id` -/
theorem h5GetById_eq (g : Graph) (c : Cont) (x : String) :
    Gen.h5GetById.evalLookup g c (.str x) = some (getById g c.node x) := by
  unfold Gen.h5GetById getById
  simp only [DT.evalLookup, testVal, retLookup]
  cases hn : c.node with
  | none => simp [cLinks]
  | some k =>
    simp only [Option.isSome_some, cond_true]
    cases hf : (cLinks g (some k)).find? (fun l => g.entityId l.2 == some x) with
    | none =>
      have : (cLinks g (some k)).any (fun l => g.entityId l.2 == some x) = false := by
        rw [Bool.eq_false_iff]; intro ht
        obtain ⟨l, hl, e⟩ := List.any_eq_true.mp ht
        exact absurd hf (by
          intro hnone
          have := List.find?_eq_none.mp hnone l hl
          exact this e)
      simp [this]
    | some l =>
      have : (cLinks g (some k)).any (fun l => g.entityId l.2 == some x) = true :=
        List.any_eq_true.mpr ⟨l, List.mem_of_find?_eq_some hf, by have := List.find?_some hf; exact this⟩
      simp [this]

/-- `H5Group.__contains__`: a link of that name in the (existing) group -/
theorem h5Contains_eq (g : Graph) (c : Cont) (x : String) :
    Gen.h5Contains.evalHas g c (.str x) = some (.ok (getByName g c.node x).isSome) := by
  unfold Gen.h5Contains getByName cLinks
  simp only [DT.evalHas, testVal, retHas]
  cases hn : c.node with
  | none => simp
  | some k =>
    simp only [Option.isNone_some, cond_false]
    cases hf : (g.links k).find? (fun l => l.1 == x) with
    | none =>
      have : (g.links k).any (fun l => l.1 == x) = false := by
        rw [Bool.eq_false_iff]; intro ht
        obtain ⟨l, hl, e⟩ := List.any_eq_true.mp ht
        exact absurd hf (by
          intro hnone
          have := List.find?_eq_none.mp hnone l hl
          exact this e)
      simp [this]
    | some l =>
      have : (g.links k).any (fun l => l.1 == x) = true :=
        List.any_eq_true.mpr ⟨l, List.mem_of_find?_eq_some hf, by have := List.find?_some hf; exact this⟩
      simp [this]

/-- `Container.__contains__` on owning containers, keys: entity objects and str -/
theorem containerContains_eq (g : Graph) (c : Cont) (hpl : isPlainLike c.info.flavour = true) (key : Key)
    (hkey : ∀ i, key ≠ .pos i) :
    Gen.containerContains.evalHas g c key = some (contHas g c key) := by
  have hfl := plainLike_cases hpl
  unfold Gen.containerContains contHas
  cases key with
  | pos i => exact absurd rfl (hkey i)
  | ent k =>
    simp only [DT.evalHas, testVal, retHas, cond_true]
    cases hk : (kindOf g k == c.info.item)
    · have hk2 : (kindOf g k != c.info.item) = true := by simp [bne, hk]
      simp [hk2]
    · have hk2 : (kindOf g k != c.info.item) = false := by simp [bne, hk]
      simp only [hk2, cond_true, Bool.false_eq_true, ↓reduceIte]
      rcases hfl with h | h | h <;> rw [h] <;>
        (cases hn : g.getAttr k "name" with
         | none => simp
         | some nm => cases hb : getByName g c.node nm <;> simp [hb])
  | str x =>
    simp only [DT.evalHas, testVal, retHas, cond_false]
    rcases hfl with h | h | h <;> simp only [h] <;> unfold getByIdOrName <;>
      (cases hu : isUuid x
       · simp
       · cases h' : getById g c.node x <;> simp [h'])

/-- `LinkContainer.__contains__` on link lists -/
theorem linkContains_eq (g : Graph) (c : Cont) (hfl : c.info.flavour = .link ∨ c.info.flavour = .sourceLink)
    (key : Key) (hkey : ∀ i, key ≠ .pos i) :
    Gen.linkContains.evalHas g c key = some (contHas g c key) := by
  unfold Gen.linkContains contHas
  cases key with
  | pos i => exact absurd rfl (hkey i)
  | ent k =>
    simp only [DT.evalHas, testVal, retHas, cond_true]
    cases hk : (kindOf g k == c.info.item)
    · have hk2 : (kindOf g k != c.info.item) = true := by simp [bne, hk]
      simp [hk2]
    · have hk2 : (kindOf g k != c.info.item) = false := by simp [bne, hk]
      simp only [hk2, cond_true, Bool.false_eq_true, ↓reduceIte]
      rcases hfl with h | h <;> rw [h] <;> (cases hn : g.entityId k <;> simp)
  | str x =>
    simp only [DT.evalHas, testVal, retHas, cond_false]
    rcases hfl with h | h <;> rw [h] <;> simp only <;>
      (cases hu : isUuid x <;> cases hb : (getByName g c.node x).isSome <;>
        cases hs : (scanByNameAttr g c.node x).isSome <;> simp)

/-- `Container.__getitem__` on owning containers, keys: int and str -/
theorem containerGetitem_eq (g : Graph) (c : Cont) (hpl : isPlainLike c.info.flavour = true) (key : Key)
    (hkey : ∀ k, key ≠ .ent k) :
    Gen.containerGetitem.evalGet g c key = some (contGet g c key) := by
  have hfl := plainLike_cases hpl
  unfold Gen.containerGetitem
  cases key with
  | ent k => exact absurd rfl (hkey k)
  | pos i => simp [DT.evalGet, testVal, retGet]
  | str x =>
    simp only [DT.evalGet, testVal, retGet, cond_false]
    unfold contGet orKeyError
    rcases hfl with h | h | h <;> simp only [h] <;> (cases getByIdOrName g c.node x <;> rfl)

/-- `LinkContainer.__getitem__` on link lists -/
theorem linkGetitem_eq (g : Graph) (c : Cont) (hfl : c.info.flavour = .link ∨ c.info.flavour = .sourceLink)
    (key : Key) (hkey : ∀ k, key ≠ .ent k) :
    Gen.linkGetitem.evalGet g c key = some (contGet g c key) := by
  unfold Gen.linkGetitem
  cases key with
  | ent k => exact absurd rfl (hkey k)
  | pos i => simp [DT.evalGet, testVal, retGet]
  | str x =>
    simp only [DT.evalGet, testVal, retGet, cond_false]
    unfold contGet orKeyError
    rcases hfl with h | h <;> simp only [h] <;>
      (cases hu : isUuid x <;> cases hb : getByName g c.node x <;>
        cases hs : scanByNameAttr g c.node x <;> simp)

end Nix.Store.Lemmas
