import NixModel.Lemmas.C13Ids

/-!
# C13 — the id texts of a history are fit (`IdsOK`) when the caller's ids are

`textsOf given gen` is the assignment the driver of C13 runs with: the texts `Section.create_new` stored for the ids
the caller supplied (`given`, by key), a library-made text `gen k` for every other entity.  It is fit for a forest
(`IdsOK`) as soon as

* the library-made texts of the entities of the forest are pairwise different ids (uuid4 freshness, DESIGN section 8;
  asked for the keys of the forest only - there are finitely many uuids),
* the supplied texts are ids (`Section.create_new` stores nothing else: `storedId`), pairwise different as texts and
  different from every library-made text,
* no node is named like one of these texts (name / id dispatch belongs to C03).

Nothing is asked about the *spelling* of the supplied texts.
-/

namespace Nix.Tree.Ids
open Nix.Tree Nix.Py

structure SuppliedOK (given : List (Nat × String)) (gen : Nat → String) (rs : List Node) : Prop where
  /-- the entities of the forest whose id the library made (`lookup = none`) have pairwise different ids … -/
  genInj : ∀ a ∈ keysL rs, given.lookup a = none → ∀ b ∈ keysL rs, given.lookup b = none → gen a = gen b → a = b
  /-- … that are ids -/
  genUuid : ∀ a ∈ keysL rs, given.lookup a = none → uuidAccepts (gen a) = true
  givenUuid : ∀ k t, (k, t) ∈ given → uuidAccepts t = true
  givenNodup : (given.map Prod.snd).Nodup
  sep : ∀ k t, (k, t) ∈ given → ∀ a ∈ keysL rs, given.lookup a = none → t ≠ gen a
  names : ∀ n ∈ nodesL rs,
    (∀ a ∈ keysL rs, given.lookup a = none → n.name ≠ gen a) ∧ ∀ k t, (k, t) ∈ given → n.name ≠ t

theorem lookup_mem {given : List (Nat × String)} {k : Nat} {t : String} (h : given.lookup k = some t) :
    (k, t) ∈ given := by
  induction given with
  | nil => simp at h
  | cons p ps ih =>
    obtain ⟨a, s⟩ := p
    by_cases e : k = a
    · subst e
      simp [List.lookup] at h
      simp [h]
    · have : (k == a) = false := by simpa using e
      simp only [List.lookup, this] at h
      exact List.mem_cons_of_mem _ (ih h)

theorem snd_inj_of_nodup {given : List (Nat × String)} (h : (given.map Prod.snd).Nodup) {a b : Nat} {t : String}
    (ha : (a, t) ∈ given) (hb : (b, t) ∈ given) : a = b := by
  induction given with
  | nil => simp at ha
  | cons p ps ih =>
    simp only [List.map_cons, List.nodup_cons] at h
    rcases List.mem_cons.mp ha with ha | ha <;> rcases List.mem_cons.mp hb with hb | hb
    · rw [← ha] at hb; exact (Prod.mk.inj hb).1.symm
    · exact absurd (List.mem_map.mpr ⟨(b, t), hb, by rw [← ha]⟩) h.1
    · exact absurd (List.mem_map.mpr ⟨(a, t), ha, by rw [← hb]⟩) h.1
    · exact ih h.2 ha hb

attribute [local irreducible] Nix.Py.uuidAccepts in
/-- the texts of a history are fit for its forest when the caller's ids are (see the head of the file) -/
theorem idsOK_of_supplied {given : List (Nat × String)} {gen : Nat → String} {rs : List Node}
    (h : SuppliedOK given gen rs) : IdsOK (textsOf given gen) rs := by
  have cases_text : ∀ a, (∃ t, (a, t) ∈ given ∧ textsOf given gen a = t) ∨
      (given.lookup a = none ∧ textsOf given gen a = gen a) := by
    intro a
    unfold textsOf
    cases hl : given.lookup a with
    | none => exact .inr ⟨rfl, rfl⟩
    | some t => exact .inl ⟨t, lookup_mem hl, rfl⟩
  refine ⟨?_, ?_, ?_⟩
  · intro a ha b hb hab
    rcases cases_text a with ⟨ta, hma, hta⟩ | ⟨hla, hta⟩ <;> rcases cases_text b with ⟨tb, hmb, htb⟩ | ⟨hlb, htb⟩
    · have e : ta = tb := hta.symm.trans (hab.trans htb)
      exact snd_inj_of_nodup h.givenNodup hma (e ▸ hmb)
    · exact absurd (hta.symm.trans (hab.trans htb)) (h.sep _ _ hma b hb hlb)
    · exact absurd (htb.symm.trans (hab.symm.trans hta)) (h.sep _ _ hmb a ha hla)
    · exact h.genInj a ha hla b hb hlb (hta.symm.trans (hab.trans htb))
  · intro a ha
    rcases cases_text a with ⟨ta, hma, hta⟩ | ⟨hla, hta⟩
    · have := h.givenUuid _ _ hma
      rw [hta]; exact this
    · have := h.genUuid a ha hla
      rw [hta]; exact this
  · intro n hn a ha
    rcases cases_text a with ⟨ta, hma, hta⟩ | ⟨hla, hta⟩
    · exact fun e => (h.names n hn).2 _ _ hma (e.trans hta)
    · exact fun e => (h.names n hn).1 a ha hla (e.trans hta)

end Nix.Tree.Ids
