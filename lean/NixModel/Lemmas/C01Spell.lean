import NixModel.Lemmas.C01Typed
import NixModel.Pure.NdRun

/-!
# Lemmas about the spelling of the element type (C01)
-/
namespace Nix.Nd.Lemmas
open Nix Nix.Nd Nix.NdGen Nix.Gen.DataSet Nix.NdSpell Nix.Gen.DataSetDType

theorem memberType_String : memberType dataTypeMembers "String" = some .string := by decide

/-- a spelling NumPy does not read as text is not equal to `DataType.String` -/
theorem pyEq_String_false {s : Spelling} {t : DType} {sw : Bool}
    (hm : meaning dataTypeMembers s = some ⟨t, sw⟩) (ht : t ≠ .string) :
    pyEqMember dataTypeMembers s "String" = false := by
  unfold pyEqMember
  rw [memberType_String]
  cases s with
  | py p => rfl
  | typeStr o x => rfl
  | npType n =>
    simp only [meaning] at hm
    cases hn : npScalarType n with
    | none => simp [hn] at hm
    | some u =>
      simp only [hn, Option.map_some, Option.some.injEq, NpDType.mk.injEq] at hm
      simp only [decide_eq_false_iff_not]
      intro h; rw [hn] at h; exact ht (hm.1 ▸ Option.some.inj h)
  | nix k =>
    simp only [meaning] at hm
    cases hn : memberType dataTypeMembers k with
    | none => simp [hn] at hm
    | some u =>
      simp only [hn, Option.map_some, Option.some.injEq, NpDType.mk.injEq] at hm
      simp only [decide_eq_false_iff_not]
      intro h; rw [hn] at h; exact ht (hm.1 ▸ Option.some.inj h)
  | dtypeObj o d =>
    simp only [meaning] at hm
    simp only [hm, decide_eq_false_iff_not, Option.some.injEq, NpDType.mk.injEq, not_and]
    intro h; exact absurd h ht

/-- a spelling equal to `DataType.String` is one NumPy reads as text -/
theorem meaning_of_pyEq_String {s : Spelling} (h : pyEqMember dataTypeMembers s "String" = true) :
    ∃ sw, meaning dataTypeMembers s = some ⟨.string, sw⟩ := by
  unfold pyEqMember at h
  rw [memberType_String] at h
  cases s with
  | py p => cases h
  | typeStr o x => cases h
  | npType n =>
    simp only [decide_eq_true_eq] at h
    exact ⟨false, by simp [meaning, h]⟩
  | nix k =>
    simp only [decide_eq_true_eq] at h
    exact ⟨false, by simp [meaning, h]⟩
  | dtypeObj o d =>
    simp only [decide_eq_true_eq] at h
    exact ⟨false, by simp [meaning, h]⟩

/-- what h5py is asked for: the element type NumPy means; for text, nixio's text type iff the spelling equals
`DataType.String`, else NumPy's fixed-width unicode -/
theorem spelledArg_eq (s : Spelling) :
    spelledArg s =
      match meaning dataTypeMembers s with
      | none => none
      | some ⟨.string, _⟩ => if pyEqMember dataTypeMembers s "String" then some (.nix .string) else some .numpyText
      | some ⟨t, _⟩ => some (.nix t) := by
  unfold spelledArg h5InitDtype
  simp only [DtypeVal.pyEq]
  cases hm : meaning dataTypeMembers s with
  | none =>
    have : pyEqMember dataTypeMembers s "String" = false := by
      cases hp : pyEqMember dataTypeMembers s "String" with
      | false => rfl
      | true => obtain ⟨sw, h⟩ := meaning_of_pyEq_String hp; rw [hm] at h; cases h
    simp [this, h5pyDtype, hm]
  | some m =>
    obtain ⟨t, sw⟩ := m
    by_cases ht : t = .string
    · subst ht
      by_cases hp : pyEqMember dataTypeMembers s "String" = true
      · simp [hp, h5pyDtype]
      · simp [hp, h5pyDtype, hm]
    · have hp := pyEq_String_false hm ht
      simp only [hp, Bool.false_eq_true, if_false, h5pyDtype, hm]

theorem writeData_none_dtype {A B : DArr} {d : Arr} (h : writeData A d .none = .ok B) : B.dtype = A.dtype := by
  have hh := writeData_ok h
  unfold h5SetItem at hh
  split at hh
  · cases hh
  · split at hh
    · cases hh
    · split at hh
      · cases hh
      · cases hh; rfl

/-- an array `createS` creates has the element type it was asked for (the data's when none was given) -/
theorem createS_dtype {dtype : Option DType} {shape : Option (List Nat)} {data : Option Arr} {compr : Bool} {A : DArr}
    (h : createS dtype shape data compr = .ok A) :
    A.dtype = chooseDType dtype (match data with | some d => d.dt | none => .float64) := by
  unfold createS at h
  cases data with
  | none =>
    cases shape with
    | none => cases h
    | some sh => simp only [Except.ok.injEq] at h; subst h; rfl
  | some d0 =>
    simp only at h
    split at h
    · cases h
    · split at h
      · cases h
      · exact writeData_none_dtype h

/-- with NumPy's fixed-width unicode as element type nothing is created -/
theorem create_numpyText_refused (shape : Option (List Int)) (data : Option Arr) (compr : Bool) (A : DArr) :
    (createRules (some .numpyText) shape data).bind (createFrom compr) ≠ .ok A := by
  unfold createRules
  intro h
  cases data with
  | none =>
    cases shape with
    | none => simp [Except.bind] at h
    | some sh => simp [Except.bind, createFrom] at h
  | some d =>
    cases shape with
    | none => simp [Except.bind, createFrom] at h
    | some sh =>
      simp only [Option.isNone_some, Bool.false_eq_true, if_false, Bool.not_false, if_true] at h
      split at h
      · simp [Except.bind] at h
      · simp [Except.bind, createFrom] at h

/-- what h5py is asked for when the dtype argument is what another array reports as its element type
(`data_type`, `dtype`): that array's element type -/
theorem reported_arg (t : DType) :
    h5pyDtype dataTypeMembers (h5InitDtype (dsDataType (storedDtype t))) = some (.nix t) ∧
    h5pyDtype dataTypeMembers (h5InitDtype (daDtype (storedDtype t))) = some (.nix t) := by
  cases t <;> exact ⟨by decide, by decide⟩

theorem createWith_reported (t : DType) (shape : Option (List Nat)) (data : Option Arr) (compr : Bool) :
    createWith (dsDataType (storedDtype t)) shape data compr = some (createS (some t) shape data compr) ∧
    createWith (daDtype (storedDtype t)) shape data compr = some (createS (some t) shape data compr) := by
  obtain ⟨h1, h2⟩ := reported_arg t
  constructor
  · simp only [createWith, h1, Option.map_some]
    exact congrArg some (createRules_eq (some t) shape data compr)
  · simp only [createWith, h2, Option.map_some]
    exact congrArg some (createRules_eq (some t) shape data compr)

end Nix.Nd.Lemmas
