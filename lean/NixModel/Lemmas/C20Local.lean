import NixModel.Lemmas.C20Frame

/-!
# C20 — updates local to one side of the graph (for histories)

A *side* is a set `S` of node keys that is closed under links and contains every key not yet handed
out (so whatever is created later belongs to it). After a copy there are two natural sides: the
duplicates (keys at or above the node supply of the destination when the copy started), and the
source sub-graph (what is reachable from the source, when the destination container lies outside
it). `LocalUpd S M g g'` says that `g'` arises from `g` by changes on the side only:

* every node outside `S` keeps its attributes; its link list can only lose entries, and never one
  that leads to a node outside `S` (only the file-wide `delete_all` of objects of the side removes
  anything at all: the links that lead to the deleted objects);
* links added to nodes of `S` lead to nodes of `S`; ids given to nodes of `S` come from the id supply
  at or above `M`.

The relation is reflexive and transitive, holds for the primitive graph operations addressed to
nodes of `S` — including `Graph.deleteObjs` of nodes of `S` (`lu_deleteObjs`: deletion is by object
since the repair `fix: deleting an entity also deleted every same-id copy file-wide`, so no hypothesis
about ids is involved) — and carries the invariant `SideInv` (the side is link-closed and owns the
future keys). `IdInv` (ids of the side and of the rest are disjoint: the rest's ids lie in `A`, the
side's and all future ones outside) is carried too (`LocalUpd.idInv`), but no step needs it any more:
it is a fact about the id policy (regenerated ids stay apart through every history), not a
precondition of independence. `C20Hist.lean` / `C20HistDel.lean` show `LocalUpd` for every API call
addressed to the side, and for histories.
-/
namespace Nix.Store.C20
open Nix.Store Nix.Store.Graph Nix.Store.Lemmas

structure LocalUpd (S : Nat → Prop) (M : Nat) (g g' : Graph) : Prop where
  attrs : ∀ x, ¬ S x → ∀ a, g'.getAttr x a = g.getAttr x a
  /-- the link list of a node outside the side is filtered, and no link to a node outside the side is dropped -/
  filt : ∀ x, ¬ S x → ∃ p : String × Nat → Bool, g'.links x = (g.links x).filter p ∧ ∀ l, ¬ S l.2 → p l = true
  nk : g.nextKey ≤ g'.nextKey
  ni : g.nextId ≤ g'.nextId
  links : ∀ k, S k → ∀ l ∈ g'.links k, l ∈ g.links k ∨ S l.2
  ids : ∀ k, S k → ∀ i, g'.entityId k = some i →
    g.entityId k = some i ∨ ∃ j, M ≤ j ∧ j < g'.nextId ∧ i = idStr j

/-- the side is closed under links and owns every key not handed out yet; the id supply has not gone
back below `M` -/
structure SideInv (S : Nat → Prop) (M : Nat) (g : Graph) : Prop where
  fresh : ∀ k, g.nextKey ≤ k → S k
  ni : M ≤ g.nextId
  closed : ∀ k, S k → ∀ l ∈ g.links k, S l.2

/-- ids outside the side are `idStr j` with `A j`; ids of the side, and every id at or above `M`, are not -/
structure IdInv (S : Nat → Prop) (M : Nat) (A : Nat → Prop) (g : Graph) : Prop where
  future : ∀ j, M ≤ j → ¬ A j
  sideIds : ∀ k, S k → ∀ i, g.entityId k = some i → ∃ j, i = idStr j ∧ ¬ A j
  restIds : ∀ k, ¬ S k → ∀ i, g.entityId k = some i → ∃ j, i = idStr j ∧ A j

variable {S : Nat → Prop} {M : Nat} {A : Nat → Prop}

theorem LocalUpd.refl (g : Graph) : LocalUpd S M g g :=
  ⟨fun _ _ _ => rfl, fun _ _ => ⟨fun _ => true, (List.filter_eq_self.mpr (fun _ _ => rfl)).symm, fun _ _ => rfl⟩, Nat.le_refl _, Nat.le_refl _,
   fun _ _ _ h => .inl h, fun _ _ _ h => .inl h⟩

theorem LocalUpd.trans {g g1 g2 : Graph} (h1 : LocalUpd S M g g1) (h2 : LocalUpd S M g1 g2) :
    LocalUpd S M g g2 where
  attrs x hx a := (h2.attrs x hx a).trans (h1.attrs x hx a)
  filt x hx := by
    obtain ⟨p1, e1, hp1⟩ := h1.filt x hx
    obtain ⟨p2, e2, hp2⟩ := h2.filt x hx
    refine ⟨fun l => p1 l && p2 l, ?_, fun l hl => by simp [hp1 l hl, hp2 l hl]⟩
    rw [e2, e1, List.filter_filter]
    congr 1
    funext l
    exact Bool.and_comm _ _
  nk := Nat.le_trans h1.nk h2.nk
  ni := Nat.le_trans h1.ni h2.ni
  links k hk l hl := by
    rcases h2.links k hk l hl with h | h
    · exact h1.links k hk l h
    · exact .inr h
  ids k hk i hi := by
    rcases h2.ids k hk i hi with h | h
    · rcases h1.ids k hk i h with h' | ⟨j, hj1, hj2, hj3⟩
      · exact .inl h'
      · exact .inr ⟨j, hj1, Nat.lt_of_lt_of_le hj2 h2.ni, hj3⟩
    · exact .inr h

theorem LocalUpd.inv {g g' : Graph} (h : LocalUpd S M g g') (hI : SideInv S M g) : SideInv S M g' where
  fresh k hk := hI.fresh k (Nat.le_trans h.nk hk)
  ni := Nat.le_trans hI.ni h.ni
  closed k hk l hl := by
    rcases h.links k hk l hl with h' | h'
    · exact hI.closed k hk l h'
    · exact h'

theorem LocalUpd.idInv {g g' : Graph} (h : LocalUpd S M g g') (hD : IdInv S M A g) : IdInv S M A g' where
  future := hD.future
  sideIds k hk i hi := by
    rcases h.ids k hk i hi with h' | ⟨j, hj1, _, hj3⟩
    · exact hD.sideIds k hk i h'
    · exact ⟨j, hj3, hD.future j hj1⟩
  restIds k hk i hi := by
    rw [entityId_eq, h.attrs k hk] at hi
    exact hD.restIds k hk i hi

theorem LocalUpd.sub {g g' : Graph} (h : LocalUpd S M g g') (x : Nat) (hx : ¬ S x) :
    (g'.links x).Sublist (g.links x) := by
  obtain ⟨p, e, _⟩ := h.filt x hx
  rw [e]; exact List.filter_sublist

theorem LocalUpd.keep {g g' : Graph} (h : LocalUpd S M g g') (x : Nat) (hx : ¬ S x) (l : String × Nat)
    (hl : l ∈ g.links x) (hl2 : ¬ S l.2) : l ∈ g'.links x := by
  obtain ⟨p, e, hp⟩ := h.filt x hx
  rw [e, List.mem_filter]; exact ⟨hl, hp l hl2⟩

/-- a node outside the side all of whose links lead outside the side is exactly as it was -/
theorem LocalUpd.same {g g' : Graph} (h : LocalUpd S M g g') {x : Nat} (hx : ¬ S x)
    (hall : ∀ l ∈ g.links x, ¬ S l.2) : SameNode g g' x := by
  refine ⟨h.attrs x hx, ?_⟩
  obtain ⟨p, e, hp⟩ := h.filt x hx
  rw [e, List.filter_eq_self]
  intro l hl
  exact hp l (hall l hl)

/-- a node outside the side differs from a node of the side -/
theorem ne_of_side {x k : Nat} (hx : ¬ S x) (hk : S k) : x ≠ k := fun e => hx (e ▸ hk)

/-! ## primitives addressed to nodes of the side -/

theorem lu_setAttr (g : Graph) {k : Nat} (a : String) (v : Option String) (hk : S k) (ha : a ≠ "entity_id") :
    LocalUpd S M g (g.setAttr k a v) where
  attrs x hx a' := getAttr_setAttr_ne g a v (ne_of_side hx hk) a'
  filt x _ := ⟨fun _ => true, by rw [links_setAttr]; exact (List.filter_eq_self.mpr (fun _ _ => rfl)).symm, fun _ _ => rfl⟩
  nk := Nat.le_refl _
  ni := Nat.le_refl _
  links k' _ l hl := by rw [links_setAttr] at hl; exact .inl hl
  ids k' _ i hi := by
    rw [entityId_eq, getAttr_setAttr_attr_ne g k k' v (Ne.symm ha)] at hi
    exact .inl hi

/-- giving a node of the side an id drawn from the supply at or above `M` -/
theorem lu_setId (g : Graph) {k j : Nat} (hk : S k) (hj1 : M ≤ j) (hj2 : j < g.nextId) :
    LocalUpd S M g (g.setAttr k "entity_id" (some (idStr j))) where
  attrs x hx a' := getAttr_setAttr_ne g _ _ (ne_of_side hx hk) a'
  filt x _ := ⟨fun _ => true, by rw [links_setAttr]; exact (List.filter_eq_self.mpr (fun _ _ => rfl)).symm, fun _ _ => rfl⟩
  nk := Nat.le_refl _
  ni := Nat.le_refl _
  links k' _ l hl := by rw [links_setAttr] at hl; exact .inl hl
  ids k' _ i hi := by
    by_cases hkk : k' = k
    · subst hkk
      rw [entityId_eq, getAttr_setAttr, if_pos ⟨rfl, rfl⟩] at hi
      split at hi
      · simp only [Option.some.injEq] at hi
        exact .inr ⟨j, hj1, by rw [nextId_setAttr]; exact hj2, hi.symm⟩
      · cases hi
    · rw [entityId_eq, getAttr_setAttr_ne g _ _ hkk] at hi
      exact .inl hi

theorem lu_addLink (g : Graph) {p t : Nat} (n : String) (hp : S p) (ht : S t) :
    LocalUpd S M g (g.addLink p n t) where
  attrs x _ a := getAttr_addLink g p n t x a
  filt x hx := ⟨fun _ => true, by rw [links_addLink_ne g n t (ne_of_side hx hp)]; exact (List.filter_eq_self.mpr (fun _ _ => rfl)).symm, fun _ _ => rfl⟩
  nk := Nat.le_refl _
  ni := Nat.le_refl _
  links k _ l hl := by
    rcases mem_links_addLink hl with h | ⟨_, h⟩
    · exact .inl h
    · rw [h]; exact .inr ht
  ids k _ i hi := by rw [entityId_eq, getAttr_addLink] at hi; exact .inl hi

theorem lu_delLink (g : Graph) {p : Nat} (n : String) (hp : S p) : LocalUpd S M g (g.delLink p n) where
  attrs x _ a := getAttr_delLink g p n x a
  filt x hx := ⟨fun _ => true, by rw [links_delLink_ne g n (ne_of_side hx hp)]; exact (List.filter_eq_self.mpr (fun _ _ => rfl)).symm, fun _ _ => rfl⟩
  nk := Nat.le_refl _
  ni := Nat.le_refl _
  links k _ l hl := .inl ((links_delLink_sublist g p k n).subset hl)
  ids k _ i hi := by rw [entityId_eq, getAttr_delLink] at hi; exact .inl hi

theorem lu_newNode (g : Graph) (kd : NKind) : LocalUpd S M g (g.newNode kd).1 where
  attrs x _ a := getAttr_newNode g kd x a
  filt x _ := ⟨fun _ => true, by rw [links_newNode]; exact (List.filter_eq_self.mpr (fun _ _ => rfl)).symm, fun _ _ => rfl⟩
  nk := by rw [nextKey_newNode]; omega
  ni := Nat.le_refl _
  links k _ l hl := by rw [links_newNode] at hl; exact .inl hl
  ids k _ i hi := by rw [entityId_eq, getAttr_newNode] at hi; exact .inl hi

theorem lu_freshId (g : Graph) : LocalUpd S M g (g.freshId).1 where
  attrs _ _ _ := rfl
  filt _ _ := ⟨fun _ => true, (List.filter_eq_self.mpr (fun _ _ => rfl)).symm, fun _ _ => rfl⟩
  nk := Nat.le_refl _
  ni := by rw [nextId_freshId]; omega
  links _ _ _ hl := .inl hl
  ids _ _ _ hi := .inl hi

/-- the next key belongs to the side -/
theorem SideInv.next {g : Graph} (hI : SideInv S M g) : S g.nextKey := hI.fresh _ (Nat.le_refl _)

/-- the group `ensureGroup` returns lies on the side -/
theorem ensureGroup_ge {g : Graph} (hI : SideInv S M g) {p : Nat} (n : String) (hp : S p) :
    S (g.ensureGroup p n).2 := by
  rcases ensureGroup_snd_cases g p n with h | h
  · exact hI.closed p hp (n, _) (child?_some_mem h)
  · rw [h]; exact hI.next

theorem lu_ensureGroup {g : Graph} (hI : SideInv S M g) {p : Nat} (n : String) (hp : S p) :
    LocalUpd S M g (g.ensureGroup p n).1 := by
  cases hc : g.child? p n with
  | some c => rw [ensureGroup_of_some hc]; exact LocalUpd.refl g
  | none =>
    rw [ensureGroup_of_none hc]
    exact (lu_newNode g .group).trans (lu_addLink _ n hp hI.next)

theorem lu_createLinkIn (g : Graph) {grp t : Nat} (n : String) (hp : S grp) (ht : S t) :
    LocalUpd S M g (createLinkIn g grp n t) := by
  unfold createLinkIn
  split
  · exact (lu_delLink g n hp).trans (lu_addLink _ n hp ht)
  · exact lu_addLink g n hp ht

/-- `delete_all(objs)` of objects of the side: deletion is by object (node key), so nothing about ids is
needed — the links that go are exactly those that lead to the given nodes, all of them on the side -/
theorem lu_deleteObjs (g : Graph) (ks : List Nat) (hks : ∀ k ∈ ks, S k) : LocalUpd S M g (g.deleteObjs ks) where
  attrs x _ a := getAttr_deleteObjs g ks x a
  filt x _ := by
    refine ⟨keepObj ks, links_deleteObjs g ks x, ?_⟩
    intro l hl2
    unfold keepObj
    have : l.2 ∉ ks := fun h => hl2 (hks _ h)
    simpa using this
  nk := Nat.le_refl _
  ni := Nat.le_refl _
  links k _ l hl := .inl ((links_deleteObjs_sublist g ks k).subset hl)
  ids k _ i hi := by rw [entityId_eq, getAttr_deleteObjs] at hi; exact .inl hi

end Nix.Store.C20
