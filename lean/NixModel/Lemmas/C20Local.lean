import NixModel.Lemmas.C20Frame

/-!
# C20 — updates local to the copy's side of the graph (for histories)

After a copy the nodes with keys `≥ N` (`N` = the node supply of the destination when the copy
started: the duplicates, and everything created later) are closed under links. `LocalUpd N M g g'`
says that `g'` arises from `g` by changes on that side only:

* every node below `N` keeps its attributes; its link list can only lose entries, and never one
  that leads to a node below `N` (only global deletion by id removes anything at all: the link from
  the destination container to a deleted copy);
* links added to nodes `≥ N` lead to nodes `≥ N`; ids given to nodes `≥ N` come from the id supply at
  or above `M`.

The relation is reflexive and transitive, holds for the primitive graph operations addressed to
nodes `≥ N`, and carries the invariants `Inv` (the side is link-closed) and `IdInv` (ids of the two
sides are disjoint). `C20Hist.lean` shows it for every API call addressed to the copy's side.
-/
namespace Nix.Store.C20
open Nix.Store Nix.Store.Graph Nix.Store.Lemmas

structure LocalUpd (N M : Nat) (g g' : Graph) : Prop where
  attrs : ∀ x, x < N → ∀ a, g'.getAttr x a = g.getAttr x a
  sub : ∀ x, x < N → (g'.links x).Sublist (g.links x)
  keep : ∀ x, x < N → ∀ l ∈ g.links x, l.2 < N → l ∈ g'.links x
  nk : g.nextKey ≤ g'.nextKey
  ni : g.nextId ≤ g'.nextId
  links : ∀ k, N ≤ k → ∀ l ∈ g'.links k, l ∈ g.links k ∨ N ≤ l.2
  ids : ∀ k, N ≤ k → ∀ i, g'.entityId k = some i →
    g.entityId k = some i ∨ ∃ j, M ≤ j ∧ j < g'.nextId ∧ i = idStr j

/-- the copy's side is closed under links; the supplies have not gone back -/
structure SideInv (N M : Nat) (g : Graph) : Prop where
  nk : N ≤ g.nextKey
  ni : M ≤ g.nextId
  closed : ∀ k, N ≤ k → ∀ l ∈ g.links k, N ≤ l.2

/-- ids of the copy's side come from the supply at or above `M`, all others from below -/
structure IdInv (N M : Nat) (g : Graph) : Prop where
  newIds : ∀ k, N ≤ k → ∀ i, g.entityId k = some i → ∃ j, M ≤ j ∧ j < g.nextId ∧ i = idStr j
  oldIds : ∀ k, k < N → ∀ i, g.entityId k = some i → ∃ j, j < M ∧ i = idStr j

variable {N M : Nat}

theorem LocalUpd.refl (g : Graph) : LocalUpd N M g g :=
  ⟨fun _ _ _ => rfl, fun _ _ => List.Sublist.refl _, fun _ _ _ h _ => h, Nat.le_refl _, Nat.le_refl _,
   fun _ _ _ h => .inl h, fun _ _ _ h => .inl h⟩

theorem LocalUpd.trans {g g1 g2 : Graph} (h1 : LocalUpd N M g g1) (h2 : LocalUpd N M g1 g2) :
    LocalUpd N M g g2 where
  attrs x hx a := (h2.attrs x hx a).trans (h1.attrs x hx a)
  sub x hx := (h2.sub x hx).trans (h1.sub x hx)
  keep x hx l hl hl2 := h2.keep x hx l (h1.keep x hx l hl hl2) hl2
  nk := Nat.le_trans h1.nk h2.nk
  ni := Nat.le_trans h1.ni h2.ni
  links k hk l hl := by
    rcases h2.links k hk l hl with h | h
    · exact h1.links k hk l h
    · exact .inr h
  ids k hk i hi := by
    rcases h2.ids k hk i hi with h | h
    · rcases h1.ids k hk i h with h' | ⟨j, hj1, hj2, hj3⟩
      · exact .inl h'
      · exact .inr ⟨j, hj1, Nat.lt_of_lt_of_le hj2 h2.ni, hj3⟩
    · exact .inr h

theorem LocalUpd.inv {g g' : Graph} (h : LocalUpd N M g g') (hI : SideInv N M g) : SideInv N M g' where
  nk := Nat.le_trans hI.nk h.nk
  ni := Nat.le_trans hI.ni h.ni
  closed k hk l hl := by
    rcases h.links k hk l hl with h' | h'
    · exact hI.closed k hk l h'
    · exact h'

theorem LocalUpd.idInv {g g' : Graph} (h : LocalUpd N M g g') (hD : IdInv N M g) : IdInv N M g' where
  newIds k hk i hi := by
    rcases h.ids k hk i hi with h' | h'
    · obtain ⟨j, hj1, hj2, hj3⟩ := hD.newIds k hk i h'
      exact ⟨j, hj1, Nat.lt_of_lt_of_le hj2 h.ni, hj3⟩
    · exact h'
  oldIds k hk i hi := by
    rw [entityId_eq, h.attrs k hk] at hi
    exact hD.oldIds k hk i hi

/-! ## primitives addressed to nodes `≥ N` -/

theorem lu_setAttr (g : Graph) {k : Nat} (a : String) (v : Option String) (hk : N ≤ k) (ha : a ≠ "entity_id") :
    LocalUpd N M g (g.setAttr k a v) where
  attrs x hx a' := getAttr_setAttr_ne g a v (by omega) a'
  sub x _ := by rw [links_setAttr]; exact List.Sublist.refl _
  keep x _ l hl _ := by rw [links_setAttr]; exact hl
  nk := Nat.le_refl _
  ni := Nat.le_refl _
  links k' _ l hl := by rw [links_setAttr] at hl; exact .inl hl
  ids k' _ i hi := by
    rw [entityId_eq, getAttr_setAttr_attr_ne g k k' v (Ne.symm ha)] at hi
    exact .inl hi

/-- giving a node of the side an id drawn from the supply at or above `M` -/
theorem lu_setId (g : Graph) {k j : Nat} (hk : N ≤ k) (hj1 : M ≤ j) (hj2 : j < g.nextId) :
    LocalUpd N M g (g.setAttr k "entity_id" (some (idStr j))) where
  attrs x hx a' := getAttr_setAttr_ne g _ _ (by omega) a'
  sub x _ := by rw [links_setAttr]; exact List.Sublist.refl _
  keep x _ l hl _ := by rw [links_setAttr]; exact hl
  nk := Nat.le_refl _
  ni := Nat.le_refl _
  links k' _ l hl := by rw [links_setAttr] at hl; exact .inl hl
  ids k' _ i hi := by
    by_cases hkk : k' = k
    · subst hkk
      rw [entityId_eq, getAttr_setAttr, if_pos ⟨rfl, rfl⟩] at hi
      split at hi
      · simp only [Option.some.injEq] at hi
        exact .inr ⟨j, hj1, by rw [nextId_setAttr]; exact hj2, hi.symm⟩
      · cases hi
    · rw [entityId_eq, getAttr_setAttr_ne g _ _ hkk] at hi
      exact .inl hi

theorem lu_addLink (g : Graph) {p t : Nat} (n : String) (hp : N ≤ p) (ht : N ≤ t) :
    LocalUpd N M g (g.addLink p n t) where
  attrs x _ a := getAttr_addLink g p n t x a
  sub x hx := by rw [links_addLink_ne g n t (by omega)]; exact List.Sublist.refl _
  keep x hx l hl _ := by rw [links_addLink_ne g n t (by omega)]; exact hl
  nk := Nat.le_refl _
  ni := Nat.le_refl _
  links k _ l hl := by
    rcases mem_links_addLink hl with h | ⟨_, h⟩
    · exact .inl h
    · rw [h]; exact .inr ht
  ids k _ i hi := by rw [entityId_eq, getAttr_addLink] at hi; exact .inl hi

theorem lu_delLink (g : Graph) {p : Nat} (n : String) (hp : N ≤ p) : LocalUpd N M g (g.delLink p n) where
  attrs x _ a := getAttr_delLink g p n x a
  sub x hx := by rw [links_delLink_ne g n (by omega)]; exact List.Sublist.refl _
  keep x hx l hl _ := by rw [links_delLink_ne g n (by omega)]; exact hl
  nk := Nat.le_refl _
  ni := Nat.le_refl _
  links k _ l hl := .inl ((links_delLink_sublist g p k n).subset hl)
  ids k _ i hi := by rw [entityId_eq, getAttr_delLink] at hi; exact .inl hi

theorem lu_newNode (g : Graph) (kd : NKind) : LocalUpd N M g (g.newNode kd).1 where
  attrs x _ a := getAttr_newNode g kd x a
  sub x _ := by rw [links_newNode]; exact List.Sublist.refl _
  keep x _ l hl _ := by rw [links_newNode]; exact hl
  nk := by rw [nextKey_newNode]; omega
  ni := Nat.le_refl _
  links k _ l hl := by rw [links_newNode] at hl; exact .inl hl
  ids k _ i hi := by rw [entityId_eq, getAttr_newNode] at hi; exact .inl hi

theorem lu_freshId (g : Graph) : LocalUpd N M g (g.freshId).1 where
  attrs _ _ _ := rfl
  sub _ _ := List.Sublist.refl _
  keep _ _ _ hl _ := hl
  nk := Nat.le_refl _
  ni := by rw [nextId_freshId]; omega
  links _ _ _ hl := .inl hl
  ids _ _ _ hi := .inl hi

/-- the group `ensureGroup` returns lies on the side -/
theorem ensureGroup_ge {g : Graph} (hI : SideInv N M g) {p : Nat} (n : String) (hp : N ≤ p) :
    N ≤ (g.ensureGroup p n).2 := by
  rcases ensureGroup_snd_cases g p n with h | h
  · exact hI.closed p hp (n, _) (child?_some_mem h)
  · rw [h]; exact hI.nk

theorem lu_ensureGroup {g : Graph} (hI : SideInv N M g) {p : Nat} (n : String) (hp : N ≤ p) :
    LocalUpd N M g (g.ensureGroup p n).1 := by
  cases hc : g.child? p n with
  | some c => rw [ensureGroup_of_some hc]; exact LocalUpd.refl g
  | none =>
    rw [ensureGroup_of_none hc]
    exact (lu_newNode g .group).trans (lu_addLink _ n hp hI.nk)

theorem lu_createLinkIn (g : Graph) {grp t : Nat} (n : String) (hp : N ≤ grp) (ht : N ≤ t) :
    LocalUpd N M g (createLinkIn g grp n t) := by
  unfold createLinkIn
  split
  · exact (lu_delLink g n hp).trans (lu_addLink _ n hp ht)
  · exact lu_addLink g n hp ht

/-- global deletion of ids that no node below `N` carries -/
theorem lu_deleteAll (g : Graph) (ids : List String)
    (hno : ∀ x, x < N → ∀ i, g.entityId x = some i → i ∉ ids) : LocalUpd N M g (g.deleteAll ids) where
  attrs x _ a := getAttr_deleteAll g ids x a
  sub x _ := links_deleteAll_sublist g ids x
  keep x _ l hl hl2 := by
    rw [links_deleteAll, List.mem_filter]
    refine ⟨hl, ?_⟩
    unfold keepLink
    cases hi : g.entityId l.2 with
    | none => rfl
    | some i => simpa using hno l.2 hl2 i hi
  nk := Nat.le_refl _
  ni := Nat.le_refl _
  links k _ l hl := .inl ((links_deleteAll_sublist g ids k).subset hl)
  ids k _ i hi := by rw [entityId_eq, getAttr_deleteAll] at hi; exact .inl hi

end Nix.Store.C20
