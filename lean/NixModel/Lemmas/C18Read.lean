import NixModel.Pure.UpgradeRead
import NixModel.Pure.UpgradeOpen
import NixModel.Lemmas.C18Stale

/-! the version-switched reader of property values before and after the upgrade -/
namespace Nix.Upgrade.Lemmas
open Nix.Upgrade

theorem readValues_old_below {thr ver : List Nat} (h : ver < thr) (o : OldProp) :
    readValues thr ver (.old o) = .values (o.rows.map (·.value)) := by
  simp [readValues, h]

theorem readValues_new_from {thr ver : List Nat} (h : ¬ ver < thr) (n : NewProp) :
    readValues thr ver (.new n) = .values n.values := by
  simp [readValues, h]

theorem readValues_new_below {thr ver : List Nat} (h : ver < thr) (n : NewProp) (hv : n.values ≠ []) :
    readValues thr ver (.new n) = .raises := by
  cases hn : n.values with
  | nil => exact absurd hn hv
  | cons v vs => simp [readValues, h, hn]

/-- the version after a successful upgrade of an old file is the library's -/
theorem upgrade_version {lib : List Nat} {r : Nat} {f : File} (hold : upToDate lib f = false)
    (hok : (upgrade lib r f).2 = none) : (upgrade lib r f).1.version = lib := by
  unfold upgrade at hok ⊢
  rw [collect_old hold, runSteps_append] at hok ⊢
  cases hp : runSteps lib r f (preSteps f) with
  | mk g e =>
    cases e with
    | some e => rw [hp] at hok; simp at hok
    | none => rfl

/-- `can_write` / `_check_header` over the constants regenerated from nixio/file.py is the model's `openRW` -/
theorem shape_open (lib : List Nat) (f : File) : Shape.openRWG lib f = openRW lib f := by
  unfold Shape.openRWG openRW
  have h1 : Nix.Gen.Format.versionLen = 3 := rfl
  have h2 : Nix.Gen.Format.canWriteCmp = .eq := rfl
  have h3 : Nix.Gen.Format.idThresholdCmp = .ge := rfl
  have h4 : Nix.Gen.Format.idThreshold.map Int.toNat = [1, 2, 0] := by decide
  rw [h1, h2, h3, h4]
  simp only [Shape.cmpVersions]
  by_cases hl : f.version.length = 3
  · by_cases he : lib = f.version
    · simp [hl, he]
    · simp [hl, he]
  · simp [hl]

end Nix.Upgrade.Lemmas
