import NixModel.Lemmas.C17Flush

/-!
Helper lemmas for C17: what the *model* leaves on disk when writes follow the last flush (`Late`): every object
holds the value it had after some prefix of the later writes — never anything older than the flush.
-/
namespace Nix.Flush.Lemmas
open Nix.Flush

/-- `c` was flushed; since then the writes `ws` went to the cache of a handle opened with `mode`; every object
on disk has the value it had after some prefix of `ws` -/
structure Late (c : Store) (ws : List Write) (mode : Mode) (w : World) : Prop where
  handle : w.handle = some ⟨mode, applyWrites ws c⟩
  pend : w.pending = none
  disk : ∃ d, w.disk = some d ∧ ∀ k, ∃ n, n ≤ ws.length ∧ d k = applyWrites (ws.take n) c k

theorem applyWrites_snoc (ws : List Write) (x : Write) (c : Store) :
    applyWrites (ws ++ [x]) c = x.apply (applyWrites ws c) := by
  simp [applyWrites, List.foldl_append]

theorem Late.write {c : Store} {ws : List Write} {mode : Mode} {w : World} (h : Late c ws mode w)
    (hrw : mode ≠ .readOnly) (x : Write) : Late c (ws ++ [x]) mode (step w (.write x)).1 := by
  obtain ⟨ho, hp, d, hd, hk⟩ := h
  refine ⟨?_, ?_, d, ?_, ?_⟩
  · simp [step, writeCall, ho, hrw, applyWrites_snoc]
  · simp [step, writeCall, ho, hrw, hp]
  · simp [step, writeCall, ho, hrw, hd]
  · intro k
    obtain ⟨n, hn, he⟩ := hk k
    exact ⟨n, by simp; omega, by rw [List.take_append_of_le_length hn]; exact he⟩

theorem Late.writeback {c : Store} {ws : List Write} {mode : Mode} {w : World} (h : Late c ws mode w)
    (hrw : mode ≠ .readOnly) (ks : List Key) : Late c ws mode (step w (.writeback ks)).1 := by
  obtain ⟨ho, hp, d, hd, hk⟩ := h
  refine ⟨?_, ?_, wb (applyWrites ws c) ks d, ?_, ?_⟩
  · simp [step, writebackEv, ho, hrw]
  · simp [step, writebackEv, ho, hrw, hp]
  · simp [step, writebackEv, ho, hrw, hd]
  · intro k
    by_cases hin : ks.contains k = true
    · exact ⟨ws.length, Nat.le_refl _, by
        show (if ks.contains k then _ else _) = _
        rw [if_pos hin, List.take_length]⟩
    · obtain ⟨n, hn, he⟩ := hk k
      exact ⟨n, hn, by
        show (if ks.contains k then _ else _) = _
        rw [if_neg hin]; exact he⟩

/-- a body that does not close leaves the disk as it is or makes it the cache -/
theorem runBody_disk_cases (body : List Prim) {w : World} {hd : Handle} (ho : w.handle = some hd)
    (hc : closes body = false) :
    (runBody w body).1.disk = w.disk ∨ (runBody w body).1.disk = some hd.cache := by
  induction body generalizing w with
  | nil => exact Or.inl rfl
  | cons p ps ih =>
    have hps : closes ps = false := by
      simp only [closes, List.contains_cons, Bool.or_eq_false_iff] at hc
      exact hc.2
    cases p with
    | h5close => simp [closes] at hc
    | gcCollect => rw [runBody_ok ps (prim_gc w)]; exact ih ho hps
    | h5flush =>
      obtain ⟨w', hp, ho', _, hw'⟩ := prim_flush_open ho
      rw [runBody_ok ps hp]
      rcases hw' with rfl | ⟨_, rfl⟩
      · exact ih ho hps
      · rcases ih (w := flushW w hd) ho' hps with h | h
        · exact Or.inr (by rw [h]; rfl)
        · exact Or.inr h

theorem Late.flush {c : Store} {ws : List Write} {mode : Mode} {w : World} (h : Late c ws mode w)
    (hk : closes Gen.fileFlushBody = false) : Late c ws mode (step w .flush).1 := by
  obtain ⟨ho, hp, d, hd, hkk⟩ := h
  have hkeep := runBody_keeps Gen.fileFlushBody ho hk
  refine ⟨hkeep.1, by rw [show (step w .flush).1 = (runBody w Gen.fileFlushBody).1 from rfl, hkeep.2.2]; exact hp, ?_⟩
  rcases runBody_disk_cases Gen.fileFlushBody ho hk with h1 | h1
  · exact ⟨d, by rw [show (step w .flush).1 = (runBody w Gen.fileFlushBody).1 from rfl, h1]; exact hd, hkk⟩
  · exact ⟨applyWrites ws c, h1, fun k => ⟨ws.length, Nat.le_refl _, by simp⟩⟩

theorem Late.runEvs {c : Store} {mode : Mode} (hrw : mode ≠ .readOnly) (hk : closes Gen.fileFlushBody = false)
    (es : List Ev) (hs : ∀ e ∈ es, sessionEv e = true) {ws : List Write} {w : World} (h : Late c ws mode w) :
    Late c (ws ++ writesOf es) mode (Flush.run w es) := by
  induction es generalizing ws w with
  | nil => simpa [writesOf, Flush.run] using h
  | cons e es ih =>
    have hs' : ∀ e' ∈ es, sessionEv e' = true := fun e' he' => hs e' (List.mem_cons_of_mem _ he')
    have he := hs e List.mem_cons_self
    cases e with
    | write x =>
      have := ih hs' (h.write hrw x)
      simpa [writesOf, Flush.run, List.append_assoc] using this
    | writeback ks => exact ih hs' (h.writeback hrw ks)
    | flush => exact ih hs' (h.flush hk)
    | «open» m => simp [sessionEv] at he
    | close => simp [sessionEv] at he
    | exit => simp [sessionEv] at he
    | kill => simp [sessionEv] at he

/-- a kill and a non-truncating open show the disk -/
theorem Late.reopen {c : Store} {ws : List Write} {mode : Mode} {w : World} (h : Late c ws mode w)
    (m : Mode) (hm : m ≠ .overwrite) :
    ∃ d, reopenView w m = some d ∧ ∀ k, ∃ n, n ≤ ws.length ∧ d k = applyWrites (ws.take n) c k := by
  obtain ⟨_, _, d, hd, hk⟩ := h
  refine ⟨d, ?_, hk⟩
  have hkh : (step w .kill).1.handle = none := rfl
  have hsd : (settle (step w .kill).1).disk = some d := by simp [step, settle, hd]
  unfold reopenView
  show view (openFile (step w .kill).1 m).1 = some d
  rw [openFile_existing m hm hkh hsd]
  rfl

end Nix.Flush.Lemmas
