import NixModel.Lemmas.C12Drop
import NixModel.Lemmas.C12MultiTag
import NixModel.Lemmas.C12Avail
import NixModel.Lemmas.C12Agree

/-!
# C12 — the auto-created arrays of `create_multi_tag`: created, then deleted again
-/
namespace Nix.Store.Lemmas
open Nix.Store Nix.Store.Graph

/-- what a successful `autoArray` has done -/
theorem autoArray_ok_shape {g g1 : Graph} {p : Path} {nm ty : String} {K : Nat}
    (h : autoArray g p nm ty none = (g1, .ok K)) :
    ∃ o, resolve g rootLoc p = some o ∧ kindOf g o.key = "block" ∧ (nm == "") = false ∧ hasSlash nm = false ∧
      (ty == "") = false ∧ hasEntry g o.key "data_arrays" nm = false ∧
      K = (((g.freshId).1.ensureGroup o.key "data_arrays").1.ensureGroup
            ((g.freshId).1.ensureGroup o.key "data_arrays").2 nm).2 ∧
      g1 = addDataset
        ((((((((g.freshId).1.ensureGroup o.key "data_arrays").1.ensureGroup
            ((g.freshId).1.ensureGroup o.key "data_arrays").2 nm).1.setAttr K "name" (some nm)).setAttr K "type"
            (some ty)).setAttr K "entity_id" (some (g.freshId).2)).setAttr K "~kind" (some "data_array"))) K "data" := by
  unfold autoArray at h
  cases hr : resolve g rootLoc p with
  | none => simp [hr] at h
  | some o =>
    simp only [hr] at h
    split at h
    · simp at h
    · rename_i hk
      have hk' : kindOf g o.key = "block" := by simpa using hk
      simp only [stageFault] at h
      cases hc : checkNameType nm ty with
      | error e0 => simp [hc] at h
      | ok u =>
        simp only [hc] at h
        obtain ⟨hn, hsl, ht⟩ := checkNameType_ok hc
        cases hd : hasEntry g o.key "data_arrays" nm with
        | true => simp [hd] at h
        | false =>
          simp only [hd, Bool.false_eq_true, ↓reduceIte] at h
          rw [entityCreateNewW_ok g o.key "data_arrays" nm ty "data_array" hn hsl ht] at h
          simp only [Prod.mk.injEq, Except.ok.injEq] at h
          obtain ⟨h1, h2⟩ := h
          refine ⟨o, rfl, hk', hn, hsl, ht, hd, h2.symm, ?_⟩
          rw [← h1, ← h2]

theorem getAttr_addDataset (g : Graph) (k : Nat) (n : String) (k' : Nat) (a : String) :
    (addDataset g k n).getAttr k' a = g.getAttr k' a := by
  unfold addDataset
  split
  · rfl
  · simp only
    rw [getAttr_addLink, getAttr_newNode]

theorem wf_keysLt {g : Graph} (h : WF g) : KeysLt g :=
  fun k hk => h.keys_lt k ((node?_isSome_iff g k).mp hk)

theorem wf_has_target {g : Graph} (h : WF g) {k : Nat} {l : String × Nat} (hl : l ∈ g.links k) : Has g l.2 :=
  (node?_isSome_iff g l.2).mpr (h.target_exists k l hl)

/-- **life cycle of an auto-created array**: whatever unobservable happens after its creation, deleting it
again through `delete_all([id])` leaves the file as it was before the creation -/
theorem auto_lifecycle {g g1 : Graph} (hWF : WF g) {p : Path} {nm ty : String} {K : Nat}
    (h : autoArray g p nm ty none = (g1, .ok K)) :
    ∀ hh, Unch g1 hh → Unch g (dropAuto hh (some K)) := by
  obtain ⟨o, hr, hkb, hn, hsl, ht, hd, hKdef, hg1⟩ := autoArray_ok_shape h
  have hk' : kindOf g o.key ≠ "" := by rw [hkb]; decide
  have ho : Has g o.key := has_of_kindOf hk'
  have hKl : KeysLt g := wf_keysLt hWF
  have hroot : Has g 0 := (node?_isSome_iff g 0).mpr hWF.root
  have hfree := hasEntry_false hd (fun l hl => wf_has_target hWF hl)
  have ec := entry_created (ga := (g.freshId).1) (o := o.key) "data_arrays" nm (keysLt_freshId hKl) ho (.inr hk') hfree
  simp only at ec
  obtain ⟨hU, hKb, hcb, hc2, hcc, hnk, hP⟩ := ec
  rw [← hKdef] at hnk hP
  -- the graph after the creation, relative to `gb`
  have s4 := sameOn_setAttr4 (P := fun x => Has ((g.freshId).1.ensureGroup o.key "data_arrays").1 x ∨
        x = ((g.freshId).1.ensureGroup o.key "data_arrays").2)
      ((((g.freshId).1.ensureGroup o.key "data_arrays").1.ensureGroup
        ((g.freshId).1.ensureGroup o.key "data_arrays").2 nm).1)
      "name" "type" "entity_id" "~kind" (some nm) (some ty) (some (g.freshId).2) (some "data_array") hnk
  have P1 := hP.then (s4.trans (sameOn_addDataset _ "data" hnk))
  rw [← hg1] at P1
  -- the new array exists and carries the id just drawn
  have hKc : Has ((((g.freshId).1.ensureGroup o.key "data_arrays").1.ensureGroup
      ((g.freshId).1.ensureGroup o.key "data_arrays").2 nm).1) K := by
    rw [hKdef, ensureGroup_of_none hc2]
    unfold Has
    rw [node?_isSome_addLink, node?_isSome_newNode]; simp
  have hK1 : Has g1 K := by
    rw [hg1]; exact (s4.trans (sameOn_addDataset _ "data" hnk)).keeps K hKc
  have hid : g1.entityId K = some (g.freshId).2 := by
    rw [hg1, entityId_eq, getAttr_addDataset, getAttr_setAttr_attr_ne _ _ _ _ (by decide)]
    apply getAttr_setAttr_self
    rw [node?_isSome_setAttr, node?_isSome_setAttr]
    exact hKc
  -- links that existed lead to nodes that existed
  have hold : ∀ k l, Has ((g.freshId).1.ensureGroup o.key "data_arrays").1 k →
      l ∈ ((g.freshId).1.ensureGroup o.key "data_arrays").1.links k →
      Has ((g.freshId).1.ensureGroup o.key "data_arrays").1 l.2 := by
    intro k l _ hl
    have oldOK : ∀ l' : String × Nat, l' ∈ g.links k →
        Has ((g.freshId).1.ensureGroup o.key "data_arrays").1 l'.2 :=
      fun l' hl' => hU.keeps _ (wf_has_target hWF hl')
    rw [links_ensureGroup (g.freshId).1 "data_arrays" ho k] at hl
    split at hl
    · rcases List.mem_append.mp hl with h1 | h1
      · exact oldOK l h1
      · simp only [List.mem_singleton] at h1
        subst h1
        rename_i hcn
        have e2 : ((g.freshId).1.ensureGroup o.key "data_arrays").2 = (g.freshId).1.nextKey := by
          rw [ensureGroup_of_none hcn.2]
        exact e2 ▸ hcb
    · exact oldOK l hl
  intro hh hUh
  have := dropAuto_unch P1 hcb hK1 (fun hK => hnk (.inl hK)) hid hUh hold
  exact Unch.trans hroot (Unch.after_same (sameOn_freshId _ g) hU) this

/-- a successful `autoArray` is a successful `create_data_array` of the structural model -/
theorem autoArray_createIn {g g1 : Graph} {p : Path} {nm ty : String} {K : Nat}
    (h : autoArray g p nm ty none = (g1, .ok K)) : createIn g p "data_array" nm ty none = .ok g1 := by
  obtain ⟨o, hr, hkb, hn, hsl, ht, hd, hKdef, hg1⟩ := autoArray_ok_shape h
  rw [← createInW_agrees]
  have hc : checkNameType nm ty = .ok () := by
    unfold checkNameType
    simp [hn, hsl, ht]
  have hw : createInW g p "data_array" nm ty none none = (g1, none) := by
    unfold createInW
    simp only [hr, hkb, Nix.Store.createSpec, stageFault, ite_self, hc]
    have e1 : (("block" : String) == "source") = false := by decide
    have e2 : (("data_array" : String) == "multi_tag") = false := by decide
    have e3 : (("data_array" : String) == "data_array" || ("data_array" : String) == "tag") = true := by decide
    have e4 : (("data_array" : String) == "data_array") = true := by decide
    simp only [e1, e2, e3, e4, Bool.false_eq_true, ↓reduceIte, hd]
    rw [entityCreateNewW_ok g o.key "data_arrays" nm ty "data_array" hn hsl ht]
    simp only [Bool.true_or, ↓reduceIte]
    subst hKdef
    rw [hg1]
  rw [hw]
  rfl

/-- the state after the creation is again a state of the model's invariant -/
theorem autoArray_wf {g g1 : Graph} (hWF : WF g) {p : Path} {nm ty : String} {K : Nat}
    (hnf : ∀ m, g.nextId ≤ m → nm ≠ idStr m)
    (h : autoArray g p nm ty none = (g1, .ok K)) : WF g1 :=
  hWF.createIn hnf (autoArray_createIn h)

theorem okind_block {g : Graph} (hWF : WF g) {k : Nat} (hk : kindOf g k = "block") : okind g k = "block" := by
  unfold okind
  have h0 : k ≠ 0 := by
    intro e; rw [e, hWF.root_kind] at hk; exact absurd hk (by decide)
  have : (k == 0) = false := by simpa using h0
  rw [this]; exact hk

theorem child?_append_other {l : List (String × Nat)} {a b : String} {x : Nat} (hab : (a == b) = false) :
    ((l ++ [(a, x)]).find? (fun e => e.1 == b)).map (·.2) = (l.find? (fun e => e.1 == b)).map (·.2) := by
  rw [List.find?_append]
  cases l.find? (fun e => e.1 == b) with
  | some y => rfl
  | none => simp [List.find?, hab]

/-- the auto-created array does not disturb the block's `multi_tags` container -/
theorem auto_keeps_block {g g1 : Graph} (hWF : WF g) {p : Path} {nm ty : String} {K : Nat}
    (h : autoArray g p nm ty none = (g1, .ok K)) (o : Loc) (hro : resolve g rootLoc p = some o) (n : String)
    (hdm : hasEntry g o.key "multi_tags" n = false) :
    Has g1 o.key ∧ kindOf g1 o.key = "block" ∧ hasEntry g1 o.key "multi_tags" n = false := by
  obtain ⟨o', hr, hkb, hn, hsl, ht, hd, hKdef, hg1⟩ := autoArray_ok_shape h
  rw [hro] at hr
  cases hr
  have hk' : kindOf g o.key ≠ "" := by rw [hkb]; decide
  have ho : Has g o.key := has_of_kindOf hk'
  have hKl : KeysLt g := wf_keysLt hWF
  have hfree := hasEntry_false hd (fun l hl => wf_has_target hWF hl)
  have ec := entry_created (ga := (g.freshId).1) (o := o.key) "data_arrays" nm (keysLt_freshId hKl) ho (.inr hk') hfree
  simp only at ec
  obtain ⟨hU, hKb, hcb, hc2, hcc, hnk, hP⟩ := ec
  rw [← hKdef] at hnk hP
  have s4 := sameOn_setAttr4 (P := fun x => Has ((g.freshId).1.ensureGroup o.key "data_arrays").1 x ∨
        x = ((g.freshId).1.ensureGroup o.key "data_arrays").2)
      ((((g.freshId).1.ensureGroup o.key "data_arrays").1.ensureGroup
        ((g.freshId).1.ensureGroup o.key "data_arrays").2 nm).1)
      "name" "type" "entity_id" "~kind" (some nm) (some ty) (some (g.freshId).2) (some "data_array") hnk
  have P1 := hP.then (s4.trans (sameOn_addDataset _ "data" hnk))
  rw [← hg1] at P1
  have hob : Has ((g.freshId).1.ensureGroup o.key "data_arrays").1 o.key := hU.keeps _ ho
  have hok := okind_block hWF hkb
  -- the container `c` is not the block, and not the block's `multi_tags` container
  have c_old_or_new : (∃ c0, g.child? o.key "data_arrays" = some c0 ∧
        ((g.freshId).1.ensureGroup o.key "data_arrays").2 = c0) ∨
      ¬ Has g ((g.freshId).1.ensureGroup o.key "data_arrays").2 := by
    cases h0 : g.child? o.key "data_arrays" with
    | some c0 =>
      left
      have : (g.freshId).1.child? o.key "data_arrays" = some c0 := h0
      exact ⟨c0, rfl, by rw [ensureGroup_of_some this]⟩
    | none =>
      right
      have : (g.freshId).1.child? o.key "data_arrays" = none := h0
      rw [ensureGroup_of_none this]
      exact hKl.fresh
  have hne_o : o.key ≠ ((g.freshId).1.ensureGroup o.key "data_arrays").2 := by
    rcases c_old_or_new with ⟨c0, h0, e0⟩ | hnew
    · intro e
      have hc : IsCont g c0 :=
        ⟨o.key, "data_arrays", { flavour := .plain, item := "data_array" }, by rw [hok]; simp [containerInfo], h0⟩
      have := (hWF.cont_plain c0 hc).2
      rw [← e0, ← e, hkb] at this
      exact absurd this (by decide)
    · intro e; exact hnew (e ▸ ho)
  have attrs1 : ∀ a, g1.getAttr o.key a = g.getAttr o.key a := by
    intro a
    rw [P1.attrs o.key hob a, hU.attrs o.key ho a]
    rfl
  have hk1 : kindOf g1 o.key = "block" := by rw [kindOf_of_attrs attrs1]; exact hkb
  refine ⟨P1.keeps _ hob, hk1, ?_⟩
  -- the block's links: the old ones, then possibly the new `data_arrays` container
  have links_o : g1.child? o.key "multi_tags" = g.child? o.key "multi_tags" := by
    rw [child?_eq, P1.links_ne o.key hob hne_o, links_ensureGroup (g.freshId).1 "data_arrays" ho o.key]
    split
    · exact child?_append_other (by decide)
    · rfl
  unfold hasEntry at hdm ⊢
  rw [links_o]
  cases hm : g.child? o.key "multi_tags" with
  | none => rfl
  | some mc =>
    rw [hm] at hdm
    simp only at hdm ⊢
    have hmc : IsCont g mc :=
      ⟨o.key, "multi_tags", { flavour := .plain, item := "multi_tag" }, by rw [hok]; simp [containerInfo], hm⟩
    have hmcg : Has g mc := wf_has_target hWF (child?_some_mem hm)
    have hmc_o : mc ≠ o.key := by
      intro e
      have := (hWF.cont_plain mc hmc).2
      rw [e, hkb] at this
      exact absurd this (by decide)
    have hmc_c : mc ≠ ((g.freshId).1.ensureGroup o.key "data_arrays").2 := by
      rcases c_old_or_new with ⟨c0, h0, e0⟩ | hnew
      · intro e
        have := hWF.cont_unique o.key "data_arrays" { flavour := .plain, item := "data_array" } c0
          (by rw [hok]; simp [containerInfo]) h0
          o.key ("multi_tags", mc) (child?_some_mem hm) (by rw [e, e0])
        have h2 : ("multi_tags" : String) = "data_arrays" := this.2
        exact absurd h2 (by decide)
      · intro e; exact hnew (e ▸ hmcg)
    have : g1.links mc = g.links mc := by
      rw [P1.links_ne mc (hU.keeps _ hmcg) hmc_c, links_ensureGroup (g.freshId).1 "data_arrays" ho mc]
      simp [hmc_o]
      rfl
    rw [hasChild_eq, child?_eq, this, ← child?_eq, ← hasChild_eq]
    exact hdm

/-- link lists that only grow at the end keep every address -/
theorem resolve_of_prefix {g g' : Graph} (hpre : ∀ k, Has g k → ∃ ex, g'.links k = g.links k ++ ex) (p : Path) :
    ∀ {l r : Loc}, resolve g l p = some r → resolve g' l p = some r := by
  induction p with
  | nil => intro l r hr; exact hr
  | cons s ps ih =>
    intro l r hr
    simp only [Nix.Store.resolve] at hr ⊢
    cases hs : Nix.Store.stepSeg g l s with
    | none => simp [hs] at hr
    | some l' =>
      simp only [hs] at hr
      have hs' : Nix.Store.stepSeg g' l s = some l' := by
        cases s with
        | name n =>
          simp only [Nix.Store.stepSeg, Option.map_eq_some_iff] at hs ⊢
          obtain ⟨k, hk, hr'⟩ := hs
          refine ⟨k, ?_, hr'⟩
          obtain ⟨ex, he⟩ := hpre l.key (node?_isSome_of_link (child?_some_mem hk))
          rw [child?_eq] at hk ⊢
          rw [he, List.find?_append]
          cases hf : (g.links l.key).find? (fun e => e.1 == n) with
          | none => simp [hf] at hk
          | some x => simpa [hf] using hk
        | idx i =>
          simp only [Nix.Store.stepSeg, Option.map_eq_some_iff] at hs ⊢
          obtain ⟨nk, hk, hr'⟩ := hs
          refine ⟨nk, ?_, hr'⟩
          have hm : nk ∈ g.links l.key := List.mem_of_getElem? hk
          obtain ⟨ex, he⟩ := hpre l.key (node?_isSome_of_link hm)
          rw [he]
          have hi : i < (g.links l.key).length := (List.getElem?_eq_some_iff.mp hk).1
          rw [List.getElem?_append_left hi]
          exact hk
      rw [hs']
      exact ih hr

/-- the block is found under the same path after the auto-creation -/
theorem auto_keeps_path {g g1 : Graph} (hWF : WF g) {p : Path} {nm ty : String} {K : Nat}
    (h : autoArray g p nm ty none = (g1, .ok K)) (q : Path) (r : Loc)
    (hq : resolve g rootLoc q = some r) : resolve g1 rootLoc q = some r := by
  obtain ⟨o, hr, hkb, hn, hsl, ht, hd, hKdef, hg1⟩ := autoArray_ok_shape h
  have hk' : kindOf g o.key ≠ "" := by rw [hkb]; decide
  have ho : Has g o.key := has_of_kindOf hk'
  have hKl : KeysLt g := wf_keysLt hWF
  have hfree := hasEntry_false hd (fun l hl => wf_has_target hWF hl)
  have ec := entry_created (ga := (g.freshId).1) (o := o.key) "data_arrays" nm (keysLt_freshId hKl) ho (.inr hk') hfree
  simp only at ec
  obtain ⟨hU, hKb, hcb, hc2, hcc, hnk, hP⟩ := ec
  rw [← hKdef] at hnk hP
  have s4 := sameOn_setAttr4 (P := fun x => Has ((g.freshId).1.ensureGroup o.key "data_arrays").1 x ∨
        x = ((g.freshId).1.ensureGroup o.key "data_arrays").2)
      ((((g.freshId).1.ensureGroup o.key "data_arrays").1.ensureGroup
        ((g.freshId).1.ensureGroup o.key "data_arrays").2 nm).1)
      "name" "type" "entity_id" "~kind" (some nm) (some ty) (some (g.freshId).2) (some "data_array") hnk
  have P1 := hP.then (s4.trans (sameOn_addDataset _ "data" hnk))
  rw [← hg1] at P1
  apply resolve_of_prefix _ q hq
  intro k hk
  have hkb' : Has ((g.freshId).1.ensureGroup o.key "data_arrays").1 k := hU.keeps k hk
  obtain ⟨ex, he, _⟩ := hU.links k hk
  by_cases hkc : k = ((g.freshId).1.ensureGroup o.key "data_arrays").2
  · refine ⟨ex ++ [(nm, K)], ?_⟩
    rw [hkc, P1.links_c, ← hkc, he, List.append_assoc]
    rfl
  · refine ⟨ex, ?_⟩
    rw [P1.links_ne k hkb' hkc, he]
    rfl

end Nix.Store.Lemmas
