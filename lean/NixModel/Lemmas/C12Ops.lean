import NixModel.Lemmas.C12Unch

/-!
# C12 — every writer of `Store/ApiW.lean` leaves the file as it was when it refuses
-/
namespace Nix.Store.Lemmas
open Nix.Store Nix.Store.Graph

/-- what the proofs need of the graph before the call (all of it follows from C03's invariant
`WF`, hence holds in every state reachable by a history whose names are not future ids) -/
structure Tidy (g : Graph) : Prop where
  keysLt : KeysLt g
  root : Has g 0
  targets : ∀ k l, l ∈ g.links k → Has g l.2

/-- no link is named like an id the supply has not handed out yet (uuid4 freshness) -/
def NamesNotFuture (g : Graph) : Prop :=
  ∀ k l, l ∈ g.links k → ∀ n, g.nextId ≤ n → l.1 ≠ idStr n

/-- open the container `cname` of an entity (or of the root) and create the entry `nm` in it: the
container exists, had no such entry, the new node is new, and the state is `Plus` the entry -/
theorem entry_created {ga : Graph} {o : Nat} (cname nm : String) (hK : KeysLt ga) (ho : Has ga o)
    (hkind : o = 0 ∨ kindOf ga o ≠ "")
    (hfree : ∀ c0, ga.child? o cname = some c0 → Has ga c0 ∧ ga.child? c0 nm = none) :
    let gb := (ga.ensureGroup o cname).1
    let c := (ga.ensureGroup o cname).2
    let gc := (gb.ensureGroup c nm).1
    let k := (gb.ensureGroup c nm).2
    Unch ga gb ∧ KeysLt gb ∧ Has gb c ∧ gb.child? c nm = none ∧ gb.child? o cname = some c ∧
      ¬ (Has gb k ∨ k = c) ∧ Plus (Has gb) gb gc c nm k := by
  intro gb c gc k
  have hU : Unch ga gb := unch_ensureGroup cname ho hkind hK.fresh
  have hKb : KeysLt gb := keysLt_ensureGroup hK o cname
  have hcc : gb.child? o cname = some c := child?_ensureGroup ga cname ho
  have hc : Has gb c ∧ gb.child? c nm = none := by
    cases h0 : ga.child? o cname with
    | some c0 =>
      have e : ga.ensureGroup o cname = (ga, c0) := ensureGroup_of_some h0
      have e1 : gb = ga := by show (ga.ensureGroup o cname).1 = ga; rw [e]
      have e2 : c = c0 := by show (ga.ensureGroup o cname).2 = c0; rw [e]
      rw [e1, e2]; exact hfree c0 h0
    | none =>
      have e : ga.ensureGroup o cname = ((ga.newNode .group).1.addLink o cname ga.nextKey, ga.nextKey) :=
        ensureGroup_of_none h0
      have e2 : c = ga.nextKey := by show (ga.ensureGroup o cname).2 = _; rw [e]
      have hnone : ga.node? ga.nextKey = none := by
        cases hh : ga.node? ga.nextKey with
        | none => rfl
        | some x => exact absurd (by unfold Has; rw [hh]; rfl) hK.fresh
      have hne : ga.nextKey ≠ o := fun e => hK.fresh (e ▸ ho)
      have hl : gb.links c = [] := by
        show (ga.ensureGroup o cname).1.links c = []
        rw [links_ensureGroup ga cname ho, e2]
        simp only [hne, false_and, ↓reduceIte]
        exact links_of_node?_none hnone
      refine ⟨?_, ?_⟩
      · rw [e2]
        show Has (ga.ensureGroup o cname).1 ga.nextKey
        rw [e]; unfold Has
        rw [node?_isSome_addLink, node?_isSome_newNode]; simp
      · rw [child?_none_iff, hl]; simp
  have hk : k = gb.nextKey := by
    show (gb.ensureGroup c nm).2 = _
    rw [ensureGroup_of_none hc.2]
  have hnk : ¬ (Has gb k ∨ k = c) := by
    rw [hk]
    rintro (h | h)
    · exact hKb.fresh h
    · exact hKb.fresh (h ▸ hc.1)
  have hP : Plus (Has gb) gb gc c nm k := by
    have := plus_ensureGroup (Has gb) hc.1 hc.2
    rw [← hk] at this; exact this
  exact ⟨hU, hKb, hc.1, hc.2, hcc, hnk, hP⟩

/-- the common shape of a roll-back: open the container of an entity (or of the root), create the
entry `nm` in it, write on the new node only, unlink the entry again -/
theorem rollback_core {ga : Graph} {o : Nat} (cname nm : String) (hK : KeysLt ga) (ho : Has ga o)
    (hkind : o = 0 ∨ kindOf ga o ≠ "")
    (hfree : ∀ c0, ga.child? o cname = some c0 → Has ga c0 ∧ ga.child? c0 nm = none) :
    let gb := (ga.ensureGroup o cname).1
    let c := (ga.ensureGroup o cname).2
    let gc := (gb.ensureGroup c nm).1
    let k := (gb.ensureGroup c nm).2
    ¬ (Has gb k ∨ k = c) ∧
      ∀ g2, SameOn (fun x => Has gb x ∨ x = c) gc g2 → Unch ga (g2.delLink c nm) := by
  intro gb c gc k
  obtain ⟨hU, _, _, hc2, _, hnk, hP⟩ := entry_created cname nm hK ho hkind hfree
  exact ⟨hnk, fun g2 h2 => hU.then_same ((hP.then h2).delLink hc2)⟩

/-! ## `Entity.create_new` -/

theorem entityCreateNewW_err {P : Nat → Prop} (g : Graph) (o : Nat) (cn n t kd : String) (e : Err)
    (h : (entityCreateNewW g o cn n t kd).2 = .error e) : SameOn P g (entityCreateNewW g o cn n t kd).1 := by
  unfold entityCreateNewW at h ⊢
  by_cases h1 : (n == "") = true
  · simp only [h1, ↓reduceIte] at h ⊢
    split
    · exact sameOn_freshId P g
    · split
      · exact sameOn_freshId P g
      · rename_i hs ht; simp [hs, ht] at h
  · simp only [h1] at h ⊢
    by_cases h2 : (t != "") = true
    · simp only [h2, ↓reduceIte, Bool.false_eq_true] at h ⊢
      split
      · exact sameOn_freshId P g
      · split
        · exact sameOn_freshId P g
        · rename_i hs ht; simp [hs, ht] at h
    · simp only [h2, ↓reduceIte, Bool.false_eq_true] at h ⊢
      split
      · exact SameOn.refl P g
      · split
        · exact SameOn.refl P g
        · rename_i hs ht; simp [hs, ht] at h

theorem checkNameType_ok {n t : String} (h : checkNameType n t = .ok ()) :
    (n == "") = false ∧ hasSlash n = false ∧ (t == "") = false := by
  unfold checkNameType at h
  split at h
  · cases h
  · split at h
    · cases h
    · split at h
      · cases h
      · rename_i h1 h2 h3
        exact ⟨by simpa using h1, by simpa using h2, by simpa using h3⟩

/-- `Entity.create_new` for a checked name and type, spelled out -/
theorem entityCreateNewW_ok (g : Graph) (o : Nat) (cn n t kd : String)
    (hn : (n == "") = false) (hs : hasSlash n = false) (ht : (t == "") = false) :
    entityCreateNewW g o cn n t kd =
      (let ga := (g.freshId).1
       let gb := (ga.ensureGroup o cn).1
       let c := (ga.ensureGroup o cn).2
       let gc := (gb.ensureGroup c n).1
       let k := (gb.ensureGroup c n).2
       ((((gc.setAttr k "name" (some n)).setAttr k "type" (some t)).setAttr k "entity_id"
          (some (g.freshId).2)).setAttr k "~kind" (some kd), .ok (c, k))) := by
  unfold entityCreateNewW
  have ht' : (t != "") = true := by simp [bne, ht]
  simp [hn, hs, ht, ht']

theorem hasEntry_false {g : Graph} {o : Nat} {cn n : String} (h : hasEntry g o cn n = false)
    (ht : ∀ l, l ∈ g.links o → Has g l.2) :
    ∀ c0, g.child? o cn = some c0 → Has g c0 ∧ g.child? c0 n = none := by
  intro c0 hc
  unfold hasEntry at h
  rw [hc] at h
  simp only at h
  refine ⟨ht (cn, c0) (child?_some_mem hc), ?_⟩
  rw [hasChild_eq] at h
  cases hh : g.child? c0 n with
  | none => rfl
  | some x => simp [hh] at h

/-- a named entity is created in the container `cn` of `o`, written to (the node itself only), and
unlinked again: the file is as it was -/
theorem entity_rollback {g : Graph} (hK : KeysLt g) {o : Nat} (hto : ∀ l, l ∈ g.links o → Has g l.2)
    (cn n t kd : String) (ho : Has g o) (hkind : o = 0 ∨ kindOf g o ≠ "")
    (hn : (n == "") = false) (hs : hasSlash n = false) (ht : (t == "") = false)
    (hdup : hasEntry g o cn n = false) (g1 : Graph) (c k : Nat)
    (hE : entityCreateNewW g o cn n t kd = (g1, .ok (c, k))) :
    ∀ g2, (∀ P : Nat → Prop, ¬ P k → SameOn P g1 g2) → Unch g (g2.delLink c n) := by
  rw [entityCreateNewW_ok g o cn n t kd hn hs ht] at hE
  simp only [Prod.mk.injEq, Except.ok.injEq] at hE
  obtain ⟨hg1, hc, hk⟩ := hE
  subst hc hk hg1
  have hfree := hasEntry_false hdup hto
  have core := rollback_core (ga := (g.freshId).1) (o := o) cn n (keysLt_freshId hK) ho hkind hfree
  simp only at core
  obtain ⟨hnk, hall⟩ := core
  intro g2 h2
  have s1 := sameOn_setAttr4 (P := fun x => Has ((g.freshId).1.ensureGroup o cn).1 x ∨
        x = ((g.freshId).1.ensureGroup o cn).2)
      ((((g.freshId).1.ensureGroup o cn).1.ensureGroup ((g.freshId).1.ensureGroup o cn).2 n).1)
      "name" "type" "entity_id" "~kind" (some n) (some t) (some (g.freshId).2) (some kd) hnk
  exact Unch.after_same (sameOn_freshId _ g) (hall g2 (s1.trans (h2 _ hnk)))

theorem tidy_ensureGroup {g : Graph} (hT : Tidy g) {p : Nat} (n : String) (hp : Has g p) :
    Tidy (g.ensureGroup p n).1 := by
  refine ⟨keysLt_ensureGroup hT.keysLt p n, ?_, ?_⟩
  · cases hc : g.child? p n with
    | some c => rw [ensureGroup_of_some hc]; exact hT.root
    | none =>
      rw [ensureGroup_of_none hc]; unfold Has
      rw [node?_isSome_addLink, node?_isSome_newNode, hT.root]; rfl
  · intro k l hl
    cases hc : g.child? p n with
    | some c => rw [ensureGroup_of_some hc] at hl ⊢; exact hT.targets k l hl
    | none =>
      rw [links_ensureGroup g n hp] at hl
      have keep : ∀ x, Has g x → Has (g.ensureGroup p n).1 x := by
        intro x hx
        rw [ensureGroup_of_none hc]; unfold Has at *
        rw [node?_isSome_addLink, node?_isSome_newNode, hx]; rfl
      split at hl
      · rcases List.mem_append.mp hl with h | h
        · exact keep _ (hT.targets k l h)
        · simp only [List.mem_singleton] at h
          subst h
          rw [ensureGroup_of_none hc]; unfold Has
          rw [node?_isSome_addLink, node?_isSome_newNode]; simp
      · exact keep _ (hT.targets k l hl)

theorem createSpec_kind {ok w : String} {x : String × String} (h : createSpec ok w = some x) : ok ≠ "" := by
  intro e
  subst e
  unfold createSpec at h
  split at h <;> simp_all

/-! ## the writers -/

theorem createBlockW_unch {g : Graph} (hT : Tidy g) (n t : String) (e : Err)
    (h : (createBlockW g n t).2 = some e) : Unch g (createBlockW g n t).1 := by
  have hU : Unch g (g.ensureGroup 0 "data").1 := unch_ensureGroup "data" hT.root (.inl rfl) hT.keysLt.fresh
  unfold createBlockW at h ⊢
  simp only at h ⊢
  split
  · exact hU
  · rename_i hd
    rw [if_neg hd] at h
    generalize hE : entityCreateNewW (g.ensureGroup 0 "data").1 0 "data" n t "block" = r at h ⊢
    rcases r with ⟨g1, (e' | ck)⟩
    · have := entityCreateNewW_err (P := Has (g.ensureGroup 0 "data").1) _ 0 "data" n t "block" e' (by rw [hE])
      rw [hE] at this
      exact hU.then_same this
    · simp at h

theorem createPropertyW_unch {g : Graph} (hT : Tidy g) (p : Path) (n : String) (e : Err)
    (h : (createPropertyW g p n).2 = some e) : Unch g (createPropertyW g p n).1 := by
  unfold createPropertyW at h ⊢
  split
  · exact Unch.refl g
  · rename_i o hr
    simp only [hr] at h
    split
    · exact Unch.refl g
    · rename_i hk
      rw [if_neg hk] at h
      have hk' : kindOf g o.key ≠ "" := by
        intro e0; rw [e0] at hk; simp at hk
      have hU : Unch g (g.ensureGroup o.key "properties").1 :=
        unch_ensureGroup "properties" (has_of_kindOf hk') (.inr hk') hT.keysLt.fresh
      simp only at h ⊢
      split
      · exact hU
      · split
        · exact hU
        · split
          · exact hU
          · rename_i h1 h2 h3
            rw [if_neg h1, if_neg h2, if_neg h3] at h
            simp at h

theorem createSectionW_unch {g : Graph} (hT : Tidy g) (p : Path) (n t : String) (e : Err)
    (h : (createSectionW g p n t).2 = some e) : Unch g (createSectionW g p n t).1 := by
  unfold createSectionW at h ⊢
  cases p with
  | nil =>
    simp only at h ⊢
    split
    · exact Unch.refl g
    · split
      · exact Unch.refl g
      · exact Unch.refl g
      · rename_i c hc _ hh
        simp only [hc, hh] at h
        generalize hE : entityCreateNewW g 0 "metadata" n t "section" = r at h ⊢
        rcases r with ⟨g1, (e' | ck)⟩
        · have := entityCreateNewW_err (P := Has g) g 0 "metadata" n t "section" e' (by rw [hE])
          rw [hE] at this
          exact this.unch
        · simp at h
  | cons s ps =>
    simp only at h ⊢
    split
    · exact Unch.refl g
    · rename_i o hr
      simp only [hr] at h
      split
      · exact Unch.refl g
      · rename_i hk
        rw [if_neg hk] at h
        have hk' : kindOf g o.key ≠ "" := by
          intro e0; rw [e0] at hk; simp at hk
        have hU : Unch g (g.ensureGroup o.key "sections").1 :=
          unch_ensureGroup "sections" (has_of_kindOf hk') (.inr hk') hT.keysLt.fresh
        split
        · exact Unch.refl g
        · rename_i hc
          simp only [hc] at h
          split
          · exact hU
          · rename_i hd
            rw [if_neg hd] at h
            generalize hE : entityCreateNewW (g.ensureGroup o.key "sections").1 o.key "sections" n t "section" = r at h ⊢
            rcases r with ⟨g1, (e' | ck)⟩
            · have := entityCreateNewW_err (P := Has (g.ensureGroup o.key "sections").1) _ o.key "sections" n t
                "section" e' (by rw [hE])
              rw [hE] at this
              exact hU.then_same this
            · simp at h

theorem createInW_unch {g : Graph} (hT : Tidy g) (p : Path) (w n t : String) (ex : Option Nat)
    (f : Option Fault) (e : Err) (h : (createInW g p w n t ex f).2 = some e) :
    Unch g (createInW g p w n t ex f).1 := by
  unfold createInW at h ⊢
  cases hr : resolve g rootLoc p with
  | none => exact Unch.refl g
  | some o =>
    simp only [hr] at h ⊢
    cases hs : createSpec (kindOf g o.key) w with
    | none => exact Unch.refl g
    | some ck =>
      obtain ⟨cname, kind⟩ := ck
      simp only [hs] at h ⊢
      have hk' : kindOf g o.key ≠ "" := createSpec_kind hs
      have ho : Has g o.key := has_of_kindOf hk'
      cases hpf : (if (kind == "data_array") = true then stageFault Stage.pre f else none) with
      | some e0 => exact Unch.refl g
      | none =>
        simp only [hpf] at h ⊢
        cases hc : checkNameType n t with
        | error e0 => exact Unch.refl g
        | ok u =>
          simp only [hc] at h ⊢
          obtain ⟨hn, hsl, ht⟩ := checkNameType_ok hc
          -- the eagerly opened container of a source
          generalize hg0 : (if (kindOf g o.key == "source") = true then (g.ensureGroup o.key cname).fst else g) = g0
            at h ⊢
          have hU0 : Unch g g0 := by
            rw [← hg0]; split
            · exact unch_ensureGroup cname ho (.inr hk') hT.keysLt.fresh
            · exact Unch.refl g
          have hT0 : Tidy g0 := by
            rw [← hg0]; split
            · exact tidy_ensureGroup hT cname ho
            · exact hT
          have hkind0 : kindOf g0 o.key ≠ "" := by rw [kindOf_of_attrs (hU0.attrs o.key ho)]; exact hk'
          have ho0 : Has g0 o.key := hU0.keeps _ ho
          cases hd : hasEntry g0 o.key cname n with
          | true => simp only [hd, ↓reduceIte]; exact hU0
          | false =>
            simp only [hd, Bool.false_eq_true, ↓reduceIte] at h ⊢
            have roll := fun g1 c k hE => entity_rollback hT0.keysLt (hT0.targets o.key) cname n t kind ho0
              (.inr hkind0) hn hsl ht hd g1 c k hE
            by_cases hm : (kind == "multi_tag") = true
            · simp only [hm, ↓reduceIte] at h ⊢
              cases ex with
              | none => exact hU0
              | some pos =>
                simp only at h ⊢
                generalize hE : entityCreateNewW g0 o.key cname n t kind = r at h ⊢
                rcases r with ⟨g1, (e' | ⟨c, k⟩)⟩
                · have := entityCreateNewW_err (P := Has g0) g0 o.key cname n t kind e' (by rw [hE])
                  rw [hE] at this
                  exact hU0.then_same this
                · simp only at h ⊢
                  have hR : Unch g (g1.delLink c n) :=
                    Unch.trans hT.root hU0 (roll g1 c k hE g1 (fun P _ => SameOn.refl P g1))
                  split
                  · exact hR
                  · split
                    · exact hR
                    · rename_i h1 h2; rw [if_neg h1, if_neg h2] at h; simp at h
            · simp only [hm, Bool.false_eq_true, ↓reduceIte] at h ⊢
              generalize hE : entityCreateNewW g0 o.key cname n t kind = r at h ⊢
              rcases r with ⟨g1, (e' | ⟨c, k⟩)⟩
              · have := entityCreateNewW_err (P := Has g0) g0 o.key cname n t kind e' (by rw [hE])
                rw [hE] at this
                exact hU0.then_same this
              · simp only at h ⊢
                split
                · rename_i hda
                  rw [if_pos hda] at h
                  cases hf1 : stageFault Stage.entity f with
                  | some e1 =>
                    exact Unch.trans hT.root hU0 (roll g1 c k hE g1 (fun P _ => SameOn.refl P g1))
                  | none =>
                    simp only [hf1] at h ⊢
                    cases hf2 : stageFault Stage.data f with
                    | some e2 =>
                      exact Unch.trans hT.root hU0
                        (roll g1 c k hE _ (fun P hP => sameOn_addDataset g1 _ hP))
                    | none => simp [hf2] at h
                · rename_i hda
                  rw [if_neg hda] at h
                  simp at h

theorem createFeatureW_unch {g : Graph} (hT : Tidy g) (hN : NamesNotFuture g) (p : Path)
    (d : Option Nat) (lt : String) (e : Err) (h : (createFeatureW g p d lt).2 = some e) :
    Unch g (createFeatureW g p d lt).1 := by
  unfold createFeatureW at h ⊢
  cases hr : resolve g rootLoc p with
  | none => exact Unch.refl g
  | some o =>
    simp only [hr] at h ⊢
    split
    · exact Unch.refl g
    · rename_i hk
      rw [if_neg hk] at h
      have hk' : kindOf g o.key ≠ "" := by
        intro e0; rw [e0] at hk; simp at hk
      have ho : Has g o.key := has_of_kindOf hk'
      split
      · exact Unch.refl g
      · rename_i hl
        rw [if_neg hl] at h
        cases hdf : dfTagged g p d lt.toLower with
        | true => simp only [↓reduceIte]; exact Unch.refl g
        | false =>
          simp only [hdf, Bool.false_eq_true, ↓reduceIte] at h ⊢
          have hfree : ∀ c0, (g.freshId).1.child? o.key "features" = some c0 →
              Has (g.freshId).1 c0 ∧ (g.freshId).1.child? c0 (g.freshId).2 = none := by
            intro c0 hc0
            refine ⟨hT.targets o.key ("features", c0) (child?_some_mem hc0), ?_⟩
            rw [child?_none_iff]
            intro l hl
            exact hN c0 l hl g.nextId (Nat.le_refl _)
          have core := rollback_core (ga := (g.freshId).1) (o := o.key) "features" (g.freshId).2
            (keysLt_freshId hT.keysLt) ho (.inr hk') hfree
          simp only at core
          obtain ⟨hnk, hall⟩ := core
          have s3 := ((sameOn_setAttr (P := fun x => Has ((g.freshId).1.ensureGroup o.key "features").1 x ∨
                x = ((g.freshId).1.ensureGroup o.key "features").2)
              ((((g.freshId).1.ensureGroup o.key "features").1.ensureGroup
                ((g.freshId).1.ensureGroup o.key "features").2 (g.freshId).2).1)
              "entity_id" (some (g.freshId).2) hnk).trans
            (sameOn_setAttr _ "~kind" (some "feature") hnk)).trans
            (sameOn_setAttr _ "link_type" (some lt.toLower) hnk)
          have hB := Unch.after_same (sameOn_freshId _ g) (hall _ s3)
          split
          · exact hB
          · exact hB
          · split
            · exact hB
            · split
              · exact hB
              · split
                · exact hB
                · rename_i t b _ _ h1 h2 h3
                  simp_all

/-- the descriptor groups of an array are named `1 … n`: the next name is free -/
def DimsDense (g : Graph) (p : Path) : Prop :=
  ∀ o d, resolve g rootLoc p = some o → g.child? o.key "dimensions" = some d →
    g.child? d (toString ((g.links d).length + 1)) = none

theorem appendDimW_unch {g : Graph} (hT : Tidy g) (p : Path) (hD : DimsDense g p) (kd : String)
    (wd : Bool) (f : Option Fault) (e : Err) (h : (appendDimW g p kd wd f).2 = some e) :
    Unch g (appendDimW g p kd wd f).1 := by
  unfold appendDimW at h ⊢
  cases hr : resolve g rootLoc p with
  | none => exact Unch.refl g
  | some o =>
    simp only [hr] at h ⊢
    split
    · exact Unch.refl g
    · rename_i hk
      rw [if_neg hk] at h
      have hk' : kindOf g o.key ≠ "" := by
        intro e0; rw [e0] at hk; simp at hk
      have ho : Has g o.key := has_of_kindOf hk'
      split
      · exact Unch.refl g
      · rename_i hdk
        rw [if_neg hdk] at h
        generalize hidx : (toString ((match g.child? o.key "dimensions" with
            | some d => (g.links d).length
            | none => 0) + 1)) = idx at h ⊢
        have hfree : ∀ c0, g.child? o.key "dimensions" = some c0 → Has g c0 ∧ g.child? c0 idx = none := by
          intro c0 hc0
          refine ⟨hT.targets o.key ("dimensions", c0) (child?_some_mem hc0), ?_⟩
          rw [← hidx, hc0]
          exact hD o c0 hr hc0
        have core := rollback_core (ga := g) (o := o.key) "dimensions" idx hT.keysLt ho (.inr hk') hfree
        simp only at core
        obtain ⟨hnk, hall⟩ := core
        have s1 := sameOn_setAttr (P := fun x => Has (g.ensureGroup o.key "dimensions").1 x ∨
              x = (g.ensureGroup o.key "dimensions").2)
            (((g.ensureGroup o.key "dimensions").1.ensureGroup (g.ensureGroup o.key "dimensions").2 idx).1)
            "dimension_type" (some kd) hnk
        cases hf1 : stageFault Stage.entity f with
        | some e1 => exact hall _ s1
        | none =>
          simp only [hf1] at h ⊢
          cases hf2 : stageFault Stage.data f with
          | some e2 =>
            simp only
            split
            · exact hall _ (s1.trans (sameOn_addDataset _ _ hnk))
            · exact hall _ s1
          | none => simp [hf2] at h

end Nix.Store.Lemmas
