import NixModel.Lemmas.C20Spec
import NixModel.Lemmas.C05Alias

/-! Entities that live only inside a copy (`create_tag(copy_from=tag)` duplicates the arrays the tag refers to):
none of the nodes an HDF5 copy makes, except the copy's root, is a member of any block that existed before. -/
namespace Nix.Store.C20
open Nix.Store Nix.Store.Graph Nix.Store.Lemmas

theorem inner_copies_not_members {src d0 : Graph} {c srcKey : Nat} {name : String} {ks emptied : List Nat}
    {keepId : Bool} (h : DestOk d0 c) (hf : FileOk d0) (t' b : Nat) (store : String)
    (hnew : d0.nextKey ≤ t') (hroot : t' ≠ (h5CopyCore src d0 c srcKey name ks emptied keepId).2)
    (hb : b ∈ keys d0) (hbc : b ≠ c) :
    inBlockStore (h5CopyCore src d0 c srcKey name ks emptied keepId).1 b store t' = false := by
  cases hm : inBlockStore (h5CopyCore src d0 c srcKey name ks emptied keepId).1 b store t' with
  | false => rfl
  | true =>
    exfalso
    obtain ⟨nm, l, _, hl, he⟩ := (inBlockStore_iff _ b store t').mp hm
    -- the store group is an old child of the old node `b`
    cases hsn : (h5CopyCore src d0 c srcKey name ks emptied keepId).1.child? b store with
    | none => rw [hsn] at hl; simp [getByName, cLinks] at hl
    | some sn =>
      have hmem := child?_some_mem hsn
      rw [core_links_old h (hf.lt b hb), if_neg hbc] at hmem
      have hsnk : sn ∈ keys d0 := hf.target b (store, sn) hmem
      rw [hsn] at hl
      have hl' : l ∈ (h5CopyCore src d0 c srcKey name ks emptied keepId).1.links sn := by
        unfold getByName cLinks at hl
        exact List.mem_of_find?_eq_some hl
      rw [core_links_old h (hf.lt sn hsnk)] at hl'
      split at hl'
      · rcases List.mem_append.mp hl' with h1 | h1
        · have := hf.lt _ (hf.target c l h1)
          rw [he] at this; omega
        · simp at h1
          rw [h1] at he
          exact hroot (by rw [← he, core_root])
      · have := hf.lt _ (hf.target sn l hl')
        rw [he] at this; omega

theorem keys_ensureGroup_mono (g : Graph) (p : Nat) (n : String) {k : Nat} (hk : k ∈ keys g) :
    k ∈ keys (g.ensureGroup p n).1 := by
  rw [keys_ensureGroup]
  split
  · exact List.mem_append_left _ hk
  · exact hk

/-- `Block.create_data_array / create_tag / create_multi_tag (copy_from=obj)`: no node the copy made, other than the
copy itself, is a member of a block that existed before -/
theorem copyIntoBlock_inner_not_members {g g' : Graph} (hf : FileOk g) {bp : Path} {b : Loc} {what cls name : String}
    {obj : Nat} {keepId : Bool} (hb : resolve g rootLoc bp = some b) (hbk : kindOf g b.key = "block")
    (hcls : clsOf what = some cls) (hk : kindOf g obj = what) (h0 : b.key ∈ keys g)
    (hc : copyIntoBlock g g bp what obj name keepId = .ok g')
    (t' b2 : Nat) (store : String) (hnew : (destG g b.key cls).nextKey ≤ t')
    (hroot : t' ≠ copyMap g g b.key cls obj false obj) (hb2 : b2 ∈ keys g) (hb2c : b2 ≠ destC g b.key cls) :
    inBlockStore g' b2 store t' = false := by
  rw [copyIntoBlock_generic g g bp b what cls obj name keepId hb hbk hcls hk h0] at hc
  unfold copyGeneric at hc
  split at hc
  · cases hc
  · simp only [Except.map, Except.ok.injEq] at hc
    subst hc
    exact inner_copies_not_members (ensureGroup_destOk hf b.key cls) (fileOk_ensureGroup hf cls h0) t' b2 store hnew
      (by rw [core_root]; exact hroot) (keys_ensureGroup_mono g b.key cls hb2) hb2c

end Nix.Store.C20
