import NixModel.Lemmas.C07Index

/-!
Helper lemmas for C07: `range_indices` of the three dimension kinds covers exactly the samples
inside the interval — a generic argument over any ascending coordinate function whose samples at or
below a position are bounded in number, applied three times.
-/
namespace Nix.Dim.Lemmas
open Nix Nix.Dim Nix.Dim.Gen

/-! ## uniqueness of the requested sample -/

theorem isSample_unique {mode : IndexMode} {coord : Nat → Rat} {n : Option Nat} {x : Rat} {i j : Nat}
    (hi : IsSample mode coord n x i) (hj : IsSample mode coord n x j) : i = j := by
  cases mode with
  | other => exact hi.elim
  | leq => exact Nat.le_antisymm (hj.2.2 i hi.1 hi.2.1) (hi.2.2 j hj.1 hj.2.1)
  | less => exact Nat.le_antisymm (hj.2.2 i hi.1 hi.2.1) (hi.2.2 j hj.1 hj.2.1)
  | geq => exact Nat.le_antisymm (hi.2.2 j hj.1 hj.2.1) (hj.2.2 i hi.1 hi.2.1)

/-- `Meets` in its two "iff" forms -/
theorem meets_iff {mode : IndexMode} {coord : Nat → Rat} {n : Option Nat} {x : Rat} {r : Except Err Int}
    (h : Meets mode coord n x r) :
    (∀ k : Nat, r = .ok (k : Int) ↔ IsSample mode coord n x k) ∧
    (r = .error .indexError ↔ ∀ k, ¬ IsSample mode coord n x k) ∧
    (∀ e, r = .error e → e = .indexError) ∧ (∀ i : Int, r = .ok i → 0 ≤ i) := by
  cases r with
  | ok i =>
    obtain ⟨k0, hk0, hs0⟩ := h
    subst hk0
    refine ⟨?_, ?_, ?_, ?_⟩
    · intro k
      constructor
      · intro hk
        have : (k0 : Int) = (k : Int) := by injection hk
        have : k0 = k := by exact_mod_cast this
        subst this; exact hs0
      · intro hk
        rw [isSample_unique hk hs0]
    · constructor
      · intro h; cases h
      · intro h; exact absurd hs0 (h k0)
    · intro e h; cases h
    · intro i h
      have : (k0 : Int) = i := by injection h
      omega
  | error e =>
    obtain ⟨he, hnone⟩ := h
    subst he
    refine ⟨?_, ?_, ?_, ?_⟩
    · intro k
      constructor
      · intro h; cases h
      · intro h; exact absurd h (hnone k)
    · exact ⟨fun _ => hnone, fun _ => rfl⟩
    · intro e h; injection h with h; exact h.symm
    · intro i h; cases h

/-! ## existence of first / last samples -/

theorem exists_least (P : Nat → Prop) (h : ∃ i, P i) : ∃ k, P k ∧ ∀ j, P j → k ≤ j := by
  classical
  exact ⟨Nat.find h, Nat.find_spec h, fun j hj => Nat.find_min' h hj⟩

theorem exists_greatest (P : Nat → Prop) (N : Nat) (hN : ∀ j, P j → j ≤ N) (h : ∃ i, P i) :
    ∃ k, P k ∧ ∀ j, P j → j ≤ k := by
  classical
  induction N with
  | zero =>
    obtain ⟨i, hi⟩ := h
    have : i = 0 := by have := hN i hi; omega
    subst this
    exact ⟨0, hi, hN⟩
  | succ N ih =>
    by_cases hp : P (N + 1)
    · exact ⟨N + 1, hp, hN⟩
    · apply ih
      intro j hj
      have := hN j hj
      have hne : j ≠ N + 1 := fun h => hp (h ▸ hj)
      omega

/-- only finitely many samples lie at or below any position -/
def BoundedBelow (coord : Nat → Rat) (n : Option Nat) : Prop :=
  ∀ x : Rat, ∃ N : Nat, ∀ j, InDom n j → coord j ≤ x → j ≤ N

theorem no_geq {coord : Nat → Rat} {n : Option Nat} {s : Rat}
    (h : ∀ k, ¬ IsSample .geq coord n s k) (i : Nat) (hi : InDom n i) : ¬ s ≤ coord i := by
  intro hle
  obtain ⟨k, ⟨hk1, hk2⟩, hk3⟩ := exists_least (fun j => InDom n j ∧ s ≤ coord j) ⟨i, hi, hle⟩
  exact h k ⟨hk1, hk2, fun j hj hj2 => hk3 j ⟨hj, hj2⟩⟩

theorem no_leq {coord : Nat → Rat} {n : Option Nat} {e : Rat} (hb : BoundedBelow coord n)
    (h : ∀ k, ¬ IsSample .leq coord n e k) (i : Nat) (hi : InDom n i) : ¬ coord i ≤ e := by
  intro hle
  obtain ⟨N, hN⟩ := hb e
  obtain ⟨k, ⟨hk1, hk2⟩, hk3⟩ := exists_greatest (fun j => InDom n j ∧ coord j ≤ e) N
    (fun j hj => hN j hj.1 hj.2) ⟨i, hi, hle⟩
  exact h k ⟨hk1, hk2, fun j hj hj2 => hk3 j ⟨hj, hj2⟩⟩

theorem no_less {coord : Nat → Rat} {n : Option Nat} {e : Rat} (hb : BoundedBelow coord n)
    (h : ∀ k, ¬ IsSample .less coord n e k) (i : Nat) (hi : InDom n i) : ¬ coord i < e := by
  intro hlt
  obtain ⟨N, hN⟩ := hb e
  obtain ⟨k, ⟨hk1, hk2⟩, hk3⟩ := exists_greatest (fun j => InDom n j ∧ coord j < e) N
    (fun j hj => hN j hj.1 (le_of_lt hj.2)) ⟨i, hi, hlt⟩
  exact h k ⟨hk1, hk2, fun j hj hj2 => hk3 j ⟨hj, hj2⟩⟩

/-! ## the generic `range_indices` argument -/

def endModeSpec : SliceMode → IndexMode
  | .exclusive => .less
  | .inclusive => .leq

theorem pairOrNone_meets (m : SliceMode) (coord : Nat → Rat) (n : Option Nat)
    (hasc : Ascending coord n) (hb : BoundedBelow coord n) (s e : Rat) (ra rb : Except Err Int)
    (ha : Meets .geq coord n s ra) (hbm : Meets (endModeSpec m) coord n e rb) :
    MeetsRange m coord n s e (pairOrNone ra rb) := by
  cases ra with
  | error ea =>
    obtain ⟨rfl, hnone⟩ := ha
    show ∀ i, InDom n i → ¬ InInterval m s e (coord i)
    intro i hi hin
    exact no_geq hnone i hi hin.1
  | ok a =>
    obtain ⟨ka, rfl, hka1, hka2, hka3⟩ := ha
    cases rb with
    | error eb =>
      obtain ⟨rfl, hnone⟩ := hbm
      show ∀ i, InDom n i → ¬ InInterval m s e (coord i)
      intro i hi hin
      cases m with
      | exclusive => exact no_less hb hnone i hi hin.2
      | inclusive => exact no_leq hb hnone i hi hin.2
    | ok b =>
      obtain ⟨kb, rfl, hkb⟩ := hbm
      -- what membership in the interval means for the end mode
      have hupper : ∀ i, InDom n i → InInterval m s e (coord i) → i ≤ kb := by
        intro i hi hin
        cases m with
        | exclusive => exact hkb.2.2 i hi hin.2
        | inclusive => exact hkb.2.2 i hi hin.2
      have hlower : ∀ i, InDom n i → InInterval m s e (coord i) → ka ≤ i :=
        fun i hi hin => hka3 i hi hin.1
      by_cases hgt : (ka : Int) > (kb : Int)
      · have : pairOrNone (.ok (ka : Int)) (.ok (kb : Int)) = .ok none := by
          simp [pairOrNone, hgt]
        rw [this]
        show ∀ i, InDom n i → ¬ InInterval m s e (coord i)
        intro i hi hin
        have h1 := hlower i hi hin
        have h2 := hupper i hi hin
        omega
      · have : pairOrNone (.ok (ka : Int)) (.ok (kb : Int)) = .ok (some ((ka : Int), (kb : Int))) := by
          simp [pairOrNone, hgt]
        rw [this]
        have hle : ka ≤ kb := by omega
        have hkbdom : InDom n kb := by cases m <;> exact hkb.1
        refine ⟨ka, kb, rfl, rfl, hle, hkbdom, ?_⟩
        intro i hi
        constructor
        · intro hin; exact ⟨hlower i hi hin, hupper i hi hin⟩
        · rintro ⟨h1, h2⟩
          have hs : s ≤ coord i := le_trans hka2 (hasc ka i h1 hi)
          have hc : coord i ≤ coord kb := hasc i kb h2 hkbdom
          refine ⟨hs, ?_⟩
          cases m with
          | exclusive => exact lt_of_le_of_lt hc hkb.2.1
          | inclusive => exact le_trans hc hkb.2.1

theorem empty_interval (m : SliceMode) (coord : Nat → Rat) (n : Option Nat) (s e : Rat) (h : e < s) :
    MeetsRange m coord n s e (.error .indexError) := by
  refine ⟨rfl, ?_⟩
  intro i _ hin
  cases m with
  | exclusive => have := hin.1; have := hin.2; simp only at this; linarith
  | inclusive => have := hin.1; have := hin.2; simp only at this; linarith

/-! ## the three kinds -/

theorem bounded_some (coord : Nat → Rat) (n : Nat) : BoundedBelow coord (some n) :=
  fun _ => ⟨n, fun _ hj _ => Nat.le_of_lt ((inDom_some _ _).1 hj)⟩

theorem bounded_grid (n : Option Nat) : BoundedBelow setCoord n := by
  intro x
  by_cases h : 0 ≤ x
  · obtain ⟨m, _, _, hm2⟩ := floor_nat x h
    exact ⟨m, fun j _ hj => natCast_le_of_lt_succ j m x hj hm2⟩
  · refine ⟨0, fun j _ hj => ?_⟩
    have : (0 : Rat) ≤ (j : Rat) := Nat.cast_nonneg j
    simp only [setCoord] at hj
    exact absurd (le_trans this hj) h

theorem ascending_grid (n : Option Nat) : Ascending setCoord n := by
  intro i j hij _
  simp only [setCoord]
  exact_mod_cast hij

theorem ascending_sampled (off si : Rat) (hsi : 0 < si) (n : Option Nat) : Ascending (sampledCoord off si) n := by
  intro i j hij _
  rw [sampledCoord_eq, sampledCoord_eq]
  have : (i : Rat) ≤ (j : Rat) := by exact_mod_cast hij
  have := mul_le_mul_of_nonneg_right this (le_of_lt hsi)
  linarith

theorem bounded_sampled (off si : Rat) (hsi : 0 < si) (n : Option Nat) : BoundedBelow (sampledCoord off si) n := by
  intro x
  obtain ⟨N, hN⟩ := bounded_grid n ((x - off) / si)
  exact ⟨N, fun j hj hle => hN j hj ((sampled_le off si x hsi j).1 hle)⟩

theorem rangeRangeIndicesT_meets (tbl : String × String × String)
    (htbl : ∀ m, endModeOf tbl m = endModeSpec m)
    (ticks : List Rat) (hasc : AscendingList ticks) (s e : Rat) (m : SliceMode) :
    MeetsRange m (tickCoord ticks) (some ticks.length) s e (rangeRangeIndicesT tbl ticks s e m) := by
  unfold rangeRangeIndicesT
  by_cases h : e < s
  · rw [if_pos h]; exact empty_interval m _ _ s e h
  · rw [if_neg h, htbl m]
    apply pairOrNone_meets m _ _ (tick_ascending ticks hasc) (bounded_some _ _) s e
    · exact rangeIndexOf_meets ticks hasc s .geq (by decide)
    · exact rangeIndexOf_meets ticks hasc e (endModeSpec m) (by cases m <;> decide)

theorem sampledRangeIndicesT_meets (tz th : Tol) (rnd : String) (hr : rnd = "round" ∨ rnd = "floor")
    (hz1 : 0 ≤ tz.rtol) (hz2 : 0 ≤ tz.atol) (hh1 : 0 ≤ th.rtol) (hh2 : 0 ≤ th.atol)
    (tbl : String × String × String) (htbl : ∀ m, endModeOf tbl m = endModeSpec m)
    (off si s e : Rat) (m : SliceMode) (hsi : 0 < si)
    (hs1 : SeparatedAt tz ((s - off) / si)) (hs2 : SeparatedAt th ((s - off) / si))
    (he1 : SeparatedAt tz ((e - off) / si)) (he2 : SeparatedAt th ((e - off) / si)) :
    MeetsRange m (sampledCoord off si) none s e (sampledRangeIndicesT tz true th rnd tbl off si s e m) := by
  unfold sampledRangeIndicesT
  rw [htbl m]
  apply pairOrNone_meets m _ _ (ascending_sampled off si hsi none) (bounded_sampled off si hsi none) s e
  · exact sampledIndexOfT_meets tz th rnd hr hz1 hz2 hh1 hh2 off si s .geq hsi (by decide) hs1 hs2
  · exact sampledIndexOfT_meets tz th rnd hr hz1 hz2 hh1 hh2 off si e (endModeSpec m) hsi
      (by cases m <;> decide) he1 he2

theorem setRangeIndicesT_meets (th : Tol) (hh1 : 0 ≤ th.rtol) (hh2 : 0 ≤ th.atol)
    (tbl : String × String × String) (htbl : ∀ m, endModeOf tbl m = endModeSpec m)
    (n : Nat) (s e : Rat) (m : SliceMode) (hs : SeparatedAt th s) (he : SeparatedAt th e) :
    MeetsRange m setCoord (setDom n) s e (setRangeIndicesT th "floor" tbl n s e m) := by
  unfold setRangeIndicesT
  by_cases h : e < s
  · rw [if_pos h]; exact empty_interval m _ _ s e h
  · rw [if_neg h, htbl m]
    apply pairOrNone_meets m _ _ (ascending_grid _) (bounded_grid _) s e
    · exact setIndexOfT_meets th hh1 hh2 n s .geq (by decide) hs
    · exact setIndexOfT_meets th hh1 hh2 n e (endModeSpec m) (by cases m <;> decide) he

end Nix.Dim.Lemmas
