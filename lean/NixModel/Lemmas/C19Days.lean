import NixModel.Py.Civil

/-!
# C19 — the civil-date round trip on every day 1970-01-01 … 2099-12-31

One kernel computation (`decide +kernel`, no axioms) over all 47 482 day numbers, lifted to a
`∀ d < 47482` statement by induction over the checker.
-/
namespace Nix.Civil

/-- what is checked per day `d` (days since 1970-01-01): the date is valid, its year lies in
1970..2099 (hence has four digits) and it converts back to the same day number -/
def dayOk (d : Nat) : Bool :=
  let c := civilOfDay (d + epochShift)
  dayOfCivil c.1 c.2.1 c.2.2 == d + epochShift && validDate c.1 c.2.1 c.2.2
    && decide (1970 ≤ c.1) && decide (c.1 ≤ 2099)

/-- `dayOk` for all `d < n` -/
def daysOkBelow : Nat → Bool
  | 0 => true
  | n + 1 => dayOk n && daysOkBelow n

theorem daysOkBelow_spec : ∀ n, daysOkBelow n = true → ∀ d, d < n → dayOk d = true
  | 0, _, d, h => absurd h (Nat.not_lt_zero d)
  | n + 1, hn, d, h => by
    simp only [daysOkBelow, Bool.and_eq_true] at hn
    rcases Nat.lt_succ_iff_lt_or_eq.mp h with h | h
    · exact daysOkBelow_spec n hn.2 d h
    · exact h ▸ hn.1

theorem daysOk_table : daysOkBelow days2100 = true := by decide +kernel

theorem dayOk_of_lt (d : Nat) (h : d < days2100) : dayOk d = true :=
  daysOkBelow_spec days2100 daysOk_table d h

end Nix.Civil
