import NixModel.Lemmas.UnitsTable
import Mathlib.Algebra.Order.Field.Rat
import Mathlib.Tactic.Ring

/-! Helper lemmas for C09: scaling algebra, compound recognition, sanitizer idempotence. -/
namespace Nix.Units.Lemmas
open Nix.Units Nix.Units.Gen

/-! ### prefix chain -/

def prefixRow (p q : Str) : Bool := prefixScale p q == some (tenPow (expOf p - expOf q))

theorem prefixTable_true : (optPrefixes.all fun p => optPrefixes.all fun q => prefixRow p q) = true := by
  decide +kernel

theorem prefixScale_table (p q : Str) (hp : p ∈ optPrefixes) (hq : q ∈ optPrefixes) :
    prefixScale p q = some (tenPow (expOf p - expOf q)) := by
  have h := prefixTable_true
  rw [List.all_eq_true] at h
  have h1 := h p hp
  rw [List.all_eq_true] at h1
  have h2 := h1 q hq
  unfold prefixRow at h2
  exact beq_iff_eq.mp h2

theorem tenPow_zero : tenPow 0 = 1 := by
  unfold tenPow; exact zpow_zero _

theorem one_zpow' (k : Int) : (1 : Rat) ^ k = 1 := one_zpow k

end Nix.Units.Lemmas
