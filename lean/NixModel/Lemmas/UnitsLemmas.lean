import NixModel.Lemmas.UnitsTable
import Mathlib.Algebra.Order.Field.Rat
import Mathlib.Tactic.Ring

/-! Helper lemmas for C09: scaling algebra, compound recognition, sanitizer idempotence. -/
namespace Nix.Units.Lemmas
open Nix.Units Nix.Units.Gen

/-! ### prefix chain -/

def prefixRow (p q : Str) : Bool := prefixScale p q == some (tenPow (expOf p - expOf q))

theorem prefixTable_true : (optPrefixes.all fun p => optPrefixes.all fun q => prefixRow p q) = true := by
  decide +kernel

theorem prefixScale_table (p q : Str) (hp : p ∈ optPrefixes) (hq : q ∈ optPrefixes) :
    prefixScale p q = some (tenPow (expOf p - expOf q)) := by
  have h := prefixTable_true
  rw [List.all_eq_true] at h
  have h1 := h p hp
  rw [List.all_eq_true] at h1
  have h2 := h1 q hq
  unfold prefixRow at h2
  exact beq_iff_eq.mp h2

theorem tenPow_zero : tenPow 0 = 1 := by
  unfold tenPow; exact zpow_zero _

theorem one_zpow' (k : Int) : (1 : Rat) ^ k = 1 := one_zpow k


/-! ### scaling between atoms -/

theorem powerTexts_cases : ∀ w ∈ powerTexts,
    (((w.drop 1).isEmpty = true ∧ powVal w = 1) ∨
     ((w.drop 1).isEmpty = false ∧ pyInt (w.drop 1) = some (powVal w))) := by
  decide

theorem scalingCore_eq (p q x : Str) (hp : p ∈ optPrefixes) (hq : q ∈ optPrefixes) (k : Int)
    (hx : (x.isEmpty = true ∧ k = 1) ∨ (x.isEmpty = false ∧ pyInt x = some k)) :
    scalingCore p q x x = .ok (tenPow (expOf p - expOf q) ^ k) := by
  unfold scalingCore
  by_cases hpq : p = q
  · subst hpq
    simp [tenPow_zero]
  · have hb : (p == q) = false := by simpa using hpq
    simp only [hb, Bool.false_and, Bool.false_eq_true, ↓reduceIte, prefixScale_table p q hp hq]
    rcases hx with ⟨he, hk⟩ | ⟨he, hk⟩
    · simp [he, hk]
    · simp [he, hk]

theorem scaling_atoms (p₁ p₂ u w : Str) (h₁ : p₁ ∈ optPrefixes) (h₂ : p₂ ∈ optPrefixes)
    (hu : u ∈ units) (hw : w ∈ powerTexts) :
    scalable (p₁ ++ u ++ w) (p₂ ++ u ++ w) = true ∧
    scaling (p₁ ++ u ++ w) (p₂ ++ u ++ w) = .ok (tenPow (expOf p₁ - expOf p₂) ^ powVal w) := by
  obtain ⟨_, si1, sp1⟩ := atom_table p₁ u w h₁ hu hw
  obtain ⟨_, si2, sp2⟩ := atom_table p₂ u w h₂ hu hw
  have hs : scalable (p₁ ++ u ++ w) (p₂ ++ u ++ w) = true := by
    unfold scalable
    simp only [si1, si2, sp1, sp2]
    simp
  refine ⟨hs, ?_⟩
  unfold scaling
  simp only [hs, Bool.not_true, Bool.false_eq_true, ↓reduceIte, sp1, sp2]
  exact scalingCore_eq p₁ p₂ (w.drop 1) h₁ h₂ (powVal w) (powerTexts_cases w hw)

theorem not_scalable_atoms (p₁ p₂ u₁ u₂ w₁ w₂ : Str) (h₁ : p₁ ∈ optPrefixes) (h₂ : p₂ ∈ optPrefixes)
    (hu₁ : u₁ ∈ units) (hu₂ : u₂ ∈ units) (hw₁ : w₁ ∈ powerTexts) (hw₂ : w₂ ∈ powerTexts)
    (hne : u₁ ≠ u₂ ∨ w₁.drop 1 ≠ w₂.drop 1) :
    scalable (p₁ ++ u₁ ++ w₁) (p₂ ++ u₂ ++ w₂) = false ∧
    scaling (p₁ ++ u₁ ++ w₁) (p₂ ++ u₂ ++ w₂) = .error .invalidUnit := by
  obtain ⟨_, si1, sp1⟩ := atom_table p₁ u₁ w₁ h₁ hu₁ hw₁
  obtain ⟨_, si2, sp2⟩ := atom_table p₂ u₂ w₂ h₂ hu₂ hw₂
  have hs : scalable (p₁ ++ u₁ ++ w₁) (p₂ ++ u₂ ++ w₂) = false := by
    unfold scalable
    simp only [si1, si2, sp1, sp2]
    rcases hne with h | h
    · simp [h]
    · have h' : ¬ List.tail w₁ = List.tail w₂ := by simpa using h
      simp [h']
  refine ⟨hs, ?_⟩
  unfold scaling
  simp only [hs]
  simp

theorem ratio_compose (a b c k : Int) :
    tenPow (a - b) ^ k * tenPow (b - c) ^ k = tenPow (a - c) ^ k := by
  unfold tenPow
  rw [← mul_zpow, ← zpow_add₀ (by norm_num : (10 : Rat) ≠ 0), sub_add_sub_cancel]

theorem ratio_invert (a b k : Int) : tenPow (a - b) ^ k * tenPow (b - a) ^ k = 1 := by
  rw [ratio_compose, sub_self, tenPow_zero, one_zpow]


/-! ### compound recognition -/

theorem altM_mem (alts : List Str) (a x : Str) (ha : a ∈ alts) : (a, x) ∈ altM alts (a ++ x) := by
  unfold altM
  rw [List.mem_filterMap]
  refine ⟨a, ha, ?_⟩
  have h1 : a.isPrefixOf (a ++ x) = true := by
    rw [List.isPrefixOf_iff_prefix]; exact List.prefix_append a x
  simp [h1]

theorem digitsGreedy_nil_mem (r : Str) : ([], r) ∈ digitsGreedy r := by
  cases r with
  | nil => simp [digitsGreedy]
  | cons c cs =>
    unfold digitsGreedy
    split <;> simp

theorem powerM_mem : ∀ w ∈ powerTexts, w ≠ [] → ∀ r : Str, (w, r) ∈ powerM (w ++ r) := by
  intro w hw hne r
  simp only [powerTexts, List.mem_cons, List.not_mem_nil, or_false] at hw
  rcases hw with rfl | rfl | rfl | rfl | rfl | rfl | rfl | rfl | rfl | rfl
  · exact absurd rfl hne
  all_goals
    simp [powerM, isDigit19, digitsGreedy_nil_mem]


theorem step_optPre (p : Str) (hp : p ∈ optPrefixes) (m : M) (x : Str) (h : m.rest = p ++ x) :
    ∃ m' ∈ stepPiece .optPre m, m'.rest = x := by
  unfold optPrefixes at hp
  rcases List.mem_cons.mp hp with rfl | hp
  · exact ⟨m, by simp [stepPiece], by simpa using h⟩
  · refine ⟨{ m with pre := some p, matched := m.matched ++ p, rest := x }, ?_, rfl⟩
    simp only [stepPiece, List.mem_append, List.mem_map]
    left
    exact ⟨(p, x), by rw [h]; exact altM_mem _ _ _ hp, rfl⟩

theorem step_unit (u : Str) (hu : u ∈ units) (m : M) (x : Str) (h : m.rest = u ++ x) :
    ∃ m' ∈ stepPiece .unit m, m'.rest = x := by
  refine ⟨{ m with unit := some u, matched := m.matched ++ u, rest := x }, ?_, rfl⟩
  simp only [stepPiece, List.mem_map]
  exact ⟨(u, x), by rw [h]; exact altM_mem _ _ _ hu, rfl⟩

theorem step_optPow (w : Str) (hw : w ∈ powerTexts) (m : M) (x : Str) (h : m.rest = w ++ x) :
    ∃ m' ∈ stepPiece .optPow m, m'.rest = x := by
  by_cases hne : w = []
  · subst hne
    exact ⟨m, by simp [stepPiece], by simpa using h⟩
  · refine ⟨{ m with pow := some w, matched := m.matched ++ w, rest := x }, ?_, rfl⟩
    simp only [stepPiece, List.mem_append, List.mem_map]
    left
    exact ⟨(w, x), by rw [h]; exact powerM_mem w hw hne x, rfl⟩

/-- a table atom followed by anything is matched, as a prefix, by the compound atom pattern -/
theorem atom_match (p u w : Str) (hp : p ∈ optPrefixes) (hu : u ∈ units) (hw : w ∈ powerTexts)
    (r : Str) : ∃ m ∈ matchPieces compoundAtomShape.pieces { rest := p ++ u ++ w ++ r }, m.rest = r := by
  have hsh : compoundAtomShape.pieces = [.optPre, .unit, .optPow] := rfl
  rw [hsh]
  obtain ⟨m1, hm1, r1⟩ := step_optPre p hp { rest := p ++ u ++ w ++ r } (u ++ (w ++ r)) (by simp)
  obtain ⟨m2, hm2, r2⟩ := step_unit u hu m1 (w ++ r) r1
  obtain ⟨m3, hm3, r3⟩ := step_optPow w hw m2 r r2
  refine ⟨m3, ?_, r3⟩
  simp only [matchPieces, List.mem_flatMap]
  exact ⟨m1, hm1, m2, hm2, m3, hm3, by simp⟩

theorem compoundAt_atoms (p₁ u₁ w₁ p₂ u₂ w₂ : Str) (sep : Char) (tail : Str)
    (h₁ : p₁ ∈ optPrefixes) (hu₁ : u₁ ∈ units) (hw₁ : w₁ ∈ powerTexts)
    (h₂ : p₂ ∈ optPrefixes) (hu₂ : u₂ ∈ units) (hw₂ : w₂ ∈ powerTexts)
    (hsep : sep = '*' ∨ sep = '/') :
    compoundAt ((p₁ ++ u₁ ++ w₁) ++ sep :: (p₂ ++ u₂ ++ w₂) ++ tail) = true := by
  obtain ⟨m, hm, hr⟩ := atom_match p₁ u₁ w₁ h₁ hu₁ hw₁ (sep :: (p₂ ++ u₂ ++ w₂) ++ tail)
  obtain ⟨m', hm', _⟩ := atom_match p₂ u₂ w₂ h₂ hu₂ hw₂ tail
  set s := (p₁ ++ u₁ ++ w₁) ++ sep :: (p₂ ++ u₂ ++ w₂) ++ tail with hs
  have hs' : s = p₁ ++ u₁ ++ w₁ ++ (sep :: (p₂ ++ u₂ ++ w₂) ++ tail) := by simp [hs]
  have hsepM : ((p₂ ++ u₂ ++ w₂) ++ tail) ∈ (sepM m.rest).map (·.2) := by
    rw [hr]
    rcases hsep with rfl | rfl <;> simp [sepM]
  have hats : ((p₂ ++ u₂ ++ w₂) ++ tail) ∈ atomThenSep s := by
    unfold atomThenSep
    rw [List.mem_flatMap]
    exact ⟨m, by rw [hs']; exact hm, hsepM⟩
  have hlen : s.length = (s.length - 1) + 1 := by
    have : 0 < s.length := by simp [hs]
    omega
  unfold compoundAt
  rw [List.any_eq_true]
  refine ⟨(p₂ ++ u₂ ++ w₂) ++ tail, ?_, ?_⟩
  · rw [hlen]
    simp only [plusGroups, List.mem_flatMap, List.mem_append, List.mem_singleton]
    exact ⟨_, hats, Or.inr rfl⟩
  · cases hmp : matchPieces compoundAtomShape.pieces { rest := p₂ ++ u₂ ++ w₂ ++ tail } with
    | nil => rw [hmp] at hm'; cases hm'
    | cons a l => rfl

theorem compound_atoms (p₁ u₁ w₁ p₂ u₂ w₂ : Str) (sep : Char) (tail : Str)
    (h₁ : p₁ ∈ optPrefixes) (hu₁ : u₁ ∈ units) (hw₁ : w₁ ∈ powerTexts)
    (h₂ : p₂ ∈ optPrefixes) (hu₂ : u₂ ∈ units) (hw₂ : w₂ ∈ powerTexts)
    (hsep : sep = '*' ∨ sep = '/') :
    isCompound ((p₁ ++ u₁ ++ w₁) ++ sep :: (p₂ ++ u₂ ++ w₂) ++ tail) = true ∧
    isSi ((p₁ ++ u₁ ++ w₁) ++ sep :: (p₂ ++ u₂ ++ w₂) ++ tail) = true := by
  have hc := compoundAt_atoms p₁ u₁ w₁ p₂ u₂ w₂ sep tail h₁ hu₁ hw₁ h₂ hu₂ hw₂ hsep
  set s := (p₁ ++ u₁ ++ w₁) ++ sep :: (p₂ ++ u₂ ++ w₂) ++ tail with hs
  have hne : s.isEmpty = false := by simp [hs]
  have hsearch : compoundUsesSearch = true := rfl
  have hcomp : isCompound s = true := by
    unfold isCompound
    rw [hne, hsearch]
    simp only [Bool.not_false, Bool.true_and, ↓reduceIte]
    rw [List.any_eq_true]
    refine ⟨s, ?_, hc⟩
    cases hcs : s with
    | nil => simp [hcs] at hne
    | cons c cs => simp [tails]
  refine ⟨hcomp, ?_⟩
  unfold isSi
  simp [hne, hcomp]


/-! ### sanitizer -/

theorem containsSub_cons (pat : Str) (c : Char) (cs : Str) :
    containsSub pat (c :: cs) = (pat.isPrefixOf (c :: cs) || containsSub pat cs) := by
  simp [containsSub, tails]

theorem containsSub_nil (pat : Str) (h : pat ≠ []) : containsSub pat [] = false := by
  cases pat with
  | nil => exact absurd rfl h
  | cons a l => simp [containsSub, tails, List.isPrefixOf]

theorem containsSub_single (c0 : Char) (s : Str) (h : c0 ∉ s) : containsSub [c0] s = false := by
  induction s with
  | nil => exact containsSub_nil _ (by simp)
  | cons c cs ih =>
    rw [containsSub_cons]
    have hc : c0 ≠ c := fun e => h (by simp [e])
    have hcs : c0 ∉ cs := fun e => h (by simp [e])
    simp [List.isPrefixOf, hc, ih hcs]

theorem replaceFuel_noop (old new : Str) : ∀ (fuel : Nat) (s : Str),
    containsSub old s = false → replaceFuel fuel old new s = s := by
  intro fuel
  induction fuel with
  | zero => intro s _; simp [replaceFuel]
  | succ n ih =>
    intro s h
    cases s with
    | nil => simp [replaceFuel]
    | cons c cs =>
      rw [containsSub_cons] at h
      simp only [Bool.or_eq_false_iff] at h
      simp [replaceFuel, h.1, ih cs h.2]

theorem replace_noop (old new s : Str) (h : containsSub old s = false) : replace old new s = s :=
  replaceFuel_noop old new _ s h

theorem replaceFuel_mem (old new : Str) : ∀ (fuel : Nat) (s : Str) (x : Char),
    x ∈ replaceFuel fuel old new s → x ∈ s ∨ x ∈ new := by
  intro fuel
  induction fuel with
  | zero => intro s x hx; left; simpa [replaceFuel] using hx
  | succ n ih =>
    intro s x hx
    cases s with
    | nil => simp [replaceFuel] at hx
    | cons c cs =>
      simp only [replaceFuel] at hx
      split at hx
      · rcases List.mem_append.mp hx with h | h
        · exact Or.inr h
        · rcases ih _ x h with h | h
          · exact Or.inl (List.mem_of_mem_drop h)
          · exact Or.inr h
      · rcases List.mem_cons.mp hx with h | h
        · left; simp [h]
        · rcases ih _ x h with h | h
          · left; simp [h]
          · exact Or.inr h

theorem replace_mem (old new s : Str) (x : Char) (h : x ∈ replace old new s) : x ∈ s ∨ x ∈ new :=
  replaceFuel_mem old new _ s x h

theorem replaceFuel_char_removed (c0 : Char) (new : Str) (hn : c0 ∉ new) : ∀ (fuel : Nat) (s : Str),
    s.length < fuel → c0 ∉ replaceFuel fuel [c0] new s := by
  intro fuel
  induction fuel with
  | zero => intro s h; omega
  | succ n ih =>
    intro s h
    cases s with
    | nil => simp [replaceFuel]
    | cons c cs =>
      simp only [List.length_cons] at h
      simp only [replaceFuel]
      split
      · rw [List.mem_append]
        push Not
        refine ⟨hn, ih _ ?_⟩
        simp; omega
      · rename_i hnp
        have hc : c0 ≠ c := by
          intro e
          apply hnp
          simp [List.isPrefixOf, e]
        rw [List.mem_cons]
        push Not
        exact ⟨hc, ih cs (by omega)⟩

theorem replace_char_removed (c0 : Char) (new s : Str) (hn : c0 ∉ new) : c0 ∉ replace [c0] new s :=
  replaceFuel_char_removed c0 new hn _ s (by omega)

theorem replaceFuel_length_le (old new : Str) (hl : new.length ≤ old.length) : ∀ (fuel : Nat) (s : Str),
    (replaceFuel fuel old new s).length ≤ s.length := by
  intro fuel
  induction fuel with
  | zero => intro s; simp [replaceFuel]
  | succ n ih =>
    intro s
    cases s with
    | nil => simp [replaceFuel]
    | cons c cs =>
      simp only [replaceFuel]
      split
      · rename_i hp
        simp only [Bool.and_eq_true] at hp
        have hpre := List.isPrefixOf_iff_prefix.mp hp.1
        have hlen := hpre.length_le
        have := ih ((c :: cs).drop old.length)
        simp only [List.length_append, List.length_drop] at *
        omega
      · have := ih cs
        simp only [List.length_cons]
        omega

theorem replaceFuel_length_lt (old new : Str) (hl : new.length < old.length) : ∀ (fuel : Nat) (s : Str),
    s.length < fuel → containsSub old s = true → (replaceFuel fuel old new s).length < s.length := by
  intro fuel
  induction fuel with
  | zero => intro s h; omega
  | succ n ih =>
    intro s h hc
    cases s with
    | nil =>
      have : old ≠ [] := by intro e; simp [e] at hl
      rw [containsSub_nil old this] at hc
      cases hc
    | cons c cs =>
      simp only [List.length_cons] at h
      simp only [replaceFuel]
      split
      · rename_i hp
        simp only [Bool.and_eq_true] at hp
        have hpre := List.isPrefixOf_iff_prefix.mp hp.1
        have hlen := hpre.length_le
        have := replaceFuel_length_le old new (Nat.le_of_lt hl) n ((c :: cs).drop old.length)
        simp only [List.length_append, List.length_drop] at *
        omega
      · rename_i hnp
        rw [containsSub_cons] at hc
        have hold : old.isEmpty = false := by
          cases old with
          | nil => simp at hl
          | cons a l => rfl
        have hpf : old.isPrefixOf (c :: cs) = false := by
          cases hq : old.isPrefixOf (c :: cs) with
          | false => rfl
          | true => exact absurd (by simp [hq, hold]) hnp
        rw [hpf, Bool.false_or] at hc
        have := ih cs (by omega) hc
        simp only [List.length_cons]
        omega

theorem replaceFix_clean (old new : Str) (hl : new.length < old.length) : ∀ (fuel : Nat) (s : Str),
    s.length ≤ fuel → containsSub old (replaceFix fuel old new s) = false := by
  have hne : old ≠ [] := by intro e; simp [e] at hl
  intro fuel
  induction fuel with
  | zero =>
    intro s h
    have : s = [] := List.eq_nil_of_length_eq_zero (by omega)
    subst this
    simpa [replaceFix] using containsSub_nil old hne
  | succ n ih =>
    intro s h
    simp only [replaceFix]
    split
    · rename_i hc
      apply ih
      have := replaceFuel_length_lt old new hl (s.length + 1) s (by omega) hc
      unfold replace
      omega
    · rename_i hc
      simpa using hc

theorem replaceFix_mem (old new : Str) : ∀ (fuel : Nat) (s : Str) (x : Char),
    x ∈ replaceFix fuel old new s → x ∈ s ∨ x ∈ new := by
  intro fuel
  induction fuel with
  | zero => intro s x hx; left; simpa [replaceFix] using hx
  | succ n ih =>
    intro s x hx
    simp only [replaceFix] at hx
    split at hx
    · rcases ih _ x hx with h | h
      · exact replace_mem old new s x h
      · exact Or.inr h
    · exact Or.inl hx

theorem replaceFix_noop (old new : Str) (fuel : Nat) (s : Str) (h : containsSub old s = false) :
    replaceFix fuel old new s = s := by
  cases fuel with
  | zero => rfl
  | succ n => simp [replaceFix, h]

def micro1 : Char := Char.ofNat 181
def micro2 : Char := Char.ofNat 956

theorem sanitizer_unfold (s : Str) :
    sanitizer s =
      (let t := replace [micro2] ['u'] (replace [micro1] ['u'] (replace [' '] [] s))
       replaceFix t.length ['m', 'u'] ['u'] t) := rfl

theorem sanitizer_is_clean' (s : Str) :
    ' ' ∉ sanitizer s ∧ micro1 ∉ sanitizer s ∧ micro2 ∉ sanitizer s ∧
    containsSub ['m', 'u'] (sanitizer s) = false := by
  rw [sanitizer_unfold]
  set s1 := replace [' '] [] s with hs1
  set s2 := replace [micro1] ['u'] s1 with hs2
  set s3 := replace [micro2] ['u'] s2 with hs3
  have h1 : ' ' ∉ s1 := replace_char_removed ' ' [] s (by simp)
  have h2a : micro1 ∉ s2 := replace_char_removed micro1 ['u'] s1 (by decide)
  have h2b : ' ' ∉ s2 := by
    intro h
    rcases replace_mem _ _ _ _ h with h | h
    · exact h1 h
    · simp at h
  have h3a : micro2 ∉ s3 := replace_char_removed micro2 ['u'] s2 (by decide)
  have h3b : ' ' ∉ s3 := by
    intro h
    rcases replace_mem _ _ _ _ h with h | h
    · exact h2b h
    · simp at h
  have h3c : micro1 ∉ s3 := by
    intro h
    rcases replace_mem _ _ _ _ h with h | h
    · exact h2a h
    · revert h; decide
  refine ⟨?_, ?_, ?_, ?_⟩
  · intro h
    rcases replaceFix_mem _ _ _ _ _ h with h | h
    · exact h3b h
    · simp at h
  · intro h
    rcases replaceFix_mem _ _ _ _ _ h with h | h
    · exact h3c h
    · revert h; decide
  · intro h
    rcases replaceFix_mem _ _ _ _ _ h with h | h
    · exact h3a h
    · revert h; decide
  · exact replaceFix_clean ['m', 'u'] ['u'] (by simp) s3.length s3 (Nat.le_refl _)

theorem sanitizer_is_clean (s : Str) :
    ' ' ∉ sanitizer s ∧ 'µ' ∉ sanitizer s ∧ 'μ' ∉ sanitizer s ∧
    containsSub ['m', 'u'] (sanitizer s) = false := sanitizer_is_clean' s

theorem sanitizer_idem (s : Str) : sanitizer (sanitizer s) = sanitizer s := by
  obtain ⟨h1, h2, h3, h4⟩ := sanitizer_is_clean' s
  generalize sanitizer s = t at *
  rw [sanitizer_unfold]
  simp only
  rw [replace_noop [' '] [] t (containsSub_single _ _ h1),
    replace_noop [micro1] ['u'] t (containsSub_single _ _ h2),
    replace_noop [micro2] ['u'] t (containsSub_single _ _ h3),
    replaceFix_noop _ _ _ _ h4]

end Nix.Units.Lemmas
