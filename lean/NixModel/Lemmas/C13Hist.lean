import NixModel.Lemmas.C13Inv
import NixModel.Lemmas.C13Supplied
import NixModel.Pure.TreeIdsHist

/-!
# C13 — the id texts a history leaves behind are fit when the ids it supplies are

`runT` (Pure/TreeIdsHist.lean) runs a history whose `create_section` calls may supply ids.  Here: the forest is the
one `run` builds from the same operations without the ids (hence well-formed, `wf_run`), and the stored texts are a
sub-list of the texts the history supplies - so conditions on the *supplied* texts (pairwise different, ids, none of
them a library-made id) give `SuppliedOK` of the final state.
-/

namespace Nix.Tree.Ids
open Nix.Tree Nix.Py

theorem applyT_f (sh : IdLookup) (s : StT) (op : OpT) : (applyT sh s op).f = apply s.f op.toOp := by
  cases op with
  | plain op =>
    simp only [applyT, stepT, OpT.toOp, apply]
    cases step s.f op with
    | ok r => rfl
    | error e => rfl
  | createSectionOid p n t oid =>
    simp only [applyT, stepT, OpT.toOp, apply]
    cases step s.f (.createSection p n t) with
    | error e => rfl
    | ok r =>
      obtain ⟨f', r'⟩ := r
      cases storedId sh oid <;> rfl

theorem runT_f (sh : IdLookup) : ∀ (ops : List OpT) (s : StT), (runT sh s ops).f = run s.f (ops.map OpT.toOp)
  | [], _ => rfl
  | op :: ops, s => by
    show (runT sh (applyT sh s op) ops).f = run (apply s.f op.toOp) (ops.map OpT.toOp)
    rw [runT_f sh ops, applyT_f]

/-- the forest of a history with supplied ids is a state some history of `Pure/Tree.lean` leads to -/
theorem runT_reachable (sh : IdLookup) (ops : List OpT) : Reachable (runT sh {} ops).f :=
  ⟨ops.map OpT.toOp, runT_f sh ops {}⟩

theorem applyT_given (sh : IdLookup) (s : StT) (op : OpT) :
    ((applyT sh s op).given.map Prod.snd).Sublist (suppliedTexts sh [op] ++ s.given.map Prod.snd) := by
  cases op with
  | plain op =>
    simp only [applyT, stepT, suppliedTexts, List.nil_append]
    cases step s.f op with
    | ok r => exact List.Sublist.refl _
    | error e => exact List.Sublist.refl _
  | createSectionOid p n t oid =>
    simp only [applyT, stepT, suppliedTexts]
    cases step s.f (.createSection p n t) with
    | error e =>
      cases storedId sh oid with
      | none => exact List.Sublist.refl _
      | some tx => exact List.Sublist.cons _ (List.Sublist.refl _)
    | ok r =>
      obtain ⟨f', r'⟩ := r
      cases storedId sh oid with
      | none => exact List.Sublist.refl _
      | some tx => exact List.Sublist.refl _

theorem suppliedTexts_cons (sh : IdLookup) (op : OpT) (ops : List OpT) :
    suppliedTexts sh (op :: ops) = suppliedTexts sh [op] ++ suppliedTexts sh ops := by
  cases op with
  | plain op => rfl
  | createSectionOid p n t oid =>
    simp only [suppliedTexts]
    cases storedId sh oid <;> rfl

theorem runT_given (sh : IdLookup) : ∀ (ops : List OpT) (s : StT),
    ((runT sh s ops).given.map Prod.snd).Sublist ((suppliedTexts sh ops).reverse ++ s.given.map Prod.snd)
  | [], s => by simp [runT, suppliedTexts]
  | op :: ops, s => by
    show ((runT sh (applyT sh s op) ops).given.map Prod.snd).Sublist _
    refine (runT_given sh ops (applyT sh s op)).trans ?_
    rw [suppliedTexts_cons, List.reverse_append, List.append_assoc]
    refine List.Sublist.append (List.Sublist.refl _) ?_
    refine (applyT_given sh s op).trans ?_
    refine List.Sublist.append ?_ (List.Sublist.refl _)
    -- a list of at most one element is its own reverse
    cases op with
    | plain op => exact List.Sublist.refl _
    | createSectionOid p n t oid =>
      simp only [suppliedTexts]
      cases storedId sh oid <;> exact List.Sublist.refl _

/-- **the texts of the final state are fit when the supplied ones are**: pairwise different, ids, none of them the
library-made id of a section of the final forest; those library-made ids (of the sections whose id was not
supplied) are pairwise different ids; nobody named
like an id in the final forest -/
theorem suppliedOK_of_history (sh : IdLookup) (gen : Nat → String) (ops : List OpT)
    (genOK : ∀ a ∈ keysL (runT sh {} ops).f.sections, (runT sh {} ops).given.lookup a = none →
      uuidAccepts (gen a) = true ∧
      ∀ b ∈ keysL (runT sh {} ops).f.sections, (runT sh {} ops).given.lookup b = none → gen a = gen b → a = b)
    (hnd : (suppliedTexts sh ops).Nodup)
    (hu : ∀ t ∈ suppliedTexts sh ops, uuidAccepts t = true ∧
      ∀ a ∈ keysL (runT sh {} ops).f.sections, (runT sh {} ops).given.lookup a = none → t ≠ gen a)
    (hn : ∀ n ∈ nodesL (runT sh {} ops).f.sections,
      (∀ a ∈ keysL (runT sh {} ops).f.sections, (runT sh {} ops).given.lookup a = none → n.name ≠ gen a) ∧
      ∀ t ∈ suppliedTexts sh ops, n.name ≠ t) :
    SuppliedOK (runT sh {} ops).given gen (runT sh {} ops).f.sections := by
  have hsub := runT_given sh ops {}
  simp only [List.map_nil, List.append_nil] at hsub
  have hmem : ∀ k t, (k, t) ∈ (runT sh {} ops).given → t ∈ suppliedTexts sh ops := by
    intro k t h
    exact List.mem_reverse.mp (hsub.subset (List.mem_map.mpr ⟨(k, t), h, rfl⟩))
  exact
    { genInj := fun a ha hla => (genOK a ha hla).2
      genUuid := fun a ha hla => (genOK a ha hla).1
      givenUuid := fun k t h => (hu t (hmem k t h)).1
      givenNodup := List.Nodup.sublist hsub (List.pairwise_reverse.mpr (List.Pairwise.imp (fun h => Ne.symm h) hnd))
      sep := fun k t h => (hu t (hmem k t h)).2
      names := fun n hn' => ⟨(hn n hn').1, fun k t h => (hn n hn').2 t (hmem k t h)⟩ }

end Nix.Tree.Ids
