import NixModel.Lemmas.C15Float

/-! Helper lemmas for C15: a stored element that is not itself a double (64-bit integers beyond 2^53) is
rounded by `astype(double)` before the origin is subtracted — an *absolute* perturbation of the argument. -/
namespace Nix.Poly.Lemmas
open Nix.Poly

theorem evalAbs_mono (l : List Rat) (p q : Rat) (hp : 0 ≤ p) (hpq : p ≤ q) : evalAbs p l ≤ evalAbs q l := by
  induction l with
  | nil => simp [evalAbs_nil]
  | cons a l ih =>
    rw [evalAbs_cons, evalAbs_cons]
    have h2 := evalAbs_nonneg p hp l
    nlinarith

theorem abs_evalAsc_le (y : Rat) (c : List Rat) : |evalAsc y c| ≤ evalAbs |y| c := by
  induction c with
  | nil => simp [evalAsc, evalAbs_nil]
  | cons a c ih =>
    rw [evalAbs_cons]
    simp only [evalAsc]
    have h1 := abs_add_le a (y * evalAsc y c)
    have h2 : |y * evalAsc y c| ≤ |y| * evalAbs |y| c := by
      rw [abs_mul]; exact mul_le_mul_of_nonneg_left ih (abs_nonneg _)
    linarith

/-- moving the argument by at most `d` moves the polynomial by at most `Σ|cₖ|((|y|+d)ᵏ − |y|ᵏ)` -/
theorem eval_shift (y y' d : Rat) (hd : |y' - y| ≤ d) (c : List Rat) :
    |evalAsc y' c - evalAsc y c| ≤ evalAbs (|y| + d) c - evalAbs |y| c := by
  have hd0 : 0 ≤ d := le_trans (abs_nonneg _) hd
  have hy' : |y'| ≤ |y| + d := by
    have : y' = y + (y' - y) := by ring
    rw [this]
    exact le_trans (abs_add_le _ _) (by linarith)
  induction c with
  | nil => simp [evalAsc, evalAbs_nil]
  | cons a c ih =>
    have e : evalAsc y' (a :: c) - evalAsc y (a :: c)
        = y' * (evalAsc y' c - evalAsc y c) + (y' - y) * evalAsc y c := by
      simp only [evalAsc]; ring
    rw [e, evalAbs_cons, evalAbs_cons]
    have h1 : |y' * (evalAsc y' c - evalAsc y c)| ≤ (|y| + d) * (evalAbs (|y| + d) c - evalAbs |y| c) := by
      rw [abs_mul]
      exact mul_le_mul hy' ih (abs_nonneg _) (by positivity)
    have h2 : |(y' - y) * evalAsc y c| ≤ d * evalAbs |y| c := by
      rw [abs_mul]
      exact mul_le_mul hd (abs_evalAsc_le y c) (abs_nonneg _) hd0
    have h3 := abs_add_le (y' * (evalAsc y' c - evalAsc y c)) ((y' - y) * evalAsc y c)
    nlinarith

end Nix.Poly.Lemmas
