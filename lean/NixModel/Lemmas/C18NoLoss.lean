import NixModel.Lemmas.C18Total

/-! no run loses a per-value extra — for every file whose datasets have names, without the no-clash hypothesis -/
namespace Nix.Upgrade.Lemmas
open Nix.Upgrade

theorem suffix_nonempty : ∀ s ∈ suffixes, s.toList ≠ [] := by decide

theorem extraPath_ne_self {s : String} (hs : s ∈ suffixes) : ∀ {p : Path}, p ≠ [] → extraPath p s ≠ p
  | [], hp, _ => hp rfl
  | [a], _, h => by
    simp only [extraPath, List.cons.injEq, and_true] at h
    have hl := congrArg String.toList h
    rw [String.toList_append, List.append_right_eq_self] at hl
    exact suffix_nonempty s hs hl
  | a :: b :: t, _, h => by
    simp only [extraPath, List.cons.injEq, true_and] at h
    exact extraPath_ne_self hs (p := b :: t) (by simp) h

theorem not_mem_extras_self {p : Path} (hp : p ≠ []) : p ∉ extras p := by
  unfold extras
  intro h
  obtain ⟨s, hs, he⟩ := List.mem_map.mp h
  exact extraPath_ne_self hs hp he

/-- what the reader sees of `g` when looking for the extras of `p`, knowing the original file `f0`: a dataset
whose name was already taken in `f0` is somebody else's -/
def visible (f0 g : List (Path × PObj)) (p : Path) : List (Path × PObj) :=
  g.filter fun e => e.1 == p || !hasPath f0 e.1

structure Done2 (r : Nat) (f0 g : List (Path × PObj)) (p : Path) (o : OldProp) : Prop where
  mem : ∀ e ∈ converted r p o, e ∈ g
  only : ∀ x ∈ extras p, x ∈ g.map (·.1) → x ∈ f0.map (·.1) ∨ x ∈ (converted r p o).map (·.1)
  free : ∀ e ∈ (converted r p o).tail, e.1 ∉ f0.map (·.1)

structure Inv2 (r : Nat) (f0 g : List (Path × PObj)) : Prop where
  nodup : (g.map (·.1)).Nodup
  names : ∀ x ∈ f0.map (·.1), x ∈ g.map (·.1)
  oldFrom : ∀ q o, (q, PObj.old o) ∈ g → (q, PObj.old o) ∈ f0
  oldOrDone : ∀ q o, (q, PObj.old o) ∈ f0 → (q, PObj.old o) ∈ g ∨ Done2 r f0 g q o
  keepNew : ∀ q n, (q, PObj.new n) ∈ f0 → (q, PObj.new n) ∈ g
  pathsFrom : ∀ x ∈ g.map (·.1), x ∈ f0.map (·.1) ∨
    ∃ q o, (q, PObj.old o) ∈ f0 ∧ (q, PObj.old o) ∉ g ∧ x ∈ extras q

theorem Inv2.refl (r : Nat) {f0 : List (Path × PObj)} (h : (f0.map (·.1)).Nodup) : Inv2 r f0 f0 :=
  ⟨h, fun _ h => h, fun _ _ h => h, fun _ _ h => Or.inl h, fun _ _ h => h, fun _ h => Or.inl h⟩

theorem converted_cons (r : Nat) (p : Path) (o : OldProp) :
    converted r p o = (p, PObj.new (mainOf r o)) :: (converted r p o).tail := by
  rw [converted_eq]; rfl

theorem hasPath_iff {ps : List (Path × PObj)} {x : Path} : hasPath ps x = true ↔ x ∈ ps.map (·.1) := by
  unfold hasPath
  simp only [List.any_eq_true, beq_iff_eq, List.mem_map]

section
variable {r : Nat} {f0 g : List (Path × PObj)} {p : Path} {o : OldProp}

theorem inv2_convert (hnd0 : (f0.map (·.1)).Nodup) (hnamed : ∀ e ∈ f0, e.1 ≠ [])
    (hinv : Inv2 r f0 g) (hp : (p, PObj.old o) ∈ g) (hfree : nameTaken g (converted r p o) = false) :
    (createAll (g.filter (·.1 != p)) (converted r p o)).2 = none ∧
    Inv2 r f0 (g.filter (·.1 != p) ++ converted r p o) := by
  have hnd := hinv.nodup
  have hp0 : (p, PObj.old o) ∈ f0 := hinv.oldFrom p o hp
  have hpg : p ∈ g.map (·.1) := List.mem_map.mpr ⟨_, hp, rfl⟩
  have hpne : p ≠ [] := hnamed _ hp0
  have hok := createAll_converted_ok (r := r) (o := o) hnd hpg hfree
  have htail : ∀ e ∈ (converted r p o).tail, e.1 ∉ g.map (·.1) := by
    intro e he hmem
    unfold nameTaken at hfree
    have := List.any_eq_false.mp hfree e he
    exact this (hasPath_iff.mpr hmem)
  have hconvPaths : ∀ x ∈ (converted r p o).map (·.1), x = p ∨ x ∈ extras p := converted_paths_sub r p o
  have hbase : ∀ x ∈ (g.filter (·.1 != p)).map (·.1), x ∈ g.map (·.1) ∧ x ≠ p := by
    intro x hx
    obtain ⟨e, he, rfl⟩ := List.mem_map.mp hx
    have := mem_filter_ne.mp he
    exact ⟨List.mem_map.mpr ⟨e, this.1, rfl⟩, this.2⟩
  have hinbase : ∀ x ∈ g.map (·.1), x ≠ p → x ∈ (g.filter (·.1 != p)).map (·.1) := by
    intro x hx hne
    obtain ⟨e, he, rfl⟩ := List.mem_map.mp hx
    exact List.mem_map.mpr ⟨e, mem_filter_ne.mpr ⟨he, hne⟩, rfl⟩
  have hnoold : ∀ q o', (q, PObj.old o') ∉ g.filter (·.1 != p) ++ converted r p o ∨ ((q, PObj.old o') ∈ g ∧ q ≠ p) := by
    intro q o'
    by_cases h : (q, PObj.old o') ∈ g.filter (·.1 != p) ++ converted r p o
    · right
      rcases List.mem_append.mp h with h1 | h1
      · exact mem_filter_ne.mp h1
      · exact absurd h1 (converted_no_old r p q o o')
    · exact Or.inl h
  -- an extra path of `p` present in `g` was a name of the original file
  have hExtraInG : ∀ x ∈ extras p, x ∈ g.map (·.1) → x ∈ f0.map (·.1) := by
    intro x hx hxg
    rcases hinv.pathsFrom x hxg with h | ⟨q, o', hq0, hqg, hxq⟩
    · exact h
    · exfalso
      unfold extras at hx hxq
      obtain ⟨s, hs, rfl⟩ := List.mem_map.mp hx
      obtain ⟨s', hs', he⟩ := List.mem_map.mp hxq
      have hqp : q = p := (extraPath_inj hs' hs (hnamed _ hq0) hpne he).1
      subst hqp
      have := mem_unique hnd0 hq0 hp0
      rw [this] at hqg
      exact hqg hp
  refine ⟨hok, ?_⟩
  constructor
  · -- nodup
    have := createAll_nodup _ _ (filter_paths_nodup p hnd) hok
    rwa [createAll_ok _ _ hok] at this
  · -- names
    intro x hx
    have hxg := hinv.names x hx
    rw [List.map_append, List.mem_append]
    by_cases hxp : x = p
    · right; rw [hxp, converted_cons]; simp
    · exact Or.inl (hinbase x hxg hxp)
  · -- oldFrom
    intro q o' hq
    rcases hnoold q o' with h | h
    · exact absurd hq h
    · exact hinv.oldFrom q o' h.1
  · -- oldOrDone
    intro q o' hq
    by_cases hqp : q = p
    · subst hqp
      have ho : PObj.old o' = PObj.old o := mem_unique hnd0 hq hp0
      cases ho
      right
      refine ⟨fun e he => List.mem_append_right _ he, fun x hx hxg => ?_, fun e he hmem => ?_⟩
      · rw [List.map_append, List.mem_append] at hxg
        rcases hxg with h | h
        · exact Or.inl (hExtraInG x hx (hbase x h).1)
        · exact Or.inr h
      · exact htail e he (hinv.names _ hmem)
    · rcases hinv.oldOrDone q o' hq with h | h
      · exact Or.inl (List.mem_append_left _ (mem_filter_ne.mpr ⟨h, hqp⟩))
      · right
        have hqne : q ≠ [] := hnamed _ hq
        refine ⟨fun e he => ?_, fun x hx hxg => ?_, h.free⟩
        · apply List.mem_append_left
          refine mem_filter_ne.mpr ⟨h.mem e he, ?_⟩
          intro hep
          rw [converted_cons] at he
          rcases List.mem_cons.mp he with h1 | h1
          · rw [h1] at hep; exact hqp hep
          · exact h.free e h1 (hep ▸ List.mem_map.mpr ⟨_, hp0, rfl⟩)
        · rw [List.map_append, List.mem_append] at hxg
          rcases hxg with h1 | h1
          · exact h.only x hx (hbase x h1).1
          · rcases hconvPaths x h1 with h2 | h2
            · exact Or.inl (h2 ▸ List.mem_map.mpr ⟨_, hp0, rfl⟩)
            · exfalso
              unfold extras at hx h2
              obtain ⟨s, hs, rfl⟩ := List.mem_map.mp hx
              obtain ⟨s', hs', he⟩ := List.mem_map.mp h2
              exact hqp (extraPath_inj hs' hs hpne hqne he).1.symm
  · -- keepNew
    intro q n hq
    have hqg := hinv.keepNew q n hq
    have hne : q ≠ p := by
      intro h; subst h
      cases mem_unique hnd hqg hp
    exact List.mem_append_left _ (mem_filter_ne.mpr ⟨hqg, hne⟩)
  · -- pathsFrom
    intro x hx
    rw [List.map_append, List.mem_append] at hx
    rcases hx with h | h
    · rcases hinv.pathsFrom x (hbase x h).1 with h1 | ⟨q, o', hq0, hqg, hxq⟩
      · exact Or.inl h1
      · refine Or.inr ⟨q, o', hq0, ?_, hxq⟩
        intro hmem
        rcases hnoold q o' with h2 | h2
        · exact h2 hmem
        · exact hqg h2.1
    · rcases hconvPaths x h with h1 | h1
      · exact Or.inl (h1 ▸ List.mem_map.mpr ⟨_, hp0, rfl⟩)
      · refine Or.inr ⟨p, o, hp0, ?_, h1⟩
        intro hmem
        rcases hnoold p o with h2 | h2
        · exact h2 hmem
        · exact h2.2 rfl

end

theorem inv2_convertProp {r : Nat} {f0 : List (Path × PObj)} (hnd0 : (f0.map (·.1)).Nodup)
    (hnamed : ∀ e ∈ f0, e.1 ≠ []) (f : File) (q : Path) (hinv : Inv2 r f0 f.props) :
    Inv2 r f0 (convertProp r f q).1.props := by
  unfold convertProp
  cases hl : lookup f.props q with
  | none => exact hinv
  | some x =>
    cases x with
    | new n => exact hinv
    | old o =>
      simp only
      cases ht : nameTaken f.props (converted r q o) with
      | true => exact hinv
      | false =>
        simp only [Bool.false_eq_true, ↓reduceIte]
        have hmem : (q, PObj.old o) ∈ f.props := by
          unfold lookup at hl
          obtain ⟨e', he', h2⟩ := Option.map_eq_some_iff.mp hl
          have h1 := List.mem_of_find?_eq_some he'
          have h3 := List.find?_some he'
          have : e' = (q, PObj.old o) := by
            obtain ⟨a, b⟩ := e'
            simp only at h2 h3
            simp only [beq_iff_eq] at h3
            rw [h2, h3]
          exact this ▸ h1
        obtain ⟨hok, hI⟩ := inv2_convert hnd0 hnamed hinv hmem ht
        rw [createAll_ok _ _ hok]
        exact hI

theorem inv2_applyStep {lib : List Nat} {r : Nat} {f0 : List (Path × PObj)} (hnd0 : (f0.map (·.1)).Nodup)
    (hnamed : ∀ e ∈ f0, e.1 ≠ []) (f : File) (s : Step) (hinv : Inv2 r f0 f.props) :
    Inv2 r f0 (applyStep lib r f s).1.props := by
  cases s with
  | addId => simp only [applyStep]; cases hasValidId f <;> exact hinv
  | prop q => exact inv2_convertProp hnd0 hnamed f q hinv
  | dim a d => simp only [applyStep]; rw [(convertDim_props r f a d).1]; exact hinv
  | bump => exact hinv

theorem inv2_runSteps {lib : List Nat} {r : Nat} {f0 : List (Path × PObj)} (hnd0 : (f0.map (·.1)).Nodup)
    (hnamed : ∀ e ∈ f0, e.1 ≠ []) (ss : List Step) : ∀ f : File, Inv2 r f0 f.props →
    Inv2 r f0 (runSteps lib r f ss).1.props := by
  induction ss with
  | nil => intro f h; exact h
  | cons s ss ih =>
    intro f h
    rw [runSteps_cons]
    have h1 := inv2_applyStep (lib := lib) hnd0 hnamed f s h
    generalize applyStep lib r f s = res at h1
    obtain ⟨f', e⟩ := res
    cases e with
    | some e => exact h1
    | none => exact ih f' h1

/-- arrays, dimension readings and everything else are kept by a successful upgrade of any file -/
theorem upgrade_rest_kept {lib : List Nat} {r : Nat} {f : File} (hwf : WF f) (hok : (upgrade lib r f).2 = none) :
    (upgrade lib r f).1.arrays.map arrView = f.arrays.map arrView ∧ (upgrade lib r f).1.other = f.other := by
  refine (run_induction_ok (lib := lib) (r := r)
    (fun g => g.arrays.map arrView = f.arrays.map arrView ∧ g.other = f.other) ?_ _ f rfl hwf ⟨rfl, rfl⟩ hok).1
  intro g s rest g' hwfg hP hc hs
  rcases head_class hc with rfl | ⟨p, t, rfl, _⟩ | ⟨ap, dn, D, rfl, hd⟩ | rfl
  · simp only [applyStep] at hs
    split at hs <;> (cases hs; exact hP)
  · simp only [applyStep] at hs
    obtain ⟨_, _, h3, h4, _⟩ := convertProp_kept r g p hwfg.1
    rw [hs] at h3 h4
    simp only at h3 h4
    rw [h3, h4]
    exact hP
  · simp only [applyStep] at hs
    obtain ⟨h1, _, h3⟩ := convertDim_view hs
    rw [h1, h3]
    exact hP
  · simp only [applyStep, Prod.mk.injEq] at hs
    rw [← hs.1]
    exact hP

/-- a finished conversion decodes from what the reader sees -/
theorem done2_decode {r : Nat} {f0 g : List (Path × PObj)} {p : Path} {o : OldProp}
    (hnd : (g.map (·.1)).Nodup) (hpne : p ≠ []) (hd : Done2 r f0 g p o) :
    lookup g p = some (.new (mainOf r o)) ∧
    extraUnc (visible f0 g p) p = some (o.rows.map (·.uncertainty)) ∧
    extraStr (visible f0 g p) p ".reference" = some (o.rows.map (·.reference)) ∧
    extraStr (visible f0 g p) p ".filename" = some (o.rows.map (·.filename)) ∧
    extraStr (visible f0 g p) p ".encoder" = some (o.rows.map (·.encoder)) ∧
    extraStr (visible f0 g p) p ".checksum" = some (o.rows.map (·.checksum)) := by
  have hmain : (p, PObj.new (mainOf r o)) ∈ g := hd.mem _ (by rw [converted_cons]; simp)
  have hvnd : ((visible f0 g p).map (·.1)).Nodup := hnd.sublist (List.Sublist.map _ List.filter_sublist)
  have hD : Done r (visible f0 g p) p o := by
    refine ⟨fun e he => ?_, fun x hx hxv => ?_⟩
    · unfold visible
      rw [List.mem_filter]
      refine ⟨hd.mem e he, ?_⟩
      rw [converted_cons] at he
      rcases List.mem_cons.mp he with h | h
      · rw [h]; simp
      · have := hd.free e h
        have hh : hasPath f0 e.1 = false := by
          cases hq : hasPath f0 e.1 with
          | false => rfl
          | true => exact absurd (hasPath_iff.mp hq) this
        simp [hh]
    · obtain ⟨e, he, rfl⟩ := List.mem_map.mp hxv
      unfold visible at he
      rw [List.mem_filter] at he
      have hne : e.1 ≠ p := fun h => not_mem_extras_self hpne (h ▸ hx)
      have hnot : e.1 ∉ f0.map (·.1) := by
        intro hin
        have := he.2
        simp only [Bool.or_eq_true, beq_iff_eq, Bool.not_eq_true', hne, false_or] at this
        rw [hasPath_iff.mpr hin] at this
        cases this
      rcases hd.only e.1 hx (List.mem_map.mpr ⟨e, he.1, rfl⟩) with h | h
      · exact absurd h hnot
      · exact h
  have hq : (p :: extras p).Nodup := List.nodup_cons.mpr ⟨not_mem_extras_self hpne, extras_nodup_any p⟩
  obtain ⟨_, h2, h3, h4, h5, h6⟩ := decode_all hvnd hD hq
  exact ⟨lookup_of_mem hnd hmain, h2, h3, h4, h5, h6⟩

end Nix.Upgrade.Lemmas
