import NixModel.Lemmas.C01History

/-! Helper lemmas for C01: region assignment read back through the same selection; whole-array write and
creation with data. -/
namespace Nix.Nd.Lemmas
open Nix Nix.Nd

/-! ### well-formed selections -/

/-- what `select` produces: positive steps; an integer index selects exactly one coordinate -/
def WfSel (sel : List AxisSel) : Prop := ∀ s ∈ sel, 0 < s.step ∧ (s.scalar = true → 0 < s.count)

theorem selectAxis_wf {n : Nat} {ix : Ix} {s : AxisSel} (h : selectAxis n ix = .ok s) :
    0 < s.step ∧ (s.scalar = true → 0 < s.count) := by
  cases ix with
  | int i =>
    simp only [selectAxis] at h
    by_cases hc : 0 ≤ wrapIndex n i ∧ wrapIndex n i < (n : Int)
    · rw [if_pos hc] at h; cases h; simp
    · rw [if_neg hc] at h; cases h
  | slice a b c =>
    simp only [selectAxis] at h
    by_cases h1 : sliceStep c < 1
    · rw [if_pos h1] at h; cases h
    · rw [if_neg h1] at h
      by_cases h2 : adjustBound n n b < adjustBound n 0 a
      · rw [if_pos h2] at h; cases h; simp
      · rw [if_neg h2] at h; cases h
        exact ⟨by simp only; omega, by simp⟩

theorem select_wf : ∀ (sh : List Nat) (ixs : List Ix) (sel : List AxisSel), select sh ixs = .ok sel → WfSel sel
  | [], [], sel, h => by
    simp only [select] at h; cases h; intro s hs; simp at hs
  | [], _ :: _, sel, h => by simp [select] at h
  | n :: ns, [], sel, h => by
    simp only [select] at h
    split at h
    · rename_i r hr
      cases h
      intro s hs
      simp only [List.mem_cons] at hs
      rcases hs with hs | hs
      · subst hs; simp
      · exact select_wf ns [] r hr s hs
    · cases h
  | n :: ns, ix :: ixs, sel, h => by
    simp only [select] at h
    split at h
    · cases h
    · rename_i s0 hs0
      split at h
      · rename_i r hr
        cases h
        intro s hs
        simp only [List.mem_cons] at hs
        rcases hs with hs | hs
        · subst hs; exact selectAxis_wf hs0
        · exact select_wf ns ixs r hr s hs
      · cases h

theorem hit_abs (s : AxisSel) (hs : 0 < s.step) (r : Nat) (hr : r < s.count) :
    s.hit (s.start + r * s.step) = some r := by
  unfold AxisSel.hit
  have h0 : s.step ≠ 0 := by omega
  have h1 : s.start + r * s.step - s.start = r * s.step := by omega
  simp [h0, h1, Nat.mul_div_cancel _ hs, hr]

/-- relative coordinates of a selection-array index, with 0 on the integer-indexed axes -/
def fullRel : List AxisSel → List Nat → List Nat
  | [], _ => []
  | s :: ss, rs =>
    if s.scalar then 0 :: fullRel ss rs
    else match rs with
      | [] => 0 :: fullRel ss []
      | r :: rs' => r :: fullRel ss rs'

theorem relIdx_absIdx : ∀ (sel : List AxisSel) (r : List Nat), WfSel sel → inBounds r (selShape sel) = true →
    relIdx sel (absIdx sel r) = some (fullRel sel r)
  | [], [], _, _ => rfl
  | [], _ :: _, _, h => by simp [selShape, inBounds] at h
  | s :: ss, r, hw, hb => by
    have hs := hw s (by simp)
    have hw' : WfSel ss := fun x hx => hw x (by simp [hx])
    by_cases hsc : s.scalar = true
    · simp only [selShape, hsc, if_true] at hb
      have h0 : s.hit s.start = some 0 := by
        have := hit_abs s hs.1 0 (hs.2 hsc)
        simpa using this
      simp only [absIdx, fullRel, hsc, if_true, relIdx, h0, relIdx_absIdx ss r hw' hb]
    · have hsc' : s.scalar = false := by simpa using hsc
      simp only [selShape, hsc', Bool.false_eq_true, if_false] at hb
      cases r with
      | nil => simp [inBounds] at hb
      | cons x xs =>
        simp only [inBounds, Bool.and_eq_true, decide_eq_true_eq] at hb
        simp only [absIdx, fullRel, hsc', Bool.false_eq_true, if_false, relIdx, hit_abs s hs.1 x hb.1,
          relIdx_absIdx ss xs hw' hb.2]

theorem bcastIdxRev_scalar_source : ∀ (sel : List AxisSel) (rel : List Nat), bcastIdxRev sel rel [] = []
  | [], _ => rfl
  | _ :: _, [] => rfl
  | s :: ss, r :: rs => by
    simp only [bcastIdxRev]
    split
    · exact bcastIdxRev_scalar_source ss rs
    · rfl

theorem bcastIdx_scalar_source (sel : List AxisSel) (rel : List Nat) : bcastIdx sel rel [] = [] := by
  simp [bcastIdx, bcastIdxRev_scalar_source]

theorem fullRel_nonscalar : ∀ (sel : List AxisSel) (r : List Nat), (∀ s ∈ sel, s.scalar = false) →
    inBounds r (selShape sel) = true → fullRel sel r = r ∧ selShape sel = sel.map (·.count)
  | [], [], _, _ => ⟨rfl, rfl⟩
  | [], _ :: _, _, h => by simp [selShape, inBounds] at h
  | s :: ss, r, hs, hb => by
    have h1 : s.scalar = false := hs s (by simp)
    simp only [selShape, h1, Bool.false_eq_true, if_false] at hb
    cases r with
    | nil => simp [inBounds] at hb
    | cons x xs =>
      simp only [inBounds, Bool.and_eq_true, decide_eq_true_eq] at hb
      have ih := fullRel_nonscalar ss xs (fun y hy => hs y (by simp [hy])) hb.2
      simp [fullRel, selShape, h1, ih.1, ih.2]

/-! ### whole-array write -/

theorem select_no_ixs : ∀ sh : List Nat, select sh [] = .ok (mkSel (sh.map fun _ => 0) sh)
  | [] => rfl
  | n :: ns => by simp [select, select_no_ixs ns, mkSel]

theorem selectAxis_full (n : Nat) : selectAxis n (Ix.slice none none none) = .ok ⟨0, 1, n, false⟩ := by
  have hlo : adjustBound n 0 none = 0 := rfl
  have hhi : adjustBound n n none = n := rfl
  simp only [selectAxis, sliceStep, hlo, hhi]
  have h2 : ¬ ((1 : Int) < 1) := by omega
  rw [if_neg h2, if_neg (Nat.not_lt_zero n)]
  by_cases hn : n = 0
  · subst hn; simp
  · rw [if_neg hn]
    congr 1
    simp
    omega

theorem select_full (n : Nat) (ns : List Nat) :
    select (n :: ns) [Ix.slice none none none] = .ok (mkSel ((n :: ns).map fun _ => 0) (n :: ns)) := by
  simp [select, selectAxis_full, select_no_ixs, mkSel]

/-- `write_direct` of data with the array's own shape (rank ≥ 1) replaces the complete content -/
theorem writeDirect_exact (A : DArr) (D : NdArray Elem) (hsh : D.shape = A.arr.shape) (hr : A.arr.shape ≠ []) :
    ∃ B, writeDirect A D = .ok B ∧ B.dtype = A.dtype ∧ B.compressed = A.compressed ∧
      B.arr.shape = A.arr.shape ∧ ∀ idx, inBounds idx A.arr.shape = true → B.arr.get idx = D.get idx := by
  cases hA : A.arr.shape with
  | nil => exact absurd hA hr
  | cons n ns =>
    have hsel := select_full n ns
    have hcnt : (mkSel ((n :: ns).map fun _ => 0) (n :: ns)).map (·.count) = D.shape := by
      rw [hsh, hA]; exact mkSel_counts _ _ (by simp)
    refine ⟨{ A with arr := A.arr.setRegion (mkSel ((n :: ns).map fun _ => 0) (n :: ns)) D }, ?_, rfl, rfl, ?_, ?_⟩
    · unfold writeDirect assign
      rw [hA, hsel]
      simp only
      rw [if_pos (bcastOk_exact _ _ hcnt (mkSel_nonscalar _ _))]
    · simp [NdArray.setRegion, hA]
    · intro idx hb
      simp only [NdArray.setRegion, relIdx_full (n :: ns) idx hb]
      rw [bcastIdx_exact _ _ _ hcnt (mkSel_nonscalar _ _) (by rw [hsh, hA]; exact hb)]

theorem contiguous_rank (D : NdArray Elem) : (contiguous D).shape ≠ [] := by
  unfold contiguous
  split
  · simp
  · assumption

end Nix.Nd.Lemmas
