import NixModel.Pure.Stamps
import NixModel.Lemmas.C19Time

/-!
# C19 — lemmas about the time stamp machine `Pure.Stamps`

`step_ent` describes what one operation can do to an entity that already exists (nothing, mark it
deleted, write its `updated_at` through the auto-update idiom, or write one stamp through a force
call); `step_new` describes entities that appear.  Everything in `Props/C19.lean` is derived from
these two and from the round trip of `Pure.Time`.
-/
namespace Nix.Stamps.Lemmas
open Nix.Time Nix.Stamps Nix.Stamps.Gen

theorem getElem?_setUpdated (ents : List Ent) (i : Nat) (v : Str) (j : Nat) :
    (setUpdated ents i v)[j]? =
      (ents[j]?).map (fun e => if i = j then { e with updated := some v } else e) := by
  simp [setUpdated, List.getElem?_modify]

theorem getElem?_setCreated (ents : List Ent) (i : Nat) (v : Str) (j : Nat) :
    (setCreated ents i v)[j]? =
      (ents[j]?).map (fun e => if i = j then { e with created := some v } else e) := by
  simp [setCreated, List.getElem?_modify]

theorem length_setUpdated (ents : List Ent) (i : Nat) (v : Str) :
    (setUpdated ents i v).length = ents.length := by simp [setUpdated]

theorem length_setCreated (ents : List Ent) (i : Nat) (v : Str) :
    (setCreated ents i v).length = ents.length := by simp [setCreated]

/-- no path of any member of any class runs `self.force_updated_at()` outside the test of the switch
(a fact about `Generated/Setters.lean`: `Nix.C19.C19_no_unguarded_stamp`) -/
def NoUnguarded : Prop := ∀ mb ∈ members, ∀ o ∈ mb.outcomes, o.touch ≠ .always

theorem lookupIn_mem {c : Cls} {m : Mem} {mb : Member} (h : lookupIn c m = some mb) : mb ∈ members := by
  unfold lookupIn at h
  exact List.mem_of_find?_eq_some h

theorem resolve_mem {c : Cls} {m : Mem} {mb : Member} (h : resolve c m = some mb) : mb ∈ members := by
  unfold resolve at h
  obtain ⟨c', _, hc'⟩ := List.exists_of_findSome?_eq_some h
  exact lookupIn_mem hc'

/-- the outcome a call of the model takes is none of the unguarded ones (there are none) -/
theorem not_always (hna : NoUnguarded) {c : Cls} {m : Mem} {mb : Member} {o : Outcome}
    (hres : resolve c m = some mb) (hin : ¬ ((!mb.outcomes.contains o) = true)) : o.touch ≠ .always := by
  have : o ∈ mb.outcomes := by simpa using hin
  exact hna mb (resolve_mem hres) o this

def Op.isCall : Op → Bool
  | .call _ _ _ _ => true
  | _ => false

/-- what one operation does to an entity `e` at index `j` that exists before it -/
inductive EntStep (s : State) (op : Op) (j : Nat) (e : Ent) : Ent → Prop
  | same : EntStep s op j e e
  | dead : EntStep s op j e { e with alive := false }
  | touched (v : Str) : s.auto = true → Op.isCall op = true → Op.target s op = some j →
      timeToStr s.clock = .ok v → EntStep s op j e { e with updated := some v }
  | forcedU (t : TimeArg) (v : Str) : op = .forceUpdated j t → timeArgStr s t = .ok v →
      EntStep s op j e { e with updated := some v }
  | forcedC (t : TimeArg) (v : Str) : op = .forceCreated j t → timeArgStr s t = .ok v →
      EntStep s op j e { e with created := some v }

theorem aliveAt_some {s : State} {i : Nat} {ent : Ent} (h : aliveAt s i = some ent) :
    s.ents[i]? = some ent ∧ ent.alive = true := by
  unfold aliveAt at h
  split at h
  · rename_i e he
    split at h
    · rename_i ha
      cases h
      exact ⟨he, ha⟩
    · cases h
  · cases h

theorem step_ent (hna : NoUnguarded) (s : State) (op : Op) (j : Nat) (e : Ent) (h : s.ents[j]? = some e) :
    ∃ e', (step s op).1.ents[j]? = some e' ∧ EntStep s op j e e' := by
  have hj : j < s.ents.length := by
    rcases Nat.lt_or_ge j s.ents.length with hlt | hge
    · exact hlt
    · rw [List.getElem?_eq_none hge] at h; cases h
  cases op with
  | create k p inp =>
    simp only [step]
    split
    · exact ⟨e, h, .same⟩
    · split
      · exact ⟨e, h, .same⟩
      · split
        · exact ⟨e, h, .same⟩
        · exact ⟨e, h, .same⟩
        · split
          · exact ⟨e, h, .same⟩
          · refine ⟨e, ?_, .same⟩
            simp only [List.getElem?_append_left hj, h]
  | copy src p =>
    simp only [step]
    split
    · split
      · exact ⟨e, h, .same⟩
      · refine ⟨e, ?_, .same⟩
        simp only [List.getElem?_append_left hj, h]
    · exact ⟨e, h, .same⟩
  | call e0 via m o =>
    simp only [step]
    split
    · exact ⟨e, h, .same⟩
    · rename_i ent hal
      split
      · exact ⟨e, h, .same⟩
      · rename_i mb hres
        split
        · exact ⟨e, h, .same⟩
        · exact ⟨e, h, .same⟩
        · split
          · exact ⟨e, h, .same⟩
          · rename_i hin
            split
            · rename_i hauto
              split
              · exact ⟨e, h, .same⟩
              · rename_i htouch
                split
                · exact ⟨e, h, .same⟩
                · rename_i v hv
                  simp only [getElem?_setUpdated, h, Option.map_some]
                  by_cases hej : e0 = j
                  · subst hej
                    refine ⟨{ e with updated := some v }, by simp, ?_⟩
                    refine .touched v hauto rfl ?_ hv
                    simp only [Op.target, hal, htouch]
                  · exact ⟨e, by simp [hej], .same⟩
              · rename_i htouch
                split
                · exact ⟨e, h, .same⟩
                · rename_i v hv
                  simp only [getElem?_setUpdated, h, Option.map_some]
                  by_cases hej : ent.parent = j
                  · refine ⟨{ e with updated := some v }, by simp [hej], ?_⟩
                    refine .touched v hauto rfl ?_ hv
                    simp only [Op.target, hal, htouch, hej]
                  · exact ⟨e, by simp [hej], .same⟩
              · rename_i htouch
                split
                · exact ⟨e, h, .same⟩
                · rename_i v hv
                  simp only [getElem?_setUpdated, h, Option.map_some]
                  by_cases hej : e0 = j
                  · subst hej
                    refine ⟨{ e with updated := some v }, by simp, ?_⟩
                    refine .touched v hauto rfl ?_ hv
                    simp only [Op.target, hal, htouch]
                  · exact ⟨e, by simp [hej], .same⟩
              · rename_i htouch
                exact absurd htouch (not_always hna hres hin)
            · split
              · rename_i htouch
                exact absurd htouch (not_always hna hres hin)
              · exact ⟨e, h, .same⟩
  | forceCreated e0 t =>
    simp only [step]
    split
    · exact ⟨e, h, .same⟩
    · split
      · exact ⟨e, h, .same⟩
      · split
        · exact ⟨e, h, .same⟩
        · split
          · exact ⟨e, h, .same⟩
          · rename_i v hv
            simp only [getElem?_setCreated, h, Option.map_some]
            by_cases hej : e0 = j
            · subst hej
              exact ⟨_, by simp, .forcedC t v rfl hv⟩
            · exact ⟨e, by simp [hej], .same⟩
  | forceUpdated e0 t =>
    simp only [step]
    split
    · exact ⟨e, h, .same⟩
    · split
      · exact ⟨e, h, .same⟩
      · split
        · exact ⟨e, h, .same⟩
        · split
          · exact ⟨e, h, .same⟩
          · rename_i v hv
            simp only [getElem?_setUpdated, h, Option.map_some]
            by_cases hej : e0 = j
            · subst hej
              exact ⟨_, by simp, .forcedU t v rfl hv⟩
            · exact ⟨e, by simp [hej], .same⟩
  | setAuto b => exact ⟨e, h, .same⟩
  | setClock t => exact ⟨e, h, .same⟩
  | delete e0 =>
    simp only [step]
    split
    · exact ⟨e, h, .same⟩
    · split
      · exact ⟨e, h, .same⟩
      · simp only [List.getElem?_mapIdx, h, Option.map_some]
        split
        · exact ⟨_, rfl, .dead⟩
        · exact ⟨e, rfl, .same⟩
  | reopen a => exact ⟨e, h, .same⟩

/-- entities that appear: by `create`, with both stamps = the text of the clock, or by `copy`, with the
stored stamps of an entity that exists already -/
theorem step_new (s : State) (op : Op) (j : Nat) (e' : Ent) (hj : s.ents.length ≤ j)
    (h : (step s op).1.ents[j]? = some e') :
    (∃ v, timeToStr s.clock = .ok v ∧ e'.created = some v ∧ e'.updated = some v) ∨
    (∃ (src : Nat) (se : Ent), s.ents[src]? = some se ∧ e'.created = se.created ∧ e'.updated = se.updated) := by
  have hnone : s.ents[j]? = none := List.getElem?_eq_none hj
  have absurd_same : (s.ents[j]? = some e') → False := by rw [hnone]; intro x; cases x
  cases op with
  | copy src p =>
    simp only [step] at h
    split at h
    · split at h
      · exact (absurd_same h).elim
      · right
        simp only at h
        rw [List.getElem?_append_right hj] at h
        have hmem : e' ∈ copies s.ents src p := List.mem_of_getElem? h
        obtain ⟨x, hx, hxe⟩ := List.mem_map.mp hmem
        have hx' : x ∈ s.ents.zipIdx := (List.mem_filter.mp hx).1
        have hget : s.ents[x.2]? = some x.1 := by
          have := List.mem_zipIdx hx'
          simp only [Nat.zero_le, Nat.zero_add, Nat.sub_zero, true_and] at this
          obtain ⟨hlt, heq⟩ := this
          rw [List.getElem?_eq_getElem hlt, heq]
        refine ⟨x.2, x.1, hget, ?_⟩
        subst hxe
        exact ⟨rfl, rfl⟩
    · exact (absurd_same h).elim
  | create k p inp =>
    simp only [step] at h
    split at h
    · exact (absurd_same h).elim
    · split at h
      · exact (absurd_same h).elim
      · split at h
        · exact (absurd_same h).elim
        · exact (absurd_same h).elim
        · split at h
          · exact (absurd_same h).elim
          · rename_i v hv
            left
            refine ⟨v, hv, ?_⟩
            simp only at h
            rcases Nat.lt_or_ge j (s.ents.length + 1) with hlt | hge
            · have hje : j = s.ents.length := by omega
              subst hje
              simp at h
              subst h
              exact ⟨rfl, rfl⟩
            · rw [List.getElem?_eq_none (by simp; omega)] at h
              cases h
  | call e0 via m o =>
    exfalso
    have hlen : (step s (.call e0 via m o)).1.ents.length = s.ents.length := by
      simp only [step]
      repeat' split
      all_goals simp [length_setUpdated]
    rw [List.getElem?_eq_none (by omega)] at h
    cases h
  | forceCreated e0 t =>
    exfalso
    have hlen : (step s (.forceCreated e0 t)).1.ents.length = s.ents.length := by
      simp only [step]
      repeat' split
      all_goals simp [length_setCreated]
    rw [List.getElem?_eq_none (by omega)] at h
    cases h
  | forceUpdated e0 t =>
    exfalso
    have hlen : (step s (.forceUpdated e0 t)).1.ents.length = s.ents.length := by
      simp only [step]
      repeat' split
      all_goals simp [length_setUpdated]
    rw [List.getElem?_eq_none (by omega)] at h
    cases h
  | setAuto b => exact (absurd_same h).elim
  | setClock t => exact (absurd_same h).elim
  | delete e0 =>
    exfalso
    have hlen : (step s (.delete e0)).1.ents.length = s.ents.length := by
      simp only [step]
      repeat' split
      all_goals simp
    rw [List.getElem?_eq_none (by omega)] at h
    cases h
  | reopen a => exact (absurd_same h).elim

theorem step_clock (s : State) (op : Op) :
    (step s op).1.clock = match op with | .setClock t => t | _ => s.clock := by
  cases op <;> simp only [step] <;> repeat' split
  all_goals rfl

theorem step_auto (s : State) (op : Op) :
    (step s op).1.auto = match op with | .setAuto b => b | .reopen b => b | _ => s.auto := by
  cases op <;> simp only [step] <;> repeat' split
  all_goals rfl

/-! ## reading -/

theorem timeToStr_ok_of_inRange (t : Int) (h : InRange t) :
    ∃ v, timeToStr t = .ok v ∧ strToTime v = .ok t := by
  have := Nix.Time.Lemmas.roundtrip t h
  cases hv : timeToStr t with
  | error e => rw [hv] at this; cases this
  | ok v => rw [hv] at this; exact ⟨v, rfl, this⟩

theorem readStamp_written (t : Int) (h : InRange t) (v : Str) (hv : timeToStr t = .ok v) :
    readStamp (some v) = .ok (some t) := by
  obtain ⟨v', hv', hr⟩ := timeToStr_ok_of_inRange t h
  rw [hv] at hv'
  cases hv'
  simp [readStamp, hr]

end Nix.Stamps.Lemmas
