import NixModel.Lemmas.C16Schema
import NixModel.Pure.FrameBytes
/-! Lemmas for C16: the byte-level machine of `Pure/FrameBytes.lean` (text cells as UTF-8 bytes, raw and converted
reads as in the code) simulates the abstract frame of `Pure/Frame.lean`: started from the encoding of a well-formed
frame it stays the encoding of the abstract frame, and its reads return what the abstract reads return. -/
namespace Nix.Frame

/-- decoding the UTF-8 encoding of a string gives the string back -/
theorem ensureStr_toUTF8 (s : String) : ensureStr s.toUTF8 = .ok (.str s) := by
  simp [ensureStr, String.fromUTF8?, String.toUTF8, s.isValidUTF8, String.fromUTF8]

theorem wellTyped_str {t : ColType} {s : String} (h : wellTyped t (.str s) = true) : t = .text := by
  cases t <;> simp [wellTyped] at h ⊢

theorem convStringCell_enc {t : ColType} {v : Val} (h : wellTyped t v = true) :
    convStringCell t (enc v) = .ok v := by
  cases v with
  | int n => rfl
  | flt r => rfl
  | bool b => rfl
  | str s =>
    have := wellTyped_str h
    subst this
    simp only [enc, convStringCell, if_true]
    exact ensureStr_toUTF8 s

theorem convStringCols_enc : ∀ {ts : List ColType} {r : Row}, rowOK ts r = true →
    convStringCols ts (encRow r) = .ok r
  | [], [], _ => rfl
  | t :: ts, v :: vs, h => by
    simp only [rowOK, Bool.and_eq_true] at h
    simp [encRow, convStringCols, convStringCell_enc h.1]
    have := convStringCols_enc h.2
    simp only [encRow] at this
    rw [this]
  | [], _ :: _, h => by simp [rowOK] at h
  | _ :: _, [], h => by simp [rowOK] at h

theorem convStringRows_enc {ts : List ColType} : ∀ {rows : List Row}, (∀ r ∈ rows, rowOK ts r = true) →
    convStringRows ts (rows.map encRow) = .ok rows
  | [], _ => rfl
  | r :: rs, h => by
    simp only [List.map_cons, convStringRows]
    rw [convStringCols_enc (h r (by simp)), convStringRows_enc (fun x hx => h x (by simp [hx]))]

-- ---------------------------------------------------------------------------------------
-- reads

theorem sReadAll_enc {f : Frame} (wf : WF f) : sReadAll (encFrame f) = .ok f.rows :=
  convStringRows_enc wf.rows

theorem sReadRow_enc {f : Frame} (wf : WF f) (i : Int) : sReadRow (encFrame f) i = readRow f i := by
  simp only [sReadRow, readRow, encFrame, List.length_map, List.getElem?_map]
  cases hn : normIdx f.rows.length i with
  | none => rfl
  | some k =>
    cases hk : f.rows[k]? with
    | none => simp [hk]
    | some r =>
      simp only [hk, Option.map_some]
      exact convStringCols_enc (wf.rows r (List.mem_of_getElem? hk))

theorem sGetRows_enc (rows : List Row) : ∀ (ks : List Nat),
    sGetRows (rows.map encRow) ks = (getRows rows ks).map (·.map encRow)
  | [] => rfl
  | k :: ks => by
    simp only [sGetRows, getRows, List.getElem?_map]
    cases rows[k]? with
    | none => rfl
    | some r =>
      simp only [Option.map_some]
      rw [sGetRows_enc rows ks]
      cases getRows rows ks <;> rfl

theorem getRows_mem {rows : List Row} : ∀ {ks : List Nat} {rs : List Row}, getRows rows ks = .ok rs →
    ∀ r ∈ rs, r ∈ rows
  | [], rs, h => by
    simp [getRows] at h; cases h; simp
  | k :: ks, rs, h => by
    simp only [getRows] at h
    split at h
    · cases h
    · rename_i r hr
      split at h
      · cases h
      · rename_i rs' hrs
        injection h with h; subst h
        intro x hx
        rcases List.mem_cons.1 hx with e | e
        · subst e; exact List.mem_of_getElem? hr
        · exact getRows_mem hrs x e

theorem sReadRows_enc {f : Frame} (wf : WF f) (idx : List Int) : sReadRows (encFrame f) idx = readRows f idx := by
  simp only [sReadRows, readRows, encFrame, List.length_map]
  cases hs : selectList f.rows.length idx .indexError with
  | error e => rfl
  | ok ks =>
    simp only []
    rw [sGetRows_enc]
    cases hg : getRows f.rows ks with
    | error e => rfl
    | ok rs =>
      simp only [Except.map]
      exact convStringRows_enc (fun r hr => wf.rows r (getRows_mem hg r hr))

theorem sliceList_map {α β : Type} (g : α → β) (l : List α) (lo hi : Option Int) :
    sliceList (l.map g) lo hi = (sliceList l lo hi).map g := by
  simp [sliceList, List.map_drop, List.map_take]

theorem sliceList_mem {α : Type} {l : List α} {lo hi : Option Int} {x : α} (h : x ∈ sliceList l lo hi) : x ∈ l := by
  simp only [sliceList] at h
  exact List.mem_of_mem_take (List.mem_of_mem_drop h)

theorem sReadColumns_enc {f : Frame} (wf : WF f) (sel : Except Err (List Nat)) (lo hi : Option Int) :
    sReadColumns (encFrame f) sel lo hi = readColumns f sel lo hi := by
  simp only [sReadColumns, readColumns, encFrame]
  cases sel with
  | error e => rfl
  | ok ks =>
    simp only []
    split
    · rfl
    · rw [sliceList_map]
      have : convStringRows (SFrame.types ⟨f.cols, f.rows.map encRow, f.units⟩)
          ((sliceList f.rows lo hi).map encRow) = .ok (sliceList f.rows lo hi) :=
        convStringRows_enc (fun r hr => wf.rows r (sliceList_mem hr))
      rw [this]

theorem sReadCellPos_enc {f : Frame} (wf : WF f) (pos : List Int) :
    sReadCellPos (encFrame f) pos = readCellPos f pos := by
  match pos with
  | [] => rfl
  | [_] => rfl
  | [ri, ci] =>
    simp only [sReadCellPos, readCellPos, sReadRow_enc wf]
    cases readRow f ri <;> rfl
  | _ :: _ :: _ :: _ => rfl

theorem sReadCellName_enc {f : Frame} (wf : WF f) (name : String) (ri : Int) :
    sReadCellName (encFrame f) name ri = readCellName f name ri := by
  unfold sReadCellName readCellName
  rw [sReadRow_enc wf]
  rfl

-- ---------------------------------------------------------------------------------------
-- writes: the byte-level step is the encoding of the abstract step

theorem map_set' {α β : Type} (g : α → β) : ∀ (l : List α) (k : Nat) (a : α),
    (l.map g).set k (g a) = (l.set k a).map g
  | [], _, _ => rfl
  | _ :: _, 0, _ => rfl
  | x :: xs, k + 1, a => by
    show g x :: ((xs.map g).set k (g a)) = g x :: ((xs.set k a).map g)
    rw [map_set' g xs k a]

theorem sAppendRows_enc (f : Frame) (rows : List (List Val)) :
    sAppendRows (encFrame f) rows = (encFrame (appendRows f rows).1, (appendRows f rows).2) := by
  simp only [sAppendRows, appendRows]
  have : (encFrame f).types = f.types := rfl
  rw [this]
  cases convRows f.types rows with
  | error e => rfl
  | ok rs => simp [encFrame]

theorem sAppendCell_enc : ∀ (rows : List Row) (ws : List Val),
    sAppendCell (rows.map encRow) (ws.map enc) = (appendCell rows ws).map encRow
  | [], _ => by simp [sAppendCell, appendCell]
  | _ :: _, [] => by simp [sAppendCell, appendCell]
  | r :: rs, w :: ws => by
    simp [sAppendCell, appendCell, sAppendCell_enc rs ws, encRow]

theorem sAppendColumn_enc (f : Frame) (col : List Val) (name : String) (dt : Option ColType) :
    sAppendColumn (encFrame f) col name dt =
      (encFrame (appendColumn f col name dt).1, (appendColumn f col name dt).2) := by
  unfold sAppendColumn appendColumn
  have hl : (encFrame f).rows.length = f.rows.length := by simp [encFrame]
  have hc : (encFrame f).cols = f.cols := rfl
  rw [hl, hc]
  by_cases h : col.length ≠ f.rows.length
  · simp [h]
  · simp only [h, if_false]
    have tail : ∀ t : ColType,
        (match mkDtype (f.cols ++ [(name, t)]) with
          | .error e => (encFrame f, some e)
          | .ok cols' =>
            match convCol t col with
            | .error e => (encFrame f, some e)
            | .ok ws =>
              (({ cols := cols', rows := sAppendCell (encFrame f).rows (ws.map enc),
                  units := (encFrame f).units.map (· ++ [none]) } : SFrame), (none : Option Err))) =
        (encFrame (match mkDtype (f.cols ++ [(name, t)]) with
          | .error e => (f, some e)
          | .ok cols' =>
            match convCol t col with
            | .error e => (f, some e)
            | .ok ws =>
              (({ cols := cols', rows := appendCell f.rows ws, units := f.units.map (· ++ [none]) } : Frame),
                (none : Option Err))).1,
         (match mkDtype (f.cols ++ [(name, t)]) with
          | .error e => (f, some e)
          | .ok cols' =>
            match convCol t col with
            | .error e => (f, some e)
            | .ok ws =>
              (({ cols := cols', rows := appendCell f.rows ws, units := f.units.map (· ++ [none]) } : Frame),
                (none : Option Err))).2) := by
      intro t
      cases mkDtype (f.cols ++ [(name, t)]) with
      | error e => rfl
      | ok cols' =>
        simp only []
        cases convCol t col with
        | error e => rfl
        | ok ws => simp only [encFrame, sAppendCell_enc]
    cases dt with
    | some t => exact tail t
    | none =>
      cases col with
      | nil => rfl
      | cons v vs => exact tail (typeOfVal v)

theorem sSetMany_enc : ∀ (ks : List Nat) (rows rs : List Row),
    sSetMany (rows.map encRow) ks (rs.map encRow) = (setMany rows ks rs).map encRow
  | [], rows, rs => by simp [sSetMany, setMany]
  | _ :: _, rows, [] => by simp [sSetMany, setMany]
  | k :: ks, rows, r :: rs => by
    simp only [List.map_cons, sSetMany, setMany, map_set']
    exact sSetMany_enc ks _ rs

theorem sWriteRows_enc (f : Frame) (rows : List (List Val)) (idx : List Int) :
    sWriteRows (encFrame f) rows idx = (encFrame (writeRows f rows idx).1, (writeRows f rows idx).2) := by
  unfold sWriteRows writeRows
  have hl : (encFrame f).rows.length = f.rows.length := by simp [encFrame]
  have ht : (encFrame f).types = f.types := rfl
  rw [hl, ht]
  cases rows with
  | nil => rfl
  | cons r0 rest =>
    simp only []
    split
    · rfl
    · split
      · rfl
      · cases convRows f.types (r0 :: rest) with
        | error e => rfl
        | ok rs =>
          simp only []
          cases selectList f.rows.length idx .typeError with
          | error e => rfl
          | ok ks => simp only [encFrame, sSetMany_enc]

theorem sWriteRowFlat_enc (f : Frame) (row : List Val) (idx : List Int) :
    sWriteRowFlat (encFrame f) row idx = (encFrame (writeRowFlat f row idx).1, (writeRowFlat f row idx).2) := by
  unfold sWriteRowFlat writeRowFlat
  cases row with
  | nil => rfl
  | cons v vs =>
    simp only []
    split
    · rfl
    · exact sWriteRows_enc f _ idx

theorem sWriteColLoop_enc (t : ColType) (c : Nat) : ∀ (rows : List Row) (col : List Val),
    sWriteColLoop t c (rows.map encRow) col =
      ((writeColLoop t c rows col).1.map encRow, (writeColLoop t c rows col).2)
  | [], col => by cases col <;> simp [sWriteColLoop, writeColLoop]
  | r :: rs, [] => by simp [sWriteColLoop, writeColLoop]
  | r :: rs, v :: vs => by
    simp only [List.map_cons, sWriteColLoop, writeColLoop]
    cases conv t v with
    | error e => simp
    | ok w =>
      simp only [sWriteColLoop_enc t c rs vs, List.map_cons, encRow, map_set']

theorem sResolveColName_enc (f : Frame) (index : Option Int) (name : Option String) :
    sResolveColName (encFrame f) index name = resolveColName f index name := rfl

theorem sWriteColumn_enc (f : Frame) (col : List Val) (index : Option Int) (name : Option String) :
    sWriteColumn (encFrame f) col index name =
      (encFrame (writeColumn f col index name).1, (writeColumn f col index name).2) := by
  unfold sWriteColumn writeColumn
  have hl : (encFrame f).rows.length = f.rows.length := by simp [encFrame]
  rw [hl, sResolveColName_enc]
  split
  · rfl
  · cases resolveColName f index name with
    | error e => rfl
    | ok nm =>
      simp only []
      cases hr : f.rows with
      | nil => simp [encFrame, hr]
      | cons r0 rest =>
        have hr' : (encFrame f).rows = encRow r0 :: rest.map encRow := by simp [encFrame, hr]
        simp only [hr']
        have hc : (encFrame f).cols = f.cols := rfl
        rw [hc]
        cases findCol f.cols nm with
        | none => rfl
        | some c =>
          simp only []
          cases f.cols[c]? with
          | none => rfl
          | some ct =>
            simp only []
            have := sWriteColLoop_enc ct.2 c (r0 :: rest) col
            simp only [List.map_cons] at this
            rw [this]
            cases hw : writeColLoop ct.2 c (r0 :: rest) col with
            | mk rows' e =>
              cases e with
              | none => simp [encFrame]
              | some e => simp [encFrame, hr]

theorem sWriteCellPos_enc {f : Frame} (wf : WF f) (cell : Val) (pos : List Int) :
    sWriteCellPos (encFrame f) cell pos =
      (encFrame (writeCellPos f cell pos).1, (writeCellPos f cell pos).2) := by
  match pos with
  | [] => rfl
  | [_] => rfl
  | _ :: _ :: _ :: _ => rfl
  | [ri, ci] =>
    simp only [sWriteCellPos, writeCellPos, sReadRow_enc wf]
    have hl : (encFrame f).rows.length = f.rows.length := by simp [encFrame]
    have hc : (encFrame f).cols = f.cols := rfl
    rw [hl, hc]
    cases hn : normIdx f.rows.length ri with
    | none => rfl
    | some r =>
      simp only [readRow, hn]
      cases f.rows[r]? with
      | none => rfl
      | some row =>
        simp only []
        cases normIdx f.cols.length ci with
        | none => rfl
        | some c =>
          simp only []
          cases f.cols[c]? with
          | none => rfl
          | some ct =>
            simp only []
            cases conv ct.2 cell with
            | error e => rfl
            | ok w => simp [encFrame]

theorem sWriteCellName_enc {f : Frame} (wf : WF f) (cell : Val) (name : String) (ri : Int) :
    sWriteCellName (encFrame f) cell name ri =
      (encFrame (writeCellName f cell name ri).1, (writeCellName f cell name ri).2) := by
  simp only [sWriteCellName, writeCellName, sReadRow_enc wf]
  have hl : (encFrame f).rows.length = f.rows.length := by simp [encFrame]
  have hc : (encFrame f).cols = f.cols := rfl
  rw [hl, hc]
  cases hn : normIdx f.rows.length ri with
  | none => rfl
  | some r =>
    simp only [readRow, hn]
    cases f.rows[r]? with
    | none => rfl
    | some row =>
      simp only []
      cases findCol f.cols name with
      | none => rfl
      | some c =>
        simp only []
        cases f.cols[c]? with
        | none => rfl
        | some ct =>
          simp only []
          cases conv ct.2 cell with
          | error e => rfl
          | ok w => simp [encFrame]

theorem sSetUnits_enc (f : Frame) (us : List (Option String)) :
    sSetUnits (encFrame f) us = (encFrame (setUnits f us).1, (setUnits f us).2) := by
  unfold sSetUnits setUnits
  have hc : (encFrame f).cols = f.cols := rfl
  rw [hc]
  split <;> rfl

/-- **one step**: on the encoding of a well-formed frame the byte-level operation yields the encoding of what the
    abstract operation yields, with the same error -/
theorem sstep_enc {f : Frame} (wf : WF f) (op : Op) :
    sstep (encFrame f) op = (encFrame (step f op).1, (step f op).2) := by
  cases op with
  | appendRows rows => exact sAppendRows_enc f rows
  | appendColumn col name dt => exact sAppendColumn_enc f col name dt
  | writeRows rows idx => exact sWriteRows_enc f rows idx
  | writeRowFlat row idx => exact sWriteRowFlat_enc f row idx
  | writeColumn col index name => exact sWriteColumn_enc f col index name
  | writeCellPos cell pos => exact sWriteCellPos_enc wf cell pos
  | writeCellName cell name ri => exact sWriteCellName_enc wf cell name ri
  | setUnits us => exact sSetUnits_enc f us

/-- **every history**: the byte-level machine stays the encoding of the abstract frame -/
theorem srun_enc {f : Frame} (wf : WF f) (ops : List Op) : srun (encFrame f) ops = encFrame (run f ops) := by
  induction ops generalizing f with
  | nil => rfl
  | cons op rest ih =>
    simp only [srun, run, List.foldl_cons] at ih ⊢
    rw [sstep_enc wf op]
    exact ih (wf_step wf op)

end Nix.Frame
