import NixModel.Lemmas.C08Axis
import NixModel.Lemmas.C08Slices

/-!
Lemmas for C08, part 5: when is an end point of a tagged region outside the tolerance band?

The region theorems carry `SepAt dim x` for the two end points `x` of every axis: C07's `Separated` hypothesis,
which quantifies over *all* samples.  `OffBandAt dim x` is the checkable condition on the end point alone: measured
in samples from the first one (`X = (x - offset) / interval`, or `x` itself on a set dimension), `|X|` is at most
10¹¹ and is an integer or farther than `atol + rtol·|k|` from each of its two neighbouring integers `k`.  It implies
`SepAt` (`sepAt_of_offBandAt`), in particular for every end point that is a sample coordinate
(`sepAt_on_sample`).  Nothing is asked of a range dimension (ticks are compared exactly).
-/
namespace Nix.Tagging
open Nix Nix.Dim Nix.Dim.Gen Nix.Dim.Lemmas Nix.Units

theorem absR_neg (x : Rat) : absR (-x) = absR x := by
  rw [absR_eq, absR_eq, abs_neg]

theorem band_neg (t : Tol) (b : Rat) : band t (-b) = band t b := by
  unfold band
  rw [absR_neg]

/-- the tolerance hypothesis is symmetric about the first sample -/
theorem separatedAt_neg (t : Tol) (x : Rat) (h : SeparatedAt t (-x)) : SeparatedAt t x := by
  intro k
  rcases h (-k) with h | h
  · left
    have : ((-k : Int) : Rat) = -(k : Rat) := by push_cast; rfl
    rw [this] at h
    linarith
  · right
    have e1 : ((-k : Int) : Rat) = -(k : Rat) := by push_cast; rfl
    rw [e1, band_neg] at h
    have e2 : -x - -(k : Rat) = -(x - (k : Rat)) := by ring
    rw [e2, absR_neg] at h
    exact h

/-- `|X|` is within the index range the generated tolerances cover, and is an integer or outside the band of its two
neighbouring integers -/
def OffBandNum (t : Tol) (X : Rat) : Prop :=
  absR X ≤ 100000000000 ∧ Nix.C07.OffBand t (absR X)

theorem absR_nonneg (x : Rat) : 0 ≤ absR x := by
  rw [absR_eq]
  exact abs_nonneg x

theorem separatedAt_of_offBandNum (t : Tol) (hr : 0 ≤ t.rtol) (ha : 0 ≤ t.atol)
    (hb : ∀ y : Rat, 0 ≤ y → y ≤ 100000000002 → band t y < 1 / 2) (X : Rat) (h : OffBandNum t X) :
    SeparatedAt t X := by
  have key : SeparatedAt t (absR X) :=
    separated_of_neighbours t hr ha (absR X) (absR_nonneg X)
      (hb _ (by linarith [absR_nonneg X]) (by linarith [h.1])) h.2
  by_cases hx : X < 0
  · have : absR X = -X := by simp [absR, hx]
    rw [this] at key
    exact separatedAt_neg t X key
  · have : absR X = X := by simp [absR, hx]
    rw [this] at key
    exact key

/-- the checkable form of the tolerance hypothesis for an end point `x` of a region on a descriptor -/
def OffBandAt : DimDesc → Rat → Prop
  | .sampled off si _, x => OffBandNum sampledZeroTol ((x - off) / si) ∧ OffBandNum sampledHitTol ((x - off) / si)
  | .range _ _, _ => True
  | .set _, x => OffBandNum setHitTol x

/-- **off the band ⇒ C07's hypothesis** -/
theorem sepAt_of_offBandAt (dim : DimDesc) (x : Rat) (h : OffBandAt dim x) : SepAt dim x := by
  have facts := gen_tol_facts
  cases dim with
  | sampled off si u =>
    exact ⟨separatedAt_of_offBandNum _ facts.1.1 facts.1.2.1 (fun y h0 hy => (gen_band_limit_rat y h0 hy).1) _ h.1,
      separatedAt_of_offBandNum _ facts.2.1.1 facts.2.1.2 (fun y h0 hy => (gen_band_limit_rat y h0 hy).2.1) _ h.2⟩
  | range ticks u => trivial
  | set n =>
    exact separatedAt_of_offBandNum _ facts.2.2.1 facts.2.2.2 (fun y h0 hy => (gen_band_limit_rat y h0 hy).2.2) _ h

/-- an integer number of samples (up to 10¹¹ either way) is off the band -/
theorem offBandNum_int (t : Tol) (k : Int) (hk : k.natAbs ≤ 100000000000) : OffBandNum t (k : Rat) := by
  have habs : absR (k : Rat) = ((k.natAbs : Int) : Rat) := by
    rw [absR_eq, ← Int.cast_abs, Int.abs_eq_natAbs]
  have hfl : (((k.natAbs : Int) : Rat)).floor = (k.natAbs : Int) := by
    show ⌊(((k.natAbs : Int)) : Rat)⌋ = _
    exact Int.floor_intCast _
  refine ⟨?_, Or.inl ?_⟩
  · rw [habs]
    have : ((k.natAbs : Int) : Rat) ≤ ((100000000000 : Int) : Rat) := by
      exact_mod_cast hk
    simpa using this
  · rw [habs, hfl]

/-- **every sample coordinate is off the band**: an end point that is the coordinate of sample `k ≤ 10¹¹` of a
sampled dimension (any offset, any positive interval) or label position `k` of a set dimension -/
theorem offBandAt_on_sample (dim : DimDesc) (hd : DimOK dim) (k : Nat) (hk : k ≤ 100000000000) :
    OffBandAt dim (dimCoord dim k) := by
  cases dim with
  | sampled off si u =>
    have hsi : (0 : Rat) < si := hd
    have e : (dimCoord (.sampled off si u) k - off) / si = ((k : Int) : Rat) := by
      simp only [dimCoord, sampledCoord, sampledPositionAt]
      field_simp
      push_cast
      ring
    simp only [OffBandAt, e]
    exact ⟨offBandNum_int _ _ (by simpa using hk), offBandNum_int _ _ (by simpa using hk)⟩
  | range ticks u => trivial
  | set n =>
    have e : dimCoord (.set n) k = ((k : Int) : Rat) := by
      simp only [dimCoord, setCoord]
      push_cast
      rfl
    simp only [OffBandAt, e]
    exact offBandNum_int _ _ (by simpa using hk)

/-- `AxesOK` with the checkable `OffBandAt` in place of `SepAt` -/
inductive AxesOffBand (stop : SliceMode) :
    List DimDesc → List Rat → List Rat → Option (List Str) → List Rat → Prop
  | nil (pos ext : List Rat) (units : Option (List Str)) (scs : List Rat) : AxesOffBand stop [] pos ext units scs
  | whole (dims : List DimDesc) (ext : List Rat) (units : Option (List Str)) (scs : List Rat) :
      AxesOffBand stop dims [] ext units scs
  | pos (dim : DimDesc) (dims : List DimDesc) (p : Rat) (pos ext : List Rat) (units : Option (List Str))
      (sc : Rat) (scs : List Rat)
      (hunits : units ≠ some [])
      (hrel : UnitRel (unitHead units) dim sc)
      (hd : DimOK dim)
      (hs : OffBandAt dim (regionOf stop p (nextExtent ext).1 sc).s)
      (he : OffBandAt dim (regionOf stop p (nextExtent ext).1 sc).e)
      (hrest : AxesOffBand stop dims pos (nextExtent ext).2 (unitTail units) scs) :
      AxesOffBand stop (dim :: dims) (p :: pos) ext units (sc :: scs)

theorem axesOK_of_offBand {stop : SliceMode} {dims : List DimDesc} {pos ext : List Rat}
    {units : Option (List Str)} {scs : List Rat} (h : AxesOffBand stop dims pos ext units scs) :
    AxesOK stop dims pos ext units scs := by
  induction h with
  | nil pos ext units scs => exact AxesOK.nil pos ext units scs
  | whole dims ext units scs => exact AxesOK.whole dims ext units scs
  | pos dim dims p pos ext units sc scs hunits hrel hd hs he _ ih =>
    exact AxesOK.pos dim dims p pos ext units sc scs hunits hrel hd (sepAt_of_offBandAt _ _ hs)
      (sepAt_of_offBandAt _ _ he) ih

end Nix.Tagging
