import NixModel.Lemmas.C16Schema
import NixModel.Pure.FrameRec
/-! Lemmas for C16: rows and creation data given as NumPy structured arrays (`Pure/FrameRec.lean`) are taken by
position, so every statement about lists of cells carries over. -/
namespace Nix.Frame

theorem stepR_eq (f : Frame) (o : OpR) : stepR f o = step f o.toOp := by
  cases o <;> rfl

theorem runR_eq (f : Frame) (ops : List OpR) : runR f ops = run f (ops.map OpR.toOp) := by
  induction ops generalizing f with
  | nil => rfl
  | cons o rest ih =>
    simp only [runR, run, List.foldl_cons, List.map_cons] at ih ⊢
    rw [stepR_eq]
    exact ih _

/-- an accepted creation from a structured array is the creation from its records taken apart by position -/
theorem createWithRec_ok {cols : List (String × ColType)} {r : RecArray} {f : Frame}
    (h : createWithRec cols r = .ok f) : createWith cols (some r.tuples) = .ok f := h

/-- a record with another number of cells than there are columns is refused -/
theorem createWithRec_count {cols c : List (String × ColType)} {r : RecArray}
    (hc : mkDtype cols = .ok c) (hn : ∃ row ∈ r.rows, row.length ≠ c.length) :
    ∃ e, createWithRec cols r = .error e := by
  unfold createWithRec createWith
  simp only [hc]
  have hl : (c.map (·.2)).length = c.length := by simp
  obtain ⟨e, he⟩ := convRows_err_of_badlen (ts := c.map (·.2)) (rows := r.tuples)
    (by simpa [RecArray.tuples, hl] using hn)
  exact ⟨e, by simp [he]⟩

theorem createNamesTypesRec_ok {names : List String} {types : List ColType} {r : RecArray} {f : Frame}
    (h : createNamesTypesRec names types r = .ok f) : createNamesTypes names types (some r.tuples) = .ok f := by
  unfold createNamesTypesRec at h
  unfold createNamesTypes
  simp only at h ⊢
  split at h
  · cases h
  · rename_i hd
    simp only [hd, if_false]
    exact createWithRec_ok h

theorem createNamesRec_ok {names : List String} {r : RecArray} {f : Frame}
    (h : createNamesRec names r = .ok f) :
    r.rows ≠ [] ∧ createNamesTypes names r.types (some r.tuples) = .ok f := by
  unfold createNamesRec at h
  split at h
  · cases h
  · rename_i hr
    exact ⟨fun e => hr e, createNamesTypesRec_ok h⟩

end Nix.Frame
