import NixModel.Pure.DimSession
import NixModel.Lemmas.C07Sep

/-!
Helper lemmas about sessions (`NixModel/Pure/DimSession.lean`): what one step does to handles,
dimensions and sources; the invariant every history keeps (stored ticks are ascending); answers of
a history as answers of single steps.
-/
namespace Nix.DimSession.Lemmas
open Nix Nix.Dim Nix.DimSession

theorem step_query (st : State) (h : Nat) (q : Query) :
    step st (.query h q) =
      (st, match dimOfHandle st h with
           | some (_, r) => answer st.srcs r.cfg q
           | none => .na) := by
  cases h' : dimOfHandle st h <;> simp [step, h']

/-- the step of a configuration change through handle `h` -/
def cfgStep (st : State) (op : Op) (h : Nat) : State × Ans :=
  match dimOfHandle st h with
  | none => (st, .na)
  | some (d, r) =>
    match applyCfg st.srcs r op with
    | none => (st, .na)
    | some (r', some e) => (setDim st d r', .fail e)
    | some (r', none) => (setDim st d r', .unit)

/-- the nine configuration changes -/
def IsCfgOp : Op → Prop
  | .setOffset .. | .setInterval .. | .setTicks .. | .setLabels .. | .linkArray .. | .linkFrame ..
  | .unlink .. | .setUnit .. | .setLabel .. => True
  | _ => False

theorem step_cfg (st : State) (op : Op) (h : Nat) (hc : IsCfgOp op) (hh : handleOf op = some h) :
    step st op = cfgStep st op h := by
  cases op <;> simp [IsCfgOp] at hc <;> simp [handleOf] at hh <;> subst hh <;>
    simp only [step, cfgStep, handleOf] <;> rfl

def kindOf : DimCfg → Nat
  | .sampled .. => 0
  | .range .. => 1
  | .set .. => 2

/-- stored ticks are ascending -/
def CfgOk : DimCfg → Prop
  | .range (some t) _ => AscendingList t
  | _ => True

theorem ascendingB_asc : ∀ t : List Rat, ascendingB t = true → AscendingList t
  | [], _ => List.Pairwise.nil
  | [_], _ => List.pairwise_singleton _ _
  | a :: b :: rest, h => by
    simp only [ascendingB, Bool.and_eq_true, decide_eq_true_eq] at h
    have ih := ascendingB_asc (b :: rest) h.2
    unfold AscendingList at ih ⊢
    have ih' := List.pairwise_cons.mp ih
    rw [List.pairwise_cons]
    refine ⟨?_, ih⟩
    intro x hx
    rcases List.mem_cons.mp hx with rfl | hx
    · exact h.1
    · exact le_trans h.1 (ih'.1 x hx)

theorem applyCfg_facts (srcs : List Source) (r r' : DimRec) (op : Op) (e : Option Err)
    (h : applyCfg srcs r op = some (r', e)) :
    kindOf r'.cfg = kindOf r.cfg ∧ (CfgOk r.cfg → CfgOk r'.cfg) := by
  obtain ⟨cfg, u, l⟩ := r
  cases op <;> cases cfg <;> simp only [applyCfg] at h <;> (try cases h) <;>
    (try (split at h <;> (try split at h) <;> (try cases h) <;>
      simp_all [kindOf, CfgOk]))
  all_goals first
    | exact ⟨rfl, fun _ => trivial⟩
    | exact ⟨rfl, id⟩
    | (intro _; exact ascendingB_asc _ (by assumption))
    | (rename_i st _ _; cases st <;> simp)

theorem dimOfHandle_eq (st : State) (h d : Nat) (r : DimRec) :
    dimOfHandle st h = some (d, r) ↔ st.handles[h]? = some d ∧ st.dims[d]? = some r := by
  simp only [dimOfHandle]
  cases hh : st.handles[h]? with
  | none => simp
  | some d' =>
    simp only [Option.map_eq_some_iff, Prod.mk.injEq, Option.some.injEq]
    constructor
    · rintro ⟨a, ha, rfl, rfl⟩; exact ⟨rfl, ha⟩
    · rintro ⟨h1, h2⟩; subst h1; exact ⟨r, h2, rfl, rfl⟩

theorem cfgStep_cases (st : State) (op : Op) (h : Nat) :
    (cfgStep st op h).1 = st ∨
    ∃ d r r' e, st.handles[h]? = some d ∧ st.dims[d]? = some r ∧ applyCfg st.srcs r op = some (r', e) ∧
      (cfgStep st op h).1 = setDim st d r' := by
  unfold cfgStep
  cases hd : dimOfHandle st h with
  | none => left; rfl
  | some p =>
    obtain ⟨d, r⟩ := p
    have := (dimOfHandle_eq st h d r).mp hd
    cases ha : applyCfg st.srcs r op with
    | none => left; simp [ha]
    | some q =>
      obtain ⟨r', e⟩ := q
      right
      refine ⟨d, r, r', e, this.1, this.2, ha, ?_⟩
      cases e <;> simp [ha]

theorem setDim_get (st : State) (d k : Nat) (r r' : DimRec) (hd : st.dims[d]? = some r) :
    (setDim st d r').dims[k]? = if k = d then some r' else st.dims[k]? := by
  have hlt : d < st.dims.length := by
    by_contra hge
    rw [List.getElem?_eq_none (by omega)] at hd
    cases hd
  simp only [setDim, List.getElem?_set]
  by_cases hk : k = d
  · subst hk; simp [hlt]
  · have : ¬ d = k := fun h => hk h.symm
    simp [hk, this]

def WF (st : State) : Prop := ∀ r ∈ st.dims, CfgOk r.cfg

/-- what a state hands on to its successor: handles are only added, dimensions are only added and
keep their kind, sources are only added, stored ticks stay ascending -/
structure Keeps (st st' : State) : Prop where
  handles : ∃ l, st'.handles = st.handles ++ l
  dims : ∀ (d : Nat) (r : DimRec), st.dims[d]? = some r →
    ∃ r' : DimRec, st'.dims[d]? = some r' ∧ kindOf r'.cfg = kindOf r.cfg
  wf : WF st → WF st'

theorem Keeps.refl (st : State) : Keeps st st :=
  ⟨⟨[], by simp⟩, fun _ r h => ⟨r, h, rfl⟩, id⟩

theorem Keeps.trans {a b c : State} (h1 : Keeps a b) (h2 : Keeps b c) : Keeps a c := by
  refine ⟨?_, ?_, fun h => h2.wf (h1.wf h)⟩
  · obtain ⟨l1, e1⟩ := h1.handles
    obtain ⟨l2, e2⟩ := h2.handles
    exact ⟨l1 ++ l2, by rw [e2, e1, List.append_assoc]⟩
  · intro d r h
    obtain ⟨r1, g1, k1⟩ := h1.dims d r h
    obtain ⟨r2, g2, k2⟩ := h2.dims d r1 g1
    exact ⟨r2, g2, k2.trans k1⟩

theorem keeps_setDim (st : State) (d : Nat) (r r' : DimRec) (hd : st.dims[d]? = some r)
    (hk : kindOf r'.cfg = kindOf r.cfg) (hok : CfgOk r.cfg → CfgOk r'.cfg) : Keeps st (setDim st d r') := by
  refine ⟨⟨[], by simp [setDim]⟩, ?_, ?_⟩
  · intro k rk hkk
    rw [setDim_get st d k r r' hd]
    by_cases hkd : k = d
    · subst hkd
      rw [hd] at hkk
      cases hkk
      exact ⟨r', by simp, hk⟩
    · exact ⟨rk, by simp [hkd, hkk], rfl⟩
  · intro hwf x hx
    simp only [setDim] at hx
    rcases List.mem_or_eq_of_mem_set hx with hx | rfl
    · exact hwf x hx
    · exact hok (hwf r (List.mem_of_getElem? hd))

theorem keeps_append (st : State) (r : DimRec) (hr : CfgOk r.cfg) :
    Keeps st { st with dims := st.dims ++ [r] } := by
  refine ⟨⟨[], by simp⟩, ?_, ?_⟩
  · intro d rd hd
    refine ⟨rd, ?_, rfl⟩
    have hlt : d < st.dims.length := by
      by_contra hge
      rw [List.getElem?_eq_none (by omega)] at hd
      cases hd
    simp only
    rw [List.getElem?_append_left hlt]
    exact hd
  · intro hwf x hx
    simp only [List.mem_append, List.mem_singleton] at hx
    rcases hx with hx | rfl
    · exact hwf x hx
    · exact hr

theorem step_keeps (st : State) (op : Op) : Keeps st (step st op).1 := by
  by_cases hc : IsCfgOp op
  · obtain ⟨h, hh⟩ : ∃ h, handleOf op = some h := by
      cases op <;> simp [IsCfgOp] at hc <;> exact ⟨_, rfl⟩
    rw [step_cfg st op h hc hh]
    rcases cfgStep_cases st op h with he | ⟨d, r, r', e, _, hd, ha, he⟩
    · rw [he]; exact Keeps.refl st
    · rw [he]
      have := applyCfg_facts st.srcs r r' op e ha
      exact keeps_setDim st d r r' hd this.1 this.2
  · cases op with
    | appendSampled si => exact keeps_append st _ trivial
    | appendRange => exact keeps_append st _ trivial
    | appendSet => exact keeps_append st _ trivial
    | newSrc s => exact ⟨⟨[], by simp [step]⟩, fun d r h => ⟨r, h, rfl⟩, fun h => h⟩
    | writeSrc k s =>
      simp only [step]
      split
      · split
        · exact ⟨⟨[], by simp⟩, fun d r h => ⟨r, h, rfl⟩, fun h => h⟩
        · exact Keeps.refl st
      · exact Keeps.refl st
    | openH d =>
      simp only [step]
      split
      · exact ⟨⟨[d], rfl⟩, fun d r h => ⟨r, h, rfl⟩, fun h => h⟩
      · exact Keeps.refl st
    | query h q => rw [step_query]; exact Keeps.refl st
    | _ => exact absurd trivial hc

/-! ## histories -/

theorem finalState_nil (st : State) : finalState st [] = st := rfl

theorem finalState_cons (st : State) (op : Op) (ops : List Op) :
    finalState st (op :: ops) = finalState (step st op).1 ops := by
  simp [finalState, run]

theorem finalState_append (st : State) (a b : List Op) :
    finalState st (a ++ b) = finalState (finalState st a) b := by
  induction a generalizing st with
  | nil => rfl
  | cons op ops ih => rw [List.cons_append, finalState_cons, finalState_cons, ih]

theorem run_keeps (st : State) (ops : List Op) : Keeps st (finalState st ops) := by
  induction ops generalizing st with
  | nil => exact Keeps.refl st
  | cons op ops ih => rw [finalState_cons]; exact (step_keeps st op).trans (ih _)

theorem wf_empty : WF {} := by intro r hr; cases hr

/-- every state a history reaches from the empty array keeps its stored ticks ascending -/
theorem reachable_wf (ops : List Op) : WF (finalState {} ops) := (run_keeps {} ops).wf wf_empty

/-- answer number `k` of a history is the answer of step `k` in the state the first `k` steps reach -/
theorem run_answer (st : State) (ops : List Op) (k : Nat) :
    (run st ops).2[k]? = ops[k]?.map fun op => (step (finalState st (ops.take k)) op).2 := by
  induction ops generalizing st k with
  | nil => simp [run]
  | cons op ops ih =>
    cases k with
    | zero => simp [run, finalState]
    | succ k =>
      simp only [run, List.getElem?_cons_succ, List.take_succ_cons]
      rw [ih, finalState_cons]

theorem handle_kept {st st' : State} (hk : Keeps st st') (h d : Nat) (hh : st.handles[h]? = some d) :
    st'.handles[h]? = some d := by
  obtain ⟨l, hl⟩ := hk.handles
  have hlt : h < st.handles.length := by
    by_contra hge
    rw [List.getElem?_eq_none (by omega)] at hh
    cases hh
  rw [hl, List.getElem?_append_left hlt]
  exact hh

/-! ## the set dimension reads its labels after the tests on the position -/

theorem setIndexOfS_eq (srcs : List Source) (st : Option Nat) (l : Option Link) (n : Nat) (pos : Rat)
    (mode : IndexMode) (hn : labelCountOf srcs st l = .ok n) :
    setIndexOfS srcs st l pos mode = setIndexOf n pos mode := by
  unfold setIndexOfS setIndexOf setIndexOfT
  rw [hn]
  by_cases h1 : pos < 0
  · simp [h1]
  · by_cases h2 : pos = 0 ∧ mode = .less
    · simp [h2]
    · simp only [h1, h2, if_false]
      rfl

end Nix.DimSession.Lemmas
