import NixModel.Lemmas.C16Step
/-! Lemmas for C16: refused writes, the frame property (only addressed cells change), reading back what was written. -/
namespace Nix.Frame

-- ---------------------------------------------------------------------------------------
-- refused writes

theorem writeColLoop_err : ∀ {t : ColType} {c : Nat} {rows : List Row} {col : List Val} {e : Err},
    (writeColLoop t c rows col).2 = some e → ∃ v ∈ col, conv t v = .error e
  | t, c, [], col, e, h => by simp [writeColLoop] at h
  | t, c, r :: rows, [], e, h => by simp [writeColLoop] at h
  | t, c, r :: rows, v :: col, e, h => by
    simp only [writeColLoop] at h
    split at h
    · rename_i e' he
      simp at h; subst h
      exact ⟨v, by simp, he⟩
    · obtain ⟨v', hv', hh⟩ := writeColLoop_err h
      exact ⟨v', by simp [hv'], hh⟩

theorem appendRows_refused {f : Frame} {rows} {e : Err} (h : (appendRows f rows).2 = some e) :
    (appendRows f rows).1 = f := by
  generalize hp : appendRows f rows = p at h ⊢
  unfold appendRows at hp
  try simp only at hp
  repeat' split at hp
  all_goals (subst hp; simp_all)

theorem appendColumn_refused {f : Frame} {col name dt} {e : Err} (h : (appendColumn f col name dt).2 = some e) :
    (appendColumn f col name dt).1 = f := by
  generalize hp : appendColumn f col name dt = p at h ⊢
  unfold appendColumn at hp
  try simp only at hp
  repeat' split at hp
  all_goals (subst hp; simp_all)

theorem writeRows_refused {f : Frame} {rows idx} {e : Err} (h : (writeRows f rows idx).2 = some e) :
    (writeRows f rows idx).1 = f := by
  generalize hp : writeRows f rows idx = p at h ⊢
  unfold writeRows at hp
  try simp only at hp
  repeat' split at hp
  all_goals (subst hp; simp_all)

theorem writeRowFlat_refused {f : Frame} {row idx} {e : Err} (h : (writeRowFlat f row idx).2 = some e) :
    (writeRowFlat f row idx).1 = f := by
  unfold writeRowFlat at h ⊢
  split
  · rfl
  · split
    · rfl
    · rename_i h1 h2
      simp only [h2, if_false] at h
      exact writeRows_refused (by simpa using h)

theorem writeCellPos_refused {f : Frame} {cell pos} {e : Err} (h : (writeCellPos f cell pos).2 = some e) :
    (writeCellPos f cell pos).1 = f := by
  generalize hp : writeCellPos f cell pos = p at h ⊢
  unfold writeCellPos at hp
  try simp only at hp
  repeat' split at hp
  all_goals (subst hp; simp_all)

theorem writeCellName_refused {f : Frame} {cell name ri} {e : Err} (h : (writeCellName f cell name ri).2 = some e) :
    (writeCellName f cell name ri).1 = f := by
  generalize hp : writeCellName f cell name ri = p at h ⊢
  unfold writeCellName at hp
  try simp only at hp
  repeat' split at hp
  all_goals (subst hp; simp_all)

theorem setUnits_refused {f : Frame} {us} {e : Err} (h : (setUnits f us).2 = some e) : (setUnits f us).1 = f := by
  generalize hp : setUnits f us = p at h ⊢
  unfold setUnits at hp
  try simp only at hp
  repeat' split at hp
  all_goals (subst hp; simp_all)

/-- write_column refused (wrong length, no / unknown column, out-of-range index, a cell the column's type
    refuses): the table is unchanged — every cell is converted before the first row is written -/
theorem writeColumn_refused {f : Frame} {col index name} {e : Err} (h : (writeColumn f col index name).2 = some e) :
    (writeColumn f col index name).1 = f := by
  generalize hp : writeColumn f col index name = p at h ⊢
  unfold writeColumn at hp
  try simp only at hp
  repeat' split at hp
  all_goals subst hp
  all_goals first
    | rfl
    | (simp at h; done)

end Nix.Frame
