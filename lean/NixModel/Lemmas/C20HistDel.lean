import NixModel.Lemmas.C20Hist

/-!
# C20 — link lists and deletion on the copy's side are local updates; histories

Deletion (`contDel`) is by object since the repair `fix: deleting an entity also deleted every same-id
copy file-wide`: `delete_all` is handed the node keys of the item / of its section or source subtree
(`subtreeKeys`), all of which lie on the side the call is addressed to (`subtreeKeys_side`: the side is
closed under links), so `lu_deleteObjs` applies with no hypothesis about ids. `lu_step` / `lu_run`
therefore hold for every addressed call — deletions of every kind included — for both id policies.
-/
namespace Nix.Store.C20
open Nix.Store Nix.Store.Graph Nix.Store.Lemmas

variable {S : Nat → Prop} {M : Nat} {A : Nat → Prop}

/-! ## link lists -/

theorem cLinks_ge {g : Graph} (hI : SideInv S M g) {owner : Nat} {cname : String} (ho : S owner)
    {l : String × Nat} (hl : l ∈ cLinks g (g.child? owner cname)) : S l.2 := by
  unfold cLinks at hl
  cases hc : g.child? owner cname with
  | none => rw [hc] at hl; cases hl
  | some cn =>
    rw [hc] at hl
    exact hI.closed cn (child_ge hI ho hc) l hl

theorem appendItem_mem {g : Graph} {c : Cont} {key : Key} {k : Nat} (h : appendItem g c key = .ok k) :
    key = .ent k ∨ ∃ l ∈ cLinks g c.node, l.2 = k := by
  unfold appendItem at h
  cases key with
  | ent k' => simp only [Except.ok.injEq] at h; exact .inl (by rw [h])
  | pos i => cases h
  | str x =>
    simp only at h
    split at h
    · split at h
      · rename_i l hl
        simp only [Except.ok.injEq] at h
        exact .inr ⟨l, List.mem_of_find?_eq_some hl, h⟩
      · cases h
    · cases h

/-- `LinkContainer.append` / `SourceLinkContainer.append` -/
theorem lu_contAppend {g g' : Graph} (hI : SideInv S M g) {c : Cont} {key : Key} (ho : S c.owner.key)
    (hnode : c.node = g.child? c.owner.key c.cname) (hkey : ∀ k, key = .ent k → S k)
    (hop : contAppend g c key = .ok g') : LocalUpd S M g g' := by
  rw [contAppend_eq] at hop
  have main : ∀ k, appendItem g c key = .ok k → appendTail g c k = .ok g' → LocalUpd S M g g' := by
    intro k hk ht
    have hkN : S k := by
      rcases appendItem_mem hk with h | ⟨l, hl, e⟩
      · exact hkey k h
      · rw [hnode] at hl; rw [← e]; exact cLinks_ge hI ho hl
    obtain ⟨id, e⟩ := appendTail_form ht
    rw [e]
    exact (lu_ensureGroup hI c.cname ho).trans (lu_createLinkIn _ id (ensureGroup_ge hI c.cname ho) hkN)
  split at hop
  · split at hop
    · cases hop
    · exact main _ ‹_› hop
  · split at hop
    · cases hop
    · exact main _ ‹_› hop
  · cases hop

/-! ## deletion -/

theorem featScan_mem {g : Graph} : ∀ {ls : List (String × Nat)} {x : String} {l : String × Nat},
    featScan g ls x = .ok (some l) → l ∈ ls := by
  intro ls
  induction ls with
  | nil => intro x l h; simp [featScan] at h
  | cons a rest ih =>
    intro x l h
    unfold featScan at h
    split at h
    · cases h
    · split at h
      · simp only [Except.ok.injEq, Option.some.injEq] at h
        rw [← h]; exact List.mem_cons_self
      · exact List.mem_cons_of_mem _ (ih h)

theorem getByIdOrName_mem {g : Graph} {c : Option Nat} {x : String} {l : String × Nat}
    (h : getByIdOrName g c x = some l) : l ∈ cLinks g c := by
  unfold getByIdOrName at h
  split at h
  · split at h
    · rename_i r hr
      simp only [Option.some.injEq] at h
      rw [← h]; exact List.mem_of_find?_eq_some hr
    · exact List.mem_of_find?_eq_some h
  · exact List.mem_of_find?_eq_some h

/-- what `container[key]` returns is an entry of the container group -/
theorem contGet_mem {g : Graph} {c : Cont} {key : Key} {l : String × Nat} (h : contGet g c key = .ok l) :
    l ∈ cLinks g c.node := by
  unfold contGet at h
  cases key <;> simp only at h
  all_goals (repeat' split at h)
  all_goals (try cases h)
  all_goals first
    | exact List.mem_of_getElem? ‹_›
    | exact List.mem_of_find?_eq_some ‹_›
    | exact getByIdOrName_mem ‹_›
    | exact featScan_mem ‹_›

/-- the breadth-first traversal of a section / source subtree that starts on the side stays on the side
(the side is closed under links) -/
theorem bfsKeys_side {g : Graph} (hI : SideInv S M g) (sub : String) :
    ∀ (fuel : Nat) (queue : List Nat) (acc : List Nat), (∀ q ∈ queue, S q) → (∀ q ∈ acc, S q) →
      ∀ q ∈ bfsKeys g sub fuel queue acc, S q := by
  intro fuel
  induction fuel with
  | zero => intro queue acc _ ha q hq; unfold bfsKeys at hq; exact ha q hq
  | succ fuel ih =>
    intro queue acc hq ha x hx
    cases queue with
    | nil => unfold bfsKeys at hx; exact ha x hx
    | cons k queue =>
      unfold bfsKeys at hx
      have hk : S k := hq k List.mem_cons_self
      apply ih _ _ _ _ x hx
      · intro q hq'
        rcases List.mem_append.mp hq' with h | h
        · exact hq q (List.mem_cons_of_mem _ h)
        · cases hc : g.child? k sub with
          | none => rw [hc] at h; cases h
          | some c =>
            rw [hc] at h
            obtain ⟨l, hl, e⟩ := List.mem_map.mp h
            rw [← e]
            exact hI.closed c (child_ge hI hk hc) l hl
      · intro q hq'
        rcases List.mem_append.mp hq' with h | h
        · exact ha q h
        · simp only [List.mem_singleton] at h
          rw [h]; exact hk

/-- the objects of the subtree of a section / source of the side (what `find_sections()` /
`find_sources()` hands to `delete_all`) all lie on the side -/
theorem subtreeKeys_side {g : Graph} (hI : SideInv S M g) (sub : String) {k : Nat} (hk : S k) :
    ∀ q ∈ subtreeKeys g sub k, S q :=
  bfsKeys_side hI sub _ [k] [] (fun q hq => by simp only [List.mem_singleton] at hq; rw [hq]; exact hk)
    (fun _ h => by cases h)

theorem lu_h5Delete {g g' : Graph} {grp parent : Nat} {lname x : String} {depth : Nat} {die : Bool}
    (hg : S grp) (hp : S parent) (hop : h5Delete g grp parent lname depth x die = .ok g') :
    LocalUpd S M g g' := by
  unfold h5Delete at hop
  simp only at hop
  split at hop
  · cases hop
  · split at hop
    · cases hop
    · split at hop
      · cases hop; exact (lu_delLink g _ hg).trans (lu_delLink _ _ hp)
      · cases hop; exact lu_delLink g _ hg

/-- `Container.__delitem__` (all flavours) on a container of a node of the side: the file-wide
`delete_all` is handed objects of the side only (the item; its section subtree; its source subtree),
removing an entry of a link list touches the list's group and its owner. No hypothesis about ids:
deletion is by object. -/
theorem lu_contDel {g g' : Graph} (hI : SideInv S M g) {c : Cont} {key : Key} (ho : S c.owner.key)
    (hnode : c.node = g.child? c.owner.key c.cname) (hkey : ∀ k, key = .ent k → S k)
    (hop : contDel g c key = .ok g') : LocalUpd S M g g' := by
  unfold contDel at hop
  simp only at hop
  split at hop
  · cases hop
  · rename_i k hk
    have hkN : S k := by
      cases key with
      | ent k' => simp only [Except.ok.injEq] at hk; rw [← hk]; exact hkey k' rfl
      | pos i =>
        simp only at hk
        cases hget : contGet g c (.pos i) with
        | error e => rw [hget] at hk; cases hk
        | ok l =>
          rw [hget] at hk
          simp only [Except.map, Except.ok.injEq] at hk
          have := contGet_mem hget
          rw [hnode] at this; rw [← hk]; exact cLinks_ge hI ho this
      | str x =>
        simp only at hk
        cases hget : contGet g c (.str x) with
        | error e => rw [hget] at hk; cases hk
        | ok l =>
          rw [hget] at hk
          simp only [Except.map, Except.ok.injEq] at hk
          have := contGet_mem hget
          rw [hnode] at this; rw [← hk]; exact cLinks_ge hI ho this
    have hone : ∀ q ∈ [k], S q := fun q hq => by simp only [List.mem_singleton] at hq; rw [hq]; exact hkN
    split at hop
    · cases hop
    · cases hfl : c.info.flavour
      all_goals (rw [hfl] at hop; simp only at hop)
      · -- plain
        cases hop
        exact lu_deleteObjs g _ hone
      · -- sections
        cases hop
        exact lu_deleteObjs g _ (subtreeKeys_side hI "sections" hkN)
      · -- sources
        cases hop
        refine lu_deleteObjs g _ ?_
        intro q hq
        rcases List.mem_append.mp hq with h | h
        · exact subtreeKeys_side hI "sources" hkN q h
        · exact hone q h
      · -- link
        split at hop
        · rename_i cn i hcn _
          exact lu_h5Delete (child_ge hI ho (hnode ▸ hcn)) ho hop
        · cases hop
      · -- sourceLink
        split at hop
        · rename_i cn i hcn _
          exact lu_h5Delete (child_ge hI ho (hnode ▸ hcn)) ho hop
        · cases hop
      · -- features
        cases hop
        exact lu_deleteObjs g _ hone

/-! ## calls addressed to the side, histories -/

/-- the path leads to a node of the side -/
def ResolvesNew (S : Nat → Prop) (g : Graph) (p : Path) : Prop := ∃ l, resolve g rootLoc p = some l ∧ S l.key

def OptNew (S : Nat → Prop) (g : Graph) : Option Path → Prop
  | none => True
  | some p => ResolvesNew S g p

def KeyNew (S : Nat → Prop) (g : Graph) : KeyArg → Prop
  | .obj p => ResolvesNew S g p
  | _ => True

/-- the call is made on an entity of the side, and every entity handed to it lies on the side
(`File.create_block` / `File.create_section` are calls on the file) -/
def Addressed (S : Nat → Prop) (g : Graph) : Op → Prop
  | .createBlock _ _ => False
  | .createSection o _ _ => o ≠ [] ∧ ResolvesNew S g o
  | .createIn o _ _ _ extra => ResolvesNew S g o ∧ OptNew S g extra
  | .createProperty o _ => ResolvesNew S g o
  | .createFeature o data _ => ResolvesNew S g o ∧ OptNew S g data
  | .del o _ key => ResolvesNew S g o ∧ KeyNew S g key
  | .append o _ key => ResolvesNew S g o ∧ KeyNew S g key
  | .setRole o _ t => ResolvesNew S g o ∧ OptNew S g t
  | .setAttr p _ _ => ResolvesNew S g p
  | .reopen => True

theorem openCont_spec {g : Graph} {o : Path} {cname : String} {cont : Cont} (h : openCont g o cname = some cont) :
    ∃ l, resolve g rootLoc o = some l ∧ cont.owner = l ∧ cont.cname = cname ∧ cont.node = g.child? l.key cname := by
  unfold openCont at h
  cases hr : resolve g rootLoc o with
  | none => rw [hr] at h; cases h
  | some l =>
    rw [hr] at h
    simp only [Option.bind_eq_bind, Option.bind_some] at h
    cases hi : containerInfo (ownerKindOf g l) cname with
    | none => rw [hi] at h; cases h
    | some info =>
      rw [hi] at h
      simp only [Option.bind_some, Option.pure_def, Option.some.injEq] at h
      exact ⟨l, rfl, by rw [← h], by rw [← h], by rw [← h]⟩

theorem resolveKeyArg_ent {g : Graph} {ka : KeyArg} {key : Key} (hk : KeyNew S g ka)
    (h : resolveKeyArg g ka = some key) : ∀ k, key = .ent k → S k := by
  intro k e
  subst e
  cases ka with
  | str s => simp [resolveKeyArg] at h
  | pos i => simp [resolveKeyArg] at h
  | idOf p =>
    simp only [resolveKeyArg, Option.map_eq_some_iff] at h
    obtain ⟨_, _, e⟩ := h; cases e
  | nameOf p =>
    simp only [resolveKeyArg, Option.map_eq_some_iff] at h
    obtain ⟨_, _, e⟩ := h; cases e
  | obj p =>
    obtain ⟨l, hl, hN⟩ := hk
    simp only [resolveKeyArg, hl, Option.map_some, Option.some.injEq, Key.ent.injEq] at h
    rw [← h]; exact hN

/-- **one call**: a call addressed to the side is a local update -/
theorem lu_step {g : Graph} (hI : SideInv S M g) {op : Op} (ha : Addressed S g op) :
    LocalUpd S M g (step g op) := by
  unfold step
  split
  · rename_i g' happ
    cases op with
    | createBlock n t => exact absurd ha id
    | createSection o n t =>
      obtain ⟨hne, l, hl, hN⟩ := ha
      simp only [apply, Option.some.injEq] at happ
      exact lu_createSection hI hne hl hN happ
    | createIn o w n t extra =>
      obtain ⟨⟨l, hl, hN⟩, hx⟩ := ha
      cases extra with
      | none =>
        simp only [apply, Option.some.injEq] at happ
        exact lu_createIn hI hl hN (fun t h => by cases h) happ
      | some ep =>
        obtain ⟨le, hle, hNe⟩ := hx
        simp only [apply, hle, Option.map_some, Option.some.injEq] at happ
        exact lu_createIn hI hl hN (fun t h => by cases h; exact hNe) happ
    | createProperty o n =>
      obtain ⟨l, hl, hN⟩ := ha
      simp only [apply, Option.some.injEq] at happ
      exact lu_createProperty hI hl hN happ
    | createFeature o data lt =>
      obtain ⟨⟨l, hl, hN⟩, hx⟩ := ha
      cases data with
      | none =>
        simp only [apply, Option.some.injEq] at happ
        exact lu_createFeature hI hl hN (fun t h => by cases h) happ
      | some dp =>
        obtain ⟨le, hle, hNe⟩ := hx
        simp only [apply, hle, Option.map_some, Option.some.injEq] at happ
        exact lu_createFeature hI hl hN (fun t h => by cases h; exact hNe) happ
    | del o c ka =>
      obtain ⟨⟨l, hl, hN⟩, hk⟩ := ha
      simp only [apply] at happ
      cases hoc : openCont g o c with
      | none => rw [hoc] at happ; cases happ
      | some cont =>
        cases hrk : resolveKeyArg g ka with
        | none => rw [hoc, hrk] at happ; cases happ
        | some key =>
          rw [hoc, hrk] at happ
          simp only [Option.some.injEq] at happ
          obtain ⟨l', hl', ho, hcn, hnode⟩ := openCont_spec hoc
          rw [hl] at hl'; cases hl'
          exact lu_contDel hI (by rw [ho]; exact hN) (by rw [hnode, ho, hcn]) (resolveKeyArg_ent hk hrk) happ
    | append o c ka =>
      obtain ⟨⟨l, hl, hN⟩, hk⟩ := ha
      simp only [apply] at happ
      cases hoc : openCont g o c with
      | none => rw [hoc] at happ; cases happ
      | some cont =>
        cases hrk : resolveKeyArg g ka with
        | none => rw [hoc, hrk] at happ; cases happ
        | some key =>
          rw [hoc, hrk] at happ
          simp only [Option.some.injEq] at happ
          obtain ⟨l', hl', ho, hcn, hnode⟩ := openCont_spec hoc
          rw [hl] at hl'; cases hl'
          exact lu_contAppend hI (by rw [ho]; exact hN) (by rw [hnode, ho, hcn]) (resolveKeyArg_ent hk hrk) happ
    | setRole o r t =>
      obtain ⟨⟨l, hl, hN⟩, hx⟩ := ha
      cases t with
      | none =>
        simp only [apply, Option.some.injEq] at happ
        exact lu_setRole hl hN (fun t h => by cases h) happ
      | some tp =>
        obtain ⟨le, hle, hNe⟩ := hx
        simp only [apply, hle, Option.map_some, Option.some.injEq] at happ
        exact lu_setRole hl hN (fun t h => by cases h; exact hNe) happ
    | setAttr p a v =>
      obtain ⟨l, hl, hN⟩ := ha
      simp only [apply, Option.some.injEq] at happ
      exact lu_setAttrOp hl hN happ
    | reopen =>
      simp only [apply, Option.some.injEq, Except.ok.injEq] at happ
      rw [← happ]; exact LocalUpd.refl g
  · exact LocalUpd.refl g

/-- every call of the history is addressed to the side *in the state it is made in* (deletions of every
kind included: no side condition on ids) -/
def AddressedAll (S : Nat → Prop) : Graph → List Op → Prop
  | _, [] => True
  | g, op :: ops => Addressed S g op ∧ AddressedAll S (step g op) ops

/-- **histories**: any sequence of calls addressed to the side is a local update -/
theorem lu_run : ∀ (ops : List Op) {g : Graph}, SideInv S M g →
    AddressedAll S g ops → LocalUpd S M g (run g ops) := by
  intro ops
  induction ops with
  | nil => intro g _ _; exact LocalUpd.refl g
  | cons op ops ih =>
    intro g hI ha
    obtain ⟨h1, h3⟩ := ha
    have hs : LocalUpd S M g (step g op) := lu_step hI h1
    show LocalUpd S M g (run (step g op) ops)
    exact hs.trans (ih (hs.inv hI) h3)

/-- the id invariant, where it holds at the start, holds after the history too (regenerated ids stay
apart from the ids of the other side whatever is done on the side) -/
theorem idInv_run (ops : List Op) {g : Graph} (hI : SideInv S M g) (hD : IdInv S M A g)
    (ha : AddressedAll S g ops) : IdInv S M A (run g ops) :=
  (lu_run ops hI ha).idInv hD

end Nix.Store.C20
