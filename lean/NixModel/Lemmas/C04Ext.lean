import NixModel.Lemmas.C04Graph
import NixModel.Store.C04Ext

/-!
# C04 — named children survive `deleteObjs` when their target keeps its place

Used for the dimension descriptors of `Store/C04Ext` (`array/dimensions/<n>/link`).
-/
namespace Nix.Store.C04
open Nix.Store Nix.Store.Graph

theorem find?_filter_of_keep {α : Type} (l : List α) (p q : α → Bool) (x : α)
    (h : l.find? q = some x) (hp : p x = true) : (l.filter p).find? q = some x := by
  induction l with
  | nil => cases h
  | cons a t ih =>
    rw [List.find?_cons] at h
    cases hq : q a with
    | true =>
      rw [hq] at h
      simp only [Option.some.injEq] at h
      subst h
      rw [List.filter_cons, hp]
      simp [hq]
    | false =>
      rw [hq] at h
      rw [List.filter_cons]
      split
      · rw [List.find?_cons, hq]; exact ih h
      · exact ih h

/-- a child whose target is none of the deleted objects is still that child afterwards -/
theorem child?_deleteObjs_of_keep (g : Graph) (ks : List Nat) (k : Nat) (name : String) (t : Nat)
    (h : g.child? k name = some t) (hk : doomed ks t = false) :
    (g.deleteObjs ks).child? k name = some t := by
  unfold Graph.child? at h ⊢
  rw [deleteObjs_links]
  cases hf : (g.links k).find? (fun l => l.1 == name) with
  | none => simp [hf] at h
  | some l =>
    simp only [hf, Option.map_some, Option.some.injEq] at h
    rw [find?_filter_of_keep _ _ _ l hf (by unfold keepLink; rw [h, hk]; rfl)]
    simp [h]

/-- the `link` group of a dimension descriptor is found again after `delete_all(objs)` whenever the
descriptor groups themselves are none of the objects (they are not entities: no container yields them) -/
theorem dimLinkGroup_deleteObjs (g : Graph) (ks : List Nat) (arr n ds d lk : Nat)
    (h1 : g.child? arr "dimensions" = some ds) (h2 : g.child? ds (toString n) = some d)
    (h3 : g.child? d "link" = some lk)
    (k1 : doomed ks ds = false) (k2 : doomed ks d = false) (k3 : doomed ks lk = false) :
    dimLinkGroup (g.deleteObjs ks) arr n = some lk := by
  unfold dimLinkGroup
  rw [child?_deleteObjs_of_keep g ks arr _ ds h1 k1]
  simp only [Option.bind_some]
  rw [child?_deleteObjs_of_keep g ks ds _ d h2 k2]
  simp only [Option.bind_some]
  exact child?_deleteObjs_of_keep g ks d _ lk h3 k3

end Nix.Store.C04
