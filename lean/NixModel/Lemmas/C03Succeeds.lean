import NixModel.Lemmas.C03Accept

/-!
# C03 — a legal name that is free in the container is ACCEPTED

The acceptance theorems of `Lemmas/C03Accept.lean` describe the state after a successful create call. The lemmas here
prove the success itself from what the property text asks for: the name is legal (non-empty, no slash, a type is
given) and no entry of the function's OWN container carries it.
-/
namespace Nix.Store.Lemmas
open Nix.Store Nix.Store.Graph

theorem checkNameType_ok {name type : String} (h : checkNameType name type = .ok ()) :
    name ≠ "" ∧ hasSlash name = false ∧ type ≠ "" := by
  unfold checkNameType at h
  by_cases h1 : name = ""
  · simp [h1] at h
  · by_cases h2 : hasSlash name = true
    · simp [h1, h2] at h
    · by_cases h3 : type = ""
      · simp [h1, h2, h3] at h
      · exact ⟨h1, by simpa using h2, h3⟩

theorem checkNameType_of {name type : String} (h1 : name ≠ "") (h2 : hasSlash name = false) (h3 : type ≠ "") :
    checkNameType name type = .ok () := by
  unfold checkNameType
  simp [h1, h2, h3]

/-- `Entity.create_new` never refuses a legal name / type -/
theorem entityCreateNew_accepts (g : Graph) (ownerKey : Nat) (cname kind : String) {name type : String}
    (h : checkNameType name type = .ok ()) :
    ∃ r, entityCreateNew g ownerKey cname name type kind = .ok r := by
  obtain ⟨h1, h2, h3⟩ := checkNameType_ok h
  unfold entityCreateNew
  have e1 : (name == "") = false := by simpa using h1
  have e3 : (type != "") = true := by simpa using h3
  have e4 : (type == "") = false := by simpa using h3
  simp only [e1, e3, Bool.false_eq_true, ↓reduceIte, h2, e4]
  exact ⟨_, rfl⟩

/-- the duplicate-name test of the create functions (`name in group`) is False when no entry of the container
carries the name -/
theorem hasChild_false_of_new {g : Graph} {ok : Nat} {cname name : String}
    (hnew : ∀ l ∈ cLinks g (g.child? ok cname), l.1 ≠ name) {c : Nat} (hc : g.child? ok cname = some c) :
    g.hasChild c name = false := by
  rw [hasChild_eq, child?_eq]
  have : (g.links c).find? (fun l => l.1 == name) = none := by
    apply find_none_of_forall
    intro l hl
    have := hnew l (by rw [hc]; exact hl)
    simpa using this
  rw [this]; rfl

theorem isOk_of_eq {α : Type} {x : Except Err α} (h : ∀ r, x = r → ∃ a, r = .ok a) : ∃ a, x = .ok a := h x rfl

/-- **`Block.create_group / create_data_array / create_tag / create_source`, `Source.create_source` succeed** for
every legal name that no entry of the function's own container carries -/
theorem WF.createIn_ok {g : Graph} (h : WF g) {p : Path} {o : Loc} {what name type cname kind : String}
    (hr : resolve g rootLoc p = some o) (hsp : createSpec (kindOf g o.key) what = some (cname, kind))
    (hmt : kind ≠ "multi_tag") (hlegal : checkNameType name type = .ok ())
    (hnew : ∀ l ∈ cLinks g (g.child? o.key cname), l.1 ≠ name) :
    ∃ g', Store.createIn g p what name type none = .ok g' := by
  obtain ⟨info, hci, _, _, hokne, _⟩ := createSpec_info hsp
  have hokey : o.key ∈ keys g := h.resolve_root_key hr
  apply isOk_of_eq
  intro r hres
  unfold Store.createIn at hres
  simp only [hr] at hres
  change (match createSpec (kindOf g o.key) what with
      | none => Except.error Err.attributeError
      | some (cname, kind) => _) = _ at hres
  simp only [hsp, hlegal] at hres
  have hcl : cLinks (if (kindOf g o.key == "source") = true then (g.ensureGroup o.key cname).1 else g)
      ((if (kindOf g o.key == "source") = true then (g.ensureGroup o.key cname).1 else g).child? o.key cname) =
      cLinks g (g.child? o.key cname) := by
    by_cases hs : (kindOf g o.key == "source") = true
    · simp only [hs, ↓reduceIte]
      exact (h.ensFacts cname hokey).cLinks_eq
    · simp only [hs]
      rfl
  generalize (if (kindOf g o.key == "source") = true then (g.ensureGroup o.key cname).1 else g) = g0 at hcl hres
  have e : (kind == "multi_tag") = false := by simpa using hmt
  obtain ⟨⟨g1, k⟩, hec⟩ := entityCreateNew_accepts g0 o.key cname kind hlegal
  have hnew0 : ∀ l ∈ cLinks g0 (g0.child? o.key cname), l.1 ≠ name := by rw [hcl]; exact hnew
  cases hc : g0.child? o.key cname with
  | none =>
    simp only [hc, Bool.false_eq_true, ↓reduceIte, e, hec] at hres
    rw [← hres]
    split
    · exact ⟨_, rfl⟩
    · split <;> exact ⟨_, rfl⟩
  | some c =>
    simp only [hc, hasChild_false_of_new hnew0 hc, Bool.false_eq_true, ↓reduceIte, e, hec] at hres
    rw [← hres]
    split
    · exact ⟨_, rfl⟩
    · split <;> exact ⟨_, rfl⟩

/-- **`Block.create_data_frame` succeeds** for every legal name that no data frame of the block carries -/
theorem createFrame_ok {g : Graph} {p : Path} {o : Loc} {name type : String}
    (hr : resolve g rootLoc p = some o) (hk : kindOf g o.key = "block") (hlegal : checkNameType name type = .ok ())
    (hnew : ∀ l ∈ cLinks g (g.child? o.key "data_frames"), l.1 ≠ name) :
    ∃ g', Store.createFrame g p name type = .ok g' := by
  obtain ⟨⟨g1, k⟩, hec⟩ := entityCreateNew_accepts g o.key "data_frames" "data_frame" hlegal
  unfold Store.createFrame
  simp only [hr, hk, bne_self_eq_false, Bool.false_eq_true, ↓reduceIte, hlegal]
  cases hc : g.child? o.key "data_frames" with
  | none => simp only [Bool.false_eq_true, ↓reduceIte, hec]; exact ⟨_, rfl⟩
  | some c => simp only [hasChild_false_of_new hnew hc, Bool.false_eq_true, ↓reduceIte, hec]; exact ⟨_, rfl⟩

/-- **`File.create_section` / `Section.create_section` succeed** for every legal name that no subsection of the same
parent carries; `File.create_section` tests `name in self.sections`, which also looks at the ids: there the name must
not be the id of a top-level section (the documented clash) -/
theorem WF.createSection_ok {g : Graph} (h : WF g) {p : Path} {name type : String} {c : Cont}
    (hc : openCont g p (if p = [] then "metadata" else "sections") = some c)
    (hk : p ≠ [] → kindOf g c.owner.key = "section")
    (hlegal : checkNameType name type = .ok ())
    (hnew : ∀ l ∈ contEntries g c, l.1 ≠ name)
    (hclash : p = [] → isUuid name = true → ∀ l ∈ contEntries g c, g.entityId l.2 ≠ some name) :
    ∃ g', Store.createSection g p name type = .ok g' := by
  obtain ⟨o, hr, hci, ho, _, _, hnode⟩ := openCont_some hc
  cases p with
  | nil =>
    simp only [↓reduceIte] at hc hci
    obtain ⟨⟨g1, k⟩, hec⟩ := entityCreateNew_accepts g 0 "metadata" "section" hlegal
    have hfl : c.info.flavour = .sections := by
      have e : o = rootLoc := by simpa [resolve] using hr.symm
      rw [e] at hci
      have : containerInfo (okind g rootLoc.key) "metadata" = some { flavour := .sections, item := "section" } := rfl
      rw [this] at hci; rw [← Option.some.inj hci]
    have hbn : getByName g c.node name = none := by
      apply find_none_of_forall
      intro l hl
      have := hnew l hl
      simpa using this
    have hgi : getByIdOrName g c.node name = none := by
      unfold getByIdOrName
      by_cases hu : isUuid name = true
      · have : getById g c.node name = none := by
          apply find_none_of_forall
          intro l hl
          have := hclash rfl hu l hl
          simpa using this
        simp [hu, this, hbn]
      · simp [hu, hbn]
    have hhas : contHas g c (.str name) = .ok false := by
      unfold contHas
      simp [hfl, hgi]
    unfold Store.createSection
    simp only [hc, hhas, hec, Except.map]
    exact ⟨_, rfl⟩
  | cons sg ps =>
    have hne : (sg :: ps) ≠ [] := by simp
    simp only [hne, ↓reduceIte] at hc hci
    have hk' := hk hne
    rw [ho] at hk'
    have hokey : o.key ∈ keys g := h.resolve_root_key hr
    have hf := h.ensFacts "sections" hokey
    obtain ⟨⟨g2, k⟩, hec⟩ := entityCreateNew_accepts (g.ensureGroup o.key "sections").1 o.key "sections" "section" hlegal
    have hd : (g.ensureGroup o.key "sections").1.hasChild (g.ensureGroup o.key "sections").2 name = false := by
      cases hcc : g.child? o.key "sections" with
      | some c' =>
        obtain ⟨e1, e2⟩ := hf.old c' hcc
        rw [e1, e2]
        apply hasChild_false_of_new (ok := o.key) (cname := "sections") _ hcc
        intro l hl; apply hnew; unfold contEntries; simp only [if_neg hne] at hnode; rw [hnode]; exact hl
      | none =>
        rw [hasChild_eq, child?_eq, (hf.new hcc).1]; rfl
    unfold Store.createSection
    simp only [hr, hk', bne_self_eq_false, Bool.false_eq_true, ↓reduceIte, hlegal, hd, hec, Except.map]
    exact ⟨_, rfl⟩

/-- **`Block.create_multi_tag` with a positions array of the block succeeds** for every legal name that no multi tag
of the block carries: the positions array (a member of the block's `data_arrays`, by object) is still a member after
`create_new` -/
theorem WF.createIn_mtag_ok {g : Graph} (h : WF g) {p : Path} {o : Loc} {name type : String} {pos : Nat}
    (hr : resolve g rootLoc p = some o) (hk : kindOf g o.key = "block")
    (hlegal : checkNameType name type = .ok ()) (hnf : ∀ m, g.nextId ≤ m → name ≠ idStr m)
    (hnew : ∀ l ∈ cLinks g (g.child? o.key "multi_tags"), l.1 ≠ name)
    (hpk : isKind g pos "data_array" = true) (hps : inBlockStore g o.key "data_arrays" pos = true) :
    ∃ g', Store.createIn g p "multi_tag" name type (some pos) = .ok g' := by
  have hsp : createSpec (kindOf g o.key) "multi_tag" = some ("multi_tags", "multi_tag") := by rw [hk]; rfl
  obtain ⟨info, hci, hpl, hitem, hokne, _⟩ := createSpec_info hsp
  have hokey : o.key ∈ keys g := h.resolve_root_key hr
  have hci' : containerInfo (okind g o.key) "multi_tags" = some info := by
    rw [h.okind_of_kind hokne]; exact hci
  obtain ⟨hname, _, _⟩ := checkNameType_ok hlegal
  obtain ⟨⟨g1, k⟩, hec⟩ := entityCreateNew_accepts g o.key "multi_tags" "multi_tag" hlegal
  have hfree : name ≠ "" → ∀ c, g.child? o.key "multi_tags" = some c → g.child? c name = none := by
    intro _ c hc
    have := hasChild_false_of_new hnew hc
    rw [hasChild_eq] at this
    cases hx : g.child? c name <;> simp_all
  obtain ⟨nm, _, _, hne, _⟩ := h.entityCreateNew hokey hci' hpl hitem hfree hnf hec
  -- the positions array: a node of `g`, linked from the block's `data_arrays` group
  unfold inBlockStore at hps
  cases hn : g.getAttr pos "name" with
  | none => simp [hn] at hps
  | some pn =>
    simp only [hn] at hps
    cases hb : getByName g (g.child? o.key "data_arrays") pn with
    | none => simp [hb] at hps
    | some l =>
      simp only [hb, beq_iff_eq] at hps
      cases hcd : g.child? o.key "data_arrays" with
      | none => rw [hcd] at hb; simp [getByName, cLinks] at hb
      | some cd =>
        rw [hcd] at hb
        have hl : l ∈ g.links cd := by
          unfold getByName cLinks at hb; exact List.mem_of_find?_eq_some hb
        have hposk : pos ∈ keys g := hps ▸ h.target_exists cd l hl
        have hcdk : cd ∈ keys g := h.target_exists o.key ("data_arrays", cd) (child?_some_mem hcd)
        have hcid : containerInfo (okind g o.key) "data_arrays" = some { flavour := .plain, item := "data_array" } := by
          rw [h.okind_of_kind hokne, hk]; rfl
        have hcdne : cd ≠ o.key := by
          intro e
          have := (h.cont_plain cd ⟨o.key, "data_arrays", _, hcid, hcd⟩).2
          rw [e, hk] at this; exact absurd this (by decide)
        have hcdmt : g.child? o.key "multi_tags" ≠ some cd := by
          intro e
          have := (h.cont_unique o.key "data_arrays" _ cd hcid hcd o.key ("multi_tags", cd) (child?_some_mem e) rfl).2
          have this' : "multi_tags" = "data_arrays" := this
          exact absurd this' (by decide)
        have hk1 : isKind g1 pos "data_array" = true := by
          unfold isKind kindOf at hpk ⊢
          rw [hne.attrs_old pos hposk]; exact hpk
        have hk2 : inBlockStore g1 o.key "data_arrays" pos = true := by
          unfold inBlockStore
          rw [hne.attrs_old pos hposk, hn]
          simp only
          rw [hne.child_owner "data_arrays" (by decide), hcd]
          have : getByName g1 (some cd) pn = some l := by
            unfold getByName cLinks at hb ⊢
            simp only at hb ⊢
            rw [hne.links_other cd hcdk hcdne hcdmt]; exact hb
          rw [this]; simp [hps]
        apply isOk_of_eq
        intro r hres
        unfold Store.createIn at hres
        simp only [hr] at hres
        change (match createSpec (kindOf g o.key) "multi_tag" with
            | none => Except.error Err.attributeError
            | some (cname, kind) => _) = _ at hres
        simp only [hsp, hlegal] at hres
        have hsrc : (kindOf g o.key == "source") = false := by rw [hk]; decide
        simp only [hsrc, Bool.false_eq_true, ↓reduceIte] at hres
        cases hc : g.child? o.key "multi_tags" with
        | none =>
          simp only [hc, Bool.false_eq_true, ↓reduceIte, beq_self_eq_true, hec, hk1, hk2, Bool.not_true] at hres
          exact ⟨_, hres.symm⟩
        | some c =>
          simp only [hc, hasChild_false_of_new hnew hc, Bool.false_eq_true, ↓reduceIte, beq_self_eq_true, hec, hk1, hk2,
            Bool.not_true] at hres
          exact ⟨_, hres.symm⟩

end Nix.Store.Lemmas
