import NixModel.Store.ApiW

/-! # C12 — `LinkContainer.extend`: every item is checked before the first link is written -/
namespace Nix.Store.Lemmas
open Nix.Store Nix.Store.Graph

theorem contExtendW_refused (g : Graph) (c : Cont) (keys : List Key) (e : Err)
    (h : (contExtendW g c keys).2 = some e) : (contExtendW g c keys).1 = g := by
  unfold contExtendW at h ⊢
  cases hm : keys.mapM (acceptItem g c) with
  | error e' => rfl
  | ok items => simp [hm] at h

/-- a block with a group `g`, an array `a`, and a second block with an array `x` -/
def extDemo : Graph := run init [.createBlock "b" "t", .createIn [.name "data", .name "b"] "group" "g" "t" none,
  .createIn [.name "data", .name "b"] "data_array" "a" "t" none, .createBlock "b2" "t",
  .createIn [.name "data", .name "b2"] "data_array" "x" "t" none]

/-- `g.data_arrays` of the demo -/
def extCont : Cont :=
  { owner := { key := 5, parent := 4, lname := "g", depth := 4 }, ownerKind := "group", cname := "data_arrays",
    info := { flavour := .link, item := "data_array", store := "data_arrays" }, node := none, block := some 3 }

/-- the former loop of `append` calls links the leading item and then refuses the foreign one -/
theorem loop_changes_file :
    (contExtendLoopW extDemo extCont [.ent 7, .ent 11]).2 = some .runtimeError ∧
      (contExtendLoopW extDemo extCont [.ent 7, .ent 11]).1 ≠ extDemo := by decide +kernel

/-- the repaired `extend` refuses the same call and has written nothing -/
theorem extend_refuses_cleanly :
    contExtendW extDemo extCont [.ent 7, .ent 11] = (extDemo, some .runtimeError) := by decide +kernel

end Nix.Store.Lemmas
