import NixModel.Lemmas.C13Shape
import NixModel.Pure.TreeIds

/-!
# C13 — id comparisons on the stored texts agree with the keys, whatever the spelling

`Pure/TreeIds.lean` runs `Section.parent` / `Source.parent_source` with every id comparison made on the id *texts*
stored in the file (the look-up chain `Container.__contains__` → `H5Group.get_by_id` → fall-back by name).  Here: when
the chain compares the key *as given* (`IdLookup.idKey = .asGiven`) and the texts of a tree are pairwise different,
are ids (`util.is_uuid`) and are nobody's name, the text-level functions are the key-level ones of
`Pure/TreeShape.lean` - for every assignment of texts, i.e. for ids supplied by the caller in any spelling.
-/

namespace Nix.Tree.Ids
open Nix.Tree Nix.Tree.Shape Nix.Py

/-- the look-up with the key compared as given: a stored id equal to the text (only asked when the text is an id),
or a child of that name -/
theorem containsT_asGiven (sh : IdLookup) (h : sh.idKey = .asGiven) (cs : List Child) (t : String) :
    containsT sh cs t = ((uuidAccepts t && cs.any (fun c => c.id == t)) || cs.any (fun c => c.name == t)) := by
  simp [containsT, h, KeyNorm.apply]

/-- an assignment of id texts that is fit for a forest: pairwise different texts, each one an id, none of
them the name of a node (a name that reads as an id: name / id dispatch, C03) -/
structure IdsOK (texts : Nat → String) (rs : List Node) : Prop where
  inj : ∀ a ∈ keysL rs, ∀ b ∈ keysL rs, texts a = texts b → a = b
  uuid : ∀ a ∈ keysL rs, uuidAccepts (texts a) = true
  names : ∀ n ∈ nodesL rs, ∀ a ∈ keysL rs, n.name ≠ texts a

theorem any_congr' {α : Type} {l : List α} {p q : α → Bool} (h : ∀ a ∈ l, p a = q a) : l.any p = l.any q := by
  induction l with
  | nil => rfl
  | cons x xs ih =>
    simp only [List.any_cons, h x (List.mem_cons_self ..), ih (fun a ha => h a (List.mem_cons_of_mem _ ha))]

theorem beq_texts {texts : Nat → String} {a b : Nat} (h : texts a = texts b → a = b) :
    (texts a == texts b) = (a == b) := by
  by_cases e : a = b
  · subst e; simp
  · have : texts a ≠ texts b := fun h' => e (h h')
    rw [beq_eq_false_iff_ne.mpr this, beq_eq_false_iff_ne.mpr e]

theorem key_mem {rs : List Node} {c : Node} (h : c ∈ nodesL rs) : c.key ∈ keysL rs :=
  List.mem_map.mpr ⟨c, h, rfl⟩

theorem anyByT_eq (sh : IdLookup) (hv : sh.idKey = .asGiven) {texts : Nat → String} {rs : List Node}
    (ok : IdsOK texts rs) (kb : KeyBy) {l : List Node} (hl : ∀ c ∈ l, c ∈ nodesL rs) {k : Nat}
    (hk : k ∈ keysL rs) (nm : String) :
    anyByT sh texts kb l k nm = anyBy kb l k nm := by
  cases kb with
  | name => rfl
  | obj => rfl
  | id =>
    simp only [anyByT, containsT_asGiven sh hv, ok.uuid k hk, Bool.true_and, anyBy, kids, List.any_map]
    have h2 : l.any ((fun c : Child => c.name == texts k) ∘ fun c => (⟨texts c.key, c.name⟩ : Child)) = false := by
      rw [List.any_eq_false]
      intro c hc
      simpa using ok.names c (hl c hc) k hk
    rw [h2, Bool.or_false]
    apply any_congr'
    intro c hc
    exact beq_texts (ok.inj _ (key_mem (hl c hc)) _ hk)

theorem parentLoopT_eq (sh : IdLookup) (hv : sh.idKey = .asGiven) {texts : Nat → String} {rs : List Node}
    (ok : IdsOK texts rs) (kb : KeyBy) {k : Nat} (hk : k ∈ keysL rs) (nm : String) (q : List Node) :
    (∀ s ∈ nodesL q, s ∈ nodesL rs) → parentLoopT sh texts kb k nm q = parentLoopG kb k nm q := by
  fun_induction parentLoopG kb k nm q with
  | case1 => intro _; simp [parentLoopT]
  | case2 s rest hc =>
    intro hq
    have hs : s ∈ nodesL rs := hq s (mem_nodesL_cons.mpr (.inl rfl))
    rw [parentLoopT, anyByT_eq sh hv ok kb (fun c h => child_mem_nodesL hs h) hk, hc]
    simp
  | case3 s rest hc ih =>
    intro hq
    have hs : s ∈ nodesL rs := hq s (mem_nodesL_cons.mpr (.inl rfl))
    rw [parentLoopT, anyByT_eq sh hv ok kb (fun c h => child_mem_nodesL hs h) hk]
    simp only [hc]
    apply ih
    intro x hx
    rw [nodesL_append, List.mem_append] at hx
    rcases hx with hx | hx
    · exact hq x (mem_nodesL_cons.mpr (.inr (.inr hx)))
    · exact hq x (mem_nodesL_cons.mpr (.inr (.inl hx)))

/-- `Section.parent` on id texts = `Section.parent` on keys -/
theorem sectionParentT_eq (s : ParentShape) (sh : IdLookup) (hv : sh.idKey = .asGiven) {texts : Nat → String}
    {f : File} (ok : IdsOK texts f.sections) (k : Nat) (useCache : Bool) :
    sectionParentT s sh texts f k useCache = sectionParentG s f k useCache := by
  unfold sectionParentT sectionParentG
  cases hn : findL? k f.sections with
  | none => rfl
  | some n =>
    obtain ⟨hmem, hkey⟩ := (findL?_spec k f.sections).1 n hn
    have hk : k ∈ keysL f.sections := hkey ▸ key_mem hmem
    have h1 : f.sections.any (fun x => texts x.key == texts k) = f.sections.any (fun x => x.key == k) := by
      apply any_congr'
      intro x hx
      exact beq_texts (ok.inj _ (key_mem (mem_nodesL_roots hx)) _ hk)
    simp only [h1, parentLoopT_eq sh hv ok s.containKey hk n.name f.sections (fun _ h => h)]
    rfl

mutual
theorem findParentRecT_eq (sh : IdLookup) (hv : sh.idKey = .asGiven) {texts : Nat → String} {rs : List Node}
    (ok : IdsOK texts rs) (kb : KeyBy) {k : Nat} (hk : k ∈ keysL rs) (nm : String) :
    ∀ n : Node, n ∈ nodesL rs → findParentRecT sh texts kb k nm n = findParentRecG kb k nm n
  | .mk i cs, hn => by
    have hcs : ∀ c ∈ cs, c ∈ nodesL rs := fun c hc => child_mem_nodesL hn (by simpa [Node.children] using hc)
    rw [findParentRecT, findParentRecG, anyByT_eq sh hv ok kb hcs hk,
      findParentRecLT_eq sh hv ok kb hk nm cs hcs]
theorem findParentRecLT_eq (sh : IdLookup) (hv : sh.idKey = .asGiven) {texts : Nat → String} {rs : List Node}
    (ok : IdsOK texts rs) (kb : KeyBy) {k : Nat} (hk : k ∈ keysL rs) (nm : String) :
    ∀ cs : List Node, (∀ c ∈ cs, c ∈ nodesL rs) →
      findParentRecLT sh texts kb k nm cs = findParentRecLG kb k nm cs
  | [], _ => by simp [findParentRecLT, findParentRecLG]
  | c :: cs, h => by
    rw [findParentRecLT, findParentRecLG, findParentRecT_eq sh hv ok kb hk nm c (h c (List.mem_cons_self ..)),
      findParentRecLT_eq sh hv ok kb hk nm cs (fun x hx => h x (List.mem_cons_of_mem _ hx))]
    rfl
end

/-- `Source.parent_source` on id texts = `Source.parent_source` on keys, for every source of a block -/
theorem sourceParentT_eq (s : SrcParentShape) (sh : IdLookup) (hv : sh.idKey = .asGiven) {texts : Nat → String}
    {f : File} (hf : WF f) {b : Block} (hb : b ∈ f.blocks) (ok : IdsOK texts b.sources) {x : Node}
    (hx : x ∈ nodesL b.sources) :
    sourceParentT s sh texts f x.key = sourceParentG s f x.key := by
  unfold sourceParentT sourceParentG
  rw [lookup_src hf hb hx]
  have hk := key_mem hx
  simp only [anyByT_eq sh hv ok s.topKey (fun c h => mem_nodesL_roots h) hk,
    findParentRecLT_eq sh hv ok s.recKey hk x.name b.sources (fun c h => mem_nodesL_roots h)]

/-- the comparison of `referring_*` on id texts = on keys -/
theorem mdMatchT_eq {texts : Nat → String} {keys : List Nat}
    (inj : ∀ a ∈ keys, ∀ b ∈ keys, texts a = texts b → a = b) {md : Option Nat} {k : Nat}
    (hm : ∀ t, md = some t → t ∈ keys) (hk : k ∈ keys) :
    mdMatchT texts md k = (md == some k) := by
  cases md with
  | none => simp [mdMatchT]
  | some t =>
    simp only [mdMatchT, beq_texts (inj _ (hm t rfl) _ hk)]
    cases h : t == k <;> simp_all

end Nix.Tree.Ids
