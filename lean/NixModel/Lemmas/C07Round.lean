import NixModel.Lemmas.C07Ranges

/-!
Helper lemmas for C07: round trips (`index_of (position_at i) = i`, `tick_at`), axes, the width of the
tolerance band, and facts about the generated constants.
-/
namespace Nix.Dim.Lemmas
open Nix Nix.Dim Nix.Dim.Gen

/-! ## round trip of a sampled dimension -/

theorem sampledIndexOfT_scale (tz th : Tol) (rnd : String) (off si pos : Rat) (mode : IndexMode) (hne : si ≠ 0) :
    sampledIndexOfT tz true th rnd off si pos mode
      = sampledIndexOfT tz true th rnd 0 1 ((pos - off) / si) mode := by
  unfold sampledIndexOfT
  simp [hne]

theorem roundBy_nat (rnd : String) (hr : rnd = "round" ∨ rnd = "floor") (i : Nat) :
    roundBy rnd (i : Rat) = (i : Int) := by
  have hfl : ⌊(i : Rat)⌋ = (i : Int) := by
    have : ((i : Int) : Rat) = (i : Rat) := by push_cast; rfl
    rw [← this]; exact Int.floor_intCast _
  have := (roundBy_cases rnd hr (i : Rat)).2 (by rw [hfl]; push_cast; rfl)
  rw [this, hfl]

theorem sampled_roundtripT (tz th : Tol) (rnd : String) (hr : rnd = "round" ∨ rnd = "floor")
    (hz1 : 0 ≤ tz.rtol) (hz2 : 0 ≤ tz.atol) (hz3 : tz.atol < 1) (hh1 : 0 ≤ th.rtol) (hh2 : 0 ≤ th.atol)
    (off si : Rat) (hsi : 0 < si) (i : Nat) :
    sampledIndexOfT tz true th rnd off si (sampledPositionAt off si i) .leq = .ok (i : Int) ∧
    sampledIndexOfT tz true th rnd off si (sampledPositionAt off si i) .geq = .ok (i : Int) ∧
    sampledIndexOfT tz true th rnd off si (sampledPositionAt off si i) .less =
      (if i = 0 then .error .indexError else .ok ((i : Int) - 1)) := by
  have hne : si ≠ 0 := ne_of_gt hsi
  have hx : (sampledPositionAt off si (i : Int) - off) / si = (i : Rat) := by
    unfold sampledPositionAt
    field_simp
    push_cast
    ring
  have hnn : ¬ ((i : Rat) < 0) := not_lt.2 (Nat.cast_nonneg i)
  have hclose : isclose th (i : Rat) (((i : Int)) : Rat) = true := by
    have : (((i : Int)) : Rat) = (i : Rat) := by push_cast; rfl
    rw [this]; exact isclose_self th hh1 hh2 _
  refine ⟨?_, ?_, ?_⟩
  · rw [sampledIndexOfT_scale _ _ _ _ _ _ _ hne, hx]
    unfold sampledIndexOfT
    rw [if_neg one_ne_zero]
    simp only [sub_zero, div_one, ↓reduceIte, roundBy_nat rnd hr i, hclose, if_neg hnn]
    simp
  · rw [sampledIndexOfT_scale _ _ _ _ _ _ _ hne, hx]
    unfold sampledIndexOfT
    rw [if_neg one_ne_zero]
    simp only [sub_zero, div_one, ↓reduceIte, roundBy_nat rnd hr i, hclose, if_neg hnn]
    simp
  · rw [sampledIndexOfT_scale _ _ _ _ _ _ _ hne, hx]
    unfold sampledIndexOfT
    rw [if_neg one_ne_zero]
    simp only [sub_zero, div_one, ↓reduceIte, roundBy_nat rnd hr i, hclose, if_neg hnn]
    by_cases hi : i = 0
    · subst hi
      have : isclose tz 0 0 = true := isclose_self tz hz1 hz2 0
      simp [this]
    · have hne0 : ((i : Nat) : Rat) ≠ 0 := by exact_mod_cast hi
      have : isclose tz (i : Rat) 0 = false := by
        cases hc : isclose tz (i : Rat) 0 with
        | false => rfl
        | true =>
          exfalso
          rw [isclose_iff, band_eq] at hc
          simp only [sub_zero, abs_zero, mul_zero, add_zero] at hc
          rw [abs_of_nonneg (Nat.cast_nonneg i)] at hc
          have h1 : (1 : Rat) ≤ (i : Rat) := by
            have : 1 ≤ i := by omega
            exact_mod_cast this
          linarith
      simp [this, hi]

/-! ## round trip of a range dimension -/

theorem pyGet_nat (l : List Rat) (i : Nat) (hi : i < l.length) : pyGet l (i : Int) = .ok (l.getD i 0) := by
  unfold pyGet
  have h1 : ¬ ((i : Int) < 0) := by omega
  simp only [h1, if_false, Int.toNat_natCast]
  rw [List.getElem?_eq_getElem hi, getD_lt l i hi]

theorem range_roundtrip (ticks : List Rat) (hasc : AscendingList ticks) (i : Nat) (hi : i < ticks.length) :
    rangeTickAt ticks (i : Int) = .ok (tickCoord ticks i) ∧
    (∃ j : Nat, rangeIndexOf ticks (tickCoord ticks i) .leq = .ok (j : Int) ∧ i ≤ j ∧ j < ticks.length ∧
        tickCoord ticks j = tickCoord ticks i) ∧
    (∃ j : Nat, rangeIndexOf ticks (tickCoord ticks i) .geq = .ok (j : Int) ∧ j ≤ i ∧
        tickCoord ticks j = tickCoord ticks i) := by
  have hdom : InDom (some ticks.length) i := (inDom_some _ _).2 hi
  have hmono := tick_ascending ticks hasc
  refine ⟨pyGet_nat ticks i hi, ?_, ?_⟩
  · obtain ⟨k, ⟨hk1, hk2⟩, hk3⟩ := exists_greatest
      (fun j => InDom (some ticks.length) j ∧ tickCoord ticks j ≤ tickCoord ticks i) ticks.length
      (fun j hj => Nat.le_of_lt ((inDom_some _ _).1 hj.1)) ⟨i, hdom, le_refl _⟩
    have hs : IsSample .leq (tickCoord ticks) (some ticks.length) (tickCoord ticks i) k :=
      ⟨hk1, hk2, fun j hj hj2 => hk3 j ⟨hj, hj2⟩⟩
    have hik : i ≤ k := hk3 i ⟨hdom, le_refl _⟩
    refine ⟨k, ((meets_iff (rangeIndexOf_meets ticks hasc _ .leq (by decide))).1 k).2 hs, hik,
      (inDom_some _ _).1 hk1, le_antisymm hk2 (hmono i k hik hk1)⟩
  · obtain ⟨k, ⟨hk1, hk2⟩, hk3⟩ := exists_least
      (fun j => InDom (some ticks.length) j ∧ tickCoord ticks i ≤ tickCoord ticks j) ⟨i, hdom, le_refl _⟩
    have hs : IsSample .geq (tickCoord ticks) (some ticks.length) (tickCoord ticks i) k :=
      ⟨hk1, hk2, fun j hj hj2 => hk3 j ⟨hj, hj2⟩⟩
    have hki : k ≤ i := hk3 i ⟨hdom, le_refl _⟩
    exact ⟨k, ((meets_iff (rangeIndexOf_meets ticks hasc _ .geq (by decide))).1 k).2 hs, hki,
      le_antisymm (hmono k i hki hdom) hk2⟩

/-- strictly ascending ticks: the round trip is the identity -/
theorem range_roundtrip_strict (ticks : List Rat) (hstrict : ticks.Pairwise (· < ·)) (i : Nat)
    (hi : i < ticks.length) :
    rangeIndexOf ticks (tickCoord ticks i) .leq = .ok (i : Int) ∧
    rangeIndexOf ticks (tickCoord ticks i) .geq = .ok (i : Int) := by
  have hasc : AscendingList ticks := hstrict.imp (fun h => le_of_lt h)
  have hinj : ∀ j, j < ticks.length → tickCoord ticks j = tickCoord ticks i → j = i := by
    intro j hj heq
    simp only [tickCoord, getD_lt _ _ hj, getD_lt _ _ hi] at heq
    rcases Nat.lt_trichotomy j i with h | h | h
    · exact absurd heq (ne_of_lt ((List.pairwise_iff_getElem.1 hstrict) j i hj hi h))
    · exact h
    · exact absurd heq.symm (ne_of_lt ((List.pairwise_iff_getElem.1 hstrict) i j hi hj h))
  obtain ⟨_, ⟨j1, h1, _, h1b, h1c⟩, ⟨j2, h2, h2a, h2c⟩⟩ := range_roundtrip ticks hasc i hi
  rw [hinj j1 h1b h1c] at h1
  rw [hinj j2 (by omega) h2c] at h2
  exact ⟨h1, h2⟩

/-! ## axes -/

theorem sampled_axis_start (off si : Rat) (count : Int) (start : Nat) (sp : Option Rat) :
    sampledAxis off si count (some (start : Int)) sp =
      .ok ((List.range count.toNat).map fun k => sampledPositionAt off si (((start + k : Nat)) : Int)) := by
  unfold sampledAxis
  have h : ¬ ((start : Int) < 0) := by omega
  simp only [h, if_false]
  congr 1
  apply List.map_congr_left
  intro k _
  unfold sampledPositionAt
  push_cast
  ring

theorem sampled_axis_default (off si : Rat) (count : Int) :
    sampledAxis off si count none none =
      .ok ((List.range count.toNat).map fun k => sampledPositionAt off si ((k : Nat) : Int)) := by
  unfold sampledAxis
  simp only []
  congr 1

theorem sampled_axis_position (off si : Rat) (hsi : 0 < si) (count : Int) (j : Nat) :
    sampledAxis off si count none (some (sampledPositionAt off si (j : Int))) =
      .ok ((List.range count.toNat).map fun k => sampledPositionAt off si (((j + k : Nat)) : Int)) := by
  unfold sampledAxis
  have h : ¬ (sampledPositionAt off si (j : Int) < off) := by
    unfold sampledPositionAt
    have : (0 : Rat) ≤ ((j : Int) : Rat) * si := mul_nonneg (by exact_mod_cast Nat.zero_le j) (le_of_lt hsi)
    linarith
  simp only [h, if_false]
  congr 1
  apply List.map_congr_left
  intro k _
  unfold sampledPositionAt
  push_cast
  ring

theorem pyClamp_nat (n i : Nat) (h : i ≤ n) : pyClamp n (i : Int) = i := by
  unfold pyClamp
  have h1 : ¬ ((i : Int) < 0) := by omega
  have h2 : ¬ ((i : Int) > (n : Int)) := by omega
  simp [h1, h2]

theorem range_axis_eq (ticks : List Rat) (start count : Nat) (h : start + count ≤ ticks.length) :
    rangeAxis ticks (count : Int) (start : Int) =
      .ok ((List.range count).map fun k => tickCoord ticks (start + k)) := by
  unfold rangeAxis
  have h1 : ¬ ((start : Int) + (count : Int) > (ticks.length : Int)) := by omega
  have hc : ((start : Int) + (count : Int)) = ((start + count : Nat) : Int) := by push_cast; rfl
  simp only [h1, if_false]
  rw [hc, pyClamp_nat ticks.length (start + count) h, pyClamp_nat ticks.length start (by omega)]
  congr 1
  apply List.ext_getElem
  · simp; omega
  · intro k hk1 hk2
    have hk : k < count := by simpa using hk2
    have hlt : start + k < ticks.length := by omega
    simp [tickCoord, List.getElem?_eq_getElem hlt]

theorem range_axis_beyond (ticks : List Rat) (start count : Int) (h : start + count > ticks.length) :
    rangeAxis ticks count start = .error .indexError := by
  unfold rangeAxis
  simp [h]

/-! ## width of the tolerance band -/

theorem band_lt_half_iff (t : Tol) (hr : 0 < t.rtol) (i : Nat) :
    band t (i : Rat) < 1 / 2 ↔ (i : Rat) < (1 / 2 - t.atol) / t.rtol := by
  rw [band_eq, abs_of_nonneg (Nat.cast_nonneg i), lt_div_iff₀ hr]
  constructor <;> intro h <;> nlinarith

/-! ## the generated constants -/

theorem gen_tol_facts :
    (0 ≤ sampledZeroTol.rtol ∧ 0 ≤ sampledZeroTol.atol ∧ sampledZeroTol.atol < 1) ∧
    (0 ≤ sampledHitTol.rtol ∧ 0 ≤ sampledHitTol.atol) ∧ (0 ≤ setHitTol.rtol ∧ 0 ≤ setHitTol.atol) := by
  unfold sampledZeroTol sampledHitTol setHitTol
  norm_num

theorem gen_band_limit (i : Nat) (hi : i ≤ 100000000000) :
    band sampledHitTol (i : Rat) < 1 / 2 ∧ band setHitTol (i : Rat) < 1 / 2 := by
  have h1 : (i : Rat) ≤ 100000000000 := by exact_mod_cast hi
  have h0 : (0 : Rat) ≤ i := Nat.cast_nonneg i
  rw [band_eq, band_eq, abs_of_nonneg h0]
  unfold sampledHitTol setHitTol
  constructor <;> norm_num <;> linarith

end Nix.Dim.Lemmas
