import NixModel.Lemmas.C01Steps

/-! Helper lemmas for C01: reference semantics of histories (functional update per multi-index), refinement of
the model's steps to it, invariants (element type, typed elements, filter flag). -/
namespace Nix.Nd.Lemmas
open Nix Nix.Nd

/-! ### extensional equality of arrays -/

/-- same shape and same element on every valid multi-index -/
def EqArr (A B : NdArray α) : Prop :=
  A.shape = B.shape ∧ ∀ idx, inBounds idx A.shape = true → A.get idx = B.get idx

theorem EqArr.refl (A : NdArray α) : EqArr A A := ⟨rfl, fun _ _ => rfl⟩

theorem EqArr.trans {A B C : NdArray α} (h1 : EqArr A B) (h2 : EqArr B C) : EqArr A C :=
  ⟨h1.1.trans h2.1, fun idx hb => (h1.2 idx hb).trans (h2.2 idx (h1.1 ▸ hb))⟩

theorem EqArr.symm {A B : NdArray α} (h : EqArr A B) : EqArr B A :=
  ⟨h.1.symm, fun idx hb => (h.2 idx (h.1 ▸ hb)).symm⟩

/-! ### reference semantics -/

/-- every extent is a natural number -/
def AllNonneg (e : List Int) : Prop := ∀ x ∈ e, 0 ≤ x

theorem allNonneg_iff : ∀ e : List Int, allNonneg e = true ↔ AllNonneg e
  | [] => by simp [allNonneg, AllNonneg]
  | x :: xs => by simp [allNonneg, AllNonneg, allNonneg_iff xs, AllNonneg]

/-- the step can be performed on an array of shape `sh` (specification) -/
def Accepts (sh : List Nat) : Step → Prop
  | .write d => ∃ sel, select sh [Ix.slice none none none] = .ok sel ∧ bcastOk sel d.shape = true
  | .assign ixs d => ∃ sel, select sh ixs = .ok sel ∧ bcastOk sel d.shape = true
  | .append d axis => AppendOk sh (contiguous d).shape axis
  | .resize e => e.length = sh.length ∧ AllNonneg e
  | .reopen => True

/-- shape after an accepted step -/
def newShape (sh : List Nat) : Step → List Nat
  | .append d axis => sh.set axis.toNat (sh.getD axis.toNat 0 + (contiguous d).shape.getD axis.toNat 0)
  | .resize e => e.map Int.toNat
  | _ => sh

/-- the source element an accepted step puts on multi-index `idx` (`none`: the step does not write there) -/
def written (sh : List Nat) : Step → List Nat → Option Elem
  | .write d, idx =>
    match select sh [Ix.slice none none none] with
    | .ok sel => (relIdx sel idx).map fun rel => d.get (bcastIdx sel rel d.shape)
    | .error _ => none
  | .assign ixs d, idx =>
    match select sh ixs with
    | .ok sel => (relIdx sel idx).map fun rel => d.get (bcastIdx sel rel d.shape)
    | .error _ => none
  | .append d axis, idx =>
    if idx.getD axis.toNat 0 < sh.getD axis.toNat 0 then none
    else some ((contiguous d).get (idx.set axis.toNat (idx.getD axis.toNat 0 - sh.getD axis.toNat 0)))
  | .resize _, _ => none
  | .reopen, _ => none

open Classical in
/-- reference step: functional update of the map from multi-indices to elements; a step that cannot be
performed changes nothing -/
noncomputable def refStep (fill : Elem) (A : NdArray Elem) (s : Step) : NdArray Elem :=
  if Accepts A.shape s then
    ⟨newShape A.shape s, fun idx =>
      match written A.shape s idx with
      | some v => v
      | none => if inBounds idx A.shape then A.get idx else fill⟩
  else A

noncomputable def refRun (fill : Elem) (A : NdArray Elem) : List Step → NdArray Elem
  | [] => A
  | s :: rest => refRun fill (refStep fill A s) rest

theorem refStep_pos (fill : Elem) (A : NdArray Elem) (s : Step) (h : Accepts A.shape s) :
    refStep fill A s = ⟨newShape A.shape s, fun idx =>
      match written A.shape s idx with
      | some v => v
      | none => if inBounds idx A.shape then A.get idx else fill⟩ := by
  unfold refStep; rw [if_pos h]

theorem refStep_neg (fill : Elem) (A : NdArray Elem) (s : Step) (h : ¬ Accepts A.shape s) :
    refStep fill A s = A := by
  unfold refStep; rw [if_neg h]

theorem refStep_congr (fill : Elem) {A B : NdArray Elem} (h : EqArr A B) (s : Step) :
    EqArr (refStep fill A s) (refStep fill B s) := by
  unfold refStep
  rw [← h.1]
  split
  · refine ⟨rfl, fun idx _ => ?_⟩
    simp only
    split
    · rfl
    · by_cases hb : inBounds idx A.shape = true
      · simp [hb, h.2 idx hb]
      · simp [hb]
  · exact h

theorem refRun_congr (fill : Elem) : ∀ (steps : List Step) {A B : NdArray Elem}, EqArr A B →
    EqArr (refRun fill A steps) (refRun fill B steps)
  | [], _, _, h => h
  | s :: rest, _, _, h => refRun_congr fill rest (refStep_congr fill h s)

/-! ### the model's steps preserve element type and filter flag -/

theorem assign_meta {A B : DArr} {ixs : List Ix} {D : NdArray Elem} (h : assign A ixs D = .ok B) :
    B.dtype = A.dtype ∧ B.compressed = A.compressed := by
  unfold assign at h
  split at h
  · cases h
  · split at h
    · cases h; exact ⟨rfl, rfl⟩
    · cases h

theorem setExtent_meta {A B : DArr} {e : List Int} (h : setExtent A e = .ok B) :
    B.dtype = A.dtype ∧ B.compressed = A.compressed := by
  unfold setExtent at h
  split at h
  · cases h
  · split at h
    · cases h
    · cases h; exact ⟨rfl, rfl⟩

theorem append_meta {A B : DArr} {D : NdArray Elem} {axis : Int} (h : append A D axis = .ok B) :
    B.dtype = A.dtype ∧ B.compressed = A.compressed := by
  unfold append at h
  dsimp only at h
  split at h
  · cases h
  · split at h
    · cases h
    · split at h
      · cases h
      · split at h
        · cases h
        · rename_i A1 h1
          have m1 := setExtent_meta h1
          have m2 := assign_meta h
          exact ⟨m2.1.trans m1.1, m2.2.trans m1.2⟩

theorem step_meta {A B : DArr} {s : Step} (h : step A s = .ok B) :
    B.dtype = A.dtype ∧ B.compressed = A.compressed := by
  cases s with
  | write d => exact assign_meta h
  | assign ixs d => exact assign_meta h
  | append d axis => exact append_meta h
  | resize e => exact setExtent_meta h
  | reopen => cases h; exact ⟨rfl, rfl⟩

theorem stepState_meta (A : DArr) (s : Step) :
    (stepState A s).dtype = A.dtype ∧ (stepState A s).compressed = A.compressed := by
  unfold stepState
  split
  · rename_i B h; exact step_meta h
  · exact ⟨rfl, rfl⟩

theorem run_keeps_meta : ∀ (steps : List Step) (A : DArr),
    (run A steps).dtype = A.dtype ∧ (run A steps).compressed = A.compressed
  | [], _ => ⟨rfl, rfl⟩
  | s :: rest, A => by
    have h1 := run_keeps_meta rest (stepState A s)
    have h2 := stepState_meta A s
    exact ⟨h1.1.trans h2.1, h1.2.trans h2.2⟩

/-! ### single-step refinement -/

theorem assign_refines (A : DArr) (ixs : List Ix) (D : NdArray Elem) :
    (∀ sel, select A.arr.shape ixs = .ok sel → bcastOk sel D.shape = true →
      ∃ B, assign A ixs D = .ok B ∧ B.arr.shape = A.arr.shape ∧
        ∀ idx, inBounds idx A.arr.shape = true →
          B.arr.get idx = (match (relIdx sel idx).map fun rel => D.get (bcastIdx sel rel D.shape) with
            | some v => v
            | none => if inBounds idx A.arr.shape then A.arr.get idx else A.dtype.fill)) ∧
    ((¬ ∃ sel, select A.arr.shape ixs = .ok sel ∧ bcastOk sel D.shape = true) →
      ∃ e, assign A ixs D = .error e) := by
  constructor
  · intro sel hs hb
    refine ⟨{ A with arr := A.arr.setRegion sel D }, ?_, rfl, ?_⟩
    · unfold assign; rw [hs]; simp [hb]
    · intro idx hin
      simp only [NdArray.setRegion]
      cases relIdx sel idx with
      | some rel => rfl
      | none => simp [hin]
  · intro h
    unfold assign
    cases hs : select A.arr.shape ixs with
    | error e => exact ⟨e, rfl⟩
    | ok sel =>
      by_cases hb : bcastOk sel D.shape = true
      · exact absurd ⟨sel, hs, hb⟩ h
      · exact ⟨.typeError, by simp [hb]⟩

theorem setExtent_refines (A : DArr) (e : List Int) :
    (e.length = A.arr.shape.length ∧ AllNonneg e →
      setExtent A e = .ok { A with arr := A.arr.resize A.dtype.fill (e.map Int.toNat) }) ∧
    (¬ (e.length = A.arr.shape.length ∧ AllNonneg e) → ∃ err, setExtent A e = .error err) := by
  unfold setExtent
  constructor
  · rintro ⟨h1, h2⟩
    rw [if_neg (fun hne => hne h1), if_neg (by simp [(allNonneg_iff e).mpr h2])]
  · intro h
    by_cases h1 : e.length = A.arr.shape.length
    · have h2 : ¬ allNonneg e = true := fun hh => h ⟨h1, (allNonneg_iff e).mp hh⟩
      exact ⟨.overflowError, by rw [if_neg (fun hne => hne h1), if_pos (by simpa using h2)]⟩
    · exact ⟨.typeError, by rw [if_pos h1]⟩

/-- one step of the model is one step of the reference semantics, on every valid multi-index -/
theorem stepState_refines (A : DArr) (s : Step) :
    EqArr (stepState A s).arr (refStep A.dtype.fill A.arr s) := by
  unfold refStep stepState
  cases s with
  | write d =>
    have := assign_refines A [Ix.slice none none none] d
    by_cases hacc : Accepts A.arr.shape (.write d)
    · rw [if_pos hacc]
      obtain ⟨sel, hs, hb⟩ := hacc
      obtain ⟨B, hB, hsh, hget⟩ := this.1 sel hs hb
      simp only [step, writeDirect, hB]
      refine ⟨hsh, fun idx hin => ?_⟩
      rw [hsh] at hin
      simp only [written, hs]
      exact hget idx hin
    · rw [if_neg hacc]
      obtain ⟨e, he⟩ := this.2 hacc
      simp only [step, writeDirect, he]
      exact EqArr.refl _
  | assign ixs d =>
    have := assign_refines A ixs d
    by_cases hacc : Accepts A.arr.shape (.assign ixs d)
    · rw [if_pos hacc]
      obtain ⟨sel, hs, hb⟩ := hacc
      obtain ⟨B, hB, hsh, hget⟩ := this.1 sel hs hb
      simp only [step, hB]
      refine ⟨hsh, fun idx hin => ?_⟩
      rw [hsh] at hin
      simp only [written, hs]
      exact hget idx hin
    · rw [if_neg hacc]
      obtain ⟨e, he⟩ := this.2 hacc
      simp only [step, he]
      exact EqArr.refl _
  | append d axis =>
    by_cases hacc : Accepts A.arr.shape (.append d axis)
    · rw [if_pos hacc]
      have hacc' : AppendOk A.arr.shape (contiguous d).shape axis := hacc
      obtain ⟨hl, h0, hlt, hrest⟩ := hacc'
      obtain ⟨k, rfl⟩ : ∃ k : Nat, axis = (k : Int) := ⟨axis.toNat, by omega⟩
      have hk : k < A.arr.shape.length := by omega
      have hm := (shapeMismatch_false_iff (k : Int) _ _ hl).mpr hrest
      simp only [step, append_ok A d k hl hk hm]
      refine ⟨?_, fun idx hb => ?_⟩
      · simp [NdArray.setRegion, NdArray.resize, newShape, appendEnlarge_eq_set k _ _ hl hk]
      · simp only [NdArray.setRegion, NdArray.resize] at hb
        obtain ⟨h1, h2, h3⟩ := relIdx_append k _ _ idx hl hk hm hb
        simp only [NdArray.setRegion, NdArray.resize, written, Int.toNat_natCast, h1]
        by_cases hc : idx.getD k 0 < A.arr.shape.getD k 0
        · simp only [hc, if_true, h2 hc]
        · have hcnt : (mkSel (appendOffset (k : Int) A.arr.shape) (contiguous d).shape).map (·.count)
              = (contiguous d).shape := mkSel_counts _ _ (by rw [length_appendOffset, hl])
          simp only [hc, if_false]
          rw [bcastIdx_exact _ _ _ hcnt (mkSel_nonscalar _ _) (h3 hc)]
    · rw [if_neg hacc]
      simp only [step, append_refused A d axis hacc]
      exact EqArr.refl _
  | resize e =>
    have := setExtent_refines A e
    by_cases hacc : Accepts A.arr.shape (.resize e)
    · rw [if_pos hacc]
      simp only [step, this.1 hacc]
      exact ⟨rfl, fun idx _ => by simp [NdArray.resize, written]⟩
    · rw [if_neg hacc]
      obtain ⟨err, he⟩ := this.2 hacc
      simp only [step, he]
      exact EqArr.refl _
  | reopen =>
    have hacc : Accepts A.arr.shape .reopen := trivial
    rw [if_pos hacc]
    simp only [step]
    exact ⟨rfl, fun idx hb => by simp [written] at hb ⊢; simp [hb]⟩

/-- every history of the model is the fold of the reference semantics, on every valid multi-index -/
theorem run_refines : ∀ (steps : List Step) (A : DArr),
    EqArr (run A steps).arr (refRun A.dtype.fill A.arr steps)
  | [], A => EqArr.refl _
  | s :: rest, A => by
    have ih := run_refines rest (stepState A s)
    rw [(stepState_meta A s).1] at ih
    exact ih.trans (refRun_congr _ rest (stepState_refines A s))

theorem run_append : ∀ (pre post : List Step) (A : DArr), run A (pre ++ post) = run (run A pre) post
  | [], _, _ => rfl
  | s :: rest, post, A => run_append rest post (stepState A s)

theorem refRun_append (fill : Elem) : ∀ (pre post : List Step) (A : NdArray Elem),
    refRun fill A (pre ++ post) = refRun fill (refRun fill A pre) post
  | [], _, _ => rfl
  | s :: rest, post, A => refRun_append fill rest post (refStep fill A s)

/-! ### last write wins -/

open Classical in
/-- no later step touches `idx`, and `idx` stays a valid multi-index throughout -/
noncomputable def Untouched : List Nat → List Step → List Nat → Prop
  | sh, [], idx => inBounds idx sh = true
  | sh, t :: ts, idx =>
    inBounds idx sh = true ∧
      (if Accepts sh t then written sh t idx = none ∧ Untouched (newShape sh t) ts idx
       else Untouched sh ts idx)

theorem refRun_untouched (fill : Elem) : ∀ (post : List Step) (B : NdArray Elem) (idx : List Nat),
    Untouched B.shape post idx → (refRun fill B post).get idx = B.get idx ∧
      inBounds idx (refRun fill B post).shape = true
  | [], B, idx, h => ⟨rfl, h⟩
  | t :: ts, B, idx, h => by
    simp only [Untouched] at h
    obtain ⟨hin, hrest⟩ := h
    simp only [refRun]
    by_cases hacc : Accepts B.shape t
    · rw [if_pos hacc] at hrest
      have hstep : refStep fill B t = ⟨newShape B.shape t, fun idx =>
          match written B.shape t idx with
          | some v => v
          | none => if inBounds idx B.shape then B.get idx else fill⟩ := by
        unfold refStep; rw [if_pos hacc]
      have ih := refRun_untouched fill ts (refStep fill B t) idx (by rw [hstep]; exact hrest.2)
      refine ⟨ih.1.trans ?_, ih.2⟩
      rw [hstep]
      simp [hrest.1, hin]
    · rw [if_neg hacc] at hrest
      have hstep : refStep fill B t = B := by unfold refStep; rw [if_neg hacc]
      rw [hstep]
      exact refRun_untouched fill ts B idx hrest

/-- a step that puts `v` on `idx`, followed by steps that leave `idx` alone -/
theorem step_then_untouched (B : DArr) (s : Step) (post : List Step) (idx : List Nat) (v : Elem)
    (hacc : Accepts B.arr.shape s) (hw : written B.arr.shape s idx = some v)
    (hpost : Untouched (newShape B.arr.shape s) post idx) :
    (run (stepState B s) post).arr.get idx = v ∧ inBounds idx (run (stepState B s) post).arr.shape = true := by
  have href := run_refines post (stepState B s)
  have hstep := stepState_refines B s
  rw [(stepState_meta B s).1] at href
  have hall := href.trans (refRun_congr B.dtype.fill post hstep)
  have hS := refStep_pos B.dtype.fill B.arr s hacc
  have hu := refRun_untouched B.dtype.fill post (refStep B.dtype.fill B.arr s) idx (by rw [hS]; exact hpost)
  have hin : inBounds idx (run (stepState B s) post).arr.shape = true := by rw [hall.1]; exact hu.2
  refine ⟨?_, hin⟩
  rw [hall.2 idx hin, hu.1, hS]
  simp only
  rw [hw]

/-! ### stored elements stay values of the element type -/

theorem fill_hasType (t : DType) : t.fill.hasType t = true := by
  cases t <;> decide

/-- every stored element is a value of the array's element type -/
def Typed (A : DArr) : Prop := ∀ idx, inBounds idx A.arr.shape = true → (A.arr.get idx).hasType A.dtype = true

/-- every element the step supplies is a value of the element type `t` -/
def StepTyped (t : DType) : Step → Prop
  | .write d => ∀ idx, (d.get idx).hasType t = true
  | .assign _ d => ∀ idx, (d.get idx).hasType t = true
  | .append d _ => ∀ idx, (d.get idx).hasType t = true
  | .resize _ => True
  | .reopen => True

theorem assign_typed {A B : DArr} {ixs : List Ix} {D : NdArray Elem} (hA : Typed A)
    (hD : ∀ idx, (D.get idx).hasType A.dtype = true) (h : assign A ixs D = .ok B) : Typed B := by
  unfold assign at h
  split at h
  · cases h
  · split at h
    · cases h
      intro idx hb
      simp only [NdArray.setRegion] at hb ⊢
      split
      · exact hD _
      · exact hA idx hb
    · cases h

theorem setExtent_typed {A B : DArr} {e : List Int} (hA : Typed A) (h : setExtent A e = .ok B) : Typed B := by
  unfold setExtent at h
  split at h
  · cases h
  · split at h
    · cases h
    · cases h
      intro idx _
      simp only [NdArray.resize]
      by_cases hb : inBounds idx A.arr.shape = true
      · simp [hb, hA idx hb]
      · simp [hb, fill_hasType]

theorem contiguous_typed {t : DType} {D : NdArray Elem} (hD : ∀ idx, (D.get idx).hasType t = true) :
    ∀ idx, ((contiguous D).get idx).hasType t = true := by
  intro idx
  unfold contiguous
  split
  · exact hD _
  · exact hD _

theorem append_typed {A B : DArr} {D : NdArray Elem} {axis : Int} (hA : Typed A)
    (hD : ∀ idx, (D.get idx).hasType A.dtype = true) (h : append A D axis = .ok B) : Typed B := by
  unfold append at h
  dsimp only at h
  split at h
  · cases h
  · split at h
    · cases h
    · split at h
      · cases h
      · split at h
        · cases h
        · rename_i A1 h1
          have t1 := setExtent_typed hA h1
          have m1 := setExtent_meta h1
          exact assign_typed t1 (by rw [m1.1]; exact contiguous_typed hD) h

theorem stepState_typed {A : DArr} {s : Step} (hA : Typed A) (hs : StepTyped A.dtype s) :
    Typed (stepState A s) := by
  unfold stepState
  split
  · rename_i B h
    cases s with
    | write d => exact assign_typed hA hs h
    | assign ixs d => exact assign_typed hA hs h
    | append d axis => exact append_typed hA hs h
    | resize e => exact setExtent_typed hA h
    | reopen => cases h; exact hA
  · exact hA

theorem run_typed : ∀ (steps : List Step) (A : DArr), Typed A → (∀ s ∈ steps, StepTyped A.dtype s) →
    Typed (run A steps)
  | [], _, hA, _ => hA
  | s :: rest, A, hA, hs => by
    have h1 := stepState_typed hA (hs s (by simp))
    refine run_typed rest (stepState A s) h1 ?_
    intro t ht
    rw [(stepState_meta A s).1]
    exact hs t (by simp [ht])

/-! ### the filter flag never influences content -/

theorem assign_compr (A : DArr) (c : Bool) (ixs : List Ix) (D : NdArray Elem) :
    assign { A with compressed := c } ixs D = (assign A ixs D).map fun B => { B with compressed := c } := by
  unfold assign
  simp only
  split
  · rfl
  · split <;> rfl

theorem setExtent_compr (A : DArr) (c : Bool) (e : List Int) :
    setExtent { A with compressed := c } e = (setExtent A e).map fun B => { B with compressed := c } := by
  unfold setExtent
  simp only
  split
  · rfl
  · split <;> rfl

theorem append_compr (A : DArr) (c : Bool) (D : NdArray Elem) (axis : Int) :
    append { A with compressed := c } D axis = (append A D axis).map fun B => { B with compressed := c } := by
  unfold append
  simp only [setExtent_compr]
  split
  · rfl
  · split
    · rfl
    · split
      · rfl
      · cases h : setExtent A (List.map Int.ofNat (appendEnlarge axis A.arr.shape (contiguous D).shape)) with
        | error e => rfl
        | ok A1 =>
          simp only [Except.map]
          have := assign_compr A1 c (appendSlices (appendOffset axis A.arr.shape) (contiguous D).shape)
            (contiguous D)
          exact this

theorem step_compr (A : DArr) (c : Bool) (s : Step) :
    step { A with compressed := c } s = (step A s).map fun B => { B with compressed := c } := by
  cases s with
  | write d => exact assign_compr A c _ d
  | assign ixs d => exact assign_compr A c ixs d
  | append d axis => exact append_compr A c d axis
  | resize e => exact setExtent_compr A c e
  | reopen => rfl

theorem stepState_compr (A : DArr) (c : Bool) (s : Step) :
    stepState { A with compressed := c } s = { stepState A s with compressed := c } := by
  unfold stepState
  rw [step_compr]
  cases step A s <;> rfl

theorem run_compr : ∀ (steps : List Step) (A : DArr) (c : Bool),
    run { A with compressed := c } steps = { run A steps with compressed := c }
  | [], _, _ => rfl
  | s :: rest, A, c => by
    simp only [run]
    rw [stepState_compr, run_compr rest (stepState A s) c]

end Nix.Nd.Lemmas
