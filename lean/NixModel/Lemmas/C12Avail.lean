import NixModel.Lemmas.C12Ops
import NixModel.Lemmas.StoreWF

/-!
# C12 — the rejected name remains available

What decides whether `create_group / create_source / create_data_array / create_tag` accepts a
(valid-argument) call is observable: the owner path resolves, the owner has that container, the name
and type are well-formed, and the container has no entry of that name (`Accepts`). `Unch` preserves
each of these, so a call that would have been accepted before a refused call is accepted after it.
-/
namespace Nix.Store.Lemmas
open Nix.Store Nix.Store.Graph

/-- links found before are found after (old links come first) -/
theorem Unch.child?_some {g g' : Graph} (h : Unch g g') {k t : Nat} {n : String}
    (hc : g.child? k n = some t) : g'.child? k n = some t := by
  have hk : Has g k := node?_isSome_of_link (child?_some_mem hc)
  obtain ⟨extra, he, _⟩ := h.links k hk
  rw [child?_eq] at hc ⊢
  rw [he, List.find?_append]
  cases hf : (g.links k).find? (fun l => l.1 == n) with
  | none => simp [hf] at hc
  | some x => simpa [hf] using hc

/-- a link that was not there before leads, if it is there now, to an empty group -/
theorem Unch.child?_none {g g' : Graph} (h : Unch g g') {k : Nat} {n : String} (hk : Has g k)
    (hc : g.child? k n = none) : g'.child? k n = none ∨ ∃ t, g'.child? k n = some t ∧ EmptyGroup g' t := by
  obtain ⟨extra, he, hx⟩ := h.links k hk
  cases hc' : g'.child? k n with
  | none => exact .inl rfl
  | some t =>
    refine .inr ⟨t, rfl, ?_⟩
    have hm := child?_some_mem hc'
    rw [he] at hm
    rcases List.mem_append.mp hm with h1 | h1
    · exact absurd rfl ((child?_none_iff.mp hc) _ h1)
    · exact (hx _ h1).2.1

theorem Unch.stepSeg {g g' : Graph} (h : Unch g g') {l r : Loc} {s : Seg} (hs : stepSeg g l s = some r) :
    stepSeg g' l s = some r := by
  cases s with
  | name n =>
    simp only [Nix.Store.stepSeg, Option.map_eq_some_iff] at hs ⊢
    obtain ⟨k, hk, hr⟩ := hs
    exact ⟨k, h.child?_some hk, hr⟩
  | idx i =>
    simp only [Nix.Store.stepSeg, Option.map_eq_some_iff] at hs ⊢
    obtain ⟨nk, hk, hr⟩ := hs
    refine ⟨nk, ?_, hr⟩
    have hm : nk ∈ g.links l.key := List.mem_of_getElem? hk
    obtain ⟨extra, he, _⟩ := h.links l.key (node?_isSome_of_link hm)
    rw [he]
    have hi : i < (g.links l.key).length := (List.getElem?_eq_some_iff.mp hk).1
    rw [List.getElem?_append_left hi]
    exact hk

/-- every path that addressed a node before the refused call addresses the same node after it -/
theorem Unch.resolve {g g' : Graph} (h : Unch g g') (p : Path) : ∀ {l r : Loc},
    resolve g l p = some r → resolve g' l p = some r := by
  induction p with
  | nil => intro l r hr; exact hr
  | cons s ps ih =>
    intro l r hr
    simp only [Nix.Store.resolve] at hr ⊢
    cases hs : Nix.Store.stepSeg g l s with
    | none => simp [hs] at hr
    | some l' =>
      simp only [hs] at hr
      rw [h.stepSeg hs]
      exact ih hr

/-- what makes a valid-argument `create` of a group / source / array / tag succeed -/
def Accepts (g : Graph) (p : Path) (w n t : String) : Prop :=
  ∃ o cname kind, resolve g rootLoc p = some o ∧ Nix.Store.createSpec (kindOf g o.key) w = some (cname, kind) ∧
    checkNameType n t = .ok () ∧ hasEntry g o.key cname n = false

theorem createSpec_container {ok w cname kind : String} (h : Nix.Store.createSpec ok w = some (cname, kind)) :
    ∃ info, containerInfo ok cname = some info := by
  unfold Nix.Store.createSpec at h
  split at h <;> simp only [Option.some.injEq, Prod.mk.injEq, reduceCtorEq] at h <;>
    (obtain ⟨h1, _⟩ := h; subst h1; simp [containerInfo])

theorem hasEntry_ensureGroup {g : Graph} {o : Nat} (cname n : String) (ho : Has g o)
    (hf : ¬ Has g g.nextKey) :
    hasEntry (g.ensureGroup o cname).1 o cname n = hasEntry g o cname n := by
  unfold hasEntry
  rw [child?_ensureGroup g cname ho]
  cases hc : g.child? o cname with
  | some c => rw [ensureGroup_of_some hc]
  | none =>
    simp only
    rw [hasChild_eq]
    have hne : g.nextKey ≠ o := fun e => hf (e ▸ ho)
    have hnone : g.node? g.nextKey = none := by
      cases hh : g.node? g.nextKey with
      | none => rfl
      | some x => exact absurd (by unfold Has; rw [hh]; rfl) hf
    have h2 : (g.ensureGroup o cname).2 = g.nextKey := by rw [ensureGroup_of_none hc]
    have : (g.ensureGroup o cname).1.child? (g.ensureGroup o cname).2 n = none := by
      rw [child?_none_iff, h2, links_ensureGroup g cname ho]
      simp only [hne, false_and, ↓reduceIte]
      rw [links_of_node?_none hnone]
      simp
    rw [this]; rfl

theorem hasEntry_unch {g g' : Graph} (hWF : WF g) (hU : Unch g g') {o : Nat} {cname n : String} {info : CInfo}
    (ho : Has g o) (hci : containerInfo (okind g o) cname = some info) (h : hasEntry g o cname n = false) :
    hasEntry g' o cname n = false := by
  unfold hasEntry at h ⊢
  cases hc : g.child? o cname with
  | some c =>
    rw [hc] at h
    simp only at h
    rw [hU.child?_some hc]
    simp only
    have hcont : IsCont g c := ⟨o, cname, info, hci, hc⟩
    obtain ⟨hc0, hck⟩ := hWF.cont_plain c hcont
    have hHc : Has g c := (node?_isSome_iff g c).mpr (hWF.target_exists o (cname, c) (child?_some_mem hc))
    obtain ⟨extra, he, hx⟩ := hU.links c hHc
    have hex : extra = [] := by
      cases extra with
      | nil => rfl
      | cons x xs =>
        exfalso
        rcases (hx x (by simp)).2.2 with h0 | h0
        · exact hc0 h0
        · exact h0 hck
    rw [hasChild_eq] at h ⊢
    rw [child?_eq, he, hex, List.append_nil, ← child?_eq]
    exact h
  | none =>
    rcases hU.child?_none ho hc with h1 | ⟨t, h1, h2⟩
    · rw [h1]
    · rw [h1]
      simp only
      rw [hasChild_eq, child?_eq, h2.2.1]
      rfl

theorem createSpec_not_mtag {ok w cname kind : String} (h : Nix.Store.createSpec ok w = some (cname, kind))
    (hw : w ≠ "multi_tag") : (kind == "multi_tag") = false := by
  unfold Nix.Store.createSpec at h
  split at h <;> simp only [Option.some.injEq, Prod.mk.injEq, reduceCtorEq] at h <;>
    first
    | (obtain ⟨_, h2⟩ := h; subst h2; decide)
    | (exact absurd rfl hw)

theorem hasEntry_g0 {g : Graph} (hK : KeysLt g) {o : Nat} (ho : Has g o) (cname n : String) (b : Bool) :
    hasEntry (if b = true then (g.ensureGroup o cname).fst else g) o cname n = hasEntry g o cname n := by
  cases b with
  | true => exact hasEntry_ensureGroup cname n ho hK.fresh
  | false => rfl

/-- a valid-argument `create` of a group / source / array / tag is accepted when `Accepts` holds … -/
theorem createInW_of_accepts {g : Graph} (hK : KeysLt g) {p : Path} {w n t : String} (ex : Option Nat)
    (hw : w ≠ "multi_tag") (h : Accepts g p w n t) : (createInW g p w n t ex none).2 = none := by
  obtain ⟨o, cname, kind, hr, hs, hc, hd⟩ := h
  have hk' : kindOf g o.key ≠ "" := createSpec_kind hs
  have ho : Has g o.key := has_of_kindOf hk'
  have hm := createSpec_not_mtag hs hw
  obtain ⟨hn, hsl, ht⟩ := checkNameType_ok hc
  unfold createInW
  simp only [hr, hs, stageFault, ite_self, hc, hasEntry_g0 hK ho, hd, hm, Bool.false_eq_true, ↓reduceIte]
  rw [entityCreateNewW_ok _ o.key cname n t kind hn hsl ht]
  simp only
  split <;> rfl

/-- … and only then -/
theorem accepts_of_createInW {g : Graph} (hK : KeysLt g) {p : Path} {w n t : String} (ex : Option Nat)
    (h : (createInW g p w n t ex none).2 = none) : Accepts g p w n t := by
  unfold createInW at h
  cases hr : resolve g rootLoc p with
  | none => simp [hr] at h
  | some o =>
    simp only [hr] at h
    cases hs : Nix.Store.createSpec (kindOf g o.key) w with
    | none => simp [hs] at h
    | some ck =>
      obtain ⟨cname, kind⟩ := ck
      have hk' : kindOf g o.key ≠ "" := createSpec_kind hs
      have ho : Has g o.key := has_of_kindOf hk'
      simp only [hs, stageFault, ite_self] at h
      cases hc : checkNameType n t with
      | error e0 => simp [hc] at h
      | ok u =>
        simp only [hc, hasEntry_g0 hK ho] at h
        cases hd : hasEntry g o.key cname n with
        | true => simp [hd] at h
        | false => exact ⟨o, cname, kind, hr, hs, hc, hd⟩

theorem accepts_unch {g g' : Graph} (hWF : WF g) (hU : Unch g g') {p : Path} {w n t : String}
    (h : Accepts g p w n t) : Accepts g' p w n t := by
  obtain ⟨o, cname, kind, hr, hs, hc, hd⟩ := h
  have hk' : kindOf g o.key ≠ "" := createSpec_kind hs
  have ho : Has g o.key := has_of_kindOf hk'
  have hkk : kindOf g' o.key = kindOf g o.key := kindOf_of_attrs (hU.attrs o.key ho)
  obtain ⟨info, hci⟩ := createSpec_container hs
  have h0 : o.key ≠ 0 := by
    intro e0
    apply hk'
    rw [e0]
    exact hWF.root_kind
  have hok : okind g o.key = kindOf g o.key := by
    unfold okind
    have : (o.key == 0) = false := by simpa using h0
    rw [this]; rfl
  refine ⟨o, cname, kind, hU.resolve p hr, by rw [hkk]; exact hs, hc, ?_⟩
  exact hasEntry_unch hWF hU ho (by rw [hok]; exact hci) hd

end Nix.Store.Lemmas
