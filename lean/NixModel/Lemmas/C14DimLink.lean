import NixModel.Pure.DimLinkTicks

/-!
Lemmas about the model of linked-dimension ticks (`Pure/DimLinkTicks.lean`): a successful read has as many entries as the
provider's extent along the marked axis; an accepted index with coordinates inside the provider always reads; such an
index is one `link_data_array` accepts.
-/

namespace Nix.DimLinkTicks

theorem mapE_length {α β : Type} (f : α → Except Err β) :
    ∀ (l : List α) (v : List β), mapE f l = .ok v → v.length = l.length
  | [], v, h => by simp [mapE] at h; subst h; rfl
  | a :: rest, v, h => by
    simp only [mapE] at h
    cases hf : f a with
    | error e => simp [hf] at h
    | ok b =>
      simp only [hf] at h
      cases hr : mapE f rest with
      | error e => simp [hr] at h
      | ok bs =>
        simp only [hr] at h
        cases h
        simp [mapE_length f rest bs hr]

/-- whenever the read succeeds, the number of ticks is the provider's extent along the marked axis -/
theorem values_length : ∀ (shape : List Nat) (index : List Int) (data v : List Rat),
    values shape index data = .ok v → axisLen shape index = some v.length
  | [], index, data, v, h => by simp [values] at h
  | n :: shape, [], data, v, h => by simp [values] at h
  | n :: shape, i :: index, data, v, h => by
    unfold values at h
    unfold axisLen
    by_cases hi : (i == -1) = true
    · simp only [hi, if_true] at h ⊢
      have := mapE_length _ _ _ h
      simp at this
      simp [this]
    · simp only [hi] at h ⊢
      by_cases hb : i < 0 ∨ n ≤ i.toNat
      · simp [hb] at h
      · simp only [hb, if_false] at h
        simpa using values_length shape index _ v h

theorem isAlias_afterLinkArray (s : RangeStore) : isAlias (afterLinkArray s) = true := by
  simp [isAlias, afterLinkArray]

end Nix.DimLinkTicks
namespace Nix.DimLinkTicks

theorem block_length (data : List Rat) (n size k : Nat) (hd : data.length = n * size) (hk : k < n) :
    (block data size k).length = size := by
  unfold block
  rw [List.length_take, List.length_drop, hd, ← Nat.sub_mul]
  apply Nat.min_eq_left
  exact Nat.le_mul_of_pos_left _ (by omega)

theorem blockSize_cons (n : Nat) (shape : List Nat) : blockSize (n :: shape) = n * blockSize shape := rfl

theorem pick_total : ∀ (shape : List Nat) (index : List Int) (data : List Rat),
    fixedOk shape index = true → data.length = blockSize shape → ∃ x, pick shape index data = .ok x
  | [], [], data, _, hd => by
    match data, hd with
    | [x], _ => exact ⟨x, rfl⟩
  | [], _ :: _, _, h, _ => by simp [fixedOk] at h
  | _ :: _, [], _, h, _ => by simp [fixedOk] at h
  | n :: shape, i :: index, data, h, hd => by
    simp only [fixedOk, Bool.and_eq_true, decide_eq_true_eq] at h
    obtain ⟨⟨h0, hn⟩, hrest⟩ := h
    unfold pick
    have hb : ¬ (i < 0 ∨ n ≤ i.toNat) := by omega
    simp only [hb, if_false]
    exact pick_total shape index _ hrest (block_length data n _ _ (by rw [hd, blockSize_cons]) hn)

theorem mapE_total {α β : Type} (f : α → Except Err β) :
    ∀ (l : List α), (∀ a ∈ l, ∃ b, f a = .ok b) → ∃ v, mapE f l = .ok v
  | [], _ => ⟨[], rfl⟩
  | a :: rest, h => by
    obtain ⟨b, hb⟩ := h a (by simp)
    obtain ⟨bs, hbs⟩ := mapE_total f rest (fun x hx => h x (by simp [hx]))
    exact ⟨b :: bs, by simp [mapE, hb, hbs]⟩

/-- an accepted index whose fixed coordinates lie inside the provider always yields a vector -/
theorem values_total : ∀ (shape : List Nat) (index : List Int) (data : List Rat),
    coordsOk shape index = true → data.length = blockSize shape → ∃ v, values shape index data = .ok v
  | [], _, _, h, _ => by simp [coordsOk] at h
  | _ :: _, [], _, h, _ => by simp [coordsOk] at h
  | n :: shape, i :: index, data, h, hd => by
    simp only [coordsOk] at h
    unfold values
    by_cases hi : (i == -1) = true
    · simp only [hi, if_true] at h ⊢
      apply mapE_total
      intro k hk
      exact pick_total shape index _ h (block_length data n _ _ (by rw [hd, blockSize_cons]) (by simpa using hk))
    · simp only [hi] at h ⊢
      by_cases hc : 0 ≤ i ∧ i.toNat < n
      case neg => simp [hc] at h
      simp only [hc, and_self, if_true] at h
      have hrest := h
      obtain ⟨h0, hn⟩ := hc
      have hb : ¬ (i < 0 ∨ n ≤ i.toNat) := by omega
      simp only [hb, if_false]
      exact values_total shape index _ hrest (block_length data n _ _ (by rw [hd, blockSize_cons]) hn)

theorem fixedOk_no_neg : ∀ (shape : List Nat) (index : List Int), fixedOk shape index = true →
    shape.length = index.length ∧ index.count (-1) = 0 ∧ (index.filter (fun i => decide (i < 0))).length = 0
  | [], [], _ => by simp
  | [], _ :: _, h => by simp [fixedOk] at h
  | _ :: _, [], h => by simp [fixedOk] at h
  | n :: shape, i :: index, h => by
    simp only [fixedOk, Bool.and_eq_true, decide_eq_true_eq] at h
    obtain ⟨⟨h0, _⟩, hrest⟩ := h
    obtain ⟨h1, h2, h3⟩ := fixedOk_no_neg shape index hrest
    have hne : ¬ i < 0 := by omega
    have hne1 : (i == -1) = false := by simp; omega
    refine ⟨by simp [h1], ?_, ?_⟩
    · rw [List.count_cons]; simp [h2, hne1]
    · rw [List.filter_cons]; simp [hne, h3]

/-- such an index is one `link_data_array` accepts -/
theorem coordsOk_accepted : ∀ (shape : List Nat) (index : List Int), coordsOk shape index = true →
    shape.length = index.length ∧ indexOk index = true
  | [], _, h => by simp [coordsOk] at h
  | _ :: _, [], h => by simp [coordsOk] at h
  | n :: shape, i :: index, h => by
    simp only [coordsOk] at h
    by_cases hi : (i == -1) = true
    · simp only [hi, if_true] at h
      obtain ⟨h1, h2, h3⟩ := fixedOk_no_neg shape index h
      have : i = -1 := by simpa using hi
      subst this
      refine ⟨by simp [h1], ?_⟩
      simp [indexOk, List.count_cons, List.filter_cons, h2, h3]
    · simp only [hi] at h
      by_cases hc : 0 ≤ i ∧ i.toNat < n
      case neg => simp [hc] at h
      simp only [hc, and_self, if_true] at h
      have hrest := h
      obtain ⟨h0, _⟩ := hc
      obtain ⟨h1, h2⟩ := coordsOk_accepted shape index hrest
      have hne : ¬ i < 0 := by omega
      have hne1 : (i == -1) = false := by simpa using hi
      refine ⟨by simp [h1], ?_⟩
      simp only [indexOk, Bool.and_eq_true, beq_iff_eq] at h2 ⊢
      rw [List.count_cons, List.filter_cons]
      simp [hne, hne1, h2.1, h2.2]

end Nix.DimLinkTicks
