import NixModel.Lemmas.C20Spec

/-!
# C20 — which nodes an API call can change (frames), and paths inside a link-closed set

`SameNode g g' k`: node `k` has the same attributes and the same links in `g'` as in `g`.
Each frame lemma says: the call changes at most the node it is addressed to, that node's container
group, and nodes that did not exist before. No well-formedness of the graph is assumed (after an
id-keeping copy ids repeat, so the invariant `WF` of the copy-free histories does not hold).
-/
namespace Nix.Store.C20
open Nix.Store Nix.Store.Graph Nix.Store.Lemmas

def SameNode (g g' : Graph) (k : Nat) : Prop :=
  (∀ a, g'.getAttr k a = g.getAttr k a) ∧ g'.links k = g.links k

theorem SameNode.refl (g : Graph) (k : Nat) : SameNode g g k := ⟨fun _ => rfl, rfl⟩

theorem SameNode.trans {g g1 g2 : Graph} {k : Nat} (h1 : SameNode g g1 k) (h2 : SameNode g1 g2 k) :
    SameNode g g2 k := ⟨fun a => (h2.1 a).trans (h1.1 a), h2.2.trans h1.2⟩

/-! ## primitives -/

theorem same_setAttr (g : Graph) {k x : Nat} (a : String) (v : Option String) (h : x ≠ k) :
    SameNode g (g.setAttr k a v) x := ⟨fun a' => getAttr_setAttr_ne g a v h a', links_setAttr g k a v x⟩

theorem same_addLink (g : Graph) {p x : Nat} (n : String) (t : Nat) (h : x ≠ p) :
    SameNode g (g.addLink p n t) x := ⟨fun a => getAttr_addLink g p n t x a, links_addLink_ne g n t h⟩

theorem same_delLink (g : Graph) {p x : Nat} (n : String) (h : x ≠ p) :
    SameNode g (g.delLink p n) x := ⟨fun a => getAttr_delLink g p n x a, links_delLink_ne g n h⟩

theorem same_freshId (g : Graph) (x : Nat) : SameNode g (g.freshId).1 x := ⟨fun _ => rfl, rfl⟩

theorem same_newNode (g : Graph) (kd : NKind) (x : Nat) : SameNode g (g.newNode kd).1 x :=
  ⟨fun a => getAttr_newNode g kd x a, links_newNode g kd x⟩

theorem same_ensureGroup (g : Graph) {p x : Nat} (n : String) (h : x ≠ p) :
    SameNode g (g.ensureGroup p n).1 x := by
  cases hc : g.child? p n with
  | some c => rw [ensureGroup_of_some hc]; exact SameNode.refl g x
  | none =>
    rw [ensureGroup_of_none hc]
    exact (same_newNode g .group x).trans (same_addLink _ n _ h)

theorem ensureGroup_snd_cases (g : Graph) (p : Nat) (n : String) :
    g.child? p n = some (g.ensureGroup p n).2 ∨ (g.ensureGroup p n).2 = g.nextKey := by
  cases hc : g.child? p n with
  | some c => rw [ensureGroup_of_some hc]; exact .inl rfl
  | none => rw [ensureGroup_of_none hc]; exact .inr rfl

theorem same_createLinkIn (g : Graph) {grp x : Nat} (n : String) (t : Nat) (h : x ≠ grp) :
    SameNode g (createLinkIn g grp n t) x := by
  unfold createLinkIn
  split
  · exact (same_delLink g n h).trans (same_addLink _ n t h)
  · exact same_addLink g n t h

/-! ## API calls -/

/-- attribute setters change the addressed node only -/
theorem setAttrOp_frame {g g' : Graph} {p : Path} {a : String} {v : Option String} {o : Loc}
    (hop : setAttrOp g p a v = .ok g') (hr : resolve g rootLoc p = some o) (x : Nat) (hx : x ≠ o.key) :
    SameNode g g' x := by
  unfold setAttrOp at hop
  rw [hr] at hop
  simp only at hop
  split at hop
  · cases hop
  · split at hop
    · cases hop
    · split at hop <;> (cases hop; exact same_setAttr g _ _ hx)

/-- `Section.create_property`: changes the section (when its `properties` group is created), that
group, and a node that did not exist -/
theorem createProperty_frame {g g' : Graph} {p : Path} {name : String} {o : Loc}
    (hop : createProperty g p name = .ok g') (hr : resolve g rootLoc p = some o)
    (x : Nat) (hlt : x < g.nextKey) (hx : x ≠ o.key) (hc : g.child? o.key "properties" ≠ some x) :
    SameNode g g' x := by
  unfold createProperty at hop
  rw [hr] at hop
  simp only at hop
  split at hop
  · cases hop
  · split at hop
    · cases hop
    · split at hop
      · cases hop
      · split at hop
        · cases hop
        · cases hop
          have hxc : x ≠ (g.ensureGroup o.key "properties").2 := by
            rcases ensureGroup_snd_cases g o.key "properties" with h | h
            · intro e; exact hc (e ▸ h)
            · rw [h]; omega
          have hnk : g.nextKey ≤ (g.ensureGroup o.key "properties").1.nextKey := nextKey_le_ensureGroup g _ _
          have hxd : x ≠ ((g.ensureGroup o.key "properties").1.newNode .dataset).2 := by
            show x ≠ (g.ensureGroup o.key "properties").1.nextKey
            omega
          refine ⟨fun a => ?_, ?_⟩
          · rw [getAttr_setAttr_ne _ _ _ hxd, getAttr_setAttr_ne _ _ _ hxd, getAttr_freshId,
              getAttr_setAttr_ne _ _ _ hxd, getAttr_addLink, getAttr_newNode, getAttr_ensureGroup]
          · rw [links_setAttr, links_setAttr, links_freshId, links_setAttr, links_addLink_ne _ _ _ hxc, links_newNode]
            exact (same_ensureGroup g "properties" hx).2

/-- the body of `Entity.create_new` once name and id are fixed -/
def ecn (g : Graph) (ownerKey : Nat) (cname name type id kind : String) : Graph × Nat :=
  let (g1, c) := g.ensureGroup ownerKey cname
  let (g2, k) := g1.ensureGroup c name
  let g3 := g2.setAttr k "name" (some name)
  let g4 := g3.setAttr k "type" (some type)
  let g5 := g4.setAttr k "entity_id" (some id)
  (g5.setAttr k "~kind" (some kind), k)

def ecnG2 (g : Graph) (ownerKey : Nat) (cname name : String) : Graph × Nat :=
  (g.ensureGroup ownerKey cname).1.ensureGroup (g.ensureGroup ownerKey cname).2 name

theorem ecn_eq (g : Graph) (ownerKey : Nat) (cname name type id kind : String) :
    ecn g ownerKey cname name type id kind =
      (((((ecnG2 g ownerKey cname name).1.setAttr (ecnG2 g ownerKey cname name).2 "name" (some name)).setAttr
          (ecnG2 g ownerKey cname name).2 "type" (some type)).setAttr
          (ecnG2 g ownerKey cname name).2 "entity_id" (some id)).setAttr
          (ecnG2 g ownerKey cname name).2 "~kind" (some kind), (ecnG2 g ownerKey cname name).2) := rfl

/-- when `create_new` succeeds the result is `ecn` on the graph itself or on the graph after drawing one id -/
theorem entityCreateNew_is_ecn {g g' : Graph} {ownerKey k : Nat} {cname name type kind : String}
    (h : entityCreateNew g ownerKey cname name type kind = .ok (g', k)) :
    ∃ nm id, (g', k) = ecn (g.freshId).1 ownerKey cname nm type id kind := by
  unfold entityCreateNew at h
  by_cases hn : name = ""
  · subst hn
    simp only [beq_self_eq_true, ↓reduceIte] at h
    by_cases hs : hasSlash (g.freshId).2 = true
    · simp [hs] at h
    · by_cases ht : type = ""
      · simp [hs, ht] at h
      · simp only [hs, Bool.false_eq_true, ↓reduceIte, beq_iff_eq, ht, Except.ok.injEq] at h
        exact ⟨_, _, h.symm⟩
  · have hn' : (name == "") = false := by simpa using hn
    by_cases ht : type = ""
    · subst ht
      simp only [hn', Bool.false_eq_true, ↓reduceIte, bne_self_eq_false] at h
      by_cases hs : hasSlash name = true
      · simp [hs] at h
      · simp [hs] at h
    · have ht' : (type != "") = true := by simpa using ht
      simp only [hn', Bool.false_eq_true, ↓reduceIte, ht'] at h
      by_cases hs : hasSlash name = true
      · simp [hs] at h
      · simp only [hs, Bool.false_eq_true, ↓reduceIte, beq_iff_eq, ht, Except.ok.injEq] at h
        exact ⟨_, _, h.symm⟩

/-- `Entity.create_new` (behind `create_section`, `create_group`, `create_data_array`, `create_tag`,
`create_source` …): changes the owner (when the container group is created), the container group,
the returned node, and nodes that did not exist -/
theorem entityCreateNew_frame {g g' : Graph} {owner k : Nat} {cname name type kind : String}
    (hop : entityCreateNew g owner cname name type kind = .ok (g', k))
    (x : Nat) (hlt : x < g.nextKey) (hx : x ≠ owner) (hc : g.child? owner cname ≠ some x) (hk : x ≠ k) :
    SameNode g g' x := by
  obtain ⟨nm, id, e⟩ := entityCreateNew_is_ecn hop
  rw [ecn_eq] at e
  simp only [Prod.mk.injEq] at e
  obtain ⟨hg, hk'⟩ := e
  unfold ecnG2 at hg hk'
  have hxc : x ≠ ((g.freshId).1.ensureGroup owner cname).2 := by
    rcases ensureGroup_snd_cases (g.freshId).1 owner cname with h | h
    · intro e; rw [child?_freshId] at h; exact hc (e ▸ h)
    · rw [h, nextKey_freshId]; omega
  have hxk : x ≠ (((g.freshId).1.ensureGroup owner cname).1.ensureGroup ((g.freshId).1.ensureGroup owner cname).2 nm).2 := by
    rw [← hk']; exact hk
  rw [hg]
  refine ⟨fun a => ?_, ?_⟩
  · rw [getAttr_setAttr_ne _ _ _ hxk, getAttr_setAttr_ne _ _ _ hxk, getAttr_setAttr_ne _ _ _ hxk,
      getAttr_setAttr_ne _ _ _ hxk, getAttr_ensureGroup, getAttr_ensureGroup, getAttr_freshId]
  · rw [links_setAttr, links_setAttr, links_setAttr, links_setAttr, (same_ensureGroup _ nm hxc).2,
      (same_ensureGroup _ cname hx).2, links_freshId]

/-- the part of `contAppend` after the item was determined -/
def appendTail (g : Graph) (c : Cont) (k : Nat) : Except Err Graph :=
      match g.entityId k with
      | none => .error .typeError
      | some id =>
        let accepted : Except Err Bool :=
          match c.info.flavour, c.block with
          | .link, some b =>
            if kindOf g k != c.info.item then .error .typeError
            else
              match g.getAttr k "name" with
              | some nm =>
                match getByName g (g.child? b c.info.store) nm with
                | some l => .ok (l.2 == k)
                | none => .ok false
              | none => .ok false
          | .sourceLink, some b => .ok (inSourceTree g b id && inSourceTreeObj g b k)
          | _, _ => .ok false
        match accepted with
        | .error e => .error e
        | .ok false => .error .runtimeError
        | .ok true =>
          let (g1, cn) := g.ensureGroup c.owner.key c.cname
          .ok (createLinkIn g1 cn id k)

def appendItem (g : Graph) (c : Cont) (key : Key) : Except Err Nat :=
      match key with
      | .ent k => .ok k
      | .str x =>
        if isUuid x then
          match getById g c.node x with
          | some l => .ok l.2
          | none => .error .keyError
        else .error .typeError
      | .pos _ => .error .typeError

theorem contAppend_eq (g : Graph) (c : Cont) (key : Key) :
    contAppend g c key =
      match c.info.flavour with
      | .link | .sourceLink =>
        match appendItem g c key with
        | .error e => .error e
        | .ok k => appendTail g c k
      | _ => .error .attributeError := by
  unfold contAppend appendItem appendTail
  rfl

theorem appendTail_form {g g' : Graph} {c : Cont} {k : Nat} (hop : appendTail g c k = .ok g') :
    ∃ id, g' = createLinkIn (g.ensureGroup c.owner.key c.cname).1 (g.ensureGroup c.owner.key c.cname).2 id k := by
  unfold appendTail at hop
  split at hop
  · cases hop
  · simp only at hop
    split at hop
    · cases hop
    · cases hop
    · cases hop; exact ⟨_, rfl⟩

theorem contAppend_form {g g' : Graph} {c : Cont} {key : Key}
    (hop : contAppend g c key = .ok g') :
    ∃ id k, g' = createLinkIn (g.ensureGroup c.owner.key c.cname).1 (g.ensureGroup c.owner.key c.cname).2 id k := by
  rw [contAppend_eq] at hop
  split at hop
  · split at hop
    · cases hop
    · obtain ⟨id, h⟩ := appendTail_form hop; exact ⟨id, _, h⟩
  · split at hop
    · cases hop
    · obtain ⟨id, h⟩ := appendTail_form hop; exact ⟨id, _, h⟩
  · cases hop
/-- `LinkContainer.append` / `SourceLinkContainer.append`: changes the owner (when the link group
is created), the link group, nothing else -/
theorem contAppend_frame {g g' : Graph} {c : Cont} {key : Key}
    (hop : contAppend g c key = .ok g')
    (x : Nat) (hlt : x < g.nextKey) (hx : x ≠ c.owner.key) (hc : g.child? c.owner.key c.cname ≠ some x) :
    SameNode g g' x := by
  have hxc : x ≠ (g.ensureGroup c.owner.key c.cname).2 := by
    rcases ensureGroup_snd_cases g c.owner.key c.cname with h | h
    · intro e; exact hc (e ▸ h)
    · rw [h]; omega
  obtain ⟨id, k, e⟩ := contAppend_form hop
  rw [e]
  exact (same_ensureGroup g c.cname hx).trans (same_createLinkIn _ id k hxc)

/-! ## paths inside a link-closed set of nodes -/

theorem stepSeg_closed {g : Graph} {S : Nat → Prop} (hcl : ∀ k, S k → ∀ l ∈ g.links k, S l.2)
    {l l' : Loc} {s : Seg} (hl : S l.key) (h : stepSeg g l s = some l') : S l'.key := by
  unfold stepSeg at h
  cases s with
  | name n =>
    simp only [Option.map_eq_some_iff] at h
    obtain ⟨k, hk, e⟩ := h
    rw [← e]
    exact hcl l.key hl (n, k) (child?_some_mem hk)
  | idx i =>
    simp only [Option.map_eq_some_iff] at h
    obtain ⟨nk, hk, e⟩ := h
    rw [← e]
    exact hcl l.key hl nk (List.mem_of_getElem? hk)

/-- a path that enters a link-closed set never leaves it -/
theorem resolve_closed {g : Graph} {S : Nat → Prop} (hcl : ∀ k, S k → ∀ l ∈ g.links k, S l.2)
    {l l' : Loc} {p : Path} (hl : S l.key) (h : resolve g l p = some l') : S l'.key := by
  induction p generalizing l with
  | nil => simp only [resolve, Option.some.injEq] at h; rw [← h]; exact hl
  | cons s ps ih =>
    simp only [resolve] at h
    split at h
    · rename_i l1 h1
      exact ih (stepSeg_closed hcl hl h1) h
    · cases h

end Nix.Store.C20
