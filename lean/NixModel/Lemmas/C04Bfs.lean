import NixModel.Lemmas.C04Del

/-!
# C04 — the breadth-first collection of a subtree (`find_sections` / `find_sources`, unlimited depth)

`bfsKeys` is fuel-based (the graph model does not carry the invariant that sections / sources form
a forest). Soundness holds always (only entities at or below the start are collected); completeness is proved for every run that ends with an empty queue, and the queue does
end empty within the fuel `|nodes|² + 1` of `subtreeKeys` whenever the subtree is a finite forest
(`ForestSize`: no cycle through the sub-containers) with at most that many nodes — in files built
through the API each section / source has one parent, so the count is at most `|nodes|`.
-/
namespace Nix.Store.C04
open Nix.Store Nix.Store.Graph

/-- child entities of `k` in its sub-container `sub` (`k.sections` / `k.sources`) -/
def kids (g : Graph) (sub : String) (k : Nat) : List Nat :=
  match g.child? k sub with
  | some c => (g.links c).map (·.2)
  | none => []

/-- `d` is `k` or lies below `k` in the `sub` hierarchy -/
inductive Desc (g : Graph) (sub : String) : Nat → Nat → Prop
  | refl (k : Nat) : Desc g sub k k
  | step {k m d : Nat} : m ∈ kids g sub k → Desc g sub m d → Desc g sub k d

/-- the queue that is left when `bfsKeys` stops -/
def bfsRest (g : Graph) (sub : String) : Nat → List Nat → List Nat
  | 0, queue => queue
  | _ + 1, [] => []
  | fuel + 1, k :: queue => bfsRest g sub fuel (queue ++ kids g sub k)

theorem bfsKeys_step (g : Graph) (sub : String) (fuel k : Nat) (queue : List Nat) (acc : List Nat) :
    bfsKeys g sub (fuel + 1) (k :: queue) acc =
      bfsKeys g sub fuel (queue ++ kids g sub k) (acc ++ [k]) := by
  rw [bfsKeys]
  unfold kids
  rfl

theorem bfsKeys_acc_sub (g : Graph) (sub : String) (fuel : Nat) (queue : List Nat) (acc : List Nat)
    (x : Nat) (hx : x ∈ acc) : x ∈ bfsKeys g sub fuel queue acc := by
  induction fuel generalizing queue acc with
  | zero => simpa [bfsKeys] using hx
  | succ fuel ih =>
    cases queue with
    | nil => simpa [bfsKeys] using hx
    | cons k queue =>
      rw [bfsKeys_step]
      apply ih
      simp [hx]

/-- **completeness of the collection**: when the traversal ends with an empty queue, every entity at
or below a queued entity has been collected -/
theorem bfsKeys_complete (g : Graph) (sub : String) (fuel : Nat) (queue : List Nat) (acc : List Nat)
    (hdone : bfsRest g sub fuel queue = [])
    (q : Nat) (hq : q ∈ queue) (d : Nat) (hd : Desc g sub q d) : d ∈ bfsKeys g sub fuel queue acc := by
  induction fuel generalizing queue acc q with
  | zero =>
    simp only [bfsRest] at hdone
    rw [hdone] at hq; cases hq
  | succ fuel ih =>
    cases queue with
    | nil => cases hq
    | cons k queue =>
      rw [bfsKeys_step]
      simp only [bfsRest] at hdone
      rcases List.mem_cons.mp hq with hqk | hqq
      · subst hqk
        cases hd with
        | refl =>
          apply bfsKeys_acc_sub
          simp
        | step hm hrest =>
          exact ih _ _ hdone _ (List.mem_append.mpr (Or.inr hm)) hrest
      · exact ih _ _ hdone q (List.mem_append.mpr (Or.inl hqq)) hd

/-- **soundness of the collection**: only entities at or below a queued entity are collected -/
theorem bfsKeys_sound (g : Graph) (sub : String) (fuel : Nat) (queue : List Nat) (acc : List Nat)
    (x : Nat) (h : x ∈ bfsKeys g sub fuel queue acc) :
    x ∈ acc ∨ ∃ q ∈ queue, Desc g sub q x := by
  induction fuel generalizing queue acc with
  | zero => left; simpa [bfsKeys] using h
  | succ fuel ih =>
    cases queue with
    | nil => left; simpa [bfsKeys] using h
    | cons k queue =>
      rw [bfsKeys_step] at h
      rcases ih _ _ h with hacc | ⟨q, hq, hd⟩
      · simp only [List.mem_append, List.mem_singleton] at hacc
        rcases hacc with hacc | hxk
        · left; exact hacc
        · right; subst hxk; exact ⟨x, by simp, .refl x⟩
      · right
        rcases List.mem_append.mp hq with hq | hq
        · exact ⟨q, List.mem_cons_of_mem _ hq, hd⟩
        · exact ⟨k, by simp, .step hq hd⟩

/-- the entity itself is always collected (the fuel is at least 1) -/
theorem subtreeKeys_self (g : Graph) (sub : String) (k : Nat) : k ∈ subtreeKeys g sub k := by
  unfold subtreeKeys
  rw [bfsKeys_step]
  apply bfsKeys_acc_sub
  simp

theorem subtreeKeys_sound (g : Graph) (sub : String) (k x : Nat) (h : x ∈ subtreeKeys g sub k) :
    Desc g sub k x := by
  rcases bfsKeys_sound g sub _ [k] [] x h with h | ⟨q, hq, hd⟩
  · cases h
  · simp only [List.mem_singleton] at hq
    subst hq
    exact hd

/-- number of dequeue steps a queue needs: defined only when the hierarchy below the queue is a
finite forest -/
inductive ForestSize (g : Graph) (sub : String) : List Nat → Nat → Prop
  | nil : ForestSize g sub [] 0
  | cons (k : Nat) (rest : List Nat) (a b : Nat) :
      ForestSize g sub (kids g sub k) a → ForestSize g sub rest b → ForestSize g sub (k :: rest) (1 + a + b)

theorem forestSize_append {g : Graph} {sub : String} {xs ys : List Nat} {a b : Nat}
    (hx : ForestSize g sub xs a) (hy : ForestSize g sub ys b) : ForestSize g sub (xs ++ ys) (a + b) := by
  induction hx with
  | nil => simpa using hy
  | cons k rest a' b' hk _ _ ih2 =>
    have := ForestSize.cons k _ a' (b' + b) hk ih2
    have e : 1 + a' + b' + b = 1 + a' + (b' + b) := by omega
    rw [List.cons_append, e]
    exact this

theorem bfsRest_done (g : Graph) (sub : String) (fuel : Nat) (queue : List Nat) (n : Nat)
    (hs : ForestSize g sub queue n) (hn : n ≤ fuel) : bfsRest g sub fuel queue = [] := by
  induction fuel generalizing queue n with
  | zero =>
    cases hs with
    | nil => rfl
    | cons k rest a b _ _ => omega
  | succ fuel ih =>
    cases hs with
    | nil => rfl
    | cons k rest a b hk hr =>
      simp only [bfsRest]
      exact ih _ (b + a) (forestSize_append hr hk) (by omega)

/-- **`subtreeKeys` is complete on forests**: if the hierarchy below `k` is a finite forest of at
most `|nodes|² + 1` entities, every entity at or below `k` is in `subtreeKeys` -/
theorem subtreeKeys_complete (g : Graph) (sub : String) (k n : Nat)
    (hs : ForestSize g sub [k] n) (hn : n ≤ g.nodes.length * g.nodes.length + 1)
    (d : Nat) (hd : Desc g sub k d) : d ∈ subtreeKeys g sub k :=
  bfsKeys_complete g sub _ [k] [] (bfsRest_done g sub _ [k] n hs hn) k (by simp) d hd

end Nix.Store.C04
