import NixModel.Lemmas.C20Reach

/-!
# C20 — the node-level effect of `copyNodes`, `regenIds` and `h5Copy`

`copyNodes src dst ks emptied` appends one new node per element of `ks` (keys `dst.nextKey + i`),
links re-targeted through the key map. The lemmas here compute `node?`, `links`, `getAttr` of the
result for new and for old keys; `regenIds` is characterised (frame, range, distinctness); and
`h5Copy` is rewritten as `h5CopyCore` on the destination after `ensureGroup`.
-/
namespace Nix.Store.C20
open Nix.Store Nix.Store.Graph Nix.Store.Lemmas

/-! ## the key map -/

def keyMap (ks : List Nat) (N : Nat) : List (Nat × Nat) := ks.zipIdx.map fun ki => (ki.1, N + ki.2)

theorem find_keyMapAux (ks : List Nat) (N s k : Nat) :
    ((ks.zipIdx s).map fun ki => (ki.1, N + ki.2)).find? (fun p => p.1 == k) =
      if k ∈ ks then some (k, N + (s + ks.idxOf k)) else none := by
  induction ks generalizing s with
  | nil => simp
  | cons a l ih =>
    simp only [List.zipIdx_cons, List.map_cons, List.find?_cons, List.idxOf_cons]
    by_cases h : a = k
    · subst h; simp
    · have h' : (a == k) = false := by simpa using h
      have hk : (k = a) = False := by simp; exact fun e => h e.symm
      simp only [h', ih, List.mem_cons, hk, false_or, cond_false]
      by_cases hm : k ∈ l
      · simp only [hm, if_true]; congr 2; omega
      · simp [hm]

theorem mapKey_mem {ks : List Nat} (N : Nat) {k : Nat} (h : k ∈ ks) :
    mapKey (keyMap ks N) k = N + ks.idxOf k := by
  unfold mapKey keyMap
  have := find_keyMapAux ks N 0 k
  rw [this]; simp [h]

theorem mapKey_not_mem {ks : List Nat} (N : Nat) {k : Nat} (h : k ∉ ks) :
    mapKey (keyMap ks N) k = k := by
  unfold mapKey keyMap
  have := find_keyMapAux ks N 0 k
  rw [this]; simp [h]

theorem idxOf_inj {ks : List Nat} {a b : Nat} (ha : a ∈ ks) (hb : b ∈ ks)
    (h : ks.idxOf a = ks.idxOf b) : a = b := by
  have h1 := List.getElem_idxOf (List.idxOf_lt_length_of_mem ha)
  have h2 := List.getElem_idxOf (List.idxOf_lt_length_of_mem hb)
  simp only [h] at h1
  exact h1.symm.trans h2

/-- the key map is injective on the copied set … -/
theorem mapKey_inj {ks : List Nat} (N : Nat) {a b : Nat} (ha : a ∈ ks) (hb : b ∈ ks)
    (h : mapKey (keyMap ks N) a = mapKey (keyMap ks N) b) : a = b := by
  rw [mapKey_mem N ha, mapKey_mem N hb] at h
  exact idxOf_inj ha hb (by omega)

/-- … and maps into the block of fresh keys -/
theorem mapKey_range {ks : List Nat} (N : Nat) {k : Nat} (h : k ∈ ks) :
    N ≤ mapKey (keyMap ks N) k ∧ mapKey (keyMap ks N) k < N + ks.length := by
  rw [mapKey_mem N h]
  have := List.idxOf_lt_length_of_mem h
  omega

/-! ## `copyNodes` -/

/-- the copy of node `k`: same kind and attributes, links re-targeted (or dropped) -/
def copiedNode (src : Graph) (m : List (Nat × Nat)) (emptied : List Nat) (k : Nat) : Node :=
  let n := (src.node? k).getD {}
  { n with links := if emptied.contains k then [] else n.links.map fun l => (l.1, mapKey m l.2) }

theorem copyNodes_eq (src dst : Graph) (ks emptied : List Nat) :
    copyNodes src dst ks emptied =
      ({ dst with nodes := dst.nodes ++ ks.map (fun k => (mapKey (keyMap ks dst.nextKey) k,
                              copiedNode src (keyMap ks dst.nextKey) emptied k)),
                  nextKey := dst.nextKey + ks.length }, keyMap ks dst.nextKey) := rfl

theorem copyNodes_snd (src dst : Graph) (ks emptied : List Nat) :
    (copyNodes src dst ks emptied).2 = keyMap ks dst.nextKey := rfl

theorem copyNodes_nextKey (src dst : Graph) (ks emptied : List Nat) :
    (copyNodes src dst ks emptied).1.nextKey = dst.nextKey + ks.length := rfl

theorem copyNodes_nextId (src dst : Graph) (ks emptied : List Nat) :
    (copyNodes src dst ks emptied).1.nextId = dst.nextId := rfl

theorem copyNodes_keys (src dst : Graph) (ks emptied : List Nat) :
    keys (copyNodes src dst ks emptied).1 = keys dst ++ ks.map (mapKey (keyMap ks dst.nextKey)) := by
  rw [copyNodes_eq]; simp [keys, List.map_map, Function.comp_def]

theorem find_unique {α : Type} (l : List α) (p : α → Bool) (a : α) (ha : a ∈ l) (hp : p a = true)
    (hu : ∀ x ∈ l, p x = true → x = a) : l.find? p = some a := by
  induction l with
  | nil => cases ha
  | cons x xs ih =>
    rw [List.find?_cons]
    cases hx : p x with
    | true => simp [hu x (by simp) hx]
    | false =>
      simp only
      apply ih
      · rcases List.mem_cons.mp ha with h | h
        · rw [← h, hp] at hx; cases hx
        · exact h
      · exact fun y hy => hu y (List.mem_cons.mpr (.inr hy))

/-- old keys keep their node -/
theorem node?_copyNodes_old (src dst : Graph) (ks emptied : List Nat) {k : Nat} (hk : k < dst.nextKey) :
    (copyNodes src dst ks emptied).1.node? k = dst.node? k := by
  rw [copyNodes_eq]
  unfold Graph.node?
  simp only [List.find?_append]
  have : (ks.map (fun k => (mapKey (keyMap ks dst.nextKey) k,
      copiedNode src (keyMap ks dst.nextKey) emptied k))).find? (fun kn => kn.1 == k) = none := by
    rw [List.find?_eq_none]
    intro x hx
    obtain ⟨k', hk', e⟩ := List.mem_map.mp hx
    have := (mapKey_range dst.nextKey hk').1
    rw [← e]; simp; omega
  rw [this]; simp

/-- the new key `m k` holds the copy of node `k` -/
theorem node?_copyNodes_new (src dst : Graph) (ks emptied : List Nat)
    (hlt : ∀ k' ∈ keys dst, k' < dst.nextKey) {k : Nat} (hk : k ∈ ks) :
    (copyNodes src dst ks emptied).1.node? (mapKey (keyMap ks dst.nextKey) k) =
      some (copiedNode src (keyMap ks dst.nextKey) emptied k) := by
  rw [copyNodes_eq]
  unfold Graph.node?
  simp only [List.find?_append]
  have h1 : dst.nodes.find? (fun kn => kn.1 == mapKey (keyMap ks dst.nextKey) k) = none := by
    rw [List.find?_eq_none]
    intro x hx
    have := hlt x.1 (List.mem_map.mpr ⟨x, hx, rfl⟩)
    have := (mapKey_range dst.nextKey hk).1
    simp; omega
  rw [h1, List.find?_map]
  have h2 := find_unique ks ((fun kn : Nat × Node => kn.1 == mapKey (keyMap ks dst.nextKey) k) ∘
      (fun k => (mapKey (keyMap ks dst.nextKey) k, copiedNode src (keyMap ks dst.nextKey) emptied k)))
      k hk (by simp) (by
        intro x hx hp
        simp at hp
        exact mapKey_inj dst.nextKey hx hk hp)
  rw [h2]; simp

theorem links_getD (src : Graph) (k : Nat) : ((src.node? k).getD {}).links = src.links k := by
  unfold Graph.links; cases src.node? k <;> rfl

theorem getAttr_getD (src : Graph) (k : Nat) (a : String) :
    ((((src.node? k).getD {}).attrs.find? (fun kv => kv.1 == a)).map (·.2)) = src.getAttr k a := by
  unfold Graph.getAttr; cases src.node? k <;> rfl

theorem links_copyNodes_new (src dst : Graph) (ks emptied : List Nat)
    (hlt : ∀ k' ∈ keys dst, k' < dst.nextKey) {k : Nat} (hk : k ∈ ks) :
    (copyNodes src dst ks emptied).1.links (mapKey (keyMap ks dst.nextKey) k) =
      if emptied.contains k then []
      else (src.links k).map fun l => (l.1, mapKey (keyMap ks dst.nextKey) l.2) := by
  unfold Graph.links
  rw [node?_copyNodes_new src dst ks emptied hlt hk]
  simp only [copiedNode, links_getD]
  rfl

theorem getAttr_copyNodes_new (src dst : Graph) (ks emptied : List Nat)
    (hlt : ∀ k' ∈ keys dst, k' < dst.nextKey) {k : Nat} (hk : k ∈ ks) (a : String) :
    (copyNodes src dst ks emptied).1.getAttr (mapKey (keyMap ks dst.nextKey) k) a = src.getAttr k a := by
  unfold Graph.getAttr
  rw [node?_copyNodes_new src dst ks emptied hlt hk]
  simp only [copiedNode]
  cases src.node? k <;> rfl

theorem links_copyNodes_old (src dst : Graph) (ks emptied : List Nat) {k : Nat} (hk : k < dst.nextKey) :
    (copyNodes src dst ks emptied).1.links k = dst.links k := by
  unfold Graph.links; rw [node?_copyNodes_old src dst ks emptied hk]

theorem getAttr_copyNodes_old (src dst : Graph) (ks emptied : List Nat) {k : Nat} (hk : k < dst.nextKey)
    (a : String) : (copyNodes src dst ks emptied).1.getAttr k a = dst.getAttr k a := by
  unfold Graph.getAttr; rw [node?_copyNodes_old src dst ks emptied hk]

/-! ## node kinds (group / dataset) through the primitives -/

def nkind (g : Graph) (k : Nat) : Option NKind := (g.node? k).map (·.kind)

theorem nkind_updNode (g : Graph) (k k' : Nat) (f : Node → Node) (hf : ∀ n, (f n).kind = n.kind) :
    nkind (g.updNode k f) k' = nkind g k' := by
  unfold nkind
  rw [node?_updNode]
  split
  · cases g.node? k' <;> simp [hf]
  · rfl

theorem nkind_addLink (g : Graph) (p : Nat) (n : String) (t k : Nat) :
    nkind (g.addLink p n t) k = nkind g k := nkind_updNode _ _ _ _ (fun _ => rfl)

theorem nkind_setAttr (g : Graph) (k : Nat) (a : String) (v : Option String) (k' : Nat) :
    nkind (g.setAttr k a v) k' = nkind g k' := by
  unfold Graph.setAttr
  apply nkind_updNode
  intro n; cases v <;> rfl

theorem nkind_copyNodes_new (src dst : Graph) (ks emptied : List Nat)
    (hlt : ∀ k' ∈ keys dst, k' < dst.nextKey) {k : Nat} (hk : k ∈ ks) :
    nkind (copyNodes src dst ks emptied).1 (mapKey (keyMap ks dst.nextKey) k) =
      some ((src.node? k).getD {}).kind := by
  unfold nkind
  rw [node?_copyNodes_new src dst ks emptied hlt hk]; rfl

/-! ## `regenIds` -/

theorem regenIds_cons_some {g : Graph} {k : Nat} {ks : List Nat} {i : String} (h : g.entityId k = some i) :
    regenIds g (k :: ks) = regenIds ((g.freshId).1.setAttr k "entity_id" (some (g.freshId).2)) ks := by
  rw [regenIds]; simp only [h]

theorem regenIds_cons_none {g : Graph} {k : Nat} {ks : List Nat} (h : g.entityId k = none) :
    regenIds g (k :: ks) = regenIds g ks := by
  rw [regenIds]; simp only [h]

theorem regenIds_links (g : Graph) (ks : List Nat) (k : Nat) : (regenIds g ks).links k = g.links k := by
  induction ks generalizing g with
  | nil => rfl
  | cons x xs ih =>
    cases h : g.entityId x with
    | none => rw [regenIds_cons_none h]; exact ih g
    | some i => rw [regenIds_cons_some h, ih, links_setAttr, links_freshId]

theorem regenIds_nkind (g : Graph) (ks : List Nat) (k : Nat) : nkind (regenIds g ks) k = nkind g k := by
  induction ks generalizing g with
  | nil => rfl
  | cons x xs ih =>
    cases h : g.entityId x with
    | none => rw [regenIds_cons_none h]; exact ih g
    | some i => rw [regenIds_cons_some h, ih, nkind_setAttr]; rfl

theorem regenIds_keys (g : Graph) (ks : List Nat) : keys (regenIds g ks) = keys g := by
  induction ks generalizing g with
  | nil => rfl
  | cons x xs ih =>
    cases h : g.entityId x with
    | none => rw [regenIds_cons_none h]; exact ih g
    | some i => rw [regenIds_cons_some h, ih, keys_setAttr, keys_freshId]

theorem regenIds_nextKey (g : Graph) (ks : List Nat) : (regenIds g ks).nextKey = g.nextKey := by
  induction ks generalizing g with
  | nil => rfl
  | cons x xs ih =>
    cases h : g.entityId x with
    | none => rw [regenIds_cons_none h]; exact ih g
    | some i => rw [regenIds_cons_some h, ih]; rfl

theorem regenIds_nextId_le (g : Graph) (ks : List Nat) : g.nextId ≤ (regenIds g ks).nextId := by
  induction ks generalizing g with
  | nil => exact Nat.le_refl _
  | cons x xs ih =>
    cases h : g.entityId x with
    | none => rw [regenIds_cons_none h]; exact ih g
    | some i =>
      rw [regenIds_cons_some h]
      have := ih ((g.freshId).1.setAttr x "entity_id" (some (g.freshId).2))
      rw [nextId_setAttr, nextId_freshId] at this
      omega

/-- other attributes, and nodes outside the list, are untouched -/
theorem regenIds_getAttr (g : Graph) (ks : List Nat) (k : Nat) (a : String)
    (h : a ≠ "entity_id" ∨ k ∉ ks) : (regenIds g ks).getAttr k a = g.getAttr k a := by
  induction ks generalizing g with
  | nil => rfl
  | cons x xs ih =>
    have h' : a ≠ "entity_id" ∨ k ∉ xs := by
      rcases h with h | h
      · exact .inl h
      · exact .inr (fun hm => h (List.mem_cons.mpr (.inr hm)))
    cases hx : g.entityId x with
    | none => rw [regenIds_cons_none hx]; exact ih g h'
    | some i =>
      rw [regenIds_cons_some hx, ih _ h']
      rcases h with h | h
      · rw [getAttr_setAttr_attr_ne _ _ _ _ h]; rfl
      · have : k ≠ x := fun e => h (e ▸ List.mem_cons_self)
        rw [getAttr_setAttr_ne _ _ _ this]; rfl

/-- a listed node without an id stays without; one with an id gets `id:n` with `n` at or above the
old supply and below the new one -/
theorem regenIds_ids (g : Graph) (ks : List Nat) (hnd : ks.Nodup) (k : Nat) (hk : k ∈ ks) :
    (g.entityId k = none → (regenIds g ks).entityId k = none) ∧
    (∀ i, g.entityId k = some i → ∃ n, g.nextId ≤ n ∧ n < (regenIds g ks).nextId ∧
      (regenIds g ks).entityId k = some (idStr n)) := by
  induction ks generalizing g with
  | nil => cases hk
  | cons x xs ih =>
    have hx_notin : x ∉ xs := (List.nodup_cons.mp hnd).1
    have hnd' : xs.Nodup := (List.nodup_cons.mp hnd).2
    by_cases hkx : k = x
    · subst hkx
      cases hx : g.entityId k with
      | none =>
        rw [regenIds_cons_none hx]
        refine ⟨fun _ => ?_, fun i hi => by cases hi⟩
        rw [entityId_eq, regenIds_getAttr g xs k _ (.inr hx_notin), ← entityId_eq, hx]
      | some i =>
        rw [regenIds_cons_some hx]
        refine ⟨fun h => (by cases h), fun _ _ => ?_⟩
        refine ⟨g.nextId, Nat.le_refl _, ?_, ?_⟩
        · have := regenIds_nextId_le ((g.freshId).1.setAttr k "entity_id" (some (g.freshId).2)) xs
          rw [nextId_setAttr, nextId_freshId] at this
          omega
        · rw [entityId_eq, regenIds_getAttr _ xs k _ (.inr hx_notin)]
          have hn : ((g.freshId).1.node? k).isSome := by
            rw [node?_freshId]; exact node?_isSome_of_getAttr hx
          rw [getAttr_setAttr_self _ _ _ hn, freshId_snd]
    · have hk' : k ∈ xs := by
        rcases List.mem_cons.mp hk with h | h
        · exact absurd h hkx
        · exact h
      cases hx : g.entityId x with
      | none => rw [regenIds_cons_none hx]; exact ih g hnd' hk'
      | some i =>
        rw [regenIds_cons_some hx]
        have hsame : ((g.freshId).1.setAttr x "entity_id" (some (g.freshId).2)).entityId k = g.entityId k := by
          rw [entityId_eq, getAttr_setAttr_ne _ _ _ hkx]; rfl
        have := ih ((g.freshId).1.setAttr x "entity_id" (some (g.freshId).2)) hnd' hk'
        rw [hsame, nextId_setAttr, nextId_freshId] at this
        refine ⟨this.1, fun i hi => ?_⟩
        obtain ⟨n, h1, h2, h3⟩ := this.2 i hi
        exact ⟨n, by omega, h2, h3⟩

/-- the fresh ids are pairwise distinct -/
theorem regenIds_distinct (g : Graph) (ks : List Nat) (hnd : ks.Nodup) (a b : Nat) (ha : a ∈ ks) (hb : b ∈ ks)
    (hab : a ≠ b) (i j : String) (hi : g.entityId a = some i) (hj : g.entityId b = some j) :
    (regenIds g ks).entityId a ≠ (regenIds g ks).entityId b := by
  induction ks generalizing g i j with
  | nil => cases ha
  | cons x xs ih =>
    have hx_notin : x ∉ xs := (List.nodup_cons.mp hnd).1
    have hnd' : xs.Nodup := (List.nodup_cons.mp hnd).2
    -- the head gets `id:nextId`, everything later an id from the supply above it
    have head_vs_tail : ∀ (h t : Nat) (ih' it' : String), h = x → t ∈ xs → g.entityId h = some ih' →
        g.entityId t = some it' → (regenIds g (x :: xs)).entityId h ≠ (regenIds g (x :: xs)).entityId t := by
      intro h t ih' it' hh ht hih hit
      subst hh
      have hth : t ≠ h := fun e => hx_notin (e ▸ ht)
      rw [regenIds_cons_some hih]
      have hn : ((g.freshId).1.node? h).isSome := by
        rw [node?_freshId]; exact node?_isSome_of_getAttr hih
      have e1 : (regenIds ((g.freshId).1.setAttr h "entity_id" (some (g.freshId).2)) xs).entityId h =
          some (idStr g.nextId) := by
        rw [entityId_eq, regenIds_getAttr _ xs h _ (.inr hx_notin), getAttr_setAttr_self _ _ _ hn, freshId_snd]
      have hsame : ((g.freshId).1.setAttr h "entity_id" (some (g.freshId).2)).entityId t = some it' := by
        rw [entityId_eq, getAttr_setAttr_ne _ _ _ hth]; exact hit
      obtain ⟨n, h1, _, h3⟩ := (regenIds_ids _ xs hnd' t ht).2 it' hsame
      rw [nextId_setAttr, nextId_freshId] at h1
      rw [e1, h3]
      intro e
      have := idStr_inj (Option.some.inj e)
      omega
    rcases List.mem_cons.mp ha with ha' | ha' <;> rcases List.mem_cons.mp hb with hb' | hb'
    · exact absurd (ha'.trans hb'.symm) hab
    · exact head_vs_tail a b i j ha' hb' hi hj
    · exact fun e => head_vs_tail b a j i hb' ha' hj hi e.symm
    · cases hx : g.entityId x with
      | none => rw [regenIds_cons_none hx]; exact ih g hnd' ha' hb' i j hi hj
      | some i0 =>
        rw [regenIds_cons_some hx]
        have hax : a ≠ x := fun e => hx_notin (e ▸ ha')
        have hbx : b ≠ x := fun e => hx_notin (e ▸ hb')
        apply ih _ hnd' ha' hb' i j
        · rw [entityId_eq, getAttr_setAttr_ne _ _ _ hax]; exact hi
        · rw [entityId_eq, getAttr_setAttr_ne _ _ _ hbx]; exact hj

/-! ## `h5Copy` = `h5CopyCore` after `ensureGroup` -/

def copySet (src : Graph) (srcKey : Nat) (shallow : Bool) : List Nat :=
  if shallow then (srcKey :: (src.links srcKey).map (·.2)).eraseDups else reachFrom src srcKey

def emptiedSet (src : Graph) (srcKey : Nat) (shallow : Bool) : List Nat :=
  if shallow then ((src.links srcKey).map (·.2)).filter (· != srcKey) else []

/-- `h5Copy` once the destination container group `c` exists in `d0` -/
def h5CopyCore (src d0 : Graph) (c srcKey : Nat) (name : String) (ks emptied : List Nat) (keepId : Bool) :
    Graph × Nat :=
  let d1 := (copyNodes src d0 ks emptied).1
  let m := keyMap ks d0.nextKey
  let root := mapKey m srcKey
  let d3 := (d1.addLink c name root).setAttr root "name" (some name)
  (if keepId then d3 else regenIds d3 (ks.map (mapKey m)), root)

theorem h5Copy_eq (src dst : Graph) (srcKey destOwner : Nat) (cls name : String) (shallow keepId : Bool) :
    h5Copy src dst srcKey destOwner cls name shallow keepId =
      h5CopyCore src (dst.ensureGroup destOwner cls).1 (dst.ensureGroup destOwner cls).2 srcKey name
        (copySet src srcKey shallow) (emptiedSet src srcKey shallow) keepId := by
  unfold h5Copy h5CopyCore copySet emptiedSet
  rfl

end Nix.Store.C20
