import NixModel.Lemmas.C15Horner
import Mathlib.Algebra.Order.Ring.Abs
import Mathlib.Tactic.Linarith
import Mathlib.Tactic.Positivity

/-!
Helper lemmas for C15: an error bound for the *float* evaluation of the calibration polynomial under the
standard model of IEEE arithmetic (every operation returns `exact · (1 + δ)` with `|δ| ≤ u`; no overflow or
underflow).  This is the bound the correspondence harness uses when the float path is not exact.
-/
namespace Nix.Poly.Lemmas
open Nix.Poly

/-- one correctly rounded operation in the standard model -/
def Rounds (u exact r : Rat) : Prop := ∃ δ : Rat, |δ| ≤ u ∧ r = exact * (1 + δ)

/-- `g u m = (1+u)^m − 1`: accumulated relative error of `m` roundings -/
def g (u : Rat) (m : Nat) : Rat := (1 + u) ^ m - 1

theorem g_zero (u : Rat) : g u 0 = 0 := by simp [g]

theorem g_succ (u : Rat) (m : Nat) : g u (m + 1) = (1 + u) * g u m + u := by
  simp only [g, pow_succ]; ring

theorem g_nonneg (u : Rat) (hu : 0 ≤ u) (m : Nat) : 0 ≤ g u m := by
  induction m with
  | zero => simp [g_zero]
  | succ m ih => rw [g_succ]; positivity

theorem g_mono_succ (u : Rat) (hu : 0 ≤ u) (m : Nat) : g u m ≤ g u (m + 1) := by
  rw [g_succ]
  have := g_nonneg u hu m
  nlinarith

theorem g_mono (u : Rat) (hu : 0 ≤ u) {m n : Nat} (h : m ≤ n) : g u m ≤ g u n := by
  induction n with
  | zero => have : m = 0 := by omega
            subst this; exact le_refl _
  | succ n ih =>
    by_cases hm : m = n + 1
    · subst hm; exact le_refl _
    · exact le_trans (ih (by omega)) (g_mono_succ u hu n)

theorem u_le_g (u : Rat) (hu : 0 ≤ u) (m : Nat) : u ≤ g u (m + 1) := by
  rw [g_succ]
  have := g_nonneg u hu m
  nlinarith

/-- for `m·u ≤ 1/2` the accumulated error is at most `2·m·u` -/
theorem g_le_linear (u : Rat) (hu : 0 ≤ u) (m : Nat) (h : (m : Rat) * u ≤ 1 / 2) : g u m ≤ 2 * m * u := by
  induction m with
  | zero => simp [g_zero]
  | succ m ih =>
    have hm : (m : Rat) * u ≤ 1 / 2 := by
      have : ((m + 1 : Nat) : Rat) = (m : Rat) + 1 := by push_cast; ring
      rw [this] at h; nlinarith
    have ih' := ih hm
    rw [g_succ]
    have : ((m + 1 : Nat) : Rat) = (m : Rat) + 1 := by push_cast; ring
    rw [this]
    nlinarith

/-- the loop of `polyval` on the magnitudes: `Σ |cₖ| |y|ᵏ` accumulated in the same order -/
def absLoop (ya : Rat) : Rat → List Rat → Rat
  | b, [] => b
  | b, a :: rest => absLoop ya (|a| + b * ya) rest

theorem absLoop_mono (ya : Rat) (hya : 0 ≤ ya) (rest : List Rat) (b b' : Rat) (h : b ≤ b') :
    absLoop ya b rest ≤ absLoop ya b' rest := by
  induction rest generalizing b b' with
  | nil => simpa [absLoop] using h
  | cons a r ih => simp only [absLoop]; apply ih; nlinarith

theorem absLoop_nonneg (ya : Rat) (hya : 0 ≤ ya) (rest : List Rat) (b : Rat) (hb : 0 ≤ b) :
    0 ≤ absLoop ya b rest := by
  induction rest generalizing b with
  | nil => simpa [absLoop] using hb
  | cons a r ih => simp only [absLoop]; apply ih; positivity

/-- a float execution of the `polyval` loop: every multiplication and every addition is rounded -/
inductive FloatLoop (u y : Rat) : Rat → List Rat → Rat → Prop
  | done (acc : Rat) : FloatLoop u y acc [] acc
  | step (acc a : Rat) (rest : List Rat) (t s r : Rat) :
      Rounds u (acc * y) t → Rounds u (a + t) s → FloatLoop u y s rest r →
      FloatLoop u y acc (a :: rest) r

theorem abs_one_add_le (u δ : Rat) (h : |δ| ≤ u) : |1 + δ| ≤ 1 + u := by
  calc |1 + δ| ≤ |(1 : Rat)| + |δ| := abs_add_le _ _
    _ ≤ 1 + u := by simp; exact h

/-- one loop step: the error grows by two roundings -/
theorem step_bound (u y acc A B a t s : Rat) (m : Nat) (hu : 0 ≤ u)
    (hB : |A| ≤ B) (hacc : |acc - A| ≤ g u m * B)
    (ht : Rounds u (acc * y) t) (hs : Rounds u (a + t) s) :
    |s - (a + A * y)| ≤ g u (m + 2) * (|a| + B * |y|) ∧ |a + A * y| ≤ |a| + B * |y| := by
  obtain ⟨d1, hd1, rfl⟩ := ht
  obtain ⟨d2, hd2, rfl⟩ := hs
  have hB0 : 0 ≤ B := le_trans (abs_nonneg _) hB
  have hgm := g_nonneg u hu m
  constructor
  · have hsplit : (a + acc * y * (1 + d1)) * (1 + d2) - (a + A * y)
        = a * d2 + (acc - A) * y * ((1 + d1) * (1 + d2)) + A * y * (d1 + d2 + d1 * d2) := by ring
    rw [hsplit]
    have h1 : |a * d2| ≤ |a| * u := by
      rw [abs_mul]; exact mul_le_mul_of_nonneg_left hd2 (abs_nonneg _)
    have hw : |(1 + d1) * (1 + d2)| ≤ (1 + u) * (1 + u) := by
      rw [abs_mul]
      exact mul_le_mul (abs_one_add_le u d1 hd1) (abs_one_add_le u d2 hd2) (abs_nonneg _) (by linarith)
    have h2 : |(acc - A) * y * ((1 + d1) * (1 + d2))| ≤ g u m * B * |y| * ((1 + u) * (1 + u)) := by
      rw [abs_mul, abs_mul]
      apply mul_le_mul _ hw (abs_nonneg _) (by positivity)
      exact mul_le_mul_of_nonneg_right hacc (abs_nonneg _)
    have hd : |d1 + d2 + d1 * d2| ≤ u + u + u * u := by
      calc |d1 + d2 + d1 * d2| ≤ |d1 + d2| + |d1 * d2| := abs_add_le _ _
        _ ≤ (|d1| + |d2|) + |d1| * |d2| := by
            have := abs_add_le d1 d2
            rw [abs_mul]; linarith
        _ ≤ u + u + u * u := by
            have := mul_le_mul hd1 hd2 (abs_nonneg _) hu
            linarith
    have h3 : |A * y * (d1 + d2 + d1 * d2)| ≤ B * |y| * (u + u + u * u) := by
      rw [abs_mul, abs_mul]
      apply mul_le_mul _ hd (abs_nonneg _) (by positivity)
      exact mul_le_mul_of_nonneg_right hB (abs_nonneg _)
    have hg2 : g u (m + 2) = (1 + u) * (1 + u) * g u m + (u + u + u * u) := by
      simp only [g, pow_succ]; ring
    have hug : u ≤ g u (m + 2) := u_le_g u hu (m + 1)
    have ha0 := abs_nonneg a
    have hy0 := abs_nonneg y
    calc |a * d2 + (acc - A) * y * ((1 + d1) * (1 + d2)) + A * y * (d1 + d2 + d1 * d2)|
        ≤ |a * d2| + |(acc - A) * y * ((1 + d1) * (1 + d2))| + |A * y * (d1 + d2 + d1 * d2)| := by
          have e1 := abs_add_le (a * d2 + (acc - A) * y * ((1 + d1) * (1 + d2))) (A * y * (d1 + d2 + d1 * d2))
          have e2 := abs_add_le (a * d2) ((acc - A) * y * ((1 + d1) * (1 + d2)))
          linarith
      _ ≤ |a| * u + g u m * B * |y| * ((1 + u) * (1 + u)) + B * |y| * (u + u + u * u) := by linarith
      _ = |a| * u + g u (m + 2) * (B * |y|) := by rw [hg2]; ring
      _ ≤ g u (m + 2) * (|a| + B * |y|) := by nlinarith
  · calc |a + A * y| ≤ |a| + |A * y| := abs_add_le _ _
      _ = |a| + |A| * |y| := by rw [abs_mul]
      _ ≤ |a| + B * |y| := by
          have := mul_le_mul_of_nonneg_right hB (abs_nonneg y)
          linarith

/-- the float loop stays within `g(m + 2·steps)` of the exact loop, relative to the magnitude loop -/
theorem floatLoop_bound (u y : Rat) (hu : 0 ≤ u) (rest : List Rat) (acc A B r : Rat) (m : Nat)
    (hB : |A| ≤ B) (hacc : |acc - A| ≤ g u m * B) (h : FloatLoop u y acc rest r) :
    |r - polyvalLoop y A rest| ≤ g u (m + 2 * rest.length) * absLoop |y| B rest := by
  induction h generalizing A B m with
  | done acc => simpa [polyvalLoop, absLoop] using hacc
  | step acc a rest t s r ht hs _ ih =>
    obtain ⟨h1, h2⟩ := step_bound u y acc A B a t s m hu hB hacc ht hs
    have := ih (a + A * y) (|a| + B * |y|) (m + 2) h2 h1
    simp only [polyvalLoop, absLoop, List.length_cons]
    have e : m + 2 * (rest.length + 1) = m + 2 + 2 * rest.length := by ring
    rw [e]
    exact this


/-! ### the rounded subtraction `y_f = fl(x − o)` perturbs the argument of the polynomial -/

theorem abs_le_one_add (u w : Rat) (hw : |w - 1| ≤ u) : |w| ≤ 1 + u := by
  have : w = 1 + (w - 1) := by ring
  rw [this]; exact abs_one_add_le u (w - 1) hw

theorem pow_sub_one_bound (u w : Rat) (hu : 0 ≤ u) (hw : |w - 1| ≤ u) (j : Nat) :
    |w ^ j - 1| ≤ g u j := by
  induction j with
  | zero => simp [g_zero]
  | succ j ih =>
    have e : w ^ (j + 1) - 1 = w * (w ^ j - 1) + (w - 1) := by rw [pow_succ]; ring
    rw [e, g_succ]
    have h1 : |w * (w ^ j - 1)| ≤ (1 + u) * g u j := by
      rw [abs_mul]
      exact mul_le_mul (abs_le_one_add u w hw) ih (abs_nonneg _) (by linarith)
    have := abs_add_le (w * (w ^ j - 1)) (w - 1)
    linarith

/-- `Σ |cₖ| yaᵏ` -/
def evalAbs (ya : Rat) (c : List Rat) : Rat := evalAsc ya (c.map (fun x => |x|))

theorem evalAbs_nil (ya : Rat) : evalAbs ya [] = 0 := rfl
theorem evalAbs_cons (ya a : Rat) (c : List Rat) : evalAbs ya (a :: c) = |a| + ya * evalAbs ya c := rfl

theorem evalAbs_nonneg (ya : Rat) (hya : 0 ≤ ya) (c : List Rat) : 0 ≤ evalAbs ya c := by
  induction c with
  | nil => simp [evalAbs_nil]
  | cons a c ih => rw [evalAbs_cons]; positivity

theorem eval_perturb (u y w : Rat) (hu : 0 ≤ u) (hw : |w - 1| ≤ u) (c : List Rat) (j : Nat) :
    |w ^ j * evalAsc (y * w) c - evalAsc y c| ≤ g u (j + c.length) * evalAbs |y| c := by
  induction c generalizing j with
  | nil => simp [evalAsc, evalAbs_nil]
  | cons a c ih =>
    have e : w ^ j * evalAsc (y * w) (a :: c) - evalAsc y (a :: c)
        = a * (w ^ j - 1) + y * (w ^ (j + 1) * evalAsc (y * w) c - evalAsc y c) := by
      simp only [evalAsc, pow_succ]; ring
    rw [e, evalAbs_cons]
    have h1 : |a * (w ^ j - 1)| ≤ |a| * g u j := by
      rw [abs_mul]; exact mul_le_mul_of_nonneg_left (pow_sub_one_bound u w hu hw j) (abs_nonneg _)
    have h2 : |y * (w ^ (j + 1) * evalAsc (y * w) c - evalAsc y c)|
        ≤ |y| * (g u (j + 1 + c.length) * evalAbs |y| c) := by
      rw [abs_mul]; exact mul_le_mul_of_nonneg_left (ih (j + 1)) (abs_nonneg _)
    have hmono : g u j ≤ g u (j + (c.length + 1)) := g_mono u hu (by omega)
    have e2 : j + 1 + c.length = j + (c.length + 1) := by ring
    rw [e2] at h2
    have hS := evalAbs_nonneg |y| (abs_nonneg y) c
    have ha := abs_nonneg a
    have hy := abs_nonneg y
    have hg := g_nonneg u hu (j + (c.length + 1))
    simp only [List.length_cons]
    have := abs_add_le (a * (w ^ j - 1)) (y * (w ^ (j + 1) * evalAsc (y * w) c - evalAsc y c))
    nlinarith

theorem evalAbs_scale (ya k : Rat) (hya : 0 ≤ ya) (hk : 1 ≤ k) (c : List Rat) :
    evalAbs (ya * k) c ≤ k ^ c.length * evalAbs ya c := by
  induction c with
  | nil => simp [evalAbs_nil]
  | cons a c ih =>
    rw [evalAbs_cons, evalAbs_cons, List.length_cons, pow_succ]
    have hS := evalAbs_nonneg ya hya c
    have hkp : 1 ≤ k ^ c.length := one_le_pow₀ hk
    have ha := abs_nonneg a
    have h1 : ya * k * evalAbs (ya * k) c ≤ ya * k * (k ^ c.length * evalAbs ya c) :=
      mul_le_mul_of_nonneg_left ih (by positivity)
    have h2 : |a| ≤ k ^ c.length * k * |a| := by
      have : 1 ≤ k ^ c.length * k := by nlinarith
      nlinarith
    nlinarith

/-- the magnitude loop is the magnitude polynomial -/
theorem absLoop_eq (ya : Rat) (rest : List Rat) (b : Rat) :
    absLoop ya b rest = polyvalLoop ya b (rest.map (fun x => |x|)) := by
  induction rest generalizing b with
  | nil => rfl
  | cons a r ih => simp only [absLoop, List.map_cons, polyvalLoop, ih]

theorem absLoop_evalAbs (ya : Rat) (top : Rat) (rest : List Rat) :
    absLoop ya |top| rest = evalAbs ya (rest.reverse ++ [top]) := by
  rw [absLoop_eq, polyvalLoop_eq, evalAbs]
  simp [List.map_reverse]

/-- **float Horner bound.** `c` non-empty with `n` coefficients; `yf = y·w` with `|w − 1| ≤ u` is the
rounded `x − o`; `r` is any float execution of NumPy's loop at `yf` (the start value `c[-1] + yf·0` is
exact).  Then `|r − Σ cₖ yᵏ| ≤ ((1+u)^(3n−2) − 1) · Σ |cₖ| |y|ᵏ`. -/
theorem float_polyval_bound (u y w r : Rat) (hu : 0 ≤ u) (hw : |w - 1| ≤ u)
    (top : Rat) (rest : List Rat) (h : FloatLoop u (y * w) top rest r) :
    |r - evalAsc y (rest.reverse ++ [top])|
      ≤ g u (3 * (rest.length + 1) - 2) * evalAbs |y| (rest.reverse ++ [top]) := by
  set c := rest.reverse ++ [top] with hc
  have hn : c.length = rest.length + 1 := by simp [hc]
  -- rounding inside the loop, at the perturbed argument
  have h1 := floatLoop_bound u (y * w) hu rest top top |top| r 0 (le_refl _)
    (by simp [g_zero]) h
  rw [polyvalLoop_eq, absLoop_evalAbs, ← hc, Nat.zero_add] at h1
  -- magnitude polynomial at |y·w| against |y|
  have hk : (1 : Rat) ≤ 1 + u := by linarith
  have hyw : |y * w| ≤ |y| * (1 + u) := by
    rw [abs_mul]; exact mul_le_mul_of_nonneg_left (abs_le_one_add u w hw) (abs_nonneg _)
  have hmonoS : evalAbs |y * w| c ≤ evalAbs (|y| * (1 + u)) c := by
    -- monotone in the argument
    have : ∀ (l : List Rat) (p q : Rat), 0 ≤ p → p ≤ q → evalAbs p l ≤ evalAbs q l := by
      intro l
      induction l with
      | nil => intro p q _ _; simp [evalAbs_nil]
      | cons a l ih =>
        intro p q hp hpq
        rw [evalAbs_cons, evalAbs_cons]
        have h1 := ih p q hp hpq
        have h2 := evalAbs_nonneg p hp l
        nlinarith
    exact this c _ _ (abs_nonneg _) hyw
  have hscale := evalAbs_scale |y| (1 + u) (abs_nonneg y) hk c
  have hS := evalAbs_nonneg |y| (abs_nonneg y) c
  -- perturbation of the argument
  have h2 := eval_perturb u y w hu hw c 0
  simp only [pow_zero, one_mul, Nat.zero_add] at h2
  -- combine
  have hg1 := g_nonneg u hu (2 * rest.length)
  have hcomb : g u (2 * rest.length) * (1 + u) ^ c.length + g u c.length
      = g u (3 * (rest.length + 1) - 2) := by
    have e : 3 * (rest.length + 1) - 2 = 2 * rest.length + c.length := by omega
    rw [e]
    simp only [g, pow_add]; ring
  have htri : |r - evalAsc y c| ≤ |r - evalAsc (y * w) c| + |evalAsc (y * w) c - evalAsc y c| := by
    have := abs_add_le (r - evalAsc (y * w) c) (evalAsc (y * w) c - evalAsc y c)
    have e : r - evalAsc (y * w) c + (evalAsc (y * w) c - evalAsc y c) = r - evalAsc y c := by ring
    rw [e] at this; exact this
  have h3 : g u (2 * rest.length) * evalAbs |y * w| c
      ≤ g u (2 * rest.length) * ((1 + u) ^ c.length * evalAbs |y| c) :=
    mul_le_mul_of_nonneg_left (le_trans hmonoS hscale) hg1
  rw [← hcomb]
  nlinarith

/-- no coefficients: the read returns the rounded `x − o` -/
theorem float_origin_only_bound (u y r : Rat) (h : Rounds u y r) : |r - y| ≤ u * |y| := by
  obtain ⟨d, hd, rfl⟩ := h
  have e : y * (1 + d) - y = y * d := by ring
  rw [e, abs_mul, mul_comm]
  exact mul_le_mul_of_nonneg_right hd (abs_nonneg _)


/-- a float execution of `polyval(yf, c)`: start from `c[-1]` (`c[-1] + yf·0` is exact), then the rounded loop -/
def FloatPolyval (u yf : Rat) (c : List Rat) (r : Rat) : Prop :=
  ∃ top rest, c.reverse = top :: rest ∧ FloatLoop u yf top rest r

/-- the exact loop is one of the float executions (all `δ = 0`) -/
theorem floatLoop_exact (u y : Rat) (hu : 0 ≤ u) (rest : List Rat) (acc : Rat) :
    FloatLoop u y acc rest (polyvalLoop y acc rest) := by
  induction rest generalizing acc with
  | nil => exact FloatLoop.done acc
  | cons a r ih =>
    refine FloatLoop.step acc a r (acc * y) (a + acc * y) _ ⟨0, by simpa using hu, by ring⟩
      ⟨0, by simpa using hu, by ring⟩ ?_
    simpa [polyvalLoop] using ih (a + acc * y)

end Nix.Poly.Lemmas
