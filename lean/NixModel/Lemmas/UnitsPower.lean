import NixModel.Lemmas.UnitsLemmas

/-!
Helper lemmas for C09: the power-generic theorems.  `PowerText w` describes *every* text of the
generated POWER grammar `\^[+-]?[1-9]\d*` (any number of digits) or no power at all; recognition,
`split` and `scaling` of `prefix ++ unit ++ w` are derived structurally:

* a power text starts with `^`, and no prefix / unit of the generated tables contains `^`, so the
  matches of the pieces in front of the power on `a ++ w` are the matches on `a` with `w` appended
  to what is left (`matchPieces_lift`);
* the power piece matches only where nothing of `a` is left, and under the `$` anchor only the
  whole power text survives (`powerM_filter`);
* what remains is a statement about `prefix ++ unit` alone, closed over the generated tables by
  kernel evaluation (`pupTable`, `upTable`).
-/
namespace Nix.Units.Lemmas
open Nix.Units Nix.Units.Gen

/-- every text of the POWER grammar (`^`, optional sign, a digit 1–9, any digits), or no power -/
inductive PowerText : Str → Prop
  | none : PowerText []
  | pow (sign : Str) (d : Char) (ds : Str) (hs : sign = [] ∨ sign = ['+'] ∨ sign = ['-'])
      (hd : isDigit19 d = true) (hds : ds.all isDigit = true) : PowerText ('^' :: sign ++ d :: ds)

theorem powerTexts_PowerText : ∀ w ∈ powerTexts, PowerText w := by
  intro w hw
  simp only [powerTexts, List.mem_cons, List.not_mem_nil, or_false] at hw
  rcases hw with rfl | rfl | rfl | rfl | rfl | rfl | rfl | rfl | rfl | rfl
  · exact .none
  · exact .pow [] '1' [] (by simp) (by decide) (by decide)
  · exact .pow ['+'] '1' [] (by simp) (by decide) (by decide)
  · exact .pow [] '2' [] (by simp) (by decide) (by decide)
  · exact .pow ['+'] '2' [] (by simp) (by decide) (by decide)
  · exact .pow [] '3' [] (by simp) (by decide) (by decide)
  · exact .pow ['+'] '3' [] (by simp) (by decide) (by decide)
  · exact .pow ['-'] '1' [] (by simp) (by decide) (by decide)
  · exact .pow ['-'] '2' [] (by simp) (by decide) (by decide)
  · exact .pow ['-'] '3' [] (by simp) (by decide) (by decide)

/-! ### characters -/

def noCaret (s : Str) : Bool := s.all (· != '^')

theorem isDigit19_isDigit (c : Char) (h : isDigit19 c = true) : isDigit c = true := by
  simp only [isDigit19, isDigit, Bool.and_eq_true, decide_eq_true_eq] at *
  exact ⟨Char.le_trans (by decide) h.1, h.2⟩

theorem isDigit_ne (c x : Char) (h : isDigit c = true) (hx : isDigit x = false) : c ≠ x := by
  intro e; subst e; rw [h] at hx; cases hx

theorem tables_noCaret : (∀ a ∈ prefixes, noCaret a = true) ∧ (∀ a ∈ units, noCaret a = true) := by
  decide

theorem optPrefixes_noCaret : ∀ a ∈ optPrefixes, noCaret a = true := by decide

theorem units_ne_nil : ∀ u ∈ units, u ≠ [] := by decide

theorem noCaret_append (a b : Str) : noCaret (a ++ b) = (noCaret a && noCaret b) := by
  simp [noCaret, List.all_append]

theorem noCaret_drop (s : Str) (n : Nat) (h : noCaret s = true) : noCaret (s.drop n) = true := by
  simp only [noCaret, List.all_eq_true] at *
  intro x hx
  exact h x (List.mem_of_mem_drop hx)

/-! ### lifting the pieces in front of the power over a `^…` tail -/

theorem isPrefixOf_append_caret (w' : Str) : ∀ (alt s : Str), noCaret alt = true →
    alt.isPrefixOf (s ++ '^' :: w') = alt.isPrefixOf s := by
  intro alt
  induction alt with
  | nil => intro s _; simp
  | cons x xs ih =>
    intro s h
    have hx : x ≠ '^' := by
      simp only [noCaret, List.all_cons, Bool.and_eq_true, bne_iff_ne, ne_eq] at h
      exact h.1
    have hxs : noCaret xs = true := by
      simp only [noCaret, List.all_cons, Bool.and_eq_true] at h
      exact h.2
    cases s with
    | nil => simp [List.isPrefixOf, hx]
    | cons y ys =>
      simp only [List.cons_append, List.isPrefixOf]
      rw [ih ys hxs]

theorem filterMap_congr' {α β : Type} (f g : α → Option β) : ∀ l : List α, (∀ a ∈ l, f a = g a) →
    l.filterMap f = l.filterMap g := by
  intro l
  induction l with
  | nil => intro _; rfl
  | cons a l ih =>
    intro h
    simp only [List.filterMap_cons, h a (by simp), ih (fun x hx => h x (by simp [hx]))]

theorem flatMap_congr' {α β : Type} (f g : α → List β) : ∀ l : List α, (∀ a ∈ l, f a = g a) →
    l.flatMap f = l.flatMap g := by
  intro l
  induction l with
  | nil => intro _; rfl
  | cons a l ih =>
    intro h
    simp only [List.flatMap_cons, h a (by simp), ih (fun x hx => h x (by simp [hx]))]

theorem altM_lift (alts : List Str) (ha : ∀ a ∈ alts, noCaret a = true) (s w' : Str) :
    altM alts (s ++ '^' :: w') = (altM alts s).map fun ar => (ar.1, ar.2 ++ '^' :: w') := by
  unfold altM
  rw [List.map_filterMap]
  apply filterMap_congr'
  intro a hmem
  rw [isPrefixOf_append_caret w' a s (ha a hmem)]
  by_cases hp : a.isPrefixOf s = true
  · have hle : a.length ≤ s.length := (List.isPrefixOf_iff_prefix.mp hp).length_le
    simp [hp, List.drop_append_of_le_length hle]
  · simp [hp]

/-- append `w` to what a partial match has left -/
def addRest (w : Str) (m : M) : M := { m with rest := m.rest ++ w }

/-- pieces that may stand in front of the power -/
def frontPiece (p : Piece) : Bool := p == .pre || p == .unit || p == .optPre

theorem stepPiece_lift (p : Piece) (hp : frontPiece p = true) (m : M) (w' : Str) :
    stepPiece p (addRest ('^' :: w') m) = (stepPiece p m).map (addRest ('^' :: w')) := by
  cases p with
  | pre =>
    simp only [stepPiece, addRest, altM_lift prefixes tables_noCaret.1, List.map_map]
    rfl
  | unit =>
    simp only [stepPiece, addRest, altM_lift units tables_noCaret.2, List.map_map]
    rfl
  | optPre =>
    simp only [stepPiece, addRest, altM_lift prefixes tables_noCaret.1, List.map_map,
      List.map_append, List.map_cons, List.map_nil]
    rfl
  | pow => simp [frontPiece] at hp
  | optPow => simp [frontPiece] at hp

theorem matchPieces_lift (w' : Str) : ∀ (ps : List Piece), (∀ p ∈ ps, frontPiece p = true) → ∀ m : M,
    matchPieces ps (addRest ('^' :: w') m) = (matchPieces ps m).map (addRest ('^' :: w')) := by
  intro ps
  induction ps with
  | nil => intro _ m; simp [matchPieces]
  | cons p ps ih =>
    intro h m
    have hp := h p (by simp)
    have hps : ∀ q ∈ ps, frontPiece q = true := fun q hq => h q (by simp [hq])
    simp only [matchPieces]
    rw [stepPiece_lift p hp m w', List.flatMap_map, List.map_flatMap]
    apply flatMap_congr'
    intro m' _
    exact ih hps m'

theorem matchPieces_append (ps qs : List Piece) : ∀ m : M,
    matchPieces (ps ++ qs) m = (matchPieces ps m).flatMap (matchPieces qs) := by
  induction ps with
  | nil => intro m; simp [matchPieces]
  | cons p ps ih =>
    intro m
    simp only [List.cons_append, matchPieces, List.flatMap_assoc]
    apply flatMap_congr'
    intro m' _
    exact ih m'

theorem matchPieces_single (p : Piece) (m : M) : matchPieces [p] m = stepPiece p m := by
  simp [matchPieces]

/-- what the pieces in front of the power leave is a part of the input, so it contains no `^` -/
theorem stepPiece_noCaret (p : Piece) (hp : frontPiece p = true) (m m' : M)
    (h : noCaret m.rest = true) (hm : m' ∈ stepPiece p m) : noCaret m'.rest = true := by
  have key : ∀ (alts : List Str) (ar : Str × Str), ar ∈ altM alts m.rest → noCaret ar.2 = true := by
    intro alts ar har
    unfold altM at har
    rw [List.mem_filterMap] at har
    obtain ⟨a, _, ha⟩ := har
    split at ha
    · cases ha; exact noCaret_drop _ _ h
    · cases ha
  cases p with
  | pre =>
    simp only [stepPiece, List.mem_map] at hm
    obtain ⟨ar, har, rfl⟩ := hm
    exact key _ ar har
  | unit =>
    simp only [stepPiece, List.mem_map] at hm
    obtain ⟨ar, har, rfl⟩ := hm
    exact key _ ar har
  | optPre =>
    simp only [stepPiece, List.mem_append, List.mem_map, List.mem_singleton] at hm
    rcases hm with ⟨ar, har, rfl⟩ | rfl
    · exact key _ ar har
    · exact h
  | pow => simp [frontPiece] at hp
  | optPow => simp [frontPiece] at hp

theorem matchPieces_noCaret : ∀ (ps : List Piece), (∀ p ∈ ps, frontPiece p = true) → ∀ (m m' : M),
    noCaret m.rest = true → m' ∈ matchPieces ps m → noCaret m'.rest = true := by
  intro ps
  induction ps with
  | nil => intro _ m m' h hm; simp only [matchPieces, List.mem_singleton] at hm; subst hm; exact h
  | cons p ps ih =>
    intro hps m m' h hm
    simp only [matchPieces, List.mem_flatMap] at hm
    obtain ⟨m1, hm1, hm'⟩ := hm
    exact ih (fun q hq => hps q (by simp [hq])) m1 m'
      (stepPiece_noCaret p (hps p (by simp)) m m1 h hm1) hm'

/-! ### the power piece -/

theorem digitsGreedy_filter : ∀ ds : Str, ds.all isDigit = true →
    (digitsGreedy ds).filter (fun mr => atEnd mr.2) = [(ds, [])] := by
  intro ds
  induction ds with
  | nil => intro _; simp [digitsGreedy, atEnd]
  | cons c cs ih =>
    intro h
    simp only [List.all_cons, Bool.and_eq_true] at h
    have hc : c ≠ '\n' := isDigit_ne c '\n' h.1 (by decide)
    simp only [digitsGreedy, h.1, ↓reduceIte, List.filter_append, List.filter_map]
    have hcomp : ((fun mr : Str × Str => atEnd mr.2) ∘ fun mr : Str × Str => (c :: mr.1, mr.2)) =
        fun mr => atEnd mr.2 := rfl
    rw [hcomp, ih h.2]
    simp [atEnd, hc]

theorem digitsGreedy_mem : ∀ (ds r : Str), ds.all isDigit = true → (ds, r) ∈ digitsGreedy (ds ++ r) := by
  intro ds
  induction ds with
  | nil => intro r _; exact digitsGreedy_nil_mem r
  | cons c cs ih =>
    intro r h
    simp only [List.all_cons, Bool.and_eq_true] at h
    simp only [List.cons_append, digitsGreedy, h.1, ↓reduceIte, List.mem_append, List.mem_map]
    left
    exact ⟨(cs, r), ih r h.2, rfl⟩

theorem digit19_not_sign (d : Char) (hd : isDigit19 d = true) : d ≠ '+' ∧ d ≠ '-' ∧ d ≠ '^' := by
  refine ⟨?_, ?_, ?_⟩ <;> (intro e; subst e; revert hd; decide)

/-- under the `$` anchor the power piece matches a whole power text and nothing else -/
theorem powerM_filter (sign : Str) (d : Char) (ds : Str) (hs : sign = [] ∨ sign = ['+'] ∨ sign = ['-'])
    (hd : isDigit19 d = true) (hds : ds.all isDigit = true) :
    (powerM ('^' :: sign ++ d :: ds)).filter (fun mr => atEnd mr.2) = [('^' :: sign ++ d :: ds, [])] := by
  obtain ⟨h1, h2, _⟩ := digit19_not_sign d hd
  have hmap : ∀ sg : Str, ((digitsGreedy ds).map fun mr => ('^' :: sg ++ d :: mr.1, mr.2)).filter
      (fun mr => atEnd mr.2) = [('^' :: sg ++ d :: ds, [])] := by
    intro sg
    rw [List.filter_map]
    have hcomp : ((fun mr : Str × Str => atEnd mr.2) ∘ fun mr : Str × Str => ('^' :: sg ++ d :: mr.1, mr.2)) =
        fun mr => atEnd mr.2 := rfl
    rw [hcomp, digitsGreedy_filter ds hds]
    rfl
  rcases hs with rfl | rfl | rfl
  · have := hmap []
    simp only [List.cons_append, List.nil_append] at this ⊢
    unfold powerM
    split
    · rename_i t heq
      injection heq with _ ht
      subst ht
      split
      · rename_i heq2; injection heq2 with hh _; exact absurd hh h1
      · rename_i heq2; injection heq2 with hh _; exact absurd hh h2
      · simp only [List.flatMap_cons, List.flatMap_nil, List.append_nil, hd, ↓reduceIte]
        exact this
    · rename_i hne; exact absurd rfl (hne _)
  · have := hmap ['+']
    simp only [powerM, List.cons_append, List.nil_append, List.flatMap_cons, List.flatMap_nil,
      List.append_nil, hd, ↓reduceIte] at this ⊢
    rw [List.filter_append, this]
    simp [isDigit19]
  · have := hmap ['-']
    simp only [powerM, List.cons_append, List.nil_append, List.flatMap_cons, List.flatMap_nil,
      List.append_nil, hd, ↓reduceIte] at this ⊢
    rw [List.filter_append, this]
    simp [isDigit19]

theorem powerM_mem_generic (sign : Str) (d : Char) (ds r : Str) (hs : sign = [] ∨ sign = ['+'] ∨ sign = ['-'])
    (hd : isDigit19 d = true) (hds : ds.all isDigit = true) :
    ('^' :: sign ++ d :: ds, r) ∈ powerM ('^' :: sign ++ d :: ds ++ r) := by
  obtain ⟨h1, h2, _⟩ := digit19_not_sign d hd
  have hmem : ∀ sg : Str, ('^' :: sg ++ d :: ds, r) ∈
      (digitsGreedy (ds ++ r)).map fun mr => ('^' :: sg ++ d :: mr.1, mr.2) := by
    intro sg
    rw [List.mem_map]
    exact ⟨(ds, r), digitsGreedy_mem ds r hds, rfl⟩
  rcases hs with rfl | rfl | rfl
  · have := hmem []
    simp only [List.nil_append, List.cons_append] at this
    simp only [List.nil_append, List.cons_append]
    unfold powerM
    split
    · rename_i t heq
      injection heq with _ ht
      subst ht
      split
      · rename_i heq2; injection heq2 with hh _; exact absurd hh h1
      · rename_i heq2; injection heq2 with hh _; exact absurd hh h2
      · simp only [List.flatMap_cons, List.flatMap_nil, List.append_nil, hd, ↓reduceIte]
        exact this
    · rename_i hne; exact absurd rfl (hne _)
  · have := hmem ['+']
    simp only [powerM, List.cons_append, List.nil_append, List.flatMap_cons, List.flatMap_nil,
      List.append_nil, hd, ↓reduceIte, List.mem_append] at this ⊢
    exact Or.inl this
  · have := hmem ['-']
    simp only [powerM, List.cons_append, List.nil_append, List.flatMap_cons, List.flatMap_nil,
      List.append_nil, hd, ↓reduceIte, List.mem_append] at this ⊢
    exact Or.inl this

theorem powerM_noCaret_head (c : Char) (cs : Str) (hc : c ≠ '^') : powerM (c :: cs) = [] := by
  unfold powerM
  split
  · rename_i heq; injection heq with hh _; exact absurd hh hc
  · rfl

/-! ### `re.match` of `front ++ [power] $` on `a ++ w` -/

/-- the completed match: the whole power text taken by the power group, nothing left -/
def withPow (w : Str) (m : M) : M := { m with pow := some w, matched := m.matched ++ w, rest := [] }

theorem stepPow_filter (w : Str) (hw : PowerText w) (hne : w ≠ []) (m : M) (hm : noCaret m.rest = true) :
    (stepPiece .pow (addRest w m)).filter (fun m => atEnd m.rest) =
      if m.rest.isEmpty then [withPow w m] else [] := by
  cases hw with
  | none => exact absurd rfl hne
  | pow sign d ds hs hd hds =>
    cases hr : m.rest with
    | nil =>
      simp only [stepPiece, addRest, hr, List.nil_append, List.isEmpty_nil, ↓reduceIte, List.filter_map]
      have hcomp : ((fun m : M => atEnd m.rest) ∘ fun ar : Str × Str =>
          ({ pre := m.pre, unit := m.unit, pow := some ar.1, matched := m.matched ++ ar.1, rest := ar.2 } : M)) =
          fun ar => atEnd ar.2 := rfl
      rw [hcomp, powerM_filter sign d ds hs hd hds]
      simp [withPow]
    | cons c cs =>
      have hc : c ≠ '^' := by
        rw [hr] at hm
        simp only [noCaret, List.all_cons, Bool.and_eq_true, bne_iff_ne, ne_eq] at hm
        exact hm.1
      simp only [stepPiece, addRest, hr, List.cons_append, powerM_noCaret_head c _ hc]
      simp

theorem reMatch_pow (ps : List Piece) (hps : ∀ p ∈ ps, frontPiece p = true) (a w : Str)
    (ha : noCaret a = true) (hw : PowerText w) (hne : w ≠ []) :
    reMatch { pieces := ps ++ [.pow], endAnchor := true } (a ++ w) =
      (((matchPieces ps { rest := a }).filter fun m => m.rest.isEmpty).head?).map (withPow w) := by
  obtain ⟨w', rfl⟩ : ∃ w', w = '^' :: w' := by
    cases hw with
    | none => exact absurd rfl hne
    | pow sign d ds _ _ _ => exact ⟨_, rfl⟩
  have hstart : ({ rest := a ++ '^' :: w' } : M) = addRest ('^' :: w') { rest := a } := rfl
  unfold reMatch
  simp only [↓reduceIte]
  rw [hstart, matchPieces_append, matchPieces_lift w' ps hps]
  have hall : ∀ m ∈ matchPieces ps { rest := a }, noCaret m.rest = true :=
    fun m hm => matchPieces_noCaret ps hps { rest := a } m ha hm
  generalize matchPieces ps { rest := a } = L at hall
  rw [← List.head?_map]
  congr 1
  induction L with
  | nil => simp
  | cons m L ih =>
    have hm := hall m (by simp)
    have ihL := ih (fun x hx => hall x (by simp [hx]))
    simp only [List.map_cons, List.flatMap_cons, List.filter_append, matchPieces_single]
    rw [stepPow_filter ('^' :: w') hw hne m hm, ihL]
    by_cases he : m.rest.isEmpty = true
    · simp [he]
    · simp [he]

/-! ### tables over `prefix ++ unit` (closed by kernel evaluation, lifted by membership) -/

def pupRow (p u : Str) : Bool :=
  ((matchPieces [.pre, .unit] { rest := p ++ u }).filter fun m => m.rest.isEmpty).head? ==
    some { pre := some p, unit := some u, matched := p ++ u, rest := [] }

def pupNoneRow (u : Str) : Bool :=
  ((matchPieces [.pre, .unit] { rest := u }).filter fun m => m.rest.isEmpty).head? == none

def upRow (u : Str) : Bool :=
  ((matchPieces [.unit] { rest := u }).filter fun m => m.rest.isEmpty).head? ==
    some { unit := some u, matched := u, rest := [] }

theorem pupTable_true : (prefixes.all fun p => units.all fun u => pupRow p u) = true := by decide +kernel
theorem upTable_true : (units.all fun u => pupNoneRow u && upRow u) = true := by decide +kernel

theorem pupTable (p u : Str) (hp : p ∈ prefixes) (hu : u ∈ units) :
    ((matchPieces [.pre, .unit] { rest := p ++ u }).filter fun m => m.rest.isEmpty).head? =
      some { pre := some p, unit := some u, matched := p ++ u, rest := [] } := by
  have h := pupTable_true
  rw [List.all_eq_true] at h
  have h1 := h p hp
  rw [List.all_eq_true] at h1
  exact beq_iff_eq.mp (h1 u hu)

theorem upTable (u : Str) (hu : u ∈ units) :
    ((matchPieces [.pre, .unit] { rest := u }).filter fun m => m.rest.isEmpty).head? = none ∧
    ((matchPieces [.unit] { rest := u }).filter fun m => m.rest.isEmpty).head? =
      some { unit := some u, matched := u, rest := [] } := by
  have h := upTable_true
  rw [List.all_eq_true] at h
  have h1 := h u hu
  simp only [Bool.and_eq_true, pupNoneRow, upRow, beq_iff_eq] at h1
  exact h1

/-! ### split / is_atomic / is_si for every power text -/

theorem split_generic (p u w : Str) (hp : p ∈ optPrefixes) (hu : u ∈ units) (hw : PowerText w) :
    split (p ++ u ++ w) = (p, u, w.drop 1) := by
  by_cases hne : w = []
  · subst hne
    exact (atom_table p u [] hp hu (by simp [powerTexts])).2.2
  · have hpu : noCaret (p ++ u) = true := by
      rw [noCaret_append, optPrefixes_noCaret p hp, tables_noCaret.2 u hu]; rfl
    have hpup : pupShape = { pieces := [.pre, .unit] ++ [.pow], endAnchor := true } := rfl
    have hup : unitPowShape = { pieces := [.unit] ++ [.pow], endAnchor := true } := rfl
    unfold optPrefixes at hp
    rcases List.mem_cons.mp hp with rfl | hp
    · have h1 := reMatch_pow [.pre, .unit] (by decide) u w (tables_noCaret.2 u hu) hw hne
      have h2 := reMatch_pow [.unit] (by decide) u w (tables_noCaret.2 u hu) hw hne
      rw [(upTable u hu).1] at h1
      rw [(upTable u hu).2] at h2
      unfold split
      simp only [List.nil_append, hpup, hup, h1, h2, Option.map_none, Option.map_some]
      simp [withPow, optStr]
    · have h1 := reMatch_pow [.pre, .unit] (by decide) (p ++ u) w hpu hw hne
      rw [pupTable p u hp hu] at h1
      unfold split
      simp only [hpup, h1, Option.map_some]
      simp [withPow, optStr]

theorem step_optPow_generic (w : Str) (hw : PowerText w) (m : M) (x : Str) (h : m.rest = w ++ x) :
    ∃ m' ∈ stepPiece .optPow m, m'.rest = x := by
  cases hw with
  | none => exact ⟨m, by simp [stepPiece], by simpa using h⟩
  | pow sign d ds hs hd hds =>
    generalize hwf : '^' :: sign ++ d :: ds = wf at *
    refine ⟨{ m with pow := some wf, matched := m.matched ++ wf, rest := x }, ?_, rfl⟩
    simp only [stepPiece, List.mem_append, List.mem_map]
    left
    refine ⟨(wf, x), ?_, rfl⟩
    subst hwf
    rw [h]
    have := powerM_mem_generic sign d ds x hs hd hds
    simpa using this

/-- a table atom with any power text, followed by anything, is matched as a prefix by the
optional-prefix / unit / optional-power pattern, leaving exactly what follows -/
theorem atom_match_generic (p u w : Str) (hp : p ∈ optPrefixes) (hu : u ∈ units) (hw : PowerText w)
    (r : Str) : ∃ m ∈ matchPieces [.optPre, .unit, .optPow] { rest := p ++ u ++ w ++ r }, m.rest = r := by
  obtain ⟨m1, hm1, r1⟩ := step_optPre p hp { rest := p ++ u ++ w ++ r } (u ++ (w ++ r)) (by simp)
  obtain ⟨m2, hm2, r2⟩ := step_unit u hu m1 (w ++ r) r1
  obtain ⟨m3, hm3, r3⟩ := step_optPow_generic w hw m2 r r2
  refine ⟨m3, ?_, r3⟩
  simp only [matchPieces, List.mem_flatMap]
  exact ⟨m1, hm1, m2, hm2, m3, hm3, by simp⟩

theorem head?_filter_isSome {α : Type} (l : List α) (q : α → Bool) (x : α) (hx : x ∈ l) (hq : q x = true) :
    ((l.filter q).head?).isSome = true := by
  have : x ∈ l.filter q := List.mem_filter.mpr ⟨hx, hq⟩
  cases hl : l.filter q with
  | nil => rw [hl] at this; cases this
  | cons a t => rfl

theorem atomic_generic (p u w : Str) (hp : p ∈ optPrefixes) (hu : u ∈ units) (hw : PowerText w) :
    isAtomic (p ++ u ++ w) = true ∧ isSi (p ++ u ++ w) = true := by
  have hat : isAtomic (p ++ u ++ w) = true := by
    obtain ⟨m, hm, hr⟩ := atom_match_generic p u w hp hu hw []
    have hsh : atomicShape = { pieces := [.optPre, .unit, .optPow], endAnchor := true } := rfl
    unfold isAtomic reMatch
    rw [hsh]
    simp only [↓reduceIte]
    rw [List.append_nil] at hm
    exact head?_filter_isSome _ _ m hm (by simp [hr, atEnd])
  refine ⟨hat, ?_⟩
  have hne : (p ++ u ++ w).isEmpty = false := by
    have := units_ne_nil u hu
    cases u with
    | nil => exact absurd rfl this
    | cons c cs => cases p <;> simp
  unfold isSi
  rw [hne, hat]
  rfl

/-! ### the value of a power text -/

theorem pyInt_generic (sign : Str) (d : Char) (ds : Str) (hs : sign = [] ∨ sign = ['+'] ∨ sign = ['-'])
    (hd : isDigit19 d = true) (hds : ds.all isDigit = true) :
    pyInt (sign ++ d :: ds) =
      some (if sign = ['-'] then -(natOfDigits (d :: ds) : Int) else (natOfDigits (d :: ds) : Int)) := by
  obtain ⟨h1, h2, _⟩ := digit19_not_sign d hd
  have hall : (d :: ds).all isDigit = true := by
    simp [List.all_cons, isDigit19_isDigit d hd, hds]
  have hall' : ∀ x ∈ d :: ds, isDigit x = true := by
    simpa [List.all_eq_true] using hall
  have hd' := isDigit19_isDigit d hd
  have hds' : ∀ x ∈ ds, isDigit x = true := by simpa [List.all_eq_true] using hds
  rcases hs with rfl | rfl | rfl
  · simp [pyInt, h1, h2, hd']
    exact hds'
  · simp [pyInt, hd']
    exact hds'
  · simp [pyInt, hd']
    exact hds'

theorem powerText_cases (w : Str) (hw : PowerText w) :
    (((w.drop 1).isEmpty = true ∧ powVal w = 1) ∨
     ((w.drop 1).isEmpty = false ∧ pyInt (w.drop 1) = some (powVal w))) := by
  cases hw with
  | none => left; simp [powVal]
  | pow sign d ds hs hd hds =>
    right
    have h := pyInt_generic sign d ds hs hd hds
    refine ⟨by cases sign <;> simp, ?_⟩
    simp only [powVal, List.cons_append, List.drop_succ_cons, List.drop_zero, List.isEmpty_cons,
      Bool.false_eq_true, ↓reduceIte, h]

/-- the value of a power text: the (signed) decimal number it spells, never 0 -/
theorem powVal_generic (sign : Str) (d : Char) (ds : Str) (hs : sign = [] ∨ sign = ['+'] ∨ sign = ['-'])
    (hd : isDigit19 d = true) (hds : ds.all isDigit = true) :
    powVal ('^' :: sign ++ d :: ds) =
      (if sign = ['-'] then -(natOfDigits (d :: ds) : Int) else (natOfDigits (d :: ds) : Int)) := by
  have h := pyInt_generic sign d ds hs hd hds
  simp only [powVal, List.cons_append, List.drop_succ_cons, List.drop_zero, List.isEmpty_cons,
    Bool.false_eq_true, ↓reduceIte, h]

theorem natOfDigits_foldl_ge (ds : Str) : ∀ acc : Nat,
    acc ≤ ds.foldl (fun acc c => acc * 10 + digitVal c) acc := by
  induction ds with
  | nil => intro acc; exact Nat.le_refl _
  | cons c cs ih =>
    intro acc
    simp only [List.foldl_cons]
    exact Nat.le_trans (by omega) (ih _)

theorem natOfDigits_pos (d : Char) (ds : Str) (hd : isDigit19 d = true) : 0 < natOfDigits (d :: ds) := by
  have h1 : 1 ≤ digitVal d := by
    simp only [isDigit19, Bool.and_eq_true, decide_eq_true_eq] at hd
    have : '1'.toNat ≤ d.toNat := hd.1
    simp only [digitVal]
    have h49 : '1'.toNat = 49 := by decide
    have h48 : '0'.toNat = 48 := by decide
    omega
  simp only [natOfDigits, List.foldl_cons, Nat.zero_mul, Nat.zero_add]
  exact Nat.lt_of_lt_of_le h1 (natOfDigits_foldl_ge ds _)

/-! ### scaling for every power text -/

theorem scaling_atoms_generic (p₁ p₂ u w : Str) (h₁ : p₁ ∈ optPrefixes) (h₂ : p₂ ∈ optPrefixes)
    (hu : u ∈ units) (hw : PowerText w) :
    scalable (p₁ ++ u ++ w) (p₂ ++ u ++ w) = true ∧
    scaling (p₁ ++ u ++ w) (p₂ ++ u ++ w) = .ok (tenPow (expOf p₁ - expOf p₂) ^ powVal w) := by
  obtain ⟨_, si1⟩ := atomic_generic p₁ u w h₁ hu hw
  obtain ⟨_, si2⟩ := atomic_generic p₂ u w h₂ hu hw
  have sp1 := split_generic p₁ u w h₁ hu hw
  have sp2 := split_generic p₂ u w h₂ hu hw
  have hs : scalable (p₁ ++ u ++ w) (p₂ ++ u ++ w) = true := by
    unfold scalable
    simp only [si1, si2, sp1, sp2]
    simp
  refine ⟨hs, ?_⟩
  unfold scaling
  simp only [hs, Bool.not_true, Bool.false_eq_true, ↓reduceIte, sp1, sp2]
  exact scalingCore_eq p₁ p₂ (w.drop 1) h₁ h₂ (powVal w) (powerText_cases w hw)

theorem not_scalable_atoms_generic (p₁ p₂ u₁ u₂ w₁ w₂ : Str) (h₁ : p₁ ∈ optPrefixes) (h₂ : p₂ ∈ optPrefixes)
    (hu₁ : u₁ ∈ units) (hu₂ : u₂ ∈ units) (hw₁ : PowerText w₁) (hw₂ : PowerText w₂)
    (hne : u₁ ≠ u₂ ∨ w₁.drop 1 ≠ w₂.drop 1) :
    scalable (p₁ ++ u₁ ++ w₁) (p₂ ++ u₂ ++ w₂) = false ∧
    scaling (p₁ ++ u₁ ++ w₁) (p₂ ++ u₂ ++ w₂) = .error .invalidUnit := by
  obtain ⟨_, si1⟩ := atomic_generic p₁ u₁ w₁ h₁ hu₁ hw₁
  obtain ⟨_, si2⟩ := atomic_generic p₂ u₂ w₂ h₂ hu₂ hw₂
  have sp1 := split_generic p₁ u₁ w₁ h₁ hu₁ hw₁
  have sp2 := split_generic p₂ u₂ w₂ h₂ hu₂ hw₂
  have hs : scalable (p₁ ++ u₁ ++ w₁) (p₂ ++ u₂ ++ w₂) = false := by
    unfold scalable
    simp only [si1, si2, sp1, sp2]
    rcases hne with h | h
    · simp [h]
    · have h' : ¬ List.tail w₁ = List.tail w₂ := by simpa using h
      simp [h']
  refine ⟨hs, ?_⟩
  unfold scaling
  simp only [hs]
  simp

end Nix.Units.Lemmas
