import NixModel.Pure.TagLookup
import Mathlib.Tactic.Linarith

/-!
Lemmas for C08, part 4: addressing a reference / feature by index, id or name (`Pure/TagLookup.lean`).
-/
namespace Nix.Tagging
open Nix Nix.Dim Nix.DataView Nix.Units

/-! ## `Container.__getitem__(int)` -/

theorem posOf_nat (n i : Nat) (h : i < n) : posOf n (i : Int) = .ok i := by
  unfold posOf
  simp only []
  split_ifs <;> first | omega | simp

/-- index `-(k+1)` is the item `k` places before the end -/
theorem posOf_neg (n k : Nat) (h : k < n) : posOf n (-((k : Int) + 1)) = .ok (n - 1 - k) := by
  unfold posOf
  simp only []
  split_ifs <;> first | omega | (congr 1; omega)

theorem posOf_beyond (n : Nat) (i : Int) (h : (n : Int) ≤ i) : posOf n i = .error .indexError := by
  unfold posOf
  simp only []
  split_ifs <;> first | omega | rfl

theorem posOf_before (n : Nat) (i : Int) (h : i < -(n : Int)) : posOf n i = .error .indexError := by
  unfold posOf
  simp only []
  split_ifs <;> first | omega | rfl

/-- `posOf` answers an index of the container or `IndexError`, nothing else -/
theorem posOf_spec (n : Nat) (i : Int) :
    match posOf n i with
    | .ok k => k < n ∧ ((0 ≤ i ∧ i = (k : Int)) ∨ (i < 0 ∧ (n : Int) + i = (k : Int)))
    | .error e => e = .indexError ∧ (i ≥ (n : Int) ∨ i < -(n : Int)) := by
  unfold posOf
  simp only []
  split_ifs with h1 h2 h2
  · exact ⟨rfl, by omega⟩
  · exact ⟨by omega, Or.inr ⟨h1, by omega⟩⟩
  · exact ⟨rfl, by omega⟩
  · exact ⟨by omega, Or.inl ⟨by omega, by omega⟩⟩

/-! ## first match of a key that no two entries share -/

theorem findIdx?_of_distinct {α : Type} (l : List α) (f : α → Str)
    (hd : l.Pairwise (fun a b => f a ≠ f b)) (i : Nat) (x : α) (hx : l[i]? = some x) :
    l.findIdx? (fun r => f r == f x) = some i := by
  obtain ⟨hi, hxi⟩ := List.getElem?_eq_some_iff.mp hx
  rw [List.findIdx?_eq_some_iff_getElem]
  refine ⟨hi, by simp [hxi], ?_⟩
  intro j hji
  have := (List.pairwise_iff_getElem.mp hd) j i (by omega) hi hji
  rw [hxi] at this
  simpa using this

/-- predicates that agree on the members of a list have the same first match -/
theorem findIdx?_congr_mem {α : Type} (l : List α) (p q : α → Bool) (h : ∀ x, x ∈ l → p x = q x) :
    l.findIdx? p = l.findIdx? q := by
  induction l with
  | nil => rfl
  | cons x xs ih =>
    have hx : p x = q x := h x (by simp)
    have ih' := ih (fun y hy => h y (by simp [hy]))
    simp only [List.findIdx?_cons, hx, ih']

/-- a first match is an index of the list -/
theorem findIdx?_lt {α : Type} (l : List α) (p : α → Bool) (k : Nat) (h : l.findIdx? p = some k) : k < l.length := by
  obtain ⟨hk, _⟩ := List.findIdx?_eq_some_iff_getElem.mp h
  exact hk

/-- every `ok` answer of the two lookups is an index of the list -/
theorem refLookup_lt (refs : List RefEnt) (key : Key) (k : Nat) (h : refLookup refs key = .ok k) :
    k < refs.length := by
  cases key with
  | idx i =>
    have := posOf_spec refs.length i
    simp only [refLookup] at h
    rw [h] at this
    exact this.1
  | text s uuid =>
    simp only [refLookup] at h
    split at h
    · rename_i k' hk'
      cases uuid with
      | false => simp at hk'
      | true =>
        simp only [if_true] at hk'
        cases h
        exact findIdx?_lt _ _ _ hk'
    · split at h
      · rename_i k' hk'
        cases h
        exact findIdx?_lt _ _ _ hk'
      · cases h
  | other => simp [refLookup] at h

theorem featLookup_lt (feats : List FeatEnt) (key : Key) (k : Nat) (h : featLookup feats key = .ok k) :
    k < feats.length := by
  cases key with
  | idx i =>
    have := posOf_spec feats.length i
    simp only [featLookup] at h
    rw [h] at this
    exact this.1
  | text s uuid =>
    simp only [featLookup] at h
    split at h
    · rename_i k' hk'
      cases h
      exact findIdx?_lt _ _ _ hk'
    · split at h
      · rename_i k' hk'
        cases h
        exact findIdx?_lt _ _ _ hk'
      · cases h
  | other => simp [featLookup] at h

end Nix.Tagging
