import NixModel.Lemmas.C20Spec

/-!
# C20 — the result of a shallow section copy (`copy_section(children=False)`) after the re-adding loop

`fileOk_copyGeneric`: the file is still `FileOk` after any copy (deep or shallow), so copies compose.
`copyProperty_step`: one `create_property(copy_from=prop)` appends exactly one entry to the
`properties` group of the section and changes no attribute of an existing node.
`readdProps_result`: the loop of `copy_section(children=False)`.
-/
namespace Nix.Store.C20
open Nix.Store Nix.Store.Graph Nix.Store.Lemmas

theorem copySet_closed (src : Graph) (obj : Nat) (shallow : Bool) {k : Nat} (hk : k ∈ copySet src obj shallow)
    (hne : (emptiedSet src obj shallow).contains k = false) {l : String × Nat} (hl : l ∈ src.links k) :
    l.2 ∈ copySet src obj shallow := by
  cases shallow
  · exact reachFrom_closed src obj hk hl
  · unfold copySet emptiedSet at *
    simp only [↓reduceIte, List.mem_eraseDups, List.mem_cons, List.mem_map] at hk ⊢
    simp only [↓reduceIte, List.contains_eq_mem, List.mem_filter, List.mem_map, bne_iff_ne, ne_eq,
      decide_eq_false_iff_not, not_and, Decidable.not_not] at hne
    have hko : k = obj := by
      rcases hk with h | ⟨l0, hl0, e⟩
      · exact h
      · exact hne ⟨l0, hl0, e⟩
    subst hko
    exact .inr ⟨l, hl, rfl⟩

/-- after any copy the file is still well-formed in the sense the theorems need -/
theorem fileOk_copyGeneric {src dst : Graph} {owner obj : Nat} {cls name : String} {shallow keepId : Bool}
    {g' : Graph} {root : Nat} (hdst : FileOk dst) (ho : owner ∈ keys dst)
    (hc : copyGeneric src dst owner cls obj name shallow keepId = .ok (g', root)) : FileOk g' := by
  obtain ⟨_, hg, _⟩ := copyGeneric_ok hc
  have hd := destOk_dest hdst owner cls
  have hfo : FileOk (destG dst owner cls) := fileOk_ensureGroup hdst cls ho
  have hself : obj ∈ copySet src obj shallow := by
    unfold copySet
    cases shallow
    · exact reachFrom_self src obj
    · simp only [↓reduceIte]; rw [List.mem_eraseDups]; exact List.mem_cons_self
  have hkeys : ∀ k, k ∈ keys g' ↔ k ∈ keys (destG dst owner cls) ∨
      ∃ k0 ∈ copySet src obj shallow, k = mapKey (keyMap (copySet src obj shallow) (destG dst owner cls).nextKey) k0 := by
    intro k
    rw [hg, core_keys, List.mem_append, List.mem_map]
    constructor
    · rintro (h | ⟨k0, h0, e⟩)
      · exact .inl h
      · exact .inr ⟨k0, h0, e.symm⟩
    · rintro (h | ⟨k0, h0, e⟩)
      · exact .inl h
      · exact .inr ⟨k0, h0, e.symm⟩
  have hnk : g'.nextKey = (destG dst owner cls).nextKey + (copySet src obj shallow).length := by
    rw [hg, core_nextKey]
  refine ⟨?_, ?_⟩
  · intro k hk
    rcases (hkeys k).mp hk with h | ⟨k0, h0, e⟩
    · have := hd.lt k h; omega
    · have := (mapKey_range (destG dst owner cls).nextKey h0).2
      rw [e]; omega
  · intro k l hl
    by_cases hk : k < (destG dst owner cls).nextKey
    · rw [hg, core_links_old hd hk] at hl
      have hold : ∀ l ∈ (destG dst owner cls).links k, l.2 ∈ keys g' :=
        fun l hl => (hkeys l.2).mpr (.inl (hfo.target k l hl))
      split at hl
      · rename_i hkc
        rcases List.mem_append.mp hl with h | h
        · exact hold l (hkc ▸ h)
        · simp only [List.mem_singleton] at h
          rw [h]
          exact (hkeys _).mpr (.inr ⟨obj, hself, rfl⟩)
      · exact hold l hl
    · have hin : k ∈ keys g' := (node?_isSome_iff g' k).mp (node?_isSome_of_link hl)
      rcases (hkeys k).mp hin with h | ⟨k0, h0, e⟩
      · exact absurd (hd.lt k h) hk
      · rw [e, hg, core_links_new hd h0] at hl
        split at hl
        · cases hl
        · rename_i hne
          obtain ⟨l0, hl0, e'⟩ := List.mem_map.mp hl
          rw [← e']
          exact (hkeys _).mpr (.inr ⟨l0.2, copySet_closed src obj shallow h0 (by simpa using hne) hl0, rfl⟩)

/-- `child?` survives appending links -/
theorem child?_of_links_prefix {g g' : Graph} {k c : Nat} {n : String} {extra : List (String × Nat)}
    (hl : g'.links k = g.links k ++ extra) (h : g.child? k n = some c) : g'.child? k n = some c := by
  rw [child?_eq] at h ⊢
  rw [hl, List.find?_append]
  cases hf : (g.links k).find? (fun l => l.1 == n) with
  | none => rw [hf] at h; cases h
  | some x => rw [hf] at h; simpa using h

/-- the entries of the container group after it was opened are the entries it had (none if it is new) -/
theorem links_ensured {g : Graph} (hg : FileOk g) {p : Nat} (n : String) (hp : p ∈ keys g) :
    (g.ensureGroup p n).1.links (g.ensureGroup p n).2 =
      match g.child? p n with | some c => g.links c | none => [] := by
  cases hc : g.child? p n with
  | some c => rw [ensureGroup_of_some hc]
  | none =>
    rw [ensureGroup_of_none hc]
    have hne : g.nextKey ≠ p := by have := hg.lt p hp; omega
    rw [links_addLink_ne _ _ _ hne, links_newNode]
    apply links_of_node?_none
    rw [node?_eq_none_iff]
    intro hin; have := hg.lt _ hin; omega

/-- a copied Property as seen in graph `d`: entry `l` of the section's `properties` group stands for the
source Property `p` — linked under its name, `name` attribute set, every other attribute equal
(`entity_id` too when ids are kept) -/
def PropCopied (src : Graph) (keepId : Bool) (d : Graph) (l : String × Nat) (p : String × Nat) : Prop :=
  l.1 = effName src p.2 "" ∧ d.getAttr l.2 "name" = some l.1 ∧
  ∀ a, (a ≠ "entity_id" ∨ keepId = true) → a ≠ "name" → d.getAttr l.2 a = src.getAttr p.2 a

/-- one `Section.create_property(copy_from=prop)` into section `root` -/
theorem copyProperty_step {src d d' : Graph} {root p : Nat} {keepId : Bool} (hd : FileOk d) (hroot : root ∈ keys d)
    (hsec : kindOf d root = "section") (hp : kindOf src p = "property")
    (hc : copyProperty src d root p "" keepId = .ok d') :
    FileOk d' ∧ root ∈ keys d' ∧ kindOf d' root = "section" ∧
    (∀ k, k < d.nextKey → ∀ a, d'.getAttr k a = d.getAttr k a) ∧
    ∃ r, propsOf d' root = propsOf d root ++ [(effName src p "", r)] ∧
      PropCopied src keepId d' (effName src p "", r) ("", p) := by
  rw [copyProperty_generic src d root p "" keepId hsec hp hroot] at hc
  cases hcg : copyGeneric src d root "properties" p "" false keepId with
  | error e => rw [hcg] at hc; cases hc
  | ok res =>
    obtain ⟨d1, r⟩ := res
    rw [hcg] at hc
    simp only [Except.map, Except.ok.injEq] at hc
    subst hc
    obtain ⟨_, hg, hr⟩ := copyGeneric_ok hcg
    have hdo := destOk_dest hd root "properties"
    have hself : p ∈ copySet src p false := reachFrom_self src p
    have hold : ∀ k, k < d.nextKey → ∀ a, d1.getAttr k a = d.getAttr k a := by
      intro k hk a
      have hk' : k < (destG d root "properties").nextKey := Nat.lt_of_lt_of_le hk (nextKey_le_ensureGroup d root _)
      rw [hg, core_getAttr_old hself hk' a]
      exact getAttr_ensureGroup d root "properties" k a
    have hrootlt : root < (destG d root "properties").nextKey :=
      Nat.lt_of_lt_of_le (hd.lt root hroot) (nextKey_le_ensureGroup d root _)
    have hfo := fileOk_copyGeneric hd hroot hcg
    refine ⟨hfo, ?_, ?_, hold, r, ?_, ?_⟩
    · rw [hg, core_keys]
      apply List.mem_append_left
      unfold destG; rw [keys_ensureGroup]; split
      · exact List.mem_append_left _ hroot
      · exact hroot
    · rw [kindOf_eq, hold root (hd.lt root hroot), ← kindOf_eq]; exact hsec
    · -- the properties group of `root` in the result
      have hch0 : (destG d root "properties").child? root "properties" = some (destC d root "properties") :=
        child?_ensureGroup d "properties" ((node?_isSome_iff d root).mpr hroot)
      have hlroot : ∃ extra, d1.links root = (destG d root "properties").links root ++ extra := by
        rw [hg, core_links_old hdo hrootlt]
        split
        · exact ⟨_, by rename_i h; rw [← h]⟩
        · exact ⟨[], by simp⟩
      obtain ⟨extra, hextra⟩ := hlroot
      have hch1 : d1.child? root "properties" = some (destC d root "properties") :=
        child?_of_links_prefix hextra hch0
      have hc_lt : destC d root "properties" < (destG d root "properties").nextKey := hdo.lt _ hdo.c_mem
      unfold propsOf
      rw [hch1]
      simp only
      rw [hg, core_links_old hdo hc_lt, if_pos rfl, ← hr]
      congr 1
      unfold destG destC
      rw [links_ensured hd "properties" hroot]
      cases d.child? root "properties" <;> rfl
    · refine ⟨rfl, ?_, ?_⟩
      · show d1.getAttr r "name" = some (effName src p "")
        rw [hr, hg, core_getAttr_new hdo hself hself "name" (.inl (by decide)), if_pos ⟨rfl, rfl⟩]
      · intro a ha hna
        show d1.getAttr r a = src.getAttr p a
        rw [hr, hg, core_getAttr_new hdo hself hself a ha, if_neg (fun h => hna h.2)]

/-- two lists of equal length whose elements are related pairwise, in order -/
inductive Pairwise₂ {α β : Type} (R : α → β → Prop) : List α → List β → Prop
  | nil : Pairwise₂ R [] []
  | cons {a : α} {b : β} {l1 : List α} {l2 : List β} : R a b → Pairwise₂ R l1 l2 → Pairwise₂ R (a :: l1) (b :: l2)

theorem Pairwise₂.length_eq {α β : Type} {R : α → β → Prop} : ∀ {l1 : List α} {l2 : List β},
    Pairwise₂ R l1 l2 → l1.length = l2.length
  | _, _, .nil => rfl
  | _, _, .cons _ t => by simp [t.length_eq]

theorem forall₂_snoc {α β : Type} {R : α → β → Prop} : ∀ {l1 : List α} {l2 : List β} {a : α} {b : β},
    Pairwise₂ R l1 l2 → R a b → Pairwise₂ R (l1 ++ [a]) (l2 ++ [b])
  | _, _, _, _, .nil, h => .cons h .nil
  | _, _, _, _, .cons h t, h' => .cons h (forall₂_snoc t h')

theorem forall₂_imp_mem {α β : Type} {R S : α → β → Prop} : ∀ {l1 : List α} {l2 : List β},
    (∀ a b, a ∈ l1 → R a b → S a b) → Pairwise₂ R l1 l2 → Pairwise₂ S l1 l2
  | _, _, _, .nil => .nil
  | _, _, hi, .cons h t =>
    .cons (hi _ _ List.mem_cons_self h) (forall₂_imp_mem (fun a b ha => hi a b (List.mem_cons_of_mem _ ha)) t)

theorem propsOf_lt {d : Graph} (hd : FileOk d) {root : Nat} {l : String × Nat} (hl : l ∈ propsOf d root) :
    l.2 < d.nextKey := by
  unfold propsOf at hl
  split at hl
  · rename_i c _
    exact hd.lt _ (hd.target c l hl)
  · cases hl

/-- **the re-adding loop** of `copy_section(children=False)`: starting from a section `root` whose
entries stand for the source Properties `done`, re-adding `ps` yields entries for `done ++ ps`, in
order; attributes of the nodes that existed before are unchanged -/
theorem readdProps_result {src : Graph} {root : Nat} {keepId : Bool} :
    ∀ (ps : List (String × Nat)) (d d'' : Graph) (done : List (String × Nat)),
      FileOk d → root ∈ keys d → kindOf d root = "section" → (∀ p ∈ ps, kindOf src p.2 = "property") →
      Pairwise₂ (PropCopied src keepId d) (propsOf d root) done →
      readdProps src keepId ps d root = .ok d'' →
      Pairwise₂ (PropCopied src keepId d'') (propsOf d'' root) (done ++ ps) ∧ FileOk d'' ∧
      (∀ k, k < d.nextKey → ∀ a, d''.getAttr k a = d.getAttr k a) ∧ d.nextKey ≤ d''.nextKey := by
  intro ps
  induction ps with
  | nil =>
    intro d d'' done hd _ _ _ hdone hrun
    simp only [readdProps, Except.ok.injEq] at hrun
    subst hrun
    exact ⟨by simpa using hdone, hd, fun _ _ _ => rfl, Nat.le_refl _⟩
  | cons p ps ih =>
    intro d d'' done hd hroot hsec hps hdone hrun
    unfold readdProps at hrun
    cases hcp : copyProperty src d root p.2 "" keepId with
    | error e => rw [hcp] at hrun; cases hrun
    | ok d' =>
      rw [hcp] at hrun
      simp only at hrun
      obtain ⟨hfo', hroot', hsec', hold, r, hprops, hnew⟩ :=
        copyProperty_step hd hroot hsec (hps p List.mem_cons_self) hcp
      have hnk : d.nextKey ≤ d'.nextKey := by
        -- the root exists in both; use a node of `d`: nextKey never decreases under copyGeneric
        rw [copyProperty_generic src d root p.2 "" keepId hsec (hps p List.mem_cons_self) hroot] at hcp
        cases hcg : copyGeneric src d root "properties" p.2 "" false keepId with
        | error e => rw [hcg] at hcp; cases hcp
        | ok res =>
          obtain ⟨d1, r1⟩ := res
          rw [hcg] at hcp
          simp only [Except.map, Except.ok.injEq] at hcp
          subst hcp
          obtain ⟨_, hg, _⟩ := copyGeneric_ok hcg
          rw [hg, core_nextKey]
          have := nextKey_le_ensureGroup d root "properties"
          unfold destG; omega
      have hdone' : Pairwise₂ (PropCopied src keepId d') (propsOf d' root) (done ++ [p]) := by
        rw [hprops]
        refine forall₂_snoc (forall₂_imp_mem ?_ hdone) ?_
        · intro l q hl hR
          have hlt := propsOf_lt hd hl
          exact ⟨hR.1, by rw [hold _ hlt]; exact hR.2.1, fun a ha hna => by rw [hold _ hlt]; exact hR.2.2 a ha hna⟩
        · exact hnew
      obtain ⟨h1, h2, h3, h4⟩ := ih d' d'' (done ++ [p]) hfo' hroot' hsec'
        (fun q hq => hps q (List.mem_cons_of_mem _ hq)) hdone' hrun
      refine ⟨by simpa using h1, h2, ?_, Nat.le_trans hnk h4⟩
      intro k hk a
      rw [h3 k (Nat.lt_of_lt_of_le hk hnk) a, hold k hk a]

end Nix.Store.C20
