import NixModel.Lemmas.C07Round

/-!
Helper lemmas for C07: `SeparatedAt` (stated over *all* samples) follows from the condition on the two
neighbouring samples wherever the band is below half a sample — so the hypothesis of the
sampled / set theorems is exactly "on a sample, or outside the band of the sample below and of the
sample above".
-/
namespace Nix.Dim.Lemmas
open Nix Nix.Dim Nix.Dim.Gen

theorem separated_of_neighbours (t : Tol) (hr : 0 ≤ t.rtol) (ha : 0 ≤ t.atol) (x : Rat) (h0 : 0 ≤ x)
    (hb : band t (x + 2) < 1 / 2)
    (h : x = (⌊x⌋ : Rat) ∨
      (band t (⌊x⌋ : Rat) < x - (⌊x⌋ : Rat) ∧ band t ((⌊x⌋ : Rat) + 1) < (⌊x⌋ : Rat) + 1 - x)) :
    SeparatedAt t x := by
  obtain ⟨m, hfl, hm1, hm2⟩ := floor_nat x h0
  have hflr : (⌊x⌋ : Rat) = (m : Rat) := by rw [hfl]; push_cast; rfl
  rw [hflr] at h
  rw [band_eq, abs_of_nonneg (by linarith)] at hb
  have hmn : (0 : Rat) ≤ (m : Rat) := Nat.cast_nonneg m
  have hrx : 0 ≤ t.rtol * x := mul_nonneg hr h0
  have hr4 : t.rtol < 1 / 4 := by nlinarith
  have ha2 : t.atol < 1 / 2 := by nlinarith
  intro k
  rw [band_eq, absR_eq]
  rcases lt_trichotomy k (m : Int) with hk | hk | hk
  · -- a sample below the floor
    right
    have hk' : (k : Rat) ≤ (m : Rat) - 1 := by
      have : k ≤ (m : Int) - 1 := by omega
      have : (k : Rat) ≤ (((m : Int) - 1 : Int) : Rat) := by exact_mod_cast this
      push_cast at this; exact this
    have hd : |x - (k : Rat)| = x - k := abs_of_nonneg (by linarith)
    rw [hd]
    rcases le_or_gt 0 (k : Rat) with hk0 | hk0
    · rw [abs_of_nonneg hk0]
      have : t.rtol * (k : Rat) ≤ t.rtol * (x + 2) := mul_le_mul_of_nonneg_left (by linarith) hr
      nlinarith
    · rw [abs_of_neg hk0]
      have hk1 : (k : Rat) ≤ -1 := by
        have : k < 0 := by exact_mod_cast hk0
        have : k ≤ -1 := by omega
        exact_mod_cast this
      have : t.rtol * (-(k : Rat)) ≤ (1 / 4) * (-(k : Rat)) :=
        mul_le_mul_of_nonneg_right (le_of_lt hr4) (by linarith)
      nlinarith
  · -- the floor itself
    subst hk
    have hkc : (((m : Int)) : Rat) = (m : Rat) := by push_cast; rfl
    rw [hkc]
    rcases h with h | ⟨h, _⟩
    · left; exact h
    · right
      rw [band_eq] at h
      rw [abs_of_nonneg (by linarith : (0 : Rat) ≤ x - m)]
      exact h
  · rcases eq_or_lt_of_le (show (m : Int) + 1 ≤ k by omega) with hk1 | hk1
    · -- the sample above
      right
      have hkc : (k : Rat) = (m : Rat) + 1 := by rw [← hk1]; push_cast; rfl
      rw [hkc]
      have hd : |x - ((m : Rat) + 1)| = (m : Rat) + 1 - x := by
        rw [abs_of_nonpos (by linarith)]; ring
      rw [hd]
      rcases h with h | ⟨_, h⟩
      · rw [abs_of_nonneg (by linarith)]
        have : t.rtol * ((m : Rat) + 1) ≤ t.rtol * (x + 2) := mul_le_mul_of_nonneg_left (by linarith) hr
        nlinarith
      · rw [band_eq] at h; exact h
    · -- samples further above
      right
      have hk' : (m : Rat) + 2 ≤ (k : Rat) := by
        have : (m : Int) + 2 ≤ k := by omega
        have : (((m : Int) + 2 : Int) : Rat) ≤ (k : Rat) := by exact_mod_cast this
        push_cast at this; exact this
      have hd : |x - (k : Rat)| = k - x := by
        rw [abs_of_nonpos (by linarith)]; ring
      rw [hd, abs_of_nonneg (by linarith)]
      -- k = x + d with d > 1: atol + rtol (x + d) = [atol + rtol (x + 2)] + rtol (d - 2)
      rcases le_or_gt (x + 2) (k : Rat) with hd2 | hd2
      · have : t.rtol * ((k : Rat) - (x + 2)) ≤ (1 / 4) * ((k : Rat) - (x + 2)) :=
          mul_le_mul_of_nonneg_right (le_of_lt hr4) (by linarith)
        nlinarith
      · have : t.rtol * (k : Rat) ≤ t.rtol * (x + 2) := mul_le_mul_of_nonneg_left (le_of_lt hd2) hr
        nlinarith

theorem gen_band_limit_rat (x : Rat) (h0 : 0 ≤ x) (hx : x ≤ 100000000002) :
    band sampledZeroTol x < 1 / 2 ∧ band sampledHitTol x < 1 / 2 ∧ band setHitTol x < 1 / 2 := by
  rw [band_eq, band_eq, band_eq, abs_of_nonneg h0]
  unfold sampledZeroTol sampledHitTol setHitTol
  refine ⟨?_, ?_, ?_⟩ <;> norm_num <;> linarith

end Nix.Dim.Lemmas
