import NixModel.Lemmas.C20Shape
import NixModel.Lemmas.StoreWFInv
import NixModel.Store.CopyHandle

/-!
# C20 — which object an entry point copies, given the handle it was called with

`sourceOf` (`Store/CopyHandle.lean`) for the two ways the source names the source of the HDF5 copy:
the object of the handle (`SrcAddr.object`) is found for every handle; a path below the handle's parent
(`SrcAddr.parentPath`) finds the handle's object when the parent owns it (`Owned`), which is so for the
entries of every owning container of a file built through the API (`owned_of_wf`), and finds nothing or
*another* object otherwise (`pathDemo`).
-/
namespace Nix.Store.C20
open Nix.Store Nix.Store.Graph Nix.Store.Lemmas Nix.Store.CopyShape

theorem sourceOf_object (g : Graph) (cls : String) (h : Handle) : sourceOf .object g cls h = some h.obj := rfl

theorem sourceOf_path_owned {g : Graph} {cls : String} {h : Handle} (ho : Owned g cls h) :
    sourceOf .parentPath g cls h = some h.obj := by
  obtain ⟨p, c, hp, hc, hn⟩ := ho
  unfold sourceOf
  simp only [hp, hc, hn]

theorem sourceOf_owned (a : SrcAddr) {g : Graph} {cls : String} {h : Handle} (ho : Owned g cls h) :
    sourceOf a g cls h = some h.obj := by
  cases a
  · rfl
  · exact sourceOf_path_owned ho

/-- in a well-formed file (`WF`: every file the API builds) the owner of an owning container owns each of
its entries: the entry is linked under the entity's `name`, and link names are unique -/
theorem owned_of_wf {g : Graph} (hw : WF g) {p c : Nat} {cls : String} {info : CInfo}
    (hi : containerInfo (okind g p) cls = some info) (hpl : isPlainLike info.flavour = true)
    (hc : g.child? p cls = some c) {l : String × Nat} (hl : l ∈ g.links c) :
    Owned g cls ⟨l.2, some p⟩ := by
  refine ⟨p, c, rfl, hc, ?_⟩
  obtain ⟨_, _, hnm⟩ := hw.typing p cls info c hi hc l hl
  rw [if_pos hpl] at hnm
  show g.child? c ((g.getAttr l.2 "name").getD "") = some l.2
  rw [hnm]
  exact child?_of_mem_nodup (hw.names_nodup c) (by cases l; exact hl)

theorem ite_ite_same {α : Type} (c : Prop) [Decidable c] (a b : α) :
    (if c then a else if c then a else b) = if c then a else b := by
  by_cases h : c <;> simp [h]

/-- `callerAt` copying the handle's own object is `callerBy` -/
theorem callerAt_same (h5 : H5CopyShape) (sh : CallerShape) (src dst : Graph) (owner obj : Nat) (name : String)
    (children keepId : Bool) :
    callerAt h5 sh src dst owner obj obj name children keepId =
      callerBy h5 sh src dst owner obj name children keepId := rfl

/-- an entry point called with a handle whose source resolves to the handle's own object is the entry
point on that object -/
theorem callerByHandle_of_source (h5 : H5CopyShape) (sh : CallerShape) (src dst : Graph) (owner : Nat) (h : Handle)
    (name : String) (children keepId : Bool) (hs : sourceOf sh.srcAddr src sh.cls h = some h.obj) :
    callerByHandle h5 sh src dst owner h name children keepId =
      callerBy h5 sh src dst owner h.obj name children keepId := by
  unfold callerByHandle
  rw [hs]
  simp only [callerAt_same]
  unfold callerBy
  by_cases hK : (kindOf src h.obj != sh.srcKind) = true
  · simp only [hK, ↓reduceIte]
  · simp only [hK, Bool.false_eq_true, ↓reduceIte]
    exact ite_ite_same _ _ _

/-! ## a path-addressed source depends on the handle -/

/-- a section `s` (key 1) with the subsection `t` (key 3, named `x`); a second section `u` (key 4) with its
own subsection (key 6) that is *also* named `x`, and `u.link = t` -/
def pathDemo : Graph :=
  { nodes := [(0, { links := [("metadata", 7)] }),
              (7, { links := [("s", 1), ("u", 4)] }),
              (1, { attrs := [("name", "s"), ("~kind", "section")], links := [("sections", 2)] }),
              (2, { links := [("x", 3)] }),
              (3, { attrs := [("name", "x"), ("~kind", "section"), ("definition", "the linked one")] }),
              (4, { attrs := [("name", "u"), ("~kind", "section")], links := [("sections", 5), ("link", 3)] }),
              (5, { links := [("x", 6)] }),
              (6, { attrs := [("name", "x"), ("~kind", "section"), ("definition", "another one")] })],
    nextKey := 8 }

/-- the handle of `t` fetched from its owning container (`s.sections["x"]`) -/
def ownedHandle : Handle := ⟨3, some 1⟩
/-- the handle of the same `t` fetched as `u.link`: `Section(file, u, …)` -/
def linkHandle : Handle := ⟨3, some 4⟩
/-- the handle of the same `t` fetched as `x.metadata`: `Section(file, None, …)` -/
def metadataHandle : Handle := ⟨3, none⟩

end Nix.Store.C20
