import NixModel.Pure.LinkWrite

/-!
# C12, dimension links: the discipline `safe` makes a refused call leave the file alone

`run_safe`: by induction over the step list, for every call (every spelling of the index): while nothing has been written a refusal returns the file it was given; once something has been
written nothing can refuse any more, because every statement that can raise asks only for what a guard passed
before the first write has established.
-/
namespace Nix.LinkWrite

theorem contains_check {c : Call} {seen : List Guard} (inv : ∀ g ∈ seen, g.check c = none) {g : Guard}
    (h : seen.contains g = true) : g.check c = none :=
  inv g (List.contains_iff_mem.mp h)

/-- a statement that is not a guard and whose needs are established does not raise -/
theorem step_ok (c : Call) (f : File) (s : Step) (hg : ∀ g, s ≠ .guard g)
    (hn : ∀ g ∈ s.needs, g.check c = none) : (step c f s).2 = none := by
  cases s with
  | guard g => exact absurd rfl (hg g)
  | setIndexAttr =>
    have h := hn .entriesStorable (by simp [Step.needs])
    simp only [Guard.check] at h
    have hit : c.idx.iterable = true := by
      cases hi : c.idx.iterable with
      | true => rfl
      | false => simp [hi] at h
    have hst : c.idx.entries.all (·.storable) = true := by
      cases ha : c.idx.entries.all (·.storable) with
      | true => rfl
      | false => simp [hit, ha] at h
    simp [step, hit, hst]
  | setColAttr =>
    have h := hn .colIsInt (by simp [Step.needs])
    simp only [Guard.check] at h
    have hi : c.col.isInt = true := by
      cases hc : c.col.isInt with
      | true => rfl
      | false => simp [hc] at h
    simp [step, hi]
  | removeLinkIfAny => rfl
  | openLinkGroup => rfl
  | setDotype a => rfl
  | createTargetLink =>
    have h := hn .sameFile (by simp [Step.needs])
    simp only [Guard.check] at h
    cases ho : c.otherFile with
    | true => simp [ho] at h
    | false => simp [step, ho]
  | createSelfLink => rfl
  | setCreated => rfl
  | setUpdated => rfl
  | deleteTicksIfAny => rfl
  | createDim => rfl
  | touchArray => rfl

theorem run_cons_ok (c : Call) (s : Step) (r : List Step) (f : File) (h : (step c f s).2 = none) :
    run c (s :: r) f = run c r (step c f s).1 := by
  cases hst : step c f s with
  | mk f' oe =>
    rw [hst] at h
    simp only at h
    subst h
    simp [run, hst]

theorem run_cons_err (c : Call) (s : Step) (r : List Step) (f : File) (e : Err) (h : (step c f s).2 = some e) :
    run c (s :: r) f = ((step c f s).1, some e) := by
  cases hst : step c f s with
  | mk f' oe =>
    rw [hst] at h
    simp only at h
    subst h
    simp [run, hst]

theorem safeFrom_guard (seen : List Guard) (dirty : Bool) (g : Guard) (r : List Step) :
    safeFrom seen dirty (.guard g :: r) =
      (if dirty then seen.contains g && safeFrom seen dirty r else safeFrom (g :: seen) dirty r) := by
  simp [safeFrom]

theorem safeFrom_other (seen : List Guard) (dirty : Bool) (s : Step) (r : List Step) (hg : ∀ g, s ≠ .guard g) :
    safeFrom seen dirty (s :: r) = ((s.needs.all seen.contains) && safeFrom seen true r) := by
  cases s with
  | guard g => exact absurd rfl (hg g)
  | _ => simp [safeFrom]

/-- the discipline theorem, for every step list -/
theorem run_safe (c : Call) :
    ∀ (steps : List Step) (seen : List Guard) (dirty : Bool) (f : File),
      safeFrom seen dirty steps = true →
      (∀ g ∈ seen, g.check c = none) →
      (dirty = true → (run c steps f).2 = none) ∧
      (dirty = false → ∀ e, (run c steps f).2 = some e → (run c steps f).1 = f) := by
  intro steps
  induction steps with
  | nil => intro seen dirty f _ _; simp [run]
  | cons s r ih =>
    intro seen dirty f hsafe inv
    by_cases hg : ∃ g, s = .guard g
    · obtain ⟨g, rfl⟩ := hg
      rw [safeFrom_guard] at hsafe
      cases dirty with
      | true =>
        simp only [if_true, Bool.and_eq_true] at hsafe
        have hc : g.check c = none := contains_check inv hsafe.1
        have hstep : (step c f (.guard g)).2 = none := by simp [step, hc]
        rw [run_cons_ok c _ r f hstep]
        have : (step c f (.guard g)).1 = f := by simp [step]
        rw [this]
        exact ih seen true f hsafe.2 inv
      | false =>
        simp only [Bool.false_eq_true, if_false] at hsafe
        refine ⟨by simp, fun _ => ?_⟩
        cases hc : g.check c with
        | none =>
          have hstep : (step c f (.guard g)).2 = none := by simp [step, hc]
          rw [run_cons_ok c _ r f hstep]
          have : (step c f (.guard g)).1 = f := by simp [step]
          rw [this]
          have inv' : ∀ g' ∈ g :: seen, g'.check c = none := by
            intro g' hg'
            cases List.mem_cons.mp hg' with
            | inl h => rw [h]; exact hc
            | inr h => exact inv g' h
          exact (ih (g :: seen) false f hsafe inv').2 rfl
        | some e' =>
          have hstep : (step c f (.guard g)).2 = some e' := by simp [step, hc]
          rw [run_cons_err c _ r f e' hstep]
          intro e _
          simp [step]
    · have hg' : ∀ g, s ≠ .guard g := fun g h => hg ⟨g, h⟩
      rw [safeFrom_other seen dirty s r hg'] at hsafe
      simp only [Bool.and_eq_true, List.all_eq_true] at hsafe
      have hn : ∀ g ∈ s.needs, g.check c = none := fun g hgm => contains_check inv (hsafe.1 g hgm)
      have hstep := step_ok c f s hg' hn
      rw [run_cons_ok c s r f hstep]
      have hnone := (ih seen true (step c f s).1 hsafe.2 inv).1 rfl
      refine ⟨fun _ => hnone, fun _ e he => ?_⟩
      rw [hnone] at he
      exact absurd he (by simp)

/-- **refused ⇒ unchanged** for every step list that obeys the discipline -/
theorem safe_refused_unchanged (steps : List Step) (h : safe steps = true) (c : Call) (f : File)
    (e : Err) (he : (run c steps f).2 = some e) : (run c steps f).1 = f :=
  (run_safe c steps [] false f h (by simp)).2 rfl e he

end Nix.LinkWrite
