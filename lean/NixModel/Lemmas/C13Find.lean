import NixModel.Pure.Tree

/-!
# C13 — the fifo search of util/find.py is the level-order enumeration

Specification side: `levels m rs` lists the first `m` levels of the forest below the roots `rs`
(level 0 = the roots themselves, left to right; level i+1 = the children of level i, left to right).
`AtDepth d r x` says that `x` lies `d` ownership steps below `r`.
-/

namespace Nix.Tree

/-- the first `m` levels of the forest with roots `rs`, breadth first -/
def levels : Nat → List Node → List Node
  | 0, _ => []
  | m + 1, rs => rs ++ levels m (rs.flatMap Node.children)

/-- the `i`-th level alone -/
def level : Nat → List Node → List Node
  | 0, rs => rs
  | i + 1, rs => level i (rs.flatMap Node.children)

/-- `x` is `d` ownership steps below `r` -/
inductive AtDepth : Nat → Node → Node → Prop
  | root (n : Node) : AtDepth 0 n n
  | step {d : Nat} {n c x : Node} : c ∈ n.children → AtDepth d c x → AtDepth (d + 1) n x

mutual
/-- number of levels of a tree -/
def Node.height : Node → Nat
  | .mk _ cs => 1 + heightL cs
/-- number of levels of a forest (0 for the empty forest) -/
def heightL : List Node → Nat
  | [] => 0
  | c :: cs => max c.height (heightL cs)
end

/-- the members a search starts from -/
def Root.members : Root → List Node
  | .node n => [n]
  | .top ms => ms

/-- depth of those members as the code's level counter counts it -/
def Root.base : Root → Nat
  | .node _ => 0
  | .top _ => 1

/-! ## the loop -/

theorem findLoop_nil (filt : Node → Bool) (limit : Nat) : findLoop filt limit [] = [] := by
  simp [findLoop]

theorem findLoop_cons (filt : Node → Bool) (limit : Nat) (n : Node) (lvl : Nat) (rest : List (Node × Nat)) :
    findLoop filt limit ((n, lvl) :: rest) =
      (if filt n then [n] else []) ++
        findLoop filt limit (if lvl + 1 ≤ limit then rest ++ n.children.map (fun e => (e, lvl + 1)) else rest) := by
  rw [findLoop]
  split <;> simp

/-- while children are still pushed: one whole level leaves the fifo, its children queue up behind
whatever was already waiting at the next level -/
theorem findLoop_push (filt : Node → Bool) (limit d : Nat) (h : d + 1 ≤ limit) :
    ∀ (xs ys : List Node),
      findLoop filt limit (xs.map (fun e => (e, d)) ++ ys.map (fun e => (e, d + 1))) =
        xs.filter filt ++ findLoop filt limit ((ys ++ xs.flatMap Node.children).map (fun e => (e, d + 1))) := by
  intro xs
  induction xs with
  | nil => intro ys; simp
  | cons x xs ih =>
    intro ys
    simp only [List.map_cons, List.cons_append]
    rw [findLoop_cons]
    simp only [h, if_true]
    rw [List.append_assoc, ← List.map_append, ih]
    simp only [List.flatMap_cons, List.append_assoc, List.filter_cons]
    split <;> simp

/-- at the last admitted level nothing is pushed any more -/
theorem findLoop_last (filt : Node → Bool) (limit d : Nat) (h : ¬ d + 1 ≤ limit) :
    ∀ xs : List Node, findLoop filt limit (xs.map (fun e => (e, d))) = xs.filter filt := by
  intro xs
  induction xs with
  | nil => simp [findLoop_nil]
  | cons x xs ih =>
    simp only [List.map_cons]
    rw [findLoop_cons]
    simp only [h, if_false, ih, List.filter_cons]
    split <;> simp

/-- a fifo holding one level `rs` at depth `d ≤ limit` yields the next `limit - d + 1` levels -/
theorem findLoop_levels (filt : Node → Bool) (limit : Nat) :
    ∀ (m d : Nat) (rs : List Node), d + m = limit →
      findLoop filt limit (rs.map (fun e => (e, d))) = (levels (m + 1) rs).filter filt := by
  intro m
  induction m with
  | zero =>
    intro d rs h
    rw [findLoop_last filt limit d (by omega)]
    simp [levels]
  | succ m ih =>
    intro d rs h
    have := findLoop_push filt limit d (by omega) rs []
    simp only [List.map_nil, List.append_nil, List.nil_append] at this
    rw [this, ih (d + 1) _ (by omega)]
    conv => rhs; rw [levels]
    simp

theorem levels_nil : ∀ m, levels m [] = []
  | 0 => rfl
  | m + 1 => by simp [levels, levels_nil m]

/-- `findFrom` with an explicit limit, for every kind of root -/
theorem findFrom_some (root : Root) (filt : Node → Bool) (l : Nat) :
    findFrom root filt (some l) = (levels (l + 1 - root.base) root.members).filter filt := by
  cases root with
  | node n =>
    simp only [findFrom, Root.base, Root.members]
    have := findLoop_levels filt l l 0 [n] (by omega)
    simpa using this
  | top ms =>
    simp only [findFrom, Root.base, Root.members]
    by_cases h : 1 ≤ l
    · simp only [h, if_true]
      have := findLoop_levels filt l (l - 1) 1 ms (by omega)
      rw [this]
      congr 2
      omega
    · have : l = 0 := by omega
      subst this
      simp [findLoop_nil, levels]

theorem findFrom_none (root : Root) (filt : Node → Bool) :
    findFrom root filt none = findFrom root filt (some maxsize) := by
  simp [findFrom]

/-! ## levels, depth, height -/

theorem level_nil : ∀ i, level i [] = []
  | 0 => rfl
  | i + 1 => by simp [level, level_nil i]

theorem mem_level {x : Node} : ∀ (i : Nat) (rs : List Node), x ∈ level i rs ↔ ∃ r ∈ rs, AtDepth i r x := by
  intro i
  induction i with
  | zero =>
    intro rs
    simp only [level]
    constructor
    · intro h; exact ⟨x, h, .root x⟩
    · rintro ⟨r, hr, hd⟩
      cases hd
      exact hr
  | succ i ih =>
    intro rs
    simp only [level, ih, List.mem_flatMap]
    constructor
    · rintro ⟨c, ⟨r, hr, hc⟩, hd⟩
      exact ⟨r, hr, .step hc hd⟩
    · rintro ⟨r, hr, hd⟩
      cases hd with
      | step hc hd => exact ⟨_, ⟨r, hr, hc⟩, hd⟩

theorem mem_levels {x : Node} : ∀ (m : Nat) (rs : List Node), x ∈ levels m rs ↔ ∃ i, i < m ∧ x ∈ level i rs := by
  intro m
  induction m with
  | zero => intro rs; simp [levels]
  | succ m ih =>
    intro rs
    simp only [levels, List.mem_append, ih]
    constructor
    · rintro (h | ⟨i, hi, h⟩)
      · exact ⟨0, by omega, h⟩
      · exact ⟨i + 1, by omega, h⟩
    · rintro ⟨i, hi, h⟩
      cases i with
      | zero => exact .inl h
      | succ i => exact .inr ⟨i, by omega, h⟩

/-- `levels` written as the concatenation of the single levels -/
theorem levels_eq_flatMap : ∀ (m : Nat) (rs : List Node), levels m rs = (List.range m).flatMap (fun i => level i rs) := by
  intro m
  induction m with
  | zero => intro rs; simp [levels]
  | succ m ih =>
    intro rs
    rw [levels, ih, List.range_succ_eq_map, List.flatMap_cons, List.flatMap_map]
    rfl

theorem heightL_append (a b : List Node) : heightL (a ++ b) = max (heightL a) (heightL b) := by
  induction a with
  | nil => simp [heightL]
  | cons x xs ih => simp [heightL, ih, Nat.max_assoc]

theorem heightL_children (rs : List Node) : heightL (rs.flatMap Node.children) = heightL rs - 1 := by
  induction rs with
  | nil => simp [heightL]
  | cons c cs ih =>
    cases c with | mk i ks =>
    simp only [List.flatMap_cons, heightL_append, ih, heightL, Node.height, Node.children]
    omega

theorem heightL_eq_zero {rs : List Node} (h : heightL rs = 0) : rs = [] := by
  cases rs with
  | nil => rfl
  | cons c cs =>
    cases c with | mk i ks =>
    simp only [heightL, Node.height] at h
    omega

/-- levels beyond the height are empty -/
theorem levels_of_height : ∀ (m : Nat) (rs : List Node), heightL rs ≤ m → levels m rs = levels (heightL rs) rs := by
  intro m
  induction m with
  | zero => intro rs h; rw [Nat.le_zero.mp h]
  | succ m ih =>
    intro rs h
    by_cases h0 : heightL rs = 0
    · rw [heightL_eq_zero h0]; simp [levels_nil]
    · obtain ⟨k, hk⟩ : ∃ k, heightL rs = k + 1 := ⟨heightL rs - 1, by omega⟩
      have hc := heightL_children rs
      rw [hk, levels, levels, ih _ (by omega), hc, hk]
      rfl

/-! ## all nodes -/

theorem nodesL_append (a b : List Node) : nodesL (a ++ b) = nodesL a ++ nodesL b := by
  induction a with
  | nil => simp [nodesL]
  | cons x xs ih => simp [nodesL, ih]

theorem Node.nodes_eq (c : Node) : c.nodes = c :: nodesL c.children := by
  cases c with | mk i cs => simp [Node.nodes, Node.children]

theorem nodesL_cons (c : Node) (cs : List Node) : nodesL (c :: cs) = c :: nodesL c.children ++ nodesL cs := by
  simp [nodesL, Node.nodes_eq]

/-- the nodes of a forest are its roots plus the nodes of the forest one level down -/
theorem nodesL_perm (rs : List Node) : (nodesL rs).Perm (rs ++ nodesL (rs.flatMap Node.children)) := by
  induction rs with
  | nil => simp [nodesL]
  | cons c cs ih =>
    rw [nodesL_cons, List.flatMap_cons, nodesL_append]
    simp only [List.cons_append]
    refine List.Perm.cons c ?_
    -- nodesL c.children ++ nodesL cs  ~  cs ++ (nodesL c.children ++ nodesL (flatMap cs))
    have h1 : (nodesL c.children ++ nodesL cs).Perm (nodesL c.children ++ (cs ++ nodesL (cs.flatMap Node.children))) :=
      List.Perm.append_left _ ih
    refine h1.trans ?_
    rw [← List.append_assoc, ← List.append_assoc]
    exact List.Perm.append_right _ List.perm_append_comm

theorem mem_nodesL_roots {x : Node} {rs : List Node} (h : x ∈ rs) : x ∈ nodesL rs :=
  (nodesL_perm rs).mem_iff.mpr (List.mem_append_left _ h)

theorem levels_subset {x : Node} : ∀ (m : Nat) (rs : List Node), x ∈ levels m rs → x ∈ nodesL rs := by
  intro m
  induction m with
  | zero => intro rs h; simp [levels] at h
  | succ m ih =>
    intro rs h
    rw [levels, List.mem_append] at h
    refine (nodesL_perm rs).mem_iff.mpr (List.mem_append.mpr ?_)
    rcases h with h | h
    · exact .inl h
    · exact .inr (ih _ h)

/-- when the forest is not higher than `m`, its first `m` levels are all of it -/
theorem levels_perm : ∀ (m : Nat) (rs : List Node), heightL rs ≤ m → (levels m rs).Perm (nodesL rs) := by
  intro m
  induction m with
  | zero =>
    intro rs h
    rw [heightL_eq_zero (Nat.le_zero.mp h)]
    simp [levels, nodesL]
  | succ m ih =>
    intro rs h
    rw [levels]
    have hc := heightL_children rs
    exact (List.Perm.append_left rs (ih _ (by omega))).trans (nodesL_perm rs).symm

/-- unique ids in the forest ⇒ no id twice in its first `m` levels -/
theorem levels_nodup : ∀ (m : Nat) (rs : List Node), (keysL rs).Nodup → ((levels m rs).map Node.key).Nodup := by
  intro m
  induction m with
  | zero => intro rs _; simp [levels]
  | succ m ih =>
    intro rs h
    have hp : (keysL rs).Perm ((rs ++ nodesL (rs.flatMap Node.children)).map Node.key) := (nodesL_perm rs).map _
    have h2 := hp.nodup_iff.mp h
    rw [List.map_append, List.nodup_append] at h2
    obtain ⟨ha, hb, hab⟩ := h2
    rw [levels, List.map_append, List.nodup_append]
    refine ⟨ha, ih _ hb, ?_⟩
    intro a haa b hbb
    refine hab a haa b ?_
    obtain ⟨y, hy, rfl⟩ := List.mem_map.mp hbb
    exact List.mem_map.mpr ⟨y, levels_subset _ _ hy, rfl⟩

theorem mem_nodesL {x : Node} {cs : List Node} : x ∈ nodesL cs ↔ ∃ c ∈ cs, x ∈ c.nodes := by
  induction cs with
  | nil => simp [nodesL]
  | cons c cs ih => simp [nodesL, ih]

theorem AtDepth.mem_nodes {d : Nat} {r x : Node} (h : AtDepth d r x) : x ∈ r.nodes := by
  induction h with
  | root n => rw [Node.nodes_eq]; exact List.mem_cons_self
  | step hc _ ih =>
    rw [Node.nodes_eq]
    exact List.mem_cons_of_mem _ (mem_nodesL.mpr ⟨_, hc, ih⟩)

/-- the nodes of a forest are exactly what lies some number of ownership steps below a root -/
theorem mem_nodesL_iff_atDepth {x : Node} (rs : List Node) : x ∈ nodesL rs ↔ ∃ r ∈ rs, ∃ d, AtDepth d r x := by
  constructor
  · intro h
    rw [← (levels_perm (heightL rs) rs (Nat.le_refl _)).mem_iff, mem_levels] at h
    obtain ⟨i, _, h⟩ := h
    obtain ⟨r, hr, hd⟩ := (mem_level i rs).mp h
    exact ⟨r, hr, i, hd⟩
  · rintro ⟨r, hr, d, hd⟩
    exact mem_nodesL.mpr ⟨r, hr, hd.mem_nodes⟩

end Nix.Tree
