import NixModel.Store.Step
import Std.Data.String.ToNat

/-!
# Basic lemmas about the graph primitives of the structural model

Effect of `updNode` / `addLink` / `delLink` / `setAttr` / `newNode` / `ensureGroup` / `freshId` /
`deleteAll` / `deleteObjs` on the observations `node?`, `links`, `child?`, `hasChild`, `getAttr`, `entityId`,
`kindOf`, with the frame facts for other keys / other attributes. No invariant is assumed here
unless a hypothesis says so; the invariant `WF` and its preservation live in `StoreWF.lean`.

Naming: `<observation>_<primitive>`; `_ne` = frame for another key, `_self` = the touched key.
-/
namespace Nix.Store.Lemmas
open Nix.Store Nix.Store.Graph

/-! ## model ids -/

/-- the `n`-th id of the abstract fresh supply (`Graph.freshId`) -/
def idStr (n : Nat) : String := s!"id:{n}"

theorem freshId_snd (g : Graph) : (g.freshId).2 = idStr g.nextId := rfl
theorem freshId_fst (g : Graph) : (g.freshId).1 = { g with nextId := g.nextId + 1 } := rfl

theorem idStr_inj {m n : Nat} (h : idStr m = idStr n) : m = n := by
  unfold idStr at h
  simp only [toString] at h
  simpa [Nat.repr_inj] using h

theorem find?_congr' {α : Type} {l : List α} {p q : α → Bool} (h : ∀ x ∈ l, p x = q x) :
    l.find? p = l.find? q := by
  induction l with
  | nil => rfl
  | cons a t ih =>
    simp only [List.find?, h a (by simp)]
    rw [ih fun x hx => h x (by simp [hx])]

/-! ## keys -/

/-- the keys of the graph, in creation order -/
def keys (g : Graph) : List Nat := g.nodes.map (·.1)

theorem node?_isSome_iff (g : Graph) (k : Nat) : (g.node? k).isSome ↔ k ∈ keys g := by
  unfold Graph.node? keys
  simp only [Option.isSome_map, List.find?_isSome, List.mem_map]
  constructor
  · rintro ⟨x, hx, hk⟩
    exact ⟨x, hx, by simpa using hk⟩
  · rintro ⟨x, hx, hk⟩
    exact ⟨x, hx, by simpa using hk⟩

theorem node?_eq_none_iff (g : Graph) (k : Nat) : g.node? k = none ↔ k ∉ keys g := by
  rw [← node?_isSome_iff]
  cases g.node? k <;> simp

theorem links_of_node?_none {g : Graph} {k : Nat} (h : g.node? k = none) : g.links k = [] := by
  simp [Graph.links, h]

theorem getAttr_of_node?_none {g : Graph} {k : Nat} (h : g.node? k = none) (a : String) :
    g.getAttr k a = none := by
  simp [Graph.getAttr, h]

theorem node?_isSome_of_link {g : Graph} {k : Nat} {l : String × Nat} (h : l ∈ g.links k) :
    (g.node? k).isSome := by
  cases hn : g.node? k with
  | none => simp [links_of_node?_none hn] at h
  | some n => rfl

theorem node?_isSome_of_getAttr {g : Graph} {k : Nat} {a v : String} (h : g.getAttr k a = some v) :
    (g.node? k).isSome := by
  cases hn : g.node? k with
  | none => simp [getAttr_of_node?_none hn] at h
  | some n => rfl

/-! ## child? / hasChild in terms of `links` -/

theorem child?_eq (g : Graph) (k : Nat) (n : String) :
    g.child? k n = ((g.links k).find? (fun l => l.1 == n)).map (·.2) := rfl

theorem hasChild_eq (g : Graph) (k : Nat) (n : String) : g.hasChild k n = (g.child? k n).isSome := rfl

theorem child?_some_mem {g : Graph} {k t : Nat} {n : String} (h : g.child? k n = some t) :
    (n, t) ∈ g.links k := by
  rw [child?_eq] at h
  cases hf : (g.links k).find? (fun l => l.1 == n) with
  | none => simp [hf] at h
  | some l =>
    simp only [hf, Option.map_some, Option.some.injEq] at h
    have h1 := List.find?_some hf
    have h2 := List.mem_of_find?_eq_some hf
    have : l = (n, t) := by
      cases l with
      | mk a b => simp at h1 h; subst h1; subst h; rfl
    exact this ▸ h2

theorem child?_none_iff {g : Graph} {k : Nat} {n : String} :
    g.child? k n = none ↔ ∀ l ∈ g.links k, l.1 ≠ n := by
  rw [child?_eq]
  simp only [Option.map_eq_none_iff, List.find?_eq_none]
  constructor
  · intro h l hl; simpa using h l hl
  · intro h l hl; simpa using h l hl

theorem hasChild_false_iff {g : Graph} {k : Nat} {n : String} :
    g.hasChild k n = false ↔ ∀ l ∈ g.links k, l.1 ≠ n := by
  rw [hasChild_eq, ← child?_none_iff]
  cases g.child? k n <;> simp

theorem hasChild_true_iff {g : Graph} {k : Nat} {n : String} :
    g.hasChild k n = true ↔ ∃ t, g.child? k n = some t := by
  rw [hasChild_eq]
  cases g.child? k n <;> simp

/-- with unique link names, `child?` finds exactly the entry of that name -/
theorem child?_of_mem_nodup {g : Graph} {k t : Nat} {n : String}
    (hnd : ((g.links k).map (·.1)).Nodup) (h : (n, t) ∈ g.links k) : g.child? k n = some t := by
  rw [child?_eq]
  generalize g.links k = ls at hnd h
  induction ls with
  | nil => cases h
  | cons a rest ih =>
    simp only [List.map_cons, List.nodup_cons] at hnd
    rcases List.mem_cons.mp h with h | h
    · subst h; simp [List.find?]
    · have hne : a.1 ≠ n := by
        intro e
        exact hnd.1 (e ▸ List.mem_map.mpr ⟨(n, t), h, rfl⟩)
      have : (a.1 == n) = false := by simpa using hne
      simp only [List.find?, this]
      exact ih hnd.2 h

/-! ## updNode -/

theorem keys_updNode (g : Graph) (k : Nat) (f : Node → Node) : keys (g.updNode k f) = keys g := by
  unfold keys Graph.updNode
  simp only [List.map_map]
  apply List.map_congr_left
  intro kn _
  simp only [Function.comp]
  split <;> rfl

theorem nextKey_updNode (g : Graph) (k : Nat) (f : Node → Node) : (g.updNode k f).nextKey = g.nextKey := rfl
theorem nextId_updNode (g : Graph) (k : Nat) (f : Node → Node) : (g.updNode k f).nextId = g.nextId := rfl

theorem node?_updNode (g : Graph) (k k' : Nat) (f : Node → Node) :
    (g.updNode k f).node? k' = if k' = k then (g.node? k').map f else g.node? k' := by
  unfold Graph.node? Graph.updNode
  simp only
  generalize g.nodes = l
  induction l with
  | nil => simp
  | cons a rest ih =>
    simp only [List.map_cons, List.find?]
    by_cases hk : a.1 = k
    · by_cases hk' : a.1 = k'
      · have e : k' = k := hk' ▸ hk
        simp [hk, hk', e]
      · have e1 : (a.1 == k') = false := by simpa using hk'
        simp only [hk, beq_self_eq_true, ↓reduceIte]
        rw [hk] at e1
        simp only [e1]
        exact ih
    · have e0 : (a.1 == k) = false := by simpa using hk
      simp only [e0, Bool.false_eq_true, ↓reduceIte]
      by_cases hk' : a.1 = k'
      · have : k' ≠ k := fun e => hk (hk'.trans e)
        simp [hk', this]
      · have e1 : (a.1 == k') = false := by simpa using hk'
        simp only [e1]
        exact ih

theorem node?_updNode_ne (g : Graph) {k k' : Nat} (f : Node → Node) (h : k' ≠ k) :
    (g.updNode k f).node? k' = g.node? k' := by simp [node?_updNode, h]

theorem node?_isSome_updNode (g : Graph) (k k' : Nat) (f : Node → Node) :
    ((g.updNode k f).node? k').isSome = (g.node? k').isSome := by
  rw [node?_updNode]; split <;> simp

theorem links_updNode_ne (g : Graph) {k k' : Nat} (f : Node → Node) (h : k' ≠ k) :
    (g.updNode k f).links k' = g.links k' := by simp [Graph.links, node?_updNode, h]

theorem getAttr_updNode_ne (g : Graph) {k k' : Nat} (f : Node → Node) (h : k' ≠ k) (a : String) :
    (g.updNode k f).getAttr k' a = g.getAttr k' a := by simp [Graph.getAttr, node?_updNode, h]

/-- an update that keeps the attributes keeps every `getAttr` -/
theorem getAttr_updNode_attrs (g : Graph) (k k' : Nat) (f : Node → Node) (hf : ∀ n, (f n).attrs = n.attrs)
    (a : String) : (g.updNode k f).getAttr k' a = g.getAttr k' a := by
  unfold Graph.getAttr
  rw [node?_updNode]
  by_cases hk : k' = k
  · simp only [hk, ↓reduceIte]
    cases g.node? k <;> simp [hf]
  · simp only [hk, ↓reduceIte]

/-- an update that keeps the links keeps every `links` -/
theorem links_updNode_links (g : Graph) (k k' : Nat) (f : Node → Node) (hf : ∀ n, (f n).links = n.links) :
    (g.updNode k f).links k' = g.links k' := by
  unfold Graph.links
  rw [node?_updNode]
  by_cases hk : k' = k
  · simp only [hk, ↓reduceIte]
    cases g.node? k <;> simp [hf]
  · simp only [hk, ↓reduceIte]

theorem links_updNode_self (g : Graph) (k : Nat) (f : Node → Node) :
    (g.updNode k f).links k = match g.node? k with | some n => (f n).links | none => [] := by
  unfold Graph.links
  rw [node?_updNode]
  cases g.node? k <;> simp

/-- two updates of different nodes commute -/
theorem updNode_comm (g : Graph) {a b : Nat} (f h : Node → Node) (hab : a ≠ b) :
    (g.updNode a f).updNode b h = (g.updNode b h).updNode a f := by
  unfold Graph.updNode
  simp only [List.map_map, Graph.mk.injEq, and_true]
  apply List.map_congr_left
  intro kn _
  simp only [Function.comp]
  by_cases h1 : kn.1 = a
  · have h2 : kn.1 ≠ b := fun e => hab (h1.symm.trans e)
    simp [h1, hab]
  · by_cases h2 : kn.1 = b
    · simp [h2]
      simp [← h2, h1]
    · simp [h1, h2]

/-! ## addLink -/

theorem keys_addLink (g : Graph) (p : Nat) (n : String) (t : Nat) : keys (g.addLink p n t) = keys g :=
  keys_updNode _ _ _
theorem nextKey_addLink (g : Graph) (p : Nat) (n : String) (t : Nat) : (g.addLink p n t).nextKey = g.nextKey := rfl
theorem nextId_addLink (g : Graph) (p : Nat) (n : String) (t : Nat) : (g.addLink p n t).nextId = g.nextId := rfl

theorem node?_isSome_addLink (g : Graph) (p : Nat) (n : String) (t k : Nat) :
    ((g.addLink p n t).node? k).isSome = (g.node? k).isSome := node?_isSome_updNode _ _ _ _

theorem getAttr_addLink (g : Graph) (p : Nat) (n : String) (t k : Nat) (a : String) :
    (g.addLink p n t).getAttr k a = g.getAttr k a := by
  unfold Graph.addLink
  apply getAttr_updNode_attrs
  intro _; rfl

theorem links_addLink_ne (g : Graph) {p k : Nat} (n : String) (t : Nat) (h : k ≠ p) :
    (g.addLink p n t).links k = g.links k := links_updNode_ne _ _ h

theorem links_addLink_self (g : Graph) {p : Nat} (n : String) (t : Nat) (h : (g.node? p).isSome) :
    (g.addLink p n t).links p = g.links p ++ [(n, t)] := by
  unfold Graph.addLink
  rw [links_updNode_self]
  unfold Graph.links
  cases hn : g.node? p with
  | none => simp [hn] at h
  | some nd => rfl

/-- every link after `addLink` is an old one or the new one -/
theorem mem_links_addLink {g : Graph} {p k : Nat} {n : String} {t : Nat} {l : String × Nat}
    (h : l ∈ (g.addLink p n t).links k) : l ∈ g.links k ∨ (k = p ∧ l = (n, t)) := by
  by_cases hk : k = p
  · subst hk
    cases hn : g.node? k with
    | none =>
      have : (g.addLink k n t).node? k = none := by
        have := node?_isSome_addLink g k n t k
        rw [hn] at this
        cases h' : (g.addLink k n t).node? k <;> simp_all
      simp [links_of_node?_none this] at h
    | some nd =>
      rw [links_addLink_self g n t (by simp [hn])] at h
      rcases List.mem_append.mp h with h | h
      · exact Or.inl h
      · exact Or.inr ⟨rfl, by simpa using h⟩
  · rw [links_addLink_ne g n t hk] at h
    exact Or.inl h

theorem mem_links_addLink_old {g : Graph} {p k : Nat} {n : String} {t : Nat} {l : String × Nat}
    (h : l ∈ g.links k) : l ∈ (g.addLink p n t).links k := by
  by_cases hk : k = p
  · subst hk
    rw [links_addLink_self g n t (node?_isSome_of_link h)]
    exact List.mem_append_left _ h
  · rwa [links_addLink_ne g n t hk]

theorem child?_addLink_ne (g : Graph) {p k : Nat} (n : String) (t : Nat) (h : k ≠ p) (m : String) :
    (g.addLink p n t).child? k m = g.child? k m := by
  simp [child?_eq, links_addLink_ne g n t h]

/-- looking up another name in the extended node -/
theorem child?_addLink_name_ne (g : Graph) (p k : Nat) {n m : String} (t : Nat) (h : m ≠ n) :
    (g.addLink p n t).child? k m = g.child? k m := by
  by_cases hk : k = p
  · subst hk
    cases hn : g.node? k with
    | none =>
      have h1 : (g.addLink k n t).node? k = none := by
        have := node?_isSome_addLink g k n t k
        rw [hn] at this
        cases h' : (g.addLink k n t).node? k <;> simp_all
      simp [child?_eq, links_of_node?_none hn, links_of_node?_none h1]
    | some nd =>
      rw [child?_eq, child?_eq, links_addLink_self g n t (by simp [hn]), List.find?_append]
      have : (n == m) = false := by simpa using fun e => h e.symm
      cases (g.links k).find? (fun l => l.1 == m) <;> simp [List.find?, this]
  · exact child?_addLink_ne g n t hk m

/-- looking up the new name, when it was free -/
theorem child?_addLink_self (g : Graph) {p : Nat} (n : String) (t : Nat) (hp : (g.node? p).isSome)
    (hfree : g.child? p n = none) : (g.addLink p n t).child? p n = some t := by
  rw [child?_eq, links_addLink_self g n t hp, List.find?_append]
  rw [child?_eq] at hfree
  have : (g.links p).find? (fun l => l.1 == n) = none := by
    cases h : (g.links p).find? (fun l => l.1 == n) <;> simp_all
  simp [this, List.find?]

/-! ## delLink -/

theorem keys_delLink (g : Graph) (p : Nat) (n : String) : keys (g.delLink p n) = keys g := keys_updNode _ _ _
theorem nextKey_delLink (g : Graph) (p : Nat) (n : String) : (g.delLink p n).nextKey = g.nextKey := rfl
theorem nextId_delLink (g : Graph) (p : Nat) (n : String) : (g.delLink p n).nextId = g.nextId := rfl

theorem node?_isSome_delLink (g : Graph) (p : Nat) (n : String) (k : Nat) :
    ((g.delLink p n).node? k).isSome = (g.node? k).isSome := node?_isSome_updNode _ _ _ _

theorem getAttr_delLink (g : Graph) (p : Nat) (n : String) (k : Nat) (a : String) :
    (g.delLink p n).getAttr k a = g.getAttr k a := by
  unfold Graph.delLink
  apply getAttr_updNode_attrs
  intro _; rfl

theorem links_delLink_ne (g : Graph) {p k : Nat} (n : String) (h : k ≠ p) :
    (g.delLink p n).links k = g.links k := links_updNode_ne _ _ h

theorem links_delLink_self (g : Graph) (p : Nat) (n : String) :
    (g.delLink p n).links p = (g.links p).filter (fun l => l.1 != n) := by
  unfold Graph.delLink
  rw [links_updNode_self]
  unfold Graph.links
  cases g.node? p <;> rfl

theorem links_delLink (g : Graph) (p k : Nat) (n : String) :
    (g.delLink p n).links k = if k = p then (g.links k).filter (fun l => l.1 != n) else g.links k := by
  split
  · next h => subst h; exact links_delLink_self g k n
  · next h => exact links_delLink_ne g n h

theorem links_delLink_sublist (g : Graph) (p k : Nat) (n : String) :
    ((g.delLink p n).links k).Sublist (g.links k) := by
  rw [links_delLink]; split
  · exact List.filter_sublist
  · exact List.Sublist.refl _

theorem child?_delLink_self (g : Graph) (p : Nat) (n : String) : (g.delLink p n).child? p n = none := by
  rw [child?_none_iff, links_delLink_self]
  intro l hl
  have := (List.mem_filter.mp hl).2
  simpa using this

theorem child?_delLink_name_ne (g : Graph) (p k : Nat) {n m : String} (h : m ≠ n) :
    (g.delLink p n).child? k m = g.child? k m := by
  rw [child?_eq, child?_eq, links_delLink]
  split
  · rw [List.find?_filter]
    congr 1
    apply find?_congr'
    intro l _
    by_cases hl : l.1 = m
    · have : l.1 ≠ n := fun e => h (hl.symm.trans e)
      simp [hl, h]
    · simp [hl]
  · rfl

theorem child?_delLink_ne (g : Graph) {p k : Nat} (n : String) (h : k ≠ p) (m : String) :
    (g.delLink p n).child? k m = g.child? k m := by
  simp [child?_eq, links_delLink_ne g n h]

/-! ## setAttr -/

theorem keys_setAttr (g : Graph) (k : Nat) (a : String) (v : Option String) : keys (g.setAttr k a v) = keys g :=
  keys_updNode _ _ _
theorem nextKey_setAttr (g : Graph) (k : Nat) (a : String) (v : Option String) :
    (g.setAttr k a v).nextKey = g.nextKey := rfl
theorem nextId_setAttr (g : Graph) (k : Nat) (a : String) (v : Option String) :
    (g.setAttr k a v).nextId = g.nextId := rfl

theorem node?_isSome_setAttr (g : Graph) (k : Nat) (a : String) (v : Option String) (k' : Nat) :
    ((g.setAttr k a v).node? k').isSome = (g.node? k').isSome := node?_isSome_updNode _ _ _ _

theorem links_setAttr (g : Graph) (k : Nat) (a : String) (v : Option String) (k' : Nat) :
    (g.setAttr k a v).links k' = g.links k' := by
  unfold Graph.setAttr
  apply links_updNode_links
  intro n
  cases v <;> rfl

theorem child?_setAttr (g : Graph) (k : Nat) (a : String) (v : Option String) (k' : Nat) (m : String) :
    (g.setAttr k a v).child? k' m = g.child? k' m := by simp [child?_eq, links_setAttr]

theorem hasChild_setAttr (g : Graph) (k : Nat) (a : String) (v : Option String) (k' : Nat) (m : String) :
    (g.setAttr k a v).hasChild k' m = g.hasChild k' m := by simp [hasChild_eq, child?_setAttr]

theorem getAttr_setAttr_ne (g : Graph) {k k' : Nat} (a : String) (v : Option String) (h : k' ≠ k) (a' : String) :
    (g.setAttr k a v).getAttr k' a' = g.getAttr k' a' := getAttr_updNode_ne _ _ h _

private theorem find_attr_filter_ne (l : List (String × String)) {a a' : String} (h : a' ≠ a) :
    (l.filter (fun kv => kv.1 != a)).find? (fun kv => kv.1 == a') = l.find? (fun kv => kv.1 == a') := by
  rw [List.find?_filter]
  apply find?_congr'
  intro kv _
  by_cases hk : kv.1 = a'
  · have : kv.1 ≠ a := fun e => h (hk.symm.trans e)
    simp [hk, h]
  · simp [hk]

private theorem find_attr_filter_self (l : List (String × String)) (a : String) :
    (l.filter (fun kv => kv.1 != a)).find? (fun kv => kv.1 == a) = none := by
  rw [List.find?_eq_none]
  intro kv hkv
  have := (List.mem_filter.mp hkv).2
  simpa using this

/-- another attribute of the touched node -/
theorem getAttr_setAttr_attr_ne (g : Graph) (k k' : Nat) {a a' : String} (v : Option String) (h : a' ≠ a) :
    (g.setAttr k a v).getAttr k' a' = g.getAttr k' a' := by
  by_cases hk : k' = k
  · subst hk
    unfold Graph.getAttr Graph.setAttr
    rw [node?_updNode]
    simp only [↓reduceIte]
    cases g.node? k' with
    | none => rfl
    | some n =>
      have hne : (a == a') = false := by simpa using fun e => h e.symm
      cases v with
      | none => simp [find_attr_filter_ne n.attrs h]
      | some s =>
        simp only [Option.map_some, List.find?_append, find_attr_filter_ne n.attrs h]
        cases n.attrs.find? (fun kv => kv.1 == a') <;> simp [List.find?, hne]
  · exact getAttr_setAttr_ne g a v hk a'

/-- the attribute just written, on an existing node -/
theorem getAttr_setAttr_self (g : Graph) {k : Nat} (a : String) (v : Option String) (hk : (g.node? k).isSome) :
    (g.setAttr k a v).getAttr k a = v := by
  unfold Graph.getAttr Graph.setAttr
  rw [node?_updNode]
  simp only [↓reduceIte]
  cases hn : g.node? k with
  | none => simp [hn] at hk
  | some n =>
    cases v with
    | none => simp [find_attr_filter_self]
    | some s =>
      simp only [Option.map_some, List.find?_append, find_attr_filter_self]
      simp [List.find?]

theorem getAttr_setAttr (g : Graph) (k k' : Nat) (a a' : String) (v : Option String) :
    (g.setAttr k a v).getAttr k' a' =
      if k' = k ∧ a' = a then (if (g.node? k).isSome then v else none) else g.getAttr k' a' := by
  by_cases h1 : k' = k
  · by_cases h2 : a' = a
    · subst h1; subst h2
      simp only [and_self, ↓reduceIte]
      cases hn : g.node? k' with
      | none =>
        have : (g.setAttr k' a' v).node? k' = none := by
          have := node?_isSome_setAttr g k' a' v k'
          rw [hn] at this
          cases h' : (g.setAttr k' a' v).node? k' <;> simp_all
        simp [getAttr_of_node?_none this]
      | some n => simpa using getAttr_setAttr_self g a' v (by simp [hn])
    · simp only [h2, and_false, ↓reduceIte]
      exact getAttr_setAttr_attr_ne g k k' v h2
  · simp only [h1, false_and, ↓reduceIte]
    exact getAttr_setAttr_ne g a v h1 a'

/-! ## newNode -/

theorem newNode_snd (g : Graph) (kd : NKind) : (g.newNode kd).2 = g.nextKey := rfl
theorem nextKey_newNode (g : Graph) (kd : NKind) : (g.newNode kd).1.nextKey = g.nextKey + 1 := rfl
theorem nextId_newNode (g : Graph) (kd : NKind) : (g.newNode kd).1.nextId = g.nextId := rfl
theorem keys_newNode (g : Graph) (kd : NKind) : keys (g.newNode kd).1 = keys g ++ [g.nextKey] := by
  simp [keys, Graph.newNode]

theorem node?_newNode (g : Graph) (kd : NKind) (k : Nat) :
    (g.newNode kd).1.node? k =
      match g.node? k with
      | some n => some n
      | none => if k = g.nextKey then some { kind := kd } else none := by
  unfold Graph.node? Graph.newNode
  simp only [List.find?_append]
  cases h : g.nodes.find? (fun kn => kn.1 == k) with
  | some x => simp
  | none =>
    by_cases hk : k = g.nextKey
    · subst hk; simp [List.find?]
    · have : (g.nextKey == k) = false := by simpa using fun e => hk e.symm
      simp [List.find?, this, hk]

theorem node?_isSome_newNode (g : Graph) (kd : NKind) (k : Nat) :
    ((g.newNode kd).1.node? k).isSome = ((g.node? k).isSome || decide (k = g.nextKey)) := by
  rw [node?_newNode]
  cases g.node? k with
  | some n => simp
  | none => by_cases hk : k = g.nextKey <;> simp [hk]

/-- the new node has no links and old nodes keep theirs -/
theorem links_newNode (g : Graph) (kd : NKind) (k : Nat) : (g.newNode kd).1.links k = g.links k := by
  unfold Graph.links
  rw [node?_newNode]
  cases g.node? k with
  | some n => rfl
  | none => by_cases hk : k = g.nextKey <;> simp [hk]

theorem child?_newNode (g : Graph) (kd : NKind) (k : Nat) (m : String) :
    (g.newNode kd).1.child? k m = g.child? k m := by simp [child?_eq, links_newNode]

/-- the new node has no attributes and old nodes keep theirs -/
theorem getAttr_newNode (g : Graph) (kd : NKind) (k : Nat) (a : String) :
    (g.newNode kd).1.getAttr k a = g.getAttr k a := by
  unfold Graph.getAttr
  rw [node?_newNode]
  cases g.node? k with
  | some n => rfl
  | none => by_cases hk : k = g.nextKey <;> simp [hk]

/-! ## freshId -/

theorem nodes_freshId (g : Graph) : (g.freshId).1.nodes = g.nodes := rfl
theorem keys_freshId (g : Graph) : keys (g.freshId).1 = keys g := rfl
theorem nextKey_freshId (g : Graph) : (g.freshId).1.nextKey = g.nextKey := rfl
theorem nextId_freshId (g : Graph) : (g.freshId).1.nextId = g.nextId + 1 := rfl
theorem node?_freshId (g : Graph) (k : Nat) : (g.freshId).1.node? k = g.node? k := rfl
theorem links_freshId (g : Graph) (k : Nat) : (g.freshId).1.links k = g.links k := rfl
theorem child?_freshId (g : Graph) (k : Nat) (m : String) : (g.freshId).1.child? k m = g.child? k m := rfl
theorem getAttr_freshId (g : Graph) (k : Nat) (a : String) : (g.freshId).1.getAttr k a = g.getAttr k a := rfl

/-! ## ensureGroup -/

theorem ensureGroup_of_some {g : Graph} {p k : Nat} {n : String} (h : g.child? p n = some k) :
    g.ensureGroup p n = (g, k) := by simp [Graph.ensureGroup, h]

theorem ensureGroup_of_none {g : Graph} {p : Nat} {n : String} (h : g.child? p n = none) :
    g.ensureGroup p n = ((g.newNode .group).1.addLink p n g.nextKey, g.nextKey) := by
  simp [Graph.ensureGroup, h, Graph.newNode]

theorem nextId_ensureGroup (g : Graph) (p : Nat) (n : String) : (g.ensureGroup p n).1.nextId = g.nextId := by
  cases h : g.child? p n with
  | some k => rw [ensureGroup_of_some h]
  | none => rw [ensureGroup_of_none h]; rfl

theorem getAttr_ensureGroup (g : Graph) (p : Nat) (n : String) (k : Nat) (a : String) :
    (g.ensureGroup p n).1.getAttr k a = g.getAttr k a := by
  cases h : g.child? p n with
  | some k => rw [ensureGroup_of_some h]
  | none => rw [ensureGroup_of_none h]; simp [getAttr_addLink, getAttr_newNode]

/-- after `ensureGroup` the child is there (the parent must exist) -/
theorem child?_ensureGroup (g : Graph) {p : Nat} (n : String) (hp : (g.node? p).isSome) :
    (g.ensureGroup p n).1.child? p n = some (g.ensureGroup p n).2 := by
  cases h : g.child? p n with
  | some k => rw [ensureGroup_of_some h]; exact h
  | none =>
    rw [ensureGroup_of_none h]
    apply child?_addLink_self
    · rw [node?_isSome_newNode]; simp [hp]
    · rw [child?_newNode]; exact h

/-- `ensureGroup` keeps every existing link, in place; the only possible addition is the new
group, appended to `p` -/
theorem links_ensureGroup (g : Graph) {p : Nat} (n : String) (hp : (g.node? p).isSome) (k : Nat) :
    (g.ensureGroup p n).1.links k =
      if k = p ∧ g.child? p n = none then g.links k ++ [(n, g.nextKey)] else g.links k := by
  cases h : g.child? p n with
  | some c => rw [ensureGroup_of_some h]; simp
  | none =>
    rw [ensureGroup_of_none h]
    by_cases hk : k = p
    · subst hk
      simp only [and_self, ↓reduceIte]
      rw [links_addLink_self _ _ _ (by rw [node?_isSome_newNode]; simp [hp]), links_newNode]
    · simp only [hk, false_and, ↓reduceIte]
      rw [links_addLink_ne _ _ _ hk, links_newNode]

/-! ## deleteAll -/

/-- the filter `delete_all(ids)` applies to every link list -/
def keepLink (g : Graph) (ids : List String) (l : String × Nat) : Bool :=
  match g.entityId l.2 with
  | some i => !ids.contains i
  | none => true

theorem keys_deleteAll (g : Graph) (ids : List String) : keys (g.deleteAll ids) = keys g := by
  simp [keys, Graph.deleteAll, List.map_map, Function.comp_def]
theorem nextKey_deleteAll (g : Graph) (ids : List String) : (g.deleteAll ids).nextKey = g.nextKey := rfl
theorem nextId_deleteAll (g : Graph) (ids : List String) : (g.deleteAll ids).nextId = g.nextId := rfl

theorem node?_deleteAll (g : Graph) (ids : List String) (k : Nat) :
    (g.deleteAll ids).node? k =
      (g.node? k).map fun n => { n with links := n.links.filter (keepLink g ids) } := by
  unfold Graph.node? Graph.deleteAll
  simp only
  generalize g.nodes = l
  induction l with
  | nil => rfl
  | cons a rest ih =>
    simp only [List.map_cons, List.find?]
    by_cases hk : a.1 = k
    · simp only [hk, beq_self_eq_true, Option.map_some]
      rfl
    · have : (a.1 == k) = false := by simpa using hk
      simp only [this]
      exact ih

theorem node?_isSome_deleteAll (g : Graph) (ids : List String) (k : Nat) :
    ((g.deleteAll ids).node? k).isSome = (g.node? k).isSome := by
  rw [node?_deleteAll]; simp

theorem links_deleteAll (g : Graph) (ids : List String) (k : Nat) :
    (g.deleteAll ids).links k = (g.links k).filter (keepLink g ids) := by
  unfold Graph.links
  rw [node?_deleteAll]
  cases g.node? k <;> simp

theorem getAttr_deleteAll (g : Graph) (ids : List String) (k : Nat) (a : String) :
    (g.deleteAll ids).getAttr k a = g.getAttr k a := by
  unfold Graph.getAttr
  rw [node?_deleteAll]
  cases g.node? k <;> simp

theorem links_deleteAll_sublist (g : Graph) (ids : List String) (k : Nat) :
    ((g.deleteAll ids).links k).Sublist (g.links k) := by
  rw [links_deleteAll]; exact List.filter_sublist

/-! ## deleteObjs (`delete_all` after the repair: by object) -/

/-- the filter `delete_all(objs)` applies to every link list -/
def keepObj (ks : List Nat) (l : String × Nat) : Bool := !ks.contains l.2

theorem keys_deleteObjs (g : Graph) (ks : List Nat) : keys (g.deleteObjs ks) = keys g := by
  simp [keys, Graph.deleteObjs, List.map_map, Function.comp_def]
theorem nextKey_deleteObjs (g : Graph) (ks : List Nat) : (g.deleteObjs ks).nextKey = g.nextKey := rfl
theorem nextId_deleteObjs (g : Graph) (ks : List Nat) : (g.deleteObjs ks).nextId = g.nextId := rfl

theorem node?_deleteObjs (g : Graph) (ks : List Nat) (k : Nat) :
    (g.deleteObjs ks).node? k =
      (g.node? k).map fun n => { n with links := n.links.filter (keepObj ks) } := by
  unfold Graph.node? Graph.deleteObjs
  simp only
  generalize g.nodes = l
  induction l with
  | nil => rfl
  | cons a rest ih =>
    simp only [List.map_cons, List.find?]
    by_cases hk : a.1 = k
    · simp only [hk, beq_self_eq_true, Option.map_some]
      rfl
    · have : (a.1 == k) = false := by simpa using hk
      simp only [this]
      exact ih

theorem node?_isSome_deleteObjs (g : Graph) (ks : List Nat) (k : Nat) :
    ((g.deleteObjs ks).node? k).isSome = (g.node? k).isSome := by
  rw [node?_deleteObjs]; simp

theorem links_deleteObjs (g : Graph) (ks : List Nat) (k : Nat) :
    (g.deleteObjs ks).links k = (g.links k).filter (keepObj ks) := by
  unfold Graph.links
  rw [node?_deleteObjs]
  cases g.node? k <;> simp

theorem getAttr_deleteObjs (g : Graph) (ks : List Nat) (k : Nat) (a : String) :
    (g.deleteObjs ks).getAttr k a = g.getAttr k a := by
  unfold Graph.getAttr
  rw [node?_deleteObjs]
  cases g.node? k <;> simp

theorem links_deleteObjs_sublist (g : Graph) (ks : List Nat) (k : Nat) :
    ((g.deleteObjs ks).links k).Sublist (g.links k) := by
  rw [links_deleteObjs]; exact List.filter_sublist

/-! ## derived observations: entityId, kindOf -/

theorem entityId_eq (g : Graph) (k : Nat) : g.entityId k = g.getAttr k "entity_id" := rfl
theorem kindOf_eq (g : Graph) (k : Nat) : kindOf g k = (g.getAttr k "~kind").getD "" := rfl

/-- observations that depend on attributes only are equal in graphs with equal attributes -/
theorem kindOf_congr {g g' : Graph} (h : ∀ k a, g'.getAttr k a = g.getAttr k a) (k : Nat) :
    kindOf g' k = kindOf g k := by simp [kindOf_eq, h]

theorem entityId_congr {g g' : Graph} (h : ∀ k a, g'.getAttr k a = g.getAttr k a) (k : Nat) :
    g'.entityId k = g.entityId k := by simp [entityId_eq, h]

end Nix.Store.Lemmas
