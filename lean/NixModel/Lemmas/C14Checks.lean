import NixModel.Pure.Validator
import Mathlib.Tactic.Tauto

/-!
# C14 — membership characterisations of the per-object check functions

For every check function of the model: a message is in the returned list **iff** its condition holds —
"exactly these and nothing else".  The per-dimension messages carry the 1-based position of the
descriptor, which is what makes "for exactly the dimensions that have it" provable.
-/
namespace Nix.Validator.Lemmas
open Nix.Validator Nix.Validator.Gen

/-! ## check_entity -/

theorem mem_checkEntity (e : Ent) (m : Msg) :
    m ∈ checkEntity e ↔
      (m = .plain .NoType ∧ falsy e.type_ = true) ∨ (m = .plain .NoID ∧ falsy e.id = true) ∨
      (m = .plain .NoName ∧ falsy e.name = true) ∨ (m = .plain .NoDate ∧ e.createdAt = none) := by
  simp only [checkEntity, List.mem_append, List.mem_ite_nil_right, List.mem_singleton,
    Option.isNone_iff_eq_none]
  tauto

/-- only the four entity messages can come out of `check_entity` -/
theorem checkEntity_ids (e : Ent) (m : Msg) (h : m ∈ checkEntity e) :
    m = .plain .NoType ∨ m = .plain .NoID ∨ m = .plain .NoName ∨ m = .plain .NoDate := by
  rw [mem_checkEntity] at h
  tauto

/-! ## dimensions -/

theorem mem_checkRangeDim (d : Dim) (idx : Nat) (m : Msg) :
    m ∈ checkRangeDim d idx ↔
      (m = .dim .NoTicks idx ∧ d.ticks = []) ∨
      (m = .dim .UnsortedTicks idx ∧ d.ticks ≠ [] ∧ ticksSorted d.ticks = false) ∨
      (m = .dim .InvalidDimensionUnit idx ∧ badDimUnit d.unit = true) := by
  unfold checkRangeDim
  by_cases h1 : d.ticks.isEmpty = true
  · have h1' : d.ticks = [] := List.isEmpty_iff.mp h1
    simp [h1']
    tauto
  · have h1' : d.ticks ≠ [] := fun h => h1 (List.isEmpty_iff.mpr h)
    by_cases h2 : ticksSorted d.ticks = true <;> simp [h1, h1', h2] <;> tauto

theorem mem_checkSampledDim (d : Dim) (idx : Nat) (m : Msg) :
    m ∈ checkSampledDim d idx ↔
      (m = .dim .NoSamplingInterval idx ∧ noInterval d.interval = true) ∨
      (m = .dim .InvalidSamplingInterval idx ∧ ∃ r, d.interval = some r ∧ r < 0) ∨
      (m = .dim .InvalidDimensionUnit idx ∧ badDimUnit d.unit = true) := by
  unfold checkSampledDim
  have hb : badDimUnit d.unit = true → falsy d.unit = false := by
    intro h
    simp only [badDimUnit, Bool.and_eq_true, Bool.not_eq_true'] at h
    exact h.1
  by_cases h1 : noInterval d.interval = true
  · have hneg : ¬ ∃ r, d.interval = some r ∧ r < 0 := by
      rintro ⟨r, hr, hlt⟩
      simp only [hr, noInterval, beq_iff_eq] at h1
      subst h1
      exact absurd hlt (by decide)
    by_cases h3 : badDimUnit d.unit = true
    · simp [h1, hneg, h3, hb h3]
    · by_cases h4 : falsy d.unit = true <;> simp [h1, hneg, h3, h4]
  · cases hi : d.interval with
    | none => simp [hi, noInterval] at h1
    | some r =>
      have h1' : noInterval (some r) = false := by simpa [hi] using h1
      by_cases h2 : r < 0 <;> by_cases h3 : badDimUnit d.unit = true
      · simp [h1', h2, h3, hb h3]
      · by_cases h4 : falsy d.unit = true <;> simp [h1', h2, h3, h4]
      · simp [h1', h2, h3, hb h3]
      · by_cases h4 : falsy d.unit = true <;> simp [h1', h2, h3, h4]

/-- the condition under which the loop body reports message `m` for a descriptor at position `idx` -/
def DimSpec (idx : Nat) (d : Dim) (datalen : Nat) (m : Msg) : Prop :=
  (m = .dim .InvalidDimensionIndex idx ∧ d.index ≤ 0) ∨
  (m = .dim2 .IncorrectDimensionIndex idx d.index ∧ 0 < d.index ∧ d.index ≠ (idx : Int)) ∨
  (m = .dim .RangeDimTicksMismatch idx ∧ d.kind = .range ∧ d.ticks.length ≠ datalen) ∨
  (m = .dim .NoTicks idx ∧ d.kind = .range ∧ d.ticks = []) ∨
  (m = .dim .UnsortedTicks idx ∧ d.kind = .range ∧ d.ticks ≠ [] ∧ ticksSorted d.ticks = false) ∨
  (m = .dim .InvalidDimensionUnit idx ∧ (d.kind = .range ∨ d.kind = .sample) ∧ badDimUnit d.unit = true) ∨
  (m = .dim .NoSamplingInterval idx ∧ d.kind = .sample ∧ noInterval d.interval = true) ∨
  (m = .dim .InvalidSamplingInterval idx ∧ d.kind = .sample ∧ ∃ r, d.interval = some r ∧ r < 0) ∨
  (m = .dim .SetDimLabelsMismatch idx ∧ d.kind = .set ∧ d.nLabels ≠ 0 ∧ d.nLabels ≠ datalen)

theorem mem_indexMsgs (idx : Nat) (d : Dim) (m : Msg) :
    m ∈ (if (d.index == 0 || decide (d.index ≤ 0)) = true then [Msg.dim .InvalidDimensionIndex idx]
         else if (d.index != (idx : Int)) = true then [Msg.dim2 .IncorrectDimensionIndex idx d.index] else []) ↔
      (m = .dim .InvalidDimensionIndex idx ∧ d.index ≤ 0) ∨
      (m = .dim2 .IncorrectDimensionIndex idx d.index ∧ 0 < d.index ∧ d.index ≠ (idx : Int)) := by
  by_cases h1 : d.index ≤ 0
  · have : (d.index == 0 || decide (d.index ≤ 0)) = true := by simp [h1]
    simp only [this, if_true, List.mem_singleton]
    constructor
    · intro h; exact Or.inl ⟨h, h1⟩
    · rintro (⟨h, _⟩ | ⟨_, h, _⟩)
      · exact h
      · omega
  · have h0 : d.index ≠ 0 := by omega
    have : (d.index == 0 || decide (d.index ≤ 0)) = false := by simp [h1, h0]
    simp only [this, Bool.false_eq_true, if_false]
    by_cases h2 : d.index = (idx : Int)
    · have : (d.index != (idx : Int)) = false := by simp [h2]
      simp only [this, Bool.false_eq_true, if_false, List.not_mem_nil, false_iff]
      rintro (⟨_, h⟩ | ⟨_, _, h⟩)
      · omega
      · exact h h2
    · have : (d.index != (idx : Int)) = true := by simp [h2]
      simp only [this, if_true, List.mem_singleton]
      constructor
      · intro h; exact Or.inr ⟨h, by omega, h2⟩
      · rintro (⟨_, h⟩ | ⟨h, _⟩)
        · omega
        · exact h

theorem mem_dimMsgs (idx : Nat) (d : Dim) (n : Nat) (m : Msg) :
    m ∈ dimMsgs idx d n ↔ DimSpec idx d n m := by
  unfold dimMsgs DimSpec
  rw [List.mem_append, mem_indexMsgs]
  cases hk : d.kind with
  | range =>
    simp only [List.mem_append, List.mem_ite_nil_right, List.mem_singleton, mem_checkRangeDim, bne_iff_ne,
      ne_eq, reduceCtorEq, false_and, and_false, or_false, true_and, false_or, true_or]
    tauto
  | sample =>
    simp only [mem_checkSampledDim, reduceCtorEq, false_and, and_false, or_false, true_and, false_or, or_true]
    generalize (∃ r, d.interval = some r ∧ r < 0) = E
    tauto
  | set =>
    simp only [List.mem_ite_nil_right, List.mem_singleton, Bool.and_eq_true, bne_iff_ne, ne_eq, reduceCtorEq,
      false_and, and_false, or_false, true_and, false_or, false_or]
    tauto

theorem mem_dimLoop (m : Msg) (l : List (Dim × Nat)) :
    ∀ start, m ∈ dimLoop start l ↔ ∃ i d n, l[i]? = some (d, n) ∧ m ∈ dimMsgs (start + i) d n := by
  induction l with
  | nil => intro start; simp [dimLoop]
  | cons x rest ih =>
    intro start
    obtain ⟨d0, n0⟩ := x
    simp only [dimLoop, List.mem_append, ih]
    constructor
    · rintro (h | ⟨i, d, n, hi, hm⟩)
      · exact ⟨0, d0, n0, by simp, by simpa using h⟩
      · refine ⟨i + 1, d, n, by simpa using hi, ?_⟩
        have : start + (i + 1) = start + 1 + i := by omega
        rw [this]; exact hm
    · rintro ⟨i, d, n, hi, hm⟩
      cases i with
      | zero =>
        simp only [List.getElem?_cons_zero, Option.some.injEq, Prod.mk.injEq] at hi
        obtain ⟨rfl, rfl⟩ := hi
        exact Or.inl (by simpa using hm)
      | succ j =>
        refine Or.inr ⟨j, d, n, by simpa using hi, ?_⟩
        have : start + (j + 1) = start + 1 + j := by omega
        rw [← this]; exact hm

/-- every message of the loop body names its own position: a message for position `idx` can only come
from the descriptor at position `idx` -/
theorem dimMsgs_idx {idx : Nat} {d : Dim} {n : Nat} {m : Msg} (h : m ∈ dimMsgs idx d n) :
    (∃ k, m = .dim k idx) ∨ (∃ k v, m = .dim2 k idx v) := by
  rw [mem_dimMsgs] at h
  unfold DimSpec at h
  rcases h with h | h | h | h | h | h | h | h | h
  all_goals first
    | exact Or.inl ⟨_, h.1⟩
    | exact Or.inr ⟨_, _, h.1⟩

/-! ## check_data_array -/

/-- `check_data_array` reports `m` iff … -/
theorem mem_checkDataArray (da : DataArray) (m : Msg) :
    m ∈ checkDataArray da ↔
      m ∈ checkEntity da.ent ∨
      (m = .plain .NoDataType ∧ falsy da.dataType = true) ∨
      (m = .plain .DimensionMismatch ∧ da.dims.length ≠ da.shape.length) ∨
      (∃ i d n, (da.dims.zip da.shape)[i]? = some (d, n) ∧ DimSpec (i + 1) d n m) := by
  unfold checkDataArray
  simp only [List.mem_append, List.mem_ite_nil_right, List.mem_singleton, bne_iff_ne, ne_eq, mem_dimLoop,
    mem_dimMsgs]
  constructor
  · rintro (((h | h) | h) | ⟨i, d, n, hi, hm⟩)
    · exact Or.inl h
    · exact Or.inr (Or.inl ⟨h.2, h.1⟩)
    · exact Or.inr (Or.inr (Or.inl ⟨h.2, h.1⟩))
    · exact Or.inr (Or.inr (Or.inr ⟨i, d, n, hi, by rwa [Nat.add_comm] at hm⟩))
  · rintro (h | h | h | ⟨i, d, n, hi, hm⟩)
    · exact Or.inl (Or.inl (Or.inl h))
    · exact Or.inl (Or.inl (Or.inr ⟨h.2, h.1⟩))
    · exact Or.inl (Or.inr ⟨h.2, h.1⟩)
    · exact Or.inr ⟨i, d, n, hi, by rwa [Nat.add_comm]⟩

end Nix.Validator.Lemmas
