import NixModel.Pure.Version
import NixModel.Lemmas.C11

/-!
Helper lemmas for C11: `openPath` (`File.__init__` over the generated shape, for a path in any
condition) — evaluation of the generated guards, the ordered tail against the closed form
`checkAndFinish`, and the bridge to `openFile` on missing paths and HDF5 files.
-/
namespace Nix.Version.Lemmas
open Nix Nix.Version Nix.Gen.Format

/-- lift a result over `Option Disk` to `Node` -/
def liftR (r : Option Disk × Except Refusal Session) : Node × Except Refusal Session := (Node.ofDisk r.1, r.2)

/-! ### the guards of `File.__init__` -/

theorem guards_hdf (mode : Str) (d : Disk) : runGuards mode (.hdf d) initGuards = .ok () := by
  simp [runGuards, initGuards, Node.ex, Node.isf, Node.emp]

theorem guards_dir (mode : Str) (t : Str) : runGuards mode (.dir t) initGuards = .ok () := by
  simp [runGuards, initGuards, Node.ex, Node.isf, Node.emp]

theorem guards_blob (mode : Str) (t : Str) : runGuards mode (.blob t false) initGuards = .ok () := by
  simp [runGuards, initGuards, Node.ex, Node.isf, Node.emp]

theorem guards_missing (mode : Str) :
    runGuards mode .missing initGuards = if mode = modeReadOnly then .error .runtimeError else .ok () := by
  by_cases h : mode = modeReadOnly <;> simp [runGuards, initGuards, Node.ex, Node.isf, Node.emp, h]

/-- an existing empty file: refused unless the mode is Overwrite (an invalid letter is reported first) -/
theorem guards_empty (mode : Str) (t : Str) :
    runGuards mode (.blob t true) initGuards
      = if mode = modeOverwrite then .ok ()
        else match mapFileMode mode with
          | .error e => .error e
          | .ok _ => .error .invalidFile := by
  by_cases h : mode = modeOverwrite
  · simp [runGuards, initGuards, Node.ex, Node.isf, Node.emp, h]
  · simp [runGuards, initGuards, Node.isf, Node.emp, h]
    cases mapFileMode mode <;> rfl

/-! ### the create-or-open condition -/

theorem createCond_missing (mode : Str) : initCreateCond mode Node.missing.ex Node.missing.isf Node.missing.emp = true := by
  simp [initCreateCond, Node.ex]

theorem createCond_exists (mode : Str) (n : Node) (h : n ≠ .missing) :
    initCreateCond mode n.ex n.isf n.emp = decide (mode = modeOverwrite) := by
  cases n <;> simp_all [initCreateCond, Node.ex]

theorem createMode : initCreateMode = modeOverwrite := rfl

/-! ### the ordered tail is `_check_header`, then the four `ensure…` writes -/

theorem checkAndFinishT_eq (mode : Str) (acc : Acc) (d : Disk) :
    checkAndFinishT mode acc d = liftR (checkAndFinish mode acc d) := by
  obtain ⟨hdr, a, b, c, e, ct⟩ := d
  simp only [checkAndFinishT, initTail, runTail, tailStep, checkAndFinish, liftR]
  cases hch : checkHeader mode hdr with
  | error x => simp [Node.ofDisk]
  | ok u =>
    cases acc <;> cases a <;> cases b <;> cases c <;> cases e <;> simp [finishOpen, Node.ofDisk]

/-! ### the bridge: on a missing path or an HDF5 file `openPath` is `openFile` -/

theorem h5fOpen_hdf (acc : Acc) (d : Disk) : h5fOpen acc (.hdf d) = some d := rfl

theorem openPath_ofDisk (mode : Str) (disk : Option Disk) (fid : Str) :
    openPath mode (Node.ofDisk disk) fid = liftR (openFile mode disk fid) := by
  cases disk with
  | none =>
    simp only [Node.ofDisk, openPath, guards_missing, openFile]
    by_cases hm : mode = modeReadOnly
    · simp [hm, liftR, Node.ofDisk]
    · simp only [hm, if_false, createCond_missing, if_true, createMode, mapFileMode_ow, ne_eq, not_true_eq_false]
      rw [checkAndFinishT_eq]
  | some d =>
    simp only [Node.ofDisk, openPath, guards_hdf, openFile, createCond_exists mode (.hdf d) (by simp)]
    by_cases hm : mode = modeOverwrite
    · simp only [hm, decide_true, if_true, createMode, mapFileMode_ow, ne_eq, not_true_eq_false, if_false]
      rw [checkAndFinishT_eq]
    · simp only [hm, decide_false, if_false, Bool.false_eq_true]
      cases hmm : mapFileMode mode with
      | error e => simp [liftR, Node.ofDisk]
      | ok acc =>
        by_cases ht : acc = .trunc
        · simp [ht, liftR, Node.ofDisk]
        · simp only [ht, if_false, h5fOpen_hdf]
          rw [checkAndFinishT_eq]

/-! ### paths that libhdf5 cannot open -/

/-- what `h5f.open` cannot open -/
def Node.unopenable : Node → Prop
  | .blob _ _ => True
  | .dir _ => True
  | _ => False

instance (n : Node) : Decidable (Node.unopenable n) := by cases n <;> simp [Node.unopenable] <;> infer_instance

theorem unopenable_ne_missing (n : Node) (h : Node.unopenable n) : n ≠ .missing := by
  cases n <;> simp_all [Node.unopenable]

/-- every open of such a path with a letter other than the Overwrite one is refused and leaves the
path exactly as it was — whatever the letter (valid or not) -/
theorem openPath_unopenable (mode : Str) (hm : mode ≠ modeOverwrite) (n : Node) (hn : Node.unopenable n) (fid : Str) :
    ∃ r, openPath mode n fid = (n, .error r) := by
  cases n with
  | missing => simp [Node.unopenable] at hn
  | hdf d => simp [Node.unopenable] at hn
  | dir t =>
    simp only [openPath, guards_dir, createCond_exists mode (.dir t) (by simp), hm, decide_false, if_false,
      Bool.false_eq_true]
    cases hmm : mapFileMode mode with
    | error e => exact ⟨_, rfl⟩
    | ok acc =>
      by_cases ht : acc = .trunc
      · simp only [ht, if_true]; exact ⟨_, rfl⟩
      · simp only [ht, if_false, h5fOpen]; exact ⟨_, rfl⟩
  | blob t e =>
    cases e with
    | true =>
      simp only [openPath, guards_empty, hm, if_false]
      cases hmm : mapFileMode mode with
      | error e => exact ⟨_, rfl⟩
      | ok acc => exact ⟨_, rfl⟩
    | false =>
      simp only [openPath, guards_blob, createCond_exists mode (.blob t false) (by simp), hm, decide_false, if_false,
        Bool.false_eq_true]
      cases hmm : mapFileMode mode with
      | error e => exact ⟨_, rfl⟩
      | ok acc =>
        by_cases ht : acc = .trunc
        · simp only [ht, if_true]; exact ⟨_, rfl⟩
        · simp only [ht, if_false, h5fOpen]; exact ⟨_, rfl⟩

end Nix.Version.Lemmas
