import NixModel.Lemmas.C12Auto

/-!
# C12 — `Block.create_multi_tag`: refused ⇒ unchanged, for every argument form
-/
namespace Nix.Store.Lemmas
open Nix.Store Nix.Store.Graph

/-! ## observational equality of reached graphs, and `delete_all` in either order -/

structure ObsEq (h h' : Graph) : Prop where
  nextKey : h'.nextKey = h.nextKey
  nextId : h'.nextId = h.nextId
  has : ∀ k, Has h' k ↔ Has h k
  attrs : ∀ k a, h'.getAttr k a = h.getAttr k a
  links : ∀ k, h'.links k = h.links k

theorem Unch.of_obsEq {g h h' : Graph} (hU : Unch g h) (he : ObsEq h h') : Unch g h' := by
  refine ⟨he.nextKey ▸ hU.nextKey_le, he.nextId ▸ hU.nextId_le, fun k hk => (he.has k).mpr (hU.keeps k hk), ?_,
    fun k hk a => (he.attrs k a).trans (hU.attrs k hk a), ?_⟩
  · intro k hk
    rw [he.nextKey]
    exact hU.news k ((he.has k).mp hk)
  · intro k hk
    obtain ⟨ex, hl, hx⟩ := hU.links k hk
    refine ⟨ex, (he.links k).trans hl, ?_⟩
    intro l hl'
    obtain ⟨a1, ⟨b1, b2, b3⟩, a3⟩ := hx l hl'
    exact ⟨a1, ⟨(he.has _).mpr b1, (he.links _).trans b2, fun a => (he.attrs _ a).trans (b3 a)⟩, a3⟩

theorem deleteObjs_comm (h : Graph) (a b : Nat) :
    ObsEq ((h.deleteObjs [a]).deleteObjs [b]) ((h.deleteObjs [b]).deleteObjs [a]) := by
  refine ⟨rfl, rfl, ?_, ?_, ?_⟩
  · intro k
    unfold Has
    rw [node?_isSome_deleteObjs, node?_isSome_deleteObjs, node?_isSome_deleteObjs, node?_isSome_deleteObjs]
  · intro k a
    rw [getAttr_deleteObjs, getAttr_deleteObjs, getAttr_deleteObjs, getAttr_deleteObjs]
  · intro k
    rw [links_deleteObjs, links_deleteObjs, links_deleteObjs, links_deleteObjs,
      List.filter_filter, List.filter_filter]
    congr 1
    funext l
    exact Bool.and_comm _ _

theorem ObsEq.refl (h : Graph) : ObsEq h h := ⟨rfl, rfl, fun _ => Iff.rfl, fun _ _ => rfl, fun _ => rfl⟩

/-- the two auto-created arrays may be deleted in either order -/
theorem dropAuto_comm (h : Graph) (a b : Nat) :
    ObsEq (dropAuto (dropAuto h (some a)) (some b)) (dropAuto (dropAuto h (some b)) (some a)) :=
  deleteObjs_comm h a b

theorem mtagTail_unch {g gB : Graph} (undo : Graph → Graph) (hundo : ∀ hh, Unch gB hh → Unch g (undo hh))
    (hK : KeysLt gB) {o : Nat} (hto : ∀ l, l ∈ gB.links o → Has gB l.2) (ho : Has gB o)
    (hkind : kindOf gB o ≠ "") (n t : String) (hn : (n == "") = false) (hsl : hasSlash n = false)
    (ht : (t == "") = false) (hd : hasEntry gB o "multi_tags" n = false) (pk : Nat) (ek : Option Nat)
    (hne : (mtagTail gB undo o n t pk ek).2 ≠ none) : Unch g (mtagTail gB undo o n t pk ek).1 := by
  unfold mtagTail at hne ⊢
  have roll := fun g1 c k hE =>
    entity_rollback hK hto "multi_tags" n t "multi_tag" ho (.inr hkind) hn hsl ht hd g1 c k hE
  generalize hE : entityCreateNewW gB o "multi_tags" n t "multi_tag" = r at hne ⊢
  rcases r with ⟨g3, (e' | ⟨c, k⟩)⟩
  · have := entityCreateNewW_err (P := Has gB) gB o "multi_tags" n t "multi_tag" e' (by rw [hE])
    rw [hE] at this
    exact hundo _ this.unch
  · simp only at hne ⊢
    have r0 := hundo _ (roll g3 c k hE g3 (fun P _ => SameOn.refl P g3))
    have r1 := hundo _ (roll g3 c k hE (createLinkIn g3 k "positions" pk)
      (fun P hP => sameOn_createLinkIn g3 "positions" pk hP))
    split
    · exact r0
    · split
      · exact r0
      · cases ek with
        | none => simp_all
        | some e1 =>
          simp only at hne ⊢
          split
          · exact r1
          · split
            · exact r1
            · simp_all

theorem autoArray_ok_none {g g1 : Graph} {p : Path} {nm ty : String} {f : Option Fault} {K : Nat}
    (h : autoArray g p nm ty f = (g1, .ok K)) : autoArray g p nm ty none = (g1, .ok K) := by
  cases f with
  | none => exact h
  | some f' => exact absurd (by rw [h]) (autoArray_fault_fails g p nm ty f' K)

theorem wf_tidy {g : Graph} (h : WF g) : Tidy g :=
  ⟨wf_keysLt h, (node?_isSome_iff g 0).mpr h.root, fun _ _ hl => wf_has_target h hl⟩

/-- **`create_multi_tag`: refused ⇒ unchanged**, positions and extents given as existing objects (of any
kind, of any block), as valid data, as data of an invalid class, or not at all -/
theorem createMultiTagW_unch {g : Graph} (hWF : WF g) (p : Path) (n t : String) (pos ext : ArrArg)
    (hnP : ∀ m, n ++ "-positions" ≠ idStr m) (hnE : ∀ m, n ++ "-extents" ≠ idStr m) (e : Err)
    (h : (createMultiTagW g p n t pos ext).2 = some e) : Unch g (createMultiTagW g p n t pos ext).1 := by
  have hT := wf_tidy hWF
  unfold createMultiTagW at h ⊢
  cases hr : resolve g rootLoc p with
  | none => exact Unch.refl g
  | some o =>
    simp only [hr] at h ⊢
    split
    · exact Unch.refl g
    · rename_i hk
      rw [if_neg hk] at h
      have hkb : kindOf g o.key = "block" := by simpa using hk
      have hk' : kindOf g o.key ≠ "" := by rw [hkb]; decide
      have ho : Has g o.key := has_of_kindOf hk'
      cases hc : checkNameType n t with
      | error e0 => exact Unch.refl g
      | ok u =>
        simp only [hc] at h ⊢
        obtain ⟨hn, hsl, ht⟩ := checkNameType_ok hc
        cases hd : hasEntry g o.key "multi_tags" n with
        | true => simp only [↓reduceIte]; exact Unch.refl g
        | false =>
          simp only [hd, Bool.false_eq_true, ↓reduceIte] at h ⊢
          -- the tail in a graph `gB` with the block intact
          have tailAt : ∀ (gB : Graph) (undo : Graph → Graph), WF gB → (∀ hh, Unch gB hh → Unch g (undo hh)) →
              Has gB o.key → kindOf gB o.key = "block" → hasEntry gB o.key "multi_tags" n = false →
              ∀ pk ek, (mtagTail gB undo o.key n t pk ek).2 ≠ none → Unch g (mtagTail gB undo o.key n t pk ek).1 := by
            intro gB undo hB hundo hoB hkB hdB pk ek hne
            exact mtagTail_unch undo hundo (wf_keysLt hB) (fun l hl => wf_has_target hB hl) hoB
              (by rw [hkB]; decide) n t hn hsl ht hdB pk ek hne
          cases hp : normArr g pos with
          | absent => exact Unch.refl g
          | ref pk =>
            simp only [hp] at h ⊢
            cases he : normArr g ext with
            | ref ek =>
              simp only [he, Bool.false_eq_true, ↓reduceIte] at h ⊢
              exact tailAt g (fun h => h) hWF (fun _ hh => hh) ho hkb hd pk (some ek) (by rw [h]; simp)
            | absent =>
              simp only [he, Bool.false_eq_true, ↓reduceIte] at h ⊢
              exact tailAt g (fun h => h) hWF (fun _ hh => hh) ho hkb hd pk none (by rw [h]; simp)
            | data f2 =>
              simp only [he] at h ⊢
              generalize hA2 : autoArray g p (n ++ "-extents") (t ++ "-extents") f2 = r at h ⊢
              rcases r with ⟨g2, (e2 | k2)⟩
              · simp only [Bool.false_eq_true, ↓reduceIte]
                have := autoArray_unch hT p _ _ f2 e2 (by rw [hA2])
                rw [hA2] at this; exact this
              · simp only [Bool.false_eq_true, ↓reduceIte] at h ⊢
                have hA := autoArray_ok_none hA2
                have hB := autoArray_wf hWF (fun m _ => hnE m) hA
                obtain ⟨b1, b2, b3⟩ := auto_keeps_block hWF hA o hr n hd
                exact tailAt g2 (fun h => dropAuto h (some k2)) hB (auto_lifecycle hWF hA) b1 b2 b3 pk (some k2)
                  (by rw [h]; simp)
          | data f1 =>
            simp only [hp] at h ⊢
            generalize hA1 : autoArray g p (n ++ "-positions") (t ++ "-positions") f1 = r at h ⊢
            rcases r with ⟨g1, (e1 | pk)⟩
            · simp only
              have := autoArray_unch hT p _ _ f1 e1 (by rw [hA1])
              rw [hA1] at this; exact this
            · simp only at h ⊢
              have hA := autoArray_ok_none hA1
              have hB1 := autoArray_wf hWF (fun m _ => hnP m) hA
              have L1 := auto_lifecycle hWF hA
              obtain ⟨b1, b2, b3⟩ := auto_keeps_block hWF hA o hr n hd
              have hr1 := auto_keeps_path hWF hA p o hr
              cases he : normArr g1 ext with
              | ref ek =>
                simp only [he, Bool.false_eq_true, ↓reduceIte] at h ⊢
                exact tailAt g1 (fun h => dropAuto h (some pk)) hB1 L1 b1 b2 b3 pk (some ek) (by rw [h]; simp)
              | absent =>
                simp only [he, Bool.false_eq_true, ↓reduceIte] at h ⊢
                exact tailAt g1 (fun h => dropAuto h (some pk)) hB1 L1 b1 b2 b3 pk none (by rw [h]; simp)
              | data f2 =>
                simp only [he] at h ⊢
                generalize hA2 : autoArray g1 p (n ++ "-extents") (t ++ "-extents") f2 = r2 at h ⊢
                rcases r2 with ⟨g2, (e2 | ek)⟩
                · simp only [↓reduceIte]
                  have := autoArray_unch (wf_tidy hB1) p _ _ f2 e2 (by rw [hA2])
                  rw [hA2] at this
                  exact L1 _ this
                · simp only [↓reduceIte] at h ⊢
                  have hA' := autoArray_ok_none hA2
                  have hB2 := autoArray_wf hB1 (fun m _ => hnE m) hA'
                  have L2 := auto_lifecycle hB1 hA'
                  obtain ⟨c1, c2, c3⟩ := auto_keeps_block hB1 hA' o hr1 n b3
                  exact tailAt g2 (fun h => dropAuto (dropAuto h (some pk)) (some ek)) hB2
                    (fun hh hu => (L1 _ (L2 hh hu)).of_obsEq (dropAuto_comm hh ek pk)) c1 c2 c3 pk (some ek)
                    (by rw [h]; simp)

end Nix.Store.Lemmas
