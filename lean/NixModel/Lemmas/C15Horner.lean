import NixModel.Pure.Poly
import Mathlib.Algebra.BigOperators.Fin
import Mathlib.Algebra.Order.Field.Rat
import Mathlib.Tactic.Ring

/-! Helper lemmas for C15: NumPy's `polyval` loop is the polynomial sum. -/
namespace Nix.Poly.Lemmas
open Nix.Poly

/-- value of the polynomial with ascending coefficients `c` at `y` (structural recursion) -/
def evalAsc (y : Rat) : List Rat → Rat
  | [] => 0
  | c :: cs => c + y * evalAsc y cs

theorem evalAsc_append_two (y a b : Rat) (l : List Rat) :
    evalAsc y (l ++ [a, b]) = evalAsc y (l ++ [a + b * y]) := by
  induction l with
  | nil => simp [evalAsc]; ring
  | cons c cs ih => simp [evalAsc, ih]

/-- the loop over the remaining (descending) coefficients -/
theorem polyvalLoop_eq (y : Rat) (rest : List Rat) (acc : Rat) :
    polyvalLoop y acc rest = evalAsc y (rest.reverse ++ [acc]) := by
  induction rest generalizing acc with
  | nil => simp [polyvalLoop, evalAsc]
  | cons a r ih =>
    simp only [polyvalLoop, ih, List.reverse_cons, List.append_assoc, List.singleton_append]
    exact (evalAsc_append_two y a acc r.reverse).symm

theorem polyval_eq (y : Rat) (c : List Rat) (hc : c ≠ []) : polyval y c = .ok (evalAsc y c) := by
  unfold polyval
  cases hr : c.reverse with
  | nil => exact absurd (List.reverse_eq_nil_iff.mp hr) hc
  | cons top rest =>
    have hc' : c = rest.reverse ++ [top] := by
      have := congrArg List.reverse hr
      simpa using this
    simp only [polyvalLoop_eq, hc', mul_zero, add_zero]

/-- Horner form = sum of monomials -/
theorem evalAsc_eq_sum (y : Rat) (c : List Rat) :
    evalAsc y c = ∑ k : Fin c.length, c[k] * y ^ (k : ℕ) := by
  induction c with
  | nil => simp [evalAsc]
  | cons a cs ih =>
    simp only [evalAsc, List.length_cons, Fin.sum_univ_succ, ih, Finset.mul_sum]
    simp [pow_succ]
    apply Finset.sum_congr rfl
    intro k _
    ring

end Nix.Poly.Lemmas
