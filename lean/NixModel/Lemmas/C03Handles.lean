import NixModel.Lemmas.StoreWFC03

/-!
# C03 — entity objects (handles) as keys

`Key.ent k` stands for a Python entity object whose HDF5 object is the node `k` — whichever path the object was
opened through (the owning container, a link list, a role link, a search, a handle kept from before): the harness
resolves `{"o": path}` to the node the path leads to. The lemmas say what the membership test and the deletion by
entity object denote in terms of the creation-ordered entry list of the container, and that every key form that
addresses an entry deletes what the entity key deletes.
-/
namespace Nix.Store.Lemmas
open Nix.Store Nix.Store.Graph

/-- does the entry list hold the node? -/
def holds (g : Graph) (c : Cont) (k : Nat) : Bool := (contEntries g c).any fun l => l.2 == k

theorem holds_iff {g : Graph} {c : Cont} {k : Nat} : holds g c k = true ↔ ∃ l ∈ contEntries g c, l.2 = k := by
  unfold holds
  rw [List.any_eq_true]
  constructor
  · rintro ⟨l, hl, e⟩; exact ⟨l, hl, by simpa using e⟩
  · rintro ⟨l, hl, e⟩; exact ⟨l, hl, by simpa using e⟩

theorem getByName_mem {g : Graph} {c : Cont} {n : String} {l : String × Nat}
    (h : getByName g c.node n = some l) : l ∈ contEntries g c ∧ l.1 = n := by
  unfold getByName at h
  exact ⟨List.mem_of_find?_eq_some h, by simpa using List.find?_some h⟩

/-- **membership by entity object, owning containers**: `e in c` is True exactly when the HDF5 object of `e` is the
target of an entry of `c` — not when `c` merely holds an entity of the same name -/
theorem WF.contHas_ent_plain {g : Graph} (h : WF g) {c : Cont}
    (hok : ∀ l ∈ contEntries g c, EntryOk g c.info l) (hpl : isPlainLike c.info.flavour = true)
    (k : Nat) (hk : kindOf g k = c.info.item) :
    contHas g c (.ent k) = .ok (holds g c k) := by
  have hnd := h.entries_nodup c
  have hk' : (kindOf g k != c.info.item) = false := by simpa using hk
  have key : (match g.getAttr k "name" with
      | some nm => (match getByName g c.node nm with
        | some l => (Except.ok (l.2 == k) : Except Err Bool)
        | none => .ok false)
      | none => .ok false) = .ok (holds g c k) := by
    by_cases hex : ∃ l ∈ contEntries g c, l.2 = k
    · have hh := holds_iff.mpr hex
      obtain ⟨l, hl, e⟩ := hex
      subst e
      obtain ⟨_, _, hname⟩ := hok l hl
      simp only [hpl, if_true] at hname
      have hb : getByName g c.node l.1 = some l := find_by_key_nodup _ l.1 l.2 hl hnd
      rw [hname, hh]
      simp only [hb, beq_self_eq_true]
    · have hh : holds g c k = false := by
        rw [Bool.eq_false_iff]; intro ht; exact hex (holds_iff.mp ht)
      rw [hh]
      cases hn : g.getAttr k "name" with
      | none => rfl
      | some nm =>
        simp only
        cases hb : getByName g c.node nm with
        | none => rfl
        | some l =>
          have hne : l.2 ≠ k := fun e => hex ⟨l, (getByName_mem hb).1, e⟩
          simp [hne]
  unfold contHas
  simp only [hk', Bool.false_eq_true, ↓reduceIte]
  cases hfl : c.info.flavour with
  | plain => exact key
  | sections => exact key
  | sources => exact key
  | link => rw [hfl] at hpl; cases hpl
  | sourceLink => rw [hfl] at hpl; cases hpl
  | features => rw [hfl] at hpl; cases hpl

/-- an entity object of another kind is refused -/
theorem contHas_ent_wrong_kind (g : Graph) (c : Cont) (k : Nat) (hk : kindOf g k ≠ c.info.item) :
    contHas g c (.ent k) = .error .typeError := by
  have hk' : (kindOf g k != c.info.item) = true := by simpa using hk
  unfold contHas
  simp [hk']

/-- **membership by entity object, link lists**: True exactly when the object is linked -/
theorem WF.contHas_ent_link {g : Graph} (h : WF g) {c : Cont}
    (hok : ∀ l ∈ contEntries g c, EntryOk g c.info l)
    (hfl : c.info.flavour = .link ∨ c.info.flavour = .sourceLink)
    (k : Nat) (hk : kindOf g k = c.info.item) :
    contHas g c (.ent k) = .ok (holds g c k) := by
  have hnd := h.entries_nodup c
  have hk' : (kindOf g k != c.info.item) = false := by simpa using hk
  have hnpl : isPlainLike c.info.flavour = false := by rcases hfl with e | e <;> rw [e] <;> rfl
  have key : (match g.entityId k with
      | some i => (Except.ok (getByName g c.node i).isSome : Except Err Bool)
      | none => .ok false) = .ok (holds g c k) := by
    by_cases hex : ∃ l ∈ contEntries g c, l.2 = k
    · have hh := holds_iff.mpr hex
      obtain ⟨l, hl, e⟩ := hex
      subst e
      obtain ⟨_, _, hid⟩ := hok l hl
      simp only [hnpl, Bool.false_eq_true, if_false] at hid
      have hb : getByName g c.node l.1 = some l := find_by_key_nodup _ l.1 l.2 hl hnd
      rw [hid, hh]
      simp [hb]
    · have hh : holds g c k = false := by
        rw [Bool.eq_false_iff]; intro ht; exact hex (holds_iff.mp ht)
      rw [hh]
      cases hn : g.entityId k with
      | none => rfl
      | some i =>
        simp only
        cases hb : getByName g c.node i with
        | none => rfl
        | some l =>
          exfalso
          obtain ⟨hl, hl1⟩ := getByName_mem hb
          obtain ⟨_, _, hid⟩ := hok l hl
          simp only [hnpl, Bool.false_eq_true, if_false] at hid
          rw [hl1] at hid
          exact hex ⟨l, hl, h.ids_distinct _ _ i hid hn⟩
  unfold contHas
  simp only [hk', Bool.false_eq_true, ↓reduceIte]
  rcases hfl with e | e <;> rw [e] <;> exact key

/-- every key form that addresses an entry deletes what the entity object of that entry deletes -/
theorem contDel_key_eq_ent {g : Graph} {c : Cont} {key : Key} {e : String × Nat}
    (hget : contGet g c key = .ok e) : Store.contDel g c key = Store.contDel g c (.ent e.2) := by
  unfold Store.contDel
  cases key with
  | ent k => simp [contGet] at hget
  | pos j => simp only [hget, Except.map]
  | str x => simp only [hget, Except.map]

/-- **deletion by entity object** from a plain container removes exactly the entry whose target is the object; the
others keep their order -/
theorem WF.contDel_ent_plain {g : Graph} (h : WF g) {c : Cont}
    (hok : ∀ l ∈ contEntries g c, EntryOk g c.info l) (hfl : c.info.flavour = .plain) {e : String × Nat}
    (hmem : e ∈ contEntries g c) :
    ∃ g', Store.contDel g c (.ent e.2) = .ok g' ∧
      cLinks g' c.node = (contEntries g c).filter (fun l => l != e) := by
  have hpl : isPlainLike c.info.flavour = true := by rw [hfl]; rfl
  obtain ⟨j, hj, ej⟩ := List.getElem_of_mem hmem
  have hj' : j < contLen g c := hj
  have hget : contGet g c (.pos j) = .ok e := by
    rw [contGet_pos_nonneg g c j hj']; exact congrArg Except.ok ej
  obtain ⟨g', hd, hl⟩ := h.contDel_plain_of hok hfl hget
  exact ⟨g', by rw [← contDel_key_eq_ent hget]; exact hd, hl⟩

end Nix.Store.Lemmas

namespace Nix.Store.Lemmas
open Nix.Store Nix.Store.Graph

/-- **all views of a link list agree**: position, id (= link name), membership by id and by entity object address
the `j`-th entry; so does the name of the target when no other target of the list carries it and it is not the id of a
linked entity (sources of different parents may share a name) -/
theorem WF.views_agree_link {g : Graph} (h : WF g) {c : Cont}
    (hok : ∀ l ∈ contEntries g c, EntryOk g c.info l)
    (hfl : c.info.flavour = .link ∨ c.info.flavour = .sourceLink)
    (j : Nat) (hj : j < contLen g c) :
    contGet g c (.pos j) = .ok ((contEntries g c)[j]'hj) ∧
    g.entityId ((contEntries g c)[j]'hj).2 = some ((contEntries g c)[j]'hj).1 ∧
    isUuid ((contEntries g c)[j]'hj).1 = true ∧
    contGet g c (.str ((contEntries g c)[j]'hj).1) = .ok ((contEntries g c)[j]'hj) ∧
    contHas g c (.str ((contEntries g c)[j]'hj).1) = .ok true ∧
    contHas g c (.ent ((contEntries g c)[j]'hj).2) = .ok true ∧
    (∀ nm, g.getAttr ((contEntries g c)[j]'hj).2 "name" = some nm →
      (∀ l ∈ contEntries g c, g.getAttr l.2 "name" = some nm → l = (contEntries g c)[j]'hj) →
      (isUuid nm = true → getByName g c.node nm = none) →
      contGet g c (.str nm) = .ok ((contEntries g c)[j]'hj) ∧ contHas g c (.str nm) = .ok true) := by
  have hnd := h.entries_nodup c
  have hmem : (contEntries g c)[j]'hj ∈ contEntries g c := List.getElem_mem _
  have hnpl : isPlainLike c.info.flavour = false := by rcases hfl with e | e <;> rw [e] <;> rfl
  obtain ⟨hkind, _, hid⟩ := hok _ hmem
  simp only [hnpl, Bool.false_eq_true, if_false] at hid
  obtain ⟨n, _, hin⟩ := h.ids_wf _ _ hid
  have hui : isUuid ((contEntries g c)[j]'hj).1 = true := hin ▸ isUuid_idStr n
  have hb : getByName g c.node ((contEntries g c)[j]'hj).1 = some ((contEntries g c)[j]'hj) :=
    find_by_key_nodup _ _ _ hmem hnd
  have hget : contGet g c (.str ((contEntries g c)[j]'hj).1) = .ok ((contEntries g c)[j]'hj) := by
    unfold contGet
    rcases hfl with e | e <;> rw [e] <;> simp [hui, hb]
  have hhas : contHas g c (.str ((contEntries g c)[j]'hj).1) = .ok true := by
    unfold contHas
    rcases hfl with e | e <;> rw [e] <;> simp [hui, hb]
  refine ⟨contGet_pos_nonneg g c j hj, hid, hui, hget, hhas, ?_, ?_⟩
  · rw [h.contHas_ent_link hok hfl _ hkind]
    exact congrArg Except.ok (holds_iff.mpr ⟨_, hmem, rfl⟩)
  · intro nm hnm huniq hnoclash
    have hscan : scanByNameAttr g c.node nm = some ((contEntries g c)[j]'hj) := by
      unfold scanByNameAttr
      have hex : ∃ l, (cLinks g c.node).find? (fun l => g.getAttr l.2 "name" == some nm) = some l := by
        cases hf : (cLinks g c.node).find? (fun l => g.getAttr l.2 "name" == some nm) with
        | some l => exact ⟨l, rfl⟩
        | none =>
          have := List.find?_eq_none.mp hf _ hmem
          simp [hnm] at this
      obtain ⟨l, hl⟩ := hex
      have hl1 : l ∈ contEntries g c := List.mem_of_find?_eq_some hl
      have hl2 : g.getAttr l.2 "name" = some nm := by have := List.find?_some hl; simpa using this
      rw [hl, huniq l hl1 hl2]
    have hcond : (isUuid nm && (getByName g c.node nm).isSome) = false := by
      cases hu : isUuid nm
      · rfl
      · simp [hnoclash hu]
    constructor
    · unfold contGet
      rcases hfl with e | e <;> rw [e] <;> simp [hcond, hscan]
    · unfold contHas
      rcases hfl with e | e <;> rw [e] <;> simp [hcond, hscan]

end Nix.Store.Lemmas

namespace Nix.Store.Lemmas
open Nix.Store Nix.Store.Graph

theorem bfsKeys_acc_mem (g : Graph) (sub : String) : ∀ (fuel : Nat) (q acc : List Nat) (x : Nat),
    x ∈ acc → x ∈ bfsKeys g sub fuel q acc
  | 0, _, _, _, h => by simpa [bfsKeys] using h
  | _ + 1, [], _, _, h => by simpa [bfsKeys] using h
  | fuel + 1, k :: q, acc, x, h => by
    rw [bfsKeys]
    exact bfsKeys_acc_mem g sub fuel _ _ x (List.mem_append_left _ h)

/-- the root of a subtree is among its keys (`find_sections()` / the explicit `srcs.append(item)`) -/
theorem subtreeKeys_root (g : Graph) (sub : String) (k : Nat) : k ∈ subtreeKeys g sub k := by
  unfold subtreeKeys
  rw [bfsKeys]
  exact bfsKeys_acc_mem g sub _ _ _ k (by simp)

/-- the keys `del c[...]` hands to `delete_all` for the entry whose target is `k` -/
def doomedKeys (g : Graph) (c : Cont) (k : Nat) : List Nat :=
  match c.info.flavour with
  | .sections => subtreeKeys g "sections" k
  | .sources => subtreeKeys g "sources" k ++ [k]
  | _ => [k]

theorem mem_doomedKeys_self (g : Graph) (c : Cont) (k : Nat) : k ∈ doomedKeys g c k := by
  unfold doomedKeys
  split
  · exact subtreeKeys_root g "sections" k
  · simp
  · simp

/-- **deletion from an owning container of any flavour** (plain, sections, sources; key = name, id, position or the
entity object): the call succeeds for every key that addresses an entry, and the container afterwards holds exactly
the old entries whose node is not among the deleted objects (the entry's node and, for sections / sources, its
subtree), in their old order; the addressed entry is gone -/
theorem WF.contDel_owning {g : Graph} (h : WF g) {c : Cont}
    (hok : ∀ l ∈ contEntries g c, EntryOk g c.info l) (hpl : isPlainLike c.info.flavour = true)
    {e : String × Nat} (hmem : e ∈ contEntries g c) :
    ∃ g', Store.contDel g c (.ent e.2) = .ok g' ∧
      cLinks g' c.node = (contEntries g c).filter (fun l => !(doomedKeys g c e.2).contains l.2) ∧
      e ∉ cLinks g' c.node ∧ (cLinks g' c.node).Sublist (contEntries g c) := by
  obtain ⟨hkind, _, _⟩ := hok e hmem
  have hk' : (kindOf g e.2 != c.info.item) = false := by simpa using hkind
  have hlinks : ∀ ks : List Nat, cLinks (g.deleteObjs ks) c.node = (contEntries g c).filter (fun l => !ks.contains l.2) := by
    intro ks
    unfold contEntries cLinks
    cases hn : c.node with
    | none => rfl
    | some cg =>
      simp only
      rw [links_deleteObjs]
      rfl
  have hgone : ∀ ks : List Nat, e.2 ∈ ks → e ∉ (contEntries g c).filter (fun l => !ks.contains l.2) := by
    intro ks hin hm
    have := (List.mem_filter.mp hm).2
    simp [hin] at this
  have hsub : ∀ ks : List Nat, ((contEntries g c).filter (fun l => !ks.contains l.2)).Sublist (contEntries g c) :=
    fun ks => List.filter_sublist
  have hself := mem_doomedKeys_self g c e.2
  unfold Store.contDel
  simp only [hk', Bool.false_eq_true, ↓reduceIte]
  unfold doomedKeys at hself ⊢
  cases hfl : c.info.flavour with
  | plain =>
    rw [hfl] at hself
    exact ⟨_, rfl, hlinks _, by rw [hlinks]; exact hgone _ hself, by rw [hlinks]; exact hsub _⟩
  | sections =>
    rw [hfl] at hself
    exact ⟨_, rfl, hlinks _, by rw [hlinks]; exact hgone _ hself, by rw [hlinks]; exact hsub _⟩
  | sources =>
    rw [hfl] at hself
    exact ⟨_, rfl, hlinks _, by rw [hlinks]; exact hgone _ hself, by rw [hlinks]; exact hsub _⟩
  | link => rw [hfl] at hpl; cases hpl
  | sourceLink => rw [hfl] at hpl; cases hpl
  | features => rw [hfl] at hpl; cases hpl

end Nix.Store.Lemmas
