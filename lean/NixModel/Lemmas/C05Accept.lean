import NixModel.Store.AcceptShape
import NixModel.Lemmas.StoreWFBasic

/-! `contAppend` (the shared model of `LinkContainer.append`) decides and writes exactly as the statement list of
`_accept` followed by the link does; `extend` checks everything before it writes anything. -/
namespace Nix.Store.Lemmas
open Nix.Store Nix.Store.Graph

/-- a group's / tag's member list: `append` = the four statements of `LinkContainer._accept`, then the link -/
theorem contAppend_eq_accept_link (g : Graph) (c : Cont) (key : Key) (hf : c.info.flavour = .link) :
    contAppend g c key =
      appendVia g c (execAccept g c [.resolveId, .requireEntity, .requireMember, .returnItem] key) := by
  unfold contAppend
  simp only [hf]
  have main : ∀ k : Nat,
      (match g.entityId k with
        | none => (Except.error Err.typeError : Except Err Graph)
        | some id =>
          match (match CFlavour.link, c.block with
              | .link, some b =>
                if kindOf g k != c.info.item then (Except.error Err.typeError : Except Err Bool)
                else
                  match g.getAttr k "name" with
                  | some nm =>
                    match getByName g (g.child? b c.info.store) nm with
                    | some l => .ok (l.2 == k)
                    | none => .ok false
                  | none => .ok false
              | .sourceLink, some b => .ok (inSourceTree g b id && inSourceTreeObj g b k)
              | _, _ => .ok false) with
          | .error e => .error e
          | .ok false => .error .runtimeError
          | .ok true =>
            let (g1, cn) := g.ensureGroup c.owner.key c.cname
            .ok (createLinkIn g1 cn id k)) =
      appendVia g c (execAccept g c [.requireEntity, .requireMember, .returnItem] (.ent k)) := by
    intro k
    cases hid : g.entityId k with
    | none => simp [execAccept, appendVia, hid]
    | some id =>
      cases hb : c.block with
      | none => simp [execAccept, appendVia, hid, hb]
      | some b =>
        by_cases hk : (kindOf g k != c.info.item) = true
        · simp [execAccept, appendVia, hid, hk, hb]
        · simp only [execAccept, hid, Option.isSome_some, ↓reduceIte, hk, hb, inBlockStore, Bool.false_eq_true]
          by_cases hn : g.getAttr k "name" = none
          · simp [hn, appendVia]
          · obtain ⟨nm, hnm⟩ := Option.ne_none_iff_exists'.mp hn
            by_cases hl : getByName g (g.child? b c.info.store) nm = none
            · simp [hnm, hl, appendVia]
            · obtain ⟨l, hll⟩ := Option.ne_none_iff_exists'.mp hl
              by_cases he : (l.2 == k) = true
              · simp [hnm, hll, appendVia, linkAccepted, hid, he]
              · simp [hnm, hll, appendVia, he]
  cases key with
  | ent k => exact main k
  | pos i => simp [execAccept, appendVia]
  | str x =>
    by_cases hu : isUuid x = true
    · cases hg : getById g c.node x with
      | none => simp [execAccept, appendVia, hu, hg]
      | some l =>
        have := main l.2
        simp only [execAccept, hu, ↓reduceIte, hg]
        exact this
    · simp [execAccept, appendVia, hu]

/-- a source list: `append` = the statements of `SourceLinkContainer._accept`, then the link -/
theorem contAppend_eq_accept_source (g : Graph) (c : Cont) (key : Key) (hf : c.info.flavour = .sourceLink) :
    contAppend g c key =
      appendVia g c (execAccept g c [.resolveId, .requireEntity, .requireInSourceTree, .returnItem] key) := by
  unfold contAppend
  simp only [hf]
  have main : ∀ k : Nat,
      (match g.entityId k with
        | none => (Except.error Err.typeError : Except Err Graph)
        | some id =>
          match (match CFlavour.sourceLink, c.block with
              | .link, some b =>
                if kindOf g k != c.info.item then (Except.error Err.typeError : Except Err Bool)
                else
                  match g.getAttr k "name" with
                  | some nm =>
                    match getByName g (g.child? b c.info.store) nm with
                    | some l => .ok (l.2 == k)
                    | none => .ok false
                  | none => .ok false
              | .sourceLink, some b => .ok (inSourceTree g b id && inSourceTreeObj g b k)
              | _, _ => .ok false) with
          | .error e => .error e
          | .ok false => .error .runtimeError
          | .ok true =>
            let (g1, cn) := g.ensureGroup c.owner.key c.cname
            .ok (createLinkIn g1 cn id k)) =
      appendVia g c (execAccept g c [.requireEntity, .requireInSourceTree, .returnItem] (.ent k)) := by
    intro k
    cases hid : g.entityId k with
    | none => simp [execAccept, appendVia, hid]
    | some id =>
      cases hb : c.block with
      | none => simp [execAccept, appendVia, hid, hb]
      | some b =>
        by_cases ht : (inSourceTree g b id && inSourceTreeObj g b k) = true
        · simp [execAccept, appendVia, linkAccepted, hid, hb, ht]
        · simp [execAccept, appendVia, hid, hb, ht]
  cases key with
  | ent k => exact main k
  | pos i => simp [execAccept, appendVia]
  | str x =>
    by_cases hu : isUuid x = true
    · cases hg : getById g c.node x with
      | none => simp [execAccept, appendVia, hu, hg]
      | some l =>
        have := main l.2
        simp only [execAccept, hu, ↓reduceIte, hg]
        exact this
    · simp [execAccept, appendVia, hu]

/-! ## `extend`: all checks in the unchanged graph, then all links -/

theorem getAttr_createLinkIn' (g : Graph) (grp : Nat) (name : String) (t k : Nat) (a : String) :
    (createLinkIn g grp name t).getAttr k a = g.getAttr k a := by
  unfold createLinkIn
  split <;> simp [getAttr_addLink, getAttr_delLink]

/-- linking an accepted item changes no attribute of any node -/
theorem getAttr_linkAccepted {g g1 : Graph} {c : Cont} {k : Nat} (h : linkAccepted g c k = .ok g1)
    (k' : Nat) (a : String) : g1.getAttr k' a = g.getAttr k' a := by
  unfold linkAccepted at h
  cases hid : g.entityId k with
  | none => simp [hid] at h
  | some id =>
    simp only [hid] at h
    cases h
    rw [getAttr_createLinkIn', getAttr_ensureGroup]

/-- an item with an id can always be linked -/
theorem linkAccepted_ok (g : Graph) (c : Cont) (k : Nat) (h : (g.entityId k).isSome) :
    ∃ g1, linkAccepted g c k = .ok g1 := by
  unfold linkAccepted
  cases hid : g.entityId k with
  | none => simp [hid] at h
  | some id => exact ⟨_, rfl⟩

theorem linkAll_ok (c : Cont) : ∀ (ks : List Nat) (g : Graph), (∀ k ∈ ks, (g.entityId k).isSome) →
    ∃ g', linkAll g c ks = .ok g'
  | [], g, _ => ⟨g, rfl⟩
  | k :: ks, g, h => by
    obtain ⟨g1, h1⟩ := linkAccepted_ok g c k (h k (by simp))
    have h2 : ∀ k' ∈ ks, (g1.entityId k').isSome := by
      intro k' hk'
      have := getAttr_linkAccepted h1 k' "entity_id"
      unfold Graph.entityId
      rw [this]
      exact h k' (by simp [hk'])
    obtain ⟨g', hg'⟩ := linkAll_ok c ks g1 h2
    exact ⟨g', by simp [linkAll, h1, hg']⟩

/-- what `_accept` returns has an id (the `hasattr(item, "id")` test stands in both bodies) -/
theorem execAccept_has_id {g : Graph} {c : Cont} {key : Key} {k : Nat}
    (h : execAccept g c (acceptBodyOf c) key = .ok k) : (g.entityId k).isSome := by
  have tail : ∀ k0 : Nat, ∀ m : AStmt,
      execAccept g c [.requireEntity, m, .returnItem] (.ent k0) = .ok k → (g.entityId k).isSome := by
    intro k0 m hm
    by_cases hid : (g.entityId k0).isSome = true
    · have hk : k = k0 := by
        cases m <;> simp only [execAccept, hid, ↓reduceIte] at hm <;> (repeat' split at hm) <;>
          first | (cases hm; rfl) | cases hm
      rw [hk]; exact hid
    · simp [execAccept, hid] at hm
  unfold acceptBodyOf at h
  have body : ∃ m : AStmt, execAccept g c [.resolveId, .requireEntity, m, .returnItem] key = .ok k := by
    split at h
    · exact ⟨_, h⟩
    · exact ⟨_, h⟩
  obtain ⟨m, hm⟩ := body
  cases key with
  | ent k0 => exact tail k0 m hm
  | pos i => simp [execAccept] at hm
  | str x =>
    by_cases hu : isUuid x = true
    · cases hg : getById g c.node x with
      | none => simp [execAccept, hu, hg] at hm
      | some l =>
        simp only [execAccept, hu, ↓reduceIte, hg] at hm
        exact tail l.2 m hm
    · simp [execAccept, hu] at hm

theorem acceptAll_ok_iff (g : Graph) (c : Cont) : ∀ keys : List Key,
    (∃ ks, acceptAll g c keys = .ok ks) ↔ ∀ key ∈ keys, ∃ k, execAccept g c (acceptBodyOf c) key = .ok k
  | [] => by simp [acceptAll]
  | key :: rest => by
    have ih := acceptAll_ok_iff g c rest
    cases h1 : execAccept g c (acceptBodyOf c) key with
    | error e => simp [acceptAll, h1]
    | ok k =>
      cases h2 : acceptAll g c rest with
      | error e =>
        have : ¬ ∀ key ∈ rest, ∃ k, execAccept g c (acceptBodyOf c) key = .ok k := by
          intro hall; obtain ⟨ks, hks⟩ := ih.mpr hall; rw [h2] at hks; cases hks
        simp only [acceptAll, h1, h2, List.mem_cons, forall_eq_or_imp]
        constructor
        · rintro ⟨ks, hks⟩; cases hks
        · rintro ⟨_, hall⟩; exact absurd hall this
      | ok ks =>
        have hall := ih.mp ⟨ks, h2⟩
        simp only [acceptAll, h1, h2, List.mem_cons, forall_eq_or_imp]
        exact ⟨fun _ => ⟨⟨k, rfl⟩, hall⟩, fun _ => ⟨_, rfl⟩⟩

theorem acceptAll_ids {g : Graph} {c : Cont} : ∀ {keys : List Key} {ks : List Nat},
    acceptAll g c keys = .ok ks → ∀ k ∈ ks, (g.entityId k).isSome
  | [], ks, h => by simp [acceptAll] at h; subst h; simp
  | key :: rest, ks, h => by
    unfold acceptAll at h
    cases h1 : execAccept g c (acceptBodyOf c) key with
    | error e => simp [h1] at h
    | ok k =>
      cases h2 : acceptAll g c rest with
      | error e => simp [h1, h2] at h
      | ok ks' =>
        simp [h1, h2] at h
        subst h
        intro k' hk'
        rcases List.mem_cons.mp hk' with rfl | hk'
        · exact execAccept_has_id h1
        · exact acceptAll_ids h2 k' hk'

/-- `extend` succeeds iff EVERY item passes `_accept` in the graph as it is before the call; otherwise nothing is
written (the call is an error, the state stays) -/
theorem contExtend_ok_iff (g : Graph) (c : Cont) (keys : List Key)
    (hf : c.info.flavour = .link ∨ c.info.flavour = .sourceLink) :
    (∃ g', contExtend g c keys = .ok g') ↔
      ∀ key ∈ keys, ∃ k, execAccept g c (acceptBodyOf c) key = .ok k := by
  rw [← acceptAll_ok_iff]
  unfold contExtend
  rcases hf with hf | hf <;> simp only [hf]
  all_goals
    cases h : acceptAll g c keys with
    | error e => simp
    | ok ks =>
      obtain ⟨g', hg'⟩ := linkAll_ok c ks g (acceptAll_ids h)
      simp [hg']

/-- `extend([item])` is `append(item)` -/
theorem contExtend_single (g : Graph) (c : Cont) (key : Key)
    (hf : c.info.flavour = .link ∨ c.info.flavour = .sourceLink) :
    contExtend g c [key] = contAppend g c key := by
  rcases hf with hf | hf
  · rw [contAppend_eq_accept_link g c key hf]
    unfold contExtend acceptAll acceptBodyOf
    simp only [hf]
    cases h : execAccept g c [.resolveId, .requireEntity, .requireMember, .returnItem] key with
    | error e => simp [appendVia]
    | ok k =>
      simp only [acceptAll, appendVia, linkAll]
      cases linkAccepted g c k <;> rfl
  · rw [contAppend_eq_accept_source g c key hf]
    unfold contExtend acceptAll acceptBodyOf
    simp only [hf]
    cases h : execAccept g c [.resolveId, .requireEntity, .requireInSourceTree, .returnItem] key with
    | error e => simp [appendVia]
    | ok k =>
      simp only [acceptAll, appendVia, linkAll]
      cases linkAccepted g c k <;> rfl

/-! ## the `positions` / `extents` setters -/

/-- dropping the old link first and then `create_link` is `create_link` (which replaces an existing name itself) -/
theorem createLinkIn_dropOld (g : Graph) (o : Nat) (role : String) (t : Nat) :
    createLinkIn (if g.hasChild o role then g.delLink o role else g) o role t = createLinkIn g o role t := by
  by_cases h : g.hasChild o role = true
  · simp only [h, ↓reduceIte]
    unfold Store.createLinkIn
    have : (g.delLink o role).hasChild o role = false := by
      rw [hasChild_eq, child?_delLink_self]; rfl
    simp [this, h]
  · simp [h]

/-- the `MultiTag.positions` setter: its six statements are the model's `setRole … "positions"` -/
theorem setRole_positions_eq (g : Graph) (p : Path) (t : Option Nat) (o : Loc) (b : Nat)
    (ho : resolve g rootLoc p = some o) (hk : kindOf g o.key = "multi_tag") (hb : blockOfPath g p = some b) :
    setRole g p "positions" t =
      execRole o.key b [.refuseNone, .requireArray, .requireMember "data_arrays", .dropOld "positions",
        .link "positions", .stamp] g t := by
  unfold setRole
  simp only [ho, hk, hb]
  cases t with
  | none => simp [execRole]
  | some k =>
    by_cases h1 : isKind g k "data_array" = true
    · by_cases h2 : inBlockStore g b "data_arrays" k = true
      · simp [execRole, h1, h2, createLinkIn_dropOld]
      · simp [execRole, h1, h2]
    · simp [execRole, h1]

/-- the `MultiTag.extents` setter: `None` removes the link, an array passes the class and the membership test and
is linked -/
theorem setRole_extents_eq (g : Graph) (p : Path) (t : Option Nat) (o : Loc) (b : Nat)
    (ho : resolve g rootLoc p = some o) (hk : kindOf g o.key = "multi_tag") (hb : blockOfPath g p = some b) :
    setRole g p "extents" t =
      execRoleIfNone o.key b [.dropOld "extents"] [.requireArray, .requireMember "data_arrays", .link "extents"]
        [.stamp] g t := by
  unfold setRole execRoleIfNone
  simp only [ho, hk, hb]
  cases t with
  | none =>
    by_cases h : g.hasChild o.key "extents" = true <;> simp [execRole, h]
  | some k =>
    by_cases h1 : isKind g k "data_array" = true
    · by_cases h2 : inBlockStore g b "data_arrays" k = true
      · simp [execRole, h1, h2]
      · simp [execRole, h1, h2]
    · simp [execRole, h1]

/-! ## the `Feature.data` setter -/

/-- the statements of the `Feature.data` setter are the model's `setRole … "data"`: the class chain with the
membership tests (and the refusal of a DataFrame on a tagged feature) comes first, then `target_type`, the old link
and the new link are written -/
theorem setRole_data_eq (g : Graph) (p : Path) (t : Option Nat) (o : Loc) (b : Nat)
    (ho : resolve g rootLoc p = some o) (hk : kindOf g o.key = "feature") (hb : blockOfPath g p = some b) :
    setRole g p "data" t =
      (execFeat o.key b t 12
        [.refuseNone, .bindBlock,
         .classChain [.requireMember "data_arrays", .setObjType "DataArray"]
                     [.requireMember "data_frames", .refuseTagged, .setObjType "DataFrame"],
         .writeTargetType, .dropOld, .link, .stamp] g none).map (·.1) := by
  unfold setRole
  simp only [ho, hk, hb]
  cases t with
  | none => simp [execFeat, Except.map]
  | some k =>
    by_cases h1 : isKind g k "data_array" = true
    · by_cases h2 : inBlockStore g b "data_arrays" k = true
      · simp [execFeat, Except.map, h1, h2, createLinkIn_dropOld]
      · simp [execFeat, Except.map, h1, h2]
    · by_cases h3 : isKind g k "data_frame" = true
      · by_cases h4 : inBlockStore g b "data_frames" k = true
        · by_cases h5 : (g.getAttr o.key "link_type" == some "tagged") = true
          · simp [execFeat, Except.map, h1, h3, h4, h5]
          · simp [execFeat, Except.map, h1, h3, h4, h5, createLinkIn_dropOld]
        · simp [execFeat, Except.map, h1, h3, h4]
      · simp [execFeat, Except.map, h1, h3]

end Nix.Store.Lemmas
