import NixModel.Lemmas.C04Graph

/-!
# C04 — reachability from the root, before and after `deleteObjs`

nixio (and every reader of the file) can only see what is reachable from `/` through hard links.
`Reach g k`: node `k` is reachable in `g`. `ReachAvoid g ds k`: reachable through links none of
whose targets is one of the objects `ds`. After `deleteObjs ds` the two coincide — so an object that
was reachable only through deleted objects (owned by them) is unreachable afterwards, and every
other object stays reachable.
-/
namespace Nix.Store.C04
open Nix.Store Nix.Store.Graph

inductive Reach (g : Graph) : Nat → Prop
  | root : Reach g 0
  | step {p k : Nat} (name : String) : Reach g p → (name, k) ∈ g.links p → Reach g k

inductive ReachAvoid (g : Graph) (ds : List Nat) : Nat → Prop
  | root : ReachAvoid g ds 0
  | step {p k : Nat} (name : String) :
      ReachAvoid g ds p → (name, k) ∈ g.links p → doomed ds k = false → ReachAvoid g ds k

theorem reach_deleteObjs_iff (g : Graph) (ds : List Nat) (k : Nat) :
    Reach (g.deleteObjs ds) k ↔ ReachAvoid g ds k := by
  constructor
  · intro h
    induction h with
    | root => exact .root
    | step name _ hl ih =>
      have := (mem_deleteObjs_links g ds _ _).mp hl
      exact .step name ih this.1 this.2
  · intro h
    induction h with
    | root => exact .root
    | step name _ hl hd ih =>
      exact .step name ih ((mem_deleteObjs_links g ds _ _).mpr ⟨hl, hd⟩)

theorem reachAvoid_reach {g : Graph} {ds : List Nat} {k : Nat} (h : ReachAvoid g ds k) :
    Reach g k := by
  induction h with
  | root => exact .root
  | step name _ hl _ ih => exact .step name ih hl

/-- a deleted object other than the root is unreachable afterwards -/
theorem doomed_unreachable (g : Graph) (ds : List Nat) (k : Nat) (hk : k ≠ 0)
    (hd : doomed ds k = true) : ¬ Reach (g.deleteObjs ds) k := by
  intro h
  rw [reach_deleteObjs_iff] at h
  cases h with
  | root => exact hk rfl
  | step name _ _ hnd => rw [hd] at hnd; cases hnd

/-- nothing becomes reachable by a deletion -/
theorem reach_deleteObjs_sub (g : Graph) (ds : List Nat) (k : Nat)
    (h : Reach (g.deleteObjs ds) k) : Reach g k :=
  reachAvoid_reach ((reach_deleteObjs_iff g ds k).mp h)

/-! ## reachability through explicit paths (the reading "every path to `k` runs through a deleted
object") -/

/-- `ks` is the list of nodes visited by a path of links from `a` (excluded) to `b` (included) -/
inductive PathFrom (g : Graph) : Nat → List Nat → Nat → Prop
  | nil (a : Nat) : PathFrom g a [] a
  | cons {a m b : Nat} {ks : List Nat} (name : String) :
      (name, m) ∈ g.links a → PathFrom g m ks b → PathFrom g a (m :: ks) b

theorem pathFrom_append {g : Graph} {a m b : Nat} {ks ks' : List Nat}
    (h1 : PathFrom g a ks m) (h2 : PathFrom g m ks' b) : PathFrom g a (ks ++ ks') b := by
  induction h1 with
  | nil => exact h2
  | cons name hl _ ih => exact .cons name hl (ih h2)

/-- a non-empty path visits its end point -/
theorem path_end_mem {g : Graph} {a b : Nat} {ks : List Nat} (hp : PathFrom g a ks b)
    (hne : ks ≠ []) : b ∈ ks := by
  induction hp with
  | nil => exact absurd rfl hne
  | cons name hl hrest ih =>
    cases hrest with
    | nil => simp
    | cons name' hl' hrest' => exact List.mem_cons_of_mem _ (ih (by simp))

theorem reach_of_path {g : Graph} {a k : Nat} {ks : List Nat} (hp : PathFrom g a ks k) :
    Reach g a → Reach g k := by
  induction hp with
  | nil => exact id
  | cons name hl _ ih => exact fun ha => ih (.step name ha hl)

theorem reachAvoid_of_path {g : Graph} {ds : List Nat} {a k : Nat} {ks : List Nat}
    (hp : PathFrom g a ks k) :
    ReachAvoid g ds a → (∀ m ∈ ks, doomed ds m = false) → ReachAvoid g ds k := by
  induction hp with
  | nil => exact fun ha _ => ha
  | cons name hl _ ih =>
    exact fun ha hall => ih (.step name ha hl (hall _ (by simp))) (fun m hm => hall m (by simp [hm]))

theorem reach_iff_path (g : Graph) (k : Nat) : Reach g k ↔ ∃ ks, PathFrom g 0 ks k := by
  constructor
  · intro h
    induction h with
    | root => exact ⟨[], .nil 0⟩
    | step name _ hl ih =>
      obtain ⟨ks, hp⟩ := ih
      exact ⟨ks ++ [_], pathFrom_append hp (.cons name hl (.nil _))⟩
  · rintro ⟨ks, hp⟩
    exact reach_of_path hp .root

theorem reachAvoid_iff_path (g : Graph) (ds : List Nat) (k : Nat) :
    ReachAvoid g ds k ↔ ∃ ks, PathFrom g 0 ks k ∧ ∀ m ∈ ks, doomed ds m = false := by
  constructor
  · intro h
    induction h with
    | root => exact ⟨[], .nil 0, by simp⟩
    | step name _ hl hd ih =>
      obtain ⟨ks, hp, hall⟩ := ih
      refine ⟨ks ++ [_], pathFrom_append hp (.cons name hl (.nil _)), ?_⟩
      intro m hm
      rcases List.mem_append.mp hm with h | h
      · exact hall m h
      · simp only [List.mem_singleton] at h
        rw [h]; exact hd
  · rintro ⟨ks, hp, hall⟩
    exact reachAvoid_of_path hp .root hall

/-- **owned objects become unreachable**: if every path of links from `/` to `k` visits a node
that is one of the deleted objects, `k` is unreachable after `deleteObjs` -/
theorem owned_unreachable (g : Graph) (ds : List Nat) (k : Nat)
    (hown : ∀ ks, PathFrom g 0 ks k → ∃ m ∈ ks, doomed ds m = true) :
    ¬ Reach (g.deleteObjs ds) k := by
  intro h
  rw [reach_deleteObjs_iff, reachAvoid_iff_path] at h
  obtain ⟨ks, hp, hall⟩ := h
  obtain ⟨m, hm, hd⟩ := hown ks hp
  rw [hall m hm] at hd
  cases hd

/-- **everything else stays reachable**: a path that visits no deleted object survives -/
theorem other_stays_reachable (g : Graph) (ds : List Nat) (k : Nat) (ks : List Nat)
    (hp : PathFrom g 0 ks k) (hall : ∀ m ∈ ks, doomed ds m = false) :
    Reach (g.deleteObjs ds) k :=
  (reach_deleteObjs_iff g ds k).mpr ((reachAvoid_iff_path g ds k).mpr ⟨ks, hp, hall⟩)

end Nix.Store.C04
