import NixModel.Lemmas.C04Graph

/-!
# C04 — reachability from the root, before and after `deleteAll`

nixio (and every reader of the file) can only see what is reachable from `/` through hard links.
`Reach g k`: node `k` is reachable in `g`. `ReachAvoid g ids k`: reachable through links none of
whose targets carries an id of `ids`. After `deleteAll ids` the two coincide — so an object that
was reachable only through deleted objects (owned by them) is unreachable afterwards, and every
other object stays reachable.
-/
namespace Nix.Store.C04
open Nix.Store Nix.Store.Graph

inductive Reach (g : Graph) : Nat → Prop
  | root : Reach g 0
  | step {p k : Nat} (name : String) : Reach g p → (name, k) ∈ g.links p → Reach g k

inductive ReachAvoid (g : Graph) (ids : List String) : Nat → Prop
  | root : ReachAvoid g ids 0
  | step {p k : Nat} (name : String) :
      ReachAvoid g ids p → (name, k) ∈ g.links p → doomed g ids k = false → ReachAvoid g ids k

theorem reach_deleteAll_iff (g : Graph) (ids : List String) (k : Nat) :
    Reach (g.deleteAll ids) k ↔ ReachAvoid g ids k := by
  constructor
  · intro h
    induction h with
    | root => exact .root
    | step name _ hl ih =>
      have := (mem_deleteAll_links g ids _ _).mp hl
      exact .step name ih this.1 this.2
  · intro h
    induction h with
    | root => exact .root
    | step name _ hl hd ih =>
      exact .step name ih ((mem_deleteAll_links g ids _ _).mpr ⟨hl, hd⟩)

theorem reachAvoid_reach {g : Graph} {ids : List String} {k : Nat} (h : ReachAvoid g ids k) :
    Reach g k := by
  induction h with
  | root => exact .root
  | step name _ hl _ ih => exact .step name ih hl

/-- a node other than the root that carries a deleted id is unreachable afterwards -/
theorem doomed_unreachable (g : Graph) (ids : List String) (k : Nat) (hk : k ≠ 0)
    (hd : doomed g ids k = true) : ¬ Reach (g.deleteAll ids) k := by
  intro h
  rw [reach_deleteAll_iff] at h
  cases h with
  | root => exact hk rfl
  | step name _ _ hnd => rw [hd] at hnd; cases hnd

/-- nothing becomes reachable by a deletion -/
theorem reach_deleteAll_sub (g : Graph) (ids : List String) (k : Nat)
    (h : Reach (g.deleteAll ids) k) : Reach g k :=
  reachAvoid_reach ((reach_deleteAll_iff g ids k).mp h)

/-! ## reachability through explicit paths (the reading "every path to `k` runs through a deleted
object") -/

/-- `ks` is the list of nodes visited by a path of links from `a` (excluded) to `b` (included) -/
inductive PathFrom (g : Graph) : Nat → List Nat → Nat → Prop
  | nil (a : Nat) : PathFrom g a [] a
  | cons {a m b : Nat} {ks : List Nat} (name : String) :
      (name, m) ∈ g.links a → PathFrom g m ks b → PathFrom g a (m :: ks) b

theorem pathFrom_append {g : Graph} {a m b : Nat} {ks ks' : List Nat}
    (h1 : PathFrom g a ks m) (h2 : PathFrom g m ks' b) : PathFrom g a (ks ++ ks') b := by
  induction h1 with
  | nil => exact h2
  | cons name hl _ ih => exact .cons name hl (ih h2)

/-- a non-empty path visits its end point -/
theorem path_end_mem {g : Graph} {a b : Nat} {ks : List Nat} (hp : PathFrom g a ks b)
    (hne : ks ≠ []) : b ∈ ks := by
  induction hp with
  | nil => exact absurd rfl hne
  | cons name hl hrest ih =>
    cases hrest with
    | nil => simp
    | cons name' hl' hrest' => exact List.mem_cons_of_mem _ (ih (by simp))

theorem reach_of_path {g : Graph} {a k : Nat} {ks : List Nat} (hp : PathFrom g a ks k) :
    Reach g a → Reach g k := by
  induction hp with
  | nil => exact id
  | cons name hl _ ih => exact fun ha => ih (.step name ha hl)

theorem reachAvoid_of_path {g : Graph} {ids : List String} {a k : Nat} {ks : List Nat}
    (hp : PathFrom g a ks k) :
    ReachAvoid g ids a → (∀ m ∈ ks, doomed g ids m = false) → ReachAvoid g ids k := by
  induction hp with
  | nil => exact fun ha _ => ha
  | cons name hl _ ih =>
    exact fun ha hall => ih (.step name ha hl (hall _ (by simp))) (fun m hm => hall m (by simp [hm]))

theorem reach_iff_path (g : Graph) (k : Nat) : Reach g k ↔ ∃ ks, PathFrom g 0 ks k := by
  constructor
  · intro h
    induction h with
    | root => exact ⟨[], .nil 0⟩
    | step name _ hl ih =>
      obtain ⟨ks, hp⟩ := ih
      exact ⟨ks ++ [_], pathFrom_append hp (.cons name hl (.nil _))⟩
  · rintro ⟨ks, hp⟩
    exact reach_of_path hp .root

theorem reachAvoid_iff_path (g : Graph) (ids : List String) (k : Nat) :
    ReachAvoid g ids k ↔ ∃ ks, PathFrom g 0 ks k ∧ ∀ m ∈ ks, doomed g ids m = false := by
  constructor
  · intro h
    induction h with
    | root => exact ⟨[], .nil 0, by simp⟩
    | step name _ hl hd ih =>
      obtain ⟨ks, hp, hall⟩ := ih
      refine ⟨ks ++ [_], pathFrom_append hp (.cons name hl (.nil _)), ?_⟩
      intro m hm
      rcases List.mem_append.mp hm with h | h
      · exact hall m h
      · simp only [List.mem_singleton] at h
        rw [h]; exact hd
  · rintro ⟨ks, hp, hall⟩
    exact reachAvoid_of_path hp .root hall

/-- **owned objects become unreachable**: if every path of links from `/` to `k` visits a node
that carries one of the deleted ids, `k` is unreachable after `deleteAll` -/
theorem owned_unreachable (g : Graph) (ids : List String) (k : Nat)
    (hown : ∀ ks, PathFrom g 0 ks k → ∃ m ∈ ks, doomed g ids m = true) :
    ¬ Reach (g.deleteAll ids) k := by
  intro h
  rw [reach_deleteAll_iff, reachAvoid_iff_path] at h
  obtain ⟨ks, hp, hall⟩ := h
  obtain ⟨m, hm, hd⟩ := hown ks hp
  rw [hall m hm] at hd
  cases hd

/-- **everything else stays reachable**: a path that visits no node with a deleted id survives -/
theorem other_stays_reachable (g : Graph) (ids : List String) (k : Nat) (ks : List Nat)
    (hp : PathFrom g 0 ks k) (hall : ∀ m ∈ ks, doomed g ids m = false) :
    Reach (g.deleteAll ids) k :=
  (reach_deleteAll_iff g ids k).mpr ((reachAvoid_iff_path g ids k).mpr ⟨ks, hp, hall⟩)

end Nix.Store.C04
