import NixModel.Lemmas.C16Refuse
/-! Lemmas for C16: every read API is a view of the one stored table (`Frame.cell` / `Frame.rows`): `read_rows`
with an int and with a list, `read_cell` by position and by name, `read_columns` by index / name with a slice.
Together with `ReadBack` (stated through `readRow` and `cell`) this gives: what a write stored is what *each* read
returns. -/
namespace Nix.Frame

theorem readRow_iff {f : Frame} {i : Int} {row : Row} :
    readRow f i = .ok row ↔ ∃ k, normIdx f.rows.length i = some k ∧ f.rows[k]? = some row := by
  unfold readRow
  constructor
  · intro h
    split at h
    · cases h
    · rename_i k hk
      split at h
      · rename_i r hr
        injection h with h; subst h
        exact ⟨k, hk, hr⟩
      · cases h
  · rintro ⟨k, hk, hr⟩
    simp [hk, hr]

/-- `read_cell(position=[row, col])` returns the stored cell (row and column index normalised) and nothing else -/
theorem readCellPos_iff {f : Frame} (wf : WF f) {ri ci : Int} {v : Val} :
    readCellPos f [ri, ci] = .ok v ↔
      ∃ r c, normIdx f.rows.length ri = some r ∧ normIdx f.cols.length ci = some c ∧ f.cell r c = some v := by
  unfold readCellPos
  simp only
  constructor
  · intro h
    split at h
    · cases h
    · rename_i row hrow
      obtain ⟨r, hr, hget⟩ := readRow_iff.1 hrow
      have hlen := row_len wf hget
      split at h
      · cases h
      · rename_i c hc
        split at h
        · rename_i v' hv'
          injection h with h; subst h
          exact ⟨r, c, hr, by rw [← hlen]; exact hc, by simp [Frame.cell, hget, hv']⟩
        · cases h
  · rintro ⟨r, c, hr, hc, hcell⟩
    simp only [Frame.cell] at hcell
    cases hget : f.rows[r]? with
    | none => simp [hget] at hcell
    | some row =>
      simp only [hget, Option.bind_some] at hcell
      have hlen := row_len wf hget
      have hrow : readRow f ri = .ok row := readRow_iff.2 ⟨r, hr, hget⟩
      simp [hrow, hlen, hc, hcell]

/-- `read_cell(col_name=, row_idx=)` returns the stored cell of the column called `name` -/
theorem readCellName_iff {f : Frame} {name : String} {ri : Int} {v : Val} :
    readCellName f name ri = .ok v ↔
      ∃ r c, normIdx f.rows.length ri = some r ∧ findCol f.cols name = some c ∧ f.cell r c = some v := by
  unfold readCellName
  constructor
  · intro h
    split at h
    · cases h
    · rename_i row hrow
      obtain ⟨r, hr, hget⟩ := readRow_iff.1 hrow
      split at h
      · cases h
      · rename_i c hc
        split at h
        · rename_i v' hv'
          injection h with h; subst h
          exact ⟨r, c, hr, hc, by simp [Frame.cell, hget, hv']⟩
        · cases h
  · rintro ⟨r, c, hr, hc, hcell⟩
    simp only [Frame.cell] at hcell
    cases hget : f.rows[r]? with
    | none => simp [hget] at hcell
    | some row =>
      simp only [hget, Option.bind_some] at hcell
      have hrow : readRow f ri = .ok row := readRow_iff.2 ⟨r, hr, hget⟩
      simp [hrow, hc, hcell]

theorem getRows_spec : ∀ {rows : List Row} {ks : List Nat} {rs : List Row}, getRows rows ks = .ok rs →
    rs.length = ks.length ∧ ∀ j (_ : j < ks.length), ∃ k, ks[j]? = some k ∧ rs[j]? = rows[k]? ∧ k < rows.length
  | rows, [], rs, h => by simp [getRows] at h; subst h; simp
  | rows, k :: ks, rs, h => by
    simp only [getRows] at h
    split at h
    · cases h
    · rename_i r hr
      split at h
      · cases h
      · rename_i rs' hrs'
        injection h with h; subst h
        obtain ⟨h1, h2⟩ := getRows_spec hrs'
        refine ⟨by simp [h1], ?_⟩
        intro j hj
        cases j with
        | zero =>
          have hk : k < rows.length := by
            rcases Nat.lt_or_ge k rows.length with h | h
            · exact h
            · simp [List.getElem?_eq_none h] at hr
          exact ⟨k, by simp, by simp [hr], hk⟩
        | succ j =>
          obtain ⟨k', hk1, hk2, hk3⟩ := h2 j (by simpa using hj)
          exact ⟨k', by simpa using hk1, by simpa using hk2, hk3⟩

/-- `read_rows([i, j, …])` returns, in the order of the list, exactly what `read_rows(i)`, `read_rows(j)` … return -/
theorem readRows_spec {f : Frame} {idx : List Int} {rs : List Row} (h : readRows f idx = .ok rs) :
    rs.length = idx.length ∧ ∀ j (hj : j < idx.length), ∃ row, rs[j]? = some row ∧ readRow f idx[j] = .ok row := by
  unfold readRows at h
  split at h
  · cases h
  · rename_i ks hks
    unfold selectList at hks
    split at hks
    · cases hks
    · rename_i ks' hks'
      split at hks
      · injection hks with hks; subst hks
        obtain ⟨h1, h2⟩ := getRows_spec h
        have hlen : ks'.length = idx.length := by
          have := normList_get hks'
          exact this.1
        refine ⟨by rw [h1, hlen], ?_⟩
        intro j hj
        obtain ⟨k, hk1, hk2, hk3⟩ := h2 j (by rw [hlen]; exact hj)
        have hn : normIdx f.rows.length idx[j] = some k := by
          have := (normList_get hks').2 j hj
          rw [hk1] at this
          obtain ⟨k', e1, e2⟩ := this
          injection e1 with e1; subst e1
          exact e2
        have hrow : f.rows[k]? = some f.rows[k] := List.getElem?_eq_getElem hk3
        exact ⟨f.rows[k], by rw [hk2, hrow], readRow_iff.2 ⟨k, hn, hrow⟩⟩
      · cases hks

theorem pick_spec : ∀ {r : Row} {ks : List Nat} {out : Row}, pick r ks = some out →
    out.length = ks.length ∧ ∀ j (_ : j < ks.length), ∃ k, ks[j]? = some k ∧ out[j]? = r[k]?  ∧ k < r.length
  | r, [], out, h => by simp [pick] at h; subst h; simp
  | r, k :: ks, out, h => by
    simp only [pick] at h
    split at h
    · rename_i v vs hv hvs
      injection h with h; subst h
      obtain ⟨h1, h2⟩ := pick_spec hvs
      refine ⟨by simp [h1], ?_⟩
      intro j hj
      cases j with
      | zero =>
        have hk : k < r.length := by
          rcases Nat.lt_or_ge k r.length with h | h
          · exact h
          · simp [List.getElem?_eq_none h] at hv
        exact ⟨k, by simp, by simp [hv], hk⟩
      | succ j =>
        obtain ⟨k', hk1, hk2, hk3⟩ := h2 j (by simpa using hj)
        exact ⟨k', by simpa using hk1, by simpa using hk2, hk3⟩
    · cases h

theorem pickAll_spec : ∀ {rows : List Row} {ks : List Nat} {out : List Row}, pickAll rows ks = .ok out →
    out.length = rows.length ∧ ∀ r (_ : r < rows.length), ∃ row o, rows[r]? = some row ∧ out[r]? = some o ∧
      pick row ks = some o
  | [], ks, out, h => by simp [pickAll] at h; subst h; simp
  | row :: rows, ks, out, h => by
    simp only [pickAll] at h
    split at h
    · rename_i v vs hv hvs
      injection h with h; subst h
      obtain ⟨h1, h2⟩ := pickAll_spec hvs
      refine ⟨by simp [h1], ?_⟩
      intro r hr
      cases r with
      | zero => exact ⟨row, v, by simp, by simp, hv⟩
      | succ r =>
        obtain ⟨row', o, e1, e2, e3⟩ := h2 r (by simpa using hr)
        exact ⟨row', o, by simpa using e1, by simpa using e2, e3⟩
    · cases h
    · cases h

/-- first row of the slice `lo:hi` of a table with `n` rows -/
def sliceStart (n : Nat) (lo : Option Int) : Nat := match lo with | none => 0 | some i => clampIdx n i
/-- end (exclusive) of the slice `lo:hi` -/
def sliceStop (n : Nat) (hi : Option Int) : Nat := match hi with | none => n | some i => clampIdx n i

theorem sliceList_get {α : Type} (l : List α) (lo hi : Option Int) (r : Nat) :
    (sliceList l lo hi)[r]? =
      if sliceStart l.length lo + r < sliceStop l.length hi then l[sliceStart l.length lo + r]? else none := by
  unfold sliceList sliceStart sliceStop
  simp only [List.getElem?_drop, List.getElem?_take]
  first | rfl | (split <;> (split <;> first | rfl | omega | simp_all))

/-- `read_columns(index=… | name=…, slc=lo:hi)`: row r of the result holds, in the requested order, the stored
    cells of table row `start + r` in the selected columns -/
theorem readColumns_spec {f : Frame} {ks : List Nat} {lo hi : Option Int} {out : List Row}
    (h : readColumns f (.ok ks) lo hi = .ok out) :
    out.length = (sliceList f.rows lo hi).length ∧
    ∀ r (_ : r < out.length) j (_ : j < ks.length), ∃ k, ks[j]? = some k ∧
      (out[r]?).bind (·[j]?) = f.cell (sliceStart f.rows.length lo + r) k := by
  unfold readColumns at h
  simp only at h
  split at h
  · cases h
  · obtain ⟨h1, h2⟩ := pickAll_spec h
    refine ⟨h1, ?_⟩
    intro r hr j hj
    obtain ⟨row, o, e1, e2, e3⟩ := h2 r (by rw [← h1]; exact hr)
    obtain ⟨_, p2⟩ := pick_spec e3
    obtain ⟨k, k1, k2, _⟩ := p2 j hj
    refine ⟨k, k1, ?_⟩
    rw [sliceList_get] at e1
    split at e1
    · simp [Frame.cell, e1, e2, k2]
    · cases e1

theorem colsByIndex_spec : ∀ {m : Nat} {idx : List Int} {ks : List Nat}, colsByIndex m idx = .ok ks →
    ks.length = idx.length ∧ ∀ j (hj : j < idx.length), ∃ k, ks[j]? = some k ∧ normIdx m idx[j] = some k
  | m, [], ks, h => by simp [colsByIndex] at h; subst h; simp
  | m, i :: idx, ks, h => by
    simp only [colsByIndex] at h
    split at h
    · cases h
    · rename_i k hk
      split at h
      · cases h
      · rename_i ks' hks'
        injection h with h; subst h
        obtain ⟨h1, h2⟩ := colsByIndex_spec hks'
        refine ⟨by simp [h1], ?_⟩
        intro j hj
        cases j with
        | zero => exact ⟨k, by simp, by simpa using hk⟩
        | succ j =>
          obtain ⟨k', e1, e2⟩ := h2 j (by simpa using hj)
          exact ⟨k', by simpa using e1, by simpa using e2⟩

theorem colsByName_spec : ∀ {cols : List (String × ColType)} {unk : Err} {ns : List String} {ks : List Nat},
    colsByName cols unk ns = .ok ks →
    ks.length = ns.length ∧ ∀ j (hj : j < ns.length), ∃ k, ks[j]? = some k ∧ findCol cols ns[j] = some k
  | cols, unk, [], ks, h => by simp [colsByName] at h; subst h; simp
  | cols, unk, n :: ns, ks, h => by
    simp only [colsByName] at h
    split at h
    · cases h
    · rename_i k hk
      split at h
      · cases h
      · rename_i ks' hks'
        injection h with h; subst h
        obtain ⟨h1, h2⟩ := colsByName_spec hks'
        refine ⟨by simp [h1], ?_⟩
        intro j hj
        cases j with
        | zero => exact ⟨k, by simp, by simpa using hk⟩
        | succ j =>
          obtain ⟨k', e1, e2⟩ := h2 j (by simpa using hj)
          exact ⟨k', by simpa using e1, by simpa using e2⟩

end Nix.Frame
