import NixModel.Lemmas.C10Values

/-!
# C10 helper lemmas, part 2: the section state, its invariant, the shape of every transition
-/
namespace Nix.PropVals
open Nix.Units (Str)

/-! ## lookups -/

theorem findProp_mem {st : State} {k : PKey} {p : PropRec} (h : findProp st k = .ok p) : p ∈ st.props := by
  cases k with
  | idx i =>
    simp only [findProp] at h
    cases hn : normIdx st.props.length i with
    | none => simp [hn] at h
    | some j =>
      simp only [hn] at h
      cases hq : st.props[j]? with
      | none => simp [hq] at h
      | some q =>
        simp [hq] at h; subst h
        exact List.mem_of_getElem? hq
  | key k =>
    cases k with
    | id n =>
      simp only [findProp] at h
      cases hq : st.props.find? (·.id == n) with
      | none => simp [hq] at h
      | some q =>
        simp [hq] at h; subst h
        exact List.mem_of_find?_eq_some hq
    | name s =>
      simp only [findProp] at h
      cases hq : st.props.find? (·.name == s) with
      | none => simp [hq] at h
      | some q =>
        simp [hq] at h; subst h
        exact List.mem_of_find?_eq_some hq

theorem findProp_error {st : State} {k : PKey} {e : Err} (h : findProp st k = .error e) :
    e = .keyError ∨ e = .indexError := by
  cases k with
  | idx i =>
    simp only [findProp] at h
    cases hn : normIdx st.props.length i with
    | none => simp [hn] at h; simp [← h]
    | some j =>
      simp only [hn] at h
      cases hq : st.props[j]? with
      | none => simp [hq] at h; simp [← h]
      | some q => simp [hq] at h
  | key k =>
    cases k with
    | id n =>
      simp only [findProp] at h
      cases hq : st.props.find? (·.id == n) with
      | none => simp [hq] at h; simp [← h]
      | some q => simp [hq] at h
    | name s =>
      simp only [findProp] at h
      cases hq : st.props.find? (·.name == s) with
      | none => simp [hq] at h; simp [← h]
      | some q => simp [hq] at h

theorem find?_congr' {α : Type} {f g : α → Bool} : ∀ {l : List α}, (∀ x ∈ l, f x = g x) →
    l.find? f = l.find? g
  | [], _ => rfl
  | x :: xs, h => by
    have hx := h x (by simp)
    simp only [List.find?, hx]
    cases g x
    · exact find?_congr' (fun y hy => h y (by simp [hy]))
    · rfl

/-! ## the invariant -/

structure Inv (st : State) : Prop where
  ids : (st.props.map (·.id)).Nodup
  names : (st.props.map (·.name)).Nodup
  secNames : (st.secs.map (·.name)).Nodup
  secIds : (st.secs.map (·.id)).Nodup
  propFresh : ∀ p ∈ st.props, p.id < st.next
  secFresh : ∀ x ∈ st.secs, x.id < st.next
  disjoint : ∀ p ∈ st.props, ∀ x ∈ st.secs, p.id ≠ x.id
  typed : ∀ p ∈ st.props, Typed p

theorem inv_init : Inv State.init :=
  ⟨by simp [State.init], by simp [State.init], by simp [State.init], by simp [State.init],
   by simp [State.init], by simp [State.init], by simp [State.init], by simp [State.init]⟩

/-- two members with the same id are the same record -/
theorem eq_of_id {l : List PropRec} (hn : (l.map (·.id)).Nodup) {p q : PropRec} (hp : p ∈ l) (hq : q ∈ l)
    (h : p.id = q.id) : p = q := by
  induction l with
  | nil => simp at hp
  | cons x xs ih =>
    simp only [List.map_cons, List.nodup_cons, List.mem_map, not_exists, not_and] at hn
    rcases List.mem_cons.mp hp with rfl | hp' <;> rcases List.mem_cons.mp hq with rfl | hq'
    · rfl
    · exact absurd h.symm (hn.1 q hq')
    · exact absurd h (hn.1 p hp')
    · exact ih hn.2 hp' hq'

theorem eq_of_name {l : List PropRec} (hn : (l.map (·.name)).Nodup) {p q : PropRec} (hp : p ∈ l) (hq : q ∈ l)
    (h : p.name = q.name) : p = q := by
  induction l with
  | nil => simp at hp
  | cons x xs ih =>
    simp only [List.map_cons, List.nodup_cons, List.mem_map, not_exists, not_and] at hn
    rcases List.mem_cons.mp hp with rfl | hp' <;> rcases List.mem_cons.mp hq with rfl | hq'
    · rfl
    · exact absurd h.symm (hn.1 q hq')
    · exact absurd h (hn.1 p hp')
    · exact ih hn.2 hp' hq'

/-- a lookup by key returns the member that carries the key -/
theorem find?_id_of_mem {l : List PropRec} (hn : (l.map (·.id)).Nodup) {p : PropRec} (hp : p ∈ l) :
    l.find? (·.id == p.id) = some p := by
  cases h : l.find? (·.id == p.id) with
  | none =>
    rw [List.find?_eq_none] at h
    exact absurd (by simp) (h p hp)
  | some q =>
    have hq := List.mem_of_find?_eq_some h
    have hid : q.id = p.id := by simpa using List.find?_some h
    rw [eq_of_id hn hq hp hid]

theorem find?_name_of_mem {l : List PropRec} (hn : (l.map (·.name)).Nodup) {p : PropRec} (hp : p ∈ l) :
    l.find? (·.name == p.name) = some p := by
  cases h : l.find? (·.name == p.name) with
  | none =>
    rw [List.find?_eq_none] at h
    exact absurd (by simp) (h p hp)
  | some q =>
    have hq := List.mem_of_find?_eq_some h
    have hid : q.name = p.name := by simpa using List.find?_some h
    rw [eq_of_name hn hq hp hid]

/-! ## `putProp` -/

theorem putProp_map_id (st : State) (q : PropRec) :
    (st.putProp q).props.map (·.id) = st.props.map (·.id) := by
  simp only [State.putProp, List.map_map]
  apply List.map_congr_left
  intro r _
  by_cases h : r.id = q.id <;> simp [h]

theorem putProp_map_name {st : State} (hn : (st.props.map (·.id)).Nodup) {p q : PropRec} (hp : p ∈ st.props)
    (hh : SameHead p q) : (st.putProp q).props.map (·.name) = st.props.map (·.name) := by
  simp only [State.putProp, List.map_map]
  apply List.map_congr_left
  intro r hr
  by_cases h : r.id = q.id
  · have : r = p := eq_of_id hn hr hp (by rw [h, hh.id])
    subst this
    simp [hh.id, hh.name]
  · simp [h]

theorem mem_putProp {st : State} {q r : PropRec} (h : r ∈ (st.putProp q).props) :
    r = q ∨ (r ∈ st.props ∧ r.id ≠ q.id) := by
  simp only [State.putProp, List.mem_map] at h
  obtain ⟨x, hx, hr⟩ := h
  by_cases hid : x.id = q.id
  · simp [hid] at hr; exact Or.inl hr.symm
  · simp [hid] at hr; subst hr; exact Or.inr ⟨hx, hid⟩

theorem mem_putProp_of_ne {st : State} {q r : PropRec} (hr : r ∈ st.props) (hne : r.id ≠ q.id) :
    r ∈ (st.putProp q).props := by
  simp only [State.putProp, List.mem_map]
  exact ⟨r, hr, by simp [hne]⟩

theorem mem_putProp_self {st : State} {p q : PropRec} (hp : p ∈ st.props) (hid : q.id = p.id) :
    q ∈ (st.putProp q).props := by
  simp only [State.putProp, List.mem_map]
  exact ⟨p, hp, by simp [hid]⟩

/-- writing back the unchanged record changes nothing -/
theorem putProp_self {st : State} (hn : (st.props.map (·.id)).Nodup) {p : PropRec} (hp : p ∈ st.props) :
    st.putProp p = st := by
  have : st.props.map (fun r => if r.id == p.id then p else r) = st.props := by
    conv => rhs; rw [← List.map_id st.props]
    apply List.map_congr_left
    intro r hr
    by_cases h : r.id = p.id
    · simp [eq_of_id hn hr hp h]
    · simp [h]
  simp only [State.putProp, this]

theorem findProp_putProp {st : State} (hinv : Inv st) {k : PKey} {p q : PropRec}
    (hf : findProp st k = .ok p) (hh : SameHead p q) : findProp (st.putProp q) k = .ok q := by
  have hp := findProp_mem hf
  cases k with
  | idx i =>
    simp only [findProp] at hf ⊢
    have hlen : (st.putProp q).props.length = st.props.length := by simp [State.putProp]
    rw [hlen]
    cases hn : normIdx st.props.length i with
    | none => simp [hn] at hf
    | some j =>
      simp only [hn] at hf ⊢
      cases hq : st.props[j]? with
      | none => simp [hq] at hf
      | some r =>
        simp [hq] at hf; subst hf
        simp [State.putProp, List.getElem?_map, hq, hh.id]
  | key k =>
    cases k with
    | id n =>
      simp only [findProp] at hf ⊢
      cases hr : st.props.find? (·.id == n) with
      | none => simp [hr] at hf
      | some r =>
        simp [hr] at hf; subst hf
        have hpn : r.id = n := by simpa using List.find?_some hr
        have : (st.putProp q).props.find? (·.id == n) = some q := by
          simp only [State.putProp, List.find?_map]
          have hc : st.props.find? ((fun x : PropRec => x.id == n) ∘ fun r' => if r'.id == q.id then q else r') =
              st.props.find? (fun x : PropRec => x.id == n) := by
            apply find?_congr'
            intro x _
            by_cases hx : x.id = q.id
            · simp [hx]
            · simp [hx]
          rw [hc, hr]
          simp [hh.id]
        simp [this]
    | name s =>
      simp only [findProp] at hf ⊢
      cases hr : st.props.find? (·.name == s) with
      | none => simp [hr] at hf
      | some r =>
        simp [hr] at hf; subst hf
        have : (st.putProp q).props.find? (·.name == s) = some q := by
          simp only [State.putProp, List.find?_map]
          have hc : st.props.find? ((fun x : PropRec => x.name == s) ∘ fun r' => if r'.id == q.id then q else r') =
              st.props.find? (fun x : PropRec => x.name == s) := by
            apply find?_congr'
            intro x hx
            by_cases hxq : x.id = q.id
            · have : x = r := eq_of_id hinv.ids hx hp (by rw [hxq, hh.id])
              subst this
              simp [hh.id, hh.name]
            · simp [hxq]
          rw [hc, hr]
          simp [hh.id]
        simp [this]

/-! ## shape of a transition -/

inductive Trans (st : State) : State → Prop where
  | same : Trans st st
  | put (p q : PropRec) (hp : p ∈ st.props) (hh : SameHead p q) (ht : Typed p → Typed q) :
      Trans st (st.putProp q)
  | addProp (q : PropRec) (hid : q.id = st.next) (hname : ∀ p ∈ st.props, p.name ≠ q.name) (ht : Typed q) :
      Trans st { st with props := st.props ++ [q], next := st.next + 1 }
  | addSec (x : SecRec) (hid : x.id = st.next) (hname : ∀ y ∈ st.secs, y.name ≠ x.name) :
      Trans st { st with secs := st.secs ++ [x], next := st.next + 1 }
  | del (n : Nat) :
      Trans st { st with props := st.props.filter (·.id != n), secs := st.secs.filter (·.id != n) }

theorem nodup_map_filter {α β : Type} (f : α → β) (g : α → Bool) {l : List α} (h : (l.map f).Nodup) :
    ((l.filter g).map f).Nodup :=
  List.Nodup.sublist (List.Sublist.map f List.filter_sublist) h

theorem Trans.inv {st st' : State} (t : Trans st st') (hinv : Inv st) : Inv st' := by
  cases t with
  | same => exact hinv
  | put p q hp hh ht =>
    refine ⟨?_, ?_, hinv.secNames, hinv.secIds, ?_, hinv.secFresh, ?_, ?_⟩
    · rw [putProp_map_id]; exact hinv.ids
    · rw [putProp_map_name hinv.ids hp hh]; exact hinv.names
    · intro r hr
      rcases mem_putProp hr with rfl | ⟨hr', _⟩
      · rw [hh.id]; exact hinv.propFresh p hp
      · exact hinv.propFresh r hr'
    · intro r hr x hx
      rcases mem_putProp hr with rfl | ⟨hr', _⟩
      · rw [hh.id]; exact hinv.disjoint p hp x hx
      · exact hinv.disjoint r hr' x hx
    · intro r hr
      rcases mem_putProp hr with rfl | ⟨hr', _⟩
      · exact ht (hinv.typed p hp)
      · exact hinv.typed r hr'
  | addProp q hid hname ht =>
    refine ⟨?_, ?_, hinv.secNames, hinv.secIds, ?_, ?_, ?_, ?_⟩
    · simp only [List.map_append, List.map_cons, List.map_nil]
      rw [List.nodup_append]
      refine ⟨hinv.ids, by simp, ?_⟩
      intro a ha b hb
      simp at hb; subst hb
      simp only [List.mem_map] at ha
      obtain ⟨p, hp, rfl⟩ := ha
      have := hinv.propFresh p hp
      omega
    · simp only [List.map_append, List.map_cons, List.map_nil]
      rw [List.nodup_append]
      refine ⟨hinv.names, by simp, ?_⟩
      intro a ha b hb
      simp at hb; subst hb
      simp only [List.mem_map] at ha
      obtain ⟨p, hp, rfl⟩ := ha
      exact hname p hp
    · intro r hr
      simp only [List.mem_append, List.mem_singleton] at hr
      rcases hr with hr | rfl
      · have := hinv.propFresh r hr; simp; omega
      · simp [hid]
    · intro x hx
      have := hinv.secFresh x hx; simp; omega
    · intro r hr x hx
      simp only [List.mem_append, List.mem_singleton] at hr
      rcases hr with hr | rfl
      · exact hinv.disjoint r hr x hx
      · have := hinv.secFresh x hx; simp at hx; omega
    · intro r hr
      simp only [List.mem_append, List.mem_singleton] at hr
      rcases hr with hr | rfl
      · exact hinv.typed r hr
      · exact ht
  | addSec x hid hname =>
    refine ⟨hinv.ids, hinv.names, ?_, ?_, ?_, ?_, ?_, hinv.typed⟩
    · simp only [List.map_append, List.map_cons, List.map_nil]
      rw [List.nodup_append]
      refine ⟨hinv.secNames, by simp, ?_⟩
      intro a ha b hb
      simp at hb; subst hb
      simp only [List.mem_map] at ha
      obtain ⟨y, hy, rfl⟩ := ha
      exact hname y hy
    · simp only [List.map_append, List.map_cons, List.map_nil]
      rw [List.nodup_append]
      refine ⟨hinv.secIds, by simp, ?_⟩
      intro a ha b hb
      simp at hb; subst hb
      simp only [List.mem_map] at ha
      obtain ⟨y, hy, rfl⟩ := ha
      have := hinv.secFresh y hy
      omega
    · intro r hr
      have := hinv.propFresh r hr; simp; omega
    · intro y hy
      simp only [List.mem_append, List.mem_singleton] at hy
      rcases hy with hy | rfl
      · have := hinv.secFresh y hy; simp; omega
      · simp [hid]
    · intro r hr y hy
      simp only [List.mem_append, List.mem_singleton] at hy
      rcases hy with hy | rfl
      · exact hinv.disjoint r hr y hy
      · have := hinv.propFresh r hr; omega
  | del n =>
    refine ⟨nodup_map_filter _ _ hinv.ids, nodup_map_filter _ _ hinv.names,
      nodup_map_filter _ _ hinv.secNames, nodup_map_filter _ _ hinv.secIds, ?_, ?_, ?_, ?_⟩
    · intro r hr; exact hinv.propFresh r ((List.mem_filter.mp hr).1)
    · intro x hx; exact hinv.secFresh x ((List.mem_filter.mp hx).1)
    · intro r hr x hx
      exact hinv.disjoint r ((List.mem_filter.mp hr).1) x ((List.mem_filter.mp hx).1)
    · intro r hr; exact hinv.typed r ((List.mem_filter.mp hr).1)

/-! ## every operation is one of these transitions -/

theorem onProp_trans {st : State} {k : PKey} {f : PropRec → PropRec × Except Err Unit}
    (hf : ∀ p, SameHead p (f p).1 ∧ (Typed p → Typed (f p).1)) : Trans st (onProp st k f).1 := by
  unfold onProp
  split
  · exact Trans.same
  · rename_i p hp
    exact Trans.put p (f p).1 (findProp_mem hp) (hf p).1 (hf p).2

theorem createPlan_wf {inp vals : Input} {dt : TypeArg ⊕ DType} {n : Nat} (hwf : inp.WF = true)
    (h : createPlan inp = .ok (dt, n, vals)) : vals.WF = true := by
  cases inp with
  | none => simp [createPlan] at h
  | type t => simp [createPlan] at h; rw [← h.2.2]; rfl
  | list vs =>
    cases vs with
    | nil => simp [createPlan] at h
    | cons v vs =>
      simp only [createPlan] at h
      split at h
      · simp at h
      · split at h
        · simp at h
        · simp at h; rw [← h.2.2]; exact hwf
  | scalar v =>
    simp only [createPlan] at h
    split at h
    · simp at h
    · split at h
      · simp at h
      · split at h
        · simp at h
        · simp at h; rw [← h.2.2]; rfl
  | ndarray dt' shape data =>
    simp only [createPlan] at h
    split at h
    · simp at h
    · simp at h
    · split at h
      · simp at h
      · split at h
        · simp at h; rw [← h.2.2]; exact hwf
        · simp at h
    · simp at h

theorem createProperty_trans {st : State} {name : Str} {inp : Input} (hwf : inp.WF = true) :
    Trans st (createProperty st name inp).1 := by
  unfold createProperty
  split
  · exact Trans.same
  · rename_i hdup
    split
    · exact Trans.same
    · rename_i dt n vals hplan
      split
      · exact Trans.same
      · split
        · exact Trans.same
        · rename_i d hd
          have hvwf := createPlan_wf hwf hplan
          let p0 : PropRec := newProp st name d n
          have hp0 : Typed p0 := by
            intro c hc
            simp only [p0, newProp, List.mem_replicate] at hc
            rw [hc.2]; exact fill_ok d
          have hh := (setValues_head p0 vals).1
          simp only
          split
          · exact Trans.same
          · apply Trans.addProp (setValues p0 vals).1
            · exact hh.id
            · intro p hp hne
              apply hdup
              rw [List.any_eq_true]
              exact ⟨p, hp, by rw [hne, hh.name]; simp [p0, newProp]⟩
            · exact setValues_typed hvwf hp0

theorem createSection_trans {st : State} {name type : Str} : Trans st (createSection st name type).1 := by
  unfold createSection
  split
  · exact Trans.same
  · split
    · exact Trans.same
    · split
      · exact Trans.same
      · rename_i hdup
        apply Trans.addSec { name := name, id := st.next } rfl
        intro y hy hne
        apply hdup
        rw [List.any_eq_true]
        exact ⟨y, hy, by simp [hne]⟩

theorem step_trans {st : State} {op : Op} (hwf : op.WF = true) : Trans st (step st op).1 := by
  cases op with
  | create name inp => exact createProperty_trans hwf
  | set k inp =>
    exact onProp_trans fun p => ⟨(setValues_head p inp).1, setValues_typed hwf⟩
  | extend k inp =>
    exact onProp_trans fun p => ⟨(extendValues_head p inp).1, extendValues_typed hwf⟩
  | clear k =>
    exact onProp_trans fun p => ⟨⟨rfl, rfl, rfl⟩, fun _ c hc => by simp [PropRec.clear] at hc⟩
  | setAttr k a v =>
    exact onProp_trans fun p =>
      ⟨(setAttr_head p a v).1, fun h => by
        intro c hc
        rw [(setAttr_head p a v).2] at hc
        rw [(setAttr_head p a v).1.dtype]
        exact h c hc⟩
  | setOdml k o =>
    exact onProp_trans fun p =>
      ⟨(setOdml_head p o).1, fun h => by
        intro c hc
        rw [(setOdml_head p o).2] at hc
        rw [(setOdml_head p o).1.dtype]
        exact h c hc⟩
  | get k => exact Trans.same
  | mksec name type => exact createSection_trans
  | getitem k => exact Trans.same
  | setitem key v =>
    cases v with
    | S ty => exact createSection_trans
    | val inp =>
      simp only [step, lift, setitem]
      have hdw : inp.asListData.WF = true := by
        cases inp <;> simp_all [Input.asListData, Input.WF, Input.asElem, Op.WF]
      split
      · exact createProperty_trans hdw
      · split
        · exact Trans.same
        · rename_i p hp
          exact Trans.put p _ (findProp_mem hp) (setValues_head p _).1 (setValues_typed hdw)
  | delitem k =>
    simp only [step, lift, delitem]
    split
    · exact Trans.same
    · exact Trans.del _
  | contains k => exact Trans.same
  | len => exact Trans.same
  | items => exact Trans.same
  | reopen => exact Trans.same
  | iter => exact Trans.same

theorem step_inv {st : State} {op : Op} (hwf : op.WF = true) (hinv : Inv st) : Inv (step st op).1 :=
  (step_trans hwf).inv hinv

theorem run_inv : ∀ {ops : List Op} {st : State}, (∀ op ∈ ops, op.WF = true) → Inv st → Inv (run st ops)
  | [], _, _, h => h
  | op :: ops, st, hwf, h =>
    run_inv (ops := ops) (fun o ho => hwf o (by simp [ho])) (step_inv (hwf op (by simp)) h)

/-- every state a history of well-formed operations can reach from the empty section -/
def Reachable (st : State) : Prop := ∃ ops : List Op, (∀ op ∈ ops, op.WF = true) ∧ run State.init ops = st

theorem Reachable.inv {st : State} (h : Reachable st) : Inv st := by
  obtain ⟨ops, hwf, rfl⟩ := h
  exact run_inv hwf inv_init

theorem Reachable.step {st : State} (h : Reachable st) {op : Op} (hwf : op.WF = true) :
    Reachable (step st op).1 := by
  obtain ⟨ops, hw, rfl⟩ := h
  refine ⟨ops ++ [op], ?_, ?_⟩
  · intro o ho
    rcases List.mem_append.mp ho with ho | ho
    · exact hw o ho
    · simp at ho; subst ho; exact hwf
  · have : ∀ (l : List Op) (s : State), run s (l ++ [op]) = (PropVals.step (run s l) op).1 := by
      intro l
      induction l with
      | nil => intro s; rfl
      | cons x xs ih => intro s; simp only [List.cons_append, run]; exact ih _
    exact this ops State.init

end Nix.PropVals
