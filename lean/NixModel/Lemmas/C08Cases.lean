import NixModel.Lemmas.C08Slices

/-!
Lemmas for C08, part 6: special shapes of the tag — an extent of zeros, no position, fewer units than positions.
-/
namespace Nix.Tagging
open Nix Nix.Dim Nix.DataView Nix.Units

/-- a zero extent entry and a missing one give the same stop position and mode -/
theorem stopOf_zero (stop : SliceMode) (start sc : Rat) :
    stopOf stop start sc (some 0) = stopOf stop start sc none := by
  rw [stopOf_some, stopOf_none]
  simp

theorem axisSlice_zero (stop : SliceMode) (dim : DimDesc) (p : Rat) (unit : Option Str) :
    axisSlice stop dim p (some 0) unit = axisSlice stop dim p none unit := by
  unfold axisSlice
  cases scalePosition p unit dim with
  | error e => rfl
  | ok r =>
    obtain ⟨start, sc⟩ := r
    simp only [stopOf_zero]

/-- **an extent of zeros is no extent**: `_calc_data_slices` computes the same slices -/
theorem calcSlices_zero_extent (stop : SliceMode) (dims : List DimDesc) :
    ∀ (shape : List Nat) (pos ext : List Rat) (units : Option (List Str)), (∀ e, e ∈ ext → e = 0) →
      calcSlices stop dims shape pos ext units = calcSlices stop dims shape pos [] units := by
  induction dims with
  | nil => intro shape pos ext units _; simp [calcSlices]
  | cons dim dims ih =>
    intro shape pos ext units hz
    cases pos with
    | nil =>
      cases shape with
      | nil => simp [calcSlices]
      | cons n shape' =>
        simp only [calcSlices]
        rw [ih shape' [] ext units hz]
    | cons p pos =>
      cases ext with
      | nil => rfl
      | cons e es =>
        have he : e = 0 := hz e (by simp)
        subst he
        have hes : ∀ x, x ∈ es → x = 0 := fun x hx => hz x (by simp [hx])
        simp only [calcSlices, nextExtent, axisSlice_zero]
        cases nextUnit units with
        | error e => rfl
        | ok r =>
          obtain ⟨u, us⟩ := r
          simp only []
          rw [ih (shape.drop 1) pos es us hes]

/-- without a position every axis is taken whole, whatever the descriptors, the extent and the units -/
theorem calcSlices_no_position (stop : SliceMode) (dims : List DimDesc) :
    ∀ (shape : List Nat) (ext : List Rat) (units : Option (List Str)), dims.length = shape.length →
      calcSlices stop dims shape [] ext units = .ok (fullWindows shape) := by
  induction dims with
  | nil =>
    intro shape ext units h
    cases shape with
    | nil => simp [calcSlices, fullWindows]
    | cons n s => simp at h
  | cons dim dims ih =>
    intro shape ext units h
    cases shape with
    | nil => simp at h
    | cons n shape' =>
      have h' : dims.length = shape'.length := by simpa using h
      simp only [calcSlices, ih shape' ext units h', fullWindows, List.map_cons, gen_wholeAxisStart]

/-- **fewer units than axes that have a position: never data.**  When the tag carries units but fewer than
`min(len(position), rank)`, `_calc_data_slices` fails (`units[idx]` is an `IndexError`, unless an earlier axis
already failed) -/
theorem calcSlices_units_short (stop : SliceMode) (dims : List DimDesc) :
    ∀ (shape : List Nat) (pos ext : List Rat) (us : List Str),
      us.length < pos.length → us.length < dims.length →
      ∃ e, calcSlices stop dims shape pos ext (some us) = .error e := by
  induction dims with
  | nil => intro shape pos ext us _ h; simp at h
  | cons dim dims ih =>
    intro shape pos ext us hp hd
    cases pos with
    | nil => simp at hp
    | cons p pos =>
      cases us with
      | nil => exact ⟨.indexError, by simp [calcSlices, nextUnit]⟩
      | cons u us =>
        have hp' : us.length < pos.length := by simpa using hp
        have hd' : us.length < dims.length := by simpa using hd
        obtain ⟨e, he⟩ := ih (shape.drop 1) pos (nextExtent ext).2 us hp' hd'
        simp only [calcSlices, nextUnit]
        cases axisSlice stop dim p (nextExtent ext).1 (some u) with
        | error e' => exact ⟨e', rfl⟩
        | ok w =>
          simp only [he]
          exact ⟨e, rfl⟩

/-- the common tail of the three `range_indices` never lets an `IndexError` through (it becomes `None`) -/
theorem pairOrNone_no_indexError (a b : Except Err Int) : pairOrNone a b ≠ .error .indexError := by
  unfold pairOrNone
  cases a with
  | error e => cases e <;> simp
  | ok s =>
    cases b with
    | error e => cases e <;> simp
    | ok e => by_cases h : s > e <;> simp [h]

/-- in exact windows, two samples of an axis' descriptor with the same coordinate are both inside the window of
that axis or both outside (axes with a position entry) -/
theorem windowsExact_equal_coords (stop : SliceMode) (dims : List DimDesc) (shape : List Nat)
    (pos ext scs : List Rat) (ws : List Win) (h : WindowsExact stop dims shape pos ext scs ws) :
    ∀ (d : Nat) (dim : DimDesc) (w : Win), dims[d]? = some dim → ws[d]? = some w → d < pos.length →
      ∀ i j : Nat, InDom (dimDom dim) i → InDom (dimDom dim) j → dimCoord dim i = dimCoord dim j →
        ((w.1 ≤ (i : Int) ∧ (i : Int) < w.2) ↔ (w.1 ≤ (j : Int) ∧ (j : Int) < w.2)) := by
  induction h with
  | nil pos ext scs => intro d dim w hd; simp at hd
  | pos dim0 dims n shape p pos ext sc scs a b ws hab hbn hdomw hexact hrest ih =>
    intro d dim w hd hw hlt i j hi hj hc
    cases d with
    | zero =>
      simp only [List.getElem?_cons_zero, Option.some.injEq] at hd hw
      subst hd; subst hw
      have e1 := hexact i hi
      have e2 := hexact j hj
      have hij : InRegion dim0 (regionOf stop p (nextExtent ext).1 sc) i ↔
          InRegion dim0 (regionOf stop p (nextExtent ext).1 sc) j := by
        unfold InRegion; rw [hc]
      simp only []
      constructor
      · intro h1
        have := e2.mp (hij.mp (e1.mpr ⟨by omega, by omega⟩))
        omega
      · intro h1
        have := e1.mp (hij.mpr (e2.mpr ⟨by omega, by omega⟩))
        omega
    | succ d =>
      simp only [List.getElem?_cons_succ] at hd hw
      exact ih d dim w hd hw (by simpa using hlt) i j hi hj hc
  | whole dim0 dims n shape ext scs ws hrest ih =>
    intro d dim w hd hw hlt
    simp at hlt

/-- the conclusion shared by the statements below: on axis `d` of the windows `ws`, samples `i`, `j` of the axis'
descriptor with the same coordinate are both inside or both outside -/
def RunsWhole (dims : List DimDesc) (ws : List Win) (npos : Nat) : Prop :=
  ∀ (d : Nat) (dim : DimDesc) (w : Win), dims[d]? = some dim → ws[d]? = some w → d < npos →
    ∀ i j : Nat, InDom (dimDom dim) i → InDom (dimDom dim) j → dimCoord dim i = dimCoord dim j →
      ((w.1 ≤ (i : Int) ∧ (i : Int) < w.2) ↔ (w.1 ≤ (j : Int) ∧ (j : Int) < w.2))

end Nix.Tagging
