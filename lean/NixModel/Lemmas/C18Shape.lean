import NixModel.Generated.UpgradeShape
import NixModel.Lemmas.C18Basic

/-! the source shape extracted from `nixio/cmd/upgrade.py`, interpreted, is the hand-written model -/
namespace Nix.Upgrade.Lemmas
open Nix.Upgrade Nix.Upgrade.Shape

theorem shape_collect (lib : List Nat) (f : File) :
    collectG Gen.upToDateOp Gen.taskOrder Gen.idOuterTest lib f = collect lib f := by
  unfold collectG collect Gen.upToDateOp Gen.taskOrder Gen.idOuterTest upToDate Cmp.eval
  by_cases h : lib ≤ f.version
  · simp [h]
  · simp only [h, decide_false, Bool.false_eq_true, ↓reduceIte, List.flatMap_cons, List.flatMap_nil,
      taskNeeded, taskSteps, Bool.true_and, Bool.not_not, Bool.not_true, Bool.and_false, List.append_nil]
    cases hv : hasValidId f <;> cases hp : propTasks f <;> cases ha : aliasDims f.arrays <;> simp

theorem shape_process (l : List Step) : runOrder Gen.processOrder l = l := rfl

theorem shape_prop_find (o : PObj) :
    Gen.propFind.eval (propEnv o) = some (match o with | .old _ => true | .new _ => false) := by
  cases o <;> rfl

theorem shape_prop_recheck (o : PObj) :
    Gen.propGoAhead.eval (propEnv o) = some (match o with | .old _ => true | .new _ => false) := by
  cases o <;> rfl

theorem shape_dim_find (d : Dim) : Gen.dimFind.eval (dimEnv d) = some (isAliasDim d) := by
  unfold Gen.dimFind isAliasDim
  simp only [BExp.eval, dimEnv]
  cases d.ticks <;> cases d.link <;> cases d.alias <;> rfl

theorem shape_dim_recheck (d : Dim) :
    Gen.dimSkip.eval (dimEnv d) = some (d.ticks.isSome || (d.link.isSome && !d.alias)) := by
  unfold Gen.dimSkip
  simp only [BExp.eval, dimEnv]
  cases d.ticks <;> cases d.link <;> cases d.alias <;> rfl

theorem shape_is_alias (d : Dim) :
    firstMatch (readEnv d) Gen.isAliasRules Gen.isAliasDefault = some (isAliasRead d) := by
  obtain ⟨name, ty, ticks, unit, label, alias, link⟩ := d
  unfold Gen.isAliasRules Gen.isAliasDefault isAliasRead
  cases ticks <;> cases link <;> cases alias <;>
    simp [firstMatch, BExp.eval, readEnv] <;>
    (rename_i l; cases l.dataObjectType == "DataArray" <;> rfl)

theorem shape_sources (d : Dim) :
    firstMatch (getterEnv (isAliasRead d) d) Gen.ticksSource.1 Gen.ticksSource.2 = some (sourceOf d) ∧
    firstMatch (getterEnv (isAliasRead d) d) Gen.unitSource.1 Gen.unitSource.2 = some (sourceOf d) ∧
    firstMatch (getterEnv (isAliasRead d) d) Gen.labelSource.1 Gen.labelSource.2 = some (sourceOf d) := by
  unfold Gen.ticksSource Gen.unitSource Gen.labelSource sourceOf
  cases isAliasRead d <;> cases hl : d.link <;>
    simp [firstMatch, BExp.eval, getterEnv, hl]

/-- `readDim` reads the array through the alias link or the link group, and the dimension group otherwise -/
theorem readDim_source (a : Arr) (d : Dim) :
    readDim a d = match sourceOf d with
      | .redirect => ⟨a.data, a.unit, a.label⟩
      | .link => ⟨a.data, a.unit, a.label⟩
      | .own => ⟨d.ticks.getD "[]", d.unit, d.label⟩ := by
  unfold readDim sourceOf
  cases isAliasRead d <;> cases hl : d.link <;> simp

theorem any_if_singleton {α : Type} (c : Bool) (x : α) (f : α → Bool) :
    (if c = true then [x] else []).any f = (c && f x) := by
  cases c <;> simp

theorem column_unc (o : OldProp) : column o "uncertainty" = some (.flt (o.rows.map (·.uncertainty))) := rfl
theorem column_ref (o : OldProp) : column o "reference" = some (.str (o.rows.map (·.reference))) := rfl
theorem column_fn (o : OldProp) : column o "filename" = some (.str (o.rows.map (·.filename))) := rfl
theorem column_enc (o : OldProp) : column o "encoder" = some (.str (o.rows.map (·.encoder))) := rfl
theorem column_chk (o : OldProp) : column o "checksum" = some (.str (o.rows.map (·.checksum))) := rfl

/-- the names tested before anything is changed are exactly the names of the properties the rules create -/
theorem shape_refusal (run : Nat) (ps : List (Path × PObj)) (p : Path) (o : OldProp) :
    nameTakenG Gen.refusal ps p o = some (nameTaken ps (converted run p o)) := by
  unfold nameTaken converted Gen.refusal
  simp only [nameTakenG, column_unc, column_ref, column_fn, column_enc, column_chk, Test.eval, List.append_assoc, List.cons_append, List.nil_append, List.tail_cons,
    List.any_append, List.any_map, Function.comp_def]
  simp only [any_if_singleton, Bool.or_false]

theorem applyRule_str (run : Nat) (p : Path) (o : OldProp) (m : NewProp) (es : List (Path × PObj)) (b : Bool)
    (field suf : String) (sel : OldRow → String) (hc : column o field = some (.str (o.rows.map sel))) :
    applyRule run p o ⟨m, es, b⟩ ⟨field, .anyTruthy, .prop suf "str", false⟩ =
      some ⟨m, es ++ (if o.rows.any (fun r => sel r != "") then
                [(extraPath p suf, PObj.new (freshProp run "str" (o.rows.map fun r => Val.str (sel r))))] else []),
            o.rows.any (fun r => sel r != "")⟩ := by
  unfold applyRule
  rw [hc]
  simp only [Bool.false_and, Bool.false_eq_true, ↓reduceIte, Test.eval, List.any_map, Column.vals, List.map_map]
  cases h : o.rows.any ((fun x => x != "") ∘ sel) <;>
    simp_all [Function.comp_def]

theorem applyRules_unc (run : Nat) (p : Path) (o : OldProp) (m : NewProp) (es : List (Path × PObj)) (b : Bool)
    (rs : List Rule) :
    applyRules run p o ⟨m, es, b⟩
      (⟨"uncertainty", .distinctGt1, .prop ".uncertainty" "float64", false⟩ ::
       ⟨"uncertainty", .anyTruthy, .attrHead "uncertainty", true⟩ :: rs) =
    applyRules run p o
      ⟨{ m with uncertainty :=
          if decide (distinctCount (o.rows.map (·.uncertainty)) > 1) then m.uncertainty
          else if (o.rows.map (·.uncertainty)).any Flt.truthy then (o.rows.map (·.uncertainty)).head?
          else m.uncertainty },
       es ++ (if decide (distinctCount (o.rows.map (·.uncertainty)) > 1) then
                [(extraPath p ".uncertainty",
                  PObj.new (freshProp run "float64" ((o.rows.map (·.uncertainty)).map Val.flt)))] else []),
       decide (distinctCount (o.rows.map (·.uncertainty)) > 1) || (o.rows.map (·.uncertainty)).any Flt.truthy⟩ rs := by
  simp only [applyRules, applyRule, column, Test.eval, Column.vals]
  by_cases hm : distinctCount (o.rows.map (·.uncertainty)) > 1
  · simp [hm]
  · by_cases hu : (o.rows.map (·.uncertainty)).any Flt.truthy = true
    · simp [hm, hu]
    · simp [hm, hu]

theorem shape_conversion (run : Nat) (p : Path) (o : OldProp) :
    convertedG Gen.extraRules run p o = some (converted run p o) := by
  unfold convertedG converted Gen.extraRules
  dsimp only
  rw [applyRules_unc]
  simp only [applyRules]
  rw [applyRule_str run p o _ _ _ "reference" ".reference" (·.reference) rfl]
  simp only []
  rw [applyRule_str run p o _ _ _ "filename" ".filename" (·.filename) rfl]
  simp only []
  rw [applyRule_str run p o _ _ _ "encoder" ".encoder" (·.encoder) rfl]
  simp only []
  rw [applyRule_str run p o _ _ _ "checksum" ".checksum" (·.checksum) rfl]
  simp only [Option.map_some, freshProp, List.nil_append, List.append_assoc, List.cons_append, List.map_map]

/-! ### `create_property`, the main call, `has_valid_file_id`, `file_upgrade` -/

theorem textWrite_same (a : CreateArgs) (p : String) (v : Option String) (h : a.text p = some v) :
    textWrite a p (.truthy p) = some (nonEmpty v) := by
  unfold textWrite
  simp only [h, Option.map_some]
  cases v with
  | none => rfl
  | some t =>
    by_cases ht : t = ""
    · subst ht; rfl
    · simp [nonEmpty, Option.filter, ht]

/-- `create_property` as written makes the model's new property: id and timestamps of this run, dtype and values as
handed in, definition and unit exactly as handed in unless `None` or empty -/
theorem shape_create (run : Nat) (a : CreateArgs) :
    createG Gen.createDataset Gen.createAttrs run a =
      some { freshProp run a.dtype a.data with definition := nonEmpty a.definition, unit := nonEmpty a.unit } := by
  have hd : textWrite a "definition" (.truthy "definition") = some (nonEmpty a.definition) :=
    textWrite_same a "definition" a.definition rfl
  have hu : textWrite a "unit" (.truthy "unit") = some (nonEmpty a.unit) := textWrite_same a "unit" a.unit rfl
  unfold createG Gen.createDataset Gen.createAttrs
  simp only [writeAttrs, writeAttr, hd, hu, Option.map_some]
  rfl

/-- the main call as written hands over what was read from the old dataset: the dtype and the column of the values,
the `definition` and the `unit` attribute, each unmodified -/
theorem shape_main_args (o : OldProp) :
    mainArgsG Gen.mainArgs o = some ⟨o.dtype, o.rows.map (·.value), o.definition, o.unit⟩ := rfl

theorem shape_default_args (dt : String) (vals : List Val) :
    defaultArgsG Gen.createParams dt vals = some ⟨dt, vals, none, none⟩ := rfl

theorem shape_id_valid (f : File) : Gen.idValid.eval (idEnv f.id) = some (hasValidId f) := by
  unfold Gen.idValid hasValidId
  cases f.id <;> rfl

theorem shape_entry (lib : List Nat) (run : Nat) (f : File) :
    entryG Gen.entryOps lib run f = some (upgrade lib run f) := rfl

theorem shape_link (run : Nat) (daid : String) :
    newLinkG Gen.linkAttrs Gen.dimOps run daid = some (newLink run daid) := rfl

end Nix.Upgrade.Lemmas
