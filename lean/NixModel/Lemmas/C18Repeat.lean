import NixModel.Lemmas.C18Content

/-! "safe to repeat": a task list collected before the upgrade does nothing to the upgraded file -/
namespace Nix.Upgrade.Lemmas
open Nix.Upgrade

/-- the re-checked precondition of `update_alias_dims` says "skip" -/
def Skips (d : Dim) : Bool := d.ticks.isSome || (d.link.isSome && !d.alias)

def dimIn (dn : String) : List Dim → Option Dim
  | [] => none
  | d :: ds => if d.name == dn then some d else dimIn dn ds

/-- the dimension group `hfile[dimname]` addresses -/
def dimAt (ap dn : String) : List Arr → Option (Arr × Dim)
  | [] => none
  | a :: as => if a.path == ap then (dimIn dn a.dims).map (fun d => (a, d)) else dimAt ap dn as

theorem convertDimObj_skips {r : Nat} {daid : String} {d : Dim} (h : Skips d = true) :
    convertDimObj r daid d = (d, none) := by
  unfold Skips at h
  unfold convertDimObj
  simp [h]

theorem convertDimObj_alias_skips {r : Nat} {daid : String} {d : Dim} (h : isAliasDim d = true) :
    Skips (convertDimObj r daid d).1 = true := by
  obtain ⟨name, ty, ticks, unit, label, alias, link⟩ := d
  cases ticks <;> cases link <;> cases alias <;> simp_all [isAliasDim, convertDimObj, Skips, newLink]

theorem updDims_skip {r : Nat} {daid dn : String} : ∀ {ds : List Dim} {d : Dim},
    dimIn dn ds = some d → Skips d = true → updDims r daid dn ds = some (ds, none) := by
  intro ds
  induction ds with
  | nil => intro d h; simp [dimIn] at h
  | cons x ds ih =>
    intro d h hs
    simp only [dimIn] at h
    simp only [updDims]
    cases hx : (x.name == dn) with
    | true =>
      simp only [hx, ↓reduceIte, Option.some.injEq] at h
      subst h
      simp [convertDimObj_skips hs]
    | false =>
      simp only [hx, Bool.false_eq_true, ↓reduceIte] at h ⊢
      rw [ih h hs]
      rfl

theorem updArrs_skip {r : Nat} {ap dn : String} : ∀ {as : List Arr} {a : Arr} {d : Dim},
    dimAt ap dn as = some (a, d) → Skips d = true → updArrs r ap dn as = some (as, none) := by
  intro as
  induction as with
  | nil => intro a d h; simp [dimAt] at h
  | cons x as ih =>
    intro a d h hs
    simp only [dimAt] at h
    simp only [updArrs]
    cases hx : (x.path == ap) with
    | true =>
      simp only [hx, ↓reduceIte] at h ⊢
      cases hd : dimIn dn x.dims with
      | none => simp [hd] at h
      | some d' =>
        simp only [hd, Option.map_some, Option.some.injEq, Prod.mk.injEq] at h
        rw [updDims_skip hd (h.2 ▸ hs)]
        rfl
    | false =>
      simp only [hx, Bool.false_eq_true, ↓reduceIte] at h ⊢
      rw [ih h hs]
      rfl

/-- looking a dimension up after one conversion -/
theorem dimIn_updDims {r : Nat} {daid dn dn' : String} : ∀ {ds ds' : List Dim} {e : Option Err},
    updDims r daid dn' ds = some (ds', e) →
    dimIn dn ds' = if dn = dn' then (dimIn dn ds).map (fun d => (convertDimObj r daid d).1) else dimIn dn ds := by
  intro ds
  induction ds with
  | nil => intro ds' e h; simp [updDims] at h
  | cons x ds ih =>
    intro ds' e h
    simp only [updDims] at h
    cases hx : (x.name == dn') with
    | true =>
      simp only [hx, ↓reduceIte, Option.some.injEq, Prod.mk.injEq] at h
      rw [← h.1]
      have hxn : x.name = dn' := by simpa using hx
      simp only [dimIn, convertDimObj_name]
      by_cases hdd : dn = dn'
      · subst hdd
        simp [hxn]
      · have : (x.name == dn) = false := by
          simp only [beq_eq_false_iff_ne, ne_eq, hxn]
          exact fun h => hdd h.symm
        simp [this, hdd]
    | false =>
      simp only [hx, Bool.false_eq_true, ↓reduceIte] at h
      cases hu : updDims r daid dn' ds with
      | none => simp [hu] at h
      | some y =>
        obtain ⟨ys, e'⟩ := y
        simp only [hu, Option.map_some, Option.some.injEq, Prod.mk.injEq] at h
        rw [← h.1]
        have hxn : x.name ≠ dn' := by simpa using hx
        simp only [dimIn]
        rw [ih hu]
        by_cases hdd : dn = dn'
        · subst hdd
          have : (x.name == dn) = false := by simpa using hxn
          simp [this]
        · simp only [hdd, ↓reduceIte]

/-- after converting `(ap', dn')`, every addressed dimension is the old one or one that skips -/
theorem dimAt_updArrs {r : Nat} {ap dn ap' dn' : String} : ∀ {as as' : List Arr} {e : Option Err},
    updArrs r ap' dn' as = some (as', e) → ∀ {a : Arr} {d : Dim}, dimAt ap dn as = some (a, d) →
    ∃ a' d', dimAt ap dn as' = some (a', d') ∧
      (d' = d ∨ (ap = ap' ∧ dn = dn' ∧ d' = (convertDimObj r a.id d).1)) := by
  intro as
  induction as with
  | nil => intro as' e h; simp [updArrs] at h
  | cons x as ih =>
    intro as' e h a d hat
    simp only [updArrs] at h
    simp only [dimAt] at hat
    cases hx : (x.path == ap') with
    | true =>
      have hxp : x.path = ap' := by simpa using hx
      simp only [hx, ↓reduceIte] at h
      cases hu : updDims r x.id dn' x.dims with
      | none => simp [hu] at h
      | some y =>
        obtain ⟨ds', e'⟩ := y
        simp only [hu, Option.map_some, Option.some.injEq, Prod.mk.injEq] at h
        rw [← h.1]
        simp only [dimAt]
        cases hxa : (x.path == ap) with
        | true =>
          have hxa' : x.path = ap := by simpa using hxa
          simp only [hxa, ↓reduceIte] at hat ⊢
          rw [dimIn_updDims hu]
          cases hd : dimIn dn x.dims with
          | none => simp [hd] at hat
          | some d0 =>
            simp only [hd, Option.map_some, Option.some.injEq, Prod.mk.injEq] at hat
            obtain ⟨rfl, rfl⟩ := hat
            by_cases hdd : dn = dn'
            · subst hdd
              rw [if_pos rfl, Option.map_map, Option.map_some]
              exact ⟨_, _, rfl, Or.inr ⟨hxa'.symm.trans hxp, rfl, rfl⟩⟩
            · rw [if_neg hdd, Option.map_some]
              exact ⟨_, _, rfl, Or.inl rfl⟩
        | false =>
          simp only [hxa, Bool.false_eq_true, ↓reduceIte] at hat ⊢
          exact ⟨a, d, hat, Or.inl rfl⟩
    | false =>
      simp only [hx, Bool.false_eq_true, ↓reduceIte] at h
      cases hu : updArrs r ap' dn' as with
      | none => simp [hu] at h
      | some y =>
        obtain ⟨ys, e'⟩ := y
        simp only [hu, Option.map_some, Option.some.injEq, Prod.mk.injEq] at h
        rw [← h.1]
        simp only [dimAt]
        cases hxa : (x.path == ap) with
        | true =>
          simp only [hxa, ↓reduceIte] at hat ⊢
          exact ⟨a, d, hat, Or.inl rfl⟩
        | false =>
          simp only [hxa, Bool.false_eq_true, ↓reduceIte] at hat ⊢
          exact ih hu hat

theorem dimIn_mem {dn : String} : ∀ {ds : List Dim} {d : Dim}, dimIn dn ds = some d → d ∈ ds ∧ d.name = dn := by
  intro ds
  induction ds with
  | nil => intro d h; simp [dimIn] at h
  | cons x ds ih =>
    intro d h
    simp only [dimIn] at h
    cases hx : (x.name == dn) with
    | true =>
      simp only [hx, ↓reduceIte, Option.some.injEq] at h
      subst h
      exact ⟨by simp, by simpa using hx⟩
    | false =>
      simp only [hx, Bool.false_eq_true, ↓reduceIte] at h
      exact ⟨List.mem_cons_of_mem _ (ih h).1, (ih h).2⟩

theorem dimAt_mem {ap dn : String} : ∀ {as : List Arr} {a : Arr} {d : Dim},
    dimAt ap dn as = some (a, d) → a ∈ as ∧ a.path = ap ∧ d ∈ a.dims ∧ d.name = dn := by
  intro as
  induction as with
  | nil => intro a d h; simp [dimAt] at h
  | cons x as ih =>
    intro a d h
    simp only [dimAt] at h
    cases hx : (x.path == ap) with
    | true =>
      simp only [hx, ↓reduceIte] at h
      cases hd : dimIn dn x.dims with
      | none => simp [hd] at h
      | some d0 =>
        simp only [hd, Option.map_some, Option.some.injEq, Prod.mk.injEq] at h
        obtain ⟨rfl, rfl⟩ := h
        exact ⟨by simp, by simpa using hx, (dimIn_mem hd).1, (dimIn_mem hd).2⟩
    | false =>
      simp only [hx, Bool.false_eq_true, ↓reduceIte] at h
      obtain ⟨h1, h2⟩ := ih h
      exact ⟨List.mem_cons_of_mem _ h1, h2⟩

/-- an addressed alias dimension is collected -/
theorem dimAt_alias_mem {ap dn : String} {as : List Arr} {a : Arr} {d : Dim}
    (h : dimAt ap dn as = some (a, d)) (hd : isAliasDim d = true) : (ap, dn) ∈ aliasDims as := by
  obtain ⟨h1, h2, h3, h4⟩ := dimAt_mem h
  unfold aliasDims
  exact List.mem_flatMap.mpr ⟨a, h1, List.mem_map.mpr ⟨d, List.mem_filter.mpr ⟨h3, hd⟩, by rw [h2, h4]⟩⟩

theorem dimIn_of_mem {dn : String} : ∀ {ds : List Dim}, (ds.map (·.name)).Nodup → ∀ {d : Dim}, d ∈ ds →
    d.name = dn → dimIn dn ds = some d := by
  intro ds
  induction ds with
  | nil => intro _ d h; cases h
  | cons x ds ih =>
    intro hnd d hd hn
    simp only [List.map_cons, List.nodup_cons] at hnd
    simp only [List.mem_cons] at hd
    simp only [dimIn]
    rcases hd with rfl | hd
    · simp [hn]
    · have : x.name ≠ dn := by
        intro hx
        apply hnd.1
        rw [hx, ← hn]
        exact List.mem_map.mpr ⟨d, hd, rfl⟩
      have hb : (x.name == dn) = false := by simpa using this
      simp only [hb, Bool.false_eq_true, ↓reduceIte]
      exact ih hnd.2 hd hn

theorem dimAt_of_mem {ap dn : String} : ∀ {as : List Arr}, (as.map (·.path)).Nodup →
    (∀ a ∈ as, (a.dims.map (·.name)).Nodup) → ∀ {a : Arr} {d : Dim}, a ∈ as → a.path = ap → d ∈ a.dims →
    d.name = dn → dimAt ap dn as = some (a, d) := by
  intro as
  induction as with
  | nil => intro _ _ a d h; cases h
  | cons x as ih =>
    intro hnd hdims a d ha hp hd hn
    simp only [List.map_cons, List.nodup_cons] at hnd
    simp only [List.mem_cons] at ha
    simp only [dimAt]
    rcases ha with rfl | ha
    · simp [hp, dimIn_of_mem (hdims a (by simp)) hd hn]
    · have : x.path ≠ ap := by
        intro hx
        apply hnd.1
        rw [hx, ← hp]
        exact List.mem_map.mpr ⟨a, ha, rfl⟩
      have hb : (x.path == ap) = false := by simpa using this
      simp only [hb, Bool.false_eq_true, ↓reduceIte]
      exact ih hnd.2 (fun y hy => hdims y (by simp [hy])) ha hp hd hn

theorem mem_aliasDims_dimAt {as : List Arr} (hnd : (as.map (·.path)).Nodup)
    (hdims : ∀ a ∈ as, (a.dims.map (·.name)).Nodup) {ap dn : String} (h : (ap, dn) ∈ aliasDims as) :
    ∃ a d, dimAt ap dn as = some (a, d) ∧ isAliasDim d = true := by
  unfold aliasDims at h
  simp only [List.mem_flatMap, List.mem_map, List.mem_filter, Prod.mk.injEq] at h
  obtain ⟨a, ha, d, ⟨hd, hal⟩, hp, hn⟩ := h
  exact ⟨a, d, dimAt_of_mem hnd hdims ha hp hd hn, hal⟩

/-! ### along the run -/

theorem run_induction_ok {lib : List Nat} {r : Nat} (P : File → Prop)
    (hstep : ∀ g s rest g', WF g → P g → collect lib g = s :: rest → applyStep lib r g s = (g', none) → P g') :
    ∀ (n : Nat) (f : File), (collect lib f).length = n → WF f → P f → (upgrade lib r f).2 = none →
      P (upgrade lib r f).1 ∧ WF (upgrade lib r f).1 := by
  intro n
  induction n with
  | zero =>
    intro f hn hwf hP _
    have : collect lib f = [] := List.length_eq_zero_iff.mp hn
    unfold upgrade
    rw [this]
    exact ⟨hP, hwf⟩
  | succ n ih =>
    intro f hn hwf hP hok
    cases hc : collect lib f with
    | nil => rw [hc] at hn; cases hn
    | cons s rest =>
      cases hs : applyStep lib r f s with
      | mk f' e =>
        cases e with
        | some e =>
          have hup : upgrade lib r f = (f', some e) := by
            unfold upgrade
            rw [hc, runSteps_cons, hs]
          rw [hup] at hok; simp at hok
        | none =>
          obtain ⟨hwf', hc'⟩ := collect_step hwf hc hs
          have hlen : (collect lib f').length = n := by
            rw [hc']; rw [hc] at hn; simpa using hn
          have hup' : upgrade lib r f = upgrade lib r f' := by
            unfold upgrade
            rw [hc, runSteps_cons, hs, hc']
          rw [hup'] at hok ⊢
          exact ih f' hlen hwf' (hstep f s rest f' hwf hP hc hs) hok

/-- nothing is left to convert after a successful upgrade of an old file -/
theorem upgrade_no_alias {lib : List Nat} {r : Nat} {f : File} (hwf : WF f) (hold : upToDate lib f = false)
    (hok : (upgrade lib r f).2 = none) : aliasDims (upgrade lib r f).1.arrays = [] := by
  unfold upgrade at hok ⊢
  have hcol := collect_old hold
  rw [hcol, runSteps_append] at hok ⊢
  cases hp : runSteps lib r f (preSteps f) with
  | mk g e =>
    cases e with
    | some e => rw [hp] at hok; simp at hok
    | none =>
      simp only [runSteps_cons, applyStep, runSteps_nil]
      have htake : (collect lib f).take (preSteps f).length = preSteps f := by
        rw [hcol]; simp
      have hp' : runSteps lib r f ((collect lib f).take (preSteps f).length) = (g, none) := by
        rw [htake]; exact hp
      obtain ⟨_, hcg⟩ := collect_after_prefix (preSteps f).length hwf hp'
      rw [hcol] at hcg
      simp only [List.drop_left] at hcg
      have hug : upToDate lib g = false := by
        cases hu : upToDate lib g with
        | false => rfl
        | true => rw [collect_upToDate hu] at hcg; cases hcg
      rw [collect_old hug] at hcg
      have hpre : preSteps g = [] := by
        have := congrArg List.length hcg
        simp only [List.length_append, List.length_cons, List.length_nil] at this
        exact List.length_eq_zero_iff.mp (by omega)
      unfold preSteps at hpre
      simp only [List.append_eq_nil_iff, List.map_eq_nil_iff] at hpre
      exact hpre.2

/-- how the state of a run still answers the addresses of the original file -/
def RepeatInv (f0 g : File) : Prop :=
  (∀ x ∈ f0.props.map (·.1), x ∈ g.props.map (·.1)) ∧
  (∀ ap dn a d, dimAt ap dn f0.arrays = some (a, d) →
    ∃ a' d', dimAt ap dn g.arrays = some (a', d') ∧ (d' = d ∨ Skips d' = true))

theorem repeat_step {lib : List Nat} {r : Nat} {f0 : File} :
    ∀ g s rest g', WF g → RepeatInv f0 g → collect lib g = s :: rest → applyStep lib r g s = (g', none) →
      RepeatInv f0 g' := by
  intro g s rest g' hwf hinv hc hs
  rcases head_class hc with rfl | ⟨p, t, rfl, hp⟩ | ⟨ap', dn', D, rfl, hd⟩ | rfl
  · simp only [applyStep] at hs
    split at hs <;> (cases hs; exact hinv)
  · have hmem : p ∈ oldPaths g.props := by
      have : p ∈ propTasks g := by rw [hp]; simp
      exact List.mem_mergeSort.mp this
    obtain ⟨o, ho⟩ := mem_oldPaths hmem
    have hl := lookup_of_mem hwf.1 ho
    simp only [applyStep] at hs
    obtain ⟨_, hg, he⟩ := convertProp_old_ok hl hs
    subst hg
    refine ⟨fun x hx => ?_, hinv.2⟩
    simp only
    rw [createAll_ok _ _ he, List.map_append, List.mem_append]
    by_cases hxp : x = p
    · right
      rw [hxp, converted_eq]
      simp
    · left
      obtain ⟨e, he', rfl⟩ := List.mem_map.mp (hinv.1 x hx)
      exact List.mem_map.mpr ⟨e, mem_filter_ne.mpr ⟨he', hxp⟩, rfl⟩
  · simp only [applyStep] at hs
    have hs' := hs
    unfold convertDim at hs'
    cases hu : updArrs r ap' dn' g.arrays with
    | none => simp [hu] at hs'
    | some y =>
      obtain ⟨as', e⟩ := y
      simp only [hu, Prod.mk.injEq] at hs'
      obtain ⟨hg, he⟩ := hs'
      subst hg
      obtain ⟨a2, d2, hat2, hal2⟩ := mem_aliasDims_dimAt hwf.2.1 hwf.2.2 (by rw [hd]; simp : (ap', dn') ∈ aliasDims g.arrays)
      refine ⟨hinv.1, fun ap dn a d hat => ?_⟩
      obtain ⟨a1, d1, hat1, hrel⟩ := hinv.2 ap dn a d hat
      obtain ⟨a', d', hat', hrel'⟩ := dimAt_updArrs hu hat1
      refine ⟨a', d', hat', ?_⟩
      rcases hrel' with h | ⟨h1, h2, h3⟩
      · rw [h]; exact hrel
      · right
        subst h1 h2
        rw [hat1] at hat2
        simp only [Option.some.injEq, Prod.mk.injEq] at hat2
        rw [h3]
        exact convertDimObj_alias_skips (hat2.2 ▸ hal2)
  · simp only [applyStep, Prod.mk.injEq, and_true] at hs
    subst hs
    exact hinv

theorem runSteps_id {lib : List Nat} {r : Nat} {g : File} : ∀ {ss : List Step},
    (∀ s ∈ ss, applyStep lib r g s = (g, none)) → runSteps lib r g ss = (g, none) := by
  intro ss
  induction ss with
  | nil => intro _; rfl
  | cons s ss ih =>
    intro h
    rw [runSteps_cons, h s (by simp)]
    exact ih (fun t ht => h t (by simp [ht]))

/-- a task list collected before a successful upgrade does nothing to the upgraded file -/
theorem stale_list_safe {lib : List Nat} {r1 r2 : Nat} {f : File} (hwf : WF f)
    (hok : (upgrade lib r1 f).2 = none) :
    runSteps lib r2 (upgrade lib r1 f).1 (collect lib f) = ((upgrade lib r1 f).1, none) := by
  cases hold : upToDate lib f with
  | true => rw [collect_upToDate hold]; rfl
  | false =>
    obtain ⟨hinv, hwfG⟩ := run_induction_ok (lib := lib) (r := r1) (RepeatInv f) repeat_step _ f rfl hwf
      ⟨fun _ h => h, fun ap dn a d h => ⟨a, d, h, Or.inl rfl⟩⟩ hok
    have hnoOld := upgrade_no_old hwf hold hok
    have hnoAlias := upgrade_no_alias hwf hold hok
    have hvalid : hasValidId (upgrade lib r1 f).1 = true := upgrade_validId hold
    have hver : (upgrade lib r1 f).1.version = lib := by
      unfold upgrade at hok ⊢
      rw [collect_old hold, runSteps_append] at hok ⊢
      cases hp : runSteps lib r1 f (preSteps f) with
      | mk g e =>
        cases e with
        | some e => rw [hp] at hok; simp at hok
        | none => rfl
    generalize upgrade lib r1 f = res at *
    obtain ⟨G, eG⟩ := res
    simp only at hinv hwfG hnoOld hnoAlias hvalid hver hok ⊢
    apply runSteps_id
    intro s hs
    rw [collect_old hold] at hs
    unfold preSteps at hs
    simp only [List.mem_append, List.mem_map, List.mem_singleton] at hs
    rcases hs with ((hs | ⟨p, hp, rfl⟩) | ⟨ad, had, rfl⟩) | rfl
    · have : s = Step.addId := by
        split at hs
        · cases hs
        · simpa using hs
      subst this
      simp [applyStep, hvalid]
    · -- a property of the stale list: present and plain by now
      have hp' : p ∈ oldPaths f.props := List.mem_mergeSort.mp hp
      obtain ⟨o, ho⟩ := mem_oldPaths hp'
      have hpG := hinv.1 p (List.mem_map.mpr ⟨_, ho, rfl⟩)
      obtain ⟨e, heG, hep⟩ := List.mem_map.mp hpG
      obtain ⟨q, x⟩ := e
      simp only at hep
      subst hep
      cases x with
      | old o' =>
        have := mem_oldPaths_of_mem heG
        rw [hnoOld] at this
        cases this
      | new n =>
        simp [applyStep, convertProp, lookup_of_mem hwfG.1 heG]
    · -- a dimension of the stale list: converted by now, the re-check skips it
      obtain ⟨ap, dn⟩ := ad
      obtain ⟨a, d, hat, hal⟩ := mem_aliasDims_dimAt hwf.2.1 hwf.2.2 had
      obtain ⟨a', d', hat', hrel⟩ := hinv.2 ap dn a d hat
      have hsk : Skips d' = true := by
        rcases hrel with h | h
        · have := dimAt_alias_mem hat' (h ▸ hal)
          rw [hnoAlias] at this
          cases this
        · exact h
      simp [applyStep, convertDim, updArrs_skip hat' hsk]
    · simp only [applyStep, Prod.mk.injEq, and_true]
      cases G
      simp_all

end Nix.Upgrade.Lemmas
