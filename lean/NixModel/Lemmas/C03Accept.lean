import NixModel.Lemmas.C03IdStable

/-!
# C03: a created entity is addressable in every way — one statement for every create function

`Created.accepted`: whatever create function made the entity (`Created`, `Lemmas/C03Frames.lean`),
in the graph after the call the container holds the old entries followed by the new one, whose id
is the freshly drawn one and differs from every id in the file; no existing id changed; lookup and
membership by that id, membership by entity and — unless the name is the id of a sibling, the
documented clash — lookup and membership by name address exactly the new entity; and in plain
containers deleting by name restores the old list. Only the entries of the container itself
enter the hypotheses: names taken in *other* containers of the same parent do not matter.
-/
namespace Nix.Store.Lemmas
open Nix.Store Nix.Store.Graph

theorem Created.accepted {g g' : Graph} (h : WF g) {cn name : String} {c : Cont} {ok k : Nat}
    (hci : containerInfo (okind g ok) cn = some c.info) (hnode : c.node = g.child? ok cn)
    (hpl : isPlainLike c.info.flavour = true) (hokey : ok ∈ keys g)
    (hcr : Created g ok cn name g' k)
    (hfresh : ∀ m, g.nextId ≤ m → name ≠ idStr m)
    (hnew : ∀ l ∈ contEntries g c, l.1 ≠ name) :
    ∃ cg, g'.child? ok cn = some cg ∧
      contEntries g' { c with node := some cg } = contEntries g c ++ [(name, k)] ∧
      g'.entityId k = some (g.freshId).2 ∧ (∀ k', g.entityId k' ≠ some (g.freshId).2) ∧
      (∀ x ∈ keys g, g'.entityId x = g.entityId x) ∧
      contGet g' { c with node := some cg } (.str (g.freshId).2) = .ok (name, k) ∧
      contHas g' { c with node := some cg } (.str (g.freshId).2) = .ok true ∧
      contHas g' { c with node := some cg } (.ent k) = .ok true ∧
      ((isUuid name = true → ∀ l ∈ contEntries g c, g.entityId l.2 ≠ some name) →
         contGet g' { c with node := some cg } (.str name) = .ok (name, k) ∧
         contHas g' { c with node := some cg } (.str name) = .ok true ∧
         (c.info.flavour = .plain →
           ∃ g'', Store.contDel g' { c with node := some cg } (.str name) = .ok g'' ∧
             cLinks g'' (some cg) = contEntries g c)) := by
  obtain ⟨cg, hcg, hcgk, hlinks⟩ := hcr.cont
  refine ⟨cg, hcg, ?_⟩
  generalize hc' : ({ c with node := some cg } : Cont) = c'
  have hinfo : c'.info = c.info := by rw [← hc']
  have hnode' : c'.node = some cg := by rw [← hc']
  have hold : cLinks g (g.child? ok cn) = contEntries g c := by unfold contEntries; rw [hnode]
  have hent' : contEntries g' c' = contEntries g c ++ [(name, k)] := by
    unfold contEntries at hold ⊢
    rw [hnode']
    show g'.links cg = _
    rw [hlinks, hold]
  have hok' : okind g' ok = okind g ok := by
    unfold okind
    rw [kindOf_eq, kindOf_eq, hcr.attrs_old ok hokey]
  have htyp : ∀ l ∈ contEntries g' c', EntryOk g' c'.info l := by
    intro l hl
    rw [hinfo]
    apply hcr.wf.typing ok cn c.info cg (by rw [hok']; exact hci) hcg
    unfold contEntries cLinks at hl
    rw [hnode'] at hl
    exact hl
  have hpl' : isPlainLike c'.info.flavour = true := by rw [hinfo]; exact hpl
  have hlen : contLen g' c' = contLen g c + 1 := by unfold contLen; rw [hent']; simp
  have hj : contLen g c < contLen g' c' := by omega
  have hlast : (contEntries g' c')[contLen g c]'hj = (name, k) := by
    simp [hent', contLen]
  have hv := hcr.wf.views_agree_of htyp hpl' (contLen g c) hj
  rw [hlast] at hv
  obtain ⟨_, _, ⟨i, hi, _, hgi, hhi⟩, hbyname, hentm⟩ := hv
  have hik : i = (g.freshId).2 := by
    have := hcr.eid; rw [hi] at this; exact Option.some.inj this
  subst hik
  have hfreshid : ∀ k', g.entityId k' ≠ some (g.freshId).2 := by
    intro k' e
    obtain ⟨n, hn1, hn2⟩ := h.ids_wf k' _ e
    have := idStr_inj hn2; omega
  refine ⟨hent', hi, hfreshid, fun x hx => hcr.entityId_old x hx, hgi, hhi, hentm, ?_⟩
  intro hclash
  have hclash' : isUuid (name, k).1 = true → ∀ l ∈ contEntries g' c', g'.entityId l.2 ≠ some (name, k).1 := by
    intro hu l hl
    rw [hent'] at hl
    rcases List.mem_append.mp hl with hl | hl
    · have hlk : l.2 ∈ keys g := by
        unfold contEntries cLinks at hl
        rw [hnode] at hl
        cases hcc : g.child? ok cn with
        | none => simp [hcc] at hl
        | some c0 =>
          simp only [hcc] at hl
          exact h.target_exists c0 l hl
      rw [hcr.entityId_old _ hlk]
      exact hclash hu l hl
    · simp only [List.mem_singleton] at hl
      rw [hl, hi]
      intro e
      exact hfresh g.nextId (Nat.le_refl _) (Option.some.inj e).symm
  obtain ⟨hgn, hhn⟩ := hbyname hclash'
  refine ⟨hgn, hhn, ?_⟩
  intro hfl
  obtain ⟨g'', hdel, hl''⟩ := hcr.wf.contDel_plain_of htyp (by rw [hinfo]; exact hfl) hgn
  refine ⟨g'', hdel, ?_⟩
  rw [hnode'] at hl''
  rw [hl'', hent']
  exact filter_ne_append_new hnew

/-- **names are unique per kind** — a create call in one container of a parent leaves every other
container of that parent (the other entity kinds) exactly as it was -/
theorem Created.other_kinds_untouched {g g' : Graph} (h : WF g) {cn name m : String} {ok k : Nat} {info : CInfo}
    (hcr : Created g ok cn name g' k) (hm : m ≠ cn) (hci : containerInfo (okind g ok) m = some info) :
    cLinks g' (g'.child? ok m) = cLinks g (g.child? ok m) := by
  rw [hcr.child_owner m hm]
  cases hcm : g.child? ok m with
  | none => rfl
  | some cm =>
    show g'.links cm = g.links cm
    have hmem := child?_some_mem hcm
    apply hcr.links_other cm (h.target_exists ok _ hmem)
    · intro e
      exact h.not_cont_of_owner hci (e ▸ ⟨ok, m, info, hci, hcm⟩)
    · intro e
      have := (h.cont_unique ok m info cm hci hcm ok (cn, cm) (child?_some_mem e) rfl).2
      exact hm this.symm

end Nix.Store.Lemmas
