import NixModel.Lemmas.C14Checks

/-!
# C14 — membership characterisations for tags, multi-tags, features, sections
-/
namespace Nix.Validator.Lemmas
open Nix.Validator Nix.Validator.Gen Nix.Units

/-! ## features -/

theorem mem_checkFeature (arrays : List DataArray) (ft : Feature) (i : Nat) (m : Msg) :
    m ∈ checkFeature arrays ft i ↔
      (m = .feature i .NoID ∧ falsy ft.id = true) ∨
      (m = .feature i .NoDate ∧ ft.createdAt = none) ∨
      (m = .feature i .NoData ∧ ∃ da, ft.data.bind (fun k => arrays[k]?) = some da ∧ firstLen da.shape = some 0) ∨
      (m = .feature i .NoLinkType ∧ linkTypeOk ft.linkType = false) := by
  unfold checkFeature
  simp only [List.mem_append, List.mem_ite_nil_right, List.mem_singleton, Option.isNone_iff_eq_none,
    Bool.not_eq_true']
  cases hd : ft.data.bind (fun k => arrays[k]?) with
  | none => simp; tauto
  | some da =>
    by_cases h0 : firstLen da.shape = some 0
    · simp [h0]; tauto
    · simp [h0]; tauto

theorem mem_featLoop (arrays : List DataArray) (m : Msg) (l : List Feature) :
    ∀ start, m ∈ featLoop arrays start l ↔ ∃ i ft, l[i]? = some ft ∧ m ∈ checkFeature arrays ft (start + i) := by
  induction l with
  | nil => intro start; simp [featLoop]
  | cons x rest ih =>
    intro start
    simp only [featLoop, List.mem_append, ih]
    constructor
    · rintro (h | ⟨i, ft, hi, hm⟩)
      · exact ⟨0, x, by simp, by simpa using h⟩
      · refine ⟨i + 1, ft, by simpa using hi, ?_⟩
        have : start + (i + 1) = start + 1 + i := by omega
        rw [this]; exact hm
    · rintro ⟨i, ft, hi, hm⟩
      cases i with
      | zero =>
        simp only [List.getElem?_cons_zero, Option.some.injEq] at hi
        subst hi
        exact Or.inl (by simpa using hm)
      | succ j =>
        refine Or.inr ⟨j, ft, by simpa using hi, ?_⟩
        have : start + (j + 1) = start + 1 + j := by omega
        rw [← this]; exact hm

/-- a feature message names the position of its feature -/
theorem checkFeature_idx {arrays : List DataArray} {ft : Feature} {i : Nat} {m : Msg}
    (h : m ∈ checkFeature arrays ft i) : ∃ k, m = .feature i k := by
  rw [mem_checkFeature] at h
  rcases h with h | h | h | h <;> exact ⟨_, h.1⟩

/-! ## units of tags against their references -/

/-- some referenced array has a different number of descriptors than the tag has units -/
def UnitsLenMismatch (units : List Str) (refs : List DataArray) : Prop :=
  ∃ da ∈ refs, (getDimUnits da).length ≠ units.length

/-- some tag unit and the unit of the descriptor at the same position are neither both empty nor
convertible (`scalable`) -/
def UnitsUnconvertible (units : List Str) (refs : List DataArray) : Prop :=
  ∃ da ∈ refs, ∃ p ∈ units.zip (getDimUnits da), ¬ ((p.1 = [] ∧ p.2 = []) ∨ scalable p.1 p.2 = true)

theorem unitPairOk_iff (p : Str × Str) :
    unitPairOk p = true ↔ ((p.1 = [] ∧ p.2 = []) ∨ scalable p.1 p.2 = true) := by
  simp [unitPairOk, List.isEmpty_iff]

theorem any_lenMismatch (units : List Str) (refs : List DataArray) :
    ((refs.map getDimUnits).any (fun ru => ru.length != units.length) = true) ↔
      UnitsLenMismatch units refs := by
  simp only [UnitsLenMismatch, List.any_eq_true, List.mem_map, bne_iff_ne, ne_eq]
  constructor
  · rintro ⟨ru, ⟨da, hda, rfl⟩, h⟩; exact ⟨da, hda, h⟩
  · rintro ⟨da, hda, h⟩; exact ⟨_, ⟨da, hda, rfl⟩, h⟩

theorem not_unitsMatch (units : List Str) (refs : List DataArray) :
    ((!unitsMatch units (refs.map getDimUnits)) = true) ↔ UnitsUnconvertible units refs := by
  simp only [UnitsUnconvertible, unitsMatch, Bool.not_eq_true', ← Bool.not_eq_true, List.all_eq_true, List.mem_map,
    forall_exists_index, and_imp, forall_apply_eq_imp_iff₂, unitPairOk_iff, not_forall, exists_prop]

theorem mem_refUnitMsgs (units : List Str) (refs : List DataArray) (m : Msg) :
    m ∈ refUnitMsgs units refs ↔
      (m = .plain .ReferenceUnitsMismatch ∧ UnitsLenMismatch units refs) ∨
      (m = .plain .ReferenceUnitsIncompatible ∧ UnitsUnconvertible units refs) := by
  unfold refUnitMsgs
  simp only [List.mem_append, List.mem_ite_nil_right, List.mem_singleton, any_lenMismatch, not_unitsMatch]
  generalize UnitsLenMismatch units refs = A
  generalize UnitsUnconvertible units refs = B
  tauto

/-- `any(not units.is_si(u) for u in tag.units if u)` -/
theorem anyNonSi_iff (us : List Str) : anyNonSi us = true ↔ ∃ u ∈ us, u ≠ [] ∧ isSi u = false := by
  simp [anyNonSi, List.any_eq_true, List.mem_filter, List.isEmpty_iff]

/-! ## check_tag -/

theorem mem_checkTag (arrays : List DataArray) (t : Tag) (m : Msg) :
    m ∈ checkTag arrays t ↔
      m ∈ checkEntity t.ent ∨
      (m = .plain .NoPosition ∧ t.posLen = 0) ∨
      (m = .plain .PositionExtentMismatch ∧ t.extLen ≠ 0 ∧ t.extLen ≠ t.posLen) ∨
      (t.refs ≠ [] ∧
        ((m = .plain .PositionDimensionMismatch ∧ ∃ da ∈ refArrays arrays t.refs, t.posLen ≠ da.shape.length) ∨
         (m = .plain .ExtentDimensionMismatch ∧ t.extLen ≠ 0 ∧
            ∃ da ∈ refArrays arrays t.refs, t.extLen ≠ da.shape.length) ∨
         m ∈ refUnitMsgs t.units (refArrays arrays t.refs))) ∨
      (m = .plain .InvalidUnit ∧ ∃ u ∈ t.units, u ≠ [] ∧ isSi u = false) ∨
      (∃ i ft, t.features[i]? = some ft ∧ m ∈ checkFeature arrays ft i) := by
  unfold checkTag
  simp only [List.mem_append, List.mem_ite_nil_right, List.mem_singleton, mem_featLoop, Nat.zero_add,
    anyNonSi_iff, List.any_eq_true, bne_iff_ne, ne_eq, Bool.not_eq_true', beq_iff_eq, List.isEmpty_eq_false_iff,
    Bool.and_eq_true]
  generalize (∃ i ft, t.features[i]? = some ft ∧ m ∈ checkFeature arrays ft i) = F
  generalize (m ∈ refUnitMsgs t.units (refArrays arrays t.refs)) = R
  generalize (∃ u ∈ t.units, ¬u = [] ∧ isSi u = false) = U
  generalize (∃ x ∈ refArrays arrays t.refs, ¬t.posLen = x.shape.length) = P
  generalize (∃ x ∈ refArrays arrays t.refs, ¬t.extLen = x.shape.length) = E
  tauto

/-! ## check_multi_tag -/

/-- `posdim` of a multi-tag: 1 for a vector of positions, else the size of the second dimension -/
def MtPosShape (arrays : List DataArray) (t : MultiTag) : Option (List Nat) :=
  (t.positions.bind fun k => arrays[k]?).map (·.shape)

def MtExtShape (arrays : List DataArray) (t : MultiTag) : Option (List Nat) :=
  (t.extents.bind fun k => arrays[k]?).map (·.shape)

theorem mem_checkMultiTag (arrays : List DataArray) (t : MultiTag) (m : Msg) :
    m ∈ checkMultiTag arrays t ↔
      m ∈ checkEntity t.ent ∨
      (m = .plain .NoPositions ∧
         (MtPosShape arrays t = none ∨ (MtPosShape arrays t).bind firstLen = some 0)) ∨
      (m = .plain .PositionsExtentsMismatch ∧ MtPosShape arrays t ≠ none ∧
         ∃ es, MtExtShape arrays t = some es ∧ firstLen es ≠ some 0 ∧ MtPosShape arrays t ≠ some es) ∨
      (t.refs ≠ [] ∧
        ((m = .plain .PositionsDimensionMismatch ∧ MtPosShape arrays t ≠ none ∧
            ∃ da ∈ refArrays arrays t.refs, (MtPosShape arrays t).bind secondDim ≠ some da.shape.length) ∨
         (m = .plain .ExtentsDimensionMismatch ∧
            ∃ es, MtExtShape arrays t = some es ∧ firstLen es ≠ some 0 ∧
                ∃ da ∈ refArrays arrays t.refs, secondDim es ≠ some da.shape.length) ∨
         m ∈ refUnitMsgs t.units (refArrays arrays t.refs))) ∨
      (m = .plain .InvalidUnit ∧ ∃ u ∈ t.units, u ≠ [] ∧ isSi u = false) ∨
      (∃ i ft, t.features[i]? = some ft ∧ m ∈ checkFeature arrays ft i) := by
  unfold checkMultiTag MtPosShape MtExtShape
  simp only [List.mem_append, List.mem_ite_nil_right, List.mem_singleton, mem_featLoop, Nat.zero_add,
    anyNonSi_iff, List.any_eq_true, bne_iff_ne, ne_eq, Bool.not_eq_true', beq_iff_eq, List.isEmpty_eq_false_iff]
  generalize (∃ i ft, t.features[i]? = some ft ∧ m ∈ checkFeature arrays ft i) = F
  generalize (m ∈ refUnitMsgs t.units (refArrays arrays t.refs)) = R
  generalize (∃ u ∈ t.units, ¬u = [] ∧ isSi u = false) = U
  cases hp : Option.map (fun x => x.shape) (t.positions.bind fun k => arrays[k]?) with
  | none =>
    cases he : Option.map (fun x => x.shape) (t.extents.bind fun k => arrays[k]?) with
    | none => simp; grind
    | some es => simp; grind
  | some ps =>
    cases he : Option.map (fun x => x.shape) (t.extents.bind fun k => arrays[k]?) with
    | none => simp; grind
    | some es =>
      by_cases h0 : firstLen es = some 0
      · simp [h0]; grind
      · simp [h0]; grind

/-! ## sections -/

theorem mem_checkProperty (p : Property) (i : Nat) (m : Msg) :
    m ∈ checkProperty p i ↔
      (m = .property i .NoID ∧ falsy p.id = true) ∨ (m = .property i .NoName ∧ falsy p.name = true) := by
  simp only [checkProperty, List.mem_append, List.mem_ite_nil_right, List.mem_singleton]
  tauto

theorem mem_propLoop (m : Msg) (l : List Property) :
    ∀ start, m ∈ propLoop start l ↔ ∃ i p, l[i]? = some p ∧ m ∈ checkProperty p (start + i) := by
  induction l with
  | nil => intro start; simp [propLoop]
  | cons x rest ih =>
    intro start
    simp only [propLoop, List.mem_append, ih]
    constructor
    · rintro (h | ⟨i, p, hi, hm⟩)
      · exact ⟨0, x, by simp, by simpa using h⟩
      · refine ⟨i + 1, p, by simpa using hi, ?_⟩
        have : start + (i + 1) = start + 1 + i := by omega
        rw [this]; exact hm
    · rintro ⟨i, p, hi, hm⟩
      cases i with
      | zero =>
        simp only [List.getElem?_cons_zero, Option.some.injEq] at hi
        subst hi
        exact Or.inl (by simpa using hm)
      | succ j =>
        refine Or.inr ⟨j, p, by simpa using hi, ?_⟩
        have : start + (j + 1) = start + 1 + j := by omega
        rw [← this]; exact hm

theorem mem_checkSection (e : Ent) (ps : List Property) (m : Msg) :
    m ∈ checkSection e ps ↔
      m ∈ checkEntity e ∨ ∃ i p, ps[i]? = some p ∧ m ∈ checkProperty p i := by
  simp [checkSection, mem_propLoop]

end Nix.Validator.Lemmas
