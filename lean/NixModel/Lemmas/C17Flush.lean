import NixModel.Pure.Flush

/-!
Helper lemmas for C17 (`Props/C17.lean`): the invariant `WF`, the predicate `Settled c` ("everything the
world still holds of the file equals `c`"), their preservation, and the behaviour of arbitrary statement
bodies under the decidable shape predicates `syncs`, `raiseFree`, `closes`.
-/
namespace Nix.Flush.Lemmas
open Nix.Flush

/-- disk, cache (if a handle is open) and pending cache (if any) all equal `c` -/
structure Settled (c : Store) (w : World) : Prop where
  disk : w.disk = some c
  cache : ∀ hd, w.handle = some hd → hd.cache = c
  pend : ∀ p, w.pending = some p → p = c

/-- invariant of every reachable world: a read-only handle is never dirty; while a handle is open the
library holds no cache of an earlier, closed handle -/
def WF (w : World) : Prop :=
  ∀ hd, w.handle = some hd → (hd.mode = .readOnly → w.disk = some hd.cache) ∧ w.pending = none

theorem wb_self (c : Store) (ks : List Key) : wb c ks c = c := by
  funext k
  simp [wb]

/-! ### rewriting rules for `prim` and `runBody` -/

theorem prim_gc (w : World) : prim w .gcCollect = (w, none) := rfl

theorem prim_flush_closed {w : World} (hn : w.handle = none) :
    prim w .h5flush = (w, some .runtimeError) := by
  simp [prim, hn]

theorem prim_flush_ro {w : World} {hd : Handle} (ho : w.handle = some hd) (hm : hd.mode = .readOnly) :
    prim w .h5flush = (w, none) := by
  simp [prim, ho, hm]

theorem prim_flush_rw {w : World} {hd : Handle} (ho : w.handle = some hd) (hm : hd.mode ≠ .readOnly) :
    prim w .h5flush = (flushW w hd, none) := by
  simp [prim, ho, hm]

theorem prim_close_closed {w : World} (hn : w.handle = none) : prim w .h5close = (w, none) := by
  simp [prim, hn]

theorem prim_close_open {w : World} {hd : Handle} (ho : w.handle = some hd) :
    prim w .h5close = (closeW w hd, none) := by
  simp [prim, ho]

theorem runBody_ok {w w' : World} {p : Prim} (ps : List Prim) (h : prim w p = (w', none)) :
    runBody w (p :: ps) = runBody w' ps := by
  simp [runBody, h]

theorem runBody_err {w w' : World} {p : Prim} {e : Err} (ps : List Prim) (h : prim w p = (w', some e)) :
    runBody w (p :: ps) = (w', some e) := by
  simp [runBody, h]

/-- on an open handle `h5flush` never raises; it yields either the same world (read-only) or `flushW` -/
theorem prim_flush_open {w : World} {hd : Handle} (ho : w.handle = some hd) :
    ∃ w', prim w .h5flush = (w', none) ∧ w'.handle = some hd ∧ w'.pending = w.pending ∧
      (w' = w ∨ (hd.mode ≠ .readOnly ∧ w' = flushW w hd)) := by
  by_cases hm : hd.mode = .readOnly
  · exact ⟨w, prim_flush_ro ho hm, ho, rfl, Or.inl rfl⟩
  · exact ⟨flushW w hd, prim_flush_rw ho hm, ho, rfl, Or.inr ⟨hm, rfl⟩⟩

/-! ### `Settled` is preserved by everything except a successful write / a truncating open -/

theorem flushW_settled {c : Store} {w : World} {hd : Handle} (ho : w.handle = some hd)
    (h : Settled c w) : Settled c (flushW w hd) :=
  ⟨by simp [flushW, h.cache hd ho], fun hd' h' => h.cache hd' h', fun p hp => h.pend p hp⟩

theorem closeW_settled {c : Store} {w : World} {hd : Handle} (ho : w.handle = some hd)
    (h : Settled c w) : Settled c (closeW w hd) := by
  refine ⟨h.disk, fun hd' h' => by simp [closeW] at h', fun p hp => ?_⟩
  by_cases hm : hd.mode = .readOnly
  · simp [closeW, hm] at hp
  · simp [closeW, hm] at hp
    rw [← hp]; exact h.cache hd ho

theorem prim_settled {c : Store} {w : World} (p : Prim) (h : Settled c w) : Settled c (prim w p).1 := by
  rcases Option.eq_none_or_eq_some w.handle with hn | ⟨hd, ho⟩
  · cases p with
    | gcCollect => exact h
    | h5flush => rw [prim_flush_closed hn]; exact h
    | h5close => rw [prim_close_closed hn]; exact h
  · cases p with
    | gcCollect => exact h
    | h5flush =>
      obtain ⟨w', hp, _, _, hw'⟩ := prim_flush_open ho
      rw [hp]
      rcases hw' with rfl | ⟨_, rfl⟩
      · exact h
      · exact flushW_settled ho h
    | h5close => rw [prim_close_open ho]; exact closeW_settled ho h

theorem runBody_settled {c : Store} (body : List Prim) {w : World} (h : Settled c w) :
    Settled c (runBody w body).1 := by
  induction body generalizing w with
  | nil => exact h
  | cons p ps ih =>
    have hp := prim_settled p h
    cases hpr : prim w p with
    | mk w' oe =>
      rw [hpr] at hp
      cases oe with
      | none => rw [runBody_ok ps hpr]; exact ih hp
      | some e => rw [runBody_err ps hpr]; exact hp

theorem settle_settled {c : Store} {w : World} (h : Settled c w) : Settled c (settle w) := by
  rcases Option.eq_none_or_eq_some w.pending with hn | ⟨p, hp⟩
  · have : settle w = w := by simp [settle, hn]
    rw [this]; exact h
  · have hpc : p = c := h.pend p hp
    have : settle w = { w with disk := some p, pending := none } := by simp [settle, hp]
    rw [this, hpc]
    exact ⟨rfl, fun hd hh => h.cache hd hh, fun q hq => by simp at hq⟩

theorem settle_handle (w : World) : (settle w).handle = w.handle := by
  unfold settle; cases w.pending <;> rfl

theorem settle_pending (w : World) : (settle w).pending = none := by
  unfold settle; cases h : w.pending <;> simp [h]

theorem openFile_open {w : World} {hd : Handle} (m : Mode) (ho : w.handle = some hd) :
    openFile w m = (w, some .runtimeError) := by
  simp [openFile, ho]

/-- opening an existing file without truncation: the handle's cache is the (settled) disk -/
theorem openFile_existing {w : World} {d : Store} (m : Mode) (hm : m ≠ .overwrite)
    (hn : w.handle = none) (hd : (settle w).disk = some d) :
    openFile w m = ({ settle w with handle := some ⟨m, d⟩ }, none) := by
  cases m with
  | overwrite => exact absurd rfl hm
  | readOnly => simp [openFile, hn, hd]
  | readWrite => simp [openFile, hn, hd]

theorem open_settled {c : Store} {w : World} (m : Mode) (hm : m ≠ .overwrite) (h : Settled c w) :
    Settled c (openFile w m).1 := by
  rcases Option.eq_none_or_eq_some w.handle with hn | ⟨hd, ho⟩
  · have hs := settle_settled h
    rw [openFile_existing m hm hn hs.disk]
    exact ⟨hs.disk, fun hd' h' => by simp at h'; rw [← h'], fun p hp => hs.pend p hp⟩
  · rw [openFile_open m ho]; exact h

theorem writeback_settled {c : Store} {w : World} (ks : List Key) (h : Settled c w) :
    Settled c (writebackEv w ks) := by
  rcases Option.eq_none_or_eq_some w.handle with hn | ⟨hd, ho⟩
  · rcases Option.eq_none_or_eq_some w.pending with hpn | ⟨p, hp⟩
    · have : writebackEv w ks = w := by simp [writebackEv, hn, hpn]
      rw [this]; exact h
    · have : writebackEv w ks = { w with disk := w.disk.map (wb p ks) } := by
        simp [writebackEv, hn, hp]
      rw [this]
      exact ⟨by simp [h.disk, h.pend p hp, wb_self], fun hd' h' => h.cache hd' h', fun q hq => h.pend q hq⟩
  · by_cases hm : hd.mode = .readOnly
    · have : writebackEv w ks = w := by simp [writebackEv, ho, hm]
      rw [this]; exact h
    · have : writebackEv w ks = { w with disk := w.disk.map (wb hd.cache ks) } := by
        simp [writebackEv, ho, hm]
      rw [this]
      exact ⟨by simp [h.disk, h.cache hd ho, wb_self], fun hd' h' => h.cache hd' h',
             fun q hq => h.pend q hq⟩

theorem kill_settled {c : Store} {w : World} (h : Settled c w) : Settled c (step w .kill).1 :=
  ⟨h.disk, fun hd hh => by simp [step] at hh, fun p hp => by simp [step] at hp⟩

theorem step_settled {c : Store} {w : World} (e : Ev) (hq : quiet e = true) (h : Settled c w) :
    Settled c (step w e).1 := by
  cases e with
  | «open» m =>
    have : m ≠ .overwrite := by intro hm; subst hm; simp [quiet] at hq
    exact open_settled m this h
  | write x => simp [quiet] at hq
  | flush => exact runBody_settled Gen.fileFlushBody h
  | close => exact runBody_settled Gen.fileCloseBody h
  | exit => exact runBody_settled Gen.fileExitBody h
  | writeback ks => exact writeback_settled ks h
  | kill => exact kill_settled h

theorem run_settled {c : Store} (es : List Ev) {w : World} (hq : ∀ e ∈ es, quiet e = true)
    (h : Settled c w) : Settled c (run w es) := by
  induction es generalizing w with
  | nil => exact h
  | cons e es ih =>
    exact ih (fun e' he' => hq e' (List.mem_cons_of_mem _ he')) (step_settled e (hq e List.mem_cons_self) h)

theorem reopen_settled {c : Store} {w : World} (m : Mode) (hm : m ≠ .overwrite) (h : Settled c w) :
    reopenView w m = some c := by
  have hk := kill_settled h
  have hkh : (step w .kill).1.handle = none := rfl
  have hs := settle_settled hk
  unfold reopenView
  show view (openFile (step w .kill).1 m).1 = some c
  rw [openFile_existing m hm hkh hs.disk]
  rfl

/-! ### arbitrary bodies under the shape predicates -/

theorem prim_closed_world {w : World} (p : Prim) (hn : w.handle = none) : (prim w p).1 = w := by
  cases p with
  | gcCollect => rfl
  | h5flush => rw [prim_flush_closed hn]
  | h5close => rw [prim_close_closed hn]

theorem runBody_closed_world (body : List Prim) {w : World} (hn : w.handle = none) :
    (runBody w body).1 = w := by
  induction body with
  | nil => rfl
  | cons p ps ih =>
    have h1 := prim_closed_world p hn
    cases hpr : prim w p with
    | mk w' oe =>
      rw [hpr] at h1
      simp only at h1
      subst h1
      cases oe with
      | none => rw [runBody_ok ps hpr]; exact ih
      | some e => rw [runBody_err ps hpr]

theorem runBody_closed_noraise (body : List Prim) {w : World} (hn : w.handle = none)
    (hf : body.contains .h5flush = false) : (runBody w body).2 = none := by
  induction body with
  | nil => rfl
  | cons p ps ih =>
    have hps : ps.contains .h5flush = false := by
      simp only [List.contains_cons, Bool.or_eq_false_iff] at hf
      exact hf.2
    cases p with
    | gcCollect => rw [runBody_ok ps (prim_gc w)]; exact ih hps
    | h5close => rw [runBody_ok ps (prim_close_closed hn)]; exact ih hps
    | h5flush => simp at hf

theorem runBody_noraise (body : List Prim) {w : World} {hd : Handle} (ho : w.handle = some hd)
    (hr : raiseFree body = true) : (runBody w body).2 = none := by
  induction body generalizing w with
  | nil => rfl
  | cons p ps ih =>
    cases p with
    | h5close =>
      have hps : ps.contains .h5flush = false := by simpa [raiseFree] using hr
      rw [runBody_ok ps (prim_close_open ho)]
      exact runBody_closed_noraise ps rfl hps
    | gcCollect =>
      have hr' : raiseFree ps = true := by simpa [raiseFree] using hr
      rw [runBody_ok ps (prim_gc w)]
      exact ih ho hr'
    | h5flush =>
      have hr' : raiseFree ps = true := by simpa [raiseFree] using hr
      obtain ⟨w', hp, ho', _, _⟩ := prim_flush_open ho
      rw [runBody_ok ps hp]
      exact ih ho' hr'

/-- a body that reaches an `h5flush` before any `h5close` leaves the world settled on the cache -/
theorem runBody_syncs (body : List Prim) {w : World} {hd : Handle} (ho : w.handle = some hd)
    (hwf : WF w) (hs : syncs body = true) : Settled hd.cache (runBody w body).1 := by
  induction body generalizing w with
  | nil => simp [syncs] at hs
  | cons p ps ih =>
    cases p with
    | h5close => simp [syncs] at hs
    | gcCollect =>
      have hs' : syncs ps = true := by simpa [syncs] using hs
      rw [runBody_ok ps (prim_gc w)]
      exact ih ho hwf hs'
    | h5flush =>
      obtain ⟨hro, hpn⟩ := hwf hd ho
      by_cases hm : hd.mode = .readOnly
      · rw [runBody_ok ps (prim_flush_ro ho hm)]
        apply runBody_settled
        exact ⟨hro hm, fun hd' h' => by rw [ho] at h'; cases h'; rfl,
               fun p hp' => by rw [hpn] at hp'; cases hp'⟩
      · rw [runBody_ok ps (prim_flush_rw ho hm)]
        apply runBody_settled
        exact ⟨rfl, fun hd' h' => by simp only [flushW, ho] at h'; cases h'; rfl,
               fun p hp' => by simp only [flushW, hpn] at hp'; cases hp'⟩

/-- a body containing `h5close` ends with the file closed -/
theorem runBody_closes (body : List Prim) {w : World} (hc : closes body = true) :
    (runBody w body).1.handle = none := by
  induction body generalizing w with
  | nil => simp [closes] at hc
  | cons p ps ih =>
    rcases Option.eq_none_or_eq_some w.handle with hn | ⟨hd, ho⟩
    · rw [runBody_closed_world _ hn]; exact hn
    · cases p with
      | h5close =>
        rw [runBody_ok ps (prim_close_open ho), runBody_closed_world ps rfl]
        rfl
      | gcCollect =>
        have hc' : closes ps = true := by simpa [closes] using hc
        rw [runBody_ok ps (prim_gc w)]
        exact ih hc'
      | h5flush =>
        have hc' : closes ps = true := by simpa [closes] using hc
        obtain ⟨w', hp, _, _, _⟩ := prim_flush_open ho
        rw [runBody_ok ps hp]
        exact ih hc'

/-- a body without `h5close` keeps the handle (mode and cache) and raises nothing -/
theorem runBody_keeps (body : List Prim) {w : World} {hd : Handle} (ho : w.handle = some hd)
    (hc : closes body = false) :
    (runBody w body).1.handle = some hd ∧ (runBody w body).2 = none ∧
    (runBody w body).1.pending = w.pending := by
  induction body generalizing w with
  | nil => exact ⟨ho, rfl, rfl⟩
  | cons p ps ih =>
    have hps : closes ps = false := by
      simp only [closes, List.contains_cons, Bool.or_eq_false_iff] at hc
      exact hc.2
    cases p with
    | h5close => simp [closes] at hc
    | gcCollect => rw [runBody_ok ps (prim_gc w)]; exact ih ho hps
    | h5flush =>
      obtain ⟨w', hp, ho', hpend, _⟩ := prim_flush_open ho
      rw [runBody_ok ps hp]
      have := ih ho' hps
      exact ⟨this.1, this.2.1, by rw [this.2.2, hpend]⟩

/-! ### the invariant -/

theorem WF_init : WF World.init := by
  intro hd h; simp [World.init] at h

theorem flushW_WF {w : World} {hd : Handle} (ho : w.handle = some hd) (hm : hd.mode ≠ .readOnly)
    (h : WF w) : WF (flushW w hd) := by
  intro hd' h'
  have : hd' = hd := by simp only [flushW, ho] at h'; cases h'; rfl
  subst this
  exact ⟨fun hm' => absurd hm' hm, (h hd' ho).2⟩

theorem prim_WF {w : World} (p : Prim) (h : WF w) : WF (prim w p).1 := by
  rcases Option.eq_none_or_eq_some w.handle with hn | ⟨hd, ho⟩
  · rw [prim_closed_world p hn]; exact h
  · cases p with
    | gcCollect => exact h
    | h5flush =>
      by_cases hm : hd.mode = .readOnly
      · rw [prim_flush_ro ho hm]; exact h
      · rw [prim_flush_rw ho hm]; exact flushW_WF ho hm h
    | h5close =>
      rw [prim_close_open ho]
      intro hd' h'; simp [closeW] at h'

theorem runBody_WF (body : List Prim) {w : World} (h : WF w) : WF (runBody w body).1 := by
  induction body generalizing w with
  | nil => exact h
  | cons p ps ih =>
    have hp := prim_WF p h
    cases hpr : prim w p with
    | mk w' oe =>
      rw [hpr] at hp
      cases oe with
      | none => rw [runBody_ok ps hpr]; exact ih hp
      | some e => rw [runBody_err ps hpr]; exact hp

theorem createW_WF {w : World} (hp : w.pending = none) : WF (createW w) := by
  intro hd' h'
  simp only [createW, Option.some.injEq] at h'
  subst h'
  exact ⟨fun hm => by simp at hm, hp⟩

theorem openFile_WF {w : World} (m : Mode) (h : WF w) : WF (openFile w m).1 := by
  rcases Option.eq_none_or_eq_some w.handle with hn | ⟨hd, ho⟩
  · have hp := settle_pending w
    have hsh : (settle w).handle = none := by rw [settle_handle, hn]
    rcases Option.eq_none_or_eq_some (settle w).disk with hdn | ⟨d, hd⟩
    · cases m with
      | readOnly =>
        have : openFile w .readOnly = (settle w, some .runtimeError) := by simp [openFile, hn, hdn]
        rw [this]
        intro hd' h'; rw [hsh] at h'; cases h'
      | readWrite =>
        have : openFile w .readWrite = (createW (settle w), none) := by simp [openFile, hn, hdn]
        rw [this]; exact createW_WF hp
      | overwrite =>
        have : openFile w .overwrite = (createW (settle w), none) := by simp [openFile, hn]
        rw [this]; exact createW_WF hp
    · by_cases hm : m = .overwrite
      · subst hm
        have : openFile w .overwrite = (createW (settle w), none) := by simp [openFile, hn]
        rw [this]; exact createW_WF hp
      · rw [openFile_existing m hm hn hd]
        intro hd' h'
        simp only [Option.some.injEq] at h'
        subst h'
        exact ⟨fun _ => hd, hp⟩
  · rw [openFile_open m ho]; exact h

theorem step_WF {w : World} (e : Ev) (h : WF w) : WF (step w e).1 := by
  cases e with
  | «open» m => exact openFile_WF m h
  | write x =>
    show WF (writeCall w x).1
    rcases Option.eq_none_or_eq_some w.handle with hn | ⟨hd, ho⟩
    · have : writeCall w x = (w, some .runtimeError) := by simp [writeCall, hn]
      rw [this]; exact h
    · by_cases hm : hd.mode = .readOnly
      · have : writeCall w x = (w, some .runtimeError) := by simp [writeCall, ho, hm]
        rw [this]; exact h
      · have : writeCall w x = ({ w with handle := some { hd with cache := x.apply hd.cache } }, none) := by
          simp [writeCall, ho, hm]
        rw [this]
        intro hd' h'
        simp only [Option.some.injEq] at h'
        subst h'
        exact ⟨fun hm' => absurd hm' hm, (h hd ho).2⟩
  | flush => exact runBody_WF _ h
  | close => exact runBody_WF _ h
  | exit => exact runBody_WF _ h
  | writeback ks =>
    show WF (writebackEv w ks)
    rcases Option.eq_none_or_eq_some w.handle with hn | ⟨hd, ho⟩
    · intro hd' h'
      have : (writebackEv w ks).handle = none := by
        unfold writebackEv; rw [hn]; cases w.pending <;> simp [hn]
      rw [this] at h'; cases h'
    · by_cases hm : hd.mode = .readOnly
      · have : writebackEv w ks = w := by simp [writebackEv, ho, hm]
        rw [this]; exact h
      · have : writebackEv w ks = { w with disk := w.disk.map (wb hd.cache ks) } := by
          simp [writebackEv, ho, hm]
        rw [this]
        intro hd' h'
        have : hd' = hd := by simp only [ho] at h'; cases h'; rfl
        subst this
        exact ⟨fun hm' => absurd hm' hm, (h hd' ho).2⟩
  | kill => intro hd' h'; simp [step] at h'

theorem run_WF (es : List Ev) {w : World} (h : WF w) : WF (run w es) := by
  induction es generalizing w with
  | nil => exact h
  | cons e es ih => exact ih (step_WF e h)

/-! ### a writing session -/

theorem applyWrites_cons (x : Write) (xs : List Write) (s : Store) :
    applyWrites (x :: xs) s = applyWrites xs (x.apply s) := rfl

theorem applyWrites_append (xs ys : List Write) (s : Store) :
    applyWrites (xs ++ ys) s = applyWrites ys (applyWrites xs s) := by
  simp [applyWrites, List.foldl_append]

/-- in a session opened for writing, whatever the library writes back and however often `flush` is called,
the cache is the initial cache with all writes applied in order -/
theorem session_cache (es : List Ev) {w : World} {hd : Handle} (ho : w.handle = some hd)
    (hrw : hd.mode ≠ .readOnly) (hs : ∀ e ∈ es, sessionEv e = true)
    (hk : closes Gen.fileFlushBody = false) :
    (run w es).handle = some ⟨hd.mode, applyWrites (writesOf es) hd.cache⟩ := by
  induction es generalizing w hd with
  | nil => exact ho
  | cons e es ih =>
    have hs' : ∀ e' ∈ es, sessionEv e' = true := fun e' he' => hs e' (List.mem_cons_of_mem _ he')
    have he := hs e List.mem_cons_self
    cases e with
    | write x =>
      have h1 : (step w (.write x)).1.handle = some ⟨hd.mode, x.apply hd.cache⟩ := by
        simp [step, writeCall, ho, hrw]
      exact ih h1 hrw hs'
    | writeback ks =>
      have h1 : (step w (.writeback ks)).1.handle = some hd := by
        simp [step, writebackEv, ho, hrw]
      exact ih h1 hrw hs'
    | flush =>
      have h1 : (step w .flush).1.handle = some hd := (runBody_keeps Gen.fileFlushBody ho hk).1
      exact ih h1 hrw hs'
    | «open» m => simp [sessionEv] at he
    | close => simp [sessionEv] at he
    | exit => simp [sessionEv] at he
    | kill => simp [sessionEv] at he

/-! ### sessions that end durably, chained over kills -/

/-- one writer process: open for writing (`'a'` or `'w'`), a body of writes / write-backs / flushes, a final
`flush`, `close` or `with`-exit, then anything that writes nothing, then SIGKILL -/
structure Session where
  mode : Mode
  body : List Ev
  fin : Ev
  tail : List Ev

def Session.ok (s : Session) : Prop :=
  s.mode ≠ .readOnly ∧ (∀ e ∈ s.body, sessionEv e = true) ∧
  (s.fin = .flush ∨ s.fin = .close ∨ s.fin = .exit) ∧ (∀ e ∈ s.tail, quiet e = true)

def Session.events (s : Session) : List Ev :=
  .open s.mode :: (s.body ++ s.fin :: (s.tail ++ [.kill]))

/-- the content a session leaves: its writes applied to what it found (or to nothing, if it truncated) -/
def Session.store (s : Session) (c : Store) : Store :=
  applyWrites (writesOf s.body) (if s.mode = .overwrite then Store.empty else c)

def chainStore (ss : List Session) (c : Store) : Store := ss.foldl (fun acc s => s.store acc) c

/-- no process holds the file; it contains `c` (a missing file counts as empty) -/
def Closed (c : Store) (w : World) : Prop :=
  w.handle = none ∧ w.pending = none ∧ (w.disk = some c ∨ (w.disk = none ∧ c = Store.empty))

/-- … and the file exists -/
def ClosedEx (c : Store) (w : World) : Prop := w.handle = none ∧ w.pending = none ∧ w.disk = some c

theorem ClosedEx.closed {c : Store} {w : World} (h : ClosedEx c w) : Closed c w :=
  ⟨h.1, h.2.1, Or.inl h.2.2⟩

theorem Closed_init : Closed Store.empty World.init := ⟨rfl, rfl, Or.inr ⟨rfl, rfl⟩⟩

theorem run_append (a b : List Ev) (w : World) : run w (a ++ b) = run (run w a) b := by
  induction a generalizing w with
  | nil => rfl
  | cons e es ih => exact ih _

theorem settle_none {w : World} (hp : w.pending = none) : settle w = w := by
  simp [settle, hp]

theorem open_closed {c : Store} {w : World} (m : Mode) (hm : m ≠ .readOnly) (hc : Closed c w) :
    ∃ hd, (step w (.open m)).1.handle = some hd ∧ hd.mode ≠ .readOnly ∧
      hd.cache = (if m = .overwrite then Store.empty else c) := by
  obtain ⟨hn, hp, hdisk⟩ := hc
  show ∃ hd, (openFile w m).1.handle = some hd ∧ _
  cases m with
  | readOnly => exact absurd rfl hm
  | overwrite =>
    have : openFile w .overwrite = (createW (settle w), none) := by simp [openFile, hn]
    rw [this]
    exact ⟨⟨.overwrite, Store.empty⟩, rfl, by simp, by simp⟩
  | readWrite =>
    rcases hdisk with hd | ⟨hd, hce⟩
    · have hd' : (settle w).disk = some c := by rw [settle_none hp]; exact hd
      rw [openFile_existing .readWrite (by simp) hn hd']
      exact ⟨⟨.readWrite, c⟩, rfl, by simp, by simp⟩
    · have : openFile w .readWrite = (createW (settle w), none) := by
        simp [openFile, hn, settle_none hp, hd]
      rw [this]
      exact ⟨⟨.overwrite, Store.empty⟩, rfl, by simp, by simp [hce]⟩

theorem Closed_WF {c : Store} {w : World} (hc : Closed c w) : WF w := by
  intro hd h; rw [hc.1] at h; cases h

theorem session_durable (s : Session) (hok : s.ok) {c : Store} {w : World} (hc : Closed c w)
    (hflush : syncs Gen.fileFlushBody = true ∧ closes Gen.fileFlushBody = false)
    (hclose : syncs Gen.fileCloseBody = true) (hexit : syncs Gen.fileExitBody = true) :
    ClosedEx (s.store c) (run w s.events) := by
  obtain ⟨hmode, hbody, hfin, htail⟩ := hok
  obtain ⟨hd, ho, hrw, hcache⟩ := open_closed s.mode hmode hc
  have hwf1 : WF (step w (.open s.mode)).1 := step_WF _ (Closed_WF hc)
  -- the body
  have h2 := session_cache s.body ho hrw hbody hflush.2
  have hwf2 : WF (run (step w (.open s.mode)).1 s.body) := run_WF _ hwf1
  -- the final flush / close / exit
  have h3 : Settled (s.store c) (step (run (step w (.open s.mode)).1 s.body) s.fin).1 := by
    have hst : s.store c = (⟨hd.mode, applyWrites (writesOf s.body) hd.cache⟩ : Handle).cache := by
      simp [Session.store, hcache]
    rw [hst]
    rcases hfin with hf | hf | hf <;> rw [hf]
    · exact runBody_syncs Gen.fileFlushBody h2 hwf2 hflush.1
    · exact runBody_syncs Gen.fileCloseBody h2 hwf2 hclose
    · exact runBody_syncs Gen.fileExitBody h2 hwf2 hexit
  -- the quiet tail and the kill
  have h4 := run_settled s.tail htail h3
  have h5 := kill_settled h4
  have hrun : run w s.events =
      (step (run (step (run (step w (.open s.mode)).1 s.body) s.fin).1 s.tail) .kill).1 := by
    simp only [Session.events, run, run_append]
  rw [hrun]
  exact ⟨rfl, rfl, h5.disk⟩

theorem chain_durable_ex (ss : List Session) (hok : ∀ s ∈ ss, s.ok) {c : Store} {w : World}
    (hc : ClosedEx c w)
    (hflush : syncs Gen.fileFlushBody = true ∧ closes Gen.fileFlushBody = false)
    (hclose : syncs Gen.fileCloseBody = true) (hexit : syncs Gen.fileExitBody = true) :
    ClosedEx (chainStore ss c) (run w (ss.flatMap Session.events)) := by
  induction ss generalizing c w with
  | nil => exact hc
  | cons s ss ih =>
    have h1 := session_durable s (hok s List.mem_cons_self) hc.closed hflush hclose hexit
    have := ih (fun s' hs' => hok s' (List.mem_cons_of_mem _ hs')) h1
    simpa [List.flatMap_cons, run_append, chainStore] using this

theorem chain_durable (ss : List Session) (hok : ∀ s ∈ ss, s.ok) {c : Store} {w : World} (hc : Closed c w)
    (hflush : syncs Gen.fileFlushBody = true ∧ closes Gen.fileFlushBody = false)
    (hclose : syncs Gen.fileCloseBody = true) (hexit : syncs Gen.fileExitBody = true) :
    Closed (chainStore ss c) (run w (ss.flatMap Session.events)) ∧
    (ss ≠ [] → ClosedEx (chainStore ss c) (run w (ss.flatMap Session.events))) := by
  cases ss with
  | nil => exact ⟨hc, fun h => absurd rfl h⟩
  | cons s ss =>
    have h1 := session_durable s (hok s List.mem_cons_self) hc hflush hclose hexit
    have h2 := chain_durable_ex ss (fun s' hs' => hok s' (List.mem_cons_of_mem _ hs')) h1 hflush hclose hexit
    have h3 : ClosedEx (chainStore (s :: ss) c) (run w ((s :: ss).flatMap Session.events)) := by
      simpa [List.flatMap_cons, run_append, chainStore] using h2
    exact ⟨h3.closed, fun _ => h3⟩

/-- a closed file that exists shows its content when opened without truncation -/
theorem open_view_closed {c : Store} {w : World} (m : Mode) (hm : m ≠ .overwrite) (hc : ClosedEx c w) :
    view (step w (.open m)).1 = some c := by
  obtain ⟨hn, hp, hd⟩ := hc
  have hd' : (settle w).disk = some c := by rw [settle_none hp]; exact hd
  show view (openFile w m).1 = some c
  rw [openFile_existing m hm hn hd']
  rfl

end Nix.Flush.Lemmas
