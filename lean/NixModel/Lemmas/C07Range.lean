import Mathlib.Tactic.Linarith
import NixModel.Pure.DimSpec

/-!
Helper lemmas for C07: the `np.where` scan (`whereFrom`), first / last element of an ascending index
list, and the characterisation of `RangeDimension.index_of` for every ascending tick list.
-/
namespace Nix.Dim.Lemmas
open Nix Nix.Dim

/-! ## `whereFrom` -/

theorem getD_lt (l : List Rat) (i : Nat) (h : i < l.length) : l.getD i 0 = l[i] := by
  simp [List.getD, h]

theorem meets_error {mode : IndexMode} {coord : Nat → Rat} {n : Option Nat} {x : Rat}
    (h : ∀ k, ¬ IsSample mode coord n x k) : Meets mode coord n x (.error .indexError) := ⟨rfl, h⟩

theorem meets_ok {mode : IndexMode} {coord : Nat → Rat} {n : Option Nat} {x : Rat} (k : Nat)
    (h : IsSample mode coord n x k) : Meets mode coord n x (.ok (k : Int)) := ⟨k, rfl, h⟩

theorem getD_cons_succ (x : Rat) (xs : List Rat) (i : Nat) : (x :: xs).getD (i + 1) 0 = xs.getD i 0 := by
  simp [List.getD]

theorem mem_whereFrom (p : Rat → Bool) (l : List Rat) (k j : Nat) :
    j ∈ whereFrom p l k ↔ k ≤ j ∧ j - k < l.length ∧ p (l.getD (j - k) 0) = true := by
  induction l generalizing k with
  | nil => simp [whereFrom]
  | cons x xs ih =>
    have key : (j ∈ whereFrom p xs (k + 1)) ↔
        (k + 1 ≤ j ∧ j - (k + 1) < xs.length ∧ p (xs.getD (j - (k + 1)) 0) = true) := ih (k + 1)
    by_cases hjk : j = k
    · subst hjk
      have hnot : ¬ (j ∈ whereFrom p xs (j + 1)) := by
        rw [key]; omega
      by_cases hp : p x = true
      · simp [whereFrom, hp]
      · simp [whereFrom, hp, hnot]
    · by_cases hlt : j < k
      · have hnot : ¬ (j ∈ whereFrom p xs (k + 1)) := by
          rw [key]; omega
        have : ¬ (k ≤ j) := by omega
        by_cases hp : p x = true
        · simp [whereFrom, hp, hnot, this, hjk]
        · simp [whereFrom, hp, hnot, this]
      · have hgt : k + 1 ≤ j := by omega
        obtain ⟨d, hd⟩ : ∃ d, j - k = d + 1 := ⟨j - k - 1, by omega⟩
        have hd' : j - (k + 1) = d := by omega
        have hmem : (j ∈ whereFrom p (x :: xs) k) ↔ (j ∈ whereFrom p xs (k + 1)) := by
          by_cases hp : p x = true
          · simp [whereFrom, hp, hjk]
          · simp [whereFrom, hp]
        rw [hmem, key, hd, hd', getD_cons_succ]
        simp only [List.length_cons]
        constructor
        · rintro ⟨_, h2, h3⟩; exact ⟨by omega, by omega, h3⟩
        · rintro ⟨_, h2, h3⟩; exact ⟨hgt, by omega, h3⟩

theorem mem_whereFrom_zero (p : Rat → Bool) (l : List Rat) (j : Nat) :
    j ∈ whereFrom p l 0 ↔ j < l.length ∧ p (l.getD j 0) = true := by
  rw [mem_whereFrom]; simp

theorem whereFrom_ge (p : Rat → Bool) (l : List Rat) (k j : Nat) (h : j ∈ whereFrom p l k) : k ≤ j :=
  ((mem_whereFrom p l k j).1 h).1

theorem whereFrom_sorted (p : Rat → Bool) (l : List Rat) (k : Nat) :
    (whereFrom p l k).Pairwise (· < ·) := by
  induction l generalizing k with
  | nil => simp [whereFrom]
  | cons x xs ih =>
    by_cases hp : p x = true
    · simp only [whereFrom, hp, if_true, List.pairwise_cons]
      refine ⟨?_, ih (k + 1)⟩
      intro b hb
      have := whereFrom_ge p xs (k + 1) b hb
      omega
    · simp only [whereFrom, hp]
      exact ih (k + 1)

/-! ## first / last element of a strictly ascending list of naturals -/

theorem head_min (l : List Nat) (hs : l.Pairwise (· < ·)) (a : Nat) (h : l.head? = some a) :
    a ∈ l ∧ ∀ b ∈ l, a ≤ b := by
  cases l with
  | nil => simp at h
  | cons x xs =>
    simp only [List.head?_cons, Option.some.injEq] at h
    subst h
    refine ⟨by simp, ?_⟩
    intro b hb
    rcases List.mem_cons.1 hb with rfl | hb
    · exact Nat.le_refl _
    · exact Nat.le_of_lt ((List.pairwise_cons.1 hs).1 b hb)

theorem getLast_max (l : List Nat) (hs : l.Pairwise (· < ·)) (a : Nat) (h : l.getLast? = some a) :
    a ∈ l ∧ ∀ b ∈ l, b ≤ a := by
  induction l with
  | nil => simp at h
  | cons x xs ih =>
    cases xs with
    | nil =>
      simp only [List.getLast?_singleton, Option.some.injEq] at h
      subst h
      simp
    | cons y ys =>
      have h' : (y :: ys).getLast? = some a := by
        simpa [List.getLast?_cons_cons] using h
      have hs' := (List.pairwise_cons.1 hs)
      obtain ⟨hmem, hmax⟩ := ih hs'.2 h'
      refine ⟨List.mem_cons_of_mem _ hmem, ?_⟩
      intro b hb
      rcases List.mem_cons.1 hb with rfl | hb
      · exact Nat.le_of_lt (hs'.1 a hmem)
      · exact hmax b hb

theorem head?_eq_none_iff' (l : List Nat) : l.head? = none ↔ l = [] := by
  cases l <;> simp

theorem getLast?_eq_none_iff' (l : List Nat) : l.getLast? = none ↔ l = [] := by
  simp

/-- `lastOr` of a `where` scan: the largest index satisfying `p`, `IndexError` when there is none -/
theorem lastOr_where (p : Rat → Bool) (l : List Rat) :
    (∃ m : Nat, lastOr (whereFrom p l 0) = .ok (m : Int) ∧ m < l.length ∧ p (l.getD m 0) = true ∧
        ∀ j, j < l.length → p (l.getD j 0) = true → j ≤ m) ∨
    (lastOr (whereFrom p l 0) = .error .indexError ∧ ∀ j, j < l.length → p (l.getD j 0) ≠ true) := by
  unfold lastOr
  cases h : (whereFrom p l 0).getLast? with
  | none =>
    right
    refine ⟨rfl, ?_⟩
    intro j hj hp
    have hnil : whereFrom p l 0 = [] := (getLast?_eq_none_iff' _).1 h
    have : j ∈ whereFrom p l 0 := (mem_whereFrom_zero p l j).2 ⟨hj, hp⟩
    rw [hnil] at this
    simp at this
  | some m =>
    left
    obtain ⟨hmem, hmax⟩ := getLast_max _ (whereFrom_sorted p l 0) m h
    obtain ⟨h1, h2⟩ := (mem_whereFrom_zero p l m).1 hmem
    exact ⟨m, rfl, h1, h2, fun j hj hp => hmax j ((mem_whereFrom_zero p l j).2 ⟨hj, hp⟩)⟩

theorem firstOr_where (p : Rat → Bool) (l : List Rat) :
    (∃ m : Nat, firstOr (whereFrom p l 0) = .ok (m : Int) ∧ m < l.length ∧ p (l.getD m 0) = true ∧
        ∀ j, j < l.length → p (l.getD j 0) = true → m ≤ j) ∨
    (firstOr (whereFrom p l 0) = .error .indexError ∧ ∀ j, j < l.length → p (l.getD j 0) ≠ true) := by
  unfold firstOr
  cases h : (whereFrom p l 0).head? with
  | none =>
    right
    refine ⟨rfl, ?_⟩
    intro j hj hp
    have hnil : whereFrom p l 0 = [] := (head?_eq_none_iff' _).1 h
    have : j ∈ whereFrom p l 0 := (mem_whereFrom_zero p l j).2 ⟨hj, hp⟩
    rw [hnil] at this
    simp at this
  | some m =>
    left
    obtain ⟨hmem, hmin⟩ := head_min _ (whereFrom_sorted p l 0) m h
    obtain ⟨h1, h2⟩ := (mem_whereFrom_zero p l m).1 hmem
    exact ⟨m, rfl, h1, h2, fun j hj hp => hmin j ((mem_whereFrom_zero p l j).2 ⟨hj, hp⟩)⟩

/-! ## ascending tick lists -/

theorem inDom_some (n i : Nat) : InDom (some n) i ↔ i < n := by
  unfold InDom
  constructor
  · intro h; exact h n rfl
  · intro h m hm; cases hm; exact h

theorem inDom_none (i : Nat) : InDom none i := by
  intro m hm; cases hm

theorem asc_getD (ticks : List Rat) (h : AscendingList ticks) (i j : Nat) (hij : i ≤ j)
    (hj : j < ticks.length) : ticks.getD i 0 ≤ ticks.getD j 0 := by
  have hi : i < ticks.length := by omega
  rw [getD_lt _ _ hi, getD_lt _ _ hj]
  rcases Nat.lt_or_eq_of_le hij with hlt | heq
  · exact (List.pairwise_iff_getElem.1 h) i j hi hj hlt
  · subst heq; exact le_refl _

theorem tick_ascending (ticks : List Rat) (h : AscendingList ticks) :
    Ascending (tickCoord ticks) (some ticks.length) := by
  intro i j hij hj
  exact asc_getD ticks h i j hij ((inDom_some _ _).1 hj)

theorem head?_getD (ticks : List Rat) (t0 : Rat) (h : ticks.head? = some t0) :
    0 < ticks.length ∧ ticks.getD 0 0 = t0 := by
  cases ticks with
  | nil => simp at h
  | cons x xs => simp at h; simp [h]

theorem getLast?_getD (ticks : List Rat) (tl : Rat) (h : ticks.getLast? = some tl) :
    0 < ticks.length ∧ ticks.getD (ticks.length - 1) 0 = tl := by
  cases ticks with
  | nil => simp at h
  | cons x xs =>
    refine ⟨by simp, ?_⟩
    rw [List.getLast?_eq_getElem?] at h
    have hlen : (x :: xs).length - 1 < (x :: xs).length := by simp
    rw [getD_lt _ _ hlen]
    rw [List.getElem?_eq_getElem hlen] at h
    exact Option.some.inj h

/-- **`RangeDimension.index_of` is the order-theoretic sample, for every ascending tick list.** -/
theorem rangeIndexOf_meets (ticks : List Rat) (hasc : AscendingList ticks) (pos : Rat) (mode : IndexMode)
    (hm : mode ≠ .other) :
    Meets mode (tickCoord ticks) (some ticks.length) pos (rangeIndexOf ticks pos mode) := by
  unfold rangeIndexOf
  cases hh : ticks.head? with
  | none =>
    -- no ticks: nothing qualifies
    have hnil : ticks = [] := by cases ticks <;> simp_all
    subst hnil
    apply meets_error
    intro k hk
    cases mode <;> simp only [IsSample, IsLastAtOrBefore, IsLastBefore, IsFirstAtOrAfter] at hk
    · exact absurd ((inDom_some _ _).1 hk.1) (by simp)
    · exact absurd ((inDom_some _ _).1 hk.1) (by simp)
    · exact absurd ((inDom_some _ _).1 hk.1) (by simp)
  | some t0 =>
    cases hl : ticks.getLast? with
    | none =>
      have : ticks = [] := by simpa using hl
      subst this; simp at hh
    | some tl =>
      obtain ⟨hpos, h0⟩ := head?_getD ticks t0 hh
      obtain ⟨_, hlast⟩ := getLast?_getD ticks tl hl
      have hasc' := asc_getD ticks hasc
      simp only []
      by_cases h1 : pos < t0
      · -- before the first tick
        simp only [h1, if_true]
        cases mode with
        | other => exact absurd rfl hm
        | geq =>
          simp only [if_true]
          refine meets_ok 0 ⟨(inDom_some _ _).2 hpos, ?_, fun j _ _ => Nat.zero_le j⟩
          show pos ≤ ticks.getD 0 0
          rw [h0]; exact le_of_lt h1
        | leq =>
          simp only [reduceCtorEq, if_false]
          apply meets_error
          rintro k ⟨hk, hle, _⟩
          have := hasc' 0 k (Nat.zero_le k) ((inDom_some _ _).1 hk)
          rw [h0] at this
          have hle' : ticks.getD k 0 ≤ pos := hle
          linarith
        | less =>
          simp only [reduceCtorEq, if_false]
          apply meets_error
          rintro k ⟨hk, hlt, _⟩
          have := hasc' 0 k (Nat.zero_le k) ((inDom_some _ _).1 hk)
          rw [h0] at this
          have hlt' : ticks.getD k 0 < pos := hlt
          linarith
      · simp only [h1, if_false]
        by_cases h2 : tl < pos
        · -- after the last tick
          simp only [h2, if_true]
          have hlastdom : InDom (some ticks.length) (ticks.length - 1) := (inDom_some _ _).2 (by omega)
          have hcast : ((ticks.length : Int) - 1) = ((ticks.length - 1 : Nat) : Int) := by omega
          cases mode with
          | other => exact absurd rfl hm
          | geq =>
            simp only [reduceCtorEq, or_self, if_false]
            apply meets_error
            rintro k ⟨hk, hge, _⟩
            have hk' := (inDom_some _ _).1 hk
            have := hasc' k (ticks.length - 1) (by omega) (by omega)
            rw [hlast] at this
            have hge' : pos ≤ ticks.getD k 0 := hge
            linarith
          | leq =>
            simp only [or_true, if_true]
            rw [hcast]
            refine meets_ok (ticks.length - 1) ⟨hlastdom, ?_, ?_⟩
            · show ticks.getD (ticks.length - 1) 0 ≤ pos
              rw [hlast]; exact le_of_lt h2
            · intro j hj _
              have := (inDom_some _ _).1 hj
              omega
          | less =>
            simp only [true_or, if_true]
            rw [hcast]
            refine meets_ok (ticks.length - 1) ⟨hlastdom, ?_, ?_⟩
            · show ticks.getD (ticks.length - 1) 0 < pos
              rw [hlast]; exact h2
            · intro j hj _
              have := (inDom_some _ _).1 hj
              omega
        · -- inside: the scans
          simp only [h2, if_false]
          have h1' : t0 ≤ pos := not_lt.1 h1
          have h2' : pos ≤ tl := not_lt.1 h2
          cases mode with
          | other => exact absurd rfl hm
          | leq =>
            simp only []
            rcases lastOr_where (fun t => decide (t ≤ pos)) ticks with ⟨m, hr, hm1, hm2, hm3⟩ | ⟨_, hnone⟩
            · rw [hr]
              refine meets_ok m ⟨(inDom_some _ _).2 hm1, ?_, ?_⟩
              · simpa [tickCoord] using hm2
              · intro j hj hle
                exact hm3 j ((inDom_some _ _).1 hj) (by simpa [tickCoord] using hle)
            · exfalso
              apply hnone 0 hpos
              rw [h0]; simpa using h1'
          | less =>
            simp only []
            rcases lastOr_where (fun t => decide (t < pos)) ticks with ⟨m, hr, hm1, hm2, hm3⟩ | ⟨hr, hnone⟩
            · rw [hr]
              refine meets_ok m ⟨(inDom_some _ _).2 hm1, ?_, ?_⟩
              · simpa [tickCoord] using hm2
              · intro j hj hlt
                exact hm3 j ((inDom_some _ _).1 hj) (by simpa [tickCoord] using hlt)
            · rw [hr]
              apply meets_error
              rintro k ⟨hk, hlt, _⟩
              apply hnone k ((inDom_some _ _).1 hk)
              simpa [tickCoord] using hlt
          | geq =>
            simp only []
            rcases firstOr_where (fun t => decide (pos ≤ t)) ticks with ⟨m, hr, hm1, hm2, hm3⟩ | ⟨_, hnone⟩
            · rw [hr]
              refine meets_ok m ⟨(inDom_some _ _).2 hm1, ?_, ?_⟩
              · simpa [tickCoord] using hm2
              · intro j hj hge
                exact hm3 j ((inDom_some _ _).1 hj) (by simpa [tickCoord] using hge)
            · exfalso
              apply hnone (ticks.length - 1) (by omega)
              rw [hlast]; simpa using h2'

end Nix.Dim.Lemmas
