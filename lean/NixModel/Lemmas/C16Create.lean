import NixModel.Lemmas.C16Views
/-! Lemmas for C16: the schema and the table each creation variant of `create_data_frame` derives, and the
consistency of `columns` with `units`. -/
namespace Nix.Frame

theorem normNamesFrom_id : ∀ (i : Nat) (cols : List (String × ColType)), (∀ c ∈ cols, c.1 ≠ "") →
    normNamesFrom i cols = cols
  | _, [], _ => rfl
  | i, (n, t) :: rest, h => by
    have hn : n ≠ "" := h (n, t) (by simp)
    simp [normNamesFrom, hn, normNamesFrom_id (i + 1) rest (fun c hc => h c (by simp [hc]))]

/-- shared tail of every creation variant: the dtype is `np.dtype` of the columns (unnamed fields named f<k>,
    duplicate names refused), at least one column, no units, the rows are the conversions of the data rows -/
theorem createWith_spec {cols : List (String × ColType)} {data : Option (List (List Val))} {f : Frame}
    (h : createWith cols data = .ok f) :
    mkDtype cols = .ok f.cols ∧ f.cols ≠ [] ∧ f.units = none ∧ f.types = cols.map (·.2) ∧
    (data = none → f.rows = []) ∧ (∀ rows, data = some rows → convRows f.types rows = .ok f.rows) := by
  unfold createWith at h
  split at h
  · cases h
  · rename_i c hc
    have htypes := (mkDtype_spec hc).1
    split at h
    · split at h
      · cases h
      · rename_i hne
        injection h with h; subst h
        refine ⟨hc, by intro e; exact hne (by simpa using e), rfl, htypes, fun _ => rfl, fun rows e => by cases e⟩
    · rename_i rows
      split at h
      · cases h
      · rename_i rs hrs
        split at h
        · cases h
        · rename_i hne
          injection h with h; subst h
          refine ⟨hc, by intro e; exact hne (by simpa using e), rfl, htypes, (fun e => by cases e), ?_⟩
          intro rows' e
          injection e with e; subst e
          exact hrs

/-- with proper (non-empty) names the stored schema is the requested one -/
theorem createWith_cols {cols : List (String × ColType)} {data : Option (List (List Val))} {f : Frame}
    (h : createWith cols data = .ok f) (hn : ∀ c ∈ cols, c.1 ≠ "") : f.cols = cols := by
  have := (createWith_spec h).1
  unfold mkDtype at this
  simp only [normNamesFrom_id 0 cols hn] at this
  split at this
  · cases this
  · injection this with this; exact this.symm

theorem mem_dedupNames : ∀ {l : List String} {x : String}, x ∈ dedupNames l ↔ x ∈ l
  | [], x => by simp [dedupNames]
  | n :: ns, x => by
    simp only [dedupNames, List.mem_cons, List.mem_filter, mem_dedupNames (l := ns)]
    constructor
    · rintro (h | ⟨h, _⟩)
      · exact Or.inl h
      · exact Or.inr h
    · rintro (h | h)
      · exact Or.inl h
      · by_cases e : x = n
        · exact Or.inl e
        · exact Or.inr ⟨h, by simpa using e⟩

theorem dedupNames_length_le : ∀ (l : List String), (dedupNames l).length ≤ l.length
  | [] => by simp [dedupNames]
  | n :: ns => by
    simp only [dedupNames, List.length_cons]
    have h1 := List.length_filter_le (fun x => x != n) (dedupNames ns)
    have h2 := dedupNames_length_le ns
    omega

/-- an ordered dict built from the names is as long as the name list only when the names are distinct -/
theorem dedupNames_length_eq : ∀ {l : List String}, (dedupNames l).length = l.length → hasDup l = false
  | [], _ => rfl
  | n :: ns, h => by
    simp only [dedupNames, List.length_cons] at h
    have h1 := List.length_filter_le (fun x => x != n) (dedupNames ns)
    have h2 := dedupNames_length_le ns
    have hf : ((dedupNames ns).filter (fun x => x != n)).length = (dedupNames ns).length := by omega
    have hd : (dedupNames ns).length = ns.length := by omega
    have hall := List.length_filter_eq_length_iff.1 hf
    have hnot : n ∉ ns := by
      intro hm
      have := hall n (mem_dedupNames.2 hm)
      simp at this
    simp only [hasDup, Bool.or_eq_false_iff]
    exact ⟨by simpa using hnot, dedupNames_length_eq hd⟩

/-- variant `col_names=, col_dtypes=`: accepted only with distinct names and at least as many types; the schema
    is names zipped with types -/
theorem createNamesTypes_spec {names : List String} {types : List ColType} {data : Option (List (List Val))}
    {f : Frame} (h : createNamesTypes names types data = .ok f) :
    names.length ≤ types.length ∧ hasDup names = false ∧ createWith (names.zip types) data = .ok f := by
  unfold createNamesTypes at h
  simp only at h
  split at h
  · cases h
  · rename_i hlen
    have hlen : names.length = (dedupNames ((names.zip types).map (·.1))).length := by simpa using hlen
    have hle := dedupNames_length_le ((names.zip types).map (·.1))
    have hz : ((names.zip types).map (·.1)).length = min names.length types.length := by simp
    have hnt : names.length ≤ types.length := by omega
    have hmap : (names.zip types).map (·.1) = names := by
      have := List.map_fst_zip (l₁ := names) (l₂ := types) hnt
      simpa using this
    rw [hmap] at hlen
    exact ⟨hnt, dedupNames_length_eq hlen.symm, h⟩

/-- variant `col_names=, data=`: needs a first row; the column types are the Python types of its cells -/
theorem createNamesData_spec {names : List String} {data : Option (List (List Val))} {f : Frame}
    (h : createNamesData names data = .ok f) :
    ∃ r rs, data = some (r :: rs) ∧ createNamesTypes names (r.map typeOfVal) (some (r :: rs)) = .ok f := by
  unfold createNamesData at h
  split at h
  · cases h
  · cases h
  · rename_i r rs
    exact ⟨r, rs, rfl, h⟩

/-- variant structured array: needs a first row (`data[0]`); names and types are the array's -/
theorem createStruct_spec {cols : List (String × ColType)} {data : List (List Val)} {f : Frame}
    (h : createStruct cols data = .ok f) : data ≠ [] ∧ createWith cols (some data) = .ok f := by
  unfold createStruct at h
  split at h
  · cases h
  · rename_i hne
    exact ⟨fun e => hne e, h⟩

/-- the rows written at creation are what `read_rows(k)` returns -/
theorem created_rows_read {cols : List (String × ColType)} {rows : List (List Val)} {f : Frame}
    (h : createWith cols (some rows) = .ok f) :
    f.rows.length = rows.length ∧
    ∀ k (hk : k < rows.length), ∃ w, convRow f.types rows[k] = .ok w ∧ readRow f (k : Int) = .ok w := by
  have hc := (createWith_spec h).2.2.2.2.2 rows rfl
  obtain ⟨h1, _, h3⟩ := convRows_spec hc
  refine ⟨h1, ?_⟩
  intro k hk
  obtain ⟨w, hw1, hw2⟩ := h3 k hk
  exact ⟨w, hw2, readRow_iff.2 ⟨k, normIdx_self (by omega), hw1⟩⟩

-- ---------------------------------------------------------------------------------------
-- columns / units

theorem zip3_units : ∀ (cols : List (String × ColType)) (us : List (Option String)), us.length = cols.length →
    (zip3 cols us).map (fun x => x.2.2) = us
  | [], [], _ => rfl
  | (n, t) :: cs, u :: us, h => by simp [zip3, zip3_units cs us (by simpa using h)]
  | [], _ :: _, h => by simp at h
  | _ :: _, [], h => by simp at h

theorem all_none_of_not_any : ∀ (us : List (Option String)), us.any (·.isSome) = false →
    us = List.replicate us.length none
  | [], _ => rfl
  | u :: us, h => by
    simp only [List.any_cons, Bool.or_eq_false_iff] at h
    cases u with
    | some x => simp at h
    | none =>
      have := all_none_of_not_any us h.2
      simp only [List.length_cons, List.replicate_succ]
      rw [← this]

/-- the unit `columns` reports for each column is the one `units` reports (None for every column without units) -/
theorem map_none_replicate {α : Type} : ∀ (l : List α),
    l.map (fun _ => (none : Option String)) = List.replicate l.length none
  | [] => rfl
  | _ :: l => by simp [List.replicate_succ, map_none_replicate l]

theorem columns_units {f : Frame} (wf : WF f) :
    (columns f).map (fun x => x.2.2) =
      match unitsOf f with
      | some us => us
      | none => List.replicate f.cols.length none := by
  unfold columns unitsOf
  cases hus : f.units with
  | none => simpa [List.map_map, Function.comp_def] using map_none_replicate f.cols
  | some us =>
    have hl := wf.units us hus
    simp only
    split
    · exact zip3_units _ _ hl
    · rename_i hany
      have := all_none_of_not_any us (by simpa using hany)
      rw [this, hl]
      simpa [List.map_map, Function.comp_def] using map_none_replicate f.cols

-- ---------------------------------------------------------------------------------------
-- histories, names

theorem run_snoc (f0 : Frame) (hist : List Op) (op : Op) : run f0 (hist ++ [op]) = (step (run f0 hist) op).1 := by
  simp [run, List.foldl_append]

/-- distinct names: the first column called like column k is column k -/
theorem findCol_self : ∀ (cols : List (String × ColType)) (k : Nat) (hk : k < cols.length),
    hasDup (cols.map (·.1)) = false → findCol cols (cols[k]).1 = some k := by
  intro cols
  induction cols with
  | nil => intro k hk; simp at hk
  | cons c cs ih =>
    intro k hk hd
    simp only [List.map_cons, hasDup, Bool.or_eq_false_iff] at hd
    cases k with
    | zero => simp [findCol, List.findIdx?_cons]
    | succ k =>
      have hk' : k < cs.length := by simpa using hk
      have hne : (c.1 == (cs[k]).1) = false := by
        have : (cs[k]).1 ∈ cs.map (·.1) := List.mem_map.2 ⟨cs[k], List.getElem_mem hk', rfl⟩
        have hc := hd.1
        simp only [List.contains_eq_mem, decide_eq_false_iff_not] at hc
        simp only [beq_eq_false_iff_ne, ne_eq]
        intro e
        exact hc (e ▸ this)
      have := ih k hk' hd.2
      simp only [findCol] at this ⊢
      simp [List.findIdx?_cons, hne, this]

theorem writeCellPos_rows_length (f : Frame) (cell : Val) (pos : List Int) :
    (writeCellPos f cell pos).1.rows.length = f.rows.length := by
  unfold writeCellPos
  repeat' split
  all_goals simp

theorem writeCellName_rows_length (f : Frame) (cell : Val) (name : String) (ri : Int) :
    (writeCellName f cell name ri).1.rows.length = f.rows.length := by
  unfold writeCellName
  repeat' split
  all_goals simp

end Nix.Frame
