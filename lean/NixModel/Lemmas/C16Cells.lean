import NixModel.Lemmas.C16Rw
/-! Lemmas for C16: which cells an operation addresses, and that all other cells keep their value. -/
namespace Nix.Frame

theorem normIdx_lt {n : Nat} {i : Int} {k : Nat} (h : normIdx n i = some k) : k < n := by
  unfold normIdx at h
  split at h
  · split at h
    · cases h; omega
    · cases h
  · split at h
    · cases h; omega
    · cases h

theorem normList_mem : ∀ {n : Nat} {idx : List Int} {ks : List Nat}, normList n idx = .ok ks →
    ∀ k ∈ ks, ∃ i ∈ idx, normIdx n i = some k
  | n, [], ks, h => by simp [normList] at h; subst h; simp
  | n, i :: is, ks, h => by
    simp only [normList] at h
    split at h
    · cases h
    · rename_i k0 hk0
      split at h
      · cases h
      · rename_i ks' hks'
        cases h
        intro k hk
        rcases List.mem_cons.1 hk with rfl | hk
        · exact ⟨i, by simp, hk0⟩
        · obtain ⟨i', hi', hh⟩ := normList_mem hks' k hk
          exact ⟨i', by simp [hi'], hh⟩

theorem setMany_get_not_mem : ∀ {rows : List Row} {ks : List Nat} {rs : List Row} {k : Nat},
    k ∉ ks → (setMany rows ks rs)[k]? = rows[k]?
  | rows, [], _, k, _ => by simp [setMany]
  | rows, _ :: _, [], k, _ => by simp [setMany]
  | rows, k0 :: ks, r :: rs, k, h => by
    simp only [List.mem_cons, not_or] at h
    simp only [setMany]
    rw [setMany_get_not_mem h.2, List.getElem?_set_ne (Ne.symm h.1)]

theorem writeColLoop_get : ∀ {t : ColType} {c : Nat} {rows : List Row} {col : List Val} (r : Nat) {row' : Row},
    (writeColLoop t c rows col).1[r]? = some row' →
    ∃ row, rows[r]? = some row ∧ (row' = row ∨ ∃ w, row' = row.set c w)
  | t, c, [], col, r, row', h => by simp [writeColLoop] at h
  | t, c, x :: rows, [], r, row', h => by
    simp [writeColLoop] at h
    exact ⟨row', h, Or.inl rfl⟩
  | t, c, x :: rows, v :: col, r, row', h => by
    simp only [writeColLoop] at h
    split at h
    · exact ⟨row', h, Or.inl rfl⟩
    · rename_i w hw
      cases r with
      | zero =>
        simp at h; subst h
        exact ⟨x, by simp, Or.inr ⟨w, rfl⟩⟩
      | succ r =>
        simp only [List.getElem?_cons_succ] at h
        obtain ⟨row, h1, h2⟩ := writeColLoop_get r h
        exact ⟨row, by simpa using h1, h2⟩

/-- a successful write_column stores the converted cell of every row in column `c` -/
theorem writeColLoop_done : ∀ {t : ColType} {c : Nat} {rows : List Row} {col : List Val},
    (writeColLoop t c rows col).2 = none → col.length = rows.length →
    ∀ (r : Nat) (row : Row), rows[r]? = some row →
      ∃ v w, col[r]? = some v ∧ conv t v = .ok w ∧ (writeColLoop t c rows col).1[r]? = some (row.set c w)
  | t, c, [], col, _, _, r, row, h => by simp at h
  | t, c, x :: rows, [], _, hl, _, _, _ => by simp at hl
  | t, c, x :: rows, v :: col, he, hl, r, row, h => by
    simp only [writeColLoop] at he ⊢
    split
    · rename_i e hc
      simp [hc] at he
    · rename_i w hw
      simp only [hw] at he
      have hl' : col.length = rows.length := by simpa using hl
      cases r with
      | zero =>
        simp at h; subst h
        exact ⟨v, w, by simp, hw, by simp⟩
      | succ r =>
        simp only [List.getElem?_cons_succ] at h ⊢
        exact writeColLoop_done he hl' r row h

/-- the column `write_column(index=…, name=…)` addresses -/
def colTarget (f : Frame) (index : Option Int) (name : Option String) : Option Nat :=
  match resolveColName f index name with
  | .ok nm => findCol f.cols nm
  | .error _ => none

theorem selectList_mem {n : Nat} {idx : List Int} {e : Err} {ks : List Nat} (h : selectList n idx e = .ok ks) :
    ∀ k ∈ ks, ∃ i ∈ idx, normIdx n i = some k := by
  unfold selectList at h
  split at h
  · cases h
  · rename_i ks' hks'
    split at h
    · injection h with h
      subst h
      exact normList_mem hks'
    · cases h

/-- the cells (row, column) an operation addresses in frame `f` -/
def touched (f : Frame) : Op → Nat → Nat → Prop
  | .appendRows _, r, _ => f.rows.length ≤ r
  | .appendColumn _ _ _, _, c => f.cols.length ≤ c
  | .writeRows _ idx, r, _ => ∃ i ∈ idx, normIdx f.rows.length i = some r
  | .writeRowFlat _ idx, r, _ => ∃ i ∈ idx, normIdx f.rows.length i = some r
  | .writeColumn _ index name, _, c => colTarget f index name = some c
  | .writeCellPos _ pos, r, c => ∃ ri ci, pos = [ri, ci] ∧ normIdx f.rows.length ri = some r ∧
      normIdx f.cols.length ci = some c
  | .writeCellName _ name ri, r, c => normIdx f.rows.length ri = some r ∧ findCol f.cols name = some c
  | .setUnits _, _, _ => False

theorem cell_set_ne {rows : List Row} {r0 c0 : Nat} {row : Row} {w : Val} {r c : Nat}
    (hrow : rows[r0]? = some row) (h : ¬ (r0 = r ∧ c0 = c)) :
    ((rows.set r0 (row.set c0 w))[r]?).bind (·[c]?) = (rows[r]?).bind (·[c]?) := by
  by_cases hr : r0 = r
  · subst hr
    have hc : c0 ≠ c := fun hc => h ⟨rfl, hc⟩
    have hlt : r0 < rows.length := by
      rcases Nat.lt_or_ge r0 rows.length with hlt | hge
      · exact hlt
      · simp [List.getElem?_eq_none hge] at hrow
    simp [List.getElem?_set_self hlt, hrow, List.getElem?_set_ne hc]
  · simp [List.getElem?_set_ne hr]

theorem frame_appendRows {f : Frame} {rows} {r c : Nat} (h : r < f.rows.length) :
    (appendRows f rows).1.cell r c = f.cell r c := by
  unfold appendRows
  split
  · rfl
  · simp [Frame.cell, List.getElem?_append_left h]

theorem frame_appendColumn {f : Frame} (wf : WF f) {col name dt} {r c : Nat} (h : c < f.cols.length) :
    (appendColumn f col name dt).1.cell r c = f.cell r c := by
  generalize hp : appendColumn f col name dt = p
  unfold appendColumn at hp
  try simp only at hp
  repeat' split at hp
  all_goals subst hp
  all_goals try rfl
  all_goals
    rename_i ws hws
    obtain ⟨wl, _, _⟩ := convCol_spec hws
    have hl : ws.length = f.rows.length := by omega
    simp only [Frame.cell, appendCell_get r hl]
    cases hr : f.rows[r]? with
    | none => simp
    | some row =>
      have hrow := wf.rows row (List.mem_of_getElem? hr)
      have hlen' : row.length = f.cols.length := by
        simpa [Frame.types] using rowOK_length hrow
      have hrl : r < f.rows.length := by
        rcases Nat.lt_or_ge r f.rows.length with hlt | hge
        · exact hlt
        · simp [List.getElem?_eq_none hge] at hr
      have : r < ws.length := by omega
      simp [List.getElem?_eq_getElem this, List.getElem?_append_left (by omega : c < row.length)]

theorem frame_writeRows {f : Frame} {rows idx} {r c : Nat}
    (h : ¬ ∃ i ∈ idx, normIdx f.rows.length i = some r) :
    (writeRows f rows idx).1.cell r c = f.cell r c := by
  generalize hp : writeRows f rows idx = p
  unfold writeRows at hp
  try simp only at hp
  repeat' split at hp
  all_goals subst hp
  all_goals try rfl
  rename_i ks hks
  have : r ∉ ks := fun hm => h (selectList_mem hks r hm)
  simp [Frame.cell, setMany_get_not_mem this]

theorem frame_writeRowFlat {f : Frame} {row idx} {r c : Nat}
    (h : ¬ ∃ i ∈ idx, normIdx f.rows.length i = some r) :
    (writeRowFlat f row idx).1.cell r c = f.cell r c := by
  unfold writeRowFlat
  split
  · rfl
  · split
    · rfl
    · exact frame_writeRows h

theorem frame_writeColumn {f : Frame} {col index name} {r c : Nat} (h : colTarget f index name ≠ some c) :
    (writeColumn f col index name).1.cell r c = f.cell r c := by
  generalize hp : writeColumn f col index name = p
  unfold writeColumn at hp
  try simp only at hp
  repeat' split at hp
  all_goals subst hp
  all_goals try rfl
  rename_i nm hnm _ _ _ c0 hc0 _ ct hct _ rows' hloop
  have e : rows' = (writeColLoop ct.2 c0 f.rows col).1 := by rw [hloop]
  subst e
  have hne : c0 ≠ c := by
    intro e; subst e
    apply h
    simp [colTarget, hnm, hc0]
  simp only [Frame.cell]
  cases hr : (writeColLoop ct.2 c0 f.rows col).1[r]? with
  | none =>
    have : f.rows.length ≤ r := by
      have := List.getElem?_eq_none_iff.1 hr
      rwa [writeColLoop_length] at this
    simp [List.getElem?_eq_none this]
  | some row' =>
    obtain ⟨row, h1, h2⟩ := writeColLoop_get r hr
    rcases h2 with rfl | ⟨w, rfl⟩
    · simp [h1]
    · simp [h1, List.getElem?_set_ne hne]

theorem frame_writeCellPos {f : Frame} {cell pos} {r c : Nat}
    (h : ¬ ∃ ri ci, pos = [ri, ci] ∧ normIdx f.rows.length ri = some r ∧ normIdx f.cols.length ci = some c) :
    (writeCellPos f cell pos).1.cell r c = f.cell r c := by
  generalize hp : writeCellPos f cell pos = p
  unfold writeCellPos at hp
  repeat' split at hp
  all_goals subst hp
  all_goals try rfl
  simp only [Frame.cell]
  apply cell_set_ne (by assumption)
  rintro ⟨rfl, rfl⟩
  exact h ⟨_, _, rfl, by assumption, by assumption⟩

theorem frame_writeCellName {f : Frame} {cell name ri} {r c : Nat}
    (h : ¬ (normIdx f.rows.length ri = some r ∧ findCol f.cols name = some c)) :
    (writeCellName f cell name ri).1.cell r c = f.cell r c := by
  generalize hp : writeCellName f cell name ri = p
  unfold writeCellName at hp
  repeat' split at hp
  all_goals subst hp
  all_goals try rfl
  simp only [Frame.cell]
  apply cell_set_ne (by assumption)
  rintro ⟨rfl, rfl⟩
  exact h ⟨by assumption, by assumption⟩

theorem frame_setUnits {f : Frame} {us} {r c : Nat} : (setUnits f us).1.cell r c = f.cell r c := by
  unfold setUnits
  split <;> rfl

end Nix.Frame
