import NixModel.Lemmas.C04Bfs

/-!
# C04 — the hierarchy below an entity is a finite forest when child keys grow

`subtree_complete` (Props/C04) assumes `ForestSize`. This file discharges the *existence* half of that
hypothesis from a decidable, local condition on the graph: every child entity of the `sub` hierarchy
(`k.sections` / `k.sources`) has a larger node key than its parent and lies below a bound `B`
(`GrowingKids`, restricted to the entities of the hierarchy). HDF5 objects get their key when they are created (`nextKey`), and a section / source
is created inside an existing parent, so graphs built through the API have this shape; the condition
itself is evaluated by `decide` on concrete graphs (see the example in Props/C04).

What is *not* shown here is the bound `n ≤ |nodes|² + 1` of `subtree_complete`: it needs in addition
that no entity has two parents (then `n ≤ |nodes|`).
-/
namespace Nix.Store.C04
open Nix.Store Nix.Store.Graph

/-- every child in the `sub` hierarchy of a node below `B` that satisfies `P` has a larger key, still
below `B`, and satisfies `P` again. `P` singles out the entities of the hierarchy (`kindOf g k = "section"`
/ `"source"`): a *link list* of a group, array or tag is also called `sources`, and it may well link a
source that is older than its owner - evaluating the unrestricted condition on the graphs of the
correspondence runs showed exactly that, hence the restriction. -/
def GrowingKids (g : Graph) (sub : String) (B : Nat) (P : Nat → Bool) : Prop :=
  ∀ k, k < B → P k = true → ∀ m ∈ kids g sub k, k < m ∧ m < B ∧ P m = true

instance (g : Graph) (sub : String) (B : Nat) (P : Nat → Bool) : Decidable (GrowingKids g sub B P) := by
  unfold GrowingKids; exact inferInstance

private theorem forest_of_growing_aux (g : Graph) (sub : String) (B : Nat) (P : Nat → Bool)
    (h : GrowingKids g sub B P) :
    ∀ (d : Nat) (q : List Nat), (∀ k ∈ q, k < B ∧ P k = true ∧ B - k ≤ d) → ∃ n, ForestSize g sub q n := by
  intro d
  induction d with
  | zero =>
    intro q hq
    cases q with
    | nil => exact ⟨0, .nil⟩
    | cons k rest =>
      have := hq k (by simp)
      omega
  | succ d ihd =>
    intro q
    induction q with
    | nil => intro _; exact ⟨0, .nil⟩
    | cons k rest ihq =>
      intro hq
      have hk := hq k (by simp)
      obtain ⟨b, hb⟩ := ihq (fun x hx => hq x (by simp [hx]))
      have hkids : ∀ m ∈ kids g sub k, m < B ∧ P m = true ∧ B - m ≤ d := by
        intro m hm
        have := h k hk.1 hk.2.1 m hm
        exact ⟨this.2.1, this.2.2, by omega⟩
      obtain ⟨a, ha⟩ := ihd (kids g sub k) hkids
      exact ⟨1 + a + b, .cons k rest a b ha hb⟩

/-- **finite forest**: under `GrowingKids` the hierarchy below any queue of nodes is a finite forest —
the breadth-first collection of `find_sections` / `find_sources` (which has no visited set) ends -/
theorem forest_of_growing (g : Graph) (sub : String) (B : Nat) (P : Nat → Bool) (h : GrowingKids g sub B P)
    (q : List Nat) (hq : ∀ k ∈ q, k < B ∧ P k = true) : ∃ n, ForestSize g sub q n :=
  forest_of_growing_aux g sub B P h B q (fun k hk => ⟨(hq k hk).1, (hq k hk).2, by omega⟩)

/-- hence the collection ends with an empty queue for *some* fuel, and with that fuel it is complete -/
theorem bfs_ends_of_growing (g : Graph) (sub : String) (B : Nat) (P : Nat → Bool) (h : GrowingKids g sub B P)
    (k : Nat) (hk : k < B) (hp : P k = true) :
    ∃ fuel, bfsRest g sub fuel [k] = [] ∧ ∀ d, Desc g sub k d → d ∈ bfsKeys g sub fuel [k] [] := by
  obtain ⟨n, hn⟩ := forest_of_growing g sub B P h [k] (by simpa using ⟨hk, hp⟩)
  have hdone := bfsRest_done g sub n [k] n hn (Nat.le_refl n)
  exact ⟨n, hdone, fun d hd => bfsKeys_complete g sub n [k] [] hdone k (by simp) d hd⟩

end Nix.Store.C04
