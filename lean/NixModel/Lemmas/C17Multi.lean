import NixModel.Pure.FlushMulti
import NixModel.Lemmas.C17Flush

/-! # C17 — lemmas for several `File` objects on one path (`Pure/FlushMulti.lean`) -/
namespace Nix.FlushMulti
open Nix.Flush

/-- everything the process and the OS hold of the file is the state `c` -/
def MSettled (c : Store) (w : MWorld) : Prop :=
  w.disk = c ∧ (∀ s, w.cache = some s → s = c) ∧ (∀ p, w.pending = some p → p = c)

theorem mprim_settled {c : Store} {w : MWorld} (i : Nat) (p : Prim) (h : MSettled c w) :
    MSettled c (mprim w i p).1 := by
  obtain ⟨hd, hc, hp⟩ := h
  cases p with
  | gcCollect => exact ⟨hd, hc, hp⟩
  | h5flush =>
    simp only [mprim]
    split
    · rename_i c' _ hcc
      exact ⟨hc _ hcc, hc, hp⟩
    · exact ⟨hd, hc, hp⟩
  | h5close =>
    simp only [mprim]
    split
    · split
      · exact ⟨hd, hc, hp⟩
      · refine ⟨hd, ?_, ?_⟩
        · intro s hs; cases hs
        · intro p hp'; exact hc _ hp'
    · exact ⟨hd, hc, hp⟩

theorem mrunBody_settled {c : Store} (i : Nat) (body : List Prim) {w : MWorld} (h : MSettled c w) :
    MSettled c (mrunBody w i body).1 := by
  induction body generalizing w with
  | nil => exact h
  | cons p ps ih =>
    have h1 := mprim_settled i p h
    unfold mrunBody
    rcases hm : mprim w i p with ⟨w', _ | e⟩
    · rw [hm] at h1; exact ih h1
    · rw [hm] at h1; exact h1

theorem mwriteback_settled {c : Store} {w : MWorld} (ks : List Key) (h : MSettled c w) :
    MSettled c (mwriteback w ks) := by
  obtain ⟨hd, hc, hp⟩ := h
  unfold mwriteback
  split
  · rename_i s hs
    refine ⟨?_, hc, hp⟩
    have := hc _ hs
    subst this; dsimp only; rw [hd]; exact Nix.Flush.Lemmas.wb_self _ ks
  · split
    · rename_i p hp'
      refine ⟨?_, hc, hp⟩
      have := hp _ hp'
      subst this; dsimp only; rw [hd]; exact Nix.Flush.Lemmas.wb_self _ ks
    · exact ⟨hd, hc, hp⟩

theorem mstep_settled {c : Store} {w : MWorld} (e : MEv) (hq : mquiet e = true) (h : MSettled c w) :
    MSettled c (mstep w e).1 := by
  cases e with
  | write i x => simp [mquiet] at hq
  | flush i => exact mrunBody_settled i _ h
  | close i => exact mrunBody_settled i _ h
  | writeback ks => exact mwriteback_settled ks h
  | kill =>
    obtain ⟨hd, _, _⟩ := h
    exact ⟨hd, by intro s hs; simp [mstep] at hs, by intro p hp; simp [mstep] at hp⟩
  | openObj =>
    obtain ⟨hd, hc, hp⟩ := h
    simp only [mstep]
    split
    · exact ⟨hd, hc, hp⟩
    · split
      · rename_i p hp'
        have := hp _ hp'
        refine ⟨this, ?_, ?_⟩
        · intro s hs; cases hs; exact this
        · intro q hq'; cases hq'
      · refine ⟨hd, ?_, ?_⟩
        · intro s hs; cases hs; exact hd
        · intro q hq'; cases hq'

theorem mrun_settled {c : Store} (es : List MEv) {w : MWorld} (hq : ∀ e ∈ es, mquiet e = true)
    (h : MSettled c w) : MSettled c (mrun w es) := by
  induction es generalizing w with
  | nil => exact h
  | cons e es ih =>
    exact ih (fun e' he' => hq e' (List.mem_cons_of_mem _ he')) (mstep_settled e (hq e (List.mem_cons_self ..)) h)

theorem mreopen_settled {c : Store} {w : MWorld} (h : MSettled c w) : mreopenView w = some c := by
  obtain ⟨hd, _, _⟩ := h
  simp [mreopenView, mstep, hd]

/-- a body that reaches `h5flush` (after `gc.collect()`s only) on an open object leaves the state settled -/
theorem mrunBody_syncs {c : Store} (i : Nat) (body : List Prim) {w : MWorld} (ho : w.objs[i]? = some true)
    (hc : w.cache = some c) (hp : w.pending = none) (hs : syncs body = true) : MSettled c (mrunBody w i body).1 := by
  induction body with
  | nil => simp [syncs] at hs
  | cons p ps ih =>
    cases p with
    | gcCollect =>
      simp only [syncs] at hs
      simpa [mrunBody, mprim] using ih hs
    | h5close => simp [syncs] at hs
    | h5flush =>
      have hm : mprim w i .h5flush = ({ w with disk := c }, none) := by
        simp [mprim, ho, hc]
      unfold mrunBody
      rw [hm]
      apply mrunBody_settled
      exact ⟨rfl, by intro s hs'; simp [hc] at hs'; exact hs'.symm, by
        intro p hp'
        simp [hp] at hp'⟩

end Nix.FlushMulti
