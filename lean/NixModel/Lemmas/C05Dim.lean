import NixModel.Pure.DimLink
import NixModel.Lemmas.StoreWFBasic
import NixModel.Lemmas.C05Alias

/-! Helper lemmas for C05 about dimension links (`Pure/DimLink.lean`). -/
namespace Nix.DimLink.Lemmas
open Nix.Store Nix.Store.Graph Nix.Store.Lemmas Nix.DimLink

/-! ### association lists -/

theorem look_put_self {α : Type} (m : List (Nat × α)) (k : Nat) (v : α) : look (put m k v) k = some v := by
  unfold look put
  rw [List.find?_append]
  have : (m.filter (fun e => e.1 != k)).find? (fun e => e.1 == k) = none := by
    rw [List.find?_eq_none]
    intro x hx
    have := (List.mem_filter.mp hx).2
    simpa using this
  simp [this, List.find?]

theorem look_put_ne {α : Type} (m : List (Nat × α)) {k k' : Nat} (v : α) (h : k' ≠ k) :
    look (put m k v) k' = look m k' := by
  unfold look put
  rw [List.find?_append, List.find?_filter]
  have h1 : (k == k') = false := by simpa using fun e => h e.symm
  have h2 : m.find? (fun a => decide ((a.1 != k) = true ∧ (a.1 == k') = true)) = m.find? (fun e => e.1 == k') := by
    apply find?_congr'
    intro x _
    by_cases hx : x.1 = k'
    · simp [hx, h]
    · simp [hx]
  rw [h2]
  cases m.find? (fun e => e.1 == k') <;> simp [List.find?, h1]

/-! ### `mapM` in `Except` and the selected vector -/

theorem mapM_ok {α β : Type} (f : α → Except Err β) (l : List α) (vs : List β) (h : l.mapM f = .ok vs) :
    vs.length = l.length ∧ ∀ j (hj : j < vs.length) (hl : j < l.length), f l[j] = .ok vs[j] := by
  induction l generalizing vs with
  | nil =>
    rw [List.mapM_nil] at h
    cases h
    exact ⟨rfl, fun j hj => by simp at hj⟩
  | cons a t ih =>
    rw [List.mapM_cons] at h
    cases hfa : f a with
    | error e => rw [hfa] at h; cases h
    | ok b =>
      cases ht : t.mapM f with
      | error e => rw [hfa, ht] at h; cases h
      | ok bs =>
        rw [hfa, ht] at h
        cases h
        obtain ⟨h1, h2⟩ := ih bs ht
        refine ⟨by simp [h1], ?_⟩
        intro j hj hl
        cases j with
        | zero => simpa using hfa
        | succ j =>
          simp only [List.getElem_cons_succ]
          exact h2 j (by simpa using hj) (by simpa using hl)

theorem selectVector_ok {d : NdData} {iv : List Int} {vs : List Rat} (h : selectVector d iv = .ok vs) :
    ∃ p n fx, slicePos iv = some p ∧ iv.length = d.shape.length ∧ d.shape[p]? = some n ∧
      fixedIdx d.shape iv p = some fx ∧ vs.length = n ∧
      ∀ j (hj : j < vs.length), (flatIndex d.shape (fx.set p j)).bind (fun off => d.vals[off]?) = some vs[j] := by
  unfold selectVector at h
  cases hp : slicePos iv with
  | none => simp [hp] at h
  | some p =>
    simp only [hp] at h
    have hlen : iv.length = d.shape.length := Classical.byContradiction fun hc => by simp [hc] at h
    simp only [hlen, bne_self_eq_false, Bool.false_eq_true, ↓reduceIte] at h
    cases hn : d.shape[p]? with
    | none => simp [hn] at h
    | some n =>
      cases hfx : fixedIdx d.shape iv p with
      | none => simp [hn, hfx] at h
      | some fx =>
        simp only [hn, hfx] at h
        obtain ⟨h1, h2⟩ := mapM_ok _ _ _ h
        refine ⟨p, n, fx, rfl, hlen, hn, hfx, by simpa using h1, ?_⟩
        intro j hj
        have hjn : j < (List.range n).length := by rw [← h1]; exact hj
        have := h2 j hj hjn
        simp only [List.getElem_range] at this
        cases hb : (flatIndex d.shape (fx.set p j)).bind (fun off => d.vals[off]?) with
        | none => simp [hb] at this
        | some v =>
          simp only [hb] at this
          exact congrArg some (Except.ok.inj this)

/-! ### a dimension that carries a link -/

/-- the descriptor `dn` has a link group `ln` of type `dotype` ("DataArray" / "DataFrame"), whose first
(only) entry is the node `t`, with the index `iv` -/
def LinkedAs (s : DState) (dn t : Nat) (dotype : String) (iv : List Int) : Prop :=
  ∃ ln nm, s.g.child? dn "link" = some ln ∧ (s.g.links ln)[0]? = some (nm, t) ∧ look s.index ln = some iv ∧
    s.g.getAttr ln "data_object_type" = some dotype

/-- linked to the array node `t` with the index vector `iv` -/
def Linked (s : DState) (dn t : Nat) (iv : List Int) : Prop := LinkedAs s dn t "DataArray" iv

theorem hasLink_of_linkedAs {s : DState} {dn t : Nat} {ty : String} {iv : List Int} (h : LinkedAs s dn t ty iv) :
    hasLink s.g dn = true := by
  obtain ⟨ln, nm, h1, _, _, _⟩ := h
  simp [hasLink, hasChild_eq, h1]

theorem hasLink_of_linked {s : DState} {dn t : Nat} {iv : List Int} (h : Linked s dn t iv) :
    hasLink s.g dn = true := hasLink_of_linkedAs h

theorem linkType_of_linkedAs {s : DState} {dn t : Nat} {ty : String} {iv : List Int} (h : LinkedAs s dn t ty iv) :
    linkType s.g dn = ty := by
  obtain ⟨ln, nm, h1, _, _, h4⟩ := h
  simp [linkType, h1, h4]

theorem linkValues_linked {s : DState} {dn t : Nat} {iv : List Int} {d : NdData}
    (h : Linked s dn t iv) (hd : dataOf s t = some d) : linkValues s dn = selectVector d iv := by
  have hty := linkType_of_linkedAs h
  obtain ⟨ln, nm, h1, h2, h3, _⟩ := h
  simp [linkValues, linkTarget, hty, h1, h2, h3, hd]

theorem readTicks_linked {s : DState} {dn t : Nat} {iv : List Int} {d : NdData}
    (h : Linked s dn t iv) (hd : dataOf s t = some d) : readTicks s dn = selectVector d iv := by
  simp [readTicks, hasLink_of_linked h, linkValues_linked h hd]

theorem readLabels_linked {s : DState} {dn t : Nat} {iv : List Int} {d : NdData}
    (h : Linked s dn t iv) (hd : dataOf s t = some d) :
    readLabels s dn = (selectVector d iv).map Labels.nums := by
  simp [readLabels, hasLink_of_linked h, linkValues_linked h hd]

theorem readDimAttr_linked {s : DState} {dn t : Nat} {iv : List Int} (h : Linked s dn t iv)
    (hk : kindOf s.g dn = kDimRange) (a : String) : readDimAttr s dn a = .ok (s.g.getAttr t a) := by
  have hl := hasLink_of_linked h
  have hty := linkType_of_linkedAs h
  obtain ⟨ln, nm, h1, h2, _, _⟩ := h
  simp [readDimAttr, hk, hl, hty, linkTarget, h1, h2]

/-! ### a dimension linked to a column of a data frame -/

theorem linkColumn_of_linkedAs {s : DState} {dn t : Nat} {ty : String} {c : Nat}
    (h : LinkedAs s dn t ty [(c : Int)]) : linkColumn s dn = some c := by
  obtain ⟨ln, nm, h1, _, h3, _⟩ := h
  simp [linkColumn, h1, h3]

theorem linkValues_frame {s : DState} {dn t c : Nat} {fd : FrameData}
    (h : LinkedAs s dn t "DataFrame" [(c : Int)]) (hf : frameOf s t = some fd) : linkValues s dn = column fd c := by
  have hty := linkType_of_linkedAs h
  have hc := linkColumn_of_linkedAs h
  obtain ⟨ln, nm, h1, h2, _, _⟩ := h
  simp [linkValues, linkTarget, hty, hc, h1, h2, hf]

theorem readTicks_frame {s : DState} {dn t c : Nat} {fd : FrameData}
    (h : LinkedAs s dn t "DataFrame" [(c : Int)]) (hf : frameOf s t = some fd) : readTicks s dn = column fd c := by
  simp [readTicks, hasLink_of_linkedAs h, linkValues_frame h hf]

theorem readLabels_frame {s : DState} {dn t c : Nat} {fd : FrameData}
    (h : LinkedAs s dn t "DataFrame" [(c : Int)]) (hf : frameOf s t = some fd) :
    readLabels s dn = (column fd c).map Labels.nums := by
  simp [readLabels, hasLink_of_linkedAs h, linkValues_frame h hf]

/-- the unit of a range dimension linked to column `c` of a frame is `DimensionLink.unit` of that frame
(`linkFrameUnit`), its label the column's name -/
theorem readDimAttr_frame {s : DState} {dn t c : Nat} {fd : FrameData}
    (h : LinkedAs s dn t "DataFrame" [(c : Int)]) (hk : kindOf s.g dn = kDimRange) (hf : frameOf s t = some fd)
    {n : String} (hn : fd.cols[c]? = some n) :
    readDimAttr s dn "unit" = linkFrameUnit fd c ∧ readDimAttr s dn "label" = .ok (some n) := by
  have hl := hasLink_of_linkedAs h
  have hty := linkType_of_linkedAs h
  have hc := linkColumn_of_linkedAs h
  obtain ⟨ln, nm, h1, h2, _, _⟩ := h
  constructor <;> simp [readDimAttr, hk, hl, hty, hc, linkTarget, h1, h2, hf, hn]

/-! ### the `units` of a frame: what `DataFrame.units` reads and what a dimension link reads / writes -/

/-- the frame's `units` attribute, when present, has one entry per column (kept by `createFrame`, `setUnits`,
the unit setter of a dimension link and `write_column`) -/
def FrameWF (fd : FrameData) : Prop := ∀ us, fd.units = some us → us.length = fd.cols.length

/-- what an assigned unit reads as afterwards: None and the empty text both read None -/
def normUnit (v : Option String) : Option String := v.bind readUnit

theorem readUnit_store (v : Option String) : readUnit (unitText v) = normUnit v := by
  cases v <;> simp [normUnit, readUnit, unitText]

/-- a frame without units: the dimension link reports None, as `DataFrame.units` is None -/
theorem linkFrameUnit_no_units {fd : FrameData} (h : frameUnits fd = none) (c : Nat) :
    linkFrameUnit fd c = .ok none := by
  unfold frameUnits at h
  cases hu : fd.units with
  | none => simp [linkFrameUnit, hu]
  | some us => simp [hu] at h

/-- a frame with units: the dimension link reports exactly the entry `DataFrame.units` shows for the column -/
theorem linkFrameUnit_of_units {fd : FrameData} {us : List (Option String)} {c : Nat} {u : Option String}
    (h : frameUnits fd = some us) (hu : us[c]? = some u) : linkFrameUnit fd c = .ok u := by
  unfold frameUnits at h
  cases hs : fd.units with
  | none => simp [hs] at h
  | some raw =>
    simp only [hs, Option.map_some, Option.some.injEq] at h
    subst h
    simp only [List.getElem?_map] at hu
    cases hr : raw[c]? with
    | none => simp [hr] at hu
    | some x =>
      simp only [hr, Option.map_some, Option.some.injEq] at hu
      simp [linkFrameUnit, hs, hr, hu]

/-- a well-formed frame never refuses the read for one of its columns -/
theorem linkFrameUnit_total {fd : FrameData} (hwf : FrameWF fd) {c : Nat} (hc : c < fd.cols.length) :
    ∃ u, linkFrameUnit fd c = .ok u := by
  cases hs : fd.units with
  | none => exact ⟨none, by simp [linkFrameUnit, hs]⟩
  | some us =>
    have hlen := hwf us hs
    have : c < us.length := by omega
    exact ⟨readUnit us[c], by simp [linkFrameUnit, hs, List.getElem?_eq_getElem this]⟩

/-- the unit setter of a dimension link on a well-formed frame: never refused (no units, None, "" or text
alike); the frame then HAS units, the column's entry reads as the value assigned (None for None / ""), every
other column reads as before (None where the frame had no units), columns and rows are untouched -/
theorem setFrameUnit_spec {fd : FrameData} (hwf : FrameWF fd) {c : Nat} (hc : c < fd.cols.length)
    (v : Option String) :
    ∃ fd', setFrameUnit fd c v = .ok fd' ∧ fd'.cols = fd.cols ∧ fd'.rows = fd.rows ∧ FrameWF fd' ∧
      linkFrameUnit fd' c = .ok (normUnit v) ∧
      frameUnits fd' = some ((match frameUnits fd with
        | some us => us
        | none => List.replicate fd.cols.length none).set c (normUnit v)) := by
  cases hs : fd.units with
  | none =>
    refine ⟨{ fd with units := some ((List.replicate fd.cols.length "").set c
      (unitText v)) }, ?_, rfl, rfl, ?_, ?_, ?_⟩
    · simp [setFrameUnit, hs, hc]
    · intro us h
      simp only [Option.some.injEq] at h
      subst h
      simp
    · simp [linkFrameUnit, hc, readUnit_store]
    · simp only [frameUnits, hs, Option.map_none, Option.map_some, List.map_set, readUnit_store,
        List.map_replicate]
      simp [readUnit]
  | some us =>
    have hlen := hwf us hs
    have hcu : c < us.length := by omega
    refine ⟨{ fd with units := some (us.set c (unitText v)) }, ?_, rfl, rfl, ?_, ?_, ?_⟩
    · simp [setFrameUnit, hs, hcu]
    · intro us' h
      simp only [Option.some.injEq] at h
      subst h
      simpa using hlen
    · simp [linkFrameUnit, hcu, readUnit_store]
    · simp only [frameUnits, hs, Option.map_some, List.map_set, readUnit_store]

/-- `frame.units = units` accepted: the frame at `q`, its dataset, its previous content; only `units` changed -/
theorem setUnits_ok {s s' : DState} {q : Path} {units : List (Option String)} (h : setUnits s q units = .ok s') :
    ∃ f ds fd, frameAt s q = .ok f ∧ s.g.child? f "data" = some ds ∧ look s.frames ds = some fd ∧
      units.length = fd.cols.length ∧
      s' = { s with frames := put s.frames ds { fd with units := some (storeUnits units) } } := by
  unfold setUnits at h
  cases hf : frameAt s q with
  | error e => simp [hf] at h
  | ok f =>
    simp only [hf] at h
    cases hds : s.g.child? f "data" with
    | none => simp [hds] at h
    | some ds =>
      simp only [hds] at h
      cases hd : look s.frames ds with
      | none => simp [hd] at h
      | some fd =>
        simp only [hd] at h
        split at h
        · cases h
        · next h1 => exact ⟨f, ds, fd, rfl, hds, hd, by simpa using h1, (Except.ok.inj h).symm⟩

theorem frameUnits_storeUnits (fd : FrameData) (units : List (Option String)) :
    frameUnits { fd with units := some (storeUnits units) } = some (units.map normUnit) := by
  simp only [frameUnits, storeUnits, Option.map_some, List.map_map]
  congr 1
  apply List.map_congr_left
  intro u _
  exact readUnit_store u

/-! ### data writes -/

theorem writeData_ok {s s' : DState} {q : Path} {vals : List Rat} (h : writeData s q vals = .ok s') :
    ∃ a ds d, arrayAt s q = .ok a ∧ s.g.child? a "data" = some ds ∧ look s.data ds = some d ∧
      s' = { s with data := put s.data ds { d with vals := vals } } := by
  unfold writeData at h
  cases ha : arrayAt s q with
  | error e => simp [ha] at h
  | ok a =>
    simp only [ha] at h
    cases hds : s.g.child? a "data" with
    | none => simp [hds] at h
    | some ds =>
      simp only [hds] at h
      cases hd : look s.data ds with
      | none => simp [hd] at h
      | some d =>
        simp only [hd] at h
        split at h
        · cases h
        · exact ⟨a, ds, d, rfl, hds, hd, (Except.ok.inj h).symm⟩

theorem arrayAt_ok {s : DState} {q : Path} {a : Nat} (h : arrayAt s q = .ok a) :
    ∃ l, resolve s.g rootLoc q = some l ∧ l.key = a ∧ kindOf s.g a = "data_array" := by
  unfold arrayAt at h
  cases hr : resolve s.g rootLoc q with
  | none => simp [hr] at h
  | some l =>
    simp only [hr] at h
    split at h
    · next hk => exact ⟨l, rfl, Except.ok.inj h, by rw [← Except.ok.inj h]; simpa using hk⟩
    · cases h

/-! ### making a link -/

theorem createLinkGroup_spec (s : DState) (dn t : Nat) (tid ty : String) (iv : List Int)
    (hdn : (s.g.node? dn).isSome) (hnone : s.g.child? dn "link" = none)
    (hfresh : s.g.node? s.g.nextKey = none) :
    (createLinkGroup s dn t tid ty iv).g.child? dn "link" = some s.g.nextKey ∧
    (createLinkGroup s dn t tid ty iv).g.links s.g.nextKey = [(tid, t)] ∧
    look (createLinkGroup s dn t tid ty iv).index s.g.nextKey = some iv ∧
    (∀ k m, k ≠ dn → k ≠ s.g.nextKey → (createLinkGroup s dn t tid ty iv).g.child? k m = s.g.child? k m) ∧
    (∀ m, m ≠ "link" → (createLinkGroup s dn t tid ty iv).g.child? dn m = s.g.child? dn m) ∧
    (∀ k a, k ≠ s.g.nextKey → (createLinkGroup s dn t tid ty iv).g.getAttr k a = s.g.getAttr k a) ∧
    ((createLinkGroup s dn t tid ty iv).data = s.data ∧ (createLinkGroup s dn t tid ty iv).frames = s.frames) ∧
    (createLinkGroup s dn t tid ty iv).g.getAttr s.g.nextKey "~kind" = none ∧
    (createLinkGroup s dn t tid ty iv).g.getAttr s.g.nextKey "data_object_type" = some ty := by
  have hne : dn ≠ s.g.nextKey := by
    intro e; rw [e, hfresh] at hdn; simp at hdn
  have heg : (s.g.freshId).1.ensureGroup dn "link" =
      (((s.g.freshId).1.newNode .group).1.addLink dn "link" s.g.nextKey, s.g.nextKey) :=
    ensureGroup_of_none (g := (s.g.freshId).1) hnone
  unfold createLinkGroup
  simp only [heg]
  -- abbreviations
  generalize hG2 : ((s.g.freshId).1.newNode .group).1.addLink dn "link" s.g.nextKey = G2
  have hG2links_nk : G2.links s.g.nextKey = [] := by
    rw [← hG2, links_addLink_ne _ _ _ (Ne.symm hne), links_newNode]
    exact links_of_node?_none hfresh
  have hG2node_nk : (G2.node? s.g.nextKey).isSome := by
    rw [← hG2, node?_isSome_addLink, node?_isSome_newNode]; simp [nextKey_freshId]
  have hG2child : G2.child? dn "link" = some s.g.nextKey := by
    rw [← hG2]
    apply child?_addLink_self
    · rw [node?_isSome_newNode]; simp [node?_freshId, hdn]
    · rw [child?_newNode]; exact hnone
  generalize hG4 : (G2.setAttr s.g.nextKey "entity_id" (some (s.g.freshId).2)).setAttr s.g.nextKey
      "data_object_type" (some ty) = G4
  have hG4links : ∀ k, G4.links k = G2.links k := by
    intro k; rw [← hG4, links_setAttr, links_setAttr]
  have hG4child : ∀ k m, G4.child? k m = G2.child? k m := by
    intro k m; rw [← hG4, child?_setAttr, child?_setAttr]
  have hG4node_nk : (G4.node? s.g.nextKey).isSome := by
    rw [← hG4, node?_isSome_setAttr, node?_isSome_setAttr]; exact hG2node_nk
  have hhas : G4.hasChild s.g.nextKey tid = false := by
    rw [hasChild_false_iff, hG4links, hG2links_nk]; simp
  unfold createLinkIn
  simp only [hhas, Bool.false_eq_true, ↓reduceIte]
  refine ⟨?_, ?_, look_put_self _ _ _, ?_, ?_, ?_⟩
  · rw [child?_addLink_ne _ _ _ hne, hG4child]; exact hG2child
  · rw [links_addLink_self _ _ _ hG4node_nk, hG4links, hG2links_nk]; rfl
  · intro k m h1 h2
    rw [child?_addLink_ne _ _ _ h2, hG4child, ← hG2, child?_addLink_ne _ _ _ h1, child?_newNode]
    rfl
  · intro m hm
    rw [child?_addLink_ne _ _ _ hne, hG4child, ← hG2, child?_addLink_name_ne _ _ _ _ hm, child?_newNode]
    rfl
  · refine ⟨?_, by simp, ?_, ?_⟩
    · intro k a hk
      rw [getAttr_addLink, ← hG4, getAttr_setAttr_ne _ _ _ hk, getAttr_setAttr_ne _ _ _ hk, ← hG2,
        getAttr_addLink, getAttr_newNode]
      rfl
    · rw [getAttr_addLink, ← hG4, getAttr_setAttr_attr_ne _ _ _ _ (by decide),
        getAttr_setAttr_attr_ne _ _ _ _ (by decide), ← hG2, getAttr_addLink, getAttr_newNode]
      exact getAttr_of_node?_none hfresh _
    · rw [getAttr_addLink, ← hG4]
      apply getAttr_setAttr_self
      rw [node?_isSome_setAttr]; exact hG2node_nk

theorem node?_none_of_isSome_eq {g g' : Graph} {k : Nat} (h : (g'.node? k).isSome = (g.node? k).isSome)
    (hn : g.node? k = none) : g'.node? k = none := by
  rw [hn] at h
  cases h' : g'.node? k <;> simp_all

/-- what `attachLink` (the common tail of `link_data_array` / `link_data_frame`) leaves behind -/
theorem attachLink_spec (s : DState) (dn t : Nat) (tid ty : String) (iv : List Int)
    (hk : kindOf s.g dn = kDimRange ∨ kindOf s.g dn = kDimSet)
    (hfresh : s.g.node? s.g.nextKey = none) :
    LinkedAs (attachLink s dn t tid ty iv) dn t ty iv ∧
      (kindOf s.g dn = kDimRange → (attachLink s dn t tid ty iv).g.hasChild dn "ticks" = false) ∧
      kindOf (attachLink s dn t tid ty iv).g dn = kindOf s.g dn ∧
      (∀ k m, k ≠ dn → k ≠ s.g.nextKey → (attachLink s dn t tid ty iv).g.child? k m = s.g.child? k m) ∧
      (∀ k, k ≠ s.g.nextKey → kindOf (attachLink s dn t tid ty iv).g k = kindOf s.g k) ∧
      kindOf (attachLink s dn t tid ty iv).g s.g.nextKey = "" ∧
      (attachLink s dn t tid ty iv).data = s.data ∧ (attachLink s dn t tid ty iv).frames = s.frames := by
  have hdnnode : (s.g.node? dn).isSome := by
    apply kindOf_ne_empty_node
    rcases hk with e | e <;> rw [e] <;> decide
  have hdnnk : dn ≠ s.g.nextKey := by
    intro e; rw [e, hfresh] at hdnnode; simp at hdnnode
  unfold attachLink
  dsimp only
  -- the graph after the old link was removed
  generalize hg1 : (if hasLink s.g dn = true then s.g.delLink dn "link" else s.g) = g1
  have hg1none : g1.child? dn "link" = none := by
    rw [← hg1]
    by_cases hl : hasLink s.g dn = true
    · simp only [hl, ↓reduceIte]; exact child?_delLink_self _ _ _
    · have : s.g.hasChild dn "link" = false := by simpa [hasLink] using hl
      simp only [hl]
      rw [hasChild_eq] at this
      cases hc : s.g.child? dn "link" <;> simp_all
  have hg1nk : g1.nextKey = s.g.nextKey := by
    rw [← hg1]; split <;> rfl
  have hg1node : ∀ k, (g1.node? k).isSome = (s.g.node? k).isSome := by
    intro k; rw [← hg1]; split
    · exact node?_isSome_delLink _ _ _ _
    · rfl
  have hg1attr : ∀ k a, g1.getAttr k a = s.g.getAttr k a := by
    intro k a; rw [← hg1]; split
    · exact getAttr_delLink _ _ _ _ _
    · rfl
  have hg1child_ne : ∀ k m, k ≠ dn → g1.child? k m = s.g.child? k m := by
    intro k m hkne; rw [← hg1]; split
    · exact child?_delLink_ne _ _ hkne _
    · rfl
  have hfresh1 : g1.node? g1.nextKey = none := by
    rw [hg1nk]; exact node?_none_of_isSome_eq (hg1node _) hfresh
  obtain ⟨c1, c2, c3, c4, _, c6, ⟨c7, c7'⟩, c8, c9⟩ :=
    createLinkGroup_spec { s with g := g1 } dn t tid ty iv (by rw [hg1node]; exact hdnnode) hg1none hfresh1
  simp only [hg1nk] at c1 c2 c3 c4 c6 c8 c9
  generalize hs1 : createLinkGroup { s with g := g1 } dn t tid ty iv = s1 at c1 c2 c3 c4 c6 c7 c7' c8 c9 ⊢
  have hkind1 : kindOf s1.g dn = kindOf s.g dn := by
    unfold kindOf; rw [c6 dn _ hdnnk, hg1attr]
  by_cases hfin : (kindOf s.g dn == kDimRange && s1.g.hasChild dn "ticks") = true
  · simp only [hfin, ↓reduceIte]
    refine ⟨⟨s.g.nextKey, tid, ?_, ?_, c3, ?_⟩, ?_, ?_, ?_, ?_, ?_, c7, c7'⟩
    · show (s1.g.delLink dn "ticks").child? dn "link" = _
      rw [child?_delLink_name_ne _ _ _ (by decide)]; exact c1
    · show ((s1.g.delLink dn "ticks").links s.g.nextKey)[0]? = _
      rw [links_delLink_ne _ _ (Ne.symm hdnnk), c2]; rfl
    · show (s1.g.delLink dn "ticks").getAttr s.g.nextKey "data_object_type" = _
      rw [getAttr_delLink]; exact c9
    · intro _
      show (s1.g.delLink dn "ticks").hasChild dn "ticks" = false
      rw [hasChild_eq, child?_delLink_self]; rfl
    · show kindOf (s1.g.delLink dn "ticks") dn = _
      unfold kindOf; rw [getAttr_delLink]; exact hkind1
    · intro k m h1 h2
      show (s1.g.delLink dn "ticks").child? k m = _
      rw [child?_delLink_ne _ _ h1, c4 k m h1 h2, hg1child_ne k m h1]
    · intro k h2
      show kindOf (s1.g.delLink dn "ticks") k = _
      unfold kindOf; rw [getAttr_delLink, c6 k _ h2, hg1attr]
    · show kindOf (s1.g.delLink dn "ticks") s.g.nextKey = _
      unfold kindOf; rw [getAttr_delLink, c8]; rfl
  · simp only [hfin, Bool.false_eq_true, ↓reduceIte]
    refine ⟨⟨s.g.nextKey, tid, c1, by rw [c2]; rfl, c3, c9⟩, ?_, hkind1, ?_, ?_, ?_, c7, c7'⟩
    · intro hr
      rw [hr] at hfin
      simpa using hfin
    · intro k m h1 h2
      rw [c4 k m h1 h2, hg1child_ne k m h1]
    · intro k h2
      unfold kindOf; rw [c6 k _ h2, hg1attr]
    · unfold kindOf; rw [c8]; rfl

/-- what an accepted `link_data_array` leaves behind -/
theorem linkDataArray_linked {s s' : DState} {p : Path} {i t dn : Nat} {iv : List Int}
    (h : linkDataArray s p i t iv = .ok s') (hdn : dimAt s p i = .ok dn)
    (hk : kindOf s.g dn = kDimRange ∨ kindOf s.g dn = kDimSet)
    (hfresh : s.g.node? s.g.nextKey = none) :
    Linked s' dn t iv ∧ checkIndex iv = true ∧
      (∃ d, dataOf s t = some d ∧ d.shape.length = iv.length ∧ dataOf s' t = some d) ∧
      (kindOf s.g dn = kDimRange → s'.g.hasChild dn "ticks" = false) ∧
      kindOf s'.g dn = kindOf s.g dn ∧
      (∀ k m, k ≠ dn → k ≠ s.g.nextKey → s'.g.child? k m = s.g.child? k m) ∧
      (∀ k, k ≠ s.g.nextKey → kindOf s'.g k = kindOf s.g k) ∧
      kindOf s'.g s.g.nextKey = "" := by
  unfold linkDataArray at h
  simp only [hdn] at h
  have hns : (kindOf s.g dn == kDimSample) = false := by
    rcases hk with e | e <;> rw [e] <;> decide
  simp only [hns, Bool.false_eq_true, ↓reduceIte] at h
  have hkt : kindOf s.g t = "data_array" := Classical.byContradiction fun hc => by simp [hc] at h
  simp only [hkt, bne_self_eq_false, Bool.false_eq_true, ↓reduceIte] at h
  cases hd : dataOf s t with
  | none => simp [hd] at h
  | some d =>
  cases hid : s.g.entityId t with
  | none => simp [hd, hid] at h
  | some tid =>
  simp only [hd, hid] at h
  have hrank : d.shape.length = iv.length := Classical.byContradiction fun hc => by simp [hc] at h
  have hci : checkIndex iv = true := Classical.byContradiction fun hc => by simp [hrank, hc] at h
  simp only [hrank, hci, bne_self_eq_false, Bool.not_true, Bool.false_eq_true, ↓reduceIte] at h
  have hs' := (Except.ok.inj h).symm
  subst hs'
  have htnode : (s.g.node? t).isSome := by
    apply kindOf_ne_empty_node; rw [hkt]; decide
  have htdn : t ≠ dn := by
    intro e; rw [e] at hkt
    rcases hk with e' | e' <;> rw [e'] at hkt <;> revert hkt <;> decide
  have htnk : t ≠ s.g.nextKey := by
    intro e; rw [e, hfresh] at htnode; simp at htnode
  obtain ⟨a1, a2, a3, a4, a5, a6, a7, _⟩ := attachLink_spec s dn t tid "DataArray" iv hk hfresh
  refine ⟨a1, hci, ⟨d, rfl, hrank, ?_⟩, a2, a3, a4, a5, a6⟩
  unfold dataOf at hd ⊢
  rw [a4 t "data" htdn htnk, a7]
  exact hd

/-- what an accepted `link_data_frame` leaves behind: the descriptor is linked to the frame node `t`
with the one-element index `[c]`, `c` a column of the frame; the frame's content is untouched -/
theorem linkDataFrame_linked {s s' : DState} {p : Path} {i t dn : Nat} {c : Int}
    (h : linkDataFrame s p i t c = .ok s') (hdn : dimAt s p i = .ok dn)
    (hk : kindOf s.g dn = kDimRange ∨ kindOf s.g dn = kDimSet)
    (hfresh : s.g.node? s.g.nextKey = none) :
    LinkedAs s' dn t "DataFrame" [c] ∧
      (∃ fd, frameOf s t = some fd ∧ 0 ≤ c ∧ c.toNat < fd.cols.length ∧ frameOf s' t = some fd) ∧
      (kindOf s.g dn = kDimRange → s'.g.hasChild dn "ticks" = false) ∧
      kindOf s'.g dn = kindOf s.g dn ∧
      (∀ k m, k ≠ dn → k ≠ s.g.nextKey → s'.g.child? k m = s.g.child? k m) ∧
      (∀ k, k ≠ s.g.nextKey → kindOf s'.g k = kindOf s.g k) ∧
      kindOf s'.g s.g.nextKey = "" := by
  unfold linkDataFrame at h
  simp only [hdn] at h
  have hns : (kindOf s.g dn == kDimSample) = false := by
    rcases hk with e | e <;> rw [e] <;> decide
  simp only [hns, Bool.false_eq_true, ↓reduceIte] at h
  have hc0 : 0 ≤ c := Classical.byContradiction fun hc => by
    have : c < 0 := Int.lt_of_not_ge hc
    simp [this] at h
  have hc0' : ¬ c < 0 := Int.not_lt.mpr hc0
  simp only [hc0', ↓reduceIte] at h
  have hkt : kindOf s.g t = "data_frame" := Classical.byContradiction fun hc => by simp [hc] at h
  simp only [hkt, bne_self_eq_false, Bool.false_eq_true, ↓reduceIte] at h
  cases hf : frameOf s t with
  | none => simp [hf] at h
  | some fd =>
  cases hid : s.g.entityId t with
  | none => simp [hf, hid] at h
  | some tid =>
  simp only [hf, hid] at h
  have hc1 : c < (fd.cols.length : Int) := Classical.byContradiction fun hc => by
    have : (fd.cols.length : Int) ≤ c := Int.le_of_not_gt hc
    simp [this] at h
  have hc1' : ¬ c ≥ (fd.cols.length : Int) := Int.not_le.mpr hc1
  simp only [hc1', ↓reduceIte] at h
  have hs' := (Except.ok.inj h).symm
  subst hs'
  have htnode : (s.g.node? t).isSome := by
    apply kindOf_ne_empty_node; rw [hkt]; decide
  have htdn : t ≠ dn := by
    intro e; rw [e] at hkt
    rcases hk with e' | e' <;> rw [e'] at hkt <;> revert hkt <;> decide
  have htnk : t ≠ s.g.nextKey := by
    intro e; rw [e, hfresh] at htnode; simp at htnode
  obtain ⟨a1, a2, a3, a4, a5, a6, _, a8⟩ := attachLink_spec s dn t tid "DataFrame" [c] hk hfresh
  refine ⟨a1, ⟨fd, rfl, hc0, ?_, ?_⟩, a2, a3, a4, a5, a6⟩
  · omega
  · unfold frameOf at hf ⊢
    rw [a4 t "data" htdn htnk, a8]
    exact hf

/-- what an accepted `dim.ticks = ts` leaves behind -/
theorem setTicks_spec {s s' : DState} {p : Path} {i dn : Nat} {ts : List Rat}
    (h : setTicks s p i ts = .ok s') (hdn : dimAt s p i = .ok dn) :
    kindOf s.g dn = kDimRange ∧ descending ts = false ∧ hasLink s'.g dn = false ∧
      s'.g.hasChild dn "ticks" = true ∧ readTicks s' dn = .ok ts ∧
      (∀ k m, k ≠ dn → s'.g.child? k m = s.g.child? k m) ∧ (∀ k, kindOf s'.g k = kindOf s.g k) := by
  unfold setTicks at h
  simp only [hdn] at h
  have hkr : kindOf s.g dn = kDimRange := Classical.byContradiction fun hc => by simp [hc] at h
  have hasc : descending ts = false := by
    cases hdsc : descending ts with
    | false => rfl
    | true => simp [hkr, hdsc] at h
  have hne : ts.isEmpty = false := by
    cases he : ts.isEmpty with
    | false => rfl
    | true => simp [hkr, hasc, he] at h
  simp only [hkr, bne_self_eq_false, Bool.false_eq_true, ↓reduceIte, hasc, hne] at h
  have hdnnode : (s.g.node? dn).isSome := by
    apply kindOf_ne_empty_node; rw [hkr]; decide
  generalize hg1 : (if hasLink s.g dn = true then s.g.delLink dn "link" else s.g) = g1 at h
  have hg1none : g1.child? dn "link" = none := by
    rw [← hg1]
    by_cases hl : hasLink s.g dn = true
    · simp only [hl, ↓reduceIte]; exact child?_delLink_self _ _ _
    · have : s.g.hasChild dn "link" = false := by simpa [hasLink] using hl
      simp only [hl]
      rw [hasChild_eq] at this
      cases hc : s.g.child? dn "link" <;> simp_all
  have hg1node : (g1.node? dn).isSome := by
    rw [← hg1]; split
    · rw [node?_isSome_delLink]; exact hdnnode
    · exact hdnnode
  have hg1child_ne : ∀ k m, k ≠ dn → g1.child? k m = s.g.child? k m := by
    intro k m hkne; rw [← hg1]; split
    · exact child?_delLink_ne _ _ hkne _
    · rfl
  have hg1attr : ∀ k a, g1.getAttr k a = s.g.getAttr k a := by
    intro k a; rw [← hg1]; split
    · exact getAttr_delLink _ _ _ _ _
    · rfl
  have hs' := (Except.ok.inj h).symm
  subst hs'
  refine ⟨hkr, hasc, ?_⟩
  unfold ensureDataset
  cases hch : g1.child? dn "ticks" with
  | some k =>
    simp only
    refine ⟨by simp [hasLink, hasChild_eq, hg1none], by simp [hasChild_eq, hch], ?_, hg1child_ne, ?_⟩
    · simp [readTicks, hasLink, hasChild_eq, hg1none, hch, look_put_self]
    · intro k'; unfold kindOf; rw [hg1attr]
  | none =>
    have hc1 : ((g1.newNode .dataset).1.addLink dn "ticks" (g1.newNode .dataset).2).child? dn "link" = none := by
      rw [child?_addLink_name_ne _ _ _ _ (by decide), child?_newNode]; exact hg1none
    have hc2 : ((g1.newNode .dataset).1.addLink dn "ticks" (g1.newNode .dataset).2).child? dn "ticks"
        = some (g1.newNode .dataset).2 := by
      apply child?_addLink_self
      · rw [node?_isSome_newNode]; simp [hg1node]
      · rw [child?_newNode]; exact hch
    simp only
    refine ⟨by simp [hasLink, hasChild_eq, hc1], by simp [hasChild_eq, hc2], ?_, ?_, ?_⟩
    · simp [readTicks, hasLink, hasChild_eq, hc1, hc2, look_put_self]
    · intro k m hk
      rw [child?_addLink_ne _ _ _ hk, child?_newNode]; exact hg1child_ne k m hk
    · intro k'; unfold kindOf; rw [getAttr_addLink, getAttr_newNode, hg1attr]

/-! ### explicit ticks and a link exclude each other -/

/-- no range dimension carries both a `ticks` dataset and a `link` group -/
def Excl (s : DState) : Prop :=
  ∀ dn, kindOf s.g dn = kDimRange → ¬ (s.g.hasChild dn "ticks" = true ∧ hasLink s.g dn = true)

theorem excl_of_frame {s s' : DState} (dn : Nat) (h : Excl s)
    (hdn : kindOf s'.g dn = kDimRange → ¬ (s'.g.hasChild dn "ticks" = true ∧ hasLink s'.g dn = true))
    (hframe : ∀ k, k ≠ dn → kindOf s'.g k = kDimRange →
      kindOf s.g k = kDimRange ∧ s'.g.child? k "ticks" = s.g.child? k "ticks" ∧
        s'.g.child? k "link" = s.g.child? k "link") : Excl s' := by
  intro k hk
  by_cases hkd : k = dn
  · rw [hkd] at hk ⊢; exact hdn hk
  · obtain ⟨h1, h2, h3⟩ := hframe k hkd hk
    have := h k h1
    simpa [hasLink, hasChild_eq, h2, h3] using this

theorem excl_setTicks {s s' : DState} {p : Path} {i : Nat} {ts : List Rat} (hex : Excl s)
    (h : setTicks s p i ts = .ok s') : Excl s' := by
  cases hdn : dimAt s p i with
  | error e => simp [setTicks, hdn] at h
  | ok dn =>
    obtain ⟨_, _, h3, _, _, h6, h7⟩ := setTicks_spec h hdn
    apply excl_of_frame dn hex
    · intro _; rw [h3]; simp
    · intro k hk hkr
      exact ⟨by rw [← h7]; exact hkr, h6 k _ hk, h6 k _ hk⟩

/-- (the descriptor addressed is a range, set or sampled dimension — the three kinds there are) -/
theorem excl_linkDataArray {s s' : DState} {p : Path} {i t : Nat} {iv : List Int} (hex : Excl s)
    (hfresh : s.g.node? s.g.nextKey = none)
    (hkinds : ∀ dn, dimAt s p i = .ok dn →
      kindOf s.g dn = kDimRange ∨ kindOf s.g dn = kDimSet ∨ kindOf s.g dn = kDimSample)
    (h : linkDataArray s p i t iv = .ok s') : Excl s' := by
  cases hdn : dimAt s p i with
  | error e => simp [linkDataArray, hdn] at h
  | ok dn =>
    have hk : kindOf s.g dn = kDimRange ∨ kindOf s.g dn = kDimSet := by
      rcases hkinds dn hdn with e | e | e
      · exact Or.inl e
      · exact Or.inr e
      · simp [linkDataArray, hdn, e] at h
    obtain ⟨_, _, _, h4, h5, h6, h7, h8⟩ := linkDataArray_linked h hdn hk hfresh
    apply excl_of_frame dn hex
    · intro hr
      rw [h5] at hr
      rw [h4 hr]; simp
    · intro k hk hk'
      have hknk : k ≠ s.g.nextKey := by
        intro e; rw [e, h8] at hk'; revert hk'; decide
      exact ⟨by rw [← h7 k hknk]; exact hk', h6 k _ hk hknk, h6 k _ hk hknk⟩

/-- (the descriptor addressed is a range, set or sampled dimension — the three kinds there are) -/
theorem excl_linkDataFrame {s s' : DState} {p : Path} {i t : Nat} {c : Int} (hex : Excl s)
    (hfresh : s.g.node? s.g.nextKey = none)
    (hkinds : ∀ dn, dimAt s p i = .ok dn →
      kindOf s.g dn = kDimRange ∨ kindOf s.g dn = kDimSet ∨ kindOf s.g dn = kDimSample)
    (h : linkDataFrame s p i t c = .ok s') : Excl s' := by
  cases hdn : dimAt s p i with
  | error e => simp [linkDataFrame, hdn] at h
  | ok dn =>
    have hk : kindOf s.g dn = kDimRange ∨ kindOf s.g dn = kDimSet := by
      rcases hkinds dn hdn with e | e | e
      · exact Or.inl e
      · exact Or.inr e
      · simp [linkDataFrame, hdn, e] at h
    obtain ⟨_, _, h4, h5, h6, h7, h8⟩ := linkDataFrame_linked h hdn hk hfresh
    apply excl_of_frame dn hex
    · intro hr
      rw [h5] at hr
      rw [h4 hr]; simp
    · intro k hk hk'
      have hknk : k ≠ s.g.nextKey := by
        intro e; rw [e, h8] at hk'; revert hk'; decide
      exact ⟨by rw [← h7 k hknk]; exact hk', h6 k _ hk hknk, h6 k _ hk hknk⟩

/-! ### data frames -/

theorem frameAt_ok {s : DState} {q : Path} {f : Nat} (h : frameAt s q = .ok f) :
    ∃ l, resolve s.g rootLoc q = some l ∧ l.key = f ∧ kindOf s.g f = "data_frame" := by
  unfold frameAt at h
  cases hr : resolve s.g rootLoc q with
  | none => simp [hr] at h
  | some l =>
    simp only [hr] at h
    split at h
    · next hk => exact ⟨l, rfl, Except.ok.inj h, by rw [← Except.ok.inj h]; simpa using hk⟩
    · cases h

/-- the rows after `write_column(vals, index=c)` -/
def setColumn (fd : FrameData) (c : Nat) (vals : List Rat) : FrameData :=
  { fd with rows := (fd.rows.zip vals).map fun rv => rv.1.set c rv.2 }

theorem writeColumn_ok {s s' : DState} {q : Path} {c : Nat} {vals : List Rat} (h : writeColumn s q c vals = .ok s') :
    ∃ f ds fd, frameAt s q = .ok f ∧ s.g.child? f "data" = some ds ∧ look s.frames ds = some fd ∧
      vals.length = fd.rows.length ∧ c < fd.cols.length ∧
      s' = { s with frames := put s.frames ds (setColumn fd c vals) } := by
  unfold writeColumn at h
  cases hf : frameAt s q with
  | error e => simp [hf] at h
  | ok f =>
    simp only [hf] at h
    cases hds : s.g.child? f "data" with
    | none => simp [hds] at h
    | some ds =>
      simp only [hds] at h
      cases hd : look s.frames ds with
      | none => simp [hd] at h
      | some fd =>
        simp only [hd] at h
        split at h
        · cases h
        · next h1 =>
          split at h
          · cases h
          · next h2 =>
            refine ⟨f, ds, fd, rfl, hds, hd, by simpa using h1, by omega, (Except.ok.inj h).symm⟩

theorem excl_writeColumn {s s' : DState} {q : Path} {c : Nat} {vals : List Rat} (hex : Excl s)
    (h : writeColumn s q c vals = .ok s') : Excl s' := by
  obtain ⟨_, _, _, _, _, _, _, _, hs'⟩ := writeColumn_ok h
  subst hs'
  exact hex

/-- the written column reads back as the values written (every row has a cell in column `c`) -/
theorem column_setColumn (fd : FrameData) (c : Nat) (vals : List Rat) (hl : vals.length = fd.rows.length)
    (hc : ∀ r ∈ fd.rows, c < r.length) : column (setColumn fd c vals) c = .ok vals := by
  unfold column setColumn
  simp only
  generalize fd.rows = rows at hl hc
  induction rows generalizing vals with
  | nil =>
    cases vals with
    | nil => rfl
    | cons v vs => simp at hl
  | cons r rs ih =>
    cases vals with
    | nil => simp at hl
    | cons v vs =>
      have hr : (r.set c v)[c]? = some v := by
        rw [List.getElem?_set_self]
        exact hc r (by simp)
      have := ih vs (by simpa using hl) (fun r' hr' => hc r' (by simp [hr']))
      simp only [List.zip_cons_cons, List.map_cons, List.mapM_cons, hr, this]
      rfl

theorem excl_writeData {s s' : DState} {q : Path} {vals : List Rat} (hex : Excl s)
    (h : writeData s q vals = .ok s') : Excl s' := by
  obtain ⟨_, _, _, _, _, _, hs'⟩ := writeData_ok h
  subst hs'
  exact hex

theorem excl_removeLink {s s' : DState} {p : Path} {i : Nat} (hex : Excl s)
    (h : removeLink s p i = .ok s') : Excl s' := by
  unfold removeLink at h
  cases hdn : dimAt s p i with
  | error e => simp [hdn] at h
  | ok dn =>
    simp only [hdn] at h
    split at h
    · cases h
    · have hs' := (Except.ok.inj h).symm
      subst hs'
      apply excl_of_frame dn hex
      · intro _ hb
        have : hasLink (s.g.delLink dn "link") dn = false := by
          simp [hasLink, hasChild_eq, child?_delLink_self]
        rw [this] at hb; cases hb.2
      · intro k hk hk'
        refine ⟨?_, child?_delLink_ne _ _ hk _, child?_delLink_ne _ _ hk _⟩
        unfold kindOf at hk' ⊢
        rw [getAttr_delLink] at hk'; exact hk'

/-- an operation that changes no child table and no kind keeps the invariant -/
theorem excl_of_same {s s' : DState} (h : Excl s) (hc : ∀ k m, s'.g.child? k m = s.g.child? k m)
    (hk : ∀ k, kindOf s'.g k = kindOf s.g k) : Excl s' := by
  intro k hkr
  have := h k (by rw [← hk]; exact hkr)
  simpa [hasLink, hasChild_eq, hc] using this

/-- an accepted `dim.unit = v` / `dim.label = v` either writes one attribute of a node (the descriptor or
the linked array) or rewrites the `units` of the linked frame; the graph's links and kinds stay -/
theorem setDimAttr_graph {s s' : DState} {p : Path} {i : Nat} {attr : String} {v : Option String}
    (h : setDimAttr s p i attr v = .ok s') :
    (attr = "unit" ∨ attr = "label") ∧ (s'.g = s.g ∨ ∃ x, s'.g = s.g.setAttr x attr v) := by
  unfold setDimAttr at h
  cases hdn : dimAt s p i with
  | error e => simp [hdn] at h
  | ok dn =>
    simp only [hdn] at h
    have hattr : attr = "unit" ∨ attr = "label" := by
      by_cases h1 : attr = "unit"
      · exact Or.inl h1
      · by_cases h2 : attr = "label"
        · exact Or.inr h2
        · simp [h1, h2] at h
    refine ⟨hattr, ?_⟩
    split at h
    · cases h
    · split at h
      · cases h
      · split at h
        · split at h
          · split at h
            · split at h
              · cases h
              · split at h
                · split at h
                  · have hs' := (Except.ok.inj h).symm; subst hs'; exact Or.inl rfl
                  · cases h
                · cases h
            · have hs' := (Except.ok.inj h).symm; subst hs'; exact Or.inr ⟨_, rfl⟩
          · cases h
        · have hs' := (Except.ok.inj h).symm; subst hs'; exact Or.inr ⟨_, rfl⟩

theorem excl_setDimAttr {s s' : DState} {p : Path} {i : Nat} {attr : String} {v : Option String}
    (hex : Excl s) (h : setDimAttr s p i attr v = .ok s') : Excl s' := by
  obtain ⟨hattr, hg⟩ := setDimAttr_graph h
  have hne : "~kind" ≠ attr := by rcases hattr with e | e <;> rw [e] <;> decide
  rcases hg with hg | ⟨x, hg⟩
  · apply excl_of_same hex
    · intro k m; rw [hg]
    · intro k; rw [hg]
  · apply excl_of_same hex
    · intro k m; rw [hg]; exact child?_setAttr _ _ _ _ _ _
    · intro k; rw [hg]; unfold kindOf; rw [getAttr_setAttr_attr_ne _ _ _ _ hne]

theorem excl_setUnits {s s' : DState} {q : Path} {units : List (Option String)} (hex : Excl s)
    (h : setUnits s q units = .ok s') : Excl s' := by
  obtain ⟨_, _, _, _, _, _, _, hs'⟩ := setUnits_ok h
  subst hs'
  exact hex

theorem excl_setLabels {s s' : DState} {p : Path} {i : Nat} {ls : List String}
    (hex : Excl s) (h : setLabels s p i ls = .ok s') : Excl s' := by
  unfold setLabels at h
  cases hdn : dimAt s p i with
  | error e => simp [hdn] at h
  | ok dn =>
    simp only [hdn] at h
    have hks : kindOf s.g dn = kDimSet := Classical.byContradiction fun hc => by simp [hc] at h
    simp only [hks, bne_self_eq_false, Bool.false_eq_true, ↓reduceIte] at h
    split at h
    · cases h
    · have hs' := (Except.ok.inj h).symm
      subst hs'
      have hkind : ∀ k, kindOf (ensureDataset s.g dn "labels").1 k = kindOf s.g k := by
        intro k
        unfold ensureDataset kindOf
        cases s.g.child? dn "labels" with
        | some c => rfl
        | none => simp only; rw [getAttr_addLink, getAttr_newNode]
      apply excl_of_frame dn hex
      · intro hr
        rw [hkind, hks] at hr
        exact absurd hr (by decide)
      · intro k hk hk'
        refine ⟨by rw [← hkind]; exact hk', ?_, ?_⟩ <;>
        · unfold ensureDataset
          cases s.g.child? dn "labels" with
          | some c => rfl
          | none => simp only; rw [child?_addLink_ne _ _ _ hk, child?_newNode]

end Nix.DimLink.Lemmas
