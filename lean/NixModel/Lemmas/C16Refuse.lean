import NixModel.Lemmas.C16Read
/-! Lemmas for C16: every refusal class the property lists *is* refused (and, by the `_refused` lemmas of C16Rw,
leaves the table unchanged): wrong length, unknown column, out-of-range row / column, duplicate column name,
unordered or repeated row index, a cell the column's type refuses. -/
namespace Nix.Frame

/-- a refused operation that leaves the frame unchanged -/
theorem refused_of_ne_none {p : Frame × Option Err} {f : Frame}
    (hun : ∀ e, p.2 = some e → p.1 = f) (hne : p.2 ≠ none) : ∃ e, p = (f, some e) := by
  cases h : p.2 with
  | none => exact absurd h hne
  | some e => exact ⟨e, Prod.ext (hun e h) h⟩

-- ---------------------------------------------------------------------------------------
-- inversion of accepted writes

theorem appendRows_ok_inv {f f' : Frame} {rows} (h : appendRows f rows = (f', none)) :
    ∃ rs, convRows f.types rows = .ok rs ∧ f' = { f with rows := f.rows ++ rs } := by
  unfold appendRows at h
  split at h
  · simp at h
  · rename_i rs hrs
    injection h with h1 _
    exact ⟨rs, hrs, h1.symm⟩

theorem writeRows_ok_inv {f f' : Frame} {rows idx} (h : writeRows f rows idx = (f', none)) :
    ∃ rs ks, rows ≠ [] ∧ rows.length = idx.length ∧ ¬ maxInt idx > (f.rows.length : Int) - 1 ∧
      convRows f.types rows = .ok rs ∧ selectList f.rows.length idx .typeError = .ok ks ∧
      f' = { f with rows := setMany f.rows ks rs } := by
  unfold writeRows at h
  split at h
  · simp at h
  · rename_i hne
    split at h
    · simp at h
    · rename_i hlen
      split at h
      · simp at h
      · rename_i hmax
        split at h
        · simp at h
        · rename_i rs hrs
          split at h
          · simp at h
          · rename_i ks hks
            injection h with h1 _
            exact ⟨rs, ks, by intro e; exact hne e, by simpa using hlen, hmax, hrs, hks, h1.symm⟩

-- ---------------------------------------------------------------------------------------
-- wrong length

theorem convRows_err_of_badlen : ∀ {ts : List ColType} {rows : List (List Val)},
    (∃ r ∈ rows, r.length ≠ ts.length) → ∃ e, convRows ts rows = .error e
  | ts, [], h => by simp at h
  | ts, r :: rows, h => by
    simp only [convRows]
    cases hr : convRow ts r with
    | error e => exact ⟨e, rfl⟩
    | ok w =>
      have hlen : r.length = ts.length := by
        unfold convRow at hr
        split at hr
        · cases hr
        · rename_i hh; simpa using hh
      obtain ⟨r', hr', hb⟩ := h
      rcases List.mem_cons.1 hr' with rfl | hr'
      · exact absurd hlen hb
      · obtain ⟨e, he⟩ := convRows_err_of_badlen (ts := ts) ⟨r', hr', hb⟩
        exact ⟨e, by simp [he]⟩

theorem types_length (f : Frame) : f.types.length = f.cols.length := by simp [Frame.types]

theorem refuse_appendRows_rowLength {f : Frame} {rows : List (List Val)}
    (h : ∃ r ∈ rows, r.length ≠ f.cols.length) : ∃ e, appendRows f rows = (f, some e) := by
  obtain ⟨e, he⟩ := convRows_err_of_badlen (ts := f.types) (by simpa [types_length] using h)
  exact ⟨e, by simp [appendRows, he]⟩

theorem refuse_writeRows_rowLength {f : Frame} {rows : List (List Val)} {idx : List Int}
    (h : ∃ r ∈ rows, r.length ≠ f.cols.length) : ∃ e, writeRows f rows idx = (f, some e) := by
  refine refused_of_ne_none (fun e he => writeRows_refused he) ?_
  intro hn
  obtain ⟨rs, ks, _, _, _, hrs, _, _⟩ := writeRows_ok_inv (f' := (writeRows f rows idx).1) (Prod.ext rfl hn)
  obtain ⟨e, he⟩ := convRows_err_of_badlen (ts := f.types) (by simpa [types_length] using h)
  rw [he] at hrs
  cases hrs

theorem refuse_writeRows_count {f : Frame} {rows : List (List Val)} {idx : List Int}
    (h : rows.length ≠ idx.length) : writeRows f rows idx = (f, some .indexError) := by
  unfold writeRows
  split
  · rfl
  · simp [h]

theorem refuse_appendColumn_length {f : Frame} {col : List Val} {name : String} {dt : Option ColType}
    (h : col.length ≠ f.rows.length) : appendColumn f col name dt = (f, some .valueError) := by
  simp [appendColumn, h]

theorem refuse_writeColumn_length {f : Frame} {col : List Val} {index : Option Int} {name : Option String}
    (h : col.length ≠ f.rows.length) : writeColumn f col index name = (f, some .valueError) := by
  simp [writeColumn, h]

theorem refuse_setUnits_length {f : Frame} {us : List (Option String)}
    (h : us.length ≠ f.cols.length) : setUnits f us = (f, some .valueError) := by
  simp [setUnits, h]

-- ---------------------------------------------------------------------------------------
-- out-of-range row, unordered / repeated row index

theorem normList_ok_all : ∀ {n : Nat} {idx : List Int} {ks : List Nat}, normList n idx = .ok ks →
    ∀ i ∈ idx, ∃ k, normIdx n i = some k
  | n, [], ks, _, i, hi => by simp at hi
  | n, j :: idx, ks, h, i, hi => by
    simp only [normList] at h
    split at h
    · cases h
    · rename_i k hk
      split at h
      · cases h
      · rename_i ks' hks'
        rcases List.mem_cons.1 hi with rfl | hi
        · exact ⟨k, hk⟩
        · exact normList_ok_all hks' i hi

theorem refuse_writeRows_oob {f : Frame} {rows : List (List Val)} {idx : List Int}
    (h : ∃ i ∈ idx, normIdx f.rows.length i = none) : ∃ e, writeRows f rows idx = (f, some e) := by
  refine refused_of_ne_none (fun e he => writeRows_refused he) ?_
  intro hn
  obtain ⟨rs, ks, _, _, _, _, hks, _⟩ := writeRows_ok_inv (f' := (writeRows f rows idx).1) (Prod.ext rfl hn)
  unfold selectList at hks
  split at hks
  · cases hks
  · rename_i ks' hks'
    obtain ⟨i, hi, hnone⟩ := h
    obtain ⟨k, hk⟩ := normList_ok_all hks' i hi
    rw [hnone] at hk
    cases hk

/-- an index list that is not strictly increasing after normalisation (unordered, or an index named twice,
    also as `i` and `i - n`) is refused -/
theorem refuse_writeRows_unordered {f : Frame} {rows : List (List Val)} {idx : List Int} {ks : List Nat}
    (hn : normList f.rows.length idx = .ok ks) (hi : increasing ks = false) :
    ∃ e, writeRows f rows idx = (f, some e) := by
  refine refused_of_ne_none (fun e he => writeRows_refused he) ?_
  intro hnone
  obtain ⟨rs, ks', _, _, _, _, hks, _⟩ := writeRows_ok_inv (f' := (writeRows f rows idx).1) (Prod.ext rfl hnone)
  simp [selectList, hn, hi] at hks

theorem refuse_writeCellPos_row {f : Frame} {cell : Val} {ri ci : Int}
    (h : normIdx f.rows.length ri = none) : writeCellPos f cell [ri, ci] = (f, some .indexError) := by
  simp [writeCellPos, h]

theorem refuse_writeCellName_row {f : Frame} {cell : Val} {name : String} {ri : Int}
    (h : normIdx f.rows.length ri = none) : writeCellName f cell name ri = (f, some .indexError) := by
  simp [writeCellName, h]

theorem refuse_readRow {f : Frame} {ri : Int} (h : normIdx f.rows.length ri = none) :
    readRow f ri = .error .indexError := by
  simp [readRow, h]

-- ---------------------------------------------------------------------------------------
-- unknown column / out-of-range column

theorem refuse_writeCellPos_col {f : Frame} {cell : Val} {ri ci : Int}
    (h : normIdx f.cols.length ci = none) : writeCellPos f cell [ri, ci] = (f, some .indexError) := by
  unfold writeCellPos
  simp only
  repeat' split
  all_goals first | rfl | simp_all

theorem refuse_writeCellName_unknown {f : Frame} {cell : Val} {name : String} {ri : Int}
    (h : findCol f.cols name = none) : ∃ e, writeCellName f cell name ri = (f, some e) := by
  unfold writeCellName
  repeat' split
  all_goals first | exact ⟨_, rfl⟩ | simp_all

theorem refuse_writeColumn_unknown {f : Frame} {col : List Val} {index : Option Int} {nm : String}
    (hl : col.length = f.rows.length) (hne : f.rows ≠ []) (h : findCol f.cols nm = none) :
    writeColumn f col index (some nm) = (f, some .valueError) := by
  cases hrows : f.rows with
  | nil => exact absurd hrows hne
  | cons r rs =>
    unfold writeColumn
    simp [hl, resolveColName, hrows, h]

theorem refuse_writeColumn_index {f : Frame} {col : List Val} {i : Int}
    (hl : col.length = f.rows.length) (h : normIdx f.cols.length i = none) :
    writeColumn f col (some i) none = (f, some .indexError) := by
  simp [writeColumn, hl, resolveColName, h]

theorem refuse_writeColumn_noaddr {f : Frame} {col : List Val} (hl : col.length = f.rows.length) :
    writeColumn f col none none = (f, some .valueError) := by
  simp [writeColumn, hl, resolveColName]

theorem refuse_readCellName_unknown {f : Frame} {name : String} {ri : Int}
    (h : findCol f.cols name = none) : ∃ e, readCellName f name ri = .error e := by
  unfold readCellName
  repeat' split
  all_goals first | exact ⟨_, rfl⟩ | simp_all

-- ---------------------------------------------------------------------------------------
-- duplicate column name

theorem normNamesFrom_append : ∀ (i : Nat) (cols : List (String × ColType)) (name : String) (t : ColType),
    name ≠ "" → normNamesFrom i (cols ++ [(name, t)]) = normNamesFrom i cols ++ [(name, t)]
  | i, [], name, t, h => by simp [normNamesFrom, h]
  | i, (n, t') :: rest, name, t, h => by
    simp [normNamesFrom, normNamesFrom_append (i + 1) rest name t h]

theorem mem_normNamesFrom : ∀ (i : Nat) (cols : List (String × ColType)) (name : String),
    name ≠ "" → name ∈ cols.map (·.1) → name ∈ (normNamesFrom i cols).map (·.1)
  | i, [], name, _, h => by simp at h
  | i, (n, t) :: rest, name, hne, h => by
    simp only [List.map_cons, List.mem_cons] at h
    simp only [normNamesFrom, List.map_cons, List.mem_cons]
    rcases h with rfl | h
    · left; simp [hne]
    · right; exact mem_normNamesFrom (i + 1) rest name hne h

theorem hasDup_append_mem : ∀ {l : List String} {x : String}, x ∈ l → hasDup (l ++ [x]) = true
  | [], x, h => by simp at h
  | y :: l, x, h => by
    simp only [List.cons_append, hasDup, Bool.or_eq_true]
    rcases List.mem_cons.1 h with rfl | h
    · left; simp
    · right; exact hasDup_append_mem h

theorem refuse_appendColumn_dup {f : Frame} {col : List Val} {name : String} {dt : Option ColType}
    (hm : name ∈ f.names) (hne : name ≠ "") : ∃ e, appendColumn f col name dt = (f, some e) := by
  refine refused_of_ne_none (fun e he => appendColumn_refused he) ?_
  intro hnone
  generalize hp : appendColumn f col name dt = p at hnone
  unfold appendColumn at hp
  simp only at hp
  repeat' split at hp
  all_goals subst hp
  all_goals try (simp at hnone; done)
  rename_i t _ _ cols' hd _ _ _
  unfold mkDtype at hd
  simp only at hd
  rw [normNamesFrom_append 0 f.cols name t hne] at hd
  simp only [List.map_append, List.map_cons, List.map_nil] at hd
  rw [hasDup_append_mem (mem_normNamesFrom 0 f.cols name hne hm)] at hd
  simp at hd

-- ---------------------------------------------------------------------------------------
-- a cell the column's type refuses

theorem refuse_writeCellPos_cell {f : Frame} {cell : Val} {ri ci : Int} {r c : Nat} {ct : String × ColType}
    {e : Err} (hr : normIdx f.rows.length ri = some r) (hc : normIdx f.cols.length ci = some c)
    (hct : f.cols[c]? = some ct) (he : conv ct.2 cell = .error e) :
    writeCellPos f cell [ri, ci] = (f, some e) := by
  have hlt := normIdx_lt hr
  have hrow : f.rows[r]? = some f.rows[r] := List.getElem?_eq_getElem hlt
  simp [writeCellPos, hr, hrow, hc, hct, he]

theorem refuse_writeCellName_cell {f : Frame} {cell : Val} {name : String} {ri : Int} {r c : Nat}
    {ct : String × ColType} {e : Err} (hr : normIdx f.rows.length ri = some r) (hc : findCol f.cols name = some c)
    (hct : f.cols[c]? = some ct) (he : conv ct.2 cell = .error e) :
    writeCellName f cell name ri = (f, some e) := by
  have hlt := normIdx_lt hr
  have hrow : f.rows[r]? = some f.rows[r] := List.getElem?_eq_getElem hlt
  simp [writeCellName, hr, hrow, hc, hct, he]

theorem writeColLoop_err_of_bad : ∀ {t : ColType} {c : Nat} {rows : List Row} {col : List Val},
    col.length = rows.length → (∃ v ∈ col, ∃ e, conv t v = .error e) → (writeColLoop t c rows col).2 ≠ none
  | t, c, [], [], _, h => by simp at h
  | t, c, [], _ :: _, hl, _ => by simp at hl
  | t, c, _ :: _, [], hl, _ => by simp at hl
  | t, c, r :: rows, v :: col, hl, h => by
    simp only [writeColLoop]
    split
    · simp
    · rename_i w hw
      obtain ⟨v', hv', e, he⟩ := h
      rcases List.mem_cons.1 hv' with rfl | hv'
      · rw [he] at hw; cases hw
      · exact writeColLoop_err_of_bad (by simpa using hl) ⟨v', hv', e, he⟩

/-- `write_column` with a cell the addressed column's type refuses is refused as a whole -/
theorem refuse_writeColumn_cell {f : Frame} {col : List Val} {index : Option Int} {name : Option String}
    {c : Nat} {ct : String × ColType} (hl : col.length = f.rows.length)
    (hc : colTarget f index name = some c) (hct : f.cols[c]? = some ct)
    (hbad : ∃ v ∈ col, ∃ e, conv ct.2 v = .error e) : ∃ e, writeColumn f col index name = (f, some e) := by
  refine refused_of_ne_none (fun e he => writeColumn_refused he) ?_
  have hne : f.rows ≠ [] := by
    intro hr
    obtain ⟨v, hv, _⟩ := hbad
    have : col = [] := List.eq_nil_of_length_eq_zero (by simp [hl, hr])
    simp [this] at hv
  have hloop := writeColLoop_err_of_bad (t := ct.2) (c := c) hl hbad
  unfold colTarget at hc
  split at hc
  · rename_i nm hnm
    cases hrows : f.rows with
    | nil => exact absurd hrows hne
    | cons r0 rs0 =>
      intro hnone
      unfold writeColumn at hnone
      simp only [hl, ne_eq, not_true_eq_false, if_false, hnm, hrows, hc, hct] at hnone
      rw [hrows] at hloop
      split at hnone
      · rename_i rows' hw
        rw [hw] at hloop
        exact hloop rfl
      · simp at hnone
  · cases hc

end Nix.Frame
