import NixModel.Py.Slice

/-!
Lemmas about the CPython stand-ins `PySlice.indices`, `rangeLen`, `progression`, `pyRange`.
-/
namespace Nix.Py

/-- a slice whose step is `None` or ≥ 1 -/
def PySlice.PosStep (s : PySlice) : Prop :=
  match s.step with
  | none => True
  | some k => k ≥ 1

instance (s : PySlice) : Decidable s.PosStep := by
  unfold PySlice.PosStep; cases s.step <;> infer_instance

theorem clampBound_pos (v : Int) (len : Nat) :
    0 ≤ clampBound v len 0 len ∧ clampBound v len 0 len ≤ len := by
  unfold clampBound
  split <;> split <;> omega

/-- in-range bounds are left alone -/
theorem clampBound_id (v : Int) (len : Nat) (h0 : 0 ≤ v) (h1 : v ≤ len) :
    clampBound v len 0 len = v := by
  unfold clampBound
  split <;> split <;> omega

def PySlice.stepOf (s : PySlice) : Int := match s.step with | none => 1 | some k => k
def PySlice.posStart (s : PySlice) (len : Nat) : Int :=
  match s.start with | none => 0 | some v => clampBound v len 0 len
def PySlice.posStop (s : PySlice) (len : Nat) : Int :=
  match s.stop with | none => (len : Int) | some v => clampBound v len 0 len

theorem stepOf_pos (s : PySlice) (h : s.PosStep) : s.stepOf ≥ 1 := by
  unfold PySlice.PosStep at h
  unfold PySlice.stepOf
  cases hs : s.step <;> simp [hs] at h ⊢
  exact h

theorem posStart_bounds (s : PySlice) (len : Nat) : 0 ≤ s.posStart len ∧ s.posStart len ≤ len := by
  unfold PySlice.posStart
  cases s.start with
  | none => simp
  | some v => exact clampBound_pos v len

theorem posStop_bounds (s : PySlice) (len : Nat) : 0 ≤ s.posStop len ∧ s.posStop len ≤ len := by
  unfold PySlice.posStop
  cases s.stop with
  | none => simp
  | some v => exact clampBound_pos v len

/-- positive step: the normalised triple is `(clamp start, clamp stop, step)` -/
theorem indices_pos_eq (s : PySlice) (len : Nat) (h : s.PosStep) :
    s.indices len = .ok (s.posStart len, s.posStop len, s.stepOf) := by
  have hk := stepOf_pos s h
  obtain ⟨st, sp, k⟩ := s
  unfold PySlice.stepOf at hk
  cases k with
  | none =>
    simp [PySlice.indices, PySlice.posStart, PySlice.posStop, PySlice.stepOf]
    cases st <;> cases sp <;> simp
  | some k =>
    simp at hk
    have hk0 : ¬ k = 0 := by omega
    have hkn : ¬ k < 0 := by omega
    simp [PySlice.indices, PySlice.posStart, PySlice.posStop, PySlice.stepOf, hk0, hkn]
    cases st <;> cases sp <;> simp

theorem indices_pos (s : PySlice) (len : Nat) (h : s.PosStep) :
    ∃ a b k, s.indices len = .ok (a, b, k) ∧ k ≥ 1 ∧ 0 ≤ a ∧ a ≤ len ∧ 0 ≤ b ∧ b ≤ len :=
  ⟨_, _, _, indices_pos_eq s len h, stepOf_pos s h, (posStart_bounds s len).1, (posStart_bounds s len).2,
    (posStop_bounds s len).1, (posStop_bounds s len).2⟩

/-- the only error of `slice.indices` is `ValueError` (step 0) -/
theorem indices_err (s : PySlice) (len : Nat) (e : Err) (h : s.indices len = .error e) :
    e = .valueError := by
  obtain ⟨st, sp, k⟩ := s
  cases k with
  | none => simp [PySlice.indices] at h
  | some k =>
    by_cases hk : k = 0
    · simp [PySlice.indices, hk] at h
      exact h.symm
    · simp [PySlice.indices, hk] at h

theorem indices_full (len : Nat) : PySlice.full.indices len = .ok (0, (len : Int), 1) := by
  simp [PySlice.indices, PySlice.full]

/-- `slice(a, b, k)` with in-range non-negative bounds and `k ≥ 1` is already normal -/
theorem indices_normal (a b k : Int) (len : Nat) (hk : k ≥ 1) (ha0 : 0 ≤ a) (ha : a ≤ len)
    (hb0 : 0 ≤ b) (hb : b ≤ len) :
    (PySlice.mk (some a) (some b) (some k)).indices len = .ok (a, b, k) := by
  have hk0 : ¬ k = 0 := by omega
  have hkn : ¬ k < 0 := by omega
  simp [PySlice.indices, hk0, hkn, clampBound_id, ha0, ha, hb0, hb]

/-- `slice.indices` is idempotent for positive steps -/
theorem indices_idem (s : PySlice) (len : Nat) (h : s.PosStep) (a b k : Int)
    (hs : s.indices len = .ok (a, b, k)) :
    (PySlice.mk (some a) (some b) (some k)).indices len = .ok (a, b, k) := by
  obtain ⟨a', b', k', h', hk, ha0, ha, hb0, hb⟩ := indices_pos s len h
  rw [hs] at h'
  injection h' with h'
  injection h' with h1 h'
  injection h' with h2 h3
  subst h1 h2 h3
  exact indices_normal a b k len hk ha0 ha hb0 hb

/-! ### ranges -/

theorem rangeLen_pos (lo hi k : Int) (hk : k ≥ 1) :
    rangeLen lo hi k = if lo < hi then ((hi - lo - 1) / k + 1).toNat else 0 := by
  unfold rangeLen
  have : k > 0 := by omega
  simp [this]

/-- translation invariance -/
theorem rangeLen_shift (c lo hi k : Int) : rangeLen (c + lo) (c + hi) k = rangeLen lo hi k := by
  unfold rangeLen
  have h1 : c + hi - (c + lo) - 1 = hi - lo - 1 := by omega
  have h2 : c + lo - (c + hi) - 1 = lo - hi - 1 := by omega
  have h3 : (c + lo < c + hi) ↔ (lo < hi) := by omega
  have h4 : (c + hi < c + lo) ↔ (hi < lo) := by omega
  simp only [h1, h2, h3, h4]

theorem rangeLen_unit (len : Nat) : rangeLen 0 (len : Int) 1 = len := by
  unfold rangeLen
  simp
  intro h
  omega

theorem rangeLen_unit' (a b : Int) (h : a ≤ b) : rangeLen a b 1 = (b - a).toNat := by
  unfold rangeLen
  simp
  intro h'
  omega

theorem progression_length (a k : Int) (n : Nat) : (progression a k n).length = n := by
  induction n generalizing a with
  | zero => rfl
  | succ n ih => simp [progression, ih]

theorem mem_progression (a k : Int) (n : Nat) (x : Int) :
    x ∈ progression a k n ↔ ∃ j : Nat, j < n ∧ x = a + j * k := by
  induction n generalizing a with
  | zero => simp [progression]
  | succ n ih =>
    simp only [progression, List.mem_cons, ih]
    constructor
    · rintro (h | ⟨j, hj, hx⟩)
      · exact ⟨0, by omega, by simp [h]⟩
      · refine ⟨j + 1, by omega, ?_⟩
        rw [hx]
        push_cast
        rw [Int.add_mul]
        omega
    · rintro ⟨j, hj, hx⟩
      cases j with
      | zero => left; simp [hx]
      | succ j =>
        right
        refine ⟨j, by omega, ?_⟩
        rw [hx]
        push_cast
        rw [Int.add_mul]
        omega

theorem progression_shift (c a k : Int) (n : Nat) :
    progression (c + a) k n = (progression a k n).map (c + ·) := by
  induction n generalizing a with
  | zero => rfl
  | succ n ih =>
    simp only [progression, List.map_cons]
    rw [Int.add_assoc, ih]

/-- the members of `range(lo, hi, k)` for `k ≥ 1` lie in `[lo, hi)` -/
theorem mem_pyRange_pos (lo hi k : Int) (hk : k ≥ 1) (x : Int) (hx : x ∈ pyRange lo hi k) :
    lo ≤ x ∧ x < hi := by
  unfold pyRange at hx
  rw [mem_progression] at hx
  obtain ⟨j, hj, rfl⟩ := hx
  rw [rangeLen_pos lo hi k hk] at hj
  split at hj
  · rename_i hlt
    have hk0 : 0 < k := by omega
    have hjk : (0 : Int) ≤ j * k := Int.mul_nonneg (by omega) (by omega)
    have hq : (0 : Int) ≤ (hi - lo - 1) / k := Int.ediv_nonneg (by omega) (by omega)
    have hj' : (j : Int) ≤ (hi - lo - 1) / k := by omega
    have := (Int.le_ediv_iff_mul_le hk0).mp hj'
    omega
  · omega

/-- what a positive-step slice selects lies inside the sequence -/
theorem selected_in_range (s : PySlice) (len : Nat) (h : s.PosStep) (l : List Int)
    (hs : s.selected len = .ok l) : ∀ x ∈ l, 0 ≤ x ∧ x < len := by
  obtain ⟨a, b, k, hi, hk, ha0, ha, hb0, hb⟩ := indices_pos s len h
  unfold PySlice.selected at hs
  rw [hi] at hs
  simp at hs
  subst hs
  intro x hx
  have := mem_pyRange_pos a b k hk x hx
  omega

end Nix.Py
