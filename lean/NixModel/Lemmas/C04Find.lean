import NixModel.Lemmas.C04Shape
import NixModel.Lemmas.C04Bfs

/-!
# C04 — the statements of `util/find.py` compute the model's breadth-first collection

`Gen.findSectionsProg` / `Gen.findSourcesProg` are the bodies of `_find_sections` / `_find_sources` as the
translator renders them; `FindProg.runFind` runs them. With the arguments `find_sections()` / `find_sources()`
pass on an entity (`limit = None → sys.maxsize`: no depth bound; any filter) the value returned is the model's
`bfsKeys` from that entity, filtered — with the default filter `lambda _: True` it is `subtreeKeys`.
-/
namespace Nix.Store.C04
open Nix.Store Nix.Store.Graph Nix.Store.FindProg

/-- the program every finder of `util/find.py` is expected to be, for the sub-container `sub` -/
def stdFind (sub : String) : FindProg :=
  { prologue := [.simple .initFifo, .simple .initResult, .simple (.setLevel 0),
                 .ite .startIsEntity [.simple .pushStart]
                   [.simple (.incLevel 1), .ite .levelLeLimit [.pushKidsOfStart sub] []]],
    body := [.simple .popFront, .simple (.levelFromChild 1),
             .ite .levelLeLimit [.simple (.pushKidsOfChild sub)] [],
             .ite .filtrChild [.simple .appendResult] []] }

theorem kidsOf_eq (g : Graph) (sub : String) (k : Nat) : kidsOf g sub k = kids g sub k := rfl

theorem bfsKeys_acc (g : Graph) (sub : String) (fuel : Nat) (queue acc : List Nat) :
    bfsKeys g sub fuel queue acc = acc ++ bfsKeys g sub fuel queue [] := by
  induction fuel generalizing queue acc with
  | zero => simp [bfsKeys]
  | succ fuel ih =>
    cases queue with
    | nil => simp [bfsKeys]
    | cons k queue =>
      rw [bfsKeys_step, bfsKeys_step, ih, ih (acc := [] ++ [k])]
      simp

/-- one round of the loop body of `stdFind`, no depth bound -/
theorem stdBody_step (g : Graph) (sub : String) (start : Nat) (sie : Bool) (filtr : Nat → Bool)
    (c : Nat × Nat) (rest : List (Nat × Nat)) (result : List Nat) (level : Nat) (child : Option (Nat × Nat)) :
    runStmts ⟨g, start, sie, none, filtr⟩ (stdFind sub).body ⟨c :: rest, result, level, child⟩ =
      some ⟨rest ++ (kidsOf g sub c.1).map (fun e => (e, c.2 + 1)),
            if filtr c.1 then result ++ [c.1] else result, c.2 + 1, some c⟩ := by
  cases hf : filtr c.1 <;>
    simp [stdFind, runStmts, stepStmt, stepSimple, evalCond, runInners, stepInner, hf]

/-- the loop of `stdFind` on any queue: the result grows by the filtered breadth-first collection -/
theorem stdLoop_result (g : Graph) (sub : String) (start : Nat) (sie : Bool) (filtr : Nat → Bool) (fuel : Nat)
    (fifo : List (Nat × Nat)) (result : List Nat) (level : Nat) (child : Option (Nat × Nat)) :
    (loop ⟨g, start, sie, none, filtr⟩ (stdFind sub).body fuel ⟨fifo, result, level, child⟩).map (·.result) =
      some (result ++ (bfsKeys g sub fuel (fifo.map (·.1)) []).filter filtr) := by
  induction fuel generalizing fifo result level child with
  | zero => simp [loop, bfsKeys]
  | succ fuel ih =>
    cases fifo with
    | nil => simp [loop, bfsKeys]
    | cons c rest =>
      rw [loop]
      simp only [List.isEmpty_cons, Bool.false_eq_true, ↓reduceIte]
      rw [stdBody_step]
      simp only [Option.bind_some]
      rw [ih]
      simp only [List.map_cons, List.map_append, List.map_map]
      rw [bfsKeys_step, bfsKeys_acc g sub fuel _ ([] ++ [c.1])]
      have hk : List.map ((fun x => x.1) ∘ fun e => (e, c.2 + 1)) (kidsOf g sub c.1) = kids g sub c.1 := by
        rw [kidsOf_eq]; simp [Function.comp_def]
      rw [hk]
      cases hf : filtr c.1 <;> simp [hf]

/-- `stdFind sub` run on an entity, no depth bound: the filtered breadth-first collection from it -/
theorem stdFind_run (g : Graph) (sub : String) (k : Nat) (filtr : Nat → Bool) (fuel : Nat) :
    runFind (stdFind sub) ⟨g, k, true, none, filtr⟩ fuel = some ((bfsKeys g sub fuel [k] []).filter filtr) := by
  unfold runFind
  have hp : runStmts ⟨g, k, true, none, filtr⟩ (stdFind sub).prologue {} = some ⟨[(k, 0)], [], 0, none⟩ := by
    simp [stdFind, runStmts, stepStmt, stepSimple, evalCond, runInners, stepInner]
  rw [hp]
  simp only [Option.bind_some]
  rw [stdLoop_result]
  simp

end Nix.Store.C04
