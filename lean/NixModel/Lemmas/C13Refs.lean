import NixModel.Lemmas.C13Inv

/-!
# C13 — referring lists name every referrer once (unique ids)
-/

namespace Nix.Tree

theorem nodup_flatMap_of {α β : Type} {g1 g2 : α → List β} : ∀ {l : List α}, (l.flatMap g2).Nodup →
    (∀ a ∈ l, (g1 a).Nodup ∧ ∀ x ∈ g1 a, x ∈ g2 a) → (l.flatMap g1).Nodup
  | [], _, _ => by simp
  | a :: t, hn, h => by
    rw [List.flatMap_cons, List.nodup_append] at hn ⊢
    obtain ⟨_, ht, hdis⟩ := hn
    have ha := h a List.mem_cons_self
    refine ⟨ha.1, nodup_flatMap_of ht (fun b hb => h b (List.mem_cons_of_mem _ hb)), ?_⟩
    intro x hx y hy
    obtain ⟨b, hb, hyb⟩ := List.mem_flatMap.mp hy
    exact hdis x (ha.2 x hx) y (List.mem_flatMap.mpr ⟨b, hb, (h b (List.mem_cons_of_mem _ hb)).2 y hyb⟩)

theorem wf_blocks_all {f : File} (hf : WF f) : (f.blocks.flatMap blockKeys).Nodup :=
  (List.nodup_append.mp hf.nodup).2.1

theorem wf_blockKeys {f : File} (hf : WF f) {b : Block} (hb : b ∈ f.blocks) : (blockKeys b).Nodup :=
  nodup_of_flatMap (wf_blocks_all hf) hb

theorem wf_holders {f : File} (hf : WF f) {b : Block} (hb : b ∈ f.blocks) : (b.holders.map Holder.key).Nodup := by
  have := wf_blockKeys hf hb
  simp only [blockKeys, List.nodup_cons] at this
  exact (List.nodup_append.mp this.2).2.1

theorem refBlocks_nodup {f : File} (hf : WF f) (k : Nat) : (refBlocks f k).Nodup :=
  (List.Sublist.map _ List.filter_sublist).nodup (wf_blocks_nodup hf)

theorem holdersPart_sub (b : Block) (kind : Kind) (q : Holder → Bool) :
    (((holdersOf b kind).filter q).map Holder.key).Sublist (b.holders.map Holder.key) :=
  List.Sublist.map _ (List.filter_sublist.trans List.filter_sublist)

theorem refHolders_nodup {f : File} (hf : WF f) (kind : Kind) (k : Nat) : (refHolders f kind k).Nodup := by
  refine nodup_flatMap_of (wf_blocks_all hf) (fun b hb => ⟨?_, ?_⟩)
  · exact (holdersPart_sub b kind _).nodup (wf_holders hf hb)
  · intro x hx
    have := (holdersPart_sub b kind _).subset hx
    simp [blockKeys, this]

theorem srcRefHolders_nodup {f : File} (hf : WF f) {b : Block} (hb : b ∈ f.blocks) (kind : Kind) (k : Nat) :
    (srcRefHolders b kind k).Nodup :=
  (holdersPart_sub b kind _).nodup (wf_holders hf hb)

theorem findAll_keys {ms : List Node} (h : (keysL ms).Nodup) (q : Node → Bool) :
    ((((findFrom (.top ms) (fun _ => true) none).filter q).map Node.key).Nodup) ∧
    ∀ x ∈ ((findFrom (.top ms) (fun _ => true) none).filter q).map Node.key, x ∈ keysL ms := by
  rw [findFrom_none, findFrom_some]
  simp only [Root.members]
  constructor
  · exact (List.Sublist.map _ (List.filter_sublist.trans List.filter_sublist)).nodup (levels_nodup _ _ h)
  · intro x hx
    obtain ⟨n, hn, rfl⟩ := List.mem_map.mp hx
    have h1 := (List.mem_filter.mp hn).1
    have h2 := (List.mem_filter.mp h1).1
    exact List.mem_map.mpr ⟨n, levels_subset _ _ h2, rfl⟩

theorem refSources_nodup {f : File} (hf : WF f) (k : Nat) : (refSources f k).Nodup := by
  refine nodup_flatMap_of (wf_blocks_all hf) (fun b hb => ?_)
  obtain ⟨h1, h2⟩ := findAll_keys (wf_block_sources hf hb) (fun s => s.md == some k)
  refine ⟨h1, fun x hx => ?_⟩
  have := h2 x hx
  simp [blockKeys, this]

/-! ### the kinds do not overlap -/

theorem key_class {f : File} (hf : WF f) {b b' : Block} (hb : b ∈ f.blocks) (hb' : b' ∈ f.blocks) {x : Nat}
    (hx : x ∈ blockKeys b) (hx' : x ∈ blockKeys b') : b = b' :=
  flatMap_nodup_inj (wf_blocks_all hf) hb hb' hx hx'

theorem mem_refHolders_key {f : File} {kind : Kind} {k x : Nat} (h : x ∈ refHolders f kind k) :
    ∃ b ∈ f.blocks, ∃ hd ∈ b.holders, hd.kind = kind ∧ hd.key = x := by
  obtain ⟨b, hb, hd, hh, hk, hx, _⟩ := mem_refHolders.mp h
  exact ⟨b, hb, hd, hh, hk, hx⟩

theorem mem_refSources_key {f : File} (hf : WF f) {k x : Nat} (h : x ∈ refSources f k) :
    ∃ b ∈ f.blocks, x ∈ keysL b.sources := by
  simp only [refSources, List.mem_flatMap] at h
  obtain ⟨b, hb, hx⟩ := h
  exact ⟨b, hb, (findAll_keys (wf_block_sources hf hb) _).2 x hx⟩

theorem holders_disjoint {f : File} (hf : WF f) {k1 k2 : Kind} (hne : k1 ≠ k2) {k x : Nat}
    (h1 : x ∈ refHolders f k1 k) (h2 : x ∈ refHolders f k2 k) : False := by
  obtain ⟨b, hb, hd, hh, hk, hx⟩ := mem_refHolders_key h1
  obtain ⟨b', hb', hd', hh', hk', hx'⟩ := mem_refHolders_key h2
  have e : b = b' := key_class (x := x) hf hb hb'
    (by simp only [blockKeys, List.mem_cons, List.mem_append, List.mem_map]; exact .inr (.inr ⟨hd, hh, hx⟩))
    (by simp only [blockKeys, List.mem_cons, List.mem_append, List.mem_map]; exact .inr (.inr ⟨hd', hh', hx'⟩))
  subst e
  have : hd = hd' := nodup_map_inj (wf_holders hf hb) hh hh' (hx.trans hx'.symm)
  subst this
  exact hne (hk.symm.trans hk')

theorem block_not_holder {f : File} (hf : WF f) {kind : Kind} {k x : Nat}
    (h1 : x ∈ refBlocks f k) (h2 : x ∈ refHolders f kind k) : False := by
  obtain ⟨b, hb, hx, _⟩ := mem_refBlocks.mp h1
  obtain ⟨b', hb', hd', hh', _, hx'⟩ := mem_refHolders_key h2
  have e : b = b' := key_class (x := x) hf hb hb' (by rw [← hx]; exact List.mem_cons_self)
    (by simp only [blockKeys, List.mem_cons, List.mem_append, List.mem_map]; exact .inr (.inr ⟨hd', hh', hx'⟩))
  subst e
  have hn := wf_blockKeys hf hb
  simp only [blockKeys, List.nodup_cons, List.mem_append, not_or] at hn
  exact hn.1.2 (List.mem_map.mpr ⟨hd', hh', hx'.trans hx.symm⟩)

theorem block_not_source {f : File} (hf : WF f) {k x : Nat}
    (h1 : x ∈ refBlocks f k) (h2 : x ∈ refSources f k) : False := by
  obtain ⟨b, hb, hx, _⟩ := mem_refBlocks.mp h1
  obtain ⟨b', hb', hs⟩ := mem_refSources_key hf h2
  have e : b = b' := key_class (x := x) hf hb hb' (by rw [← hx]; exact List.mem_cons_self) (List.mem_cons_of_mem _ (List.mem_append_left _ hs))
  subst e
  have hn := wf_blockKeys hf hb
  simp only [blockKeys, List.nodup_cons, List.mem_append, not_or] at hn
  exact hn.1.1 (hx ▸ hs)

theorem holder_not_source {f : File} (hf : WF f) {kind : Kind} {k x : Nat}
    (h1 : x ∈ refHolders f kind k) (h2 : x ∈ refSources f k) : False := by
  obtain ⟨b, hb, hd, hh, _, hx⟩ := mem_refHolders_key h1
  obtain ⟨b', hb', hs⟩ := mem_refSources_key hf h2
  have e : b = b' := key_class (x := x) hf hb hb'
    (by simp only [blockKeys, List.mem_cons, List.mem_append, List.mem_map]; exact .inr (.inr ⟨hd, hh, hx⟩))
    (List.mem_cons_of_mem _ (List.mem_append_left _ hs))
  subst e
  have hn := wf_blockKeys hf hb
  simp only [blockKeys, List.nodup_cons] at hn
  exact (List.nodup_append.mp hn.2).2.2 x hs x (List.mem_map.mpr ⟨hd, hh, hx⟩) rfl

/-- `Section.referring_objects` names every referrer once -/
theorem refObjects_nodup {f : File} (hf : WF f) (k : Nat) : (refObjects f k).Nodup := by
  simp only [refObjects, List.nodup_append, List.mem_append]
  refine ⟨⟨⟨⟨⟨refBlocks_nodup hf k, refHolders_nodup hf _ k, ?_⟩, refHolders_nodup hf _ k, ?_⟩,
    refHolders_nodup hf _ k, ?_⟩, refHolders_nodup hf _ k, ?_⟩, refSources_nodup hf k, ?_⟩
  · rintro x h1 y h2 rfl; exact block_not_holder hf h1 h2
  · rintro x (h1 | h1) y h2 rfl
    · exact block_not_holder hf h1 h2
    · exact holders_disjoint hf (by decide) h1 h2
  · rintro x ((h1 | h1) | h1) y h2 rfl
    · exact block_not_holder hf h1 h2
    · exact holders_disjoint hf (by decide) h1 h2
    · exact holders_disjoint hf (by decide) h1 h2
  · rintro x (((h1 | h1) | h1) | h1) y h2 rfl
    · exact block_not_holder hf h1 h2
    · exact holders_disjoint hf (by decide) h1 h2
    · exact holders_disjoint hf (by decide) h1 h2
    · exact holders_disjoint hf (by decide) h1 h2
  · rintro x ((((h1 | h1) | h1) | h1) | h1) y h2 rfl
    · exact block_not_source hf h1 h2
    · exact holder_not_source hf h1 h2
    · exact holder_not_source hf h1 h2
    · exact holder_not_source hf h1 h2
    · exact holder_not_source hf h1 h2

/-- `Source.referring_objects` names every referrer once -/
theorem srcRefObjects_nodup {f : File} (hf : WF f) {b : Block} (hb : b ∈ f.blocks) (k : Nat) :
    (srcRefObjects b k).Nodup := by
  have hdis : ∀ {k1 k2 : Kind}, k1 ≠ k2 → ∀ x, x ∈ srcRefHolders b k1 k → x ∈ srcRefHolders b k2 k → False := by
    intro k1 k2 hne x h1 h2
    obtain ⟨hd, hh, hk, hx, _⟩ := mem_srcRefHolders.mp h1
    obtain ⟨hd', hh', hk', hx', _⟩ := mem_srcRefHolders.mp h2
    have : hd = hd' := nodup_map_inj (wf_holders hf hb) hh hh' (hx.trans hx'.symm)
    subst this
    exact hne (hk.symm.trans hk')
  simp only [srcRefObjects, List.nodup_append, List.mem_append]
  refine ⟨⟨⟨srcRefHolders_nodup hf hb _ k, srcRefHolders_nodup hf hb _ k, ?_⟩, srcRefHolders_nodup hf hb _ k, ?_⟩,
    srcRefHolders_nodup hf hb _ k, ?_⟩
  · rintro x h1 y h2 rfl; exact hdis (by decide) x h1 h2
  · rintro x (h1 | h1) y h2 rfl
    · exact hdis (by decide) x h1 h2
    · exact hdis (by decide) x h1 h2
  · rintro x ((h1 | h1) | h1) y h2 rfl
    · exact hdis (by decide) x h1 h2
    · exact hdis (by decide) x h1 h2
    · exact hdis (by decide) x h1 h2

end Nix.Tree
