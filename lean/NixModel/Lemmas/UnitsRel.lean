import NixModel.Lemmas.UnitsPower

/-!
Helper lemmas for C09: `scalable` as a relation on arbitrary strings (symmetric, transitive,
reflexive exactly on SI units), what `scaling` refuses, and compound recognition for atoms with any
power text.
-/
namespace Nix.Units.Lemmas
open Nix.Units Nix.Units.Gen

/-! ### scalable as a relation -/

/-- `scalable` spelled out: both SI, same base unit, same power text -/
theorem scalable_iff (a b : Str) :
    scalable a b = true ↔
      isSi a = true ∧ isSi b = true ∧ (split a).2.1 = (split b).2.1 ∧ (split a).2.2 = (split b).2.2 := by
  unfold scalable
  by_cases ha : isSi a = true <;> by_cases hb : isSi b = true <;>
    by_cases hu : (split a).2.1 = (split b).2.1 <;> by_cases hw : (split a).2.2 = (split b).2.2 <;>
    simp [ha, hb, hu, hw]

theorem scalable_symm (a b : Str) : scalable a b = scalable b a := by
  have h1 := scalable_iff a b
  have h2 := scalable_iff b a
  cases hab : scalable a b <;> cases hba : scalable b a <;> try rfl
  · rw [hba] at h2
    have := h2.mp rfl
    rw [hab] at h1
    exact absurd (h1.mpr ⟨this.2.1, this.1, this.2.2.1.symm, this.2.2.2.symm⟩) (by simp)
  · rw [hab] at h1
    have := h1.mp rfl
    rw [hba] at h2
    exact absurd (h2.mpr ⟨this.2.1, this.1, this.2.2.1.symm, this.2.2.2.symm⟩) (by simp)

theorem scalable_trans (a b c : Str) (hab : scalable a b = true) (hbc : scalable b c = true) :
    scalable a c = true := by
  obtain ⟨ha, _, hu1, hw1⟩ := (scalable_iff a b).mp hab
  obtain ⟨_, hc, hu2, hw2⟩ := (scalable_iff b c).mp hbc
  exact (scalable_iff a c).mpr ⟨ha, hc, hu1.trans hu2, hw1.trans hw2⟩

theorem scalable_refl (a : Str) : scalable a a = isSi a := by
  cases h : isSi a
  · cases hs : scalable a a
    · rfl
    · have := ((scalable_iff a a).mp hs).1
      rw [h] at this
      cases this
  · exact (scalable_iff a a).mpr ⟨h, h, rfl, rfl⟩

/-- converting an SI unit (atomic or compound, any spelling the code accepts) to itself is the identity -/
theorem scaling_self (a : Str) (h : isSi a = true) : scaling a a = .ok 1 := by
  have hs : scalable a a = true := by rw [scalable_refl, h]
  unfold scaling
  simp only [hs, Bool.not_true, Bool.false_eq_true, ↓reduceIte]
  unfold scalingCore
  simp

/-- `InvalidUnit` is raised exactly for the pairs `scalable` rejects -/
theorem scaling_refused_iff (a b : Str) : scaling a b = .error .invalidUnit ↔ scalable a b = false := by
  constructor
  · intro h
    cases hs : scalable a b
    · rfl
    · exfalso
      unfold scaling at h
      simp only [hs, Bool.not_true, Bool.false_eq_true, ↓reduceIte] at h
      unfold scalingCore at h
      split at h
      · cases h
      · split at h
        · cases h
        · split at h
          · cases h
          · split at h
            · cases h
            · cases h
  · intro h
    unfold scaling
    simp [h]

theorem powerText_drop_inj (w₁ w₂ : Str) (h₁ : PowerText w₁) (h₂ : PowerText w₂)
    (h : w₁.drop 1 = w₂.drop 1) : w₁ = w₂ := by
  cases h₁ with
  | none =>
    cases h₂ with
    | none => rfl
    | pow sign d ds hs hd hds => cases sign <;> simp at h
  | pow sign d ds hs hd hds =>
    cases h₂ with
    | none => cases sign <;> simp at h
    | pow sign' d' ds' hs' hd' hds' =>
      simp only [List.cons_append, List.drop_succ_cons, List.drop_zero] at h
      simp [h]

/-- between table atoms (any power text) `scalable` holds exactly for the same base unit and power -/
theorem scalable_atoms_iff (p₁ p₂ u₁ u₂ w₁ w₂ : Str) (h₁ : p₁ ∈ optPrefixes) (h₂ : p₂ ∈ optPrefixes)
    (hu₁ : u₁ ∈ units) (hu₂ : u₂ ∈ units) (hw₁ : PowerText w₁) (hw₂ : PowerText w₂) :
    scalable (p₁ ++ u₁ ++ w₁) (p₂ ++ u₂ ++ w₂) = true ↔ u₁ = u₂ ∧ w₁ = w₂ := by
  constructor
  · intro h
    by_cases hu : u₁ = u₂
    · by_cases hw : w₁.drop 1 = w₂.drop 1
      · exact ⟨hu, powerText_drop_inj w₁ w₂ hw₁ hw₂ hw⟩
      · rw [(not_scalable_atoms_generic p₁ p₂ u₁ u₂ w₁ w₂ h₁ h₂ hu₁ hu₂ hw₁ hw₂ (Or.inr hw)).1] at h
        cases h
    · rw [(not_scalable_atoms_generic p₁ p₂ u₁ u₂ w₁ w₂ h₁ h₂ hu₁ hu₂ hw₁ hw₂ (Or.inl hu)).1] at h
      cases h
  · rintro ⟨rfl, rfl⟩
    exact (scaling_atoms_generic p₁ p₂ u₁ w₁ h₁ h₂ hu₁ hw₁).1

/-! ### compound recognition with any power text -/

theorem compoundAt_atoms_generic (p₁ u₁ w₁ p₂ u₂ w₂ : Str) (sep : Char) (tail : Str)
    (h₁ : p₁ ∈ optPrefixes) (hu₁ : u₁ ∈ units) (hw₁ : PowerText w₁)
    (h₂ : p₂ ∈ optPrefixes) (hu₂ : u₂ ∈ units) (hw₂ : PowerText w₂)
    (hsep : sep = '*' ∨ sep = '/') :
    compoundAt ((p₁ ++ u₁ ++ w₁) ++ sep :: (p₂ ++ u₂ ++ w₂) ++ tail) = true := by
  have hsh : compoundAtomShape.pieces = [.optPre, .unit, .optPow] := rfl
  obtain ⟨m, hm, hr⟩ := atom_match_generic p₁ u₁ w₁ h₁ hu₁ hw₁ (sep :: (p₂ ++ u₂ ++ w₂) ++ tail)
  obtain ⟨m', hm', _⟩ := atom_match_generic p₂ u₂ w₂ h₂ hu₂ hw₂ tail
  rw [← hsh] at hm hm'
  set s := (p₁ ++ u₁ ++ w₁) ++ sep :: (p₂ ++ u₂ ++ w₂) ++ tail with hs
  have hs' : s = p₁ ++ u₁ ++ w₁ ++ (sep :: (p₂ ++ u₂ ++ w₂) ++ tail) := by simp [hs]
  have hsepM : ((p₂ ++ u₂ ++ w₂) ++ tail) ∈ (sepM m.rest).map (·.2) := by
    rw [hr]
    rcases hsep with rfl | rfl <;> simp [sepM]
  have hats : ((p₂ ++ u₂ ++ w₂) ++ tail) ∈ atomThenSep s := by
    unfold atomThenSep
    rw [List.mem_flatMap]
    exact ⟨m, by rw [hs']; exact hm, hsepM⟩
  have hlen : s.length = (s.length - 1) + 1 := by
    have : 0 < s.length := by simp [hs]
    omega
  unfold compoundAt
  rw [List.any_eq_true]
  refine ⟨(p₂ ++ u₂ ++ w₂) ++ tail, ?_, ?_⟩
  · rw [hlen]
    simp only [plusGroups, List.mem_flatMap, List.mem_append, List.mem_singleton]
    exact ⟨_, hats, Or.inr rfl⟩
  · cases hmp : matchPieces compoundAtomShape.pieces { rest := p₂ ++ u₂ ++ w₂ ++ tail } with
    | nil => rw [hmp] at hm'; cases hm'
    | cons a l => rfl

theorem compound_atoms_generic (p₁ u₁ w₁ p₂ u₂ w₂ : Str) (sep : Char) (tail : Str)
    (h₁ : p₁ ∈ optPrefixes) (hu₁ : u₁ ∈ units) (hw₁ : PowerText w₁)
    (h₂ : p₂ ∈ optPrefixes) (hu₂ : u₂ ∈ units) (hw₂ : PowerText w₂)
    (hsep : sep = '*' ∨ sep = '/') :
    isCompound ((p₁ ++ u₁ ++ w₁) ++ sep :: (p₂ ++ u₂ ++ w₂) ++ tail) = true ∧
    isSi ((p₁ ++ u₁ ++ w₁) ++ sep :: (p₂ ++ u₂ ++ w₂) ++ tail) = true := by
  have hc := compoundAt_atoms_generic p₁ u₁ w₁ p₂ u₂ w₂ sep tail h₁ hu₁ hw₁ h₂ hu₂ hw₂ hsep
  set s := (p₁ ++ u₁ ++ w₁) ++ sep :: (p₂ ++ u₂ ++ w₂) ++ tail with hs
  have hne : s.isEmpty = false := by simp [hs]
  have hsearch : compoundUsesSearch = true := rfl
  have hcomp : isCompound s = true := by
    unfold isCompound
    rw [hne, hsearch]
    simp only [Bool.not_false, Bool.true_and, ↓reduceIte]
    rw [List.any_eq_true]
    refine ⟨s, ?_, hc⟩
    cases hcs : s with
    | nil => simp [hcs] at hne
    | cons c cs => simp [tails]
  refine ⟨hcomp, ?_⟩
  unfold isSi
  simp [hne, hcomp]

/-- a compound is recognised wherever it stands: `is_compound` searches, so text in front of the
first two atoms does not matter either -/
theorem compound_search (front s : Str) (h : compoundAt s = true) (hs : s ≠ []) :
    isCompound (front ++ s) = true := by
  have hsearch : compoundUsesSearch = true := rfl
  have hne : (front ++ s).isEmpty = false := by
    cases front with
    | nil => cases s with
      | nil => exact absurd rfl hs
      | cons c cs => rfl
    | cons c cs => rfl
  unfold isCompound
  rw [hne, hsearch]
  simp only [Bool.not_false, Bool.true_and, ↓reduceIte]
  rw [List.any_eq_true]
  refine ⟨s, ?_, h⟩
  induction front with
  | nil =>
    cases s with
    | nil => exact absurd rfl hs
    | cons c cs => simp [tails]
  | cons c cs ih =>
    simp only [List.cons_append, tails, List.mem_cons]
    right
    exact ih (by cases cs <;> cases s <;> simp_all)

end Nix.Units.Lemmas
