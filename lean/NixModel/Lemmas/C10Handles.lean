import NixModel.Pure.PropHandles
import NixModel.Lemmas.C10Dict

/-!
# C10 helper lemmas, part 4: kept `Property` objects (`Pure/PropHandles.lean`)

* the table of kept objects never dangles (`HInv`), whatever the history;
* a history with kept objects has the same section state as the history of calls on fresh lookups it
  stands for (`hrun_st`), so every reachable `HState` carries a `Reachable` section.
-/
namespace Nix.PropVals
open Nix.Units (Str)

/-! ## lists -/

theorem find?_filter_keep {α : Type} {f g : α → Bool} : ∀ {l : List α} {e : α},
    l.find? f = some e → g e = true → (l.filter g).find? f = some e
  | [], _, h, _ => by simp at h
  | x :: xs, e, h, hg => by
    by_cases hfx : f x = true
    · have hx : x = e := by simpa [List.find?, hfx] using h
      subst hx
      simp [List.filter, hg, hfx]
    · have hfx' : f x = false := by simpa using hfx
      have h' : xs.find? f = some e := by simpa [List.find?, hfx'] using h
      have ih := find?_filter_keep (g := g) h' hg
      cases hgx : g x
      · simpa [List.filter, hgx] using ih
      · simpa [List.filter, hgx, List.find?, hfx'] using ih

theorem run_append : ∀ (a b : List Op) (st : State), run st (a ++ b) = run (run st a) b
  | [], _, _ => rfl
  | x :: xs, b, st => by simp only [List.cons_append, run]; exact run_append xs b _

/-! ## the table of kept objects -/

theorem lookupH_mem {hs : List (Nat × Nat)} {h pid : Nat} (hl : lookupH hs h = some pid) : (h, pid) ∈ hs := by
  unfold lookupH at hl
  cases hf : hs.find? (·.1 == h) with
  | none => simp [hf] at hl
  | some e =>
    simp only [hf, Option.some.injEq] at hl
    have h1 : e.1 = h := by simpa using List.find?_some hf
    have hm := List.mem_of_find?_eq_some hf
    have : e = (h, pid) := by cases e; simp_all
    rw [← this]; exact hm

/-- a binding survives pruning when its property is still there -/
theorem lookupH_prune {st : State} {hs : List (Nat × Nat)} {h pid : Nat} (hl : lookupH hs h = some pid)
    (hlive : ∃ p ∈ st.props, p.id = pid) : lookupH (prune st hs) h = some pid := by
  unfold lookupH at hl ⊢
  cases hf : hs.find? (·.1 == h) with
  | none => simp [hf] at hl
  | some e =>
    simp only [hf, Option.some.injEq] at hl
    have hk : (fun e : Nat × Nat => st.props.any (·.id == e.2)) e = true := by
      obtain ⟨p, hp, hid⟩ := hlive
      simp only [List.any_eq_true]
      exact ⟨p, hp, by simp [hid, hl]⟩
    have := find?_filter_keep (g := fun e : Nat × Nat => st.props.any (·.id == e.2)) hf hk
    simp only [prune, this, hl]

theorem findProp_id_eq {st : State} {n : Nat} {p : PropRec} (h : findProp st (.key (.id n)) = .ok p) : p.id = n := by
  simp only [findProp] at h
  cases hf : st.props.find? (·.id == n) with
  | none => simp [hf] at h
  | some q =>
    simp [hf] at h; subst h
    simpa using List.find?_some hf

/-- reading through a kept object whose property is `q` -/
theorem hget_of {hs : HState} {h pid : Nat} {q : PropRec} (hl : lookupH hs.handles h = some pid)
    (hf : findProp hs.st (.key (.id pid)) = .ok q) : hstep hs (.hget h) = (hs, .ok (.prop q)) := by
  simp only [hstep, viaHandle, hl, step, hf]

theorem plain_get_of {hs : HState} {k : PKey} {q : PropRec} (hf : findProp hs.st k = .ok q) :
    (hstep hs (.plain (.get k))).2 = .ok (.prop q) := by
  simp only [hstep, step, hf]

/-! ## ids of the properties across a call that does not create or delete -/

theorem onProp_ids (st : State) (k : PKey) (f : PropRec → PropRec × Except Err Unit) :
    (onProp st k f).1.props.map (·.id) = st.props.map (·.id) := by
  unfold onProp
  cases findProp st k with
  | error e => rfl
  | ok p => exact putProp_map_id st _

/-- the calls a kept object offers -/
def IsObjCall (mk : PKey → Op) : Prop :=
  (∃ inp, mk = (.set · inp)) ∨ (∃ inp, mk = (.extend · inp)) ∨ mk = .clear ∨
  (∃ a v, mk = (.setAttr · a v)) ∨ (∃ o, mk = (.setOdml · o)) ∨ mk = .get

theorem objCall_ids {mk : PKey → Op} (hm : IsObjCall mk) (st : State) (k : PKey) :
    (step st (mk k)).1.props.map (·.id) = st.props.map (·.id) := by
  rcases hm with ⟨inp, rfl⟩ | ⟨inp, rfl⟩ | rfl | ⟨a, v, rfl⟩ | ⟨o, rfl⟩ | rfl
  · exact onProp_ids _ _ _
  · exact onProp_ids _ _ _
  · exact onProp_ids _ _ _
  · exact onProp_ids _ _ _
  · exact onProp_ids _ _ _
  · rfl

theorem live_of_ids {st st' : State} (h : st'.props.map (·.id) = st.props.map (·.id)) {pid : Nat}
    (hl : ∃ p ∈ st.props, p.id = pid) : ∃ p ∈ st'.props, p.id = pid := by
  obtain ⟨p, hp, hid⟩ := hl
  have : pid ∈ st'.props.map (·.id) := by rw [h]; exact List.mem_map.mpr ⟨p, hp, hid⟩
  obtain ⟨q, hq, hqid⟩ := List.mem_map.mp this
  exact ⟨q, hq, hqid⟩

/-! ## the invariant -/

structure HInv (hs : HState) : Prop where
  inv : Inv hs.st
  live : ∀ e ∈ hs.handles, ∃ p ∈ hs.st.props, p.id = e.2

theorem hinv_init : HInv HState.init := ⟨inv_init, by simp [HState.init]⟩

theorem mem_bindH {hs : List (Nat × Nat)} {h pid : Nat} {e : Nat × Nat} (he : e ∈ bindH hs h pid) :
    e = (h, pid) ∨ e ∈ hs := by
  simp only [bindH, List.mem_cons] at he
  rcases he with he | he
  · exact Or.inl he
  · exact Or.inr (List.mem_filter.mp he).1

theorem viaHandle_inv {hs : HState} (hinv : HInv hs) {h : Nat} {mk : PKey → Op} (hm : IsObjCall mk)
    (hwf : ∀ k, (mk k).WF = true) : HInv (viaHandle hs h mk).1 := by
  unfold viaHandle
  cases hl : lookupH hs.handles h with
  | none => exact hinv
  | some pid =>
    refine ⟨step_inv (hwf _) hinv.inv, ?_⟩
    intro e he
    exact live_of_ids (objCall_ids hm hs.st _) (hinv.live e he)

theorem hstep_inv {hs : HState} {op : HOp} (hwf : op.WF = true) (hinv : HInv hs) : HInv (hstep hs op).1 := by
  cases op with
  | plain op =>
    refine ⟨step_inv (by simpa [HOp.WF] using hwf) hinv.inv, ?_⟩
    intro e he
    simp only [hstep] at he
    have hp : e ∈ prune (step hs.st op).1 hs.handles := by
      cases op <;> first | exact he | (simp at he)
    have := (List.mem_filter.mp hp).2
    simp only [List.any_eq_true] at this
    obtain ⟨p, hp, hid⟩ := this
    exact ⟨p, hp, by simpa using hid⟩
  | hold h k =>
    simp only [hstep]
    cases hf : findProp hs.st k with
    | error e => exact hinv
    | ok p =>
      refine ⟨hinv.inv, ?_⟩
      intro e he
      rcases mem_bindH he with rfl | he'
      · exact ⟨p, findProp_mem hf, rfl⟩
      · exact hinv.live e he'
  | createHold h name inp =>
    have hwf' : inp.WF = true := by simpa [HOp.WF] using hwf
    have hinv1 : Inv (step hs.st (.create name inp)).1 := step_inv (by simpa [Op.WF] using hwf') hinv.inv
    simp only [hstep]
    have hstepc : step hs.st (.create name inp) = lift (createProperty hs.st name inp) := rfl
    rcases createProperty_cases hs.st name inp with ⟨e, h'⟩ | ⟨dt, n, vals, d, _, _, _, _, _, h'⟩
    · have h2 : (step hs.st (.create name inp)).2 = .error e := by rw [hstepc, h']; rfl
      have h1 : (step hs.st (.create name inp)).1 = hs.st := by rw [hstepc, h']; rfl
      simp only [h2]
      exact ⟨by rw [h1]; exact hinv.inv, fun e he => by rw [h1]; exact hinv.live e he⟩
    · have h2 : (step hs.st (.create name inp)).2 = .ok .unit := by rw [hstepc, h']; rfl
      have h1 : (step hs.st (.create name inp)).1 =
          { hs.st with props := hs.st.props ++ [(setValues (newProp hs.st name d n) vals).1],
                       next := hs.st.next + 1 } := by rw [hstepc, h']; rfl
      simp only [h2]
      refine ⟨hinv1, ?_⟩
      intro e he
      rw [h1]
      rcases mem_bindH he with rfl | he'
      · exact ⟨(setValues (newProp hs.st name d n) vals).1, by simp,
          (setValues_head (newProp hs.st name d n) vals).1.id⟩
      · obtain ⟨p, hp, hid⟩ := hinv.live e he'
        exact ⟨p, by simp [hp], hid⟩
  | hset h inp =>
    exact viaHandle_inv hinv (Or.inl ⟨inp, rfl⟩) (fun k => by simpa [HOp.WF, Op.WF] using hwf)
  | hextend h inp =>
    exact viaHandle_inv hinv (Or.inr (Or.inl ⟨inp, rfl⟩)) (fun k => by simpa [HOp.WF, Op.WF] using hwf)
  | hclear h => exact viaHandle_inv hinv (Or.inr (Or.inr (Or.inl rfl))) (fun k => rfl)
  | hsetAttr h a v =>
    exact viaHandle_inv hinv (Or.inr (Or.inr (Or.inr (Or.inl ⟨a, v, rfl⟩)))) (fun k => rfl)
  | hsetOdml h o =>
    exact viaHandle_inv hinv (Or.inr (Or.inr (Or.inr (Or.inr (Or.inl ⟨o, rfl⟩))))) (fun k => rfl)
  | hget h => exact viaHandle_inv hinv (Or.inr (Or.inr (Or.inr (Or.inr (Or.inr rfl))))) (fun k => rfl)
  | drop h =>
    exact ⟨hinv.inv, fun e he => hinv.live e (List.mem_filter.mp he).1⟩

theorem hrun_inv : ∀ {ops : List HOp} {hs : HState}, (∀ op ∈ ops, op.WF = true) → HInv hs → HInv (hrun hs ops)
  | [], _, _, h => h
  | op :: ops, hs, hwf, h =>
    hrun_inv (ops := ops) (fun o ho => hwf o (by simp [ho])) (hstep_inv (hwf op (by simp)) h)

/-! ## a history with kept objects is a history of calls on fresh lookups -/

theorem viaHandle_st (hs : HState) (h : Nat) (mk : PKey → Op) :
    (viaHandle hs h mk).1.st =
      run hs.st (match lookupH hs.handles h with | some pid => [mk (.key (.id pid))] | none => []) := by
  unfold viaHandle
  cases lookupH hs.handles h <;> rfl

theorem hstep_st (hs : HState) (op : HOp) : (hstep hs op).1.st = run hs.st (op.erase hs) := by
  cases op with
  | plain op => rfl
  | hold h k =>
    simp only [hstep, HOp.erase]
    cases findProp hs.st k <;> rfl
  | createHold h name inp =>
    simp only [hstep, HOp.erase]
    cases (step hs.st (.create name inp)).2 <;> rfl
  | hset h inp => simp only [hstep, HOp.erase, viaHandle_st]; cases lookupH hs.handles h <;> rfl
  | hextend h inp => simp only [hstep, HOp.erase, viaHandle_st]; cases lookupH hs.handles h <;> rfl
  | hclear h => simp only [hstep, HOp.erase, viaHandle_st]; cases lookupH hs.handles h <;> rfl
  | hsetAttr h a v => simp only [hstep, HOp.erase, viaHandle_st]; cases lookupH hs.handles h <;> rfl
  | hsetOdml h o => simp only [hstep, HOp.erase, viaHandle_st]; cases lookupH hs.handles h <;> rfl
  | hget h => simp only [hstep, HOp.erase, viaHandle_st]; cases lookupH hs.handles h <;> rfl
  | drop h => rfl

theorem erase_wf {hs : HState} {op : HOp} (hwf : op.WF = true) : ∀ o ∈ op.erase hs, o.WF = true := by
  intro o ho
  cases op with
  | plain op => simp only [HOp.erase, List.mem_singleton] at ho; subst ho; simpa [HOp.WF] using hwf
  | hold h k => simp only [HOp.erase, List.mem_singleton] at ho; subst ho; rfl
  | createHold h name inp =>
    simp only [HOp.erase, List.mem_singleton] at ho; subst ho; simpa [HOp.WF, Op.WF] using hwf
  | drop h => simp [HOp.erase] at ho
  | hset h inp =>
    simp only [HOp.erase] at ho
    cases hl : lookupH hs.handles h <;> simp [hl] at ho
    subst ho; simpa [HOp.WF, Op.WF] using hwf
  | hextend h inp =>
    simp only [HOp.erase] at ho
    cases hl : lookupH hs.handles h <;> simp [hl] at ho
    subst ho; simpa [HOp.WF, Op.WF] using hwf
  | hclear h =>
    simp only [HOp.erase] at ho
    cases hl : lookupH hs.handles h <;> simp [hl] at ho
    subst ho; rfl
  | hsetAttr h a v =>
    simp only [HOp.erase] at ho
    cases hl : lookupH hs.handles h <;> simp [hl] at ho
    subst ho; rfl
  | hsetOdml h o' =>
    simp only [HOp.erase] at ho
    cases hl : lookupH hs.handles h <;> simp [hl] at ho
    subst ho; rfl
  | hget h =>
    simp only [HOp.erase] at ho
    cases hl : lookupH hs.handles h <;> simp [hl] at ho
    subst ho; rfl

theorem hrun_st : ∀ (ops : List HOp) (hs : HState), (hrun hs ops).st = run hs.st (eraseAll hs ops)
  | [], _ => rfl
  | op :: ops, hs => by
    simp only [hrun, eraseAll, run_append]
    rw [hrun_st ops, hstep_st]

theorem eraseAll_wf : ∀ {ops : List HOp} {hs : HState}, (∀ op ∈ ops, op.WF = true) →
    ∀ o ∈ eraseAll hs ops, o.WF = true
  | [], _, _, o, ho => by simp [eraseAll] at ho
  | op :: ops, hs, hwf, o, ho => by
    simp only [eraseAll, List.mem_append] at ho
    rcases ho with ho | ho
    · exact erase_wf (hwf op (by simp)) o ho
    · exact eraseAll_wf (ops := ops) (fun x hx => hwf x (by simp [hx])) o ho

/-- every state a history of well-formed operations — through fresh lookups and through kept
objects, in any interleaving — can reach from the empty section -/
def HReachable (hs : HState) : Prop :=
  ∃ ops : List HOp, (∀ op ∈ ops, op.WF = true) ∧ hrun HState.init ops = hs

theorem HReachable.hinv {hs : HState} (h : HReachable hs) : HInv hs := by
  obtain ⟨ops, hwf, rfl⟩ := h
  exact hrun_inv hwf hinv_init

theorem HReachable.reachable {hs : HState} (h : HReachable hs) : Reachable hs.st := by
  obtain ⟨ops, hwf, rfl⟩ := h
  exact ⟨eraseAll HState.init ops, eraseAll_wf hwf, (hrun_st ops HState.init).symm⟩

theorem HReachable.step {hs : HState} (h : HReachable hs) {op : HOp} (hwf : op.WF = true) :
    HReachable (hstep hs op).1 := by
  obtain ⟨ops, hw, rfl⟩ := h
  refine ⟨ops ++ [op], ?_, ?_⟩
  · intro o ho
    rcases List.mem_append.mp ho with ho | ho
    · exact hw o ho
    · simp at ho; subst ho; exact hwf
  · have : ∀ (l : List HOp) (s : HState), hrun s (l ++ [op]) = (hstep (hrun s l) op).1 := by
      intro l
      induction l with
      | nil => intro s; rfl
      | cons x xs ih => intro s; simp only [List.cons_append, hrun]; exact ih _
    exact this ops HState.init

end Nix.PropVals
