import NixModel.Lemmas.C20Local

/-!
# C20 — every API call addressed to the copy's side is a local update (`LocalUpd`)

For each operation of `Store/Step.lean`: if the entity it is called on — and every entity handed
to it as an argument — is a node of the side `S`, the resulting graph is a `LocalUpd` of the graph before.
File-wide deletion (`Container.__delitem__` of plain / section / source / feature containers =
`delete_all` of the item's objects) is handed objects of the side only and is by object, so it needs
nothing beyond `SideInv` (`C20HistDel.lu_contDel`). `C20HistDel.lu_run` lifts this to histories.
-/
namespace Nix.Store.C20
open Nix.Store Nix.Store.Graph Nix.Store.Lemmas

variable {S : Nat → Prop} {M : Nat} {A : Nat → Prop}

theorem resolve_ge {g : Graph} (hI : SideInv S M g) {l l' : Loc} {p : Path} (hl : S l.key)
    (h : resolve g l p = some l') : S l'.key :=
  resolve_closed (S := fun k => S k) (fun k hk l hl => hI.closed k hk l hl) hl h

theorem child_ge {g : Graph} (hI : SideInv S M g) {k c : Nat} {n : String} (hk : S k)
    (h : g.child? k n = some c) : S c := hI.closed k hk (n, c) (child?_some_mem h)

theorem attrAllowed_ne_id {kind attr : String} (h : attrAllowed kind attr = true) : attr ≠ "entity_id" := by
  intro e
  subst e
  simp [attrAllowed] at h

/-- attribute setters -/
theorem lu_setAttrOp {g g' : Graph} {p : Path} {a : String} {v : Option String} {o : Loc}
    (hr : resolve g rootLoc p = some o) (ho : S o.key) (hop : setAttrOp g p a v = .ok g') :
    LocalUpd S M g g' := by
  unfold setAttrOp at hop
  rw [hr] at hop
  simp only at hop
  split at hop
  · cases hop
  · rename_i hal
    have hne : a ≠ "entity_id" := attrAllowed_ne_id (by simpa using hal)
    split at hop
    · cases hop
    · split at hop <;> (cases hop; exact lu_setAttr g _ _ ho hne)

/-- role links (`metadata`, `link`, `positions`, `extents`, feature `data`): set or removed on the
addressed node -/
theorem lu_setRole {g g' : Graph} {p : Path} {role : String} {target : Option Nat} {o : Loc}
    (hr : resolve g rootLoc p = some o) (ho : S o.key) (ht : ∀ t, target = some t → S t)
    (hop : setRole g p role target = .ok g') : LocalUpd S M g g' := by
  unfold setRole at hop
  rw [hr] at hop
  simp only at hop
  repeat' split at hop
  all_goals (try cases hop)
  all_goals first
    | exact LocalUpd.refl _
    | exact lu_createLinkIn _ _ ho (ht _ rfl)
    | exact lu_delLink _ _ ho
    | exact (lu_setAttr g "target_type" _ ho (by decide)).trans (lu_createLinkIn _ _ ho (ht _ rfl))

/-- `Section.create_property` -/
theorem lu_createProperty {g g' : Graph} (hI : SideInv S M g) {p : Path} {name : String} {o : Loc}
    (hr : resolve g rootLoc p = some o) (ho : S o.key) (hop : createProperty g p name = .ok g') :
    LocalUpd S M g g' := by
  unfold createProperty at hop
  rw [hr] at hop
  simp only at hop
  repeat' split at hop
  all_goals (try cases hop)
  have h1 := lu_ensureGroup (M := M) hI "properties" ho
  have hc := ensureGroup_ge hI "properties" ho
  have hI1 := h1.inv hI
  have hd : S ((g.ensureGroup o.key "properties").1.newNode .dataset).2 := hI1.next
  have hni : M ≤ (((g.ensureGroup o.key "properties").1.newNode NKind.dataset).1.addLink
      (g.ensureGroup o.key "properties").2 name
      ((g.ensureGroup o.key "properties").1.newNode NKind.dataset).2).nextId := by
    rw [nextId_addLink, nextId_newNode]; exact hI1.ni
  refine LocalUpd.trans ?_ (lu_setAttr _ "~kind" _ hd (by decide))
  refine LocalUpd.trans ?_ (by
    rw [freshId_snd]
    exact lu_setId _ hd (by rw [nextId_setAttr]; exact hni) (by rw [nextId_freshId]; omega))
  refine LocalUpd.trans ?_ (lu_freshId _)
  refine LocalUpd.trans ?_ (lu_setAttr _ "name" _ hd (by decide))
  refine LocalUpd.trans ?_ (lu_addLink _ name hc hd)
  exact h1.trans (lu_newNode _ .dataset)

/-- the body of `Entity.create_new` with the id it drew -/
theorem entityCreateNew_is_ecn' {g g' : Graph} {ownerKey k : Nat} {cname name type kind : String}
    (h : entityCreateNew g ownerKey cname name type kind = .ok (g', k)) :
    ∃ nm, (g', k) = ecn (g.freshId).1 ownerKey cname nm type (g.freshId).2 kind := by
  unfold entityCreateNew at h
  by_cases hn : name = ""
  · subst hn
    simp only [beq_self_eq_true, ↓reduceIte] at h
    by_cases hs : hasSlash (g.freshId).2 = true
    · simp [hs] at h
    · by_cases ht : type = ""
      · simp [hs, ht] at h
      · simp only [hs, Bool.false_eq_true, ↓reduceIte, beq_iff_eq, ht, Except.ok.injEq] at h
        exact ⟨_, h.symm⟩
  · have hn' : (name == "") = false := by simpa using hn
    by_cases ht : type = ""
    · subst ht
      simp only [hn', Bool.false_eq_true, ↓reduceIte, bne_self_eq_false] at h
      by_cases hs : hasSlash name = true
      · simp [hs] at h
      · simp [hs] at h
    · have ht' : (type != "") = true := by simpa using ht
      simp only [hn', Bool.false_eq_true, ↓reduceIte, ht'] at h
      by_cases hs : hasSlash name = true
      · simp [hs] at h
      · simp only [hs, Bool.false_eq_true, ↓reduceIte, beq_iff_eq, ht, Except.ok.injEq] at h
        exact ⟨_, h.symm⟩

/-- `Entity.create_new` in a container of a node of the side: a local update, and the entity it
returns lies on the side -/
theorem lu_entityCreateNew {g g' : Graph} (hI : SideInv S M g) {owner k : Nat} {cname name type kind : String}
    (ho : S owner) (hop : entityCreateNew g owner cname name type kind = .ok (g', k)) :
    LocalUpd S M g g' ∧ S k := by
  obtain ⟨nm, e⟩ := entityCreateNew_is_ecn' hop
  rw [ecn_eq] at e
  simp only [Prod.mk.injEq] at e
  obtain ⟨hg, hk⟩ := e
  unfold ecnG2 at hg hk
  have h0 := lu_freshId (S := S) (M := M) g
  have hI0 := h0.inv hI
  have h1 := lu_ensureGroup hI0 cname ho
  have hc := ensureGroup_ge hI0 cname ho
  have hI1 := h1.inv hI0
  have h2 := lu_ensureGroup hI1 nm hc
  have hkk := ensureGroup_ge hI1 nm hc
  rw [← hk] at hkk
  refine ⟨?_, hkk⟩
  rw [hg, ← hk]
  refine LocalUpd.trans ?_ (lu_setAttr _ "~kind" _ hkk (by decide))
  refine LocalUpd.trans ?_ (by
    rw [freshId_snd]
    exact lu_setId _ hkk hI.ni (by
      rw [nextId_setAttr, nextId_setAttr, nextId_ensureGroup, nextId_ensureGroup, nextId_freshId]; omega))
  refine LocalUpd.trans ?_ (lu_setAttr _ "type" _ hkk (by decide))
  refine LocalUpd.trans ?_ (lu_setAttr _ "name" _ hkk (by decide))
  exact h0.trans (h1.trans h2)

/-- `Section.create_section` (on a section; `File.create_section` is a call on the file, not on the copy) -/
theorem lu_createSection {g g' : Graph} (hI : SideInv S M g) {p : Path} {name type : String} {o : Loc}
    (hp : p ≠ []) (hr : resolve g rootLoc p = some o) (ho : S o.key)
    (hop : createSection g p name type = .ok g') : LocalUpd S M g g' := by
  cases p with
  | nil => exact absurd rfl hp
  | cons s ps =>
    unfold createSection at hop
    simp only [hr] at hop
    repeat' split at hop
    all_goals (try cases hop)
    have h1 := lu_ensureGroup (M := M) hI "sections" ho
    cases he : entityCreateNew (g.ensureGroup o.key "sections").1 o.key "sections" name type "section" with
    | error e => rw [he] at hop; cases hop
    | ok r =>
      rw [he] at hop
      cases hop
      exact h1.trans (lu_entityCreateNew (h1.inv hI) ho he).1

theorem lu_addDataset {g : Graph} (hI : SideInv S M g) {k : Nat} (name : String) (hk : S k) :
    LocalUpd S M g (addDataset g k name) := by
  unfold addDataset
  split
  · exact LocalUpd.refl g
  · exact (lu_newNode g .dataset).trans (lu_addLink _ name hk hI.next)

theorem lu_createIn {g g' : Graph} (hI : SideInv S M g) {p : Path} {what name type : String} {extra : Option Nat}
    {o : Loc} (hr : resolve g rootLoc p = some o) (ho : S o.key) (hx : ∀ t, extra = some t → S t)
    (hop : createIn g p what name type extra = .ok g') : LocalUpd S M g g' := by
  unfold createIn at hop
  simp only [hr] at hop
  split at hop
  · cases hop
  · rename_i cname kind hspec
    split at hop
    · cases hop
    · generalize hg0 : (if (kindOf g o.key == "source") = true then (g.ensureGroup o.key cname).fst else g) = g0 at hop
      have h0 : LocalUpd S M g g0 := by
        rw [← hg0]; split
        · exact lu_ensureGroup hI cname ho
        · exact LocalUpd.refl g
      have hI0 := h0.inv hI
      repeat' split at hop
      all_goals (try cases hop)
      all_goals first
        | exact h0.trans ((lu_entityCreateNew hI0 ho ‹_›).1.trans
            (lu_createLinkIn _ _ (lu_entityCreateNew hI0 ho ‹_›).2 (hx _ rfl)))
        | exact h0.trans ((lu_entityCreateNew hI0 ho ‹_›).1.trans
            (lu_addDataset ((lu_entityCreateNew hI0 ho ‹_›).1.inv hI0) _ (lu_entityCreateNew hI0 ho ‹_›).2))
        | exact h0.trans (lu_entityCreateNew hI0 ho ‹_›).1

/-- `BaseTag.create_feature` -/
theorem lu_createFeature {g g' : Graph} (hI : SideInv S M g) {p : Path} {data : Option Nat} {lt : String} {o : Loc}
    (hr : resolve g rootLoc p = some o) (ho : S o.key) (hx : ∀ t, data = some t → S t)
    (hop : createFeature g p data lt = .ok g') : LocalUpd S M g g' := by
  unfold createFeature at hop
  simp only [hr] at hop
  repeat' split at hop
  all_goals (try cases hop)
  all_goals
    have ht := hx _ rfl
    have h0 := lu_freshId (S := S) (M := M) g
    have hI0 := h0.inv hI
    have h1 := lu_ensureGroup hI0 "features" ho
    have hc := ensureGroup_ge hI0 "features" ho
    have hI1 := h1.inv hI0
    have h2 := lu_ensureGroup hI1 (g.freshId).2 hc
    have hk := ensureGroup_ge hI1 (g.freshId).2 hc
    refine LocalUpd.trans ?_ (lu_createLinkIn _ "data" hk ht)
    refine LocalUpd.trans ?_ (lu_setAttr _ "target_type" _ hk (by decide))
    refine LocalUpd.trans ?_ (lu_setAttr _ "link_type" _ hk (by decide))
    refine LocalUpd.trans ?_ (lu_setAttr _ "~kind" _ hk (by decide))
    refine LocalUpd.trans ?_ (by
      rw [freshId_snd]
      exact lu_setId _ hk hI.ni (by rw [nextId_ensureGroup, nextId_ensureGroup, nextId_freshId]; omega))
    exact h0.trans (h1.trans h2)

end Nix.Store.C20
